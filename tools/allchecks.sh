#!/bin/bash
# runs every registered check of the given tier on the current tree; prints one line per check
cd "$(dirname "$0")/.."
tier=${1:-quick}
ids=$(python3 -c "
import json; print(' '.join(c['property_id'] for c in json.load(open('MANIFEST.json'))['checks']))")
for id in $ids; do
  ./check $id $tier 2>&1 | grep -E "^VIOLATION|^KNOWN|^check "
done
