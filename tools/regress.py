#!/usr/bin/env python3
"""
regress.py [--copies N] [--benign] [seed-name ...]

Regression run of the seeded changes (default: all of seeded/*) and, with --benign, of the behaviour-preserving
diffs in benign/*.diff: the work is spread over N scratch copies of /verif under /var/tmp (each with its own Lean
build and evidence directory), every seed is applied in a scratch worktree of /repo (tools/seedtest.py --wt, /repo
itself is never touched) and checked with the quick tier of its property; a benign diff is checked with the quick
tier of the properties anchored in the files it touches and must raise no alarm. Results: one line per item on
stdout, meta.json of every seed updated in /verif (ran[]), summary at the end.
"""
import json
import os
import subprocess
import sys
import threading

VERIF = os.path.dirname(os.path.dirname(os.path.abspath(__file__)))

BENIGN_PROPS = {
    "B2": ["C03", "C06", "C07", "C14", "C01", "C12"],
    "B3": ["C02", "C04", "C05", "C01", "C11", "C12", "C13"],
    "B4": ["C08", "C09", "C10", "C11", "C19"],
    "B5": ["C12", "C13", "C19", "C04"],
    "B7": ["C15", "C06", "C14", "C04", "C03", "C05"],
    "B8": ["C17"],
    "B9": ["C15", "C06", "C14", "C04", "C05", "C02", "C03"],
}


def sh(cmd, cwd=None):
    return subprocess.run(cmd, cwd=cwd, shell=True, stdout=subprocess.PIPE, stderr=subprocess.STDOUT, text=True)


def main():
    args = sys.argv[1:]
    copies = 3
    if "--copies" in args:
        copies = int(args[args.index("--copies") + 1])
        del args[args.index("--copies"):args.index("--copies") + 2]
    benign = "--benign" in args
    verify = " --verify" if "--verify" in args else ""
    names = [a for a in args if not a.startswith("--")]
    items = []
    if names or not benign:
        seeds = names or sorted(os.listdir(os.path.join(VERIF, "seeded")))
        items += [("seed", s) for s in seeds if os.path.exists(os.path.join(VERIF, "seeded", s, "patch.diff"))]
    if benign:
        items += [("benign", f[:-5]) for f in sorted(os.listdir(os.path.join(VERIF, "benign"))) if f.endswith(".diff")]
    lock = threading.Lock()
    results = {}
    it = iter(items)

    def worker(k):
        cp = "/var/tmp/verif-regress-%d" % k
        sh("rsync -a --delete %s/ %s/" % (VERIF, cp))
        sh("git checkout -q -- evidence replays", cwd=cp)
        while True:
            with lock:
                try:
                    kind, name = next(it)
                except StopIteration:
                    return
            if kind == "seed":
                p = sh("python3 tools/seedtest.py seeded/%s --wt --record%s" % (name, verify), cwd=cp)
                ok = p.returncode == 0
                vio = [l for l in p.stdout.splitlines() if l.startswith("VIOLATION")]
                src = os.path.join(cp, "seeded", name)
                dst = os.path.join(VERIF, "seeded", name)
                sh("cp %s/meta.json %s/meta.json; rm -rf %s/replays; [ -d %s/replays ] && cp -r %s/replays %s/" % (src, dst, dst, src, src, dst))
                with lock:
                    results[(kind, name)] = ok
                    print("%s %-8s %s  %s" % (kind, name, "DETECTED" if ok else "MISSED  ", " | ".join(v.split("replay=")[-1].split("/")[-1] for v in vio[:2])), flush=True)
            else:
                props_ = BENIGN_PROPS.get(name.split("-")[0], [])
                p = sh("python3 tools/wtrun.py benign/%s.diff %s" % (name, " ".join(props_)), cwd=cp)
                vio = [l for l in p.stdout.splitlines() if l.startswith("VIOLATION")]
                with lock:
                    results[(kind, name)] = not vio
                    print("%s %-8s %s  %s" % (kind, name, "quiet   " if not vio else "ALARM   ", " | ".join(vio[:3])), flush=True)

    ts = [threading.Thread(target=worker, args=(k,)) for k in range(copies)]
    for t in ts:
        t.start()
    for t in ts:
        t.join()
    bad = [n for (k, n), ok in results.items() if not ok]
    print("SUMMARY: %d items, %d not as expected: %s" % (len(results), len(bad), " ".join(sorted(bad))))


if __name__ == "__main__":
    main()
