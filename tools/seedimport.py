#!/usr/bin/env python3
"""
seedimport.py <worktree> <seed-name> <property> <demo_dst> <demo_cmd> <needs_to_manifest>

Copies a sub-agent's deliverables (<worktree>/.seed/{patch.diff,README.md,<demo file>}) into
/verif/seeded/<seed-name>/ and writes meta.json. The demonstration file is the only *_test.go / main.go
in .seed/. Then run tools/seedtest.py seeded/<seed-name> --verify --record.
"""
import json
import os
import shutil
import sys

VERIF = os.path.dirname(os.path.dirname(os.path.abspath(__file__)))


def main():
    wt, name, prop, demo_dst, demo_cmd, needs = sys.argv[1:7]
    src = os.path.join(wt, ".seed")
    dst = os.path.join(VERIF, "seeded", name)
    os.makedirs(dst, exist_ok=True)
    shutil.copy(os.path.join(src, "patch.diff"), os.path.join(dst, "patch.diff"))
    if os.path.exists(os.path.join(src, "README.md")):
        shutil.copy(os.path.join(src, "README.md"), os.path.join(dst, "AGENT_README.md"))
    demos = [f for f in os.listdir(src) if f.endswith(".go")]
    demo_src = None
    if demos:
        demo_src = demos[0]
        shutil.copy(os.path.join(src, demo_src), os.path.join(dst, demo_src))
    else:
        dirs = [f for f in os.listdir(src) if os.path.isdir(os.path.join(src, f))]
        if dirs:
            demo_src = dirs[0]
            shutil.copytree(os.path.join(src, demo_src), os.path.join(dst, demo_src), dirs_exist_ok=True)
    meta = {
        "property": prop,
        "source": os.environ.get("SEED_SOURCE", "fresh sub-agent given only the property text and a scratch worktree"),
        "demo_src": demo_src, "demo_dst": demo_dst, "demo_cmd": demo_cmd,
        "needs_to_manifest": needs,
    }
    json.dump(meta, open(os.path.join(dst, "meta.json"), "w"), indent=1)
    print("imported", dst, "demo", demo_src)


if __name__ == "__main__":
    main()
