#!/usr/bin/env python3
"""
extract.py <repo> <out.lean>

Regenerates lean/Pulsar/Extracted.lean from the *literal* tables and constants of the Go source that
the model consumes (DESIGN §1.5). Only literals are read; expressions/statements are never translated.
The output is byte-identical when the literals are unchanged (no Lean rebuild on the common path).
Exit 1 (and the previous file is kept) when a table cannot be located.
"""
import os
import re
import sys

KINDS = {
    "BoolKind": "bool", "EnumKind": "enum", "Int32Kind": "int32", "Sint32Kind": "sint32", "Uint32Kind": "uint32",
    "Int64Kind": "int64", "Sint64Kind": "sint64", "Uint64Kind": "uint64", "Sfixed32Kind": "sfixed32",
    "Fixed32Kind": "fixed32", "FloatKind": "float", "Sfixed64Kind": "sfixed64", "Fixed64Kind": "fixed64",
    "DoubleKind": "double", "StringKind": "string", "BytesKind": "bytes",
}
WT = {"VarintType": 0, "Fixed64Type": 1, "BytesType": 2, "StartGroupType": 3, "EndGroupType": 4, "Fixed32Type": 5}


def die(msg):
    print("extract: " + msg)
    sys.exit(1)


def block(src, start_pat):
    m = re.search(start_pat, src)
    if not m:
        return None
    i = src.index("{", m.end() - 1)
    depth, j = 0, i
    while j < len(src):
        if src[j] == "{":
            depth += 1
        elif src[j] == "}":
            depth -= 1
            if depth == 0:
                return src[i + 1:j]
        j += 1
    return None


def main():
    repo, out = sys.argv[1], sys.argv[2]
    rd = lambda p: open(os.path.join(repo, p)).read()
    # --- generator/helpers.go: wireTypes
    b = block(rd("generator/helpers.go"), r"var\s+wireTypes\s*=\s*map\[protoreflect\.Kind\]protowire\.Type\s*\{")
    if b is None:
        die("wireTypes table not found in generator/helpers.go")
    wt = {}
    msg_wt = None
    for k, t in re.findall(r"protoreflect\.(\w+)\s*:\s*protowire\.(\w+)", b):
        if t not in WT:
            die("unknown wire type " + t)
        if k == "MessageKind":
            msg_wt = WT[t]
        elif k in KINDS:
            wt[KINDS[k]] = WT[t]
    missing = [v for v in KINDS.values() if v not in wt]
    if missing or msg_wt is None:
        die("wireTypes lacks entries for %s" % (missing or "MessageKind"))
    # --- cmd/protoc-gen-go-pulsar/main.go: reservedFieldNames
    b = block(rd("cmd/protoc-gen-go-pulsar/main.go"), r"var\s+reservedFieldNames\s*=\s*map\[string\]struct\{\}\s*\{")
    if b is None:
        die("reservedFieldNames not found")
    reserved = re.findall(r'"(\w+)"\s*:', b)
    # --- features/fastreflection/proto_size.go: kindToGoType (admissible map-key kinds)
    b = block(rd("features/fastreflection/proto_size.go"), r"var\s+kindToGoType\s*=\s*map\[protoreflect\.Kind\]string\s*\{")
    if b is None:
        die("kindToGoType not found")
    keykinds = [KINDS[k] for k in re.findall(r"protoreflect\.(\w+)\s*:", b) if k in KINDS]
    # --- rapidproto
    rp = rd("rapidproto/rapidproto.go")
    m = re.search(r"const\s+depthLimit\s*=\s*(\d+)", rp)
    if not m:
        die("depthLimit not found")
    depth_limit = int(m.group(1))
    def rng(fn, label):
        fb = block(rp, r"func\s+\(opts GeneratorOptions\)\s+%s\(" % fn)
        if fb is None:
            die(fn + " not found")
        mm = re.search(r"rapid\.Int\d+Range\(([^,\n]+),\s*([^\n]+?)\)\.Draw\(t,\s*\"%s\"\)" % label, fb)
        if not mm:
            die("range for %s in %s not found" % (label, fn))
        return mm.group(1).strip(), mm.group(2).strip()
    def lit(x):
        x = x.strip()
        if re.fullmatch(r"-?\d+", x):
            return int(x)
        if x in ("int64(MaxDurationSeconds)", "MaxDurationSeconds"):
            return "maxDurationSeconds"
        die("non-literal range bound: " + x)
    ts_s = [lit(x) for x in rng("genTimestamp", "seconds")]
    ts_n = [lit(x) for x in rng("genTimestamp", "nanos")]
    du_s = [lit(x) for x in rng("genDuration", "seconds")]
    du_n = [lit(x) for x in rng("genDuration", "nanos")]
    m = re.search(r"MaxDurationSeconds\s*=\s*int64\(math\.MaxInt64/int\(1e9\)\)\s*-\s*1", rp)
    max_dur = 9223372036854775807 // 1000000000 - 1 if m else None
    if max_dur is None:
        m = re.search(r"MaxDurationSeconds\s*=\s*(\d+)", rp)
        if not m:
            die("MaxDurationSeconds not found")
        max_dur = int(m.group(1))
    names = {}
    for n in ("timestampFullName", "durationFullName", "anyFullName", "fieldMaskFullName"):
        m = re.search(n + r'\s*=\s*"([^"]+)"', rp)
        if not m:
            die(n + " not found")
        names[n] = m.group(1)
    # list draw bounds in setFieldValue
    m = re.search(r"rapid\.IntRange\(min,\s*(\d+)\)", rp)
    list_max = int(m.group(1)) if m else die("list length range not found")
    # --- timepb
    tp = rd("support/timepb/cmp.go")
    if not re.search(r"const\s+second\s*=\s*int32\(time\.Second\)", tp):
        die("timepb second constant not found")

    def iv(x):
        return "Extracted.maxDurationSeconds" if x == "maxDurationSeconds" else ("(%d)" % x if x < 0 else str(x))

    order = ["bool", "enum", "int32", "sint32", "uint32", "int64", "sint64", "uint64", "sfixed32", "fixed32", "float",
             "sfixed64", "fixed64", "double", "string", "bytes"]
    L = []
    L.append("/-\n  GENERATED by /verif/tools/extract.py from the Go source of /repo's working tree — do not edit.\n"
             "  Literal tables and constants that the model consumes instead of hard-coding (DESIGN §1.5).\n-/")
    L.append("import Pulsar.Schema\nnamespace Pulsar.Extracted\nopen Pulsar\n")
    L.append("/-- generator/helpers.go: `wireTypes` -/\ndef wireType : Kind → Nat")
    for k in order:
        L.append("  | .%s => %d" % (k, wt[k]))
    L.append("\n/-- generator/helpers.go: wire type of MessageKind -/\ndef messageWireType : Nat := %d\n" % msg_wt)
    L.append("/-- cmd/protoc-gen-go-pulsar/main.go: `reservedFieldNames` -/\ndef reservedFieldNames : List String :=\n  [%s]\n"
             % ", ".join('"%s"' % r for r in reserved))
    L.append("/-- features/fastreflection/proto_size.go: kinds present in `kindToGoType` (admissible as map keys) -/\n"
             "def mapKeyKinds : List Kind :=\n  [%s]\n" % ", ".join("." + k for k in keykinds))
    L.append("/-- rapidproto/rapidproto.go -/\ndef depthLimit : Nat := %d" % depth_limit)
    L.append("def maxDurationSeconds : Int := %d" % max_dur)
    L.append("def listMax : Nat := %d" % list_max)
    L.append("def tsSecondsRange : Int × Int := (%s, %s)" % (iv(ts_s[0]), iv(ts_s[1])))
    L.append("def tsNanosRange : Int × Int := (%s, %s)" % (iv(ts_n[0]), iv(ts_n[1])))
    L.append("def durSecondsRange : Int × Int := (%s, %s)" % (iv(du_s[0]).replace("Extracted.", ""), iv(du_s[1]).replace("Extracted.", "")))
    L.append("def durNanosRange : Int × Int := (%s, %s)" % (iv(du_n[0]), iv(du_n[1])))
    for n, v in names.items():
        L.append('def %s : String := "%s"' % (n, v))
    L.append("\nend Pulsar.Extracted\n")
    text = "\n".join(L)
    old = open(out).read() if os.path.exists(out) else None
    if old != text:
        with open(out, "w") as f:
            f.write(text)
        print("extract: rewrote %s (%d wire types, %d reserved names)" % (out, len(wt), len(reserved)))
    else:
        print("extract: unchanged (%d wire types, %d reserved names, depthLimit=%d)" % (len(wt), len(reserved), depth_limit))


if __name__ == "__main__":
    main()
