#!/usr/bin/env python3
"""Prints the markdown table of seeded changes (seeded/*/meta.json) for DESIGN.md §A.7."""
import glob, json, os
VERIF = os.path.dirname(os.path.dirname(os.path.abspath(__file__)))
rows = []
for d in sorted(glob.glob(os.path.join(VERIF, "seeded", "*"))):
    mp = os.path.join(d, "meta.json")
    if not os.path.exists(mp):
        continue
    m = json.load(open(mp))
    caught = []
    keys = []
    for r in m.get("ran", []):
        for pid, lines in r.get("violation_lines", {}).items():
            if lines:
                caught.append(pid)
                for l in lines[:2]:
                    k = l.split("replay=")[-1].split("/")[-1].replace(".txt", "")
                    k = k.split("-quick-")[-1].split("-thorough-")[-1]
                    if "no-failing-input-found" in l:
                        k += " (obligation only)"
                    keys.append(k)
    ver = m.get("verified", {})
    ok = ver.get("suite_passes_with_change") and ver.get("demo_exit_with_change") not in (0, None) and ver.get("demo_exit_without_change") == 0
    rows.append("| `%s` | %s | %s | %s | %s | %s |" % (
        os.path.basename(d), m["property"], m["needs_to_manifest"].replace("|", "/")[:230],
        "yes" if ok else "see meta", ", ".join(sorted(set(caught))) or "**missed**", "; ".join(dict.fromkeys(keys))[:160]))
print("| seed | property | what it needs to manifest | confirmed (suite passes, demo fails/passes) | caught by check(s) | first replay key(s) |")
print("|---|---|---|---|---|---|")
print("\n".join(rows))
