import json, os, glob, sys
props = {}
for l in open('/verif/properties.jsonl'):
    p = json.loads(l); props[p['id']] = p
earlier = {}
for d in sorted(glob.glob('/verif/seeded/*')):
    try: m = json.load(open(d + '/meta.json'))
    except Exception: continue
    earlier.setdefault(m['property'], []).append(m.get('needs_to_manifest', ''))
STEER = {
 'A': "a TEMPLATE change (features/fastreflection/*.go, features/protoc/*.go, generator/*.go, cmd/protoc-gen-go-pulsar/main.go) that is visible only in freshly generated code for schema shapes that do not occur in the repository's own .proto files (so the checked-in *.pulsar.go stay consistent with the template and the suite passes)",
 'B': "a change that needs a specific multi-step SEQUENCE of API calls or two cooperating code sites, each of which looks fine alone, to manifest",
 'C': "a change that needs an UNUSUAL INPUT: an exact quantity, a boundary of an integer width, a conjunction of two rare conditions in one input, or a fault / error return at a particular point",
}
def prompt(pid, wt, steer):
    p = props[pid]
    files = p['anchors']['files']
    ideas = earlier.get(pid, [])
    return f"""You are helping to evaluate how good a verification setup is at detecting subtle regressions (mutation testing / fault seeding for a research study; nothing you write is ever committed or shipped).

Repository: cosmos/cosmos-proto (protoc-gen-go-pulsar: a protobuf Go code generator emitting fast-reflection accessors and hand-rolled marshal/unmarshal/size methods for google.golang.org/protobuf). You have your OWN scratch git worktree of it at {wt} . Work ONLY inside that directory (never touch /repo or /verif, never read /verif). The sandbox has no network. For every Go command use:
  export GOFLAGS=-mod=mod GOPROXY=off GOSUMDB=off GOTOOLCHAIN=local
There is no protoc; if you need freshly generated code for a new schema, drive the plugin yourself from Go: build a pluginpb.CodeGeneratorRequest from descriptorpb values (parameter e.g. "features=protoc+fast"), marshal it, pipe it to the plugin binary built from your worktree (go build ./cmd/protoc-gen-go-pulsar), and write the response files into a package inside the worktree. The checked-in generated files are testpb/1.pulsar.go, 2.pulsar.go, 3.pulsar.go and internal/testprotos/test3/*.pulsar.go; the repository's test suite is `go test -vet=off -count=1 ./...` (it never runs the generator).

THE PROPERTY (id {pid}): {p['title']}
Statement: {p['statement']}
Quantified over: {p['quantifier']['text']}
Code it is anchored in: {', '.join(files)}

YOUR TASK: write ONE realistic change to the repository (the kind of thing that could slip through code review as an optimisation, refactoring, clean-up or feature) that BREAKS this property, while
  1. the whole repository still compiles (`go build ./...`),
  2. the existing test suite, unedited, still passes (`go test -vet=off -count=1 ./...`),
  3. you have a demonstration (a Go test file or small main program placed inside the worktree) that FAILS with your change and PASSES without it (check both: `git stash` / `git apply -R` to compare).
If you change a template, decide whether the checked-in *.pulsar.go files should be updated consistently (by hand or by regenerating them) - a template change that leaves them alone is fine as long as it is realistic.

The change must NOT be one that ordinary use would expose at once. Assume the property is guarded by a strong randomized differential test harness that compares the code with the reference implementation (dynamicpb / protowire / big-integer arithmetic) on many generated schemas, values, byte streams and operation histories, including boundary values, nil states, race detector runs and regeneration of code for a schema corpus. Make your change need something SPECIFIC to manifest. Preferred flavour for you: {STEER[steer]}. Other acceptable flavours: a particular interleaving of goroutines, a crash or fault at a particular point, state carried between calls, an exact quantity.

Ideas that were ALREADY used for this property - stay away from them and from close variants:
""" + ''.join(f"  - {i}\n" for i in ideas) + f"""
DELIVERABLES - put them in {wt}/.seed/ :
  - patch.diff : `git diff` of your change to tracked files (WITHOUT the demonstration file), applicable with `git apply` to a clean checkout of the same commit;
  - exactly one demonstration: either ONE file named zz_seed_test.go (a Go test; say into which package directory of the repository it has to be copied and the `go test -vet=off -count=1 -run <Name> ./<pkg>/` command that runs it) or ONE directory with a main program;
  - README.md : the change, which clause of the property it breaks, exactly what is needed for the break to manifest, the commands you ran and their results (suite passes with change; demo fails with, passes without).
Leave the worktree with your change applied. In your final answer state: the one-line description of what is needed to manifest, the demo destination path inside the repository, and the exact demo command.
"""
for a in sys.argv[1:]:
    pid, steer = a.split(':')
    wt = f"/tmp/seedwt/{pid}"
    open(f"/tmp/seedwt/{pid}/.seed/TASK.md", 'w').write(prompt(pid, wt, steer))
    print(pid, len(earlier.get(pid, [])))
