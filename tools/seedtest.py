#!/usr/bin/env python3
"""
seedtest.py <seed-dir> [<property-id> ...]

Runs registered checks against a seeded change kept under /verif/seeded/<name>/ (patch.diff + meta.json):
applies the patch to /repo (git apply), runs `./check <pid> quick` for every property given (default: the
property recorded in meta.json), prints which of them report a VIOLATION, and ALWAYS reverts /repo
afterwards (git apply -R, then a safety `git checkout -- .`). Exit status 0 iff at least one check fired.

With --verify it first confirms, in a scratch worktree under /tmp, that the change compiles, that the
repository's own test suite still passes with it, and that the demonstration fails with and passes
without the change (meta.json: demo_dst = path of the demo inside the repo, demo_cmd = command).
"""
import json
import os
import subprocess
import sys
import shutil

VERIF = os.path.dirname(os.path.dirname(os.path.abspath(__file__)))
REPO = "/repo"
ENV = dict(os.environ, GOFLAGS="-mod=mod", GOPROXY="off", GOSUMDB="off", GOTOOLCHAIN="local")


def sh(cmd, cwd=None, check=False):
    p = subprocess.run(cmd, cwd=cwd, shell=True, env=ENV, stdout=subprocess.PIPE, stderr=subprocess.STDOUT, text=True)
    if check and p.returncode != 0:
        raise RuntimeError("%s\n%s" % (cmd, p.stdout[-3000:]))
    return p


def verify(seed, meta):
    wt = "/tmp/seedverify-%d" % os.getpid()
    sh("git -C %s worktree add -q --detach %s HEAD" % (REPO, wt), check=True)
    try:
        patch = os.path.join(seed, "patch.diff")
        sh("git apply %s" % patch, cwd=wt, check=True)
        b = sh("go build ./...", cwd=wt)
        t = sh("go test -vet=off -count=1 ./...", cwd=wt)
        suite_ok = b.returncode == 0 and t.returncode == 0
        demo_with = demo_without = None
        if meta.get("demo_src"):
            dst = os.path.join(wt, meta["demo_dst"])
            os.makedirs(os.path.dirname(dst), exist_ok=True)
            src = os.path.join(seed, meta["demo_src"])
            if os.path.isdir(src):
                shutil.copytree(src, dst, dirs_exist_ok=True)
            else:
                shutil.copy(src, dst)
            d1 = sh(meta["demo_cmd"], cwd=wt)
            demo_with = d1.returncode
            sh("git apply -R %s" % patch, cwd=wt, check=True)
            d2 = sh(meta["demo_cmd"], cwd=wt)
            demo_without = d2.returncode
        return {"suite_passes_with_change": suite_ok, "demo_exit_with_change": demo_with, "demo_exit_without_change": demo_without,
                "suite_tail": (t.stdout or "")[-400:] if not suite_ok else ""}
    finally:
        sh("git -C %s worktree remove --force %s" % (REPO, wt))


def main():
    args = [a for a in sys.argv[1:] if not a.startswith("--")]
    seed = os.path.abspath(args[0])
    meta = json.load(open(os.path.join(seed, "meta.json")))
    pids = args[1:] or [meta["property"]]
    if "--verify" in sys.argv:
        vr = verify(seed, meta)
        print(json.dumps(vr, indent=1))
        meta["verified"] = vr
    patch = os.path.join(seed, "patch.diff")
    fired = {}
    use_wt = "--wt" in sys.argv      # run against a patched scratch worktree (VERIF_REPO) instead of /repo itself
    wt = "/tmp/seedrun-%d" % os.getpid()
    if not use_wt:
        st = sh("git -C %s status --porcelain" % REPO)
        if st.stdout.strip():
            print("refusing: /repo working tree is not clean:\n" + st.stdout)
            sys.exit(2)
    try:
        env = dict(ENV)
        if use_wt:
            sh("git -C %s worktree add -q --detach %s HEAD" % (REPO, wt), check=True)
            sh("git apply %s" % patch, cwd=wt, check=True)
            env["VERIF_REPO"] = wt
        else:
            sh("git -C %s apply %s" % (REPO, patch), check=True)
        tier = "thorough" if "--thorough" in sys.argv else "quick"
        for pid in pids:
            p = subprocess.run("./check %s %s" % (pid, tier), cwd=VERIF, shell=True, env=env,
                               stdout=subprocess.PIPE, stderr=subprocess.STDOUT, text=True)
            lines = [l for l in p.stdout.splitlines() if l.startswith("VIOLATION") or l.startswith("check ")]
            fired[pid] = [l for l in lines if l.startswith("VIOLATION")]
            print("\n".join(lines))
        # keep the replays this seeded run produced with the seed (the shared replays/ directory is restored below)
        keep = os.path.join(seed, "replays")
        shutil.rmtree(keep, ignore_errors=True)
        for pid, lines in fired.items():
            for l in lines[:3]:
                for tok in l.split():
                    if tok.startswith("replay=") and os.path.exists(tok[7:]):
                        os.makedirs(keep, exist_ok=True)
                        shutil.copy(tok[7:], os.path.join(keep, os.path.basename(tok[7:])))
    finally:
        if use_wt:
            sh("git -C %s worktree remove --force %s" % (REPO, wt))
        else:
            sh("git -C %s apply -R %s" % (REPO, patch))
            sh("git -C %s checkout -- ." % REPO)
            sh("git -C %s clean -fdq" % REPO)
        # the checks rewrote evidence files on a modified tree: restore the committed ones
        sh("git -C %s checkout -- evidence" % VERIF)
        sh("git -C %s checkout -- replays; git -C %s clean -fdq replays" % (VERIF, VERIF))
        # ... and the regenerated parts of the Lean project
        sh("git -C %s checkout -- lean/Pulsar/Extracted.lean lean/Pulsar/ExtractedCode.lean lean/Pulsar/ExtractedFns.lean" % VERIF)
    print(json.dumps({k: len(v) for k, v in fired.items()}))
    if "--record" in sys.argv:
        import time
        meta.setdefault("ran", [])
        meta["ran"] = [r for r in meta["ran"] if r.get("checks") != sorted(fired)] + [{
            "cmd": "tools/seedtest.py %s %s%s" % (os.path.relpath(seed, VERIF), " ".join(pids), " --wt" if use_wt else ""),
            "checks": sorted(fired), "tier": tier,
            "violation_lines": {k: v[:3] for k, v in fired.items()},
            "detected": any(fired.values()), "at": time.strftime("%Y-%m-%dT%H:%M:%SZ", time.gmtime())}]
        if "--verify" in sys.argv:
            pass
        json.dump(meta, open(os.path.join(seed, "meta.json"), "w"), indent=1)
    sys.exit(0 if any(fired.values()) else 1)


if __name__ == "__main__":
    main()
