// go2lean: a small translator from a fragment of Go to Lean 4 definitions (shallow embedding).
//
//	go2lean <out.lean> <report.json>        (run with the repository copy as working directory)
//
// For every function listed in `targets` it type-checks the package with go/types (source importer, offline) and
// emits one Lean definition `Pulsar.Xf.<pkg>_<Func>` that computes what the Go function computes:
//
//   - signed integers are `Int`, unsigned integers are `Nat`, every arithmetic result is wrapped to the width of
//     its static Go type (`wrap64`, `wrap32`, `% 2^64`, ...), so Go's wrap-around is part of the definition;
//   - `*timestamppb.Timestamp` / `*durationpb.Duration` are `Option Timepb.SN`, a nil dereference is `.panic`;
//   - every function returns `Res T` (value / error / panic); `panic(...)` is `.panic`;
//   - `[]byte` parameters that are written are threaded through and returned next to the result;
//   - `if` / early `return` become nested `if … then … else …` (the rest of the block is copied into both arms);
//   - `for` loops without `break`/`continue`/`return`/`goto` inside become a fuel-recursive helper (the fuel is
//     given per target; running out of fuel is the distinct outcome `.err .other`).
//
// Anything else (switch, labelled jumps, closures, calls outside the table, floating point, …) makes the FUNCTION
// untranslatable: it is listed in the report with the construct and position, no definition is emitted for it, and
// the check falls back to the behavioural tie for it (no alarm).
//
// The translator is part of the trusted base (DESIGN §4); it is kept small and purely syntax-directed.
package main

import (
	"encoding/json"
	"fmt"
	"go/ast"
	"go/constant"
	"go/importer"
	"go/parser"
	"go/token"
	"go/types"
	"os"
	"sort"
	"strings"
)

type target struct {
	Dir, Func string
	Fuel      string // Lean term for the loop fuel (may mention parameters), "" if no loop expected
}

var targets = []target{
	{"support/timepb", "IsZero", ""},
	{"support/timepb", "Compare", ""},
	{"support/timepb", "DurationIsNegative", ""},
	{"support/timepb", "overflowPanic", ""},
	{"support/timepb", "Add", ""},
	{"runtime", "Sov", ""},
	{"runtime", "Soz", ""},
	{"runtime", "nestedRecursionLimit", ""},
	{"runtime", "SizeInputToOptions", ""},
	{"runtime", "MarshalInputToOptions", ""},
	{"runtime", "UnmarshalInputToOptions", ""},
	{"runtime", "EncodeVarint", "10"},
	{"runtime", "Skip", "dAtA.length + 1; 11; 11; 11"},
	{"generator", "KeySize", "5"},
}

type unsupported struct{ msg string }

func bad(pos token.Pos, f string, a ...interface{}) {
	panic(unsupported{fmt.Sprintf(f, a...) + fmt.Sprintf(" @%d", pos)})
}

type pkgInfo struct {
	name   string
	fset   *token.FileSet
	info   *types.Info
	funcs  map[string]*ast.FuncDecl
	consts []string
	// package-level variables: written somewhere in a function body / their initialiser expression
	writtenGlobals map[types.Object]bool
	globalInit     map[types.Object]ast.Expr
}

type fnTr struct {
	p         *pkgInfo
	all       map[string]*pkgInfo // by dir
	fn        *ast.FuncDecl
	fuel      string
	helpers   []string // loop helper definitions, emitted before the function
	nloop     int
	written   map[string]bool // slice parameters written by the function
	resTy     string
	void      bool
	calls     map[string]bool
	errRes    bool               // the last declared result is `error`: it is folded into the Res outcome
	breakK    func(d int) string // what `break` means in the loop being translated
	loopNames map[*ast.ForStmt]string
	loopFuel  map[*ast.ForStmt]string
	inLoop    int // > 0 while translating the body of a loop with exits (break / return): results are Sum values
}

var leanKeywords = map[string]bool{"at": true, "from": true, "end": true, "fun": true, "open": true, "in": true, "do": true,
	"then": true, "else": true, "if": true, "let": true, "have": true, "show": true, "match": true, "with": true, "by": true,
	"where": true, "def": true, "theorem": true, "instance": true, "structure": true, "class": true, "namespace": true,
	"section": true, "variable": true, "import": true, "mutual": true, "type": true, "Type": true, "Prop": true, "Sort": true,
	"set_option": true, "deriving": true, "extends": true, "for": true, "unless": true, "return": true, "mut": true, "try": true,
	"catch": true, "finally": true, "break": true, "continue": true, "using": true, "local": true, "private": true, "protected": true}

func lname(s string) string {
	if leanKeywords[s] {
		return s + "_"
	}
	if s == "_" {
		return "_"
	}
	return s
}

// ---- types

type kind struct {
	signed bool
	bits   int
}

func basicKind(t types.Type) (kind, bool) {
	b, ok := t.Underlying().(*types.Basic)
	if !ok {
		return kind{}, false
	}
	switch b.Kind() {
	case types.Int, types.Int64:
		return kind{true, 64}, true
	case types.Int32:
		return kind{true, 32}, true
	case types.Int16:
		return kind{true, 16}, true
	case types.Int8:
		return kind{true, 8}, true
	case types.Uint, types.Uint64, types.Uintptr:
		return kind{false, 64}, true
	case types.Uint32:
		return kind{false, 32}, true
	case types.Uint16:
		return kind{false, 16}, true
	case types.Uint8:
		return kind{false, 8}, true
	case types.UntypedInt, types.UntypedRune:
		return kind{true, 64}, true
	}
	return kind{}, false
}

func isBool(t types.Type) bool {
	b, ok := t.Underlying().(*types.Basic)
	return ok && (b.Kind() == types.Bool || b.Kind() == types.UntypedBool)
}

// known struct types: Go type name (package path suffix + name) -> Lean type and field names
type structInfo struct {
	lean   string
	fields map[string]string
}

var structs = map[string]structInfo{
	"timestamppb.Timestamp": {"Timepb.SN", map[string]string{"Seconds": "sec", "Nanos": "nanos"}},
	"durationpb.Duration":   {"Timepb.SN", map[string]string{"Seconds": "sec", "Nanos": "nanos"}},
}

// records: struct types of other packages that appear as parameters / results of translated functions (option and
// input structs). Only their fields of integer and boolean type are kept (by name); fields of any other type
// (interfaces, byte slices, marker types) are dropped, and so are the elements of a composite literal that set them.
var records = map[string]structInfo{}
var recordDecls = map[string]string{}

func recordOf(t types.Type) (structInfo, bool) {
	// a defined struct type, or an alias of a struct type (protoiface declares its input structs as aliases)
	type named interface {
		Obj() *types.TypeName
		Underlying() types.Type
	}
	var n named
	switch x := t.(type) {
	case *types.Named:
		n = x
	case *types.Alias:
		n = x
	default:
		return structInfo{}, false
	}
	if n.Obj().Pkg() == nil {
		return structInfo{}, false
	}
	st, ok := n.Underlying().(*types.Struct)
	if !ok {
		return structInfo{}, false
	}
	key := n.Obj().Pkg().Name() + "_" + n.Obj().Name()
	if si, ok := records[key]; ok {
		return si, true
	}
	si := structInfo{lean: "Rec." + key, fields: map[string]string{}}
	var decl strings.Builder
	fmt.Fprintf(&decl, "/-- %s.%s (integer and boolean fields only) -/\nstructure %s where\n", n.Obj().Pkg().Path(), n.Obj().Name(), key)
	for i := 0; i < st.NumFields(); i++ {
		f := st.Field(i)
		ty := ""
		if k, ok := basicKind(f.Type()); ok {
			ty = "Nat"
			if k.signed {
				ty = "Int"
			}
		} else if isBool(f.Type()) {
			ty = "Bool"
		}
		if ty == "" {
			continue
		}
		si.fields[f.Name()] = f.Name()
		z := "0"
		if ty == "Bool" {
			z = "false"
		}
		fmt.Fprintf(&decl, "  %s : %s := %s\n", lname(f.Name()), ty, z)
	}
	if len(si.fields) == 0 {
		return structInfo{}, false
	}
	decl.WriteString("  deriving DecidableEq, Repr\n")
	records[key] = si
	recordDecls[key] = decl.String()
	return si, true
}

func knownStruct(t types.Type) (structInfo, bool) {
	if si, ok := knownStruct0(t); ok {
		return si, true
	}
	return recordOf(t)
}

func knownStruct0(t types.Type) (structInfo, bool) {
	n, ok := t.(*types.Named)
	if !ok {
		return structInfo{}, false
	}
	if n.Obj().Pkg() == nil {
		return structInfo{}, false
	}
	si, ok := structs[n.Obj().Pkg().Name()+"."+n.Obj().Name()]
	return si, ok
}

func (f *fnTr) leanTy(t types.Type, pos token.Pos) string {
	if k, ok := basicKind(t); ok {
		if k.signed {
			return "Int"
		}
		return "Nat"
	}
	if isBool(t) {
		return "Bool"
	}
	if p, ok := t.(*types.Pointer); ok {
		if si, ok := knownStruct(p.Elem()); ok {
			return "(Option " + si.lean + ")"
		}
	}
	if si, ok := knownStruct(t); ok {
		return si.lean
	}
	if s, ok := t.Underlying().(*types.Slice); ok {
		if b, ok := s.Elem().Underlying().(*types.Basic); ok && b.Kind() == types.Uint8 {
			return "Bytes"
		}
	}
	bad(pos, "unsupported type %s", t)
	return ""
}

func pow2(bits int) string {
	switch bits {
	case 8:
		return "256"
	case 16:
		return "65536"
	case 32:
		return "4294967296"
	}
	return "18446744073709551616"
}

// wrap a mathematical result to the Go type
func wrap(k kind, e string) string {
	if k.signed {
		switch k.bits {
		case 64:
			return "(wrap64 " + e + ")"
		case 32:
			return "(wrap32 " + e + ")"
		case 16:
			return "(Go.wrapS 65536 " + e + ")"
		default:
			return "(Go.wrapS 256 " + e + ")"
		}
	}
	return "(" + e + " % " + pow2(k.bits) + ")"
}

// ---- expressions: returns a Lean term; `pure` tells whether it is a plain value (else it is a `Res` computation)

type ex struct {
	s    string
	pure bool
}

func (f *fnTr) typeOf(e ast.Expr) types.Type {
	tv, ok := f.p.info.Types[e]
	if !ok {
		if id, ok := e.(*ast.Ident); ok {
			if o := f.p.info.Uses[id]; o != nil {
				return o.Type()
			}
			if o := f.p.info.Defs[id]; o != nil {
				return o.Type()
			}
		}
		bad(e.Pos(), "no type for expression")
	}
	return tv.Type
}

func constLit(v constant.Value, t types.Type, pos token.Pos) string {
	switch v.Kind() {
	case constant.Bool:
		if constant.BoolVal(v) {
			return "true"
		}
		return "false"
	case constant.Int:
		s := v.ExactString()
		k, ok := basicKind(t)
		if !ok {
			bad(pos, "constant of unsupported type %s", t)
		}
		if strings.HasPrefix(s, "-") {
			if !k.signed {
				bad(pos, "negative unsigned constant")
			}
			return "(" + s + ")"
		}
		if k.signed {
			return "(" + s + " : Int)"
		}
		return "(" + s + " : Nat)"
	}
	bad(pos, "unsupported constant kind")
	return ""
}

// bindAll evaluates the (possibly effectful) operands left to right and hands their values to `body`
func bindAll(xs []ex, body func(vals []string) string, n *int) ex {
	vals := make([]string, len(xs))
	allPure := true
	for _, x := range xs {
		if !x.pure {
			allPure = false
		}
	}
	if allPure {
		for i, x := range xs {
			vals[i] = x.s
		}
		return ex{body(vals), true}
	}
	var pre []string
	for i, x := range xs {
		if x.pure {
			vals[i] = x.s
		} else {
			*n++
			v := fmt.Sprintf("v%d_", *n)
			pre = append(pre, fmt.Sprintf("(%s) >>= fun %s => ", x.s, v))
			vals[i] = v
		}
	}
	return ex{"(" + strings.Join(pre, "") + "pure " + body(vals) + ")", false}
}

var tmpN int

func (f *fnTr) isNil(e ast.Expr) bool {
	id, ok := ast.Unparen(e).(*ast.Ident)
	if !ok {
		return false
	}
	_, isNil := f.p.info.Uses[id].(*types.Nil)
	return isNil
}

func (f *fnTr) expr(e ast.Expr) ex {
	e = ast.Unparen(e)
	if tv, ok := f.p.info.Types[e]; ok && tv.Value != nil {
		return ex{constLit(tv.Value, tv.Type, e.Pos()), true}
	}
	switch e := e.(type) {
	case *ast.Ident:
		switch o := f.p.info.Uses[e].(type) {
		case *types.Var:
			if o.Parent() == o.Pkg().Scope() {
				// a package-level variable that no function of the package assigns to (or takes the address of) is a
				// constant in all but name: its initialiser stands for it. One that IS written is state carried from
				// call to call: the function is then no function of its arguments, which is reported as such
				// (STATE: ...) and is a broken obligation of every strict group that needs the function.
				if f.p.writtenGlobals[o] {
					bad(e.Pos(), "STATE: package-level variable %s is written by the package's functions: the result depends on earlier calls", e.Name)
				}
				if init, ok := f.p.globalInit[o]; ok {
					return f.expr(init)
				}
				bad(e.Pos(), "package-level variable %s without a translatable initialiser", e.Name)
			}
			return ex{lname(e.Name), true}
		case *types.Nil:
			bad(e.Pos(), "nil outside a comparison")
		}
		bad(e.Pos(), "unsupported identifier %s", e.Name)
	case *ast.SelectorExpr:
		xt := f.typeOf(e.X)
		if p, ok := xt.(*types.Pointer); ok {
			if si, ok := knownStruct(p.Elem()); ok {
				fl, ok := si.fields[e.Sel.Name]
				if !ok {
					bad(e.Pos(), "unknown field %s", e.Sel.Name)
				}
				x := f.expr(e.X)
				if !x.pure {
					bad(e.Pos(), "effectful pointer expression")
				}
				return ex{"((Go.deref " + x.s + ") >>= fun s_ => pure s_." + fl + ")", false}
			}
		}
		if si, ok := knownStruct(xt); ok {
			fl, ok := si.fields[e.Sel.Name]
			if !ok {
				bad(e.Pos(), "unknown field %s", e.Sel.Name)
			}
			x := f.expr(e.X)
			return bindAll([]ex{x}, func(v []string) string { return v[0] + "." + fl }, &tmpN)
		}
		bad(e.Pos(), "unsupported selector %s", e.Sel.Name)
	case *ast.StarExpr:
		xt := f.typeOf(e.X)
		if p, ok := xt.(*types.Pointer); ok {
			if _, ok := knownStruct(p.Elem()); ok {
				x := f.expr(e.X)
				if !x.pure {
					bad(e.Pos(), "effectful pointer expression")
				}
				return ex{"(Go.deref " + x.s + ")", false}
			}
		}
		bad(e.Pos(), "unsupported dereference")
	case *ast.UnaryExpr:
		switch e.Op {
		case token.NOT:
			x := f.expr(e.X)
			return bindAll([]ex{x}, func(v []string) string { return "(!" + v[0] + ")" }, &tmpN)
		case token.SUB:
			k, ok := basicKind(f.typeOf(e))
			if !ok || !k.signed {
				bad(e.Pos(), "unary minus on non-signed")
			}
			x := f.expr(e.X)
			return bindAll([]ex{x}, func(v []string) string { return wrap(k, "(-"+v[0]+")") }, &tmpN)
		case token.AND:
			if _, ok := knownStruct(f.typeOf(e.X)); ok {
				x := f.expr(e.X)
				return bindAll([]ex{x}, func(v []string) string { return "(some " + v[0] + ")" }, &tmpN)
			}
		}
		bad(e.Pos(), "unsupported unary operator %s", e.Op)
	case *ast.BinaryExpr:
		return f.binary(e)
	case *ast.CallExpr:
		return f.call(e)
	case *ast.CompositeLit:
		si, ok := knownStruct(f.typeOf(e))
		if !ok {
			bad(e.Pos(), "unsupported composite literal")
		}
		var names []string
		var xs []ex
		for _, el := range e.Elts {
			kv, ok := el.(*ast.KeyValueExpr)
			if !ok {
				bad(el.Pos(), "unkeyed composite literal")
			}
			fl, ok := si.fields[kv.Key.(*ast.Ident).Name]
			if !ok {
				if strings.HasPrefix(si.lean, "Rec.") {
					continue // a field of a type outside the fragment: dropped (see `records`)
				}
				bad(kv.Pos(), "unknown field in literal")
			}
			names = append(names, fl)
			xs = append(xs, f.expr(kv.Value))
		}
		var all []string
		for _, fl := range si.fields {
			all = append(all, fl)
		}
		sort.Strings(all)
		return bindAll(xs, func(v []string) string {
			var parts []string
			for _, fl := range all {
				val := "0"
				set := false
				for i, n := range names {
					if n == fl {
						val = v[i]
						set = true
					}
				}
				if !set && strings.HasPrefix(si.lean, "Rec.") {
					continue // the structure's default (zero value)
				}
				parts = append(parts, lname(fl)+" := "+val)
			}
			return "({ " + strings.Join(parts, ", ") + " } : " + si.lean + ")"
		}, &tmpN)
	case *ast.IndexExpr:
		if f.leanTy(f.typeOf(e.X), e.Pos()) == "Bytes" {
			x, i := f.expr(e.X), f.toInt(e.Index)
			r := bindAll([]ex{x, i}, func(v []string) string { return "(Go.getAt " + v[0] + " " + v[1] + ")" }, &tmpN)
			if r.pure {
				return ex{r.s, false}
			}
			bad(e.Pos(), "effectful index expression")
		}
		bad(e.Pos(), "unsupported index expression")
	}
	bad(e.Pos(), "unsupported expression %T", e)
	return ex{}
}

// toInt: an integer expression as a Lean Int (for indexes)
func (f *fnTr) toInt(e ast.Expr) ex {
	k, ok := basicKind(f.typeOf(e))
	if !ok {
		bad(e.Pos(), "non-integer index")
	}
	x := f.expr(e)
	if k.signed {
		return x
	}
	return bindAll([]ex{x}, func(v []string) string { return "(" + v[0] + " : Int)" }, &tmpN)
}

func (f *fnTr) binary(e *ast.BinaryExpr) ex {
	switch e.Op {
	case token.LAND, token.LOR:
		a, b := f.expr(e.X), f.expr(e.Y)
		op := "&&"
		if e.Op == token.LOR {
			op = "||"
		}
		if b.pure {
			return bindAll([]ex{a}, func(v []string) string { return "(" + v[0] + " " + op + " " + b.s + ")" }, &tmpN)
		}
		// short circuit: the right operand is evaluated only when needed
		as := a.s
		if a.pure {
			as = "pure " + a.s
		}
		tmpN++
		v := fmt.Sprintf("c%d_", tmpN)
		if e.Op == token.LAND {
			return ex{fmt.Sprintf("((%s) >>= fun %s => if %s then %s else pure false)", as, v, v, b.s), false}
		}
		return ex{fmt.Sprintf("((%s) >>= fun %s => if %s then pure true else %s)", as, v, v, b.s), false}
	case token.EQL, token.NEQ, token.LSS, token.LEQ, token.GTR, token.GEQ:
		if f.isNil(e.Y) || f.isNil(e.X) {
			o := e.X
			if f.isNil(e.X) {
				o = e.Y
			}
			if e.Op != token.EQL && e.Op != token.NEQ {
				bad(e.Pos(), "ordered comparison with nil")
			}
			if _, ok := f.typeOf(o).(*types.Pointer); !ok {
				bad(e.Pos(), "nil comparison of a non-pointer")
			}
			x := f.expr(o)
			m := ".isNone"
			if e.Op == token.NEQ {
				m = ".isSome"
			}
			return bindAll([]ex{x}, func(v []string) string { return "(" + v[0] + ")" + m }, &tmpN)
		}
		tx := f.typeOf(e.X)
		if _, ok := basicKind(tx); !ok && !isBool(tx) {
			bad(e.Pos(), "comparison of unsupported type %s", tx)
		}
		op := map[token.Token]string{token.EQL: "=", token.NEQ: "≠", token.LSS: "<", token.LEQ: "≤", token.GTR: ">", token.GEQ: "≥"}[e.Op]
		a, b := f.expr(e.X), f.expr(e.Y)
		return bindAll([]ex{a, b}, func(v []string) string { return "(decide (" + v[0] + " " + op + " " + v[1] + "))" }, &tmpN)
	}
	k, ok := basicKind(f.typeOf(e))
	if !ok {
		bad(e.Pos(), "arithmetic on unsupported type %s", f.typeOf(e))
	}
	a, b := f.expr(e.X), f.expr(e.Y)
	switch e.Op {
	case token.SHL, token.SHR:
		// shift count: any unsigned or non-negative value; we need it as a Nat
		ck, _ := basicKind(f.typeOf(e.Y))
		if tv, ok := f.p.info.Types[ast.Unparen(e.Y)]; ok && tv.Value != nil {
			// constant shift count: the power of two is written out
			n, exact := constant.Uint64Val(constant.ToInt(tv.Value))
			if !exact || n > 200 {
				bad(e.Pos(), "shift count out of range")
			}
			p := constant.Shift(constant.MakeInt64(1), token.SHL, uint(n)).ExactString()
			ty := " : Nat)"
			if k.signed {
				ty = " : Int)"
			}
			return bindAll([]ex{a}, func(v []string) string {
				if e.Op == token.SHL {
					return wrap(k, "("+v[0]+" * ("+p+ty+")")
				}
				return "(" + v[0] + " / (" + p + ty + ")"
			}, &tmpN)
		}
		return bindAll([]ex{a, b}, func(v []string) string {
			c := v[1]
			if ck.signed {
				c = "(Int.toNat " + c + ")"
			}
			if e.Op == token.SHL {
				return wrap(k, "("+v[0]+" * 2 ^ "+c+")")
			}
			return "(" + v[0] + " / 2 ^ " + c + ")"
		}, &tmpN)
	}
	return bindAll([]ex{a, b}, func(v []string) string { return arith(k, e.Op, v[0], v[1], e.Pos()) }, &tmpN)
}

func arith(k kind, op token.Token, a, b string, pos token.Pos) string {
	switch op {
	case token.ADD:
		return wrap(k, "("+a+" + "+b+")")
	case token.MUL:
		return wrap(k, "("+a+" * "+b+")")
	case token.SUB:
		if k.signed {
			return wrap(k, "("+a+" - "+b+")")
		}
		return "((" + a + " + " + pow2(k.bits) + " - " + b + ") % " + pow2(k.bits) + ")"
	case token.QUO:
		if k.signed {
			return wrap(k, "(Int.tdiv "+a+" "+b+")")
		}
		return "(" + a + " / " + b + ")"
	case token.REM:
		if k.signed {
			return "(Int.tmod " + a + " " + b + ")"
		}
		return "(" + a + " % " + b + ")"
	case token.AND, token.OR, token.XOR:
		o := map[token.Token]string{token.AND: "&&&", token.OR: "|||", token.XOR: "^^^"}[op]
		if k.signed {
			// two's complement: on the bit patterns of the operands' width
			return "(Go.sbits " + pow2(k.bits) + " (fun x y => x " + o + " y) " + a + " " + b + ")"
		}
		return "(" + a + " " + o + " " + b + ")"
	}
	bad(pos, "unsupported operator %s", op)
	return ""
}

func (f *fnTr) convert(to types.Type, arg ast.Expr, pos token.Pos) ex {
	from := f.typeOf(arg)
	kt, ok1 := basicKind(to)
	kf, ok2 := basicKind(from)
	if !ok1 || !ok2 {
		bad(pos, "unsupported conversion %s -> %s", from, to)
	}
	x := f.expr(arg)
	return bindAll([]ex{x}, func(v []string) string {
		a := v[0]
		switch {
		case kt.signed && kf.signed:
			if kt.bits >= kf.bits {
				return a
			}
			return wrap(kt, a)
		case kt.signed && !kf.signed:
			if kt.bits > kf.bits {
				return "(" + a + " : Int)"
			}
			return wrap(kt, "("+a+" : Int)")
		case !kt.signed && kf.signed:
			return "(Int.toNat (" + a + " % " + pow2(kt.bits) + "))"
		default:
			if kt.bits >= kf.bits {
				return a
			}
			return "(" + a + " % " + pow2(kt.bits) + ")"
		}
	}, &tmpN)
}

func (f *fnTr) call(e *ast.CallExpr) ex {
	if tv, ok := f.p.info.Types[e.Fun]; ok && tv.IsType() {
		if len(e.Args) != 1 {
			bad(e.Pos(), "conversion with %d arguments", len(e.Args))
		}
		return f.convert(tv.Type, e.Args[0], e.Pos())
	}
	switch fun := ast.Unparen(e.Fun).(type) {
	case *ast.Ident:
		switch o := f.p.info.Uses[fun].(type) {
		case *types.Builtin:
			if o.Name() == "len" && len(e.Args) == 1 && f.leanTy(f.typeOf(e.Args[0]), e.Pos()) == "Bytes" {
				x := f.expr(e.Args[0])
				return bindAll([]ex{x}, func(v []string) string { return "(" + v[0] + ".length : Int)" }, &tmpN)
			}
			bad(e.Pos(), "unsupported builtin %s", o.Name())
		case *types.Func:
			if _, ok := f.p.funcs[fun.Name]; !ok {
				bad(e.Pos(), "call of unknown function %s", fun.Name)
			}
			if !isTarget(f.p.name, fun.Name) {
				bad(e.Pos(), "call of a function outside the translation table: %s", fun.Name)
			}
			f.calls[fun.Name] = true
			var xs []ex
			for _, a := range e.Args {
				xs = append(xs, f.expr(a))
			}
			r := bindAll(xs, func(v []string) string { return "(" + f.p.name + "_" + fun.Name + " " + strings.Join(v, " ") + ")" }, &tmpN)
			if r.pure {
				return ex{r.s, false}
			}
			// effectful arguments: r.s is `(… >>= fun v => pure (call))`; flatten by joining
			return ex{"(Go.join " + r.s + ")", false}
		}
	case *ast.SelectorExpr:
		if id, ok := fun.X.(*ast.Ident); ok {
			if pn, ok := f.p.info.Uses[id].(*types.PkgName); ok {
				if pn.Imported().Path() == "math/bits" && fun.Sel.Name == "Len64" && len(e.Args) == 1 {
					x := f.expr(e.Args[0])
					return bindAll([]ex{x}, func(v []string) string { return "(Go.bitsLen64 " + v[0] + ")" }, &tmpN)
				}
				bad(e.Pos(), "call of %s.%s", pn.Imported().Path(), fun.Sel.Name)
			}
		}
	}
	bad(e.Pos(), "unsupported call")
	return ex{}
}

func isTarget(pkg, fn string) bool {
	for _, t := range targets {
		if strings.HasSuffix(t.Dir, pkg) && t.Func == fn {
			return true
		}
	}
	return false
}

// ---- statements (continuation style: `k()` is the Lean term for whatever follows)

func ind(n int) string { return strings.Repeat("  ", n) }

func (f *fnTr) retTerm(vals []string) string {
	// result of the function: written slice parameters first, then the declared results
	var parts []string
	for _, w := range f.writtenList() {
		parts = append(parts, lname(w))
	}
	parts = append(parts, vals...)
	if len(parts) == 0 {
		return "pure ()"
	}
	if len(parts) == 1 {
		return "pure " + parts[0]
	}
	return "pure (" + strings.Join(parts, ", ") + ")"
}

// retInContext: `return vals` at the current place: inside a loop with exits the value travels out as `Sum.inr`
func (f *fnTr) retInContext(vals []string) string {
	t := f.retTerm(vals)
	if f.inLoop > 0 {
		return "pure (Sum.inr (" + strings.TrimPrefix(t, "pure ") + "))"
	}
	return t
}

// errCode: the model's name for a Go error value (only which error it is, never its text)
func (f *fnTr) errCode(e ast.Expr) string {
	name := ""
	switch x := ast.Unparen(e).(type) {
	case *ast.Ident:
		name = x.Name
	case *ast.SelectorExpr:
		name = x.Sel.Name
	case *ast.CallExpr:
		if sel, ok := x.Fun.(*ast.SelectorExpr); ok && sel.Sel.Name == "Errorf" && len(x.Args) > 0 {
			if tv, ok := f.p.info.Types[x.Args[0]]; ok && tv.Value != nil && strings.Contains(tv.Value.ExactString(), "illegal wireType") {
				return ".illegalWire"
			}
		}
		return ".other"
	}
	switch name {
	case "ErrIntOverflow":
		return ".overflow"
	case "ErrInvalidLength":
		return ".invalidLength"
	case "ErrUnexpectedEndOfGroup":
		return ".endGroup"
	case "ErrUnexpectedEOF":
		return ".eof"
	case "ErrRecursionDepth":
		return ".depth"
	}
	return ".other"
}

func (f *fnTr) writtenList() []string {
	var l []string
	for w := range f.written {
		l = append(l, w)
	}
	sort.Strings(l)
	return l
}

func (f *fnTr) stmts(list []ast.Stmt, d int, k func(d int) string) string {
	if len(list) == 0 {
		return k(d)
	}
	rest := func(d int) string { return f.stmts(list[1:], d, k) }
	return f.stmt(list[0], d, rest)
}

// assignTo: bind the Lean value `val` (a pure term) to the Go lvalue, then continue
func (f *fnTr) assignTo(lhs ast.Expr, val string, d int, k func(d int) string) string {
	switch l := ast.Unparen(lhs).(type) {
	case *ast.Ident:
		if l.Name == "_" {
			return k(d)
		}
		return ind(d) + "let " + lname(l.Name) + " := " + val + "\n" + k(d)
	case *ast.SelectorExpr:
		if si, ok := knownStruct(f.typeOf(l.X)); ok {
			if id, ok := ast.Unparen(l.X).(*ast.Ident); ok {
				fl, ok := si.fields[l.Sel.Name]
				if !ok {
					bad(l.Pos(), "unknown field")
				}
				n := lname(id.Name)
				return ind(d) + "let " + n + " := { " + n + " with " + fl + " := " + val + " }\n" + k(d)
			}
		}
		bad(l.Pos(), "unsupported assignment target (field)")
	case *ast.IndexExpr:
		if id, ok := ast.Unparen(l.X).(*ast.Ident); ok && f.leanTy(f.typeOf(l.X), l.Pos()) == "Bytes" {
			if !f.written[id.Name] {
				bad(l.Pos(), "write to a slice that is not a parameter")
			}
			i := f.toInt(l.Index)
			if !i.pure {
				bad(l.Pos(), "effectful index")
			}
			n := lname(id.Name)
			return ind(d) + "(Go.setAt " + n + " " + i.s + " " + val + ") >>= fun " + n + " =>\n" + k(d)
		}
		bad(l.Pos(), "unsupported assignment target (index)")
	}
	bad(lhs.Pos(), "unsupported assignment target")
	return ""
}

// withValue: evaluate e, give its value (a pure term or a bound variable) to body
func (f *fnTr) withValue(x ex, d int, body func(v string) string) string {
	if x.pure {
		return body(x.s)
	}
	tmpN++
	v := fmt.Sprintf("r%d_", tmpN)
	return ind(d) + x.s + " >>= fun " + v + " =>\n" + body(v)
}

func (f *fnTr) stmt(s ast.Stmt, d int, k func(d int) string) string {
	switch s := s.(type) {
	case *ast.BlockStmt:
		return f.stmts(s.List, d, k)
	case *ast.EmptyStmt:
		return k(d)
	case *ast.DeclStmt:
		gd, ok := s.Decl.(*ast.GenDecl)
		if !ok || gd.Tok != token.VAR {
			bad(s.Pos(), "unsupported declaration")
		}
		type bnd struct {
			name *ast.Ident
			val  ast.Expr
		}
		var bs []bnd
		for _, sp := range gd.Specs {
			vs := sp.(*ast.ValueSpec)
			for i, n := range vs.Names {
				var v ast.Expr
				if i < len(vs.Values) {
					v = vs.Values[i]
				}
				bs = append(bs, bnd{n, v})
			}
		}
		var rec func(i int, d int) string
		rec = func(i int, d int) string {
			if i == len(bs) {
				return k(d)
			}
			b := bs[i]
			if b.val == nil {
				t := f.p.info.Defs[b.name].Type()
				z := "0"
				if isBool(t) {
					z = "false"
				} else if _, ok := basicKind(t); !ok {
					bad(b.name.Pos(), "zero value of unsupported type %s", t)
				}
				return ind(d) + "let " + lname(b.name.Name) + " : " + f.leanTy(t, b.name.Pos()) + " := " + z + "\n" + rec(i+1, d)
			}
			return f.withValue(f.expr(b.val), d, func(v string) string { return f.assignTo(b.name, v, d, func(d int) string { return rec(i+1, d) }) })
		}
		return rec(0, d)
	case *ast.AssignStmt:
		if len(s.Lhs) != len(s.Rhs) {
			bad(s.Pos(), "multi-value assignment")
		}
		if s.Tok == token.ASSIGN || s.Tok == token.DEFINE {
			if len(s.Lhs) > 1 {
				bad(s.Pos(), "parallel assignment")
			}
			return f.withValue(f.expr(s.Rhs[0]), d, func(v string) string { return f.assignTo(s.Lhs[0], v, d, k) })
		}
		ops := map[token.Token]token.Token{token.ADD_ASSIGN: token.ADD, token.SUB_ASSIGN: token.SUB, token.MUL_ASSIGN: token.MUL,
			token.QUO_ASSIGN: token.QUO, token.REM_ASSIGN: token.REM, token.AND_ASSIGN: token.AND, token.OR_ASSIGN: token.OR,
			token.XOR_ASSIGN: token.XOR, token.SHL_ASSIGN: token.SHL, token.SHR_ASSIGN: token.SHR}
		op, ok := ops[s.Tok]
		if !ok {
			bad(s.Pos(), "unsupported assignment operator %s", s.Tok)
		}
		be := &ast.BinaryExpr{X: s.Lhs[0], Op: op, Y: s.Rhs[0], OpPos: s.TokPos}
		f.p.info.Types[be] = types.TypeAndValue{Type: f.typeOf(s.Lhs[0])}
		return f.withValue(f.binary(be), d, func(v string) string { return f.assignTo(s.Lhs[0], v, d, k) })
	case *ast.IncDecStmt:
		op := token.ADD
		if s.Tok == token.DEC {
			op = token.SUB
		}
		t := f.typeOf(s.X)
		kd, ok := basicKind(t)
		if !ok {
			bad(s.Pos(), "++/-- on unsupported type")
		}
		one := "(1 : Nat)"
		if kd.signed {
			one = "(1 : Int)"
		}
		x := f.expr(s.X)
		return f.withValue(x, d, func(v string) string { return f.assignTo(s.X, arith(kd, op, v, one, s.Pos()), d, k) })
	case *ast.ReturnStmt:
		var xs []ex
		results := s.Results
		if f.errRes && len(results) > 0 {
			last := results[len(results)-1]
			results = results[:len(results)-1]
			if !f.isNil(last) {
				return ind(d) + ".err " + f.errCode(last) + "\n"
			}
		}
		for _, r := range results {
			if f.isNil(r) {
				xs = append(xs, ex{"none", true})
			} else {
				xs = append(xs, f.expr(r))
			}
		}
		if len(s.Results) == 0 && !f.void {
			bad(s.Pos(), "bare return with named results")
		}
		if f.void && f.inLoop > 0 {
			bad(s.Pos(), "return from a loop in a function without results")
		}
		var rec func(i int, vals []string) string
		rec = func(i int, vals []string) string {
			if i == len(xs) {
				return ind(d) + f.retInContext(vals) + "\n"
			}
			return f.withValue(xs[i], d, func(v string) string { return rec(i+1, append(append([]string{}, vals...), v)) })
		}
		return rec(0, nil)
	case *ast.ExprStmt:
		c, ok := s.X.(*ast.CallExpr)
		if !ok {
			bad(s.Pos(), "unsupported expression statement")
		}
		if id, ok := c.Fun.(*ast.Ident); ok {
			if b, ok := f.p.info.Uses[id].(*types.Builtin); ok && b.Name() == "panic" {
				return ind(d) + ".panic\n"
			}
		}
		x := f.call(c)
		return f.withValue(x, d, func(v string) string { return k(d) })
	case *ast.IfStmt:
		body := func(d int) string {
			c := f.expr(s.Cond)
			return f.withValue(c, d, func(v string) string {
				out := ind(d) + "if " + v + " then\n" + f.stmts(s.Body.List, d+1, k) + ind(d) + "else\n"
				if s.Else != nil {
					out += f.stmt(s.Else, d+1, k)
				} else {
					out += k(d + 1)
				}
				return out
			})
		}
		if s.Init != nil {
			return f.stmt(s.Init, d, body)
		}
		return body(d)
	case *ast.ForStmt:
		return f.forLoop(s, d, k)
	case *ast.SwitchStmt:
		// expression switch without fallthrough / break: an if-chain on equality with the tag (evaluated once)
		if s.Tag == nil {
			bad(s.Pos(), "switch without tag")
		}
		ast.Inspect(s.Body, func(n ast.Node) bool {
			if _, ok := n.(*ast.ForStmt); ok {
				return false // a break in there leaves that loop, not the switch
			}
			if b, ok := n.(*ast.BranchStmt); ok && (b.Tok == token.FALLTHROUGH || b.Tok == token.BREAK || b.Tok == token.GOTO) {
				bad(b.Pos(), "%s inside switch", b.Tok)
			}
			return true
		})
		body := func(d int) string {
			return f.withValue(f.expr(s.Tag), d, func(tag string) string {
				tmpN++
				tv := fmt.Sprintf("tag%d_", tmpN)
				out := ind(d) + "let " + tv + " := " + tag + "\n"
				var deflt *ast.CaseClause
				var clauses []*ast.CaseClause
				for _, c := range s.Body.List {
					cc := c.(*ast.CaseClause)
					if cc.List == nil {
						deflt = cc
					} else {
						clauses = append(clauses, cc)
					}
				}
				var rec func(i int, d int) string
				rec = func(i int, d int) string {
					if i == len(clauses) {
						if deflt != nil {
							return f.stmts(deflt.Body, d, k)
						}
						return k(d)
					}
					var conds []string
					for _, e := range clauses[i].List {
						x := f.expr(e)
						if !x.pure {
							bad(e.Pos(), "effectful case expression")
						}
						conds = append(conds, "decide ("+tv+" = "+x.s+")")
					}
					return ind(d) + "if " + strings.Join(conds, " || ") + " then\n" + f.stmts(clauses[i].Body, d+1, k) + ind(d) + "else\n" + rec(i+1, d+1)
				}
				return out + rec(0, d)
			})
		}
		if s.Init != nil {
			return f.stmt(s.Init, d, body)
		}
		return body(d)
	case *ast.BranchStmt:
		if s.Tok == token.BREAK && s.Label == nil && f.inLoop > 0 && f.breakK != nil {
			return f.breakK(d)
		}
		bad(s.Pos(), "unsupported branch statement %s", s.Tok)
	}
	bad(s.Pos(), "unsupported statement %T", s)
	return ""
}

// assigned variables of a statement list (identifiers only; fields of locals count as the local)
func assignedVars(n ast.Node, out map[string]bool) {
	ast.Inspect(n, func(n ast.Node) bool {
		var lhs []ast.Expr
		switch s := n.(type) {
		case *ast.AssignStmt:
			if s.Tok == token.DEFINE {
				return true
			}
			lhs = s.Lhs
		case *ast.IncDecStmt:
			lhs = []ast.Expr{s.X}
		}
		for _, l := range lhs {
			for {
				switch x := ast.Unparen(l).(type) {
				case *ast.SelectorExpr:
					l = x.X
					continue
				case *ast.IndexExpr:
					l = x.X
					continue
				case *ast.Ident:
					out[x.Name] = true
				}
				break
			}
		}
		return true
	})
}

func hasExits(body *ast.BlockStmt) bool {
	found := false
	var walk func(n ast.Node, inner bool)
	walk = func(n ast.Node, inner bool) {
		ast.Inspect(n, func(m ast.Node) bool {
			switch x := m.(type) {
			case *ast.ReturnStmt:
				found = true
			case *ast.BranchStmt:
				if x.Tok == token.BREAK && !inner {
					found = true
				}
			case *ast.ForStmt:
				if m != n {
					walk(x.Body, true)
					if x.Init != nil {
						walk(x.Init, inner)
					}
					return false
				}
			}
			return true
		})
	}
	walk(body, false)
	return found
}

func (f *fnTr) forLoop(s *ast.ForStmt, d int, k func(d int) string) string {
	ast.Inspect(s.Body, func(n ast.Node) bool {
		switch n := n.(type) {
		case *ast.RangeStmt, *ast.SelectStmt, *ast.FuncLit, *ast.DeferStmt, *ast.GoStmt, *ast.LabeledStmt:
			bad(n.Pos(), "loop body with %T", n)
		case *ast.BranchStmt:
			if n.Tok != token.BREAK || n.Label != nil {
				bad(n.Pos(), "loop body with %s", n.Tok)
			}
		}
		return true
	})
	exits := hasExits(s.Body)
	loop := func(d int) string {
		// state: variables assigned in body/post that are declared outside the body
		as := map[string]bool{}
		assignedVars(s.Body, as)
		if s.Post != nil {
			assignedVars(s.Post, as)
		}
		declaredInside := map[string]bool{}
		ast.Inspect(s.Body, func(n ast.Node) bool {
			switch a := n.(type) {
			case *ast.AssignStmt:
				if a.Tok == token.DEFINE {
					for _, l := range a.Lhs {
						if id, ok := l.(*ast.Ident); ok {
							declaredInside[id.Name] = true
						}
					}
				}
			case *ast.ValueSpec:
				for _, id := range a.Names {
					declaredInside[id.Name] = true
				}
			}
			return true
		})
		var state []string
		for v := range as {
			if !declaredInside[v] {
				state = append(state, v)
			}
		}
		sort.Strings(state)
		// free variables read by cond/body/post that are not state: passed as extra parameters
		used := map[string]types.Type{}
		collect := func(n ast.Node) {
			if n == nil {
				return
			}
			ast.Inspect(n, func(n ast.Node) bool {
				if id, ok := n.(*ast.Ident); ok {
					if v, ok := f.p.info.Uses[id].(*types.Var); ok && v.Parent() != v.Pkg().Scope() && !v.IsField() {
						used[id.Name] = v.Type()
					}
				}
				return true
			})
		}
		if s.Cond != nil {
			collect(s.Cond)
		}
		collect(s.Body)
		if s.Post != nil {
			collect(s.Post)
		}
		stateTy := map[string]string{}
		for _, v := range state {
			t, ok := used[v]
			if !ok {
				bad(s.Pos(), "loop state variable %s never read", v)
			}
			stateTy[v] = f.leanTy(t, s.Pos())
		}
		var extra []string
		for v := range used {
			if !as[v] && !declaredInside[v] {
				extra = append(extra, v)
			}
		}
		sort.Strings(extra)
		tuple := func(vs []string) string {
			if len(vs) == 1 {
				return lname(vs[0])
			}
			var q []string
			for _, v := range vs {
				q = append(q, lname(v))
			}
			return "(" + strings.Join(q, ", ") + ")"
		}
		tupleTy := func(vs []string) string {
			var q []string
			for _, v := range vs {
				q = append(q, stateTy[v])
			}
			if len(q) == 1 {
				return q[0]
			}
			return "(" + strings.Join(q, " × ") + ")"
		}
		if len(state) == 0 {
			bad(s.Pos(), "loop without state")
		}
		args := func() string {
			var q []string
			for _, v := range extra {
				q = append(q, lname(v))
			}
			for _, v := range state {
				q = append(q, lname(v))
			}
			return strings.Join(q, " ")
		}
		name, done := f.loopNames[s]
		if !done {
			f.nloop++
			name = fmt.Sprintf("%s_%s_loop%d", f.p.name, f.fn.Name.Name, f.nloop)
			f.loopNames[s] = name
			fuels := strings.Split(f.fuel, ";")
			if f.fuel == "" || f.nloop > len(fuels) {
				bad(s.Pos(), "loop without a fuel bound in the translation table")
			}
			f.loopFuel[s] = strings.TrimSpace(fuels[f.nloop-1])
			var params []string
			for _, v := range extra {
				params = append(params, "("+lname(v)+" : "+f.leanTy(used[v], s.Pos())+")")
			}
			for _, v := range state {
				params = append(params, "("+lname(v)+" : "+stateTy[v]+")")
			}
			resTy := tupleTy(state)
			stay := func(d int) string { return ind(d) + "pure " + tuple(state) + "\n" }
			if exits {
				resTy = "(Sum " + tupleTy(state) + " " + f.resTy + ")"
				stay = func(d int) string { return ind(d) + "pure (Sum.inl " + tuple(state) + ")\n" }
			}
			recur := func(d int) string { return ind(d) + name + " fuel_ " + args() + "\n" }
			savedLoop, savedBreak := f.inLoop, f.breakK
			if exits {
				f.inLoop++
				f.breakK = stay
			} else {
				f.inLoop, f.breakK = 0, nil
				if savedLoop > 0 {
					// a loop without exits inside a loop with exits: its body has no return/break, nothing to route
					f.inLoop = 0
				}
			}
			bodyAndPost := func(d int) string {
				return f.stmts(s.Body.List, d, func(d int) string {
					if s.Post != nil {
						return f.stmt(s.Post, d, recur)
					}
					return recur(d)
				})
			}
			var h strings.Builder
			var bodyTxt string
			if s.Cond == nil {
				bodyTxt = bodyAndPost(2)
			} else {
				c := f.expr(s.Cond)
				bodyTxt = f.withValue(c, 2, func(v string) string {
					return ind(2) + "if " + v + " then\n" + bodyAndPost(3) + ind(2) + "else\n" + stay(3)
				})
			}
			f.inLoop, f.breakK = savedLoop, savedBreak
			fmt.Fprintf(&h, "def %s (fuel_ : Nat) %s : Res %s :=\n", name, strings.Join(params, " "), resTy)
			h.WriteString("  match fuel_ with\n  | 0 => .err .other\n  | fuel_ + 1 =>\n")
			h.WriteString(bodyTxt)
			f.helpers = append(f.helpers, h.String())
		}
		call := "(" + name + " (" + f.loopFuel[s] + ") " + args() + ")"
		if !exits {
			return ind(d) + call + " >>= fun " + tuple(state) + " =>\n" + k(d)
		}
		tmpN++
		c := fmt.Sprintf("x%d_", tmpN)
		out := ind(d) + call + " >>= fun " + c + " =>\n" + ind(d) + "match " + c + " with\n"
		out += ind(d) + "| Sum.inr r_ =>\n"
		if f.inLoop > 0 {
			out += ind(d+1) + "pure (Sum.inr r_)\n"
		} else {
			out += ind(d+1) + "pure r_\n"
		}
		out += ind(d) + "| Sum.inl " + tuple(state) + " =>\n" + k(d+1)
		return out
	}
	if s.Init != nil {
		return f.stmt(s.Init, d, loop)
	}
	return loop(d)
}

func (f *fnTr) translate() (out string, err error) {
	defer func() {
		if r := recover(); r != nil {
			if u, ok := r.(unsupported); ok {
				pos := ""
				if i := strings.LastIndex(u.msg, " @"); i >= 0 {
					var p int
					fmt.Sscanf(u.msg[i+2:], "%d", &p)
					pos = f.p.fset.Position(token.Pos(p)).String()
					u.msg = u.msg[:i]
				}
				err = fmt.Errorf("%s (%s)", u.msg, pos)
				return
			}
			panic(r)
		}
	}()
	fn := f.fn
	if fn.Recv != nil || fn.Body == nil {
		bad(fn.Pos(), "method or bodyless function")
	}
	// state first: whatever else in the body may be outside the fragment, a function that reads or writes
	// package-level variables which the package modifies is reported as stateful
	ast.Inspect(fn.Body, func(n ast.Node) bool {
		if id, ok := n.(*ast.Ident); ok {
			if v, ok := f.p.info.Uses[id].(*types.Var); ok && v.Pkg() != nil && v.Parent() == v.Pkg().Scope() {
				_, basic := v.Type().Underlying().(*types.Basic)
				isErr := v.Type().String() == "error"
				// written by assignment somewhere in the package, or of a type that can change behind a method call or
				// an alias (struct, pointer, map, slice, atomic.Value, sync.Pool ...); plain error values are not state
				if f.p.writtenGlobals[v] || (!basic && !isErr) {
					bad(id.Pos(), "STATE: package-level variable %s can change between calls (assigned by the package, or of a mutable type): the result depends on earlier calls", id.Name)
				}
			}
		}
		return true
	})
	sig := f.p.info.Defs[fn.Name].Type().(*types.Signature)
	// slice parameters written by the body
	f.written = map[string]bool{}
	ast.Inspect(fn.Body, func(n ast.Node) bool {
		if a, ok := n.(*ast.AssignStmt); ok {
			for _, l := range a.Lhs {
				if ix, ok := ast.Unparen(l).(*ast.IndexExpr); ok {
					if id, ok := ast.Unparen(ix.X).(*ast.Ident); ok {
						f.written[id.Name] = true
					}
				}
			}
		}
		return true
	})
	var params []string
	for i := 0; i < sig.Params().Len(); i++ {
		p := sig.Params().At(i)
		params = append(params, "("+lname(p.Name())+" : "+f.leanTy(p.Type(), fn.Pos())+")")
	}
	var res []string
	for _, w := range f.writtenList() {
		_ = w
		res = append(res, "Bytes")
	}
	namedResults := false
	nres := sig.Results().Len()
	if nres > 0 && sig.Results().At(nres-1).Type().String() == "error" {
		f.errRes = true
		nres--
	}
	for i := 0; i < nres; i++ {
		r := sig.Results().At(i)
		res = append(res, f.leanTy(r.Type(), fn.Pos()))
		if r.Name() != "" {
			namedResults = true
		}
	}
	f.void = nres == 0
	switch len(res) {
	case 0:
		f.resTy = "Unit"
	case 1:
		f.resTy = res[0]
	default:
		f.resTy = "(" + strings.Join(res, " × ") + ")"
	}
	// named results are ordinary zero-initialised locals; a bare `return` is not supported
	pre := ""
	if namedResults {
		for i := 0; i < nres; i++ {
			r := sig.Results().At(i)
			z := "0"
			if isBool(r.Type()) {
				z = "false"
			}
			pre += ind(1) + "let " + lname(r.Name()) + " : " + f.leanTy(r.Type(), fn.Pos()) + " := " + z + "\n"
		}
	}
	body := f.stmts(fn.Body.List, 1, func(d int) string {
		if f.void {
			return ind(d) + f.retTerm(nil) + "\n"
		}
		bad(fn.End(), "control reaches the end of a non-void function")
		return ""
	})
	var b strings.Builder
	for _, h := range f.helpers {
		b.WriteString(h + "\n")
	}
	fmt.Fprintf(&b, "/-- %s: `%s` -/\ndef %s_%s %s : Res %s :=\n%s%s", f.p.fset.Position(fn.Pos()).Filename, fn.Name.Name,
		f.p.name, fn.Name.Name, strings.Join(params, " "), f.resTy, pre, body)
	return b.String(), nil
}

func load(dir string) (*pkgInfo, error) {
	fset := token.NewFileSet()
	pkgs, err := parser.ParseDir(fset, dir, func(fi os.FileInfo) bool { return !strings.HasSuffix(fi.Name(), "_test.go") }, 0)
	if err != nil {
		return nil, err
	}
	for name, p := range pkgs {
		var files []*ast.File
		var names []string
		for n := range p.Files {
			names = append(names, n)
		}
		sort.Strings(names)
		for _, n := range names {
			files = append(files, p.Files[n])
		}
		var firstErr error
		conf := types.Config{Importer: importer.ForCompiler(fset, "source", nil), Error: func(err error) {
			if firstErr == nil {
				firstErr = err
			}
		}}
		info := &types.Info{Types: map[ast.Expr]types.TypeAndValue{}, Uses: map[*ast.Ident]types.Object{}, Defs: map[*ast.Ident]types.Object{}}
		conf.Check(name, fset, files, info)
		if firstErr != nil {
			return nil, firstErr
		}
		pi := &pkgInfo{name: name, fset: fset, info: info, funcs: map[string]*ast.FuncDecl{}}
		// integer constants that occur anywhere in the package (literals and folded constant expressions):
		// handed to the engines as boundary values ("dictionary" of the source)
		cs := map[string]bool{}
		for e, tv := range info.Types {
			if tv.Value != nil && tv.Value.Kind() == constant.Int {
				_ = e
				cs[tv.Value.ExactString()] = true
			}
		}
		for c := range cs {
			pi.consts = append(pi.consts, c)
		}
		sort.Strings(pi.consts)
		pi.writtenGlobals = map[types.Object]bool{}
		pi.globalInit = map[types.Object]ast.Expr{}
		isGlobal := func(e ast.Expr) types.Object {
			for {
				switch x := ast.Unparen(e).(type) {
				case *ast.SelectorExpr:
					e = x.X
					continue
				case *ast.IndexExpr:
					e = x.X
					continue
				case *ast.StarExpr:
					e = x.X
					continue
				case *ast.Ident:
					if v, ok := info.Uses[x].(*types.Var); ok && v.Pkg() != nil && v.Parent() == v.Pkg().Scope() {
						return v
					}
				}
				return nil
			}
		}
		for _, f := range files {
			for _, d := range f.Decls {
				if fd, ok := d.(*ast.FuncDecl); ok && fd.Recv == nil {
					pi.funcs[fd.Name.Name] = fd
				}
				if gd, ok := d.(*ast.GenDecl); ok && gd.Tok == token.VAR {
					for _, sp := range gd.Specs {
						vs := sp.(*ast.ValueSpec)
						for i, n := range vs.Names {
							if i < len(vs.Values) {
								if o := info.Defs[n]; o != nil {
									pi.globalInit[o] = vs.Values[i]
								}
							}
						}
					}
				}
				if fd, ok := d.(*ast.FuncDecl); ok && fd.Body != nil {
					ast.Inspect(fd.Body, func(n ast.Node) bool {
						switch x := n.(type) {
						case *ast.AssignStmt:
							if x.Tok != token.DEFINE {
								for _, l := range x.Lhs {
									if o := isGlobal(l); o != nil {
										pi.writtenGlobals[o] = true
									}
								}
							}
						case *ast.IncDecStmt:
							if o := isGlobal(x.X); o != nil {
								pi.writtenGlobals[o] = true
							}
						case *ast.UnaryExpr:
							if x.Op == token.AND {
								if o := isGlobal(x.X); o != nil {
									pi.writtenGlobals[o] = true
								}
							}
						}
						return true
					})
				}
			}
		}
		return pi, nil
	}
	return nil, fmt.Errorf("no package in %s", dir)
}

func main() {
	outPath, repPath := os.Args[1], os.Args[2]
	pkgs := map[string]*pkgInfo{}
	report := map[string]interface{}{}
	translated := map[string]string{}
	failed := map[string]string{}
	callsOf := map[string]map[string]bool{}
	var order []string
	for _, t := range targets {
		p, ok := pkgs[t.Dir]
		if !ok {
			var err error
			p, err = load(t.Dir)
			if err != nil {
				failed[t.Dir+"."+t.Func] = "package does not load: " + err.Error()
				continue
			}
			pkgs[t.Dir] = p
		}
		key := p.name + "_" + t.Func
		fd, ok := p.funcs[t.Func]
		if !ok {
			failed[key] = "function not found"
			continue
		}
		f := &fnTr{p: p, all: pkgs, fn: fd, fuel: t.Fuel, calls: map[string]bool{}, loopNames: map[*ast.ForStmt]string{}, loopFuel: map[*ast.ForStmt]string{}}
		s, err := f.translate()
		if err != nil {
			failed[key] = err.Error()
			continue
		}
		translated[key] = s
		callsOf[key] = map[string]bool{}
		for c := range f.calls {
			callsOf[key][p.name+"_"+c] = true
		}
		order = append(order, key)
	}
	// a function that calls an untranslatable one is untranslatable too
	for changed := true; changed; {
		changed = false
		for k := range translated {
			for c := range callsOf[k] {
				if _, ok := translated[c]; !ok {
					failed[k] = "calls " + c + " which is not translated"
					delete(translated, k)
					changed = true
					break
				}
			}
		}
	}
	// emit in dependency order (callees first)
	var b strings.Builder
	b.WriteString("/-\n  GENERATED by /verif/tools/go2lean from the Go source of /repo's working tree — do not edit.\n" +
		"  Shallow embedding of the listed Go functions (DESIGN §A.2, \"translated functions\").\n-/\nimport Pulsar.GoSem\nset_option linter.unusedVariables false\nnamespace Pulsar.Xf\nopen Pulsar\n\n")
	if len(recordDecls) > 0 {
		var rk []string
		for k := range recordDecls {
			rk = append(rk, k)
		}
		sort.Strings(rk)
		b.WriteString("namespace Rec\n")
		for _, k := range rk {
			b.WriteString(recordDecls[k] + "\n")
		}
		b.WriteString("end Rec\n\n")
	}
	done := map[string]bool{}
	var emit func(k string)
	emit = func(k string) {
		if done[k] {
			return
		}
		done[k] = true
		var cs []string
		for c := range callsOf[k] {
			cs = append(cs, c)
		}
		sort.Strings(cs)
		for _, c := range cs {
			emit(c)
		}
		b.WriteString(translated[k] + "\n")
	}
	for _, k := range order {
		if _, ok := translated[k]; ok {
			emit(k)
		}
	}
	var tl []string
	for k := range translated {
		tl = append(tl, k)
	}
	sort.Strings(tl)
	b.WriteString("/-- functions translated in this run -/\ndef translated : List String := [" + func() string {
		var q []string
		for _, k := range tl {
			q = append(q, "\""+k+"\"")
		}
		return strings.Join(q, ", ")
	}() + "]\n\nend Pulsar.Xf\n")
	old, _ := os.ReadFile(outPath)
	if string(old) != b.String() {
		if err := os.WriteFile(outPath, []byte(b.String()), 0o644); err != nil {
			fmt.Println("go2lean:", err)
			os.Exit(1)
		}
	}
	consts := map[string][]string{}
	for d, p := range pkgs {
		consts[d] = p.consts
	}
	report["constants"] = consts
	stateful := map[string]string{}
	for k, v := range failed {
		if strings.Contains(v, "STATE:") {
			stateful[k] = v
		}
	}
	report["stateful"] = stateful
	report["translated"] = tl
	report["untranslated"] = failed
	js, _ := json.MarshalIndent(report, "", " ")
	os.WriteFile(repPath, js, 0o644)
	fmt.Printf("go2lean: %d translated, %d not\n", len(tl), len(failed))
}
