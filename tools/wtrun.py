#!/usr/bin/env python3
"""
wtrun.py <patch.diff> <property-id> [<property-id> ...] [--thorough] [--keep-replays DIR]

Runs registered checks against a changed copy of /repo WITHOUT touching /repo: a scratch git worktree of
/repo's HEAD is created under /tmp, the patch is applied there, and every `./check <pid> <tier>` is run with
VERIF_REPO pointing at it. Used while something else (a sweep, `vp run`) needs /repo unchanged, and for
behaviour-preserving ("benign") changes on which no check may raise an alarm. The evidence / replays /
regenerated Lean files written by these runs are restored afterwards (they describe a changed tree).
Prints the VIOLATION / check lines; exit status 0 iff at least one check reported a violation.
"""
import json
import os
import shutil
import subprocess
import sys

VERIF = os.path.dirname(os.path.dirname(os.path.abspath(__file__)))
REPO = "/repo"


def sh(cmd, cwd=None, env=None):
    return subprocess.run(cmd, cwd=cwd, shell=True, env=env, stdout=subprocess.PIPE, stderr=subprocess.STDOUT, text=True)


def main():
    args = [a for a in sys.argv[1:] if not a.startswith("--")]
    keep = None
    if "--keep-replays" in sys.argv:
        keep = sys.argv[sys.argv.index("--keep-replays") + 1]
        args = [a for a in args if a != keep]
    patch = os.path.abspath(args[0])
    pids = args[1:]
    tier = "thorough" if "--thorough" in sys.argv else "quick"
    wt = "/tmp/wtrun-%d" % os.getpid()
    p = sh("git -C %s worktree add -q --detach %s HEAD" % (REPO, wt))
    if p.returncode != 0:
        print(p.stdout)
        sys.exit(2)
    fired = {}
    try:
        p = sh("git apply %s" % patch, cwd=wt)
        if p.returncode != 0:
            print("patch does not apply:\n" + p.stdout)
            sys.exit(2)
        env = dict(os.environ, VERIF_REPO=wt)
        for pid in pids:
            r = sh("./check %s %s" % (pid, tier), cwd=VERIF, env=env)
            lines = [l for l in r.stdout.splitlines() if l.startswith("VIOLATION") or l.startswith("check ") or l.startswith("KNOWN")]
            fired[pid] = [l for l in lines if l.startswith("VIOLATION")]
            print("\n".join(lines), flush=True)
            if keep:
                for l in fired[pid][:3]:
                    for tok in l.split():
                        if tok.startswith("replay=") and os.path.exists(tok[7:]):
                            os.makedirs(keep, exist_ok=True)
                            shutil.copy(tok[7:], os.path.join(keep, os.path.basename(tok[7:])))
    finally:
        sh("git -C %s worktree remove --force %s" % (REPO, wt))
        sh("git -C %s checkout -- evidence" % VERIF)
        sh("git -C %s checkout -- replays; git -C %s clean -fdq replays" % (VERIF, VERIF))
        sh("git -C %s checkout -- lean/Pulsar/Extracted.lean lean/Pulsar/ExtractedCode.lean lean/Pulsar/ExtractedFns.lean" % VERIF)
    print(json.dumps({k: len(v) for k, v in fired.items()}))
    sys.exit(0 if any(fired.values()) else 1)


if __name__ == "__main__":
    main()
