"""Per-property configuration of /verif/check: engines to run, Lean modules and theorems required."""

CODEC = {"name": "codec"}

PROPS = {
    "C01": {"engines": [CODEC]},
    "C02": {"engines": [CODEC]},
    "C04": {"engines": [CODEC]},
    "C05": {"engines": [CODEC]},
    "C15": {"engines": [{"name": "runtime"}]},
    "C17": {"engines": [{"name": "timepb"}]},
}

REQUIRED = {
    "C15": ["C15_sov_eq_protowire_size", "C15_soz_eq", "C15_encodeVarint_writes_minimal_varint",
            "C15_skip_no_panic", "C15_skip_progress", "C15_skip_len"],
    "C17": ["C17_add_exact", "C17_add_normalised", "C17_add_valid", "C17_add_eq_addStd",
            "C17_add_overflow_panics", "C17_add_no_wrap", "C17_add_nil", "C17_compare_chronological",
            "C17_compare_total_order"],
}

MODULES = {
    "C15": ["Pulsar.Basic", "Pulsar.Wire", "Pulsar.Runtime", "Pulsar.Proofs.Runtime", "Pulsar.Properties.C15"],
    "C17": ["Pulsar.Basic", "Pulsar.Timepb", "Pulsar.Proofs.Timepb", "Pulsar.Properties.C17"],
}

CODEC_MODULES = ["Pulsar.Basic", "Pulsar.Wire", "Pulsar.Runtime", "Pulsar.Schema", "Pulsar.Extracted", "Pulsar.Value",
                 "Pulsar.Scalar", "Pulsar.Encode", "Pulsar.Decode", "Pulsar.Entry"]


def required_theorems(pid):
    return REQUIRED.get(pid, [])


def lean_modules(pid):
    return MODULES.get(pid, CODEC_MODULES + ["Pulsar.Properties." + pid])
