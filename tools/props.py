"""Per-property configuration of /verif/check: engines to run, Lean theorems required, manifest texts."""

CODEC = {"name": "codec"}
DECODE = {"name": "decode"}
REFLECT = {"name": "reflect"}
GEN = {"name": "gen"}
DESC = {"name": "desc"}
RACE = {"name": "race"}
SMALL = {"quick": ["-n", "3000"], "thorough": ["-n", "60000"]}

# which correspondence line labels count for which property ("B" = Spec model vs real reference)
B_PROPS = {"C01", "C02", "C03", "C08", "C10", "C14"}

TECH = "Lean 4 proof + model/implementation correspondence"

PROPS = {
    "C01": {
        "engines": [CODEC],
        "text": "Lean 4 theorems C01_marshal_total and C01_roundtrip: for every well-formed schema and every well-typed value (valid UTF-8 strings, storable unknown sets), in both marshal modes and for any map iteration order, the model of proto.Marshal succeeds and the model of proto.Unmarshal of those bytes into a fresh message returns a value equal to the original up to representation (every scalar bit-exact: -0.0, NaN payloads, extreme integers; oneof choice incl. zero-valued members; map contents; nested messages; unknown fields byte for byte); plus the reference round trip (C01_reference_roundtrip) and that encodings are WellTyped. The proof composes C02/C04 (encoder = reference), the reference round trip and C03 (decoder = reference). Tied on every run: real Marshal/Unmarshal round trips compared through the Go-reflect struct view, and model vs real bytes.",
        "note": "trusted: Lean kernel; correspondence sampling (boundary pools per kind, nil-vs-empty, nil junk, depth <= 4, unknown tails); encodings are assumed shorter than 2^63 bytes (true of every Go slice)",
        "design": "DESIGN.md §3 C01",
    },
    "C02": {
        "engines": [CODEC],
        "text": "Lean 4 theorem C02_det_eq_reference: for every well-formed schema and every well-typed value, the model of the generated deterministic Marshal returns exactly the bytes of the model of protobuf-go's reflection-driven encoder (plus key-bytes = protowire tag and the extracted wire-type table). Both models are tied on every run: Impl model vs the real generated code (checked-in and freshly generated corpus types), Spec model vs real dynamicpb. Source level (tools/go2lean, every run): C04_src_KeySize_eq_tag_length, C05_src_marshal_flags_forwarded.",
        "note": "trusted: Lean kernel; correspondence sampling (type-directed values, boundary pools); float32 signalling NaNs are outside the reference comparison (protoreflect.Value cannot hold them); emitted Go text is not modelled, only its behaviour",
        "design": "DESIGN.md §3 C02",
    },
    "C03": {
        "facts": True,
        "lean_files": ["C03", "C03Code"],
        "engines": [DECODE],
        "text": "Lean 4 theorem C03_decode_eq_reference: every stream the strict reference decoder model accepts (WellTyped) decodes in the model of the generated unmarshal closure to exactly the reference value, fresh or with Merge; C03_concat_reference / C03_concat_eq_merge: decoding a concatenation of two accepted streams equals decoding the first and merge-decoding the second into the result (reference model for all byte strings; generated-decoder model for well-typed streams). Both decoder models are tied to the real generated code / real dynamicpb on every run with a record-level stream generator (duplicates, packed/unpacked, partial map entries, unknown records). Source level (tools/go2lean, every run): C14_src_unmarshal_options (nested decodes are called with Merge set: repeated occurrences of a singular message field merge).",
        "note": "trusted: Lean kernel; correspondence sampling; target message non-nil; proto.Unmarshal wrapper (Reset, initialisation walk) modelled from protobuf-go v1.34.0",
        "design": "DESIGN.md §3 C03",
    },
    "C04": {
        "facts": True,
        "lean_files": ["C04", "C04Code"],
        "engines": [CODEC],
        "text": "Lean 4 theorems C04_size_eq_len / C04_size_eq_reference / C04_index_reaches_zero / C04_append for every schema, value, option combination and map iteration order, on the model of the size and marshal closures; tied to the real code on every run (Size vs len(Marshal) vs reference size, MarshalAppend with and without spare capacity and a canary). Source level (tools/go2lean, every run): C04_src_KeySize_eq_tag_length (the generator's KeySize as written = number of key bytes for every legal field number), C15_src_Sov_eq_protowire_size, C15_src_Soz_eq.",
        "note": "partial: slice capacity is Go runtime behaviour, reached only by the correspondence run (prefixes with cap=len, cap>len)",
        "design": "DESIGN.md §3 C04",
    },
    "C05": {
        "facts": True,
        "lean_files": ["C05", "C05Code"],
        "engines": [CODEC],
        "text": "Lean 4 theorems C05_order_independent (no typing needed), C05_rep_independent, C05_equiv_same_bytes: deterministic bytes are a function of the message value only (any map iteration order, nil-vs-empty, entry storage order), at every depth. Tied by marshalling rebuilt-equal values repeatedly on the real code. Source level (tools/go2lean translates runtime.SizeInputToOptions / MarshalInputToOptions from the working tree on every run): C05_src_marshal_flags_forwarded, C05_src_size_and_marshal_options_agree (by exhaustion over the flags byte: nested size / marshal calls get Deterministic and UseCachedSize unchanged, and the same options).",
        "note": "partial: that the Go runtime really permutes map iteration and that the nested call receives the flag is runtime behaviour, reached by repetition in the correspondence run",
        "design": "DESIGN.md §3 C05",
    },
    "C06": {
        "engines": [DECODE],
        "lean_files": ["C06", "C06Alloc"],
        "text": "Lean 4 theorems on the model of the generated unmarshal closure and of proto.Unmarshal's wrapper, for every schema and every byte string: C06_closure_no_panic, C06_no_panic (every slice expression is guarded), termination by construction plus C06_fuel_irrelevant (the record loop always progresses), C06_depth_bounded / C06_too_deep_rejected (recursion budget honoured: nesting beyond the protobuf-go limit is rejected), C06_post_usable (an accepted message can be sized and marshalled), C06_alloc_linear (memory requested is linear in the input length for every schema and input, accepted or rejected). Tied on every run by decoding well-typed and malformed streams (truncations, bit flips, adversarial lengths, deep nests) with the real code and the model. Source level (tools/go2lean, every run): C06_src_nestedRecursionLimit_is_model, C06_src_budget_decreases, C14_src_limit_decreases (the recursion budget handed to nested decodes is the model's, strictly decreasing, never the unset value) and C15_src_Skip_no_panic (the translated runtime.Skip never panics, any bytes below 2^62).",
        "note": "allocation: Properties/C06Alloc.lean proves a linear bound (192 bytes per input byte) on an allocation-accounting copy of the decoder model that is proved to compute the same values; the per-site costs are abstractions of Go allocation sizes, and heap growth is additionally measured on the real code on adversarial inputs; Go stack growth is runtime behaviour; for malformed inputs only the outcome class panic / not-panic is an obligation (which malformed inputs are rejected is not part of the property)",
        "design": "DESIGN.md §3 C06",
    },
    "C07": {
        "facts": True,
        "lean_files": ["C07", "C07Code"],
        "engines": [DECODE, dict(CODEC, args=SMALL)],
        "text": "Partial. Proved (Lean 4, on the reflection + codec model): C07_reads_frame / C07_read_history_frame — read-only calls leave every field of the Go struct representation unchanged, nil-versus-empty included. Memory aliasing is not expressible in a value-semantic model: it is decided on the real code on every run — after every Unmarshal the input buffer is overwritten and the message re-read through the struct view; after every Marshal all byte slices of the message are overwritten in place and the returned bytes re-compared; the struct is deep-compared around the read-only call set.",
        "note": "partial: aliasing is Go memory behaviour, covered by the scribble oracles only (generator: bytes/string fields in singular, repeated, oneof and map positions, unknown fields at depth); the theorem covers the frame condition",
        "design": "DESIGN.md §3 C07",
    },
    "C11": {
        "facts": True,
        "lean_files": ["C11", "C11Code"],
        "engines": [RACE],
        "race": True,
        "text": "Partial. Proved (Lean 4): C11_reads_write_nothing, C11_read_history, C11_interleaving — in the model of the generated code read-only operations write nothing, so in every interleaving of any number of readers each reader observes exactly what it observes alone. The Go memory model is outside the model: the real code is run on every check under the race detector with N goroutines performing the read-only operation set in different orders on shared messages of every generated type (incl. embedded Any/Timestamp/Duration/FieldMask), observations compared with the sequential ones.",
        "note": "partial: freedom from data races is a property of the compiled Go code and the runtime; the race detector only sees the schedules that occur (several repetitions x goroutines per value); protobuf-go's own atomics in well-known types are trusted",
        "design": "DESIGN.md §3 C11",
    },
    "C08": {
        "engines": [REFLECT],
        "text": "Lean 4 refinement theorems C08_step_refines / C08_history_refines: for every schema, every well-typed state and every finite history of protoreflect operations (all message, list and map operations, at any nesting path), the model of the generated fast reflection and the abstract reference machine give equal outputs and related states; corollaries: oneof holds at most one member, Set of a member replaces, Clear of an inactive member is a no-op, Range visits exactly the populated fields once, Mutable views write through. Both machines are tied on every run: Impl machine vs real fast reflection (+ struct view, getters), Spec machine vs real dynamicpb, and fast vs dynamicpb vs struct-based slow reflection directly.",
        "note": "trusted: Lean kernel; correspondence sampling of histories (random, and exhaustive short histories in the thorough tier); misuse ops on which the two reference implementations disagree are not compared; Go pointer aliasing of detached composites after Set follows the protoreflect contract (dead after Set)",
        "design": "DESIGN.md §3 C08",
    },
    "C09": {
        "engines": [REFLECT],
        "text": "Lean 4 theorems C09_nil_reads / C09_nil_reads_no_panic / C09_nil_writes_panic / C09_nil_codec / C09_nil_refines_spec on the reflection model (every read on a nil message returns what the empty message returns, every write panics and changes nothing, Size 0 / Marshal empty); tied by an exhaustive enumeration on the real code of every way a nil arises x every field x every read / library call.",
        "note": "trusted: Lean kernel; protobuf-go library calls (Equal/Clone/Merge/protojson/prototext) are not modelled, they are run on the real code and compared with the reference's answers",
        "design": "DESIGN.md §3 C09",
    },
    "C10": {
        "engines": [REFLECT],
        "text": "Partial by construction: protobuf-go's generic algorithms talk to a message only through protoreflect.Message; Properties/C10.lean proves client parametricity (C10_client_parametric, _run, _pair): every deterministic client that chooses its next operation from the outputs seen so far (one message, or two as in Equal/Merge) produces equal traces and related final states on the model of the generated code and on the abstract reference machine; the algorithms themselves (Equal, Clone, Merge, Reset, CheckInitialized, protojson/prototext) are trusted library code and are run on the real generated messages and on dynamicpb messages holding the same values, results compared on every check, including values reached only through the JSON/text parsers.",
        "note": "partial: the library algorithms are not modelled; that they use only the reflection interface on pulsar types (ProtoMethods Merge/CheckInitialized are nil) is read off proto_message.go and exercised by the differential run",
        "design": "DESIGN.md §3 C10",
    },
    "C12": {
        "engines": [GEN, dict(CODEC, args=SMALL), dict(DECODE, args=SMALL), dict(REFLECT, args={"quick": ["-n", "40"], "thorough": ["-n", "600"]})],
        "accept": ["C01", "C02", "C03", "C04", "C05", "C06", "C07", "C08", "C09", "C10", "C14"],
        "text": "Partial. Proved (Lean 4): the codec / reflection theorems C01-C11, C14 are already stated for every well-formed schema (the `programs` quantifier), and Properties/C12.lean proves the generator's decision logic (unknown feature => error, known features accepted, proto2 / unrequested files produce nothing, features=protoc alone emits nothing, reserved field and oneof names are rewritten to non-colliding ones over the table regenerated from main.go). That the emitted text is Go that compiles cannot be a theorem about a text template engine: on every run the working-tree plugin is driven on the schema corpus (every kind x shape, tag-width boundaries, packed and [packed=false], all map key kinds, name collisions with protoreflect.Message methods and generated identifiers, imports across three Go packages, well-known types, recursion, random schemas), the answers are compiled, and the codec / decoder / reflection engines run on the emitted types; parameter strings and negative requests are exercised.",
        "note": "partial: compile step and schema sampling are a correspondence check, not a proof; the supported subset excludes groups and proto3 optional (as the property says)",
        "design": "DESIGN.md §3 C12",
    },
    "C13": {
        "engines": [GEN],
        "text": "Partial. Proved (Lean 4, Properties/C13.lean): with every Go map iteration of the generator as an explicit permutation parameter, the feature list, the message index found by scanning a map and the per-file emit decision do not depend on iteration order or on the co-generated files. Absence of other nondeterminism sources cannot follow from a model of the known ones: on every run each corpus request is repeated in fresh processes and compared byte for byte, multi-file requests (three Go packages + the matrix) are run with permuted and sub-setted file_to_generate and compared per file with the single-file answers, and the emitted text is scanned for paths, dates and the hostname.",
        "note": "partial: process-level determinism is sampled (6 / 48 repetitions, 8 / 40 permutations); the model covers the map iterations that exist in generator code today",
        "design": "DESIGN.md §3 C13",
    },
    "C19": {
        "engines": [DESC, dict(REFLECT, args={"quick": ["-n", "60"], "thorough": ["-n", "800"]}), GEN],
        "lean_files": ["C19", "C19Getters", "C19Tables"],
        "text": "Partial. Proved (Lean 4, Properties/C19.lean): the flattened message order is depth-first parent-first, the message index is the position in it, and evaluating the generated Messages().ByName(..) parent chain resolves to the message itself; Properties/C19Tables.lean: in the model of genReflectFileDescriptor every entry of the dependency index table points at the goTypes row of the declared type of the corresponding field / method (C19_depIdx_points_at_declared_type), the file's own declarations come first in flattened order, no type has two rows and the section offsets are those protobuf-go's TypeBuilder reads; the model's tables are compared on every run with the file_x_goTypes / file_x_depIdxs variables parsed from the emitted sources (deptab lines) and the index / parent-chain model with the emitted msgTypes indexes (msgindex lines). protoimpl.TypeBuilder, the registries and prototext are trusted protobuf-go code: on every run, for every generated package (corpus and checked-in) the registered file descriptor is compared with the request's (options included), every message/enum is looked up in the global registries and mapped back to its Go type, descriptor identity and Type/New/Zero are checked, getters are compared with Get on random values and nil receivers, Reset, String -> prototext.Unmarshal -> equal, enum String/Number/Descriptor.",
        "note": "partial: protobuf-go's type builder and registries are outside the model; nested message/enum declarations in corpus schemas are limited to map entries and the checked-in test3 nesting files",
        "design": "DESIGN.md §3 C19",
    },
    "C14": {
        "engines": [DECODE, dict(CODEC, args=SMALL)],
        "text": "Lean 4 theorems C14_unknown_step (a record with an undeclared number is appended byte for byte, in arrival order, to that level's unknown set and nothing else changes), C14_known_never_unknown, C14_reencode_unknown_last, C14_discard (decoding with DiscardUnknown = decoding without, then erasing every unknown set at every depth), C14_setUnknown_replaces / C14_getUnknown_reads / C14_get_after_set (GetUnknown and SetUnknown read and replace exactly that set, on the generated and on the reference reflection machine), together with C03 (unknown sets equal the reference's). Tied on every run by streams with unknown records of every wire type incl. nested groups injected at every level, both flags, compared through the struct view with the model and with real dynamicpb. Source level (tools/go2lean, every run): C14_src_unmarshal_options / C14_src_discard_forwarded (the translated runtime.UnmarshalInputToOptions sets Merge, forwards DiscardUnknown unchanged) and C15_src_Skip_is_model / C15_src_Skip_len (the translated runtime.Skip, which delimits every unknown record, is the model).",
        "note": "trusted: Lean kernel; correspondence sampling; GetUnknown/SetUnknown are covered by the reflection model (C08)",
        "design": "DESIGN.md §3 C14",
    },
    "C15": {
        "engines": [{"name": "runtime"}],
        "text": "Lean 4 theorems over all naturals / all byte strings for Sov, Soz, EncodeVarint and Skip (C15_*) on a model of runtime.go that is tied to the source twice on every run: (1) tools/go2lean TRANSLATES Sov, Soz, EncodeVarint and Skip from runtime/runtime.go into Lean definitions (go/types; wrapping uint64/int arithmetic, slice reads and writes with index panics, loops as fuel-recursive helpers) and the source-level theorem files prove that the translated functions ARE the model: C15_src_Sov_eq_protowire_size (exhaustion over the 65 bit lengths), C15_src_Soz_eq, C15_src_EncodeVarint_writes_minimal_varint, C15_src_Skip_is_model / _no_panic / _progress / _len (the four loops of Skip by induction: never a panic, exactly the length of the first record protowire accepts, for every input below 2^62 bytes); (2) a differential run of the compiled model against runtime.* and protowire (boundaries, 32-bit sweep, group depth limits, records of 2^31 / 2^32 bytes in an untouched buffer).",
        "note": "trusted: Lean kernel, the translator tools/go2lean, math/bits.Len64 spec, correspondence sampling; the loop theorems (EncodeVarint, Skip) and the Soz calculation follow the shape of the source: when that is restructured they are dropped from the run with a note (no alarm) and the function stays with the differential tie",
        "design": "DESIGN.md §3 C15",
    },
    "C16": {
        "engines": [{"name": "anyutil"}],
        "text": "Lean 4 theorems C16_* on a model of anyutil.MarshalFrom/Unpack with registries and codec as parameters: URL and value of a pack, failed pack leaves dst, unpack never panics for any resolver answers, round trips through type and file registries agree. Tied by scripted-resolver differential runs and real-registry round trips on every check.",
        "note": "trusted: Lean kernel; protoregistry/dynamicpb/anypb behaviour is assumed as the Lookup parameter (exercised by the correspondence run); codec round trip is C01",
        "design": "DESIGN.md §3 C16",
    },
    "C17": {
        "engines": [{"name": "timepb"}],
        "text": "Lean 4 theorems over all valid timestamps/durations (exactness, normalisation, validity, overflow panic, AddStd agreement, total order) on a wrap-around model of cmp.go. The model is tied to the source twice on every run: (1) tools/go2lean TRANSLATES IsZero, Compare, DurationIsNegative, overflowPanic and Add from support/timepb/cmp.go into Lean definitions (types and constants from go/types; Go's int64/int32 wrap-around, nil dereference = panic) and Properties/C17Src proves that the translated functions ARE the model on all inputs (C17_src_Compare_is_model, C17_src_Add_is_model, by case split + linear arithmetic, independent of how the source spells the computation) and restates the property's clauses about the translated text (C17_src_add_exact, C17_src_add_no_wrap, C17_src_add_overflow_panics, C17_src_compare_chronological); (2) a differential run of the real functions against exact big-integer arithmetic and the model, incl. an exhaustive pass over boundary values derived from the integer constants that occur in the source.",
        "note": "trusted: Lean kernel, the translator tools/go2lean (go/ast + go/types, ~1700 lines), correspondence sampling, time.Time arithmetic in AddStd (stdlib; outside the translated fragment)",
        "design": "DESIGN.md §3 C17",
    },
    "C18": {
        "engines": [{"name": "rapid"}],
        "lean_files": ["C18", "C18Draws"],
        "text": "Lean 4 model of rapidproto at the draw level (Pulsar.Rapidproto.setFields/generate: the generator as a function of the sequence of values rapid hands out) with theorems for ALL schemas, option sets and draw sequences: C18_draws_total (never out of fuel, Truncate index always in range, draws consumed left to right: termination), C18_draws_wellformed (draws in the range of their rapid generators => msgOK, valid UTF-8, declared enum numbers), C18_draws_marshal_roundtrip (composition with C01: the message marshals and round-trips), C18_draws_depth_bounded (nesting <= depthLimit+2, attained), C18_draws_noEmptyLists / C18_draws_disallowNil / C18_draws_mapper_honoured / C18_draws_mapper_consumes_no_draw (what the three options guarantee within the nesting limit; C18_remark_* counterexamples at the limit), plus C18_gen_* over constants regenerated from rapidproto.go (Timestamp/Duration ranges valid, FieldMask store). Tie: rapid's own draw log (-rapid.log) is captured for every generated example and replayed on the model through the compiled driver (rgen/rwkt lines: same message required); Any type URLs (incl. accepts_interface hints) and well-known types embedded in other messages are decided by a direct oracle on generated examples (types x option sets x seeds).",
        "note": "partial: rapid itself is a black box (assumed: String() yields valid UTF-8, ranges are respected); option sets with AnyTypeURLs and exponential recursive types (probed under a call-stack depth guard) have no model lines",
        "design": "DESIGN.md §3 C18",
        "level": "proof",
    },
}

REQUIRED = {
    "C01": ["C01_marshal_total", "C01_roundtrip", "C01_reference_roundtrip", "C01_reference_encoding_wellTyped"],
    "C12": ["C12_unknown_feature_is_error", "C12_known_features_ok", "C12_proto2_file_produces_nothing",
            "C12_unrequested_file_produces_nothing", "C12_protoc_alone_emits_nothing", "C12_fast_emits",
            "C12_reserved_names_rewritten", "C12_reserved_oneof_names_rewritten", "C12_model_total"],
    "C13": ["C13_features_order_independent", "C13_message_index_order_independent", "C13_file_content_independent_of_cogenerated"],
    "C19": ["C19_flatten_complete", "C19_flatten_parent_before_child", "C19_msgIndex_is_flatten_position", "C19_descPath_resolves_to_self",
            "C19_getters_eq_get", "C19_getters_eq_get_nil", "C19_reset_is_empty",
            "C19_depIdx_points_at_declared_type", "C19_goTypes_nodup", "C19_goTypes_start_with_declarations",
            "C19_goTypes_only_declared_or_used", "C19_depIdx_offsets"],
    "C06": ["C06_closure_no_panic", "C06_no_panic", "C06_fuel_irrelevant", "C06_depth_bounded", "C06_too_deep_rejected", "C06_post_usable",
            "C06_alloc_value_agrees", "C06_alloc_linear", "C06_alloc_linear_any_outcome"],
    "C07": ["C07_reads_frame", "C07_read_history_frame", "C07_extracted_input_flows_copy",
            "C07_extracted_marshal_returns_own_buffer"],
    "C11": ["C11_reads_write_nothing", "C11_read_history", "C11_interleaving",
            "C11_extracted_read_paths_write_nothing", "C11_extracted_read_paths_share_no_state"],
    "C14": ["C14_unknown_step", "C14_known_never_unknown", "C14_reencode_unknown_last", "C14_discard",
            "C14_setUnknown_replaces", "C14_getUnknown_reads", "C14_get_after_set", "C14_unknown_on_nil"],
    "C08": ["C08_step_refines", "C08_step_state", "C08_step_preserves_wf", "C08_history_refines", "C08_oneof_at_most_one",
            "C08_set_member_replaces", "C08_clear_inactive_member_noop", "C08_range_exactly_populated_once",
            "C08_mutable_view_writes_through"],
    "C09": ["C09_nil_reads", "C09_nil_reads_no_panic", "C09_nil_writes_panic", "C09_nil_codec", "C09_nil_refines_spec"],
    "C10": ["C10_client_parametric", "C10_client_parametric_run", "C10_client_parametric_pair"],
    "C02": ["C02_keyBytes_eq_tag", "C02_wireType_table", "C02_det_eq_reference"],
    "C03": ["C03_strict_implies_reference", "C03_decode_eq_reference", "C03_decode_eq_reference_fresh",
            "C03_concat_reference", "C03_concat_strict", "C03_concat_eq_merge", "C03_concat_eq_two_steps",
            "C03_extracted_decoder_has_no_call_spanning_state"],
    "C04": ["C04_keySize_eq", "C04_size_eq_len", "C04_size_eq_reference", "C04_index_reaches_zero", "C04_append",
            "C04_extracted_size_keeps_no_cache"],
    "C05": ["C05_order_independent", "C05_rep_independent", "C05_equiv_same_bytes",
            "C05_extracted_marshal_reads_no_call_spanning_state"],
    "C15": ["C15_sov_eq_protowire_size", "C15_soz_eq", "C15_encodeVarint_writes_minimal_varint",
            "C15_skip_no_panic", "C15_skip_progress", "C15_skip_len"],
    "C16": ["C16_pack_url_value", "C16_pack_failure_leaves_dst", "C16_unpack_no_panic", "C16_roundtrip_types",
            "C16_roundtrip_files", "C16_paths_agree", "C16_bad_url_is_error"],
    "C17": ["C17_add_exact", "C17_add_normalised", "C17_add_valid", "C17_add_eq_addStd",
            "C17_add_overflow_panics", "C17_add_no_wrap", "C17_add_nil", "C17_compare_chronological",
            "C17_compare_total_order"],
    "C18": ["C18_gen_timestamp_valid", "C18_gen_duration_valid", "C18_gen_enum_declared", "C18_gen_fieldmask_paths",
            "C18_gen_depth_bounded", "C18_gen_branch_terminates",
            "C18_draws_total", "C18_draws_total_generate", "C18_draws_wellformed", "C18_draws_marshal_roundtrip",
            "C18_draws_depth_bounded", "C18_draws_noEmptyLists", "C18_draws_disallowNil",
            "C18_draws_mapper_honoured", "C18_draws_mapper_consumes_no_draw"],
}

NOT_YET = {
}


# Source-level theorem files: about functions translated from the Go source on every run (tools/go2lean ->
# lean/Pulsar/ExtractedFns.lean). A group joins a run only when all the functions it needs were translated.
# "strict" groups are proved by decision procedures that do not depend on how the source spells the computation
# (case split + linear arithmetic, exhaustion over the 65 bit lengths): a proof that fails there is a broken
# obligation. The groups about LOOPS (and Soz) are proved by an induction / calculation that follows the shape of the source: when such a proof
# no longer goes through, the group is dropped from the run with a note (like an untranslatable function) and the
# function stays with the behavioural tie -- a restructured loop is not evidence against the property.
_KEYSIZE = {"file": "C04Src", "needs": ["generator_KeySize"], "strict": False, "required": ["C04_src_KeySize_eq_tag_length", "C04_src_KeySize_is_model"]}
_SOV = {"file": "C15Src", "needs": ["runtime_Sov"], "strict": True, "required": ["C15_src_Sov_eq_protowire_size"]}
# Soz is a bit-level calculation (shift, xor with the sign mask): its proof is a short calculation that follows the
# source's way of building the mask -- shape-dependent like the loops
_SOZ = {"file": "C15SrcSoz", "needs": ["runtime_Sov", "runtime_Soz"], "strict": False, "required": ["C15_src_Soz_eq"]}
_ENC = {"file": "C15SrcEnc", "needs": ["runtime_Sov", "runtime_EncodeVarint"], "strict": False,
        "required": ["C15_src_EncodeVarint_writes_minimal_varint", "C15_src_EncodeVarint_fuel_suffices"]}
_SKIP = {"file": "C15SrcSkip", "needs": ["runtime_Skip"], "strict": False, "required": ["C15_src_Skip_is_model"]}
_LIMIT = {"file": "C06Src", "needs": ["runtime_nestedRecursionLimit"], "strict": True,
          "required": ["C06_src_nestedRecursionLimit_is_model", "C06_src_budget_decreases"]}
_MOPTS = {"file": "C05Src", "needs": ["runtime_SizeInputToOptions", "runtime_MarshalInputToOptions"], "strict": True,
          "required": ["C05_src_marshal_flags_forwarded", "C05_src_size_flags_forwarded", "C05_src_size_and_marshal_options_agree"]}
_UOPTS = {"file": "C14Src", "needs": ["runtime_UnmarshalInputToOptions", "runtime_nestedRecursionLimit"], "strict": True,
          "required": ["C14_src_unmarshal_options", "C14_src_discard_forwarded", "C14_src_limit_decreases"]}
SRC = {
    "C02": [_KEYSIZE, _MOPTS],
    "C03": [_UOPTS],
    "C05": [_MOPTS],
    "C04": [_KEYSIZE, _SOV, _SOZ, _MOPTS],
    "C06": [_LIMIT, _SKIP, _UOPTS],
    "C14": [_SKIP, _UOPTS],
    "C15": [_SOV, _SOZ, _ENC, _SKIP],
    "C17": [{"file": "C17Src", "strict": True,
             "needs": ["timepb_IsZero", "timepb_Compare", "timepb_DurationIsNegative", "timepb_overflowPanic", "timepb_Add"],
             "required": ["C17_src_Compare_is_model", "C17_src_Add_is_model", "C17_src_add_exact", "C17_src_add_overflow_panics",
                          "C17_src_add_no_wrap", "C17_src_compare_chronological"]}],
}


def required_theorems(pid):
    return REQUIRED.get(pid, [])


def lean_modules(pid):
    return ["Pulsar.Properties." + pid]
