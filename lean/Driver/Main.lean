/-
  Line-protocol driver: one command per input line, one answer per output line.
  Runs the *same* `def`s the theorems are about (compiled). Core-only imports, so it links.
-/
import Pulsar.Syntax
import Pulsar.Typing
import Pulsar.ReflectSyntax
import Pulsar.RapidSyntax
import Pulsar.Timepb
import Pulsar.Anyutil
import Pulsar.Gen
import Pulsar.GenTables
import Std.Data.HashMap
open Pulsar Pulsar.Syntax

def idPerm : List Val → List Val := id

def resBytes : Res Bytes → String
  | .ok b => "ok " ++ hexOfBytes b
  | .err _ => "err"
  | .panic => "panic"

def resVal (S : Schema) (i : Nat) : Res Val → String
  | .ok v => "ok " ++ printVal (canonMsg S (v.depth + 1) i v)
  | .err _ => "err"
  | .panic => "panic"

def resNat : Res Nat → String
  | .ok n => "ok " ++ toString n
  | .err _ => "err"
  | .panic => "panic"

def parseFlags (s : String) : UOpts :=
  { merge := s.contains 'm', discard := s.contains 'd' }

/-- `deptab` command: the Go type table and dependency index table (Pulsar.GenTables). Lists are comma separated,
    `-` is the empty list; the typed fields of the messages are separated by `;` (one group per message). -/
def listOf (sep : String) (s : String) : List String := if s == "-" || s == "" then [] else s.splitOn sep
def showList (l : List String) : String := if l.isEmpty then "-" else ",".intercalate l
def deptabAnswer (enums msgs deps exts methods : String) : String :=
  let fieldDeps := if deps == "-" then [] else (deps.splitOn ";").map (fun g => if g == "" then [] else g.splitOn ",")
  let ms := (listOf "," methods).map (fun m => match m.splitOn ">" with | [a, b] => (a, b) | _ => (m, m))
  -- an extension is `extendee` or `extendee:typeName`
  let xs : List (String × Option String) := (listOf "," exts).map (fun x => match x.splitOn ":" with | [a, b] => (a, some b) | _ => (x, none))
  let t := Pulsar.Gen.typeTables (listOf "," enums) (listOf "," msgs) fieldDeps xs ms
  "ok " ++ showList t.goTypes ++ " " ++ showList (t.deps.map toString) ++ " " ++ showList (t.offsets.map toString)

/-- answer of the `features` / `param` commands (formats documented at the top of Pulsar/Gen.lean) -/
def featuresAnswer (flag : Option String) : String :=
  match Gen.findFeatures Gen.registered (Gen.parseFeatures flag) id with
  | .ok fs => "ok " ++ ",".intercalate (Gen.featureNames fs) ++ " emits=" ++ (if Gen.emits fs then "t" else "f")
  | .error _ => "err"

/-- `ok <names> emits=<b>` ↦ `ok emits=<b>` (what a plugin response shows) -/
def emitsOnly (a : String) : String :=
  match a.splitOn " " with
  | ["ok", _, e] => "ok " ++ e
  | _ => a

def msgindexAnswer (forest fullname : String) : String :=
  match Gen.parseTops forest with
  | none => "bad-tree"
  | some tops =>
    match Gen.resolve tops (Gen.splitOn '.' fullname) with
    | some (i :: rest) =>
      (match Gen.msgIndex id tops (i :: rest) with
       | some n => "ok " ++ toString n ++ " " ++ ",".intercalate (Gen.findParents tops (i :: rest))
       | none => "panic")
    | _ => "notfound"

abbrev St := Std.HashMap String Schema

def withVal (toks : List String) (k : Val → String) : String :=
  match parseVal (toks.length + 1) toks with
  | some (v, []) => k v
  | _ => "bad-val"

def step (st : St) (line : String) : St × String :=
  let toks := (line.trimAscii.toString.splitOn " ").filter (· ≠ "")
  match toks with
  | "schema" :: sid :: rest =>
    (match parseSchema rest with
     | some S => (st.insert sid S, "schema " ++ (if S.WF then "wf" else "not-wf") ++ " msgs=" ++ toString S.msgs.length)
     | none => (st, "bad-schema"))
  | "enc" :: sid :: i :: det :: rest =>
    (match st.get? sid, i.toNat? with
     | some S, some i => (st, withVal rest (fun v =>
         resBytes (implMarshal S ⟨det == "1", idPerm⟩ (v.depth + 1) i v)))
     | _, _ => (st, "bad-op"))
  | "encc" :: sid :: i :: det :: rest =>     -- closure only (options.Marshal with AllowPartial)
    (match st.get? sid, i.toNat? with
     | some S, some i => (st, withVal rest (fun v =>
         resBytes (implMarshalClosure S ⟨det == "1", idPerm⟩ (v.depth + 1) i v)))
     | _, _ => (st, "bad-op"))
  | "renc" :: sid :: i :: rest =>
    (match st.get? sid, i.toNat? with
     | some S, some i => (st, withVal rest (fun v => "ok " ++ hexOfBytes (specEncode S (v.depth + 1) i v)))
     | _, _ => (st, "bad-op"))
  | "size" :: sid :: i :: det :: rest =>
    (match st.get? sid, i.toNat? with
     | some S, some i => (st, withVal rest (fun v => "ok " ++ toString (implSize S ⟨det == "1", idPerm⟩ (v.depth + 1) i v)))
     | _, _ => (st, "bad-op"))
  | "dec" :: sid :: i :: flags :: hex :: rest =>
    (match st.get? sid, i.toNat?, bytesOfHex (hex.drop 1).toString with
     | some S, some i, some bs => (st, withVal rest (fun m0 => resVal S i (implUnmarshal S (parseFlags flags) i m0 bs)))
     | _, _, _ => (st, "bad-op"))
  | "rdec" :: sid :: i :: flags :: hex :: rest =>
    (match st.get? sid, i.toNat?, bytesOfHex (hex.drop 1).toString with
     | some S, some i, some bs => (st, withVal rest (fun m0 => resVal S i (specUnmarshal S (parseFlags flags) i m0 bs)))
     | _, _, _ => (st, "bad-op"))
  | "rdecn" :: sid :: i :: flags :: hex :: rest =>
    (match st.get? sid, i.toNat?, bytesOfHex (hex.drop 1).toString with
     | some S, some i, some bs => (st, withVal rest (fun m0 =>
         match specUnmarshal S (parseFlags flags) i m0 bs with
         | .ok v => "ok " ++ printVal (repNorm S (v.depth + 1) i v)
         | .err _ => "err" | .panic => "panic"))
     | _, _, _ => (st, "bad-op"))
  | "refl" :: sid :: i :: rest =>           -- reflection history on the IMPL machine (REFLECT_PROTOCOL.md)
    (match st.get? sid, i.toNat? with
     | some S, some i => (st, cmdRefl S i rest)
     | _, _ => (st, "bad-op"))
  | "rrefl" :: sid :: i :: rest =>          -- the same history on the SPEC machine
    (match st.get? sid, i.toNat? with
     | some S, some i => (st, cmdRrefl S i rest)
     | _, _ => (st, "bad-op"))
  | "rgen" :: sid :: i :: rest =>           -- rapidproto generation replayed from draws (RAPID_PROTOCOL.md)
    (match st.get? sid, i.toNat? with
     | some S, some i => (st, cmdRgen S i rest)
     | _, _ => (st, "bad-op"))
  | "rwkt" :: rest => (st, cmdRwkt rest)     -- well-known-type generators
  | ["anyunpack", urlhex, tans, fans, dec] =>
    -- urlhex: x<hex of url>; tans/fans: m:<hex name> | n | nf | oe ; dec: ok | err | panic
    let str (h : String) : Option String := (bytesOfHex (h.drop 1).toString).map (fun b => String.ofList (b.map (fun c => Char.ofNat c.toNat)))
    let look (a : String) : Option Anyutil.Lookup :=
      match a.splitOn ":" with
      | ["m", h] => (str ("x" ++ h)).map Anyutil.Lookup.message
      | ["n"] => some .nonMessage
      | ["nf"] => some .notFound
      | ["oe"] => some .otherErr
      | _ => none
    (match str urlhex, look tans, look fans with
     | some url, some t, some f =>
       let d : String → Bytes → Res Unit := fun _ _ => if dec == "ok" then .ok () else if dec == "err" then .err .other else .panic
       (st, match Anyutil.unpack ⟨url, []⟩ (fun _ => t) (fun _ => f) d with
            | .ok u => "ok " ++ u.typeName ++ " " ++ (if u.dynamic then "dyn" else "go")
            | .err _ => "err" | .panic => "panic")
     | _, _, _ => (st, "bad-op"))
  | ["features"] => (st, featuresAnswer none)
  | ["features", v] => (st, featuresAnswer (some (if v == "\"\"" then "" else v)))
  | ["param"] => (st, featuresAnswer none)
  | ["param", p] =>
    (st, match Gen.parseParameter p with
         | .ok flag => featuresAnswer flag
         | .error _ => "err")
  | ["paramq"] => (st, emitsOnly (featuresAnswer none))
  | ["paramq", p] =>
    (st, match Gen.parseParameter p with
         | .ok flag => emitsOnly (featuresAnswer flag)
         | .error _ => "err")
  | ["goname", n] => (st, Gen.goFieldName n)
  | ["msgindex", forest, fullname] => (st, msgindexAnswer forest fullname)
  | ["deptab", enums, msgs, deps, methods] => (st, deptabAnswer enums msgs deps "-" methods)
  | ["deptab", enums, msgs, deps, exts, methods] => (st, deptabAnswer enums msgs deps exts methods)
  | ["flatten", forest] =>
    (st, match Gen.parseTops forest with
         | some tops => "ok " ++ ",".intercalate ((Gen.allMessages tops).map Gen.dotted)
         | none => "bad-tree")
  | ["sov", n] => (st, match n.toNat? with | some n => toString (sov n) | none => "bad-op")
  | ["soz", n] => (st, match n.toNat? with | some n => toString (soz n) | none => "bad-op")
  | ["varint", n] => (st, match n.toNat? with | some n => hexOfBytes (varint n) | none => "bad-op")
  | ["zz", n] => (st, match n.toNat? with | some n => toString (zigzag64 n) | none => "bad-op")
  | ["encv", hex, off, v] =>
    (match bytesOfHex (hex.drop 1).toString, off.toNat?, v.toNat? with
     | some d, some off, some v =>
       (st, match encodeVarint d off v with
            | .ok (d', base) => "ok " ++ hexOfBytes d' ++ " " ++ toString base
            | .err _ => "err" | .panic => "panic")
     | _, _, _ => (st, "bad-op"))
  | ["skip", hex] =>
    (match bytesOfHex (hex.drop 1).toString with
     | some bs => (st, resNat (skip bs))
     | none => (st, "bad-op"))
  | ["cfield", hex] =>
    (match bytesOfHex (hex.drop 1).toString with
     | some bs => (st, resNat (consumeField bs))
     | none => (st, "bad-op"))
  | ["keysize", n, wt] =>
    (match n.toNat?, wt.toNat? with
     | some n, some wt => (st, toString (keySize n wt) ++ " " ++ hexOfBytes (keyBytes n wt))
     | _, _ => (st, "bad-op"))
  | ["tsadd", s, n, ds, dn] =>
    (match s.toInt?, n.toInt?, ds.toInt?, dn.toInt? with
     | some s, some n, some ds, some dn =>
       (st, match Timepb.add (some ⟨s, n⟩) ⟨ds, dn⟩ with
            | .ok (some r) => "ok " ++ toString r.sec ++ " " ++ toString r.nanos
            | .ok none => "ok nil"
            | .err _ => "err" | .panic => "panic")
     | _, _, _, _ => (st, "bad-op"))
  | ["tscmp", s, n, s2, n2] =>
    (match s.toInt?, n.toInt?, s2.toInt?, n2.toInt? with
     | some s, some n, some s2, some n2 => (st, toString (Timepb.compare ⟨s, n⟩ ⟨s2, n2⟩))
     | _, _, _, _ => (st, "bad-op"))
  | ["tsstd", s, n, d] =>
    (match s.toInt?, n.toInt?, d.toInt? with
     | some s, some n, some d =>
       let r := Timepb.addStdSpec ⟨s, n⟩ d
       (st, "ok " ++ toString r.sec ++ " " ++ toString r.nanos)
     | _, _, _ => (st, "bad-op"))
  | [] => (st, "")
  | _ => (st, "bad-op")

partial def loop (hin : IO.FS.Stream) (hout : IO.FS.Stream) (st : St) : IO Unit := do
  let line ← hin.getLine
  if line.isEmpty then return ()
  let (st', out) := step st line
  hout.putStrLn out
  loop hin hout st'

def main : IO Unit := do
  let hin ← IO.getStdin
  let hout ← IO.getStdout
  loop hin hout {}
