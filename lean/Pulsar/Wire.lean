/-
  Pulsar.Wire — the protobuf wire format as google.golang.org/protobuf/encoding/protowire defines it.
  This is the *specification* side: `varint` is `protowire.AppendVarint`, `consumeVarint` is
  `protowire.ConsumeVarint`, `zigzag64` is `protowire.EncodeZigZag`, `tag` is `protowire.EncodeTag`.
-/
import Pulsar.Basic
namespace Pulsar

/-- `protowire.AppendVarint(nil, n)`: minimal base-128 little-endian encoding. -/
def varint (n : Nat) : Bytes :=
  if h : n < 128 then [n.toUInt8] else (n % 128 + 128).toUInt8 :: varint (n / 128)
termination_by n
decreasing_by omega

/-- `protowire.SizeVarint`. -/
def sizeVarint (n : Nat) : Nat := (varint n).length

/-- `protowire.EncodeZigZag` on the 64-bit pattern `n` of an `int64`. -/
def zigzag64 (n : Nat) : Nat :=
  if n < 9223372036854775808 then 2 * n else 2 * (18446744073709551616 - n) - 1

/-- `protowire.DecodeZigZag`: 64-bit pattern of the decoded `int64`. -/
def unzigzag64 (z : Nat) : Nat :=
  if z % 2 = 0 then z / 2 else 18446744073709551616 - (z / 2 + 1)

/-- zig-zag in 32 bits (`(uint32(x) << 1) ^ uint32(x >> 31)`) on a 32-bit pattern. -/
def zigzag32 (n : Nat) : Nat :=
  if n < 2147483648 then 2 * n else 2 * (4294967296 - n) - 1

def unzigzag32 (z : Nat) : Nat :=
  if z % 2 = 0 then z / 2 else 4294967296 - (z / 2 + 1)

/-- little-endian fixed-width encodings -/
def le (w : Nat) (n : Nat) : Bytes :=
  match w with
  | 0 => []
  | w+1 => (n % 256).toUInt8 :: le w (n / 256)

def fixed32 (n : Nat) : Bytes := le 4 n
def fixed64 (n : Nat) : Bytes := le 8 n

def ofLE : Bytes → Nat
  | [] => 0
  | b :: bs => b.toNat + 256 * ofLE bs

/-- `protowire.EncodeTag` followed by `AppendVarint`. -/
def tag (num wt : Nat) : Bytes := varint (num * 8 + wt)

/-- `protowire.ConsumeVarint`: at most 10 bytes; the 10th must be 0 or 1.
    Returns the value and the remaining input. `fuel`-free: structural on the list with a byte counter. -/
def consumeVarintAux : (k : Nat) → (shift : Nat) → (acc : Nat) → Bytes → Res (Nat × Bytes)
  | _, _, _, [] => .err .eof
  | k, shift, acc, b :: rest =>
    if k = 9 then
      -- tenth byte
      if b.toNat < 2 then .ok (acc + b.toNat * 2 ^ shift, rest) else .err .overflow
    else if b.toNat < 128 then .ok (acc + b.toNat * 2 ^ shift, rest)
    else consumeVarintAux (k + 1) (shift + 7) (acc + (b.toNat - 128) * 2 ^ shift) rest

def consumeVarint (bs : Bytes) : Res (Nat × Bytes) := consumeVarintAux 0 0 0 bs

/-- UTF-8 validity (`unicode/utf8.Valid`): well-formed sequences, no surrogates, no overlongs, ≤ U+10FFFF. -/
def utf8Valid : Bytes → Bool
  | [] => true
  | b0 :: rest =>
    let x := b0.toNat
    if x < 0x80 then utf8Valid rest
    else if x < 0xC2 then false
    else if x < 0xE0 then
      match rest with
      | b1 :: r => (0x80 ≤ b1.toNat && b1.toNat ≤ 0xBF) && utf8Valid r
      | _ => false
    else if x < 0xF0 then
      match rest with
      | b1 :: b2 :: r =>
        let lo := if x = 0xE0 then 0xA0 else 0x80
        let hi := if x = 0xED then 0x9F else 0xBF
        (lo ≤ b1.toNat && b1.toNat ≤ hi) && (0x80 ≤ b2.toNat && b2.toNat ≤ 0xBF) && utf8Valid r
      | _ => false
    else if x < 0xF5 then
      match rest with
      | b1 :: b2 :: b3 :: r =>
        let lo := if x = 0xF0 then 0x90 else 0x80
        let hi := if x = 0xF4 then 0x8F else 0xBF
        (lo ≤ b1.toNat && b1.toNat ≤ hi) && (0x80 ≤ b2.toNat && b2.toNat ≤ 0xBF)
          && (0x80 ≤ b3.toNat && b3.toNat ≤ 0xBF) && utf8Valid r
      | _ => false
    else false
termination_by bs => bs.length
decreasing_by all_goals simp_wf <;> omega


/-- `protowire.ConsumeTag`: field number must be in `1 ..= MaxInt32`. Returns (num, wire type, rest). -/
def consumeTag (bs : Bytes) : Res (Nat × Nat × Bytes) :=
  match consumeVarint bs with
  | .ok (v, rest) =>
    let num := v / 8
    if num > 2147483647 then .err .illegalTag
    else if num < 1 then .err .illegalTag
    else .ok (num, v % 8, rest)
  | .err e => .err e
  | .panic => .panic

mutual
/-- `protowire.consumeFieldValueD`: returns the input remaining after the value. `depth` is the remaining
    recursion budget; `fuel` is a structural bound (≥ input length + 1).
    protowire starts with DefaultRecursionLimit = 10000 and refuses a start-group only when the budget is NEGATIVE
    (`if depth < 0`), so 10001 nested groups are accepted and 10002 refused; with a natural-number budget that
    refuses at 0 this is a start value of 10001 (callers: `consumeField`, the reference decoder's unknown path).
    Found by the group-depth boundary pass of the runtime engine (model said `err` at 10001 levels). -/
def consumeValue : (fuel : Nat) → (depth : Nat) → (num typ : Nat) → Bytes → Res Bytes
  | 0, _, _, _, _ => .err .eof
  | fuel+1, depth, num, typ, bs =>
    if typ = 0 then
      match consumeVarint bs with
      | .ok (_, rest) => .ok rest
      | .err e => .err e
      | .panic => .panic
    else if typ = 5 then (if bs.length < 4 then .err .eof else .ok (bs.drop 4))
    else if typ = 1 then (if bs.length < 8 then .err .eof else .ok (bs.drop 8))
    else if typ = 2 then
      match consumeVarint bs with
      | .ok (m, rest) => if m > rest.length then .err .eof else .ok (rest.drop m)
      | .err e => .err e
      | .panic => .panic
    else if typ = 3 then
      (if depth = 0 then .err .depth else consumeGroup fuel (depth - 1) num bs)
    else if typ = 4 then .err .endGroup
    else .err .illegalWire
/-- the body of a group numbered `num`: records until the matching end-group tag. -/
def consumeGroup : (fuel : Nat) → (depth : Nat) → (num : Nat) → Bytes → Res Bytes
  | 0, _, _, _ => .err .eof
  | fuel+1, depth, num, bs =>
    match consumeTag bs with
    | .ok (num2, typ2, rest) =>
      if typ2 = 4 then (if num = num2 then .ok rest else .err .endGroup)
      else
        match consumeValue fuel depth num2 typ2 rest with
        | .ok rest2 => consumeGroup fuel depth num rest2
        | .err e => .err e
        | .panic => .panic
    | .err e => .err e
    | .panic => .panic
end

/-- `protowire.ConsumeField`: length of the first complete record (tag + value). -/
def consumeField (bs : Bytes) : Res Nat :=
  match consumeTag bs with
  | .ok (num, typ, rest) =>
    match consumeValue (2 * bs.length + 2) 10001 num typ rest with
    | .ok rest2 => .ok (bs.length - rest2.length)
    | .err e => .err e
    | .panic => .panic
  | .err e => .err e
  | .panic => .panic

end Pulsar
