/-
  Pulsar.Reflect — the generated "fast reflection" (`protoreflect.Message` on the Go struct) as a state
  machine over `Val`, and the reference semantics (protobuf-go `dynamicpb`, v1.34.0) as a state machine
  over abstract messages (`Val` in `repNorm` form).

  Sources modelled (read, not guessed):
    /repo/features/fastreflection/{has,get,set,clear,mutable,new_field,which_oneof,range,list,map,
    proto_message}.go  and their output /repo/testpb/1.pulsar.go;
    /repo/features/protoc/main.go (`genMessageGetterMethods`, `genMessageBaseMethods`: the plain-Go getters and
    `Reset()`; op `getter`, `Reflect.getterF` / `Reflect.getterZero`);
    google.golang.org/protobuf@v1.34.0/types/dynamicpb/dynamic.go.

  * `Reflect.step`      : IMPL machine.  State = the Go struct (`Val`, nil-vs-empty flags kept, map entries
                          in insertion order, oneof member slots `.one v` / `.none` / `.oneNil`).
  * `SpecReflect.step`  : SPEC machine.  State = abstract message (`repNorm` form: all nonNil flags false,
                          map entries sorted by key).  Its value arguments are abstract too (`Op.abs`).
  * `abs`               : `repNorm`, the abstraction function.

  Conventions shared by both machines
  * a Go panic is the output `.panic` and leaves the *whole* root state unchanged (the protocol's
    convention: the engine restores its snapshot);
  * ill-formed ops (field index out of range, list op on a non-list field, …) give `.panic`: the real
    code panics in its `default:` case / in the `Value.List()` type assertion;
  * the machines are handle-free: a `List`/`Map` view is re-obtained for every op.  This is exact for the
    generated code because a view is only a pointer to the struct field (`&x.F`).
  * `Truncate(n)` with `len < n` panics in the model.  In Go `(*x.list)[:n]` succeeds when `n ≤ cap` and
    then exposes stale elements (dynamicpb has the same code); capacities are not modelled.
-/
import Pulsar.Typing
namespace Pulsar

/-! ## Operations and outputs -/

/-- read-only operations (first table of REFLECT_PROTOCOL.md) -/
inductive ROp
  | has (j : Nat) | get (j : Nat) | which (g : Nat) | range | getu | valid
  | llen (j : Nat) | lget (j i : Nat) | mlen (j : Nat) | mhas (j : Nat) (k : Val)
  | mget (j : Nat) (k : Val) | mrange (j : Nat) | size | enc
  | newf (j : Nat)   -- listed with the writes in the protocol, but it never changes the state and the engine
                     -- addresses it through the read path (`Get…`), so it is a read here
  | getter (j : Nat) -- the plain-Go accessor `x.Get<Field>()` of field `j` (protoc-gen-go `genMessageGetterMethods`;
                     -- for a oneof member the member getter `x.Get<Member>()`), not a protoreflect call
  deriving Repr, Inhabited

/-- writes (second table, without `newf`) -/
inductive WOp
  | set (j : Nat) (v : Val) | clear (j : Nat) | mut (j : Nat) | setu (b : Bytes)
  | lset (j i : Nat) (v : Val) | lapp (j : Nat) (v : Val) | lappm (j : Nat) | ltrunc (j n : Nat)
  | mset (j : Nat) (k v : Val) | mclr (j : Nat) (k : Val) | mmut (j : Nat) (k : Val) | reset
  deriving Repr, Inhabited

/-- an operation addressed to the root or, by prefixes, to a nested message -/
inductive Op
  | r (o : ROp)
  | w (o : WOp)
  | «in» (j : Nat) (op : Op)
  | «at» (j i : Nat) (op : Op)
  | mv (j : Nat) (k : Val) (op : Op)
  deriving Repr, Inhabited

/-- does the op reach its target through `Mutable` (leaf in the writes table)? -/
def Op.isWrite : Op → Bool
  | .r _ => false
  | .w _ => true
  | .in _ o => o.isWrite
  | .at _ _ o => o.isWrite
  | .mv _ _ o => o.isWrite

/-- structured outputs; `Pulsar.Syntax.printOut` maps them to the protocol's tokens -/
inductive Out
  | bool (b : Bool)                       -- `t` / `f`
  | bits (n : Nat)                        -- `b<hex>`
  | str (b : Bytes)                       -- `s<hex>` (string and bytes)
  | msgv (valid : Bool)                   -- `M1` / `M0`
  | listv (valid : Bool) (len : Nat)      -- `L<valid>:<len>`
  | mapv (valid : Bool) (len : Nat)       -- `P<valid>:<len>`
  | glist (len : Nat)                     -- `L:<len>`  (`getter`: a Go slice has a length and no validity bit)
  | gmap (len : Nat)                      -- `P:<len>`  (`getter`: a Go map)
  | which (j : Option Nat)                -- `-` / `j`
  | fields (js : List Nat)                -- `[0,3,7]` (ascending)
  | keys (ks : List Val)                  -- `[b1,b2]` (ascending by key order, flags cleared)
  | unk (b : Bytes)                       -- `u<hex>`
  | nat (n : Nat)                         -- decimal
  | enc (r : Res Bytes)                   -- `x<hex>` / `err` / `panic`
  | ok
  | panic
  | absent
  deriving Repr, Inhabited

/-- `Value` of one element as the protocol prints it (`get` of a singular field, list element, map value). -/
def outElem (e : Elem) (v : Val) : Out :=
  match e with
  | .scalar k => if k.isBlob then .str v.getBlob else .bits v.getBits
  | .message _ => .msgv (!v.isNone)

/-- a `Get` result rendered in the tokens of the `getter` op: scalars and messages (`M1` = non-nil pointer /
    valid message) are printed alike; a list/map keeps its length and drops the validity bit, which a plain
    Go slice/map does not have (`L<valid>:<len>` ↦ `L:<len>`, `P<valid>:<len>` ↦ `P:<len>`). -/
def Out.asGetter : Out → Out
  | .listv _ n => .glist n
  | .mapv _ n => .gmap n
  | o => o

/-- key token with the (unobservable) nil flag cleared -/
def normKey (k : Val) : Val := match k with | .blob _ b => .blob false b | x => x

/-- first entry with key `k` -/
def findEntry (kk : Kind) (es : List Val) (k : Val) : Option Val :=
  es.find? (fun en => kbeqOf kk en.key k)

/-- the value of the entry found, or `d` (the freshly allocated message of `Map.Mutable`) -/
def valueOr (o : Option Val) (d : Val) : Val :=
  match o with | some en => en.value | none => d

/-- indexes (counted from `n`) of the fields satisfying `p` -/
def idxFilter (p : FieldDesc → Val → Bool) : Nat → List FieldDesc → List Val → List Nat
  | _, [], _ => []
  | _, _, [] => []
  | n, f :: fs, v :: vs => (if p f v then [n] else []) ++ idxFilter p (n+1) fs vs

/-- first index (counted from `n`) of a member of oneof `g` whose slot is not `.none` -/
def whichFrom (g : Nat) : Nat → List FieldDesc → List Val → Option Nat
  | _, [], _ => none
  | _, _, [] => none
  | n, f :: fs, v :: vs => if f.group? == some g && !v.isNone then some n else whichFrom g (n+1) fs vs

/-- fresh values of `NewField` (identical in the generated code and in dynamicpb) -/
def newF (f : FieldDesc) : Out :=
  match f.shape with
  | .repeated _ => .listv true 0
  | .map _ => .mapv true 0
  | _ => (match f.elem with
          | .scalar k => outElem (.scalar k) (Elem.zeroVar (.scalar k))
          | .message _ => .msgv true)

/-- outcome of a field-level write -/
inductive FW
  | panic
  | put (v : Val)       -- `x.F = v`
  | putOne (v : Val)    -- `x.Oneof = &W{F: v}`: every other member of the group is dropped

def applyFW (fs : List FieldDesc) (f : FieldDesc) (j : Nat) (slots : List Val) (u : Bytes) : FW → Val × Out
  | .panic => (.msg slots u, .panic)
  | .put v => (.msg (slots.set j v) u, .ok)
  | .putOne v =>
    (match f.shape with
     | .oneof g => (.msg ((clearGroup fs g slots).set j (.one v)) u, .ok)
     | _ => (.msg slots u, .panic))

/-- drop the entries with key `k` (Go `delete`) -/
def mapDel (kk : Kind) (es : List Val) (k : Val) : List Val :=
  es.filter (fun en => !kbeqOf kk en.key k)

def isOneNil : Val → Bool | .oneNil => true | _ => false

/-- the field a write op addresses -/
def WOp.field? : WOp → Option Nat
  | .set j _ | .clear j | .mut j | .lset j _ _ | .lapp j _ | .lappm j | .ltrunc j _
  | .mset j _ _ | .mclr j _ | .mmut j _ => some j
  | _ => none

namespace Reflect

/-! ## IMPL machine: field level -/

/-- `Has`: has.go (`genField`/`genNullable`). Floats: `x != 0 || Signbit(x)` ⇔ bits ≠ 0. A oneof member is
    reported when the interface holds a non-nil wrapper of its type (a typed-nil wrapper counts as unset). -/
def hasF (f : FieldDesc) (v : Val) : Bool :=
  match f.shape with
  | .singular => (match f.elem with | .scalar k => implPresent k v | .message _ => !v.isNone)
  | .oneof _ => (match v with | .one _ => true | _ => false)   -- `v, ok := x.O.(*W); ok && v != nil` (fix 424cbe1)
  | .repeated _ => !v.elems.isEmpty
  | .map _ => !v.elems.isEmpty

/-- `Get`: get.go. Empty list/map (nil **or** allocated-empty: the test is `len(x.F) == 0`) ⇒ a view with a
    nil pointer, `IsValid() = false`. Unset message ⇒ `(*T)(nil).ProtoReflect()`, `IsValid() = false`.
    Typed-nil wrapper ⇒ treated as unset (`ok && v != nil`, fix 424cbe1). -/
def getF (f : FieldDesc) (v : Val) : Out :=
  match f.shape with
  | .singular => outElem f.elem v
  | .oneof _ => (match v with
                 | .one x => outElem f.elem x
                 | _ => outElem f.elem (Elem.zeroVar f.elem))   -- unset, other member, or typed-nil wrapper
  | .repeated _ => if v.elems.isEmpty then .listv false 0 else .listv true v.elems.length
  | .map _ => if v.elems.isEmpty then .mapv false 0 else .mapv true v.elems.length

/-- The generated plain-Go getter on a NON-nil receiver (protoc-gen-go `genMessageGetterMethods`, output in
    /repo/testpb/1.pulsar.go):

      func (x *A) GetF() T { if x != nil { return x.F }; return <zero> }                 -- singular, list, map
      func (x *A) GetM() T { if x, ok := x.GetOneof().(*A_M); ok { return x.M }; return <zero> }   -- oneof member

    * singular scalar / message: the struct field itself (a message getter returns the pointer: `M1`/`M0`);
    * list / map: the Go slice / map itself — nil or allocated, it only has a length (`L:<len>` / `P:<len>`);
    * oneof member: the type assertion `.(*A_M)` succeeds for ANY wrapper of that type, so for the typed-nil
      wrapper `(*A_M)(nil)` it succeeds with `x == nil`; since fix 8687e51 the getter tests `ok && x != nil`
      and returns `<zero>` like `Get` does. Another member active or the interface nil: `<zero>`. -/
def getterF (f : FieldDesc) (v : Val) : Out :=
  match f.shape with
  | .singular => outElem f.elem v
  | .oneof _ => (match v with
                 | .one x => outElem f.elem x
                 | _ => outElem f.elem (Elem.zeroVar f.elem))   -- incl. the typed-nil wrapper (`ok && x != nil`, fix 8687e51)
  | .repeated _ => .glist v.elems.length
  | .map _ => .gmap v.elems.length

/-- … and on the nil receiver: `return <zero>` (`0`, `false`, `""`, `nil`, the enum's first value — number 0
    in proto3). A oneof member getter reaches the same `return` through `x.GetOneof()`, which returns the
    nil interface for a nil receiver. -/
def getterZero (f : FieldDesc) : Out :=
  match f.shape with
  | .repeated _ => .glist 0
  | .map _ => .gmap 0
  | _ => outElem f.elem (Elem.zeroVar f.elem)

/-- `value.X()` unwrapping and conversion to the Go field type (set.go `genField`, list.go
    `genPrefValueToGoValue`); `none` = the type assertion panics. Strings have no nil flag; a `[]byte` keeps
    the slice it was given; a message keeps the pointer. -/
def storeElem (e : Elem) (a : Val) : Option Val :=
  match e with
  | .scalar k =>
    (match a with
     | .bits n => if k.isBlob then none else some (.bits n)
     | .blob nn b => if k == .bytes then some (.blob nn b) else if k == .string then some (.blob false b) else none
     | _ => none)
  | .message _ =>
    (match a with
     | .msg s u => some (.msg s u)
     | .none => some .none
     | _ => none)

/-- `Set`: set.go. List/map: `x.F = *clv.list` — a nil-pointer dereference for the invalid (read-only
    empty) view, which is the protocol's `(l )` / `(p )`. -/
def setF (f : FieldDesc) (a : Val) : FW :=
  match f.shape with
  | .singular => (match storeElem f.elem a with | some x => .put x | none => .panic)
  | .oneof _ => (match storeElem f.elem a with | some x => .putOne x | none => .panic)
  | .repeated _ => (match a with | .list true es => .put (.list true es) | _ => .panic)
  | .map _ => (match a with | .map true es => .put (.map true es) | _ => .panic)

/-- `Clear`: clear.go. Every kind is reset to its Go zero value. For a oneof member the (fixed) template
    emits `if _, ok := x.Oneof.(*W); ok { x.Oneof = nil }`: only the member's own slot is touched, so this is
    `put .none` as well; when the member is not the active one its slot already is `.none`. -/
def clearF (f : FieldDesc) : FW := .put f.zero

/-- `Mutable`: mutable.go. -/
def mutF (S : Schema) (f : FieldDesc) (v : Val) : FW :=
  match f.shape with
  | .singular =>
    (match f.elem with
     | .message mi => .put (if v.isNone then emptyMsg S mi else v)
     | .scalar _ => .panic)
  | .repeated _ => .put (.list true v.elems)      -- `if x.F == nil { x.F = []T{} }`
  | .map _ => .put (.map true v.elems)            -- `if x.F == nil { x.F = make(map…) }`
  | .oneof _ =>
    (match f.elem with
     | .message mi =>
       (match v with
        | .one .none => .putOne (emptyMsg S mi)   -- `if m == nil || m.F == nil { allocate }` (fix 87342f4)
        | .one x => .put (.one x)                 -- `case *W: return m.F.ProtoReflect()`, no allocation
        | _ => .putOne (emptyMsg S mi))           -- unset, another member, or a typed-nil wrapper
     | .scalar _ => .panic)

/-- list view writes, after `Mutable(fd)` (list.go) -/
def lsetF (f : FieldDesc) (v : Val) (i : Nat) (a : Val) : FW :=
  match f.shape with
  | .repeated _ =>
    (match storeElem f.elem a with
     | some x => if i < v.elems.length then .put (.list true (v.elems.set i x)) else .panic
     | none => .panic)
  | _ => .panic

def lappF (f : FieldDesc) (v : Val) (a : Val) : FW :=
  match f.shape with
  | .repeated _ =>
    (match storeElem f.elem a with
     | some x => .put (.list true (v.elems ++ [x]))
     | none => .panic)
  | _ => .panic

def lappmF (S : Schema) (f : FieldDesc) (v : Val) : FW :=
  match f.shape with
  | .repeated _ =>
    (match f.elem with
     | .message mi => .put (.list true (v.elems ++ [emptyMsg S mi]))
     | .scalar _ => .panic)
  | _ => .panic

def ltruncF (f : FieldDesc) (v : Val) (n : Nat) : FW :=
  match f.shape with
  | .repeated _ => if n ≤ v.elems.length then .put (.list true (v.elems.take n)) else .panic
  | _ => .panic

/-- map view writes, after `Mutable(fd)` (map.go) -/
def msetF (f : FieldDesc) (v : Val) (k a : Val) : FW :=
  match f.shape with
  | .map kk =>
    (match storeElem (.scalar kk) k, storeElem f.elem a with
     | some k', some x => .put (.map true (mapPut (kbeqOf kk) v.elems k' x))
     | _, _ => .panic)
  | _ => .panic

def mclrF (f : FieldDesc) (v : Val) (k : Val) : FW :=
  match f.shape with
  | .map kk => .put (.map true (mapDel kk v.elems k))
  | _ => .panic

def mmutF (S : Schema) (f : FieldDesc) (v : Val) (k : Val) : FW :=
  match f.shape with
  | .map kk =>
    (match f.elem with
     | .message mi =>
       (match storeElem (.scalar kk) k with
        | some k' =>
          if v.elems.any (fun en => kbeqOf kk en.key k') then .put (.map true v.elems)
          else .put (.map true (v.elems ++ [.entry k' (emptyMsg S mi)]))
        | none => .panic)
     | .scalar _ => .panic)
  | _ => .panic

/-! ## IMPL machine: message level -/

def mopts : MOpts := ⟨true, id⟩

/-- read-only operation on the message `s` of type `i`; `s = .none` is the nil receiver. -/
def read (S : Schema) (i : Nat) (s : Val) (o : ROp) : Out :=
  let fs := (S.msg i).fields
  -- `if x == nil { x = &T{} }` (Has, Get, WhichOneof)
  let x := if s.isNone then emptyMsg S i else s
  match o with
  | .has j => (match fs[j]? with | some f => .bool (hasF f (x.slot j)) | none => .panic)
  | .get j => (match fs[j]? with | some f => getF f (x.slot j) | none => .panic)
  | .which g =>
    if fs.any (fun f => f.group? == some g) then .which (whichFrom g 0 fs x.slots) else .panic
  | .range =>
    -- `if x == nil { return }`; a typed-nil wrapper is skipped (`case *W: if o == nil { break }`, fix 424cbe1)
    if s.isNone then .fields []
    else .fields (idxFilter hasF 0 fs s.slots)
  | .getu => .unk s.unknown                      -- `if x == nil { return nil }`
  | .valid => .bool (!s.isNone)                  -- `return x != nil`
  | .llen j =>
    (match fs[j]? with
     | some f => (match f.shape with | .repeated _ => .nat (x.slot j).elems.length | _ => .panic)
     | none => .panic)
  | .lget j n =>
    (match fs[j]? with
     | some f =>
       (match f.shape with
        | .repeated _ =>
          -- empty list ⇒ invalid view ⇒ `(*x.list)[i]` dereferences nil; otherwise a bounds check
          (match (x.slot j).elems[n]? with
           | some e => outElem f.elem e
           | none => .panic)
        | _ => .panic)
     | none => .panic)
  | .mlen j =>
    (match fs[j]? with
     | some f => (match f.shape with | .map _ => .nat (x.slot j).elems.length | _ => .panic)
     | none => .panic)
  | .mhas j k =>
    (match fs[j]? with
     | some f => (match f.shape with
                  | .map kk => .bool ((x.slot j).elems.any (fun en => kbeqOf kk en.key k))
                  | _ => .panic)
     | none => .panic)
  | .mget j k =>
    (match fs[j]? with
     | some f => (match f.shape with
                  | .map kk => (match findEntry kk (x.slot j).elems k with
                                | some en => outElem f.elem en.value
                                | none => .absent)
                  | _ => .panic)
     | none => .panic)
  | .mrange j =>
    (match fs[j]? with
     | some f => (match f.shape with
                  | .map kk => .keys ((sortEntries kk (x.slot j).elems).map (fun en => normKey en.key))
                  | _ => .panic)
     | none => .panic)
  | .size => .nat (implSize S mopts (s.depth + 1) i s)
  | .enc => .enc (implMarshal S mopts (s.depth + 1) i s)
  | .newf j => (match fs[j]? with | some f => newF f | none => .panic)   -- never touches `x`
  | .getter j =>
    -- no such method for an index out of range; otherwise the `x != nil` test of the getter itself
    (match fs[j]? with
     | some f => if s.isNone then getterZero f else getterF f (s.slot j)
     | none => .panic)

/-- the field-level outcome of a write op on field `f` holding `v` -/
def writeF (S : Schema) (f : FieldDesc) (v : Val) : WOp → FW
  | .set _ a => setF f a
  | .clear _ => clearF f
  | .mut _ => mutF S f v
  | .lset _ n a => lsetF f v n a
  | .lapp _ a => lappF f v a
  | .lappm _ => lappmF S f v
  | .ltrunc _ n => ltruncF f v n
  | .mset _ k a => msetF f v k a
  | .mclr _ k => mclrF f v k
  | .mmut _ k => mmutF S f v k
  | _ => .panic

/-- write on the message `s` of type `i`. A nil receiver panics (nil-pointer dereference in every case
    of Set/Clear/Mutable/SetUnknown and in `*x = T{}`). -/
def write (S : Schema) (i : Nat) (s : Val) (o : WOp) : Val × Out :=
  let fs := (S.msg i).fields
  match s with
  | .msg slots u =>
    (match o with
     | .setu b => (.msg slots b, .ok)
     | .reset => (emptyMsg S i, .ok)
     | o =>
       (match WOp.field? o with
        | some j =>
          (match fs[j]? with
           | some f => applyFW fs f j slots u (writeF S f (slots.getD j .none) o)
           | none => (s, .panic))
        | none => (s, .panic)))
  | _ => (s, .panic)

/-! ## IMPL machine: addressing -/

/-- read path: `Get(fd).Message()`, `Get(fd).List().Get(i).Message()`, `Get(fd).Map().Get(k).Message()` -/
def stepR (S : Schema) : Nat → Val → Op → Out
  | i, s, .r o => read S i s o
  | _, _, .w _ => .panic
  | i, s, .in j op =>
    let x := if s.isNone then emptyMsg S i else s
    (match (S.msg i).fields[j]? with
     | some f =>
       (match f.elem, f.shape with
        | .message mi, .singular => stepR S mi (x.slot j) op
        | .message mi, .oneof _ =>
          (match x.slot j with
           | .one c => stepR S mi c op
           | _ => stepR S mi .none op)
        | _, _ => .panic)
     | none => .panic)
  | i, s, .at j n op =>
    let x := if s.isNone then emptyMsg S i else s
    (match (S.msg i).fields[j]? with
     | some f =>
       (match f.elem, f.shape with
        | .message mi, .repeated _ =>
          (match (x.slot j).elems[n]? with
           | some c => stepR S mi c op
           | none => .panic)
        | _, _ => .panic)
     | none => .panic)
  | i, s, .mv j k op =>
    let x := if s.isNone then emptyMsg S i else s
    (match (S.msg i).fields[j]? with
     | some f =>
       (match f.elem, f.shape with
        | .message mi, .map kk =>
          (match findEntry kk (x.slot j).elems k with
           | some en => stepR S mi en.value op
           | none => .absent)
        | _, _ => .panic)
     | none => .panic)

/-- re-attach the result of a nested write; a panic below leaves everything unchanged -/
def reattach (s : Val) (r : Val × Out) (k : Val → Val) : Val × Out :=
  match r.2 with
  | .panic => (s, .panic)
  | o => (k r.1, o)

/-- write path: `Mutable(fd).Message()`, `Mutable(fd).List().Get(i).Message()`,
    `Mutable(fd).Map().Mutable(k).Message()`; then the op; the target is a pointer, so the result is
    visible in place. -/
def stepW (S : Schema) : Nat → Val → Op → Val × Out
  | i, s, .w o => write S i s o
  | _, s, .r _ => (s, .panic)
  | i, s, .in j op =>
    (match s with
     | .msg slots u =>
       let fs := (S.msg i).fields
       (match fs[j]? with
        | some f =>
          (match f.elem, f.shape with
           | .message mi, .singular =>
             let c := slots.getD j .none
             reattach s (stepW S mi (if c.isNone then emptyMsg S mi else c) op)
               (fun c' => .msg (slots.set j c') u)
           | .message mi, .oneof g =>
             (match slots.getD j .none with
              | .one c => reattach s (stepW S mi c op) (fun c' => .msg (slots.set j (.one c')) u)
              | .oneNil => (s, .panic)
              | _ => reattach s (stepW S mi (emptyMsg S mi) op)
                       (fun c' => .msg ((clearGroup fs g slots).set j (.one c')) u))
           | _, _ => (s, .panic))
        | none => (s, .panic))
     | _ => (s, .panic))
  | i, s, .at j n op =>
    (match s with
     | .msg slots u =>
       (match (S.msg i).fields[j]? with
        | some f =>
          (match f.elem, f.shape with
           | .message mi, .repeated _ =>
             let es := (slots.getD j .none).elems
             (match es[n]? with
              | some c => reattach s (stepW S mi c op) (fun c' => .msg (slots.set j (.list true (es.set n c'))) u)
              | none => (s, .panic))
           | _, _ => (s, .panic))
        | none => (s, .panic))
     | _ => (s, .panic))
  | i, s, .mv j k op =>
    (match s with
     | .msg slots u =>
       (match (S.msg i).fields[j]? with
        | some f =>
          (match f.elem, f.shape with
           | .message mi, .map kk =>
             let es := (slots.getD j .none).elems
             (match storeElem (.scalar kk) k with
              | some k' =>
                let c := valueOr (findEntry kk es k') (emptyMsg S mi)
                reattach s (stepW S mi c op)
                  (fun c' => .msg (slots.set j (.map true (mapPut (kbeqOf kk) es k' c'))) u)
              | none => (s, .panic))
           | _, _ => (s, .panic))
        | none => (s, .panic))
     | _ => (s, .panic))

/-- one step of the IMPL machine on the root message `s` of type `i` -/
def step (S : Schema) (i : Nat) (s : Val) (op : Op) : Val × Out :=
  if op.isWrite then stepW S i s op else (s, stepR S i s op)

/-- a history: outputs in order, and the final state -/
def run (S : Schema) (i : Nat) (s : Val) (ops : List Op) : Val × List Out :=
  ops.foldl (fun acc op => let r := step S i acc.1 op; (r.1, acc.2 ++ [r.2])) (s, [])

end Reflect

/-! ## Abstraction -/

/-- the abstract message a Go struct represents -/
def abs (S : Schema) (fuel i : Nat) (v : Val) : Val := repNorm S fuel i v

/-- abstraction of a `Set` argument: a list/map *value* keeps its validity flag (it is a property of the
    `protoreflect.List`/`Map` handed to `Set`, not of a message), its contents are abstracted. -/
def absArg (child : Nat → Val → Val) (f : FieldDesc) (a : Val) : Val :=
  match f.shape with
  | .singular => repElem child f.elem a
  | .oneof _ => repElem child f.elem a
  | .repeated _ => (match a with | .list nn es => .list nn (es.map (repElem child f.elem)) | x => x)
  | .map kk =>
    (match a with
     | .map nn es => .map nn (sortEntries kk (es.map (fun en =>
         .entry (repElem child (.scalar kk) en.key) (repElem child f.elem en.value))))
     | x => x)

/-- Scalar arguments and keys need no abstraction: the SPEC machine's own `checkElem` drops blob flags. -/
def WOp.abs (child : Nat → Val → Val) (fs : List FieldDesc) : WOp → WOp
  | .set j a => .set j (match fs[j]? with | some f => absArg child f a | none => a)
  | .lset j n a => .lset j n (match fs[j]? with | some f => repElem child f.elem a | none => a)
  | .lapp j a => .lapp j (match fs[j]? with | some f => repElem child f.elem a | none => a)
  | .mset j k a => .mset j k (match fs[j]? with | some f => repElem child f.elem a | none => a)
  | o => o

/-- the same op with abstract value arguments, for a target of type `i` abstracted with `fuel` -/
def Op.abs (S : Schema) : Nat → Nat → Op → Op
  | 0, _, op => op
  | fuel+1, i, op =>
    let fs := (S.msg i).fields
    match op with
    | .r o => .r o
    | .w o => .w (o.abs (repNorm S fuel) fs)
    | .in j op =>
      (match fs[j]? with
       | some f => (match f.elem with | .message mi => .in j (Op.abs S fuel mi op) | _ => .in j op)
       | none => .in j op)
    | .at j n op =>
      (match fs[j]? with
       | some f => (match f.elem with | .message mi => .at j n (Op.abs S fuel mi op) | _ => .at j n op)
       | none => .at j n op)
    | .mv j k op =>
      (match fs[j]? with
       | some f => (match f.elem with | .message mi => .mv j k (Op.abs S fuel mi op) | _ => .mv j k op)
       | none => .mv j k op)

namespace SpecReflect

/-! ## SPEC machine (dynamicpb v1.34.0 over abstract messages)

  An abstract message maps every field to a value: proto3 scalars to their value (zero = unpopulated),
  a message field to `.none` or a message, a repeated field to the list of its elements, a map field to
  its entries sorted by key, a oneof member to `.none` or `.one v`.

  dynamicpb facts that shape the definitions (dynamic.go):
  * `Get` of a list/map returns the stored value only if `Len() > 0`, otherwise `emptyList{}` /
    `&dynamicMap{desc}` with `IsValid() = false` — *also* when an empty list was stored by `Mutable`/`Set`.
    So "allocated but empty" is unobservable and needs no state: `L0:0` / `P0:0` on both sides.
  * `Get` of an unpopulated message field returns the zero `&Message{typ}`: `IsValid() = false`; every
    read on it returns defaults; `Set`/`Mutable`/`SetUnknown` on it panic ("read-only message"); `Clear`
    is `delete` on a nil map (no panic); `Reset` allocates the maps (the message becomes valid).
  * `Set` type-checks: an invalid list/map value panics.
  * `Clear` deletes only the given field number: a non-active oneof member is a no-op.
  * `Mutable` returns the stored value if present, otherwise clears the other oneof members and stores
    `NewField`; it panics for non-composite fields. -/

/-- `Has`: `isSet` -/
def hasF (f : FieldDesc) (v : Val) : Bool :=
  match f.shape with
  | .singular => (match f.elem with | .scalar k => specPresent k v | .message _ => !v.isNone)
  | .oneof _ => (match v with | .one _ => true | _ => false)
  | .repeated _ => 0 < v.elems.length
  | .map _ => 0 < v.elems.length

/-- `Get`: the value if populated, otherwise the default / an empty read-only value -/
def getF (f : FieldDesc) (v : Val) : Out :=
  match f.shape with
  | .singular => outElem f.elem v
  | .oneof _ => (match v with
                 | .one x => outElem f.elem x
                 | _ => outElem f.elem (Elem.zeroVar f.elem))
  | .repeated _ => if 0 < v.elems.length then .listv true v.elems.length else .listv false 0
  | .map _ => if 0 < v.elems.length then .mapv true v.elems.length else .mapv false 0

/-- `typecheckSingular`: the argument has the Go type of the element; `none` = panic.
    (Arguments are abstract: blobs carry no flag.) -/
def checkElem (e : Elem) (a : Val) : Option Val :=
  match e with
  | .scalar k =>
    (match a with
     | .bits n => if k.isBlob then none else some (.bits n)
     | .blob _ b => if k.isBlob then some (.blob false b) else none
     | _ => none)
  | .message _ =>
    (match a with
     | .msg s u => some (.msg s u)
     | _ => none)

def setF (f : FieldDesc) (a : Val) : FW :=
  match f.shape with
  | .singular => (match checkElem f.elem a with | some x => .put x | none => .panic)
  | .oneof _ => (match checkElem f.elem a with | some x => .putOne x | none => .panic)
  | .repeated _ => (match a with | .list true es => .put (.list false es) | _ => .panic)
  | .map _ => (match a with | .map true es => .put (.map false es) | _ => .panic)

/-- `Clear`: the field becomes unpopulated -/
def clearF (f : FieldDesc) : FW := .put f.zero

def mutF (S : Schema) (f : FieldDesc) (v : Val) : FW :=
  match f.shape with
  | .singular =>
    (match f.elem with
     | .message mi => .put (if v.isNone then emptyMsg S mi else v)
     | .scalar _ => .panic)
  | .repeated _ => .put (.list false v.elems)
  | .map _ => .put (.map false v.elems)
  | .oneof _ =>
    (match f.elem with
     | .message mi =>
       (match v with
        | .one x => .put (.one x)
        | _ => .putOne (emptyMsg S mi))
     | .scalar _ => .panic)

def lsetF (f : FieldDesc) (v : Val) (i : Nat) (a : Val) : FW :=
  match f.shape with
  | .repeated _ =>
    (match checkElem f.elem a with
     | some x => if i < v.elems.length then .put (.list false (v.elems.set i x)) else .panic
     | none => .panic)
  | _ => .panic

def lappF (f : FieldDesc) (v : Val) (a : Val) : FW :=
  match f.shape with
  | .repeated _ =>
    (match checkElem f.elem a with
     | some x => .put (.list false (v.elems ++ [x]))
     | none => .panic)
  | _ => .panic

def lappmF (S : Schema) (f : FieldDesc) (v : Val) : FW :=
  match f.shape with
  | .repeated _ =>
    (match f.elem with
     | .message mi => .put (.list false (v.elems ++ [emptyMsg S mi]))
     | .scalar _ => .panic)
  | _ => .panic

def ltruncF (f : FieldDesc) (v : Val) (n : Nat) : FW :=
  match f.shape with
  | .repeated _ => if n ≤ v.elems.length then .put (.list false (v.elems.take n)) else .panic
  | _ => .panic

/-- a map is a finite function from keys to values, kept as its entries sorted by key -/
def msetF (f : FieldDesc) (v : Val) (k a : Val) : FW :=
  match f.shape with
  | .map kk =>
    (match checkElem (.scalar kk) k, checkElem f.elem a with
     | some k', some x => .put (.map false (sortEntries kk (mapPut (kbeqOf kk) v.elems k' x)))
     | _, _ => .panic)
  | _ => .panic

def mclrF (f : FieldDesc) (v : Val) (k : Val) : FW :=
  match f.shape with
  | .map kk => .put (.map false (mapDel kk v.elems k))
  | _ => .panic

def mmutF (S : Schema) (f : FieldDesc) (v : Val) (k : Val) : FW :=
  match f.shape with
  | .map kk =>
    (match f.elem with
     | .message mi =>
       (match checkElem (.scalar kk) k with
        | some k' =>
          if v.elems.any (fun en => kbeqOf kk en.key k') then .put (.map false v.elems)
          else .put (.map false (sortEntries kk (v.elems ++ [.entry k' (emptyMsg S mi)])))
        | none => .panic)
     | .scalar _ => .panic)
  | _ => .panic

/-- `proto.Marshal` / `proto.Size` of the reference implementation: the reference encoder; proto3 strings
    must be valid UTF-8 (`marshalSingular`: `errors.InvalidUTF8`). -/
def encOf (S : Schema) (i : Nat) (s : Val) : Res Bytes :=
  if utf8OK S (s.depth + 1) i s then .ok (specEncode S (s.depth + 1) i s) else .err .utf8

/-- read-only operation; `s = .none` is the invalid (empty, read-only) message -/
def read (S : Schema) (i : Nat) (s : Val) (o : ROp) : Out :=
  let fs := (S.msg i).fields
  let x := if s.isNone then emptyMsg S i else s       -- every field unpopulated
  match o with
  | .has j => (match fs[j]? with | some f => .bool (hasF f (x.slot j)) | none => .panic)
  | .get j => (match fs[j]? with | some f => getF f (x.slot j) | none => .panic)
  | .which g =>
    if fs.any (fun f => f.group? == some g) then .which (whichFrom g 0 fs x.slots) else .panic
  | .range => .fields (idxFilter hasF 0 fs x.slots)
  | .getu => .unk x.unknown
  | .valid => .bool (!s.isNone)
  | .llen j =>
    (match fs[j]? with
     | some f => (match f.shape with | .repeated _ => .nat (x.slot j).elems.length | _ => .panic)
     | none => .panic)
  | .lget j n =>
    (match fs[j]? with
     | some f =>
       (match f.shape with
        | .repeated _ =>
          (match (x.slot j).elems[n]? with
           | some e => outElem f.elem e
           | none => .panic)
        | _ => .panic)
     | none => .panic)
  | .mlen j =>
    (match fs[j]? with
     | some f => (match f.shape with | .map _ => .nat (x.slot j).elems.length | _ => .panic)
     | none => .panic)
  | .mhas j k =>
    (match fs[j]? with
     | some f => (match f.shape with
                  | .map kk => .bool ((x.slot j).elems.any (fun en => kbeqOf kk en.key k))
                  | _ => .panic)
     | none => .panic)
  | .mget j k =>
    (match fs[j]? with
     | some f => (match f.shape with
                  | .map kk => (match findEntry kk (x.slot j).elems k with
                                | some en => outElem f.elem en.value
                                | none => .absent)
                  | _ => .panic)
     | none => .panic)
  | .mrange j =>
    (match fs[j]? with
     | some f => (match f.shape with
                  | .map _ => .keys ((x.slot j).elems.map (fun en => en.key))
                  | _ => .panic)
     | none => .panic)
  | .size => .nat (specEncode S (s.depth + 1) i s).length
  | .enc => .enc (encOf S i s)
  | .newf j => (match fs[j]? with | some f => newF f | none => .panic)
  -- the reference has no generated accessors: the SPEC value of `getter j` is what `Get` returns, rendered
  -- in the getter's tokens
  | .getter j => (match fs[j]? with | some f => (getF f (x.slot j)).asGetter | none => .panic)

def writeF (S : Schema) (f : FieldDesc) (v : Val) : WOp → FW
  | .set _ a => setF f a
  | .clear _ => clearF f
  | .mut _ => mutF S f v
  | .lset _ n a => lsetF f v n a
  | .lapp _ a => lappF f v a
  | .lappm _ => lappmF S f v
  | .ltrunc _ n => ltruncF f v n
  | .mset _ k a => msetF f v k a
  | .mclr _ k => mclrF f v k
  | .mmut _ k => mmutF S f v k
  | _ => .panic

/-- write on the abstract message `s`. On the invalid message: `Clear` is a no-op (`delete` on a nil
    map), `Reset` makes it a valid empty message, everything else panics. -/
def write (S : Schema) (i : Nat) (s : Val) (o : WOp) : Val × Out :=
  let fs := (S.msg i).fields
  match o with
  | .reset => (emptyMsg S i, .ok)
  | o =>
    match s with
    | .msg slots u =>
      (match o with
       | .setu b => (.msg slots b, .ok)
       | o =>
         (match WOp.field? o with
          | some j =>
            (match fs[j]? with
             | some f => applyFW fs f j slots u (writeF S f (slots.getD j .none) o)
             | none => (s, .panic))
          | none => (s, .panic)))
    | _ =>
      (match o with
       | .clear j => (s, match fs[j]? with | some _ => .ok | none => .panic)
       | _ => (s, .panic))

def stepR (S : Schema) : Nat → Val → Op → Out
  | i, s, .r o => read S i s o
  | _, _, .w _ => .panic
  | i, s, .in j op =>
    let x := if s.isNone then emptyMsg S i else s
    (match (S.msg i).fields[j]? with
     | some f =>
       (match f.elem, f.shape with
        | .message mi, .singular => stepR S mi (x.slot j) op
        | .message mi, .oneof _ =>
          (match x.slot j with
           | .one c => stepR S mi c op
           | _ => stepR S mi .none op)
        | _, _ => .panic)
     | none => .panic)
  | i, s, .at j n op =>
    let x := if s.isNone then emptyMsg S i else s
    (match (S.msg i).fields[j]? with
     | some f =>
       (match f.elem, f.shape with
        | .message mi, .repeated _ =>
          (match (x.slot j).elems[n]? with
           | some c => stepR S mi c op
           | none => .panic)
        | _, _ => .panic)
     | none => .panic)
  | i, s, .mv j k op =>
    let x := if s.isNone then emptyMsg S i else s
    (match (S.msg i).fields[j]? with
     | some f =>
       (match f.elem, f.shape with
        | .message mi, .map kk =>
          (match findEntry kk (x.slot j).elems k with
           | some en => stepR S mi en.value op
           | none => .absent)
        | _, _ => .panic)
     | none => .panic)

def stepW (S : Schema) : Nat → Val → Op → Val × Out
  | i, s, .w o => write S i s o
  | _, s, .r _ => (s, .panic)
  | i, s, .in j op =>
    (match s with
     | .msg slots u =>
       let fs := (S.msg i).fields
       (match fs[j]? with
        | some f =>
          (match f.elem, f.shape with
           | .message mi, .singular =>
             let c := slots.getD j .none
             Reflect.reattach s (stepW S mi (if c.isNone then emptyMsg S mi else c) op)
               (fun c' => .msg (slots.set j c') u)
           | .message mi, .oneof g =>
             (match slots.getD j .none with
              | .one c => Reflect.reattach s (stepW S mi c op) (fun c' => .msg (slots.set j (.one c')) u)
              | _ => Reflect.reattach s (stepW S mi (emptyMsg S mi) op)
                       (fun c' => .msg ((clearGroup fs g slots).set j (.one c')) u))
           | _, _ => (s, .panic))
        | none => (s, .panic))
     | _ => (s, .panic))
  | i, s, .at j n op =>
    (match s with
     | .msg slots u =>
       (match (S.msg i).fields[j]? with
        | some f =>
          (match f.elem, f.shape with
           | .message mi, .repeated _ =>
             let es := (slots.getD j .none).elems
             (match es[n]? with
              | some c => Reflect.reattach s (stepW S mi c op)
                            (fun c' => .msg (slots.set j (.list false (es.set n c'))) u)
              | none => (s, .panic))
           | _, _ => (s, .panic))
        | none => (s, .panic))
     | _ => (s, .panic))
  | i, s, .mv j k op =>
    (match s with
     | .msg slots u =>
       (match (S.msg i).fields[j]? with
        | some f =>
          (match f.elem, f.shape with
           | .message mi, .map kk =>
             let es := (slots.getD j .none).elems
             (match checkElem (.scalar kk) k with
              | some k' =>
                let c := valueOr (findEntry kk es k') (emptyMsg S mi)
                Reflect.reattach s (stepW S mi c op)
                  (fun c' => .msg (slots.set j (.map false (sortEntries kk (mapPut (kbeqOf kk) es k' c')))) u)
              | none => (s, .panic))
           | _, _ => (s, .panic))
        | none => (s, .panic))
     | _ => (s, .panic))

/-- one step of the SPEC machine on the abstract root message `s` of type `i` -/
def step (S : Schema) (i : Nat) (s : Val) (op : Op) : Val × Out :=
  if op.isWrite then stepW S i s op else (s, stepR S i s op)

def run (S : Schema) (i : Nat) (s : Val) (ops : List Op) : Val × List Out :=
  ops.foldl (fun acc op => let r := step S i acc.1 op; (r.1, acc.2 ++ [r.2])) (s, [])

end SpecReflect

/-! ## Well-formed operations (the domain of the refinement theorem)

  Only *value arguments* are constrained: an op with a field index out of range or addressed to a field of
  the wrong shape panics in both machines. `child` types the messages one level below the target. -/

/-- argument of `Set`: a non-nil element for singular/oneof fields, a well-typed list/map value otherwise -/
def setArgOK (child : Nat → Val → Bool) (f : FieldDesc) (a : Val) : Bool :=
  match f.shape with
  | .singular => elemOK child f.elem false a
  | .oneof _ => elemOK child f.elem false a
  | _ => slotOK child false f a

def keyArgOK (f : FieldDesc) (k : Val) : Bool :=
  match f.shape with | .map kk => scalarOK kk k | _ => true

def WOp.ok (child : Nat → Val → Bool) (fs : List FieldDesc) : WOp → Bool
  | .set j a => (match fs[j]? with | some f => setArgOK child f a | none => true)
  | .lset j _ a => (match fs[j]? with | some f => elemOK child f.elem false a | none => true)
  | .lapp j a => (match fs[j]? with | some f => elemOK child f.elem false a | none => true)
  | .mset j k a => (match fs[j]? with | some f => keyArgOK f k && elemOK child f.elem false a | none => true)
  | .mmut j k => (match fs[j]? with | some f => keyArgOK f k | none => true)
  | _ => true

/-- `op` is well-formed for a target of type `i` whose state is typed with `fuel` (`msgOK S false fuel`):
    value arguments are well-typed, junk-free, non-nil and fit the fuel; a write has one spare level for
    the message `Mutable` may allocate. -/
def Op.ok (S : Schema) : Nat → Nat → Op → Bool
  | 0, _, _ => false
  | fuel+1, i, op =>
    let fs := (S.msg i).fields
    match op with
    | .r _ => true
    | .w o => decide (1 ≤ fuel) && o.ok (msgOK S false fuel) fs
    | .in j op =>
      (match fs[j]? with
       | some f => (match f.elem with | .message mi => Op.ok S fuel mi op | _ => true)
       | none => true)
    | .at j _ op =>
      (match fs[j]? with
       | some f => (match f.elem with | .message mi => Op.ok S fuel mi op | _ => true)
       | none => true)
    | .mv j k op =>
      (match fs[j]? with
       | some f => (match f.elem with
                    | .message mi => (!op.isWrite || keyArgOK f k) && Op.ok S fuel mi op
                    | _ => true)
       | none => true)

/-! ## Output equivalence

  `OutEq a b` : the outputs the refinement theorem identifies. After reading dynamicpb's `Get` (see the
  SPEC section) **no identification is needed**: for an allocated-but-empty list/map both the generated
  code (`len(x.F) == 0` ⇒ view with nil pointer) and dynamicpb (`Len() > 0` test ⇒ `emptyList`) report an
  invalid value (`L0:0` / `P0:0`), an unpopulated message is `M0` on both sides, and `Mutable` makes a
  message field populated (`M1`, `Has = true`) on both sides. `OutEq` is therefore equality; it is kept as
  a named relation so that a future divergence has one place to be recorded. -/
def OutEq (a b : Out) : Prop := a = b

/-- `OutEq` pointwise on output lists of equal length -/
def OutsEq : List Out → List Out → Prop
  | [], [] => True
  | a :: as, b :: bs => OutEq a b ∧ OutsEq as bs
  | _, _ => False

/-- ops whose output is produced by the codec (`proto.Size` / `proto.Marshal`): their agreement is the
    subject of C02/C04, not of the reflection refinement. -/
def Op.usesCodec : Op → Bool
  | .r .size => true
  | .r .enc => true
  | .r _ => false
  | .w _ => false
  | .in _ o => o.usesCodec
  | .at _ _ o => o.usesCodec
  | .mv _ _ o => o.usesCodec

end Pulsar
