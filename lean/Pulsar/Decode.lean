/-
  Pulsar.Decode — the generated `unmarshal` closure (`implUnmarshalLvl`) as the template emits it, and
  protobuf-go's reflection-driven decoder (`specDecodeLvl`, `unmarshalMessageSlow`).

  The closure is modelled on the remaining input `rest = dAtA[iNdEx:]`; every Go slice expression is a
  `sliceTo` that panics when out of range, so "never panics" is a theorem about the guards, not an
  assumption. Which Go `error` is returned is not part of the observable outcome (Appendix B), so
  wrap-around of `iNdEx + len` (which only selects between two errors) is not tracked.
-/
import Pulsar.Encode
namespace Pulsar

structure UOpts where
  merge : Bool := false
  discard : Bool := false

/-- Go `dAtA[iNdEx:iNdEx+n]` on `rest = dAtA[iNdEx:]`: panics when `n` exceeds what is there. -/
def sliceTo (rest : Bytes) (n : Nat) : Res Bytes :=
  if n ≤ rest.length then .ok (rest.take n) else .panic

/-- `decodeVarint(v, "uint64")` of the closure: the same loop as in `runtime.Skip`. -/
def readVarint (bs : Bytes) : Res (Nat × Bytes) :=
  match skipReadVarint 0 0 bs with
  | .ok (v, _, r) => .ok (v, r)
  | .err e => .err e
  | .panic => .panic

/-- length prefix decoded into a Go `int`, with the `< 0` and `postIndex > l` guards. Returns the
    payload and the input after it. -/
def readLenDelim (rest : Bytes) : Res (Bytes × Bytes) :=
  match readVarint rest with
  | .ok (n, r) =>
    if n ≥ 9223372036854775808 then .err .invalidLength
    else if n > r.length then .err .eof
    else (match sliceTo r n with
          | .ok p => .ok (p, r.drop n)
          | .err e => .err e
          | .panic => .panic)
  | .err e => .err e
  | .panic => .panic

def readFixed (w : Nat) (rest : Bytes) : Res (Nat × Bytes) :=
  if w > rest.length then .err .eof
  else match sliceTo rest w with
       | .ok p => .ok (ofLE p, rest.drop w)
       | .err e => .err e
       | .panic => .panic

/-- `fieldItem` for one scalar: the typed accumulation truncates to the width of the Go type. -/
def implReadScalar (k : Kind) (rest : Bytes) : Res (Val × Bytes) :=
  match k with
  | .double | .fixed64 | .sfixed64 =>
    (match readFixed 8 rest with | .ok (n, r) => .ok (.bits n, r) | .err e => .err e | .panic => .panic)
  | .float | .fixed32 | .sfixed32 =>
    (match readFixed 4 rest with | .ok (n, r) => .ok (.bits n, r) | .err e => .err e | .panic => .panic)
  | .string =>
    (match readLenDelim rest with | .ok (p, r) => .ok (.blob false p, r) | .err e => .err e | .panic => .panic)
  | .bytes =>
    (match readLenDelim rest with | .ok (p, r) => .ok (.blob true p, r) | .err e => .err e | .panic => .panic)
  | k =>
    match readVarint rest with
    | .ok (v, r) =>
      let n := match k with
        | .int64 | .uint64 => v
        | .bool => if v != 0 then 1 else 0
        | .sint32 => unzigzag32 (v % 4294967296)
        | .sint64 => unzigzag64 v
        | _ => v % 4294967296       -- int32, uint32, enum
      .ok (.bits n, r)
    | .err e => .err e
    | .panic => .panic

/-- `for iNdEx < postIndex { fieldItem }` of a packed run: element bounds are checked against the whole
    input, not the run (a ragged run reads past its end). `rem = postIndex - iNdEx`. -/
def implPackedLoop (k : Kind) : (fuel : Nat) → (rest : Bytes) → (rem : Nat) → (acc : List Val) → Res (List Val × Bytes)
  | 0, rest, _, acc => .ok (acc, rest)
  | fuel+1, rest, rem, acc =>
    if rem = 0 then .ok (acc, rest)
    else match implReadScalar k rest with
      | .ok (v, r) => implPackedLoop k fuel r (rem - (rest.length - r.length)) (acc ++ [v])
      | .err e => .err e
      | .panic => .panic

/-- put `(k ↦ v)` into a map's entry list (Go map assignment). -/
def mapPut (kbeq : Val → Val → Bool) (es : List Val) (k v : Val) : List Val :=
  if es.any (fun e => kbeq e.key k) then es.map (fun e => if kbeq e.key k then .entry k v else e)
  else es ++ [.entry k v]

/-- `unmarshalMapField`: scalars assign (varint accumulators are reset first); a message value is
    allocated on first occurrence and merged into on later ones. -/
def implReadMapField (childDec : Nat → Val → Bytes → Res Val) (S : Schema) (e : Elem) (old : Val) (rest : Bytes) :
    Res (Val × Bytes) :=
  match e with
  | .message i =>
    (match readLenDelim rest with
     | .ok (p, r) =>
       let into := if old.isNone then emptyMsg S i else old
       (match childDec i into p with
        | .ok v => .ok (v, r) | .err e => .err e | .panic => .panic)
     | .err e => .err e | .panic => .panic)
  | .scalar k => implReadScalar k rest

/-- zero value of `var mapkey K` / `var mapvalue V`. -/
def Elem.zeroVar : Elem → Val
  | .scalar k => if k.isBlob then .blob false [] else .bits 0
  | .message _ => .none

/-- the loop over one map entry's payload; `rem = postIndex - iNdEx`. Since fix d595428 it is called on
    the payload only (`rest` = the entry's bytes), so `rem = rest.length` throughout. -/
def implEntryLoop (childDec : Nat → Val → Bytes → Res Val) (S : Schema) (kk : Kind) (e : Elem) :
    (fuel : Nat) → (rest : Bytes) → (rem : Nat) → (k v : Val) → Res (Val × Val)
  | 0, _, _, k, v => .ok (k, v)
  | fuel+1, rest, rem, k, v =>
    if rem = 0 then .ok (k, v)
    else match readVarint rest with
      | .err e => .err e
      | .panic => .panic
      | .ok (wire, r) =>
        let fieldNum := (wire / 8) % 4294967296
        if fieldNum = 1 then
          match implReadMapField childDec S (.scalar kk) k r with
          | .ok (k', r') => implEntryLoop childDec S kk e fuel r' (rem - (rest.length - r'.length)) k' v
          | .err e => .err e | .panic => .panic
        else if fieldNum = 2 then
          match implReadMapField childDec S e v r with
          | .ok (v', r') => implEntryLoop childDec S kk e fuel r' (rem - (rest.length - r'.length)) k v'
          | .err e => .err e | .panic => .panic
        else
          match skip rest with
          | .ok n =>
            if n > rem then .err .eof
            else implEntryLoop childDec S kk e fuel (rest.drop n) (rem - n) k v
          | .err e => .err e | .panic => .panic

def kbeqOf (kk : Kind) (a b : Val) : Bool :=
  if kk.isBlob then a.getBlob == b.getBlob else a.getBits == b.getBits

/-- clear every member of oneof group `g` (the Go interface field is overwritten). -/
def clearGroup (fs : List FieldDesc) (g : Nat) (slots : List Val) : List Val :=
  (fs.zip slots).map (fun p => if p.1.group? == some g then Val.none else p.2)

/-- handle one record of known field `j` (descriptor `f`) with wire type `wt`; `rest` follows the tag. -/
def implKnownField (S : Schema) (fs : List FieldDesc) (childDec : Nat → Val → Bytes → Res Val)
    (j : Nat) (f : FieldDesc) (wt : Nat) (m : Val) (rest : Bytes) : Res (Val × Bytes) :=
  let cur := m.slot j
  match f.shape, f.elem with
  | .repeated _, .scalar k =>
    if Extracted.wireType k != 2 then
      if wt = Extracted.wireType k then
        match implReadScalar k rest with
        | .ok (v, r) => .ok (m.setSlot j (.list true (cur.elems ++ [v])), r)
        | .err e => .err e | .panic => .panic
      else if wt = 2 then
        match readVarint rest with
        | .ok (n, r) =>
          if n ≥ 9223372036854775808 then .err .invalidLength
          else if n > r.length then .err .eof
          else
            match implPackedLoop k n r n [] with
            | .ok (vs, r') =>
              -- nil stays nil when nothing was appended and no pre-allocation happened
              let nonNil := match cur with | .list nn _ => nn || !vs.isEmpty | _ => !vs.isEmpty
              .ok (m.setSlot j (.list nonNil (cur.elems ++ vs)), r')
            | .err e => .err e | .panic => .panic
        | .err e => .err e | .panic => .panic
      else .err .wrongWireType
    else
      if wt != 2 then .err .wrongWireType
      else match implReadScalar k rest with
        | .ok (v, r) => .ok (m.setSlot j (.list true (cur.elems ++ [v])), r)
        | .err e => .err e | .panic => .panic
  | .repeated _, .message i =>
    if wt != 2 then .err .wrongWireType
    else match readLenDelim rest with
      | .ok (p, r) =>
        (match childDec i (emptyMsg S i) p with
         | .ok v => .ok (m.setSlot j (.list true (cur.elems ++ [v])), r)
         | .err e => .err e | .panic => .panic)
      | .err e => .err e | .panic => .panic
  | .singular, .scalar k =>
    if wt != Extracted.wireType k then .err .wrongWireType
    else match implReadScalar k rest with
      | .ok (v, r) => .ok (m.setSlot j v, r)
      | .err e => .err e | .panic => .panic
  | .singular, .message i =>
    if wt != 2 then .err .wrongWireType
    else match readLenDelim rest with
      | .ok (p, r) =>
        -- `if x.F == nil { x.F = &T{} }`, then `options.Unmarshal` (Merge: true) into it
        let into := if cur.isNone then emptyMsg S i else cur
        (match childDec i into p with
         | .ok v => .ok (m.setSlot j v, r)
         | .err e => .err e | .panic => .panic)
      | .err e => .err e | .panic => .panic
  | .oneof g, .scalar k =>
    if wt != Extracted.wireType k then .err .wrongWireType
    else match implReadScalar k rest with
      | .ok (v, r) => .ok ((Val.msg (clearGroup fs g m.slots) m.unknown).setSlot j (.one v), r)
      | .err e => .err e | .panic => .panic
  | .oneof g, .message i =>
    if wt != 2 then .err .wrongWireType
    else match readLenDelim rest with
      | .ok (p, r) =>
        -- the active member's message is merged into; otherwise a fresh `&T{}`
        let into := match cur with | .one x => (if x.isNone then emptyMsg S i else x) | _ => emptyMsg S i
        (match childDec i into p with
         | .ok v => .ok ((Val.msg (clearGroup fs g m.slots) m.unknown).setSlot j (.one v), r)
         | .err e => .err e | .panic => .panic)
      | .err e => .err e | .panic => .panic
  | .map kk, e =>
    if wt != 2 then .err .wrongWireType
    else match readVarint rest with
      | .ok (n, r) =>
        if n ≥ 9223372036854775808 then .err .invalidLength
        else if n > r.length then .err .eof
        else
          -- the entry's records are decoded within the entry (`l := postIndex`, fix d595428): the loop
          -- sees exactly the entry's payload, a key or value cannot take bytes from what follows
          match implEntryLoop childDec S kk e n (r.take n) n (Elem.zeroVar (.scalar kk)) e.zeroVar with
          | .ok (k, v) =>
            -- `if mapvalue == nil { mapvalue = &T{} }` for message values
            let v := match e with | .message mi => (if v.isNone then emptyMsg S mi else v) | .scalar _ => v
            .ok (m.setSlot j (.map true (mapPut (kbeqOf kk) cur.elems k v)), r.drop n)
          | .err e => .err e | .panic => .panic
      | .err e => .err e | .panic => .panic

def findField (fs : List FieldDesc) (num : Nat) : Option (Nat × FieldDesc) :=
  (fs.zipIdx.find? (fun p => p.1.num == num)).map (fun p => (p.2, p.1))

/-- One nesting level of the generated `unmarshal` closure: the record loop. -/
def implUnmarshalLoop (S : Schema) (i : Nat) (o : UOpts) (childDec : Nat → Val → Bytes → Res Val) :
    (fuel : Nat) → (m : Val) → (rest : Bytes) → Res Val
  | 0, m, _ => .ok m
  | fuel+1, m, rest =>
    if rest = [] then .ok m
    else match readVarint rest with
      | .err e => .err e
      | .panic => .panic
      | .ok (wire, r) =>
        let fieldNum := (wire / 8) % 4294967296        -- int32(wire >> 3), as a 32-bit pattern
        let wt := wire % 8
        if wt = 4 then .err .endGroup
        else if fieldNum = 0 ∨ fieldNum ≥ 2147483648 then .err .illegalTag   -- `fieldNum <= 0`
        else
          match findField (S.msg i).fields fieldNum with
          | some (j, f) =>
            (match implKnownField S (S.msg i).fields childDec j f wt m r with
             | .ok (m', r') =>
               -- every known-field branch consumes at least the tag byte
               if r'.length < rest.length then implUnmarshalLoop S i o childDec fuel m' r' else .ok m'
             | .err e => .err e | .panic => .panic)
          | none =>
            match skip rest with
            | .ok n =>
              if n > rest.length then .err .eof
              else match sliceTo rest n with
                | .ok raw =>
                  let m' := if o.discard then m else Val.msg m.slots (m.unknown ++ raw)
                  if n = 0 then .ok m' else implUnmarshalLoop S i o childDec fuel m' (rest.drop n)
                | .err e => .err e | .panic => .panic
            | .err e => .err e | .panic => .panic

/-- `runtime.nestedRecursionLimit`: budget left for nested messages; an exhausted budget is negative
    (proto.UnmarshalOptions reads 0 as "default"). -/
def nestedLimit (depth : Int) : Int :=
  let d := if depth = 0 then 10000 else depth
  if d ≤ 1 then -1 else d - 1

/-- The closure for message type `i` decoding into `into` with recursion budget `depth`
    (`UnmarshalInput.Depth`). Tree recursion by fuel on input length: every nested payload is strictly
    shorter than its parent. A nil receiver returns immediately; an exhausted budget is an error. -/
def implUnmarshalClosure (S : Schema) (o : UOpts) : Nat → Int → Nat → Val → Bytes → Res Val
  | 0, _, _, into, _ => .ok into
  | fuel+1, depth, i, into, bs =>
    if into.isNone then .ok into
    else if depth < 0 then .err .depth
    else implUnmarshalLoop S i o (implUnmarshalClosure S o fuel (nestedLimit depth)) bs.length into bs

end Pulsar
