/-
  Pulsar.Entry — the entry points the properties are stated at: `proto.Marshal`, `proto.Size`,
  `proto.Unmarshal` on a generated message = protobuf-go's wrapper (v1.34.0 `proto/encode.go`,
  `proto/decode.go`, `proto/checkinit.go`) around the generated closures; and the reference decoder.
-/
import Pulsar.Decode
namespace Pulsar

/-! ## `checkInitialized` walk (reflection `Range` over message-typed fields, recursively)

  Since the nil-receiver fix (known-findings: C09, c454db6) `Range` on a nil message visits nothing, so
  a nil element no longer makes the walk panic, and since fix 424cbe1 a typed-nil oneof wrapper is
  skipped as well: the walk can no longer panic (theorem `walkPanics_false`-style lemmas in Proofs). -/

def nilRangePanics (_S : Schema) (_i : Nat) : Bool := false

mutual
/-- does `checkInitialized(v)` (v a message value of type `i`) panic? -/
def walkPanics (S : Schema) : Nat → Nat → Val → Bool
  | 0, _, _ => false
  | fuel+1, i, v =>
    if v.isNone then nilRangePanics S i
    else walkFields S fuel ((S.msg i).fields.zip v.slots)
def walkFields (S : Schema) : Nat → List (FieldDesc × Val) → Bool
  | _, [] => false
  | fuel, (f, v) :: rest =>
    (match f.shape, f.elem, v with
     | _, _, .oneNil => false                                    -- `case *W: if o == nil { break }` (fix 424cbe1)
     | .singular, .message i, v => !v.isNone && walkPanics S fuel i v
     | .oneof _, .message i, .one x => walkPanics S fuel i x
     | .repeated _, .message i, v => v.elems.any (fun x => walkPanics S fuel i x)
     | .map _, .message i, v => v.elems.any (fun en => walkPanics S fuel i en.value)
     | _, _, _ => false) || walkFields S fuel rest
end

/-! ## `proto.Size`, `proto.Marshal` -/

/-- `proto.MarshalOptions{Deterministic: det}.Marshal(v)` for a generated message: Size, closure,
    then the `checkInitialized` walk (top level only; nested calls set AllowPartial). -/
def implMarshal (S : Schema) (o : MOpts) (fuel : Nat) (i : Nat) (v : Val) : Res Bytes :=
  match implMarshalClosure S o fuel i v with
  | .ok bs => if walkPanics S fuel i v then .panic else .ok bs
  | .err e => .err e
  | .panic => .panic

/-- `MarshalAppend(prefix, v)`: the closure appends `dAtA` to the given buffer. -/
def implMarshalAppend (S : Schema) (o : MOpts) (fuel : Nat) (i : Nat) (pre : Bytes) (v : Val) : Res Bytes :=
  match implMarshal S o fuel i v with
  | .ok bs => .ok (pre ++ bs)
  | .err e => .err e
  | .panic => .panic

/-! ## `proto.Unmarshal` -/

/-- `proto.UnmarshalOptions{Merge, DiscardUnknown}.Unmarshal(bs, m0)`: Reset unless Merge, closure,
    then `checkInitialized` — skipped when DiscardUnknown is set, because the closure echoes
    `input.Flags` as output flags and input bit 0 (DiscardUnknown) is output bit 0 (Initialized). -/
def implUnmarshal (S : Schema) (o : UOpts) (i : Nat) (m0 : Val) (bs : Bytes) : Res Val :=
  -- without Merge the generated `Reset()` (`*x = T{}`) dereferences the target: nil ⇒ panic
  if !o.merge && m0.isNone then .panic else
  let start := if o.merge then m0 else emptyMsg S i
  match implUnmarshalClosure S o (bs.length + 1) 10000 i start bs with
  | .ok v => if !o.discard && walkPanics S (bs.length + 2) i v then .panic else .ok v
  | .err e => .err e
  | .panic => .panic

/-! ## Reference decoder (`unmarshalMessageSlow`) -/

/-- reference scalar read (`unmarshalScalar`): strict varints, UTF-8 enforced for proto3 strings. -/
def specReadScalar (k : Kind) (rest : Bytes) : Res (Val × Bytes) :=
  match k with
  | .double | .fixed64 | .sfixed64 =>
    if rest.length < 8 then .err .eof else .ok (.bits (ofLE (rest.take 8)), rest.drop 8)
  | .float | .fixed32 | .sfixed32 =>
    if rest.length < 4 then .err .eof else .ok (.bits (ofLE (rest.take 4)), rest.drop 4)
  | .string | .bytes =>
    (match consumeVarint rest with
     | .ok (n, r) =>
       if n > r.length then .err .eof
       else if k == .string && !utf8Valid (r.take n) then .err .utf8
       else .ok (.blob (k == .bytes) (r.take n), r.drop n)
     | .err e => .err e | .panic => .panic)
  | k =>
    match consumeVarint rest with
    | .ok (v, r) =>
      let n := match k with
        | .int64 | .uint64 => v
        | .bool => if v != 0 then 1 else 0
        | .sint32 => unzigzag32 (v % 4294967296)
        | .sint64 => unzigzag64 v
        | _ => v % 4294967296
      .ok (.bits n, r)
    | .err e => .err e | .panic => .panic

/-- packed payload: elements until the payload is exhausted (`unmarshalList`). -/
def specPackedLoop (k : Kind) : (fuel : Nat) → (payload : Bytes) → (acc : List Val) → Res (List Val)
  | 0, _, acc => .ok acc
  | fuel+1, payload, acc =>
    if payload = [] then .ok acc
    else match specReadScalar k payload with
      | .ok (v, r) => specPackedLoop k fuel r (acc ++ [v])
      | .err e => .err e | .panic => .panic

/-- `unmarshalMap`'s loop over the entry payload. Unknown numbers and mismatching wire types are skipped. -/
def specEntryLoop (strict : Bool) (childDec : Nat → Val → Bytes → Res Val) (kk : Kind) (e : Elem) :
    (fuel : Nat) → (payload : Bytes) → (k v : Val) → Res (Val × Val)
  | 0, _, k, v => .ok (k, v)
  | fuel+1, payload, k, v =>
    if payload = [] then .ok (k, v)
    else match consumeTag payload with
      | .err e => .err e | .panic => .panic
      | .ok (num, wt, r) =>
        if num > 536870911 then .err .illegalTag
        else
          -- `mism`: a key/value record with a wire type other than the declared one
          let skipIt (mism : Bool) : Res (Val × Val) :=
            if strict && mism then .err .wrongWireType else
            match consumeValue (2 * r.length + 2) 10001 num wt r with
            | .ok r' => specEntryLoop strict childDec kk e fuel r' k v
            | .err e => .err e | .panic => .panic
          if num = 1 then
            if wt = kk.specWireType then
              match specReadScalar kk r with
              | .ok (k', r') => specEntryLoop strict childDec kk e fuel r' k' v
              | .err e => .err e | .panic => .panic
            else skipIt true
          else if num = 2 then
            match e with
            | .scalar vk =>
              if wt = vk.specWireType then
                match specReadScalar vk r with
                | .ok (v', r') => specEntryLoop strict childDec kk e fuel r' k v'
                | .err e => .err e | .panic => .panic
              else skipIt true
            | .message i =>
              if wt = 2 then
                match consumeVarint r with
                | .ok (n, r1) =>
                  if n > r1.length then .err .eof
                  else match childDec i v (r1.take n) with       -- merges into the entry's value message
                    | .ok v' => specEntryLoop strict childDec kk e fuel (r1.drop n) k v'
                    | .err e => .err e | .panic => .panic
                | .err e => .err e | .panic => .panic
              else skipIt true
          else skipIt false

/-- One nesting level of the reference decoder, decoding (merging) into `m`. -/
def specDecodeLoop (strict : Bool) (S : Schema) (i : Nat) (o : UOpts) (childDec : Nat → Val → Bytes → Res Val) :
    (fuel : Nat) → (m : Val) → (bs : Bytes) → Res Val
  | 0, m, _ => .ok m
  | fuel+1, m, bs =>
    if bs = [] then .ok m
    else match consumeTag bs with
      | .err e => .err e | .panic => .panic
      | .ok (num, wt, r) =>
        if num > 536870911 then .err .illegalTag
        else
          let fs := (S.msg i).fields
          -- unknown path: also taken for a known number with a mismatching wire type (`errUnknown`)
          let asUnknown (known : Bool) : Res Val :=
            if strict && known then .err .wrongWireType else
            match consumeValue (2 * r.length + 2) 10001 num wt r with
            | .ok r' =>
              let raw := bs.take (bs.length - r'.length)
              let m' := if o.discard then m else Val.msg m.slots (m.unknown ++ raw)
              specDecodeLoop strict S i o childDec fuel m' r'
            | .err e => .err e | .panic => .panic
          match findField fs num with
          | none => asUnknown false
          | some (j, f) =>
            let cur := m.slot j
            match f.shape, f.elem with
            | .singular, .scalar k =>
              if wt = k.specWireType then
                match specReadScalar k r with
                | .ok (v, r') => specDecodeLoop strict S i o childDec fuel (m.setSlot j v) r'
                | .err e => .err e | .panic => .panic
              else asUnknown true
            | .oneof g, .scalar k =>
              if wt = k.specWireType then
                match specReadScalar k r with
                | .ok (v, r') =>
                  specDecodeLoop strict S i o childDec fuel ((Val.msg (clearGroup fs g m.slots) m.unknown).setSlot j (.one v)) r'
                | .err e => .err e | .panic => .panic
              else asUnknown true
            | .singular, .message mi =>
              if wt = 2 then
                match consumeVarint r with
                | .ok (n, r1) =>
                  if n > r1.length then .err .eof
                  else
                    let into := if cur.isNone then emptyMsg S mi else cur
                    match childDec mi into (r1.take n) with
                    | .ok v => specDecodeLoop strict S i o childDec fuel (m.setSlot j v) (r1.drop n)
                    | .err e => .err e | .panic => .panic
                | .err e => .err e | .panic => .panic
              else asUnknown true
            | .oneof g, .message mi =>
              if wt = 2 then
                match consumeVarint r with
                | .ok (n, r1) =>
                  if n > r1.length then .err .eof
                  else
                    -- `m.Mutable(fd)`: the existing message when this member is the active one
                    let into := match cur with | .one x => (if x.isNone then emptyMsg S mi else x) | _ => emptyMsg S mi
                    match childDec mi into (r1.take n) with
                    | .ok v =>
                      specDecodeLoop strict S i o childDec fuel
                        ((Val.msg (clearGroup fs g m.slots) m.unknown).setSlot j (.one v)) (r1.drop n)
                    | .err e => .err e | .panic => .panic
                | .err e => .err e | .panic => .panic
              else asUnknown true
            | .repeated _, .scalar k =>
              if wt = 2 ∧ k.packable then
                match consumeVarint r with
                | .ok (n, r1) =>
                  if n > r1.length then .err .eof
                  else match specPackedLoop k n (r1.take n) [] with
                    | .ok vs =>
                      let nonNil := match cur with | .list nn _ => nn || !vs.isEmpty | _ => !vs.isEmpty
                      specDecodeLoop strict S i o childDec fuel (m.setSlot j (.list nonNil (cur.elems ++ vs))) (r1.drop n)
                    | .err e => .err e | .panic => .panic
                | .err e => .err e | .panic => .panic
              else if wt = k.specWireType then
                match specReadScalar k r with
                | .ok (v, r') => specDecodeLoop strict S i o childDec fuel (m.setSlot j (.list true (cur.elems ++ [v]))) r'
                | .err e => .err e | .panic => .panic
              else asUnknown true
            | .repeated _, .message mi =>
              if wt = 2 then
                match consumeVarint r with
                | .ok (n, r1) =>
                  if n > r1.length then .err .eof
                  else match childDec mi (emptyMsg S mi) (r1.take n) with
                    | .ok v => specDecodeLoop strict S i o childDec fuel (m.setSlot j (.list true (cur.elems ++ [v]))) (r1.drop n)
                    | .err e => .err e | .panic => .panic
                | .err e => .err e | .panic => .panic
              else asUnknown true
            | .map kk, e =>
              if wt = 2 then
                match consumeVarint r with
                | .ok (n, r1) =>
                  if n > r1.length then .err .eof
                  else
                    -- key default, value default (`NewValue()`: an empty message for message values)
                    let v0 := match e with | .message mi => emptyMsg S mi | .scalar k => Elem.zeroVar (.scalar k)
                    match specEntryLoop strict childDec kk e n (r1.take n) (Elem.zeroVar (.scalar kk)) v0 with
                    | .ok (k, v) =>
                      specDecodeLoop strict S i o childDec fuel (m.setSlot j (.map true (mapPut (kbeqOf kk) cur.elems k v))) (r1.drop n)
                    | .err e => .err e | .panic => .panic
                | .err e => .err e | .panic => .panic
              else asUnknown true

/-- reference decode of message type `i` into `into`, with the recursion budget of protobuf-go. -/
def specDecodeInto (strict : Bool) (S : Schema) (o : UOpts) : (fuel : Nat) → (depth : Nat) → Nat → Val → Bytes → Res Val
  | 0, _, _, into, _ => .ok into
  | fuel+1, depth, i, into, bs =>
    if depth = 0 then .err .depth
    else specDecodeLoop strict S i o (specDecodeInto strict S o fuel (depth - 1)) bs.length into bs

/-- `proto.UnmarshalOptions{…}.Unmarshal(bs, m0)` on a reference (dynamicpb) message. -/
def specUnmarshal (S : Schema) (o : UOpts) (i : Nat) (m0 : Val) (bs : Bytes) : Res Val :=
  specDecodeInto false S o (bs.length + 1) 10000 i (if o.merge then m0 else emptyMsg S i) bs

/-- The same decoder, but a known field number carrying a wire type that is neither the declared one
    nor (for repeated scalars) the packed alternative is an error instead of an unknown field, at every
    level and inside map entries. `WellTyped` streams (the domain of C03) are those it accepts. -/
def specUnmarshalStrict (S : Schema) (o : UOpts) (i : Nat) (m0 : Val) (bs : Bytes) : Res Val :=
  specDecodeInto true S o (bs.length + 1) 10000 i (if o.merge then m0 else emptyMsg S i) bs

/-- A byte stream is a well-typed encoding for message type `i`: the reference decoder accepts it
    (records parse, varints valid, strings valid UTF-8, numbers ≤ 2^29−1, depth within the limit) and
    every known field number carries its declared wire type or the packed/unpacked alternative. -/
def WellTyped (S : Schema) (i : Nat) (bs : Bytes) : Prop :=
  (specUnmarshalStrict S {} i (emptyMsg S i) bs).isOk = true

end Pulsar
