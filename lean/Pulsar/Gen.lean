/-
  Pulsar.Gen — the generator-level *decision logic* of protoc-gen-go-pulsar (everything that is not
  "print a code fragment"). Every Go `range` over a map is an explicit parameter `mapOrder` that the
  theorems only assume to return a permutation of its argument.

  Modelled Go code
  * cmd/protoc-gen-go-pulsar/main.go     flag `features` (default "all", split on '+'), `generateAllFiles`,
                                         `rewriteMessageField` (+ the oneof rename), `reservedFieldNames`
                                         (table taken from `Extracted.reservedFieldNames`)
  * generator/features.go                `findFeatures`, `RegisterFeature`
  * generator/generator.go               `NewGenerator` (`local`), `GenerateFile` (proto3 only, feature loop, `seen`)
  * features/fastreflection/fast_plugin.go, features/protoc/feature.go
                                         "fast".GenerateFile returns true, "protoc".GenerateFile returns `pg.once`
                                         which is always false; both `GenerateHelpers` print nothing
  * features/fastreflection/copied/file_info.go   flattened `allMessages` order (`NewFileInfo`)
  * features/fastreflection/proto_message.go      index into `file_x_msgTypes[N]`: scan of the map
                                                  `AllMessagesByPtr` for the entry with the same full name
                                                  (no `break`: the LAST match in iteration order wins; no match panics)
  * features/fastreflection/descriptors.go        `findParents`, the `File_x.Messages().ByName("A").Messages().ByName("B")` chain
  * features/fastreflection/proto_marshal.go      emission order of the marshal closure: `marshalEmitOrder`
                                                  (re-uses `sortDesc`/`groupsOf` of Pulsar.Encode)

  Messages of one file are a forest `List MsgTree` (top-level messages in declaration order; map-entry
  messages are ordinary nested nodes: they occupy a slot of `file_x_msgTypes` like any other message).
  A message is *identified* by its position `Pos` (child indices from the top-level list down: the model
  of the `*protogen.Message` pointer). Its full name is the chain of names along the position; the proto
  package prefix is the same for all messages of a file and is left out.

  ------------------------------------------------------------------------------------------------
  Driver commands (Driver/Main.lean; one command per line, one answer per line)

    features <value>      <value> is the value of the `features` flag (no blanks). `features` with no
                          argument = flag absent (default "all"); the token `""` stands for the empty string.
        → `ok <comma-separated feature names, sorted> emits=<t|f>`   emits = would a requested proto3 file be emitted
        → `err`                                                       unknown feature name
          features protoc+fast   → ok fast,protoc emits=t
          features protoc        → ok protoc emits=f
          features fast+nosuch   → err
          features all+nosuch    → err                         (names after "all" are validated too)
          features all+fast      → ok fast,protoc emits=t
    param <parameter>     the whole plugin parameter (`features=fast,paths=source_relative,Mx.proto=y/z`);
                          same answers as `features`; also `err` for unknown flags / bad `pool`, `paths`, `annotate_code`.
                          `param` with no argument = empty parameter.
    goname <GoName>       <GoName> is the protogen Go name of a field or oneof (`Type`, `NewField`, …)
        → the name after `rewriteMessageField`:   goname Type → Type_      goname Foo → Foo
    msgindex <forest> <fullname>
                          forest syntax:  forest := tree (',' tree)* ;  tree := NAME | NAME '(' forest ')'
                          NAME is any non-empty run of characters other than '(' ')' ',' ;
                          e.g. `A(B(C),D),E` = messages A{B{C} D} and E. <fullname> is dotted WITHOUT the
                          package (`A.B.C`); it is resolved like the emitted `ByName` chain.
        → `ok <N> <comma-separated parent-chain names>`   N = index into file_x_msgTypes
        → `notfound`                                      no such message
        → `bad-tree`                                      forest does not parse
        → `panic`                                         `panic("not found")` (unreachable: C19_msgIndex_never_panics)
          msgindex A(B(C),D),E A.B.C → ok 4 A,B,C
          msgindex A(B(C),D),E E     → ok 1 E
    flatten <forest>      → `ok <comma-separated dotted full names in file_x_msgTypes order>`
          flatten A(B(C),D),E → ok A,E,A.B,A.D,A.B.C
-/
import Pulsar.Encode
import Pulsar.Extracted
namespace Pulsar.Gen
open Pulsar

/-! ## 1. Plugin parameter and feature selection -/

/-- `strings.Split` on a one-character separator, on character lists. -/
def splitChars (sep : Char) : List Char → List (List Char)
  | [] => [[]]
  | c :: cs =>
    if c = sep then [] :: splitChars sep cs
    else match splitChars sep cs with
      | [] => [[c]]
      | w :: ws => (c :: w) :: ws

def splitOn (sep : Char) (s : String) : List String := (splitChars sep s.toList).map String.ofList

/-- main.go: `f.StringVar(&features, "features", "all", …)` then `strings.Split(features, "+")`.
    `none` = the flag does not occur in the parameter. -/
def parseFeatures (flag : Option String) : List String := splitOn '+' (flag.getD "all")

/-- The whole plugin parameter, as `protogen.Options.New` (protobuf-go v1.34) walks it and hands the
    unknown names to `flag.FlagSet.Set`: the value of the `features` flag, or an error.
    `pool=` needs a '.', `paths`/`annotate_code` are validated by protogen, `M…`/`module` are ignored here. -/
def parseParameter (param : String) : Except String (Option String) :=
  let rec go : List (List Char) → Option String → Except String (Option String)
    | [], acc => .ok acc
    | p :: ps, acc =>
      let name := p.takeWhile (· ≠ '=')
      let value := (p.dropWhile (· ≠ '=')).drop 1
      if name = [] then go ps acc
      else if name = "module".toList then go ps acc
      else if name = "paths".toList then
        if value = "import".toList ∨ value = "source_relative".toList then go ps acc
        else .error "unknown path type"
      else if name = "annotate_code".toList then
        if value = "true".toList ∨ value = [] ∨ value = "false".toList then go ps acc
        else .error "bad value for parameter"
      else if name.head? = some 'M' then go ps acc
      else if name = "features".toList then go ps (some (String.ofList value))
      else if name = "pool".toList then
        if value.contains '.' then go ps acc else .error "invalid object name"
      else .error "no such flag"
  go (splitChars ',' param.toList) none

/-- The features registered by the `init` functions: name ↦ what that feature's `GenerateFile` returns
    ("fast": `true`; "protoc": `pg.once`, which is never set). -/
def registered : List (String × Bool) := [("fast", true), ("protoc", false)]

/-- `required[name] = feat` on a map kept as an association list with distinct keys. -/
def mapSet (m : List (String × Bool)) (k : String) (v : Bool) : List (String × Bool) :=
  (k, v) :: m.filter (fun e => e.1 != k)

/-- The first loop of `findFeatures`: every name is looked at. "all" sets the flag `all` and the loop
    goes on (`continue`); any other name that is not registered is an error wherever it stands (the
    payload is the offending name); a registered name is entered into `required`. After the loop:
    `if all { required = defaultFeatures }`. -/
def collect (reg : List (String × Bool)) : List String → Bool → List (String × Bool) →
    Except String (List (String × Bool))
  | [], all, acc => .ok (if all then reg else acc)
  | n :: ns, all, acc =>
    if n = "all" then collect reg ns true acc
    else match reg.lookup n with
      | none => .error n
      | some g => collect reg ns all (mapSet acc n g)

def insertByName (x : String × Bool) : List (String × Bool) → List (String × Bool)
  | [] => [x]
  | y :: ys => if x.1 < y.1 then x :: y :: ys else y :: insertByName x ys

/-- `sort.Slice(sorted, name <)` -/
def sortByName : List (String × Bool) → List (String × Bool)
  | [] => []
  | x :: xs => insertByName x (sortByName xs)

/-- generator/features.go `findFeatures`: the selected features in running order.
    `mapOrder` is the iteration order of `for name, feat := range required`. -/
def findFeatures (reg : List (String × Bool)) (names : List String)
    (mapOrder : List (String × Bool) → List (String × Bool)) : Except String (List (String × Bool)) :=
  match collect reg names false [] with
  | .error e => .error e
  | .ok required => .ok (sortByName (mapOrder required))

def featureNames (fs : List (String × Bool)) : List String := fs.map (·.1)

/-! ## 2. Per-file decision -/

/-- What `generateAllFiles` needs to know of one `protogen.File`. -/
structure FileIn where
  requested : Bool      -- `file.Generate`
  proto3 : Bool         -- `file.Desc.Syntax() == protoreflect.Proto3`
  importPath : String   -- `file.GoImportPath`
  pkg : String          -- `file.Desc.Package()`
  deriving DecidableEq, Repr

structure FileOut where
  emitted : Bool            -- a `<prefix>.pulsar.go` is part of the response (created and not `Skip()`ped)
  ran : List String         -- the features whose `GenerateFile` ran on this file, in order
  helpers : List Nat        -- indices of the features whose `GenerateHelpers` was invoked for this file
  deriving DecidableEq, Repr

/-- the feature loop of `Generator.GenerateFile` from feature index `fidx` on -/
def featureLoop (importPath : String) : Nat → List (String × Bool) → List (String × Nat) →
    Bool × List Nat × List (String × Nat)
  | _, [], seen => (false, [], seen)
  | fidx, (_, gen) :: fs, seen =>
    if gen then
      let fresh := !seen.contains (importPath, fidx)
      let seen' := if fresh then (importPath, fidx) :: seen else seen
      let (_, hs, seen'') := featureLoop importPath (fidx + 1) fs seen'
      (true, (if fresh then fidx :: hs else hs), seen'')
    else
      featureLoop importPath (fidx + 1) fs seen

/-- One iteration of the loop of `generateAllFiles` together with `Generator.GenerateFile`.
    `seen` is the generator's `seen` map, `localPkgs` its `local` map (handed to every
    `GeneratedFile` as `LocalPackages`; no template reads it). -/
def generateFile (features : List (String × Bool)) (seen : List (String × Nat)) (localPkgs : List String)
    (f : FileIn) : FileOut × List (String × Nat) :=
  let _ := localPkgs
  if !f.requested then (⟨false, [], []⟩, seen)
  else if !f.proto3 then (⟨false, [], []⟩, seen)
  else
    let (generated, hs, seen') := featureLoop f.importPath 0 features seen
    (⟨generated, featureNames features, hs⟩, seen')

def generateAll (features : List (String × Bool)) (localPkgs : List String) :
    List (String × Nat) → List FileIn → List FileOut
  | _, [] => []
  | seen, f :: fs =>
    let r := generateFile features seen localPkgs f
    r.1 :: generateAll features localPkgs r.2 fs

/-- `NewGenerator`: packages of the files to generate -/
def localPackages (files : List FileIn) : List String := (files.filter (·.requested)).map (·.pkg)

/-- The plugin run on a request, at the level of "which files come back". -/
def runPlugin (flag : Option String) (files : List FileIn)
    (mapOrder : List (String × Bool) → List (String × Bool)) : Except String (List FileOut) :=
  match findFeatures registered (parseFeatures flag) mapOrder with
  | .error e => .error e
  | .ok feats => .ok (generateAll feats (localPackages files) [] files)

/-- would a requested proto3 file be emitted with this feature list -/
def emits (features : List (String × Bool)) : Bool := features.any (·.2)

/-! ## 3. Reserved Go names -/

/-- `rewriteMessageField`: a Go name that is a method of `protoreflect.Message` (or `ProtoMethods`,
    `ProtoReflect`) gets one trailing underscore. Applied once per message (`processed`). -/
def rewriteName (goName : String) : String :=
  if Extracted.reservedFieldNames.contains goName then goName ++ "_" else goName

def goFieldName (goName : String) : String := rewriteName goName
def goOneofName (goName : String) : String := rewriteName goName

/-! ## 4. Nested messages: flattened order, message index, descriptor path -/

inductive MsgTree
  | node (name : String) (children : List MsgTree)
  deriving Repr, Inhabited

def MsgTree.name : MsgTree → String | .node n _ => n
def MsgTree.children : MsgTree → List MsgTree | .node _ cs => cs

/-- child indices from the file's top-level message list down to a message -/
abbrev Pos := List Nat

def nodeAt : List MsgTree → Pos → Option MsgTree
  | _, [] => none
  | ms, [i] => ms[i]?
  | ms, i :: rest =>
    match ms[i]? with
    | some (.node _ cs) => nodeAt cs rest
    | none => none

/-- descriptors.go `findParents`: the names of the enclosing messages, outermost first, then the
    message's own name (Go walks `Parent()` upwards and appends on the way back). -/
def findParents : List MsgTree → Pos → List String
  | _, [] => []
  | ms, i :: rest =>
    match ms[i]? with
    | some (.node n cs) => n :: findParents cs rest
    | none => []

/-- `Desc.FullName()` without the package prefix, as its list of components -/
def fullName (tops : List MsgTree) (p : Pos) : List String := findParents tops p

def dotted (names : List String) : String := ".".intercalate names

/-- The emitted `File_x.Messages().ByName(n₁).Messages().ByName(n₂)…` evaluated by protobuf-go:
    `ByName` answers the FIRST sibling with that name; a missing name is `none` (nil descriptor, then a
    nil dereference). The answer is the position of the descriptor reached (`[]` = the file itself). -/
def resolve : List MsgTree → List String → Option Pos
  | _, [] => some []
  | ms, n :: rest =>
    match ms.findIdx? (fun m => m.name == n) with
    | none => none
    | some i =>
      match ms[i]? with
      | some (.node _ cs) => (resolve cs rest).map (i :: ·)
      | none => none

mutual
/-- `walkMessages` below one message, with `initMessageInfos(m.Messages)` as visitor: positions relative
    to the message, in the order they are appended to `allMessages`. -/
def walkTree : MsgTree → List Pos
  | .node _ cs => (List.range cs.length).map ([·]) ++ walkList 0 cs
def walkList (i : Nat) : List MsgTree → List Pos
  | [] => []
  | m :: ms => (walkTree m).map (i :: ·) ++ walkList (i + 1) ms
end

/-- copied/file_info.go `NewFileInfo`: `allMessages` = the top-level messages, then — visiting every
    message depth-first, parent first — the direct children of the visited message. -/
def allPositions (tops : List MsgTree) : List Pos :=
  (List.range tops.length).map ([·]) ++ walkList 0 tops

/-- the full names in `file_x_msgTypes` order -/
def allMessages (tops : List MsgTree) : List (List String) := (allPositions tops).map (fullName tops)

/-- `AllMessagesByPtr`: message ↦ index into `allMessages` -/
def byPtr (tops : List MsgTree) : List (Pos × Nat) := (allPositions tops).zipIdx

/-- the `for mInfo, index := range …` loop: every match overwrites `id` -/
def scanLast {α : Type} (p : α → Bool) (l : List (α × Nat)) : Option Nat :=
  l.foldl (fun acc e => if p e.1 then some e.2 else acc) none

/-- proto_message.go `generateReflectionType`: the `N` of `&file_x_msgTypes[N]` for the message at
    `target`; `none` is `panic("not found")`. -/
def msgIndex (mapOrder : List (Pos × Nat) → List (Pos × Nat)) (tops : List MsgTree) (target : Pos) : Option Nat :=
  scanLast (fun p => fullName tops p == fullName tops target) (mapOrder (byPtr tops))

/-- full names are unique within the file (protoc guarantees it) -/
def fullNamesUnique (tops : List MsgTree) : Bool := decide (allMessages tops).Nodup

def namesDistinct (ms : List MsgTree) : Bool := decide (ms.map MsgTree.name).Nodup

mutual
def uniqTree : MsgTree → Bool
  | .node _ cs => namesDistinct cs && uniqAll cs
def uniqAll : List MsgTree → Bool
  | [] => true
  | m :: ms => uniqTree m && uniqAll ms
end

/-- sibling names are unique at every level of the forest -/
def siblingsUnique (tops : List MsgTree) : Bool := namesDistinct tops && uniqAll tops

/-! ## 5. Emission order of the marshal closure (proto_marshal.go) -/

/-- Field numbers in the order the marshal closure writes them (back to front of the buffer): oneof
    groups in reverse declaration order (members in declaration order, they are `case`s of one
    `switch`), then the other fields by descending number. -/
def marshalEmitOrder (fs : List FieldDesc) : List Nat :=
  let oneofs := (groupsOf fs).reverse.flatMap (fun g => (fs.filter (fun f => f.group? == some g)).map (·.num))
  let plain := (sortDesc ((fs.filter (fun f => !f.isOneof)).map (fun f => (f, Val.none)))).map (·.1.num)
  oneofs ++ plain

/-! ## 6. Forest syntax of the driver -/

def isNameChar (c : Char) : Bool := c != '(' && c != ')' && c != ','

/-- what the previous character was -/
inductive Tok | start | name | close | comma | opened
  deriving DecidableEq, Repr

/-- one-pass parser state: enclosing messages still open (name, elder siblings reversed), the elder
    siblings at the current level (reversed), the name being read (reversed) -/
structure PState where
  stack : List (String × List MsgTree)
  sibs : List MsgTree
  buf : List Char
  last : Tok

def PState.flush (st : PState) : List MsgTree :=
  if st.buf = [] then st.sibs else .node (String.ofList st.buf.reverse) [] :: st.sibs

def pstep (st : PState) (c : Char) : Option PState :=
  if c = '(' then
    if st.last = .name then some ⟨(String.ofList st.buf.reverse, st.sibs) :: st.stack, [], [], .opened⟩ else none
  else if c = ',' then
    if st.last = .name ∨ st.last = .close then some ⟨st.stack, st.flush, [], .comma⟩ else none
  else if c = ')' then
    if st.last = .name ∨ st.last = .close then
      match st.stack with
      | [] => none
      | (n, outer) :: stack => some ⟨stack, .node n st.flush.reverse :: outer, [], .close⟩
    else none
  else
    if st.last = .close then none else some ⟨st.stack, st.sibs, c :: st.buf, .name⟩

def pgo : List Char → PState → Option PState
  | [], st => some st
  | c :: cs, st => match pstep st c with | some st' => pgo cs st' | none => none

def parseTops (s : String) : Option (List MsgTree) :=
  match pgo s.toList ⟨[], [], [], .start⟩ with
  | some st => if st.stack = [] ∧ (st.last = .name ∨ st.last = .close) then some st.flush.reverse else none
  | none => none

end Pulsar.Gen
