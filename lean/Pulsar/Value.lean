/-
  Pulsar.Value — message values, positional and aligned with the schema.

  A message value is `.msg slots unknown` with exactly one slot per declared field, in declaration
  order. Scalars are raw bit patterns of the Go field type (so NaN payloads, −0.0 and extreme integers
  need no float semantics). Go's nil-vs-empty distinction is represented (`nonNil` flags, `.none`).
  A oneof member's slot is `.none` when that member is not the one held by the Go interface field,
  `.one v` when the interface holds the wrapper `&M_F{v}`, and `.oneNil` for a typed-nil wrapper.
  The type is nested only through `List Val`.
-/
import Pulsar.Schema
namespace Pulsar

inductive Val
  | bits (n : Nat)
  | blob (nonNil : Bool) (b : Bytes)
  | none
  | msg (slots : List Val) (unknown : Bytes)
  | list (nonNil : Bool) (elems : List Val)
  | map (nonNil : Bool) (entries : List Val)
  | entry (k v : Val)
  | one (v : Val)
  | oneNil
  deriving Repr, Inhabited

namespace Val
def getBits : Val → Nat | bits n => n | _ => 0
def getBlob : Val → Bytes | blob _ b => b | _ => []
def isNone : Val → Bool | none => true | _ => false
def slots : Val → List Val | msg s _ => s | _ => []
def unknown : Val → Bytes | msg _ u => u | _ => []
def elems : Val → List Val | list _ e => e | map _ e => e | _ => []
def key : Val → Val | entry k _ => k | _ => none
def value : Val → Val | entry _ v => v | _ => none
def setSlot (m : Val) (j : Nat) (v : Val) : Val :=
  match m with
  | msg s u => msg (s.set j v) u
  | x => x
def slot (m : Val) (j : Nat) : Val := m.slots.getD j none
end Val

-- Structural (deep) equality test on values; `Val` is nested through `List`, so it is written by
-- hand with an explicit list helper.
mutual
def Val.beq : Val → Val → Bool
  | .bits a, .bits b => a == b
  | .blob f a, .blob g b => f == g && a == b
  | .none, .none => true
  | .msg s u, .msg t w => Val.beqList s t && u == w
  | .list f a, .list g b => f == g && Val.beqList a b
  | .map f a, .map g b => f == g && Val.beqList a b
  | .entry k v, .entry k' v' => Val.beq k k' && Val.beq v v'
  | .one a, .one b => Val.beq a b
  | .oneNil, .oneNil => true
  | _, _ => false
def Val.beqList : List Val → List Val → Bool
  | [], [] => true
  | a :: as, b :: bs => Val.beq a b && Val.beqList as bs
  | _, _ => false
end

/-- The zero value of a field's Go struct slot. -/
def FieldDesc.zero (f : FieldDesc) : Val :=
  match f.shape, f.elem with
  | .singular, .scalar k => if k.isBlob then .blob false [] else .bits 0
  | .singular, .message _ => .none
  | .repeated _, _ => .list false []
  | .map _, _ => .map false []
  | .oneof _, _ => .none

/-- `&T{}`: the freshly allocated empty message of type `i`. -/
def emptyMsg (S : Schema) (i : Nat) : Val := .msg ((S.msg i).fields.map FieldDesc.zero) []

-- Nesting depth of message values.
mutual
def Val.depth : Val → Nat
  | .msg s _ => 1 + Val.depthList s
  | .list _ e => Val.depthList e
  | .map _ e => Val.depthList e
  | .entry k v => max k.depth v.depth
  | .one v => v.depth
  | _ => 0
def Val.depthList : List Val → Nat
  | [] => 0
  | v :: vs => max v.depth (Val.depthList vs)
end

end Pulsar
