/-
  Pulsar.Anyutil — model of /repo/anyutil/any.go (`MarshalFrom`/`New`, `Unpack`).
  Registries and the message codec are parameters (external calls; their assumed behaviour is recorded
  in the theorems' hypotheses). A Go panic is an explicit outcome.
-/
import Pulsar.Basic
namespace Pulsar.Anyutil
open Pulsar

/-- what a registry lookup can answer -/
inductive Lookup
  | message (fullName : String)      -- a message type / message descriptor
  | nonMessage                       -- file resolver only: an enum, service, … descriptor
  | notFound                         -- exactly `protoregistry.NotFound`
  | otherErr                         -- any other error (e.g. "found wrong type")
  deriving DecidableEq, Repr

structure AnyVal where
  typeUrl : String
  value : Bytes
  deriving DecidableEq, Repr

/-- the part of a URL after the last '/' (the whole string if there is none):
    `protoregistry.Types.FindMessageByURL` and `anypb.Any.MessageName`. -/
def urlName (url : String) : String :=
  String.ofList ((url.toList.reverse.takeWhile (· ≠ '/')).reverse)

/-- `strings.TrimPrefix(url, "/")` -/
def trimSlash (url : String) : String :=
  match url.toList with
  | '/' :: rest => String.ofList rest
  | _ => url

/-- `anyutil.MarshalFrom(dst, src, opts)`: `src = none` is a nil message. `enc` is `opts.Marshal(src)`.
    Returns the new `dst` (unchanged on failure) and whether an error was returned. -/
def marshalFrom (dst : AnyVal) (src : Option String) (enc : Res Bytes) : Res AnyVal × AnyVal :=
  match src with
  | none => (.err .other, dst)
  | some fullName =>
    match enc with
    | .ok b => let d : AnyVal := ⟨"/" ++ fullName, b⟩; (.ok d, d)
    | .err e => (.err e, dst)
    | .panic => (.panic, dst)

/-- outcome of `anyutil.Unpack`: the name of the Go/dynamic type chosen and the decoded message -/
structure Unpacked (M : Type) where
  typeName : String
  dynamic : Bool
  msg : M

/-- `anyutil.Unpack(any, fileResolver, typeResolver)`.
    `types url` = `typeResolver.FindMessageByURL(url)`, `files name` = `fileResolver.FindDescriptorByName(name)`,
    `decode name bytes` = `proto.Unmarshal(bytes, typ.New())` for the message type `name`.
    `any.UnmarshalTo` first checks that the URL names the target type (`MessageIs`). -/
def unpack {M : Type} (any : AnyVal) (types : String → Lookup) (files : String → Lookup)
    (decode : String → Bytes → Res M) : Res (Unpacked M) :=
  let finish (name : String) (dyn : Bool) : Res (Unpacked M) :=
    if urlName any.typeUrl = name then
      match decode name any.value with
      | .ok m => .ok ⟨name, dyn, m⟩
      | .err e => .err e
      | .panic => .panic
    else .err .other
  match types any.typeUrl with
  | .message name => finish name false
  | .notFound =>
    (match files (trimSlash any.typeUrl) with
     | .message name => finish name true
     | .nonMessage => .err .other          -- checked type assertion (fix 7bdc40e); was a panic
     | .notFound => .err .other
     | .otherErr => .err .other)
  | .nonMessage => .err .other
  | .otherErr => .err .other

end Pulsar.Anyutil
