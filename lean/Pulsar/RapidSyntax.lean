/-
  Pulsar.RapidSyntax — line-protocol syntax of the draw-level rapidproto commands (RAPID_PROTOCOL.md):
  draw-token parser and the two commands `rgen` / `rwkt`. Driver side only; not used by any theorem.
-/
import Pulsar.Syntax
import Pulsar.Rapidproto
namespace Pulsar.Syntax
open Pulsar Pulsar.Rapidproto

/-- `<int>`: signed decimal (or `0x…` hex) integer; `-` = not an integer -/
def parseIntReading (s : String) : Option (Option Int) :=
  if s == "-" then some none
  else
    let (neg, body) := if s.startsWith "-" then (true, (s.drop 1).toString) else (false, s)
    let mag : Option Nat :=
      if body.startsWith "0x" ∨ body.startsWith "0X" then
        (let cs := (body.drop 2).toString.toList
         if cs.isEmpty then none else natOfHexChars cs)
      else body.toNat?
    mag.map (fun m => some (if neg then -(m : Int) else (m : Int)))

/-- `<f32>` / `<f64>`: hex of the IEEE bits; `-` = not parseable -/
def parseBitsReading (s : String) : Option (Option Nat) :=
  if s == "-" then some none
  else if s.isEmpty then none
  else (natOfHexChars s.toList).map some

/-- one draw token (table of RAPID_PROTOCOL.md) -/
def parseDraw (t : String) : Option Draw :=
  if t == "b0" then some (.bool false)
  else if t == "b1" then some (.bool true)
  else match t.toList with
    | 'n' :: rest =>
      (match (String.ofList rest).splitOn "/" with
       | [i, f32, f64] => do
         let i ← parseIntReading i
         let a ← parseBitsReading f32
         let b ← parseBitsReading f64
         pure (.num i a b)
       | _ => none)
    | 's' :: rest => (bytesOfHexChars rest).map Draw.str
    | 'x' :: rest => (bytesOfHexChars rest).map Draw.bytes
    | 'l' :: rest =>
      if rest.isEmpty then some (.strs [])
      else (((String.ofList rest).splitOn ",").mapM bytesOfHex).map Draw.strs
    | _ => none

/-- a scalar `Val` token: `b<hex>` (bit pattern), `s<hex>` / `S<hex>` (bytes; `S`: the non-nil flag set) -/
def parseScalarTok (t : String) : Option Val :=
  match parseVal 1 [t] with
  | some (.bits n, []) => some (.bits n)
  | some (.blob f b, []) => some (.blob f b)
  | _ => none

/-- `m<kind>=<valtoken>`: the mapper answers `<valtoken>` for every scalar of kind `<kind>` (kind names as in
    `schema` lines) -/
def parseMapperPair (s : String) : Option (Kind × Val) :=
  match s.toList with
  | 'm' :: rest =>
    (match (String.ofList rest).splitOn "=" with
     | [k, v] => do
       let k ← parseKind k
       let v ← parseScalarTok v
       pure (k, v)
     | _ => none)
  | _ => none

/-- `-` or a subset of the letters `e` (NoEmptyLists), `d` (DisallowNilMessages) -/
def parseOptLetters (s : String) : Option GenOpts :=
  if s == "-" then some {}
  else if s.toList.all (fun c => c == 'e' || c == 'd') then
    some { noEmptyLists := s.contains 'e', disallowNil := s.contains 'd' }
  else none

/-- `<letters>` or `<letters>+m<kind>=<valtoken>,m<kind>=<valtoken>,…` (`FieldMaps`; the first pair for a
    kind wins, like the first `FieldMapper` that answers) -/
def parseGenOpts (s : String) : Option GenOpts :=
  match s.splitOn "+" with
  | [letters] => parseOptLetters letters
  | [letters, ms] => do
    let o ← parseOptLetters letters
    let ps ← (ms.splitOn ",").mapM parseMapperPair
    pure { o with mapper := fun k => (ps.find? (fun p => p.1 == k)).map (·.2) }
  | _ => none

/-- `E<n0>,<n1>,…` (`E` alone: no values) -/
def parseEnumDecl (s : String) : Option (List Int) :=
  match s.toList with
  | 'E' :: rest =>
    if rest.isEmpty then some []
    else ((String.ofList rest).splitOn ",").mapM (fun t => t.toInt?)
  | _ => none

def printWhy : Why → String
  | .wrongType => "type"
  | .missing => "missing"
  | .leftover => "leftover"
  | .fuel => "fuel"
  | .truncate => "truncate"

/-- `rgen <sid> <msgidx> <flags> <enum> <n> <draw>*n` (the schema is already looked up) -/
def cmdRgen (S : Schema) (i : Nat) (toks : List String) : String :=
  match toks with
  | flags :: en :: n :: draws =>
    (match parseGenOpts flags, parseEnumDecl en, n.toNat?, draws.mapM parseDraw with
     | some o, some E, some n, some ds =>
       if ds.length != n then "bad-op"
       else match generate S o E i ds with
         | .ok v _ _ => "ok " ++ printVal (repNorm S (v.depth + 1) i v)
         | .stuck rem why => "stuck " ++ toString (ds.length - rem) ++ " " ++ printWhy why
     | _, _, _, _ => "bad-op")
  | _ => "bad-op"

def printInt (x : Int) : String := toString x

/-- `rwkt ts|dur <seconds-draw> <nanos-draw>` and `rwkt fm <n> <path-draw>*n`. A path draw is one
    `s<hex>` token (one path) or one `l<hex>,…` token (the whole `SliceOfN` draw); the paths are
    concatenated in order. -/
def cmdRwkt (toks : List String) : String :=
  match toks with
  | [which, s, n] =>
    if which == "ts" ∨ which == "dur" then
      (match parseDraw s, parseDraw n with
       | some (.num (some sec) _ _), some (.num (some nanos) _ _) =>
         let r := if which == "ts" then genTimestamp sec nanos else genDuration sec nanos
         "ok " ++ printInt r.sec ++ " " ++ printInt r.nanos
       | some (.num (some _) _ _), some _ => "stuck 1 type"
       | some _, some _ => "stuck 0 type"
       | _, _ => "bad-op")
    else if which == "fm" then
      (match s.toNat?, parseDraw n with
       | some 1, some (.str b) => "ok 1 s" ++ hexOfBytes b
       | some 1, some (.strs l) =>
         let ps := genFieldMask (l.map hexOfBytes)
         "ok " ++ toString ps.length ++ String.join (ps.map (fun p => " s" ++ p))
       | some 1, some _ => "stuck 0 type"
       | _, _ => "bad-op")
    else "bad-op"
  | "fm" :: n :: draws =>
    (match n.toNat?, draws.mapM parseDraw with
     | some n, some ds =>
       if ds.length != n then "bad-op"
       else
         let paths : Option (List Bytes) := ds.foldr (fun d acc =>
           match d, acc with
           | .str b, some l => some (b :: l)
           | .strs bs, some l => some (bs ++ l)
           | _, _ => none) (some [])
         (match paths with
          | some l =>
            let ps := genFieldMask (l.map hexOfBytes)
            "ok " ++ toString ps.length ++ String.join (ps.map (fun p => " s" ++ p))
          | none => "stuck 0 type")
     | _, _ => "bad-op")
  | _ => "bad-op"

end Pulsar.Syntax
