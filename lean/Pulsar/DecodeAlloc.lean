/-
  Pulsar.DecodeAlloc — allocation accounting for the generated `unmarshal` closure.

  The functions below are the decoder of `Pulsar.Decode` once more, with the same control flow, but every
  result is a pair `(a, res)`: `res` is the outcome of `Pulsar.Decode` (`al_value_agrees` proves it is the
  same value/error/panic) and `a` is the number of bytes the Go code has asked the allocator for up to that
  point — *also when the run ends in an error*, so the bound covers failing inputs and failing prefixes.

  Allocation sites of the template `features/fastreflection/proto_unmarshal.go` (line numbers of the tree
  at fix d595428) and what is charged:

  | site (template line)                                              | charge                                  |
  |-------------------------------------------------------------------|-----------------------------------------|
  | `make([]T, 0, elementCount)` packed pre-allocation (193–197)       | `elementCount * sizeof T`, only if the   |
  |   elementCount = packedLen/8 (178), /4 (180), #bytes<0x80 (182–188),|   slice is empty and `elementCount ≠ 0`; |
  |   packedLen for bool (190), none for enum (no case in the switch)  |   nothing for enum                      |
  | `x.F = append(x.F, v)` repeated scalar (240,254,269,…,588)         | `growFactor * sizeof T` per element       |
  | `string(dAtA[a:b])` (375,377,379,381; map key/value 676)           | `b - a`                                  |
  | `make([]byte, n)` (487,491; map value 711), `append(x.F[:0], …)`   | `n`                                      |
  |   (494)                                                            |                                          |
  | `append(x.F, string/[]byte)` header of a repeated blob (377,491)   | `growFactor * 16` / `growFactor * 24`     |
  | `&T{}` repeated element (460), singular if nil (466–468), oneof    | `msgCost` each; `growFactor * ptrSize`    |
  |   member if not already active (404–408), map value lazily (692–   |   for the appended pointer               |
  |   694) and for an entry without value record (454–456)             |                                          |
  | `options.Unmarshal(…)` of a nested message (629): protobuf-go asks  | `callCost` per nested call               |
  |   the message for `ProtoMethods()`, which allocates its result     |                                          |
  |   (`proto_message.go` 300–306)                                     |                                          |
  | `&T_Member{v}` oneof wrapper (237,251,265,…,410,489,586)           | `boxCost`                                |
  | `make(map[K]V)` if nil (417–419)                                   | `mapHdrCost`                             |
  | `x.F[mapkey] = mapvalue` (458), only for a key not yet present     | `mapEntryCost`                           |
  | `append(x.unknownFields, dAtA[iNdEx:iNdEx+skippy]...)` (97–99)     | `growFactor * skippy` unless Discard      |

  `append` is charged amortised: `growFactor = 2` times the bytes appended is the capacity of the final
  backing array under Go's growth policy (doubling below 256 elements, ×1.25+192 above); the garbage of
  the superseded backing arrays is a further constant factor (geometric series) and is not counted, nor is
  a one-off copy of what a non-empty target held before the call (that is proportional to the target, not
  to the input). The packed pre-allocation and the appends of the same run are both charged (upper bound).
  `msgCost`, `boxCost`, `mapHdrCost`, `mapEntryCost` are per-allocation constants (for a byte-exact
  reading scale them by the largest `sizeof(T)` of the schema; the proofs only use that they are constants).
  `mapEntryCost` is a whole 8-slot bucket of the Go 1.2x map (8 + 8·16 + 8·16 + 8), which bounds both the
  first insert and the amortised cost per entry of a growing map.
  Singular numeric fields are stored in place (proto3 subset of the model: no `&v` boxes).
-/
import Pulsar.Decode
namespace Pulsar

namespace Alloc
/-- amortised capacity factor of `append` -/
def growFactor : Nat := 2
/-- a pointer in a `[]*T` -/
def ptrSize : Nat := 8
/-- one `&T{}` -/
def msgCost : Nat := 64
/-- dispatching one nested `options.Unmarshal`: `ProtoMethods()` returns a fresh `&protoiface.Methods{…}`
    (flags + five function pointers) at every call -/
def callCost : Nat := 48
/-- one oneof wrapper `&T_Member{v}` -/
def boxCost : Nat := 32
/-- `make(map[K]V)`: the `hmap` header -/
def mapHdrCost : Nat := 48
/-- inserting a new key: one bucket -/
def mapEntryCost : Nat := 272
/-- the slope of the linear bound: bytes allocated per input byte. It is attained by the two-byte map record
    `tag 00` (header + bucket + empty message value: `(48 + 272 + 64) / 2`). -/
def K : Nat := 192
/-- the offset of the linear bound: nothing is allocated for the empty input -/
def K0 : Nat := 0
end Alloc
open Alloc

/-- `sizeof` of the Go element type of a repeated field of kind `k` (string / slice headers for blobs). -/
def Kind.goSize : Kind → Nat
  | .int32 | .uint32 | .sint32 | .enum | .fixed32 | .sfixed32 | .float => 4
  | .int64 | .uint64 | .sint64 | .fixed64 | .sfixed64 | .double => 8
  | .bool => 1
  | .string => 16
  | .bytes => 24

/-- bytes copied out of the input for a decoded scalar: `string(dAtA[a:b])`, `make([]byte, n)`. -/
def Val.blobLen : Val → Nat
  | .blob _ b => b.length
  | _ => 0

/-- what is left of the input after a successful read (`0` for an error or panic) -/
def Res.remLen {α : Type} : Res (α × Bytes) → Nat
  | .ok (_, r) => r.length
  | _ => 0

/-- `x.F = append(x.F, v)` for one decoded element `v` of kind `k`. -/
def appendCost (k : Kind) (v : Val) : Nat := growFactor * k.goSize + v.blobLen

/-- `elementCount` of a packed run with payload `dAtA[iNdEx:postIndex]` (template lines 175–191). -/
def packedElementCount (k : Kind) (payload : Bytes) : Nat :=
  match k with
  | .double | .fixed64 | .sfixed64 => payload.length / 8
  | .float | .fixed32 | .sfixed32 => payload.length / 4
  | .int64 | .uint64 | .int32 | .uint32 | .sint32 | .sint64 => payload.countP (fun b => b < 128)
  | .bool => payload.length
  | _ => 0      -- enum (and string/bytes, which never reach the packed branch): no case, `elementCount` stays 0

/-- `if elementCount != 0 && len(x.F) == 0 { x.F = make([]T, 0, elementCount) }` -/
def packedPrealloc (k : Kind) (payload : Bytes) (curLen : Nat) : Nat :=
  if packedElementCount k payload ≠ 0 ∧ curLen = 0 then packedElementCount k payload * k.goSize else 0

/-- `implPackedLoop` with the appends accounted in `a`. -/
def implPackedLoopAlloc (k : Kind) :
    (fuel : Nat) → (rest : Bytes) → (rem : Nat) → (acc : List Val) → (a : Nat) → Nat × Res (List Val × Bytes)
  | 0, rest, _, acc, a => (a, .ok (acc, rest))
  | fuel+1, rest, rem, acc, a =>
    if rem = 0 then (a, .ok (acc, rest))
    else match implReadScalar k rest with
      | .ok (v, r) =>
        implPackedLoopAlloc k fuel r (rem - (rest.length - r.length)) (acc ++ [v]) (a + appendCost k v)
      | .err e => (a, .err e)
      | .panic => (a, .panic)

/-- `implReadMapField`: a message value is allocated on first occurrence; string/bytes are copied. -/
def implReadMapFieldAlloc (childDec : Nat → Val → Bytes → Nat × Res Val) (S : Schema) (e : Elem) (old : Val)
    (rest : Bytes) : Nat × Res (Val × Bytes) :=
  match e with
  | .message i =>
    (match readLenDelim rest with
     | .ok (p, r) =>
       let into := if old.isNone then emptyMsg S i else old
       let c := childDec i into p
       ((if old.isNone then msgCost else 0) + callCost + c.1,
        match c.2 with
        | .ok v => .ok (v, r) | .err e => .err e | .panic => .panic)
     | .err e => (0, .err e) | .panic => (0, .panic))
  | .scalar k =>
    match implReadScalar k rest with
    | .ok (v, r) => (v.blobLen, .ok (v, r))
    | .err e => (0, .err e)
    | .panic => (0, .panic)

/-- `implEntryLoop` with the allocations of the key/value reads accounted in `a`. -/
def implEntryLoopAlloc (childDec : Nat → Val → Bytes → Nat × Res Val) (S : Schema) (kk : Kind) (e : Elem) :
    (fuel : Nat) → (rest : Bytes) → (rem : Nat) → (k v : Val) → (a : Nat) → Nat × Res (Val × Val)
  | 0, _, _, k, v, a => (a, .ok (k, v))
  | fuel+1, rest, rem, k, v, a =>
    if rem = 0 then (a, .ok (k, v))
    else match readVarint rest with
      | .err e => (a, .err e)
      | .panic => (a, .panic)
      | .ok (wire, r) =>
        let fieldNum := (wire / 8) % 4294967296
        if fieldNum = 1 then
          let c := implReadMapFieldAlloc childDec S (.scalar kk) k r
          match c.2 with
          | .ok (k', r') =>
            implEntryLoopAlloc childDec S kk e fuel r' (rem - (rest.length - r'.length)) k' v (a + c.1)
          | .err e => (a + c.1, .err e) | .panic => (a + c.1, .panic)
        else if fieldNum = 2 then
          let c := implReadMapFieldAlloc childDec S e v r
          match c.2 with
          | .ok (v', r') =>
            implEntryLoopAlloc childDec S kk e fuel r' (rem - (rest.length - r'.length)) k v' (a + c.1)
          | .err e => (a + c.1, .err e) | .panic => (a + c.1, .panic)
        else
          match skip rest with
          | .ok n =>
            if n > rem then (a, .err .eof)
            else implEntryLoopAlloc childDec S kk e fuel (rest.drop n) (rem - n) k v a
          | .err e => (a, .err e) | .panic => (a, .panic)

/-- `implKnownField`: the allocations of one known-field record. -/
def implKnownFieldAlloc (S : Schema) (fs : List FieldDesc) (childDec : Nat → Val → Bytes → Nat × Res Val)
    (j : Nat) (f : FieldDesc) (wt : Nat) (m : Val) (rest : Bytes) : Nat × Res (Val × Bytes) :=
  let cur := m.slot j
  match f.shape, f.elem with
  | .repeated _, .scalar k =>
    if Extracted.wireType k != 2 then
      if wt = Extracted.wireType k then
        match implReadScalar k rest with
        | .ok (v, r) => (appendCost k v, .ok (m.setSlot j (.list true (cur.elems ++ [v])), r))
        | .err e => (0, .err e) | .panic => (0, .panic)
      else if wt = 2 then
        match readVarint rest with
        | .ok (n, r) =>
          if n ≥ 9223372036854775808 then (0, .err .invalidLength)
          else if n > r.length then (0, .err .eof)
          else
            let c := implPackedLoopAlloc k n r n [] (packedPrealloc k (r.take n) cur.elems.length)
            match c.2 with
            | .ok (vs, r') =>
              let nonNil := match cur with | .list nn _ => nn || !vs.isEmpty | _ => !vs.isEmpty
              (c.1, .ok (m.setSlot j (.list nonNil (cur.elems ++ vs)), r'))
            | .err e => (c.1, .err e) | .panic => (c.1, .panic)
        | .err e => (0, .err e) | .panic => (0, .panic)
      else (0, .err .wrongWireType)
    else
      if wt != 2 then (0, .err .wrongWireType)
      else match implReadScalar k rest with
        | .ok (v, r) => (appendCost k v, .ok (m.setSlot j (.list true (cur.elems ++ [v])), r))
        | .err e => (0, .err e) | .panic => (0, .panic)
  | .repeated _, .message i =>
    if wt != 2 then (0, .err .wrongWireType)
    else match readLenDelim rest with
      | .ok (p, r) =>
        -- `x.F = append(x.F, &T{})`, then `options.Unmarshal` into the new element
        let c := childDec i (emptyMsg S i) p
        (growFactor * ptrSize + msgCost + callCost + c.1,
         match c.2 with
         | .ok v => .ok (m.setSlot j (.list true (cur.elems ++ [v])), r)
         | .err e => .err e | .panic => .panic)
      | .err e => (0, .err e) | .panic => (0, .panic)
  | .singular, .scalar k =>
    if wt != Extracted.wireType k then (0, .err .wrongWireType)
    else match implReadScalar k rest with
      | .ok (v, r) => (v.blobLen, .ok (m.setSlot j v, r))
      | .err e => (0, .err e) | .panic => (0, .panic)
  | .singular, .message i =>
    if wt != 2 then (0, .err .wrongWireType)
    else match readLenDelim rest with
      | .ok (p, r) =>
        let into := if cur.isNone then emptyMsg S i else cur
        let c := childDec i into p
        ((if cur.isNone then msgCost else 0) + callCost + c.1,
         match c.2 with
         | .ok v => .ok (m.setSlot j v, r)
         | .err e => .err e | .panic => .panic)
      | .err e => (0, .err e) | .panic => (0, .panic)
  | .oneof g, .scalar k =>
    if wt != Extracted.wireType k then (0, .err .wrongWireType)
    else match implReadScalar k rest with
      | .ok (v, r) =>
        (boxCost + v.blobLen, .ok ((Val.msg (clearGroup fs g m.slots) m.unknown).setSlot j (.one v), r))
      | .err e => (0, .err e) | .panic => (0, .panic)
  | .oneof g, .message i =>
    if wt != 2 then (0, .err .wrongWireType)
    else match readLenDelim rest with
      | .ok (p, r) =>
        let into := match cur with | .one x => (if x.isNone then emptyMsg S i else x) | _ => emptyMsg S i
        let fresh := match cur with | .one x => (if x.isNone then msgCost else 0) | _ => msgCost
        let c := childDec i into p
        -- the wrapper `&T_Member{v}` is built after the nested decode succeeded
        (match c.2 with
         | .ok v => (fresh + callCost + c.1 + boxCost,
                     .ok ((Val.msg (clearGroup fs g m.slots) m.unknown).setSlot j (.one v), r))
         | .err e => (fresh + callCost + c.1, .err e) | .panic => (fresh + callCost + c.1, .panic))
      | .err e => (0, .err e) | .panic => (0, .panic)
  | .map kk, e =>
    if wt != 2 then (0, .err .wrongWireType)
    else match readVarint rest with
      | .ok (n, r) =>
        if n ≥ 9223372036854775808 then (0, .err .invalidLength)
        else if n > r.length then (0, .err .eof)
        else
          -- `if x.F == nil { x.F = make(map[K]V) }`
          let hdr := match cur with | .map true _ => 0 | _ => mapHdrCost
          -- the entry's records are decoded within the entry (`l := postIndex`, fix d595428)
          let c := implEntryLoopAlloc childDec S kk e n (r.take n) n (Elem.zeroVar (.scalar kk)) e.zeroVar hdr
          match c.2 with
          | .ok (k, v) =>
            let fresh := match e with | .message _ => (if v.isNone then msgCost else 0) | .scalar _ => 0
            let v := match e with | .message mi => (if v.isNone then emptyMsg S mi else v) | .scalar _ => v
            let ins := if cur.elems.any (fun en => kbeqOf kk en.key k) then 0 else mapEntryCost
            (c.1 + fresh + ins, .ok (m.setSlot j (.map true (mapPut (kbeqOf kk) cur.elems k v)), r.drop n))
          | .err e => (c.1, .err e) | .panic => (c.1, .panic)
      | .err e => (0, .err e) | .panic => (0, .panic)

/-- `implUnmarshalLoop` with the running allocation total `a`. -/
def implUnmarshalLoopAlloc (S : Schema) (i : Nat) (o : UOpts) (childDec : Nat → Val → Bytes → Nat × Res Val) :
    (fuel : Nat) → (m : Val) → (rest : Bytes) → (a : Nat) → Nat × Res Val
  | 0, m, _, a => (a, .ok m)
  | fuel+1, m, rest, a =>
    if rest = [] then (a, .ok m)
    else match readVarint rest with
      | .err e => (a, .err e)
      | .panic => (a, .panic)
      | .ok (wire, r) =>
        let fieldNum := (wire / 8) % 4294967296
        let wt := wire % 8
        if wt = 4 then (a, .err .endGroup)
        else if fieldNum = 0 ∨ fieldNum ≥ 2147483648 then (a, .err .illegalTag)
        else
          match findField (S.msg i).fields fieldNum with
          | some (j, f) =>
            let c := implKnownFieldAlloc S (S.msg i).fields childDec j f wt m r
            (match c.2 with
             | .ok (m', r') =>
               if r'.length < rest.length then implUnmarshalLoopAlloc S i o childDec fuel m' r' (a + c.1)
               else (a + c.1, .ok m')
             | .err e => (a + c.1, .err e) | .panic => (a + c.1, .panic))
          | none =>
            match skip rest with
            | .ok n =>
              if n > rest.length then (a, .err .eof)
              else match sliceTo rest n with
                | .ok raw =>
                  let m' := if o.discard then m else Val.msg m.slots (m.unknown ++ raw)
                  -- `x.unknownFields = append(x.unknownFields, dAtA[iNdEx:iNdEx+skippy]...)`
                  let a' := a + (if o.discard then 0 else growFactor * raw.length)
                  if n = 0 then (a', .ok m') else implUnmarshalLoopAlloc S i o childDec fuel m' (rest.drop n) a'
                | .err e => (a, .err e) | .panic => (a, .panic)
            | .err e => (a, .err e) | .panic => (a, .panic)

/-- `implUnmarshalClosure` with allocation accounting: `(bytes allocated, outcome)`. The target `into`
    itself was allocated by the caller (it is charged at the `&T{}` site of the parent). -/
def implUnmarshalAlloc (S : Schema) (o : UOpts) : Nat → Int → Nat → Val → Bytes → Nat × Res Val
  | 0, _, _, into, _ => (0, .ok into)
  | fuel+1, depth, i, into, bs =>
    if into.isNone then (0, .ok into)
    else if depth < 0 then (0, .err .depth)
    else implUnmarshalLoopAlloc S i o (implUnmarshalAlloc S o fuel (nestedLimit depth)) bs.length into bs 0

end Pulsar
