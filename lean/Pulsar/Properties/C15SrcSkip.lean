/-
  C15 / C06 / C14 (source level) — runtime.Skip as TRANSLATED FROM /repo's runtime/runtime.go on this run
  (`Pulsar.Xf.runtime_Skip`: the outer record loop and the three varint loops as fuel-recursive helpers, Go's
  wrapping `int` / `uint64` arithmetic, slice reads with index panics, the signed `length |= … << shift`):
  it is the hand-written model `skip` outcome for outcome, so everything proved about the model — never a panic,
  progress, exactly the length of the first record protowire accepts — holds of the Go text itself, for every input
  shorter than 2^62 bytes. The fuel the translation gives the loops (`len(dAtA)+1` records, 11 bytes per varint)
  always suffices (`C15_src_Skip_fuel_suffices`: the model never produces the translation's "out of fuel" outcome).
-/
import Pulsar.Proofs.GoSrcSkip
import Pulsar.Properties.C15
namespace Pulsar
open Pulsar

/-- the result of the model as the Go function returns it (`int`) -/
def skipAsInt (bs : Bytes) : Res Int := natRes (skip bs)

theorem C15_src_Skip_is_model (bs : Bytes) (hl : bs.length < 4611686018427387904) :
    Xf.runtime_Skip bs = skipAsInt bs :=
  src_Skip bs hl

/-- the Go text never panics (no slice index out of range, whatever the bytes) -/
theorem C15_src_Skip_no_panic (bs : Bytes) (hl : bs.length < 4611686018427387904) :
    Xf.runtime_Skip bs ≠ .panic := by
  rw [src_Skip bs hl]
  have := skip_ne_panic bs
  cases h : skip bs <;> simp_all [natRes]

/-- … always makes progress when it succeeds … -/
theorem C15_src_Skip_progress (bs : Bytes) (hl : bs.length < 4611686018427387904) (n : Int)
    (h : Xf.runtime_Skip bs = .ok n) : 0 < n := by
  rw [src_Skip bs hl] at h
  cases hs : skip bs with
  | ok m =>
    rw [hs] at h
    simp only [natRes, Res.ok.injEq] at h
    have := skip_progress bs m hs
    omega
  | err e => rw [hs] at h; simp [natRes] at h
  | panic => rw [hs] at h; simp [natRes] at h

/-- … and returns precisely the length of the first record whenever protowire accepts one -/
theorem C15_src_Skip_len (bs : Bytes) (n : Nat) (hl : bs.length < 4611686018427387904)
    (h : consumeField bs = .ok n) : Xf.runtime_Skip bs = .ok (n : Int) := by
  rw [src_Skip bs hl, skip_len_of_consumeField bs n (by omega) h]
  rfl

/-- the loops never run out of the fuel the translation gave them: `.err .other` is not an outcome -/
theorem C15_src_Skip_fuel_suffices (bs : Bytes) (hl : bs.length < 4611686018427387904) :
    Xf.runtime_Skip bs ≠ .err .other := by
  rw [src_Skip bs hl]
  have hs := skip_ne_other bs
  cases h : skip bs with
  | ok m => simp [natRes]
  | panic => simp [natRes]
  | err e =>
    simp only [natRes, ne_eq, Res.err.injEq]
    intro he; subst he; exact hs h

end Pulsar

#print axioms Pulsar.C15_src_Skip_is_model
#print axioms Pulsar.C15_src_Skip_no_panic
#print axioms Pulsar.C15_src_Skip_len
