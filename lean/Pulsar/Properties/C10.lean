/-
  C10 — client parametricity: a program that talks to a generated message only through the reflection
  interface cannot tell it from the reference implementation.

  protobuf-go's generic algorithms (proto.Equal, Clone, Merge, the JSON and text codecs, …) reach a message
  only through `protoreflect.Message`. Such an algorithm is a deterministic CLIENT: from the outputs seen so
  far it chooses the next operation, or stops (`Client Op = List Out → Option Op`, Proofs/ReflectClient).
  `runClient step c fuel s outs` runs it for at most `fuel` operations.

  The theorems: run against the generated fast reflection (`Reflect.step S i`, from the Go struct `s`) and
  against the reference semantics (`SpecReflect.stepAbs S n i`, i.e. `SpecReflect.step S i` fed the same op
  with abstract value arguments `Op.abs`, from `abs s`), a client produces `OutsEq` traces and ends in
  `abs`-related states. So whatever such an algorithm computes from the reference implementation, it
  computes from the generated code: the algorithms may be treated as black boxes.

  Hypotheses, and why:
  * `msgOK S false n i s`, and every op the client chooses is `Op.ok S n i` — the domain of C08;
  * for clients that may use `size`/`enc`: `S.WF`, `i < S.msgs.length`, `utf8OK S n i s`, and the chosen ops
    are `Op.utf8` (their string arguments are valid UTF-8) — the reference marshaller rejects invalid
    UTF-8, the generated one does not (see C08). `Op.okU = Op.ok && Op.utf8`.
    Clients that never use a codec op need none of these (`C10_client_parametric_nocodec`).
  * The client sees IMPL outputs on one side and SPEC outputs on the other. `OutEq` is equality today, so it
    makes the same choices. Were `OutEq` coarser, the client would have to respect it:
    `hresp : ∀ l l', OutsEq l l' → c l = c l'`. `C10_client_parametric_of_respects` takes exactly this
    hypothesis and never unfolds `OutEq`; `C10_client_respects` discharges it for every client (today).
  * The well-formedness of the chosen ops is only required *along the run* (`clientOKOn`, decidable):
    a client may misbehave on output sequences it never sees. `C10_client_parametric` is the corollary
    for clients that are well-formed on every output sequence.
-/
import Pulsar.Properties.C08
import Pulsar.Proofs.ReflectClient
namespace Pulsar

/-- every client respects `OutsEq` (because `OutEq` is equality; see the header) -/
theorem C10_client_respects {ω : Type} (c : Client ω) : ∀ l l', OutsEq l l' → c l = c l' :=
  rc_client_respects c

/-- The general form: any client that respects `OutsEq` and chooses well-formed ops along its run. Also
    gives the two invariants of the final IMPL state. -/
theorem C10_client_parametric_of_respects (S : Schema) (hS : S.WF = true) (n i : Nat) (hi : i < S.msgs.length)
    (s : Val) (hs : msgOK S false n i s = true) (hu : utf8OK S n i s = true)
    (c : Client Op) (hresp : ∀ l l', OutsEq l l' → c l = c l') (fuel : Nat)
    (hc : clientOKOn (Reflect.step S i) (Op.okU S n i) c fuel s [] = true) :
    OutsEq (runClient (Reflect.step S i) c fuel s []).2
           (runClient (SpecReflect.stepAbs S n i) c fuel (abs S n i s) []).2 ∧
    abs S n i (runClient (Reflect.step S i) c fuel s []).1
      = (runClient (SpecReflect.stepAbs S n i) c fuel (abs S n i s) []).1 ∧
    msgOK S false n i (runClient (Reflect.step S i) c fuel s []).1 = true ∧
    utf8OK S n i (runClient (Reflect.step S i) c fuel s []).1 = true := by
  obtain ⟨h1, h2, h3, h4⟩ := rc_runClient_sim (Reflect.step S i) (SpecReflect.stepAbs S n i) (ReflRel S n i)
    (Op.okU S n i) (rc_ReflRel_step S hS n i hi) c hresp fuel s (abs S n i s) [] [] ⟨hs, hu, rfl⟩ trivial hc
  exact ⟨h1, h4, h2, h3⟩

/-- Client parametricity, ops checked along the run. -/
theorem C10_client_parametric_run (S : Schema) (hS : S.WF = true) (n i : Nat) (hi : i < S.msgs.length)
    (s : Val) (hs : msgOK S false n i s = true) (hu : utf8OK S n i s = true) (c : Client Op) (fuel : Nat)
    (hc : clientOKOn (Reflect.step S i) (Op.okU S n i) c fuel s [] = true) :
    OutsEq (runClient (Reflect.step S i) c fuel s []).2
           (runClient (SpecReflect.stepAbs S n i) c fuel (abs S n i s) []).2 ∧
    abs S n i (runClient (Reflect.step S i) c fuel s []).1
      = (runClient (SpecReflect.stepAbs S n i) c fuel (abs S n i s) []).1 :=
  let h := C10_client_parametric_of_respects S hS n i hi s hs hu c (C10_client_respects c) fuel hc
  ⟨h.1, h.2.1⟩

/-- Client parametricity: for every client all of whose ops are well-formed (`Op.ok`, string arguments valid
    UTF-8) and every fuel, the run against the generated reflection from a well-typed `s` and the run against
    the reference semantics from `abs s` yield equivalent traces and `abs`-related final states. -/
theorem C10_client_parametric (S : Schema) (hS : S.WF = true) (n i : Nat) (hi : i < S.msgs.length)
    (s : Val) (hs : msgOK S false n i s = true) (hu : utf8OK S n i s = true) (c : Client Op)
    (hc : ∀ outs op, c outs = some op → Op.ok S n i op = true ∧ Op.utf8 S n i op = true) (fuel : Nat) :
    OutsEq (runClient (Reflect.step S i) c fuel s []).2
           (runClient (SpecReflect.stepAbs S n i) c fuel (abs S n i s) []).2 ∧
    abs S n i (runClient (Reflect.step S i) c fuel s []).1
      = (runClient (SpecReflect.stepAbs S n i) c fuel (abs S n i s) []).1 :=
  C10_client_parametric_run S hS n i hi s hs hu c fuel
    (rc_clientOKOn_of_forall _ _ c
      (fun outs op h => by simp only [Op.okU, (hc outs op h).1, (hc outs op h).2, Bool.and_self]) fuel s [])

/-- Clients that never use `size`/`enc` (Equal, Clone, Merge, Range-based walkers): no schema, UTF-8 or
    index hypothesis. -/
theorem C10_client_parametric_nocodec (S : Schema) (n i : Nat) (s : Val) (hs : msgOK S false n i s = true)
    (c : Client Op) (fuel : Nat)
    (hc : clientOKOn (Reflect.step S i) (fun op => Op.ok S n i op && !op.usesCodec) c fuel s [] = true) :
    OutsEq (runClient (Reflect.step S i) c fuel s []).2
           (runClient (SpecReflect.stepAbs S n i) c fuel (abs S n i s) []).2 ∧
    abs S n i (runClient (Reflect.step S i) c fuel s []).1
      = (runClient (SpecReflect.stepAbs S n i) c fuel (abs S n i s) []).1 := by
  obtain ⟨h1, _, h3⟩ := rc_runClient_sim (Reflect.step S i) (SpecReflect.stepAbs S n i) (ReflRel0 S n i)
    (fun op => Op.ok S n i op && !op.usesCodec) (rc_ReflRel0_step S n i) c (C10_client_respects c) fuel s
    (abs S n i s) [] [] ⟨hs, rfl⟩ trivial hc
  exact ⟨h1, h3⟩

/-- Two messages (Equal(a, b), Merge(dst, src), …): the client tags each op with the message it addresses
    (`false`: `a` of type `ia`, `true`: `b` of type `ib`); `step2` is the product machine. The messages may
    have different types and be typed with different fuels. -/
theorem C10_client_parametric_pair (S : Schema) (hS : S.WF = true) (na ia nb ib : Nat)
    (hia : ia < S.msgs.length) (hib : ib < S.msgs.length) (a b : Val)
    (ha : msgOK S false na ia a = true) (hua : utf8OK S na ia a = true)
    (hb : msgOK S false nb ib b = true) (hub : utf8OK S nb ib b = true)
    (c : Client (Bool × Op)) (fuel : Nat)
    (hc : clientOKOn (step2 (Reflect.step S ia) (Reflect.step S ib)) (ok2 (Op.okU S na ia) (Op.okU S nb ib))
            c fuel (a, b) [] = true) :
    OutsEq (runClient (step2 (Reflect.step S ia) (Reflect.step S ib)) c fuel (a, b) []).2
           (runClient (step2 (SpecReflect.stepAbs S na ia) (SpecReflect.stepAbs S nb ib)) c fuel
              (abs S na ia a, abs S nb ib b) []).2 ∧
    abs S na ia (runClient (step2 (Reflect.step S ia) (Reflect.step S ib)) c fuel (a, b) []).1.1
      = (runClient (step2 (SpecReflect.stepAbs S na ia) (SpecReflect.stepAbs S nb ib)) c fuel
              (abs S na ia a, abs S nb ib b) []).1.1 ∧
    abs S nb ib (runClient (step2 (Reflect.step S ia) (Reflect.step S ib)) c fuel (a, b) []).1.2
      = (runClient (step2 (SpecReflect.stepAbs S na ia) (SpecReflect.stepAbs S nb ib)) c fuel
              (abs S na ia a, abs S nb ib b) []).1.2 := by
  obtain ⟨h1, h2, h3⟩ := rc_runClient_sim
    (step2 (Reflect.step S ia) (Reflect.step S ib))
    (step2 (SpecReflect.stepAbs S na ia) (SpecReflect.stepAbs S nb ib))
    (fun s t => ReflRel S na ia s.1 t.1 ∧ ReflRel S nb ib s.2 t.2)
    (ok2 (Op.okU S na ia) (Op.okU S nb ib))
    (rc_step2_sim _ _ _ _ _ _ _ _ (rc_ReflRel_step S hS na ia hia) (rc_ReflRel_step S hS nb ib hib))
    c (C10_client_respects c) fuel (a, b) (abs S na ia a, abs S nb ib b) [] []
    ⟨⟨ha, hua, rfl⟩, ⟨hb, hub, rfl⟩⟩ trivial hc
  exact ⟨h1, h2.2.2, h3.2.2⟩

/-! ### Non-vacuity: concrete clients on the schema and state of C08 -/

/-- "Range, then Get of each visited field, then stop" (the skeleton of Clone / Equal / a text encoder) -/
def rangeGetClient : Client Op
  | [] => some (.r .range)
  | .fields js :: rest => (js[rest.length]?).map (fun j => .r (.get j))
  | _ => none

-- its run on `stateA`, evaluated: the populated fields, then their values
example : (runClient (Reflect.step schemaA8 0) rangeGetClient 10 stateA []).2
    = [.fields [2, 5, 6, 7, 9], .bits 7, .msgv true, .mapv true 2, .listv true 1, .str [115]] := rfl
-- the same trace from the reference machine on the abstract message
example : (runClient (SpecReflect.stepAbs schemaA8 3 0) rangeGetClient 10 (abs schemaA8 3 0 stateA) []).2
    = [.fields [2, 5, 6, 7, 9], .bits 7, .msgv true, .mapv true 2, .listv true 1, .str [115]] := rfl

theorem rangeGetClient_ok (outs : List Out) (op : Op) (h : rangeGetClient outs = some op) :
    Op.ok schemaA8 3 0 op = true ∧ Op.utf8 schemaA8 3 0 op = true := by
  unfold rangeGetClient at h
  split at h
  · cases h; exact ⟨rfl, rfl⟩
  · rename_i js rest
    cases hj : js[rest.length]? with
    | none => simp [hj] at h
    | some j => simp only [hj, Option.map_some, Option.some.injEq] at h; subst h; exact ⟨rfl, rfl⟩
  · cases h

-- the theorem, instantiated (every fuel)
example (fuel : Nat) :
    OutsEq (runClient (Reflect.step schemaA8 0) rangeGetClient fuel stateA []).2
           (runClient (SpecReflect.stepAbs schemaA8 3 0) rangeGetClient fuel (abs schemaA8 3 0 stateA) []).2 ∧
    abs schemaA8 3 0 (runClient (Reflect.step schemaA8 0) rangeGetClient fuel stateA []).1
      = (runClient (SpecReflect.stepAbs schemaA8 3 0) rangeGetClient fuel (abs schemaA8 3 0 stateA) []).1 :=
  C10_client_parametric schemaA8 (by decide) 3 0 (by decide) stateA (by decide) stateA_utf8 rangeGetClient
    rangeGetClient_ok fuel

/-- a client that writes and then uses the codec: append an element to LIST, set the element's string, ask
    for the size of the element, then marshal the whole message -/
def writeEncClient : Client Op
  | [] => some (.w (.lappm 7))
  | [_] => some (.at 7 1 (.w (.set 0 (.blob true [111, 107]))))
  | [_, _] => some (.at 7 1 (.r .size))
  | [_, _, _] => some (.r .enc)
  | _ => none

example : clientOKOn (Reflect.step schemaA8 0) (fun op => Op.ok schemaA8 3 0 op) writeEncClient 9 stateA [] = true := by
  decide

theorem writeEncClient_ok (outs : List Out) (op : Op) (h : writeEncClient outs = some op) :
    Op.ok schemaA8 3 0 op = true ∧ Op.utf8 schemaA8 3 0 op = true := by
  unfold writeEncClient at h
  split at h <;> cases h
  · exact ⟨by decide, by decide⟩
  · refine ⟨by decide, ?_⟩
    simp [Op.utf8, WOp.utf8, setArgUtf8, utf8Elem, schemaA8, Schema.msg, Val.getBlob, utf8Valid]
  · exact ⟨by decide, by decide⟩
  · exact ⟨by decide, by decide⟩

example (fuel : Nat) :
    OutsEq (runClient (Reflect.step schemaA8 0) writeEncClient fuel stateA []).2
           (runClient (SpecReflect.stepAbs schemaA8 3 0) writeEncClient fuel (abs schemaA8 3 0 stateA) []).2 ∧
    abs schemaA8 3 0 (runClient (Reflect.step schemaA8 0) writeEncClient fuel stateA []).1
      = (runClient (SpecReflect.stepAbs schemaA8 3 0) writeEncClient fuel (abs schemaA8 3 0 stateA) []).1 :=
  C10_client_parametric schemaA8 (by decide) 3 0 (by decide) stateA (by decide) stateA_utf8 writeEncClient
    writeEncClient_ok fuel

/-- a two-message client (one step of Merge): read INT32 of the second message, store it in the first.
    It is *not* well-formed on every output sequence (`.bits n` with `n ≥ 2^32` is no int32), only along its
    actual runs — which is all `C10_client_parametric_pair` asks for. -/
def copyInt32Client : Client (Bool × Op)
  | [] => some (true, .r (.get 2))
  | [.bits n] => some (false, .w (.set 2 (.bits n)))
  | [_, _] => some (false, .r (.get 2))
  | _ => none

/-- the source message: A{ INT32: 41 } -/
def stateSrc : Val := .msg
  [.bits 0, .bits 0, .bits 41, .blob false [], .blob false [], .none, .map false [], .list false [], .none, .none,
   .list false [], .none] []

example : (runClient (step2 (Reflect.step schemaA8 0) (Reflect.step schemaA8 0)) copyInt32Client 5
    (stateA, stateSrc) []).2 = [.bits 41, .ok, .bits 41] := rfl

theorem stateSrc_utf8 : utf8OK schemaA8 3 0 stateSrc = true := by
  simp [utf8OK, utf8Slot, utf8Elem, schemaA8, stateSrc, Schema.msg, Val.slots, Val.elems, Val.getBlob, Val.isNone,
    utf8Valid]

example :
    OutsEq (runClient (step2 (Reflect.step schemaA8 0) (Reflect.step schemaA8 0)) copyInt32Client 5
              (stateA, stateSrc) []).2
           (runClient (step2 (SpecReflect.stepAbs schemaA8 3 0) (SpecReflect.stepAbs schemaA8 3 0)) copyInt32Client 5
              (abs schemaA8 3 0 stateA, abs schemaA8 3 0 stateSrc) []).2 ∧
    abs schemaA8 3 0 (runClient (step2 (Reflect.step schemaA8 0) (Reflect.step schemaA8 0)) copyInt32Client 5
              (stateA, stateSrc) []).1.1
      = (runClient (step2 (SpecReflect.stepAbs schemaA8 3 0) (SpecReflect.stepAbs schemaA8 3 0)) copyInt32Client 5
              (abs schemaA8 3 0 stateA, abs schemaA8 3 0 stateSrc) []).1.1 ∧
    abs schemaA8 3 0 (runClient (step2 (Reflect.step schemaA8 0) (Reflect.step schemaA8 0)) copyInt32Client 5
              (stateA, stateSrc) []).1.2
      = (runClient (step2 (SpecReflect.stepAbs schemaA8 3 0) (SpecReflect.stepAbs schemaA8 3 0)) copyInt32Client 5
              (abs schemaA8 3 0 stateA, abs schemaA8 3 0 stateSrc) []).1.2 :=
  C10_client_parametric_pair schemaA8 (by decide) 3 0 3 0 (by decide) (by decide) stateA stateSrc (by decide)
    stateA_utf8 (by decide) stateSrc_utf8 copyInt32Client 5 (by decide)

end Pulsar

#print axioms Pulsar.C10_client_respects
#print axioms Pulsar.C10_client_parametric_of_respects
#print axioms Pulsar.C10_client_parametric_run
#print axioms Pulsar.C10_client_parametric
#print axioms Pulsar.C10_client_parametric_nocodec
#print axioms Pulsar.C10_client_parametric_pair
