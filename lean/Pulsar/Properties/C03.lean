/-
  C03 — Decoding any well-typed wire stream gives the reference result.
-/
import Pulsar.Proofs.DecodeRef
import Pulsar.Proofs.DecodeConcat
namespace Pulsar

/-- strict acceptance implies plain acceptance with the same value (WellTyped streams are in the
    reference decoder's domain). -/
theorem C03_strict_implies_reference (S : Schema) (o : UOpts) (i : Nat) (m0 : Val) (bs : Bytes) (v : Val)
    (h : specUnmarshalStrict S o i m0 bs = .ok v) : specUnmarshal S o i m0 bs = .ok v :=
  strict_implies_reference S o i m0 bs v h

/-- C03 with the receiver required to be non-nil (the only extra hypothesis; neither `S.WF` nor
    `i < S.msgs.length` is needed). Same `Val`, same nil/non-nil flags. -/
theorem C03_decode_eq_reference (S : Schema) (_hS : S.WF = true) (o : UOpts) (i : Nat) (m0 : Val)
    (bs : Bytes) (v : Val)
    (_hi : i < S.msgs.length) (hl : bs.length < 9223372036854775808)
    (hm : o.merge = false ∨ msgOK S false (m0.depth + 1) i m0 = true)
    (hnn : o.merge = false → m0.isNone = false)
    (h : specUnmarshalStrict S o i m0 bs = .ok v) :
    implUnmarshal S o i m0 bs = .ok v :=
  unmarshal_agree S o i m0 bs v hl hnn hm h

/-- The usual call: decoding into a fresh message. -/
theorem C03_decode_eq_reference_fresh (S : Schema) (o : UOpts) (i : Nat) (bs : Bytes) (v : Val)
    (ho : o.merge = false) (hl : bs.length < 9223372036854775808)
    (h : specUnmarshalStrict S o i (emptyMsg S i) bs = .ok v) :
    implUnmarshal S o i (emptyMsg S i) bs = .ok v :=
  unmarshal_agree S o i _ bs v hl (fun _ => rfl) (Or.inl ho) h

/-! ### decoding a concatenation equals merging -/

/-- Reference decoder: if `a` decodes (into `m0`, or fresh) to `v1` and `b` decodes with Merge into `v1`
    to `v2`, then `a ++ b` decodes to `v2` — for every schema and all byte strings, no side condition. -/
theorem C03_concat_reference (S : Schema) (o : UOpts) (i : Nat) (m0 v1 v2 : Val) (a b : Bytes)
    (ha : specUnmarshal S o i m0 a = .ok v1)
    (hb : specUnmarshal S { o with merge := true } i v1 b = .ok v2) :
    specUnmarshal S o i m0 (a ++ b) = .ok v2 := by
  unfold specUnmarshal at *
  simp only [if_true] at hb
  exact specDecodeInto_concat false S o { o with merge := true } rfl _ _ _ _ _ _ _ ha hb

/-- Well-typed streams are closed under concatenation (same statement for the strict decoder that
    defines `WellTyped`). -/
theorem C03_concat_strict (S : Schema) (o : UOpts) (i : Nat) (m0 v1 v2 : Val) (a b : Bytes)
    (ha : specUnmarshalStrict S o i m0 a = .ok v1)
    (hb : specUnmarshalStrict S { o with merge := true } i v1 b = .ok v2) :
    specUnmarshalStrict S o i m0 (a ++ b) = .ok v2 := by
  unfold specUnmarshalStrict at *
  simp only [if_true] at hb
  exact specDecodeInto_concat true S o { o with merge := true } rfl _ _ _ _ _ _ _ ha hb

/-- The generated decoder: decoding the concatenation of two well-typed streams gives exactly the
    value the reference gives for "decode `a`, then merge-decode `b` into the result". -/
theorem C03_concat_eq_merge (S : Schema) (hS : S.WF = true) (o : UOpts) (i : Nat) (m0 v1 v2 : Val) (a b : Bytes)
    (hi : i < S.msgs.length) (hl : (a ++ b).length < 9223372036854775808)
    (hm : o.merge = false ∨ msgOK S false (m0.depth + 1) i m0 = true)
    (hnn : o.merge = false → m0.isNone = false)
    (ha : specUnmarshalStrict S o i m0 a = .ok v1)
    (hb : specUnmarshalStrict S { o with merge := true } i v1 b = .ok v2) :
    implUnmarshal S o i m0 (a ++ b) = .ok v2 :=
  C03_decode_eq_reference S hS o i m0 (a ++ b) v2 hi hl hm hnn (C03_concat_strict S o i m0 v1 v2 a b ha hb)

/-- … and it is the value the generated decoder itself computes in two steps (decode `a`, then decode
    `b` with Merge into the result), provided the intermediate value is a well-formed message. -/
theorem C03_concat_eq_two_steps (S : Schema) (hS : S.WF = true) (o : UOpts) (i : Nat) (m0 v1 v2 : Val) (a b : Bytes)
    (hi : i < S.msgs.length) (hl : (a ++ b).length < 9223372036854775808)
    (hm : o.merge = false ∨ msgOK S false (m0.depth + 1) i m0 = true)
    (hnn : o.merge = false → m0.isNone = false)
    (hv1 : msgOK S false (v1.depth + 1) i v1 = true)
    (ha : specUnmarshalStrict S o i m0 a = .ok v1)
    (hb : specUnmarshalStrict S { o with merge := true } i v1 b = .ok v2) :
    implUnmarshal S o i m0 a = .ok v1 ∧
    implUnmarshal S { o with merge := true } i v1 b = .ok v2 ∧
    implUnmarshal S o i m0 (a ++ b) = .ok v2 := by
  have hla : a.length < 9223372036854775808 := by simp only [List.length_append] at hl; omega
  have hlb : b.length < 9223372036854775808 := by simp only [List.length_append] at hl; omega
  refine ⟨C03_decode_eq_reference S hS o i m0 a v1 hi hla hm hnn ha,
    C03_decode_eq_reference S hS _ i v1 b v2 hi hlb (Or.inr hv1) (fun h => by simp at h) hb,
    C03_concat_eq_merge S hS o i m0 v1 v2 a b hi hl hm hnn ha hb⟩

/-! ### non-vacuity -/

/-- msg0 { msg1 f = 1; }   msg1 { int32 a = 1; int32 b = 2; } -/
def c03Schema : Schema :=
  ⟨[⟨[⟨1, .message 1, .singular⟩]⟩, ⟨[⟨1, .scalar .int32, .singular⟩, ⟨2, .scalar .int32, .singular⟩]⟩]⟩

/-- `f{a:7} f{b:9}`: the singular message field occurs twice and must merge. -/
def c03Bytes : Bytes := [0x0a, 0x02, 0x08, 0x07, 0x0a, 0x02, 0x10, 0x09]

example : specUnmarshalStrict c03Schema {} 0 (emptyMsg c03Schema 0) c03Bytes
    = .ok (.msg [.msg [.bits 7, .bits 9] []] []) := by rfl

example : implUnmarshal c03Schema {} 0 (emptyMsg c03Schema 0) c03Bytes
    = .ok (.msg [.msg [.bits 7, .bits 9] []] []) :=
  C03_decode_eq_reference_fresh c03Schema {} 0 c03Bytes _ rfl (by decide) (by rfl)

example : WellTyped c03Schema 0 c03Bytes := by rfl

/-- msg0 { repeated int32 xs = 1 [packed]; map<int32,int32> m = 2; oneof { int32 p = 3; msg1 q = 4; } }
    msg1 { int32 a = 1; } -/
def c03Schema2 : Schema :=
  ⟨[⟨[⟨1, .scalar .int32, .repeated true⟩, ⟨2, .scalar .int32, .map .int32⟩,
      ⟨3, .scalar .int32, .oneof 0⟩, ⟨4, .message 1, .oneof 0⟩]⟩,
    ⟨[⟨1, .scalar .int32, .singular⟩]⟩]⟩

/-- packed run `xs:[1,2]`, unknown field 15 (varint 5), unpacked `xs:3`, map entry with the value
    before the key and a foreign record inside `{v:3, 9:0, k:1}`, oneof `p:5` then `q{a:7}`, `q{}`. -/
def c03Bytes2 : Bytes :=
  [0x0a, 0x02, 0x01, 0x02,  0x78, 0x05,  0x08, 0x03,
   0x12, 0x06, 0x10, 0x03, 0x48, 0x00, 0x08, 0x01,
   0x18, 0x05,  0x22, 0x02, 0x08, 0x07,  0x22, 0x00]

-- (`consumeValue` is defined by well-founded recursion, so this one is unfolded by `simp`, not `rfl`)
theorem c03_example2 : specUnmarshalStrict c03Schema2 {} 0 (emptyMsg c03Schema2 0) c03Bytes2
    = .ok (.msg [.list true [.bits 1, .bits 2, .bits 3], .map true [.entry (.bits 1) (.bits 3)],
                 .none, .one (.msg [.bits 7] [])] [0x78, 0x05]) := by
  simp [specUnmarshalStrict, specDecodeInto, specDecodeLoop, specEntryLoop, specPackedLoop, specReadScalar,
    consumeTag, consumeValue, consumeVarint, consumeVarintAux, c03Schema2, c03Bytes2, emptyMsg, Schema.msg,
    findField, FieldDesc.zero, Kind.specWireType, Kind.packable, Kind.isBlob, Val.slot, Val.slots,
    Val.setSlot, Val.elems, Val.unknown, mapPut, kbeqOf, clearGroup, FieldDesc.group?, Val.isNone,
    Val.getBits, Val.key]

example : implUnmarshal c03Schema2 {} 0 (emptyMsg c03Schema2 0) c03Bytes2
    = .ok (.msg [.list true [.bits 1, .bits 2, .bits 3], .map true [.entry (.bits 1) (.bits 3)],
                 .none, .one (.msg [.bits 7] [])] [0x78, 0x05]) :=
  C03_decode_eq_reference_fresh c03Schema2 {} 0 c03Bytes2 _ rfl (by decide) c03_example2

/-- a known field with a foreign wire type is outside the domain (strict) but inside the reference
    decoder's (kept as an unknown field): the premise of C03 is not trivially everything. -/
example : specUnmarshalStrict c03Schema {} 1 (emptyMsg c03Schema 1) [0x0d, 0, 0, 0, 0]
    = .err .wrongWireType := by rfl
example : specUnmarshal c03Schema {} 1 (emptyMsg c03Schema 1) [0x0d, 0, 0, 0, 0]
    = .ok (.msg [.bits 0, .bits 0] [0x0d, 0, 0, 0, 0]) := by
  simp [specUnmarshal, specDecodeInto, specDecodeLoop, consumeTag, consumeValue, consumeVarint,
    consumeVarintAux, c03Schema, emptyMsg, Schema.msg, findField, FieldDesc.zero, Kind.specWireType,
    Kind.isBlob, Val.slots, Val.unknown]

/-- concatenation: `c03Bytes = f{a:7} ++ f{b:9}`; the two halves decode separately and merge. -/
example : specUnmarshalStrict c03Schema {} 0 (emptyMsg c03Schema 0) [0x0a, 0x02, 0x08, 0x07]
    = .ok (.msg [.msg [.bits 7, .bits 0] []] []) := by rfl
example : specUnmarshalStrict c03Schema { merge := true } 0 (.msg [.msg [.bits 7, .bits 0] []] []) [0x0a, 0x02, 0x10, 0x09]
    = .ok (.msg [.msg [.bits 7, .bits 9] []] []) := by rfl
example : implUnmarshal c03Schema {} 0 (emptyMsg c03Schema 0) ([0x0a, 0x02, 0x08, 0x07] ++ [0x0a, 0x02, 0x10, 0x09])
    = .ok (.msg [.msg [.bits 7, .bits 9] []] []) :=
  C03_concat_eq_merge c03Schema (by decide) {} 0 _ _ _ _ _ (by decide) (by decide) (Or.inl rfl) (fun _ => rfl)
    (by rfl) (by rfl)

end Pulsar

#print axioms Pulsar.C03_strict_implies_reference
#print axioms Pulsar.C03_decode_eq_reference
#print axioms Pulsar.C03_decode_eq_reference_fresh
#print axioms Pulsar.C03_concat_reference
#print axioms Pulsar.C03_concat_strict
#print axioms Pulsar.C03_concat_eq_merge
#print axioms Pulsar.C03_concat_eq_two_steps
