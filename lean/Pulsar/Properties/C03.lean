/-
  C03 — Decoding any well-typed wire stream gives the reference result.
-/
import Pulsar.Proofs.DecodeRef
namespace Pulsar

/-- strict acceptance implies plain acceptance with the same value (WellTyped streams are in the
    reference decoder's domain). -/
theorem C03_strict_implies_reference (S : Schema) (o : UOpts) (i : Nat) (m0 : Val) (bs : Bytes) (v : Val)
    (h : specUnmarshalStrict S o i m0 bs = .ok v) : specUnmarshal S o i m0 bs = .ok v := sorry

/-- For every well-typed stream (records in any order and multiplicity, packed or unpacked, non-minimal
    varints, partial / duplicated / reordered map entries, unknown records anywhere), decoding into a
    generated message — fresh, or with Merge into any well-formed message — succeeds and yields exactly
    the reference decoder's value: last scalar wins, repeated concatenates, repeated singular / oneof
    message occurrences merge, a later oneof member replaces an earlier one, map entries take
    defaults / last value, unknown fields are retained in order. -/
theorem C03_decode_eq_reference (S : Schema) (hS : S.WF = true) (o : UOpts) (i : Nat) (m0 : Val) (bs : Bytes) (v : Val)
    (hi : i < S.msgs.length) (hl : bs.length < 9223372036854775808)
    (hm : o.merge = false ∨ msgOK S false (m0.depth + 1) i m0 = true)
    (h : specUnmarshalStrict S o i m0 bs = .ok v) :
    implUnmarshal S o i m0 bs = .ok v := sorry

end Pulsar
