/-
  C03 — Decoding any well-typed wire stream gives the reference result.
-/
import Pulsar.Proofs.DecodeRef
namespace Pulsar

/-- strict acceptance implies plain acceptance with the same value (WellTyped streams are in the
    reference decoder's domain). -/
theorem C03_strict_implies_reference (S : Schema) (o : UOpts) (i : Nat) (m0 : Val) (bs : Bytes) (v : Val)
    (h : specUnmarshalStrict S o i m0 bs = .ok v) : specUnmarshal S o i m0 bs = .ok v :=
  strict_implies_reference S o i m0 bs v h

/-- C03 with the receiver required to be non-nil (the only extra hypothesis; neither `S.WF` nor
    `i < S.msgs.length` is needed). Same `Val`, same nil/non-nil flags. -/
theorem C03_decode_eq_reference (S : Schema) (_hS : S.WF = true) (o : UOpts) (i : Nat) (m0 : Val)
    (bs : Bytes) (v : Val)
    (_hi : i < S.msgs.length) (hl : bs.length < 9223372036854775808)
    (hm : o.merge = false ∨ msgOK S false (m0.depth + 1) i m0 = true)
    (hnn : o.merge = false → m0.isNone = false)
    (h : specUnmarshalStrict S o i m0 bs = .ok v) :
    implUnmarshal S o i m0 bs = .ok v :=
  unmarshal_agree S o i m0 bs v hl hnn hm h

/-- The usual call: decoding into a fresh message. -/
theorem C03_decode_eq_reference_fresh (S : Schema) (o : UOpts) (i : Nat) (bs : Bytes) (v : Val)
    (ho : o.merge = false) (hl : bs.length < 9223372036854775808)
    (h : specUnmarshalStrict S o i (emptyMsg S i) bs = .ok v) :
    implUnmarshal S o i (emptyMsg S i) bs = .ok v :=
  unmarshal_agree S o i _ bs v hl (fun _ => rfl) (Or.inl ho) h

/-! ### non-vacuity -/

/-- msg0 { msg1 f = 1; }   msg1 { int32 a = 1; int32 b = 2; } -/
def c03Schema : Schema :=
  ⟨[⟨[⟨1, .message 1, .singular⟩]⟩, ⟨[⟨1, .scalar .int32, .singular⟩, ⟨2, .scalar .int32, .singular⟩]⟩]⟩

/-- `f{a:7} f{b:9}`: the singular message field occurs twice and must merge. -/
def c03Bytes : Bytes := [0x0a, 0x02, 0x08, 0x07, 0x0a, 0x02, 0x10, 0x09]

example : specUnmarshalStrict c03Schema {} 0 (emptyMsg c03Schema 0) c03Bytes
    = .ok (.msg [.msg [.bits 7, .bits 9] []] []) := by rfl

example : implUnmarshal c03Schema {} 0 (emptyMsg c03Schema 0) c03Bytes
    = .ok (.msg [.msg [.bits 7, .bits 9] []] []) :=
  C03_decode_eq_reference_fresh c03Schema {} 0 c03Bytes _ rfl (by decide) (by rfl)

example : WellTyped c03Schema 0 c03Bytes := by rfl

/-- msg0 { repeated int32 xs = 1 [packed]; map<int32,int32> m = 2; oneof { int32 p = 3; msg1 q = 4; } }
    msg1 { int32 a = 1; } -/
def c03Schema2 : Schema :=
  ⟨[⟨[⟨1, .scalar .int32, .repeated true⟩, ⟨2, .scalar .int32, .map .int32⟩,
      ⟨3, .scalar .int32, .oneof 0⟩, ⟨4, .message 1, .oneof 0⟩]⟩,
    ⟨[⟨1, .scalar .int32, .singular⟩]⟩]⟩

/-- packed run `xs:[1,2]`, unknown field 15 (varint 5), unpacked `xs:3`, map entry with the value
    before the key and a foreign record inside `{v:3, 9:0, k:1}`, oneof `p:5` then `q{a:7}`, `q{}`. -/
def c03Bytes2 : Bytes :=
  [0x0a, 0x02, 0x01, 0x02,  0x78, 0x05,  0x08, 0x03,
   0x12, 0x06, 0x10, 0x03, 0x48, 0x00, 0x08, 0x01,
   0x18, 0x05,  0x22, 0x02, 0x08, 0x07,  0x22, 0x00]

-- (`consumeValue` is defined by well-founded recursion, so this one is unfolded by `simp`, not `rfl`)
theorem c03_example2 : specUnmarshalStrict c03Schema2 {} 0 (emptyMsg c03Schema2 0) c03Bytes2
    = .ok (.msg [.list true [.bits 1, .bits 2, .bits 3], .map true [.entry (.bits 1) (.bits 3)],
                 .none, .one (.msg [.bits 7] [])] [0x78, 0x05]) := by
  simp [specUnmarshalStrict, specDecodeInto, specDecodeLoop, specEntryLoop, specPackedLoop, specReadScalar,
    consumeTag, consumeValue, consumeVarint, consumeVarintAux, c03Schema2, c03Bytes2, emptyMsg, Schema.msg,
    findField, FieldDesc.zero, Kind.specWireType, Kind.packable, Kind.isBlob, Val.slot, Val.slots,
    Val.setSlot, Val.elems, Val.unknown, mapPut, kbeqOf, clearGroup, FieldDesc.group?, Val.isNone,
    Val.getBits, Val.key]

example : implUnmarshal c03Schema2 {} 0 (emptyMsg c03Schema2 0) c03Bytes2
    = .ok (.msg [.list true [.bits 1, .bits 2, .bits 3], .map true [.entry (.bits 1) (.bits 3)],
                 .none, .one (.msg [.bits 7] [])] [0x78, 0x05]) :=
  C03_decode_eq_reference_fresh c03Schema2 {} 0 c03Bytes2 _ rfl (by decide) c03_example2

/-- a known field with a foreign wire type is outside the domain (strict) but inside the reference
    decoder's (kept as an unknown field): the premise of C03 is not trivially everything. -/
example : specUnmarshalStrict c03Schema {} 1 (emptyMsg c03Schema 1) [0x0d, 0, 0, 0, 0]
    = .err .wrongWireType := by rfl
example : specUnmarshal c03Schema {} 1 (emptyMsg c03Schema 1) [0x0d, 0, 0, 0, 0]
    = .ok (.msg [.bits 0, .bits 0] [0x0d, 0, 0, 0, 0]) := by
  simp [specUnmarshal, specDecodeInto, specDecodeLoop, consumeTag, consumeValue, consumeVarint,
    consumeVarintAux, c03Schema, emptyMsg, Schema.msg, findField, FieldDesc.zero, Kind.specWireType,
    Kind.isBlob, Val.slots, Val.unknown]

end Pulsar

#print axioms Pulsar.C03_strict_implies_reference
#print axioms Pulsar.C03_decode_eq_reference
#print axioms Pulsar.C03_decode_eq_reference_fresh
