/-
  C14 — Unknown fields are kept exactly, or dropped everywhere when asked.
-/
import Pulsar.Proofs.Decode
import Pulsar.Reflect
namespace Pulsar

/-- A record whose number is not a field of the message (and that `runtime.Skip` accepts: in particular
    every record protowire accepts, by C15_skip_len) is appended byte for byte to that message's unknown
    set, nothing else changes, and decoding continues right after it. -/
theorem C14_unknown_step (S : Schema) (i : Nat) (o : UOpts) (childDec : Nat → Val → Bytes → Res Val)
    (fuel : Nat) (m : Val) (rest : Bytes) (wire n : Nat) (r : Bytes)
    (hne : rest ≠ []) (hv : readVarint rest = .ok (wire, r))
    (hwt : wire % 8 ≠ 4) (hnum : (wire / 8) % 4294967296 ≠ 0 ∧ (wire / 8) % 4294967296 < 2147483648)
    (hunk : findField (S.msg i).fields ((wire / 8) % 4294967296) = none)
    (hs : skip rest = .ok n) (hn : n ≤ rest.length) (hd : o.discard = false) :
    implUnmarshalLoop S i o childDec (fuel + 1) m rest =
      implUnmarshalLoop S i o childDec fuel (Val.msg m.slots (m.unknown ++ rest.take n)) (rest.drop n) :=
  implUnmarshalLoop_unknown_step S i o childDec fuel m rest wire n r hne hv hwt hnum hunk hs hn hd

/-- No known field ever lands in the unknown set: handling a record of a declared field leaves the
    unknown bytes of that message untouched. -/
theorem C14_known_never_unknown (S : Schema) (fs : List FieldDesc) (childDec : Nat → Val → Bytes → Res Val)
    (j : Nat) (f : FieldDesc) (wt : Nat) (slots : List Val) (u : Bytes) (rest : Bytes) (m' : Val) (r' : Bytes)
    (h : implKnownField S fs childDec j f wt (Val.msg slots u) rest = .ok (m', r')) :
    m'.unknown = u :=
  implKnownField_unknown S fs childDec j f wt slots u rest m' r' h

/-- Re-encoding emits the unknown bytes unchanged after all known fields (reference and generated code). -/
theorem C14_reencode_unknown_last (S : Schema) (i : Nat) (child : Nat → Val → Bytes) (slots : List Val) (u : Bytes) :
    specEncodeLvl S i child (Val.msg slots u) = specEncodeLvl S i child (Val.msg slots []) ++ u :=
  specEncodeLvl_unknown_last S i child slots u

/-- With DiscardUnknown no unknown record survives at any depth and nothing else changes: decoding with
    the option equals decoding without it followed by erasing every unknown set (given a target that
    holds no unknown fields). -/
theorem C14_discard (S : Schema) (fuel : Nat) (depth : Int) (i : Nat) (bs : Bytes) :
    implUnmarshalClosure S { discard := true } fuel depth i (emptyMsg S i) bs =
      (match implUnmarshalClosure S { discard := false } fuel depth i (emptyMsg S i) bs with
       | .ok v => .ok (eraseUnknown S (v.depth + 1) i v)
       | .err e => .err e
       | .panic => .panic) :=
  implUnmarshalClosure_discard S fuel depth i bs


/-! ### GetUnknown / SetUnknown read and replace exactly that set -/

/-- `SetUnknown(b)` on a (non-nil) message replaces the unknown set by `b` and changes no field. -/
theorem C14_setUnknown_replaces (S : Schema) (i : Nat) (slots : List Val) (u b : Bytes) :
    Reflect.write S i (.msg slots u) (.setu b) = (.msg slots b, .ok) := rfl

/-- `GetUnknown` reads exactly the set (and `nil` on a nil receiver). -/
theorem C14_getUnknown_reads (S : Schema) (i : Nat) (s : Val) :
    Reflect.read S i s .getu = .unk s.unknown := rfl

/-- … so what `GetUnknown` returns after `SetUnknown(b)` is `b`, whatever the set was before, and the
    reference machine does the same. -/
theorem C14_get_after_set (S : Schema) (i : Nat) (slots : List Val) (u b : Bytes) :
    Reflect.read S i (Reflect.write S i (.msg slots u) (.setu b)).1 .getu = .unk b ∧
    SpecReflect.read S i (SpecReflect.write S i (.msg slots u) (.setu b)).1 .getu = .unk b := ⟨rfl, rfl⟩

/-- a nil receiver: `GetUnknown` is empty, `SetUnknown` panics (it is never silently dropped). -/
theorem C14_unknown_on_nil (S : Schema) (i : Nat) (b : Bytes) :
    Reflect.read S i .none .getu = .unk [] ∧ (Reflect.write S i .none (.setu b)).2 = .panic := ⟨rfl, rfl⟩

/-! ### Non-vacuity -/

/-- `message M { int32 a = 1; }` -/
def c14Schema : Schema := ⟨[⟨[⟨1, .scalar .int32, .singular⟩]⟩]⟩

/-- `a = 5` followed by the unknown record `2: 7` (`08 05 10 07`): accepted, the unknown record is retained
    byte for byte. -/
example : implUnmarshal c14Schema {} 0 (emptyMsg c14Schema 0) [0x08, 0x05, 0x10, 0x07] =
    .ok (.msg [.bits 5] [0x10, 0x07]) :=
  implUnmarshal_fresh_of_closure (by rfl)

/-- with DiscardUnknown it is dropped, and this is `eraseUnknown` of the retaining run (`C14_discard`). -/
example : implUnmarshalClosure c14Schema { discard := true } 5 10000 0 (emptyMsg c14Schema 0) [0x08, 0x05, 0x10, 0x07] =
    .ok (.msg [.bits 5] []) := by rfl
example : implUnmarshalClosure c14Schema { discard := false } 5 10000 0 (emptyMsg c14Schema 0) [0x08, 0x05, 0x10, 0x07] =
    .ok (.msg [.bits 5] [0x10, 0x07]) := by rfl
example : eraseUnknown c14Schema ((Val.msg [.bits 5] [0x10, 0x07]).depth + 1) 0 (.msg [.bits 5] [0x10, 0x07]) =
    .msg [.bits 5] [] := by rfl

/-- the hypotheses of `C14_unknown_step` are met by the record `10 07` (field 2, not declared). -/
example (childDec : Nat → Val → Bytes → Res Val) (fuel : Nat) (m : Val) :
    implUnmarshalLoop c14Schema 0 {} childDec (fuel + 1) m [0x10, 0x07] =
      implUnmarshalLoop c14Schema 0 {} childDec fuel (Val.msg m.slots (m.unknown ++ [0x10, 0x07])) [] :=
  C14_unknown_step c14Schema 0 {} childDec fuel m [0x10, 0x07] 16 2 [0x07]
    (by simp) (by rfl) (by decide) (by decide) (by decide) (by decide) (by decide) rfl

/-- the hypothesis of `C14_known_never_unknown` is met: field 1 handled, unknown bytes `aa` untouched. -/
example : (Val.msg [.bits 5] [0xaa]).unknown = [0xaa] :=
  C14_known_never_unknown c14Schema (c14Schema.msg 0).fields (fun _ v _ => .ok v) 0 ⟨1, .scalar .int32, .singular⟩ 0
    [.bits 0] [0xaa] [0x05] (.msg [.bits 5] [0xaa]) [] (by rfl)

#print axioms C14_unknown_step
#print axioms C14_known_never_unknown
#print axioms C14_reencode_unknown_last
#print axioms C14_discard

end Pulsar
#print axioms Pulsar.C14_setUnknown_replaces
#print axioms Pulsar.C14_getUnknown_reads
#print axioms Pulsar.C14_get_after_set
#print axioms Pulsar.C14_unknown_on_nil
