/-
  C14 — Unknown fields are kept exactly, or dropped everywhere when asked.
-/
import Pulsar.Proofs.Decode
namespace Pulsar

/-- A record whose number is not a field of the message (and that `runtime.Skip` accepts: in particular
    every record protowire accepts, by C15_skip_len) is appended byte for byte to that message's unknown
    set, nothing else changes, and decoding continues right after it. -/
theorem C14_unknown_step (S : Schema) (i : Nat) (o : UOpts) (childDec : Nat → Val → Bytes → Res Val)
    (fuel : Nat) (m : Val) (rest : Bytes) (wire n : Nat) (r : Bytes)
    (hne : rest ≠ []) (hv : readVarint rest = .ok (wire, r))
    (hwt : wire % 8 ≠ 4) (hnum : (wire / 8) % 4294967296 ≠ 0 ∧ (wire / 8) % 4294967296 < 2147483648)
    (hunk : findField (S.msg i).fields ((wire / 8) % 4294967296) = none)
    (hs : skip rest = .ok n) (hn : n ≤ rest.length) (hd : o.discard = false) :
    implUnmarshalLoop S i o childDec (fuel + 1) m rest =
      implUnmarshalLoop S i o childDec fuel (Val.msg m.slots (m.unknown ++ rest.take n)) (rest.drop n) := sorry

/-- No known field ever lands in the unknown set: handling a record of a declared field leaves the
    unknown bytes of that message untouched. -/
theorem C14_known_never_unknown (S : Schema) (fs : List FieldDesc) (childDec : Nat → Val → Bytes → Res Val)
    (j : Nat) (f : FieldDesc) (wt : Nat) (slots : List Val) (u : Bytes) (rest : Bytes) (m' : Val) (r' : Bytes)
    (h : implKnownField S fs childDec j f wt (Val.msg slots u) rest = .ok (m', r')) :
    m'.unknown = u := sorry

/-- Re-encoding emits the unknown bytes unchanged after all known fields (reference and generated code). -/
theorem C14_reencode_unknown_last (S : Schema) (i : Nat) (child : Nat → Val → Bytes) (slots : List Val) (u : Bytes) :
    specEncodeLvl S i child (Val.msg slots u) = specEncodeLvl S i child (Val.msg slots []) ++ u := sorry

/-- With DiscardUnknown no unknown record survives at any depth and nothing else changes: decoding with
    the option equals decoding without it followed by erasing every unknown set (given a target that
    holds no unknown fields). -/
theorem C14_discard (S : Schema) (fuel : Nat) (depth : Int) (i : Nat) (bs : Bytes) :
    implUnmarshalClosure S { discard := true } fuel depth i (emptyMsg S i) bs =
      (match implUnmarshalClosure S { discard := false } fuel depth i (emptyMsg S i) bs with
       | .ok v => .ok (eraseUnknown S (v.depth + 1) i v)
       | .err e => .err e
       | .panic => .panic) := sorry

end Pulsar
