/-
  C07 — Codec calls do not alias or disturb caller buffers (the part a value-semantic model can state).
  Memory aliasing between `[]byte`s is a property of Go memory that the model's immutable lists cannot
  express; it is decided on the real code by the scribble oracles of the `decode` and `codec` engines
  (overwrite the input after Unmarshal / the message after Marshal and re-read through three views).
  What the model can carry is the frame condition for read-only calls.
-/
import Pulsar.Properties.C11
namespace Pulsar

/-- Read-only calls (Size, Marshal in either mode, Has, Get, Range, WhichOneof, GetUnknown, every list
    and map read, at any nesting path) leave every field of the message's Go struct unchanged, down to
    nil-versus-empty containers (the `Val` representation records both). -/
theorem C07_reads_frame (S : Schema) (i : Nat) (s : Val) (op : Op) (h : op.isWrite = false) :
    (Reflect.step S i s op).1 = s := C11_reads_write_nothing S i s op h

/-- … for whole histories of reads. -/
theorem C07_read_history_frame (S : Schema) (i : Nat) (s : Val) (ops : List Op)
    (h : ∀ op ∈ ops, op.isWrite = false) : (Reflect.run S i s ops).1 = s := by
  rw [C11_read_history S i s ops h]

/-- Size and Marshal are functions of the message value only: they take no state and return none
    (`implSize`, `implMarshal` have no state result at all), so they cannot disturb the message; and
    decoding is a function of the input value: `implUnmarshal` has no access to the buffer afterwards. -/
theorem C07_codec_is_pure (S : Schema) (i : Nat) (v : Val) :
    (Reflect.step S i v (.r .size)).1 = v ∧ (Reflect.step S i v (.r .enc)).1 = v :=
  ⟨C11_reads_write_nothing _ _ _ _ rfl, C11_reads_write_nothing _ _ _ _ rfl⟩

end Pulsar

#print axioms Pulsar.C07_reads_frame
#print axioms Pulsar.C07_read_history_frame
#print axioms Pulsar.C07_codec_is_pure
