/-
  C06 (source level) — runtime.nestedRecursionLimit as TRANSLATED FROM /repo's runtime/runtime.go on this run
  (`Pulsar.Xf.runtime_nestedRecursionLimit`): the recursion budget handed to nested decodes is the model's
  `nestedLimit`, strictly decreasing, and an exhausted budget is negative (never 0, which proto.UnmarshalOptions
  would read as "default").
-/
import Pulsar.Proofs.GoSrcLimit
namespace Pulsar
open Pulsar

theorem C06_src_nestedRecursionLimit_is_model (d : Int)
    (hd : -9223372036854775808 ≤ d ∧ d ≤ 9223372036854775807) :
    Xf.runtime_nestedRecursionLimit d = .ok (nestedLimit d) :=
  src_nestedRecursionLimit d hd

/-- the budget strictly decreases along a nesting chain and never becomes the "unset" value 0 -/
theorem C06_src_budget_decreases (d : Int) (hd : 0 < d ∧ d ≤ 9223372036854775807) :
    ∃ r, Xf.runtime_nestedRecursionLimit d = .ok r ∧ r < d ∧ r ≠ 0 := by
  refine ⟨nestedLimit d, src_nestedRecursionLimit d ⟨by omega, hd.2⟩, ?_, ?_⟩ <;>
    (unfold nestedLimit; simp only []; split <;> split <;> omega)

/-- an unset budget (0) is the protobuf-go default -/
theorem C06_src_budget_default : Xf.runtime_nestedRecursionLimit 0 = .ok 9999 := by
  rw [src_nestedRecursionLimit 0 (by decide)]; decide

end Pulsar

#print axioms Pulsar.C06_src_nestedRecursionLimit_is_model
#print axioms Pulsar.C06_src_budget_decreases
