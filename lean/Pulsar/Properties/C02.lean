/-
  C02 — Deterministic encoding is byte-identical to the reference encoder.
  Property theorems only; helper lemmas live in Pulsar/Proofs/Encode*.lean.
-/
import Pulsar.Proofs.Encode
namespace Pulsar

/-- `encodeKey` emits exactly the protowire tag for every valid field number. -/
theorem C02_keyBytes_eq_tag (num wt : Nat) (hn : num < 536870912) (hw : wt < 8) :
    keyBytes num wt = tag num wt := sorry

/-- the generator's wire-type table (extracted from generator/helpers.go) is the wire-format one. -/
theorem C02_wireType_table (k : Kind) : Extracted.wireType k = k.specWireType ∧ Extracted.messageWireType = 2 := sorry

/-- For every schema, every well-typed value (no Go-only nil junk), any map iteration order the Go
    runtime may choose: deterministic proto.Marshal of the generated message succeeds and returns exactly
    the reference encoder's bytes (fields ascending by number, then oneof members by oneof declaration
    index, then unknown fields; map entries sorted by key; packed per descriptor; minimal varints;
    proto3 defaults omitted). -/
theorem C02_det_eq_reference (S : Schema) (hS : S.WF = true) (fuel i : Nat) (v : Val)
    (π : List Val → List Val) (hi : i < S.msgs.length) (hv : msgOK S false fuel i v = true) :
    implMarshal S ⟨true, π⟩ fuel i v = .ok (specEncode S fuel i v) := sorry

end Pulsar
