/-
  C02 — Deterministic encoding is byte-identical to the reference encoder.
  Property theorems only; helper lemmas live in Pulsar/Proofs/Encode*.lean.
-/
import Pulsar.Proofs.Encode
namespace Pulsar

/-- `encodeKey` emits exactly the protowire tag for every valid field number. -/
theorem C02_keyBytes_eq_tag (num wt : Nat) (hn : num < 536870912) (hw : wt < 8) :
    keyBytes num wt = tag num wt := keyBytes_eq_tag num wt hn hw

/-- the generator's wire-type table (extracted from generator/helpers.go) is the wire-format one. -/
theorem C02_wireType_table (k : Kind) : Extracted.wireType k = k.specWireType ∧ Extracted.messageWireType = 2 :=
  ⟨wireType_eq_spec k, rfl⟩

/-- For every schema, every well-typed value (no Go-only nil junk), any map iteration order the Go
    runtime may choose: deterministic proto.Marshal of the generated message succeeds and returns exactly
    the reference encoder's bytes (fields ascending by number, then oneof members by oneof declaration
    index, then unknown fields; map entries sorted by key; packed per descriptor; minimal varints;
    proto3 defaults omitted). -/
theorem C02_det_eq_reference (S : Schema) (hS : S.WF = true) (fuel i : Nat) (v : Val)
    (π : List Val → List Val) (hi : i < S.msgs.length) (hv : msgOK S false fuel i v = true) :
    implMarshal S ⟨true, π⟩ fuel i v = .ok (specEncode S fuel i v) := by
  obtain ⟨h1, _, _, h4⟩ := marshal_ok hS ⟨true, π⟩ (fun kk es => sortEntries_perm kk es) fuel i v hi hv
  rw [h1, h4 rfl]

/-! ### axioms -/
#print axioms C02_keyBytes_eq_tag
#print axioms C02_wireType_table
#print axioms C02_det_eq_reference

/-! ### non-vacuity: a concrete well-formed schema and a well-typed value with every shape populated
    (map entries stored out of key order, an active message-typed oneof member, unknown bytes) -/
section NonVacuity
open Example

example : exS.WF = true ∧ (0 < exS.msgs.length) ∧ msgOK exS false 2 0 exV = true :=
  ⟨exS_wf, by decide, exV_ok⟩

example (π : List Val → List Val) :
    implMarshal exS ⟨true, π⟩ 2 0 exV = .ok (specEncode exS 2 0 exV) :=
  C02_det_eq_reference exS exS_wf 2 0 exV π (by decide) exV_ok

/-- the largest valid field number with the largest wire type still fits the 32-bit key arithmetic -/
example : keyBytes 536870911 5 = tag 536870911 5 := C02_keyBytes_eq_tag _ _ (by decide) (by decide)

end NonVacuity

end Pulsar
