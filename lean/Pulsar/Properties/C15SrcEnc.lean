/-
  C15 (source level) — runtime.EncodeVarint as TRANSLATED FROM /repo's runtime/runtime.go on this run
  (`Pulsar.Xf.runtime_EncodeVarint`, loop as a fuel-recursive helper with fuel 10) stores exactly the minimal varint
  ending at the offset, touches no other byte, returns `offset - Sov(v)` and panics exactly when the varint does not
  fit in front of the offset inside the buffer.
-/
import Pulsar.Proofs.GoSrcEncodeVarint
namespace Pulsar
open Pulsar

theorem C15_src_EncodeVarint_writes_minimal_varint (d : Bytes) (off v : Nat)
    (ho : off < 9223372036854775000) (hv : v < 18446744073709551616) :
    Xf.runtime_EncodeVarint d (off : Int) v =
      if sov v ≤ off ∧ off ≤ d.length
      then .ok (d.take (off - sov v) ++ varint v ++ d.drop off, ((off - sov v : Nat) : Int))
      else .panic := by
  rw [src_EncodeVarint d off v ho hv, encodeVarint_spec]

/-- in particular the loop never runs out of the fuel the translation gave it (`.err .other` is never the outcome) -/
theorem C15_src_EncodeVarint_fuel_suffices (d : Bytes) (off v : Nat)
    (ho : off < 9223372036854775000) (hv : v < 18446744073709551616) :
    Xf.runtime_EncodeVarint d (off : Int) v ≠ .err .other := by
  rw [C15_src_EncodeVarint_writes_minimal_varint d off v ho hv]
  split <;> simp

theorem C15_src_EncodeVarint_is_model (d : Bytes) (off v : Nat)
    (ho : off < 9223372036854775000) (hv : v < 18446744073709551616) :
    Xf.runtime_EncodeVarint d (off : Int) v = encodeVarint d off v :=
  src_EncodeVarint d off v ho hv

end Pulsar

#print axioms Pulsar.C15_src_EncodeVarint_writes_minimal_varint
#print axioms Pulsar.C15_src_EncodeVarint_fuel_suffices
