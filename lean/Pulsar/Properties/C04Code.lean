/-
  C04, the part tied to the source by extraction: `implSize` is a function of the current message VALUE. The Go
  size closure could additionally consult state kept in the message object between calls (the `sizeCache` field
  protobuf-go's own generated code uses) or in the runtime package; a stale cache makes Size / Marshal disagree
  for an object that was changed in place. `Pulsar.ExtractedCode` (regenerated on every run by harness/cmd/vfacts):
  no statement on a size / marshal closure writes through the message (`readPathWrites`), none hands the address
  of message memory to a helper (`readPathEscapes`), and the runtime package has no package-level variable other
  than error values (`runtimeState`).

  Trusted: the extractor. Run-time side: the object-reuse oracle of the codec engine (size / marshal of an object
  changed in place must equal those of a fresh object holding the same value).
-/
import Pulsar.ExtractedCode
namespace Pulsar
open ExtractedCode

theorem C04_extracted_size_keeps_no_cache :
    readPathWrites = [] ∧ readPathEscapes = [] ∧ runtimeState = [] ∧ errors = [] := by decide

#print axioms C04_extracted_size_keeps_no_cache
end Pulsar
