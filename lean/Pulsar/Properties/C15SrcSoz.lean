/-
  C15 (source level) — runtime.Soz as TRANSLATED FROM /repo's runtime/runtime.go on this run (`Pulsar.Xf.runtime_Soz`)
  computes exactly the size of the zig-zag encoding, for every 64-bit pattern.
-/
import Pulsar.Proofs.GoSrcSoz
namespace Pulsar
open Pulsar

/-- the translated `Soz` never fails and equals the size of the zig-zag encoding, for every uint64 pattern -/
theorem C15_src_Soz_eq (x : Nat) (hx : x < 18446744073709551616) :
    Xf.runtime_Soz x = .ok ((varint (zigzag64 x)).length : Int) := by
  rw [src_Soz x hx, soz_eq_varint_length x hx]

theorem C15_src_Soz_is_model (x : Nat) (hx : x < 18446744073709551616) : Xf.runtime_Soz x = .ok (soz x : Int) :=
  src_Soz x hx

end Pulsar

#print axioms Pulsar.C15_src_Soz_eq
