/-
  C16 — anyutil packs and unpacks every message faithfully and never panics.
-/
import Pulsar.Anyutil
namespace Pulsar.Anyutil
open Pulsar

/-- Packing yields the URL "/" ++ full name (no host prefix) and the encoding as value. -/
theorem C16_pack_url_value (dst : AnyVal) (name : String) (b : Bytes) :
    marshalFrom dst (some name) (.ok b) = (.ok ⟨"/" ++ name, b⟩, ⟨"/" ++ name, b⟩) := rfl

/-- A failed pack (nil source, or the encoder failing) leaves the destination untouched. -/
theorem C16_pack_failure_leaves_dst (dst : AnyVal) (src : Option String) (enc : Res Bytes)
    (h : ∀ d, (marshalFrom dst src enc).1 ≠ .ok d) : (marshalFrom dst src enc).2 = dst := by
  unfold marshalFrom at *
  cases src with
  | none => rfl
  | some n =>
    cases enc with
    | ok b => exact absurd rfl (h _)
    | err e => rfl
    | panic => rfl

/-- Unpack never panics, whatever the Any and whatever the resolvers answer, as long as decoding
    itself does not panic (C06). -/
theorem C16_unpack_no_panic {M : Type} (any : AnyVal) (types files : String → Lookup)
    (decode : String → Bytes → Res M) (hd : ∀ n b, decode n b ≠ .panic) :
    (unpack any types files decode).isPanic = false := by
  unfold unpack
  have fin : ∀ name dyn,
      (if urlName any.typeUrl = name then
        (match decode name any.value with
         | .ok m => (.ok ⟨name, dyn, m⟩ : Res (Unpacked M))
         | .err e => .err e
         | .panic => .panic)
       else .err .other).isPanic = false := by
    intro name dyn
    split
    · have := hd name any.value
      cases h : decode name any.value <;> simp_all [Res.isPanic]
    · rfl
  cases types any.typeUrl with
  | message name => exact fin name false
  | notFound =>
    cases files (trimSlash any.typeUrl) with
    | message name => exact fin name true
    | nonMessage => rfl
    | notFound => rfl
    | otherErr => rfl
  | nonMessage => rfl
  | otherErr => rfl

/-- the name after the last '/' of "/" ++ n is n when n contains no '/' (proto full names never do) -/
theorem urlName_pack (n : String) (h : '/' ∉ n.toList) : urlName ("/" ++ n) = n := by
  unfold urlName
  have hl : ("/" ++ n).toList = '/' :: n.toList := by simp [String.toList_append]
  rw [hl, List.reverse_cons]
  have : (n.toList.reverse ++ ['/']).takeWhile (· ≠ '/') = n.toList.reverse := by
    have hall : ∀ c ∈ n.toList.reverse, (decide (c ≠ '/')) = true := by
      intro c hc; simp at hc ⊢; intro hEq; exact h (hEq ▸ hc)
    rw [List.takeWhile_append_of_pos hall]
    simp
  rw [this, List.reverse_reverse]
  simp

theorem trimSlash_pack (n : String) : trimSlash ("/" ++ n) = n := by
  unfold trimSlash
  have hl : ("/" ++ n).toList = '/' :: n.toList := by simp [String.toList_append]
  rw [hl]
  simp

/-- Round trip through the type registry: unpacking a packed message returns that message (given the
    codec round trip, C01) as its registered Go type. -/
theorem C16_roundtrip_types {M : Type} (dst : AnyVal) (name : String) (b : Bytes) (m : M)
    (types files : String → Lookup) (decode : String → Bytes → Res M)
    (hname : '/' ∉ name.toList)
    (hreg : types ("/" ++ name) = .message name) (hrt : decode name b = .ok m) :
    unpack (marshalFrom dst (some name) (.ok b)).2 types files decode = .ok ⟨name, false, m⟩ := by
  simp only [marshalFrom, unpack, hreg, urlName_pack name hname, hrt, if_true]

/-- Round trip through the file registry when the type registry does not know the type: a dynamic
    message of the same type with the same content. -/
theorem C16_roundtrip_files {M : Type} (dst : AnyVal) (name : String) (b : Bytes) (m : M)
    (types files : String → Lookup) (decode : String → Bytes → Res M)
    (hname : '/' ∉ name.toList)
    (hnot : types ("/" ++ name) = .notFound) (hfile : files name = .message name)
    (hrt : decode name b = .ok m) :
    unpack (marshalFrom dst (some name) (.ok b)).2 types files decode = .ok ⟨name, true, m⟩ := by
  simp only [marshalFrom, unpack, hnot, trimSlash_pack, hfile, urlName_pack name hname, hrt, if_true]

/-- The two paths agree on the message. -/
theorem C16_paths_agree {M : Type} (dst : AnyVal) (name : String) (b : Bytes) (m : M)
    (types₁ types₂ files : String → Lookup) (decode : String → Bytes → Res M)
    (hname : '/' ∉ name.toList)
    (h1 : types₁ ("/" ++ name) = .message name)
    (h2 : types₂ ("/" ++ name) = .notFound) (hfile : files name = .message name)
    (hrt : decode name b = .ok m) :
    ∃ u₁ u₂, unpack (marshalFrom dst (some name) (.ok b)).2 types₁ files decode = .ok u₁ ∧
             unpack (marshalFrom dst (some name) (.ok b)).2 types₂ files decode = .ok u₂ ∧
             u₁.msg = u₂.msg ∧ u₁.typeName = u₂.typeName := by
  refine ⟨⟨name, false, m⟩, ⟨name, true, m⟩, ?_, ?_, rfl, rfl⟩
  · exact C16_roundtrip_types dst name b m types₁ files decode hname h1 hrt
  · exact C16_roundtrip_files dst name b m types₂ files decode hname h2 hfile hrt

/-- Unknown, malformed or non-message type URLs are reported as errors. -/
theorem C16_bad_url_is_error {M : Type} (any : AnyVal) (types files : String → Lookup)
    (decode : String → Bytes → Res M)
    (ht : types any.typeUrl = .notFound)
    (hf : files (trimSlash any.typeUrl) ≠ .message (urlName any.typeUrl) ∧
          ∀ n, files (trimSlash any.typeUrl) = .message n → urlName any.typeUrl ≠ n) :
    ∃ e, unpack any types files decode = .err e := by
  unfold unpack
  rw [ht]
  cases hfl : files (trimSlash any.typeUrl) with
  | message n =>
    have := hf.2 n hfl
    simp [this]
  | nonMessage => exact ⟨_, rfl⟩
  | notFound => exact ⟨_, rfl⟩
  | otherErr => exact ⟨_, rfl⟩

-- non-vacuity
example : unpack (M := Nat) ⟨"/Enumeration", []⟩ (fun _ => .notFound) (fun _ => .nonMessage) (fun _ _ => .ok 0)
    = .err .other := rfl
example : urlName "/testpb.A" = "testpb.A" := by decide
example : urlName "type.googleapis.com/testpb.A" = "testpb.A" := by decide

end Pulsar.Anyutil

#print axioms Pulsar.Anyutil.C16_pack_url_value
#print axioms Pulsar.Anyutil.C16_pack_failure_leaves_dst
#print axioms Pulsar.Anyutil.C16_unpack_no_panic
#print axioms Pulsar.Anyutil.C16_roundtrip_types
#print axioms Pulsar.Anyutil.C16_roundtrip_files
#print axioms Pulsar.Anyutil.C16_paths_agree
#print axioms Pulsar.Anyutil.C16_bad_url_is_error
