/-
  C13 — Code generation is deterministic and hermetic.

  Every `range` over a Go map in the generator is a permutation parameter of the model (`Pulsar.Gen`);
  the theorems say that the answer does not depend on it. Absence of *other* sources of nondeterminism
  in the Go code is not provable from a model of the known ones (DESIGN §3 C13, partial).
-/
import Pulsar.Proofs.Gen
namespace Pulsar.Gen
open Pulsar

/-! ### features: map → sort by name -/

/-- Whatever order `range required` yields, the features run in the same order. -/
theorem C13_features_order_independent (reg : List (String × Bool)) (names : List String)
    (o₁ o₂ : List (String × Bool) → List (String × Bool))
    (h₁ : ∀ l, (o₁ l).Perm l) (h₂ : ∀ l, (o₂ l).Perm l) (hreg : (reg.map (·.1)).Nodup) :
    findFeatures reg names o₁ = findFeatures reg names o₂ :=
  findFeatures_order_independent reg names o₁ o₂ h₁ h₂ hreg

/-- instance for the features the plugin registers -/
theorem C13_registered_features_order_independent (names : List String)
    (o₁ o₂ : List (String × Bool) → List (String × Bool))
    (h₁ : ∀ l, (o₁ l).Perm l) (h₂ : ∀ l, (o₂ l).Perm l) :
    findFeatures registered names o₁ = findFeatures registered names o₂ :=
  findFeatures_order_independent registered names o₁ o₂ h₁ h₂ (by decide)

/-- the running order is ascending by name, without repetitions -/
theorem C13_features_sorted (reg : List (String × Bool)) (names : List String)
    (o : List (String × Bool) → List (String × Bool)) (ho : ∀ l, (o l).Perm l)
    (hreg : (reg.map (·.1)).Nodup) (fs : List (String × Bool)) (h : findFeatures reg names o = .ok fs) :
    fs.Pairwise (fun a b => a.1 < b.1) := by
  unfold findFeatures at h
  cases hc : collect reg names false [] with
  | error e => rw [hc] at h; cases h
  | ok r =>
    rw [hc] at h
    injection h with h
    subst h
    have hk := collect_keys_nodup reg hreg names false [] r (by simp [keys]) hc
    apply sortByName_sorted
    unfold keys at *
    exact ((ho r).map _).nodup_iff.2 hk

/-- the whole run (which files come back) does not depend on the map order either -/
theorem C13_run_order_independent (flag : Option String) (files : List FileIn)
    (o₁ o₂ : List (String × Bool) → List (String × Bool))
    (h₁ : ∀ l, (o₁ l).Perm l) (h₂ : ∀ l, (o₂ l).Perm l) :
    runPlugin flag files o₁ = runPlugin flag files o₂ := by
  unfold runPlugin
  rw [C13_registered_features_order_independent _ o₁ o₂ h₁ h₂]

/-! ### message index: scan of a pointer-keyed map -/

/-- When full names are unique within the file, the index found by ranging over `AllMessagesByPtr`
    does not depend on the iteration order (for any target, found or not). -/
theorem C13_message_index_order_independent (tops : List MsgTree) (target : Pos)
    (o₁ o₂ : List (Pos × Nat) → List (Pos × Nat))
    (h₁ : ∀ l, (o₁ l).Perm l) (h₂ : ∀ l, (o₂ l).Perm l)
    (hu : fullNamesUnique tops = true) :
    msgIndex o₁ tops target = msgIndex o₂ tops target := by
  have hu' : (allMessages tops).Nodup := by simpa [fullNamesUnique] using hu
  unfold msgIndex
  apply scanLast_perm _ ((h₁ _).trans (h₂ _).symm)
  intro e he e' he' hp hp'
  have hn : fullName tops e.1 = fullName tops e'.1 := by
    have a : fullName tops e.1 = fullName tops target := by simpa using hp
    have b : fullName tops e'.1 = fullName tops target := by simpa using hp'
    rw [a, b]
  exact byPtr_unique hu' ((h₁ _).mem_iff.1 he) ((h₁ _).mem_iff.1 he') hn

/-- The hypothesis is needed (statement false without it): the loop has no `break`, so with two messages
    of the same full name the last one in iteration order wins. protoc rejects such files, so no valid
    request reaches this. -/
theorem C13_message_index_order_dependent_on_duplicates :
    ∃ (tops : List MsgTree) (target : Pos), fullNamesUnique tops = false ∧
      msgIndex id tops target ≠ msgIndex List.reverse tops target :=
  ⟨[.node "A" [], .node "A" []], [0], by decide, by decide⟩

/-! ### hermeticity: one file's outcome vs. the other files of the request -/

/-- The decision for a file (emitted or not, and which features write into it) is a function of the
    file's own flags and the feature list: the state left by the files generated before it (`seen`) and
    the set of co-generated packages (`local`) do not enter. -/
theorem C13_file_content_independent_of_cogenerated (feats : List (String × Bool)) (f : FileIn)
    (seen₁ seen₂ : List (String × Nat)) (local₁ local₂ : List String) :
    (generateFile feats seen₁ local₁ f).1.emitted = (generateFile feats seen₂ local₂ f).1.emitted ∧
    (generateFile feats seen₁ local₁ f).1.ran = (generateFile feats seen₂ local₂ f).1.ran := by
  simp [generateFile_emitted, generateFile_ran]

/-- The same inside whole requests: `f` generated together with any files before and after it. -/
theorem C13_file_outcome_in_any_request (feats : List (String × Bool)) (f : FileIn)
    (pre₁ post₁ pre₂ post₂ : List FileIn) (seen₁ seen₂ : List (String × Nat)) (local₁ local₂ : List String) :
    ((generateAll feats local₁ seen₁ (pre₁ ++ f :: post₁))[pre₁.length]?).map (fun o => (o.emitted, o.ran)) =
    ((generateAll feats local₂ seen₂ (pre₂ ++ f :: post₂))[pre₂.length]?).map (fun o => (o.emitted, o.ran)) := by
  obtain ⟨s₁, e₁⟩ := generateAll_get feats local₁ f post₁ pre₁ seen₁
  obtain ⟨s₂, e₂⟩ := generateAll_get feats local₂ f post₂ pre₂ seen₂
  rw [e₁, e₂]
  simp [generateFile_emitted, generateFile_ran]

/-- What DOES depend on the files generated before: whether `GenerateHelpers` is invoked (once per Go
    import path and feature). Both registered features implement it as a no-op
    (fast_plugin.go `// no helpers needed here yet`, protoc/feature.go `//noop`), so no emitted byte
    depends on it today; a feature with real helpers would make the first file of a package differ. -/
theorem C13_helpers_call_depends_on_cogenerated :
    (generateFile [("fast", true)] [] [] ⟨true, true, "p", "pkg"⟩).1.helpers ≠
    (generateFile [("fast", true)] [("p", 0)] [] ⟨true, true, "p", "pkg"⟩).1.helpers := by
  decide

-- non-vacuity
def c13tops : List MsgTree := [.node "A" [.node "B" [.node "C" []], .node "D" []], .node "E" []]
example : fullNamesUnique c13tops = true := by decide
example : msgIndex id c13tops [0, 0, 0] = some 4 := by decide
example : msgIndex List.reverse c13tops [0, 0, 0] = some 4 := by decide
example : msgIndex id [.node "A" [], .node "A" []] [0] = some 1 := by decide
example : msgIndex List.reverse [.node "A" [], .node "A" []] [0] = some 0 := by decide
example : findFeatures registered ["protoc", "fast"] id = findFeatures registered ["protoc", "fast"] List.reverse := rfl
example : (generateAll [("fast", true)] [] [] [⟨true, true, "p", "a"⟩, ⟨true, true, "p", "a"⟩]).map (·.helpers) = [[0], []] := by decide
example : (generateAll [("fast", true)] [] [] [⟨true, true, "p", "a"⟩, ⟨true, true, "p", "a"⟩]).map (·.emitted) = [true, true] := by decide
-- emission order of the marshal closure for `{1: singular, 5: oneof 0, 3: singular, 2: oneof 0}`: oneof members, then 3, 1
example : marshalEmitOrder [⟨1, .scalar .int32, .singular⟩, ⟨5, .scalar .int32, .oneof 0⟩,
    ⟨3, .scalar .bool, .singular⟩, ⟨2, .scalar .string, .oneof 0⟩] = [5, 2, 3, 1] := by decide

end Pulsar.Gen

#print axioms Pulsar.Gen.C13_features_order_independent
#print axioms Pulsar.Gen.C13_registered_features_order_independent
#print axioms Pulsar.Gen.C13_features_sorted
#print axioms Pulsar.Gen.C13_run_order_independent
#print axioms Pulsar.Gen.C13_message_index_order_independent
#print axioms Pulsar.Gen.C13_message_index_order_dependent_on_duplicates
#print axioms Pulsar.Gen.C13_file_content_independent_of_cogenerated
#print axioms Pulsar.Gen.C13_file_outcome_in_any_request
#print axioms Pulsar.Gen.C13_helpers_call_depends_on_cogenerated
