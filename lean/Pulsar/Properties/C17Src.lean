/-
  C17 (source level) — support/timepb/cmp.go as TRANSLATED on this run (`Pulsar.Xf.timepb_*`, written by
  /verif/tools/go2lean into Pulsar/ExtractedFns.lean): the property's clauses stated directly about the translated
  Go text. Between these statements and the Go source stands only the translator (types and constants come from
  go/types); `time.Time` (AddStd) is outside the translated fragment and stays with the behavioural tie.
-/
import Pulsar.Proofs.GoSrcTimepb
import Pulsar.Properties.C17
namespace Pulsar.Timepb
open Pulsar

/-- a valid Duration is a value of the message type (seconds an int64, nanos an int32) -/
theorem ValidDur.inRange {d : SN} (h : ValidDur d) : InRange d := by
  unfold ValidDur at h; unfold InRange; omega

/-- the translated functions are the hand-written models, on all values of the message types (nil included):
    seconds any int64, nanos any int32 -/
theorem C17_src_Compare_is_model (a b : Option SN) (ha : InR a) (hb : InR b) :
    Xf.timepb_Compare a b = compareOpt a b := src_Compare a b ha hb
theorem C17_src_Add_is_model (t : Option SN) (d : SN) (ht : InR t) (hd : InRange d) :
    Xf.timepb_Add t (some d) = add t d := src_Add t d ht hd

theorem inR_some {t : SN} (h : InRange t) : InR (some t) := fun v hv => by cases hv; exact h

/-- exact and normalised: for valid t and d the translated `Add` returns the normalised representation of t + d -/
theorem C17_src_add_exact (t d : SN) (ht : ValidTS t) (hd : ValidDur d) :
    ∃ r, Xf.timepb_Add (some t) (some d) = .ok (some r) ∧ inst r = inst t + inst d ∧ Normalised r := by
  obtain ⟨r, h, hi⟩ := C17_add_exact t d ht hd
  exact ⟨r, by rw [src_Add _ _ (inR_some ht.inRange) hd.inRange]; exact h, hi, C17_add_normalised t d r ht hd h⟩

/-- when the exact seconds sum does not fit in an int64 the translated `Add` panics … -/
theorem C17_src_add_overflow_panics (t d : SN) (ht : InRange t) (hn : Normalised t) (hd : ValidDur d)
    (hov : let total := inst t + inst d
           total / 1000000000 < -9223372036854775808 ∨ total / 1000000000 > 9223372036854775807) :
    Xf.timepb_Add (some t) (some d) = .panic := by
  rw [src_Add _ _ (inR_some ht) hd.inRange]; exact C17_add_overflow_panics t d ht hn hd hov

/-- … and whenever it returns, the value is exact and normalised: no wrapped value is ever returned -/
theorem C17_src_add_no_wrap (t d r : SN) (ht : InRange t) (hn : Normalised t) (hd : ValidDur d)
    (h : Xf.timepb_Add (some t) (some d) = .ok (some r)) : inst r = inst t + inst d ∧ Normalised r := by
  rw [src_Add _ _ (inR_some ht) hd.inRange] at h; exact C17_add_no_wrap t d r ht hn hd h

/-- nil in, nil out -/
theorem C17_src_add_nil (d : SN) (hd : InRange d) : Xf.timepb_Add none (some d) = .ok none := by
  rw [src_Add _ _ (fun v hv => by cases hv) hd]; rfl

/-- the translated `Compare` orders normalised timestamps as their instants -/
theorem C17_src_compare_chronological (a b : SN) (ha : InRange a) (hb : InRange b)
    (hna : Normalised a) (hnb : Normalised b) :
    ∃ c, Xf.timepb_Compare (some a) (some b) = .ok c ∧
      (c = -1 ↔ inst a < inst b) ∧ (c = 0 ↔ inst a = inst b) ∧ (c = 1 ↔ inst a > inst b) :=
  ⟨compare a b, by rw [src_Compare _ _ (inR_some ha) (inR_some hb)]; rfl, C17_compare_chronological a b hna hnb⟩

/-- `Compare` panics on nil (documented behaviour) -/
theorem C17_src_compare_nil (a : Option SN) (ha : InR a) :
    Xf.timepb_Compare none a = .panic ∧ Xf.timepb_Compare a none = .panic := by
  constructor
  · rw [src_Compare _ _ (fun v hv => by cases hv) ha]; cases a <;> rfl
  · rw [src_Compare _ _ ha (fun v hv => by cases hv)]; cases a <;> rfl

/-! non-vacuity through the translated code -/
example : Xf.timepb_Add (some ⟨10, 0⟩) (some ⟨0, -5⟩) = .ok (some ⟨9, 999999995⟩) := by
  rw [src_Add _ _ (inR_some (by unfold InRange; decide)) (by unfold InRange; decide)]; decide
example : Xf.timepb_Add (some ⟨9223372036854775807, 1000⟩) (some ⟨0, 999999999⟩) = .panic := by
  rw [src_Add _ _ (inR_some (by unfold InRange; decide)) (by unfold InRange; decide)]; decide

end Pulsar.Timepb

#print axioms Pulsar.Timepb.C17_src_add_exact
#print axioms Pulsar.Timepb.C17_src_add_overflow_panics
#print axioms Pulsar.Timepb.C17_src_add_no_wrap
#print axioms Pulsar.Timepb.C17_src_compare_chronological
