/-
  C17 — timepb arithmetic is exact and normalised; Compare is chronological.
  Property theorems only; helper lemmas live in Pulsar/Proofs/Timepb.lean.
-/
import Pulsar.Proofs.Timepb
namespace Pulsar.Timepb
open Pulsar

/-- For valid t and d, Add does not panic and returns a value denoting exactly t + d. -/
theorem C17_add_exact (t d : SN) (ht : ValidTS t) (hd : ValidDur d) :
    ∃ r, add (some t) d = .ok (some r) ∧ inst r = inst t + inst d :=
  ⟨_, add_valid ht hd, inst_addStdSpec t (inst d)⟩

/-- … in normalised form (nanos within [0,1e9)). -/
theorem C17_add_normalised (t d r : SN) (ht : ValidTS t) (hd : ValidDur d)
    (h : add (some t) d = .ok (some r)) : Normalised r := by
  rw [add_ok_inv ht.inRange ht.normalised hd h]
  exact normalised_addStdSpec t (inst d)

/-- … hence a valid Timestamp whenever the instant is representable (year 0001..9999). -/
theorem C17_add_valid (t d r : SN) (ht : ValidTS t) (hd : ValidDur d)
    (h : add (some t) d = .ok (some r))
    (hrep : -62135596800 * 1000000000 ≤ inst t + inst d ∧ inst t + inst d < (253402300799 + 1) * 1000000000) :
    ValidTS r := by
  have hr := add_ok_inv ht.inRange ht.normalised hd h
  subst hr
  simp only [addStdSpec, ValidTS]
  omega

/-- Add agrees with AddStd (exact `time` arithmetic) for valid inputs. -/
theorem C17_add_eq_addStd (t d : SN) (ht : ValidTS t) (hd : ValidDur d) :
    add (some t) d = .ok (some (addStdSpec t (inst d))) :=
  add_valid ht hd

/-- When the exact seconds sum does not fit in an int64, Add panics (for normalised t, valid d, any seconds). -/
theorem C17_add_overflow_panics (t d : SN) (ht : InRange t) (hn : Normalised t) (hd : ValidDur d)
    (hov : let total := inst t + inst d
           total / 1000000000 < -9223372036854775808 ∨ total / 1000000000 > 9223372036854775807) :
    add (some t) d = .panic :=
  (add_main t d ht hn hd).1 hov

/-- … and when it does fit, the result is exact and normalised (no wrapped value is ever returned). -/
theorem C17_add_no_wrap (t d r : SN) (ht : InRange t) (hn : Normalised t) (hd : ValidDur d)
    (h : add (some t) d = .ok (some r)) : inst r = inst t + inst d ∧ Normalised r := by
  rw [add_ok_inv ht hn hd h]
  exact ⟨inst_addStdSpec t (inst d), normalised_addStdSpec t (inst d)⟩

/-- nil in, nil out. -/
theorem C17_add_nil (d : SN) : add none d = .ok none := rfl

/-- Compare orders normalised timestamps exactly as their instants. -/
theorem C17_compare_chronological (a b : SN) (ha : Normalised a) (hb : Normalised b) :
    (compare a b = -1 ↔ inst a < inst b) ∧ (compare a b = 0 ↔ inst a = inst b) ∧
    (compare a b = 1 ↔ inst a > inst b) := by
  simp only [Normalised] at ha hb
  simp only [inst]
  rcases compare_cases a b with ⟨hc, h⟩ | ⟨hc, h⟩ | ⟨hc, h⟩ <;> rw [hc] <;> omega

/-- Compare is a total order on all (seconds, nanos) pairs: reflexive-zero, antisymmetric, transitive. -/
theorem C17_compare_total_order (a b c : SN) :
    (compare a a = 0) ∧ (compare a b = 0 → a = b) ∧ (compare a b = - compare b a) ∧
    (compare a b = -1 → compare b c = -1 → compare a c = -1) := by
  refine ⟨compare_eq ⟨rfl, rfl⟩, ?_, ?_, ?_⟩
  · intro h
    rcases compare_cases a b with ⟨hc, _⟩ | ⟨_, h1, h2⟩ | ⟨hc, _⟩
    · omega
    · cases a; cases b; simp only at h1 h2; rw [h1, h2]
    · omega
  · rcases compare_cases a b with ⟨hc, h⟩ | ⟨hc, h⟩ | ⟨hc, h⟩
    · rw [hc, compare_gt (a := b) (b := a) (by omega)]
    · rw [hc, compare_eq (a := b) (b := a) (by omega)]; decide
    · rw [hc, compare_lt (a := b) (b := a) (by omega)]; decide
  · intro h1 h2
    rcases compare_cases a b with ⟨_, hab⟩ | ⟨hc, _⟩ | ⟨hc, _⟩
    · rcases compare_cases b c with ⟨_, hbc⟩ | ⟨hc, _⟩ | ⟨hc, _⟩
      · exact compare_lt (by omega)
      · omega
      · omega
    · omega
    · omega

/-! ### the hypotheses are satisfiable on non-trivial concrete values -/

/-- borrow: 10s + (-5ns) = 9.999999995s -/
example : ValidTS ⟨10, 0⟩ ∧ ValidDur ⟨0, -5⟩ ∧
    add (some ⟨10, 0⟩) ⟨0, -5⟩ = .ok (some ⟨9, 999999995⟩) :=
  ⟨by unfold ValidTS; decide, by unfold ValidDur; decide, by decide⟩
/-- carry: 10.999999999s + 1ns = 11s -/
example : ValidTS ⟨10, 999999999⟩ ∧ ValidDur ⟨0, 1⟩ ∧
    add (some ⟨10, 999999999⟩) ⟨0, 1⟩ = .ok (some ⟨11, 0⟩) :=
  ⟨by unfold ValidTS; decide, by unfold ValidDur; decide, by decide⟩
/-- mixed: seconds and nanos, negative duration with borrow -/
example : ValidTS ⟨1700000000, 250000000⟩ ∧ ValidDur ⟨-3, -500000000⟩ ∧
    add (some ⟨1700000000, 250000000⟩) ⟨-3, -500000000⟩ = .ok (some ⟨1699999996, 750000000⟩) :=
  ⟨by unfold ValidTS; decide, by unfold ValidDur; decide, by decide⟩
/-- int64 overflow: must panic, never a wrapped value -/
example : InRange ⟨9223372036854775807, 1000⟩ ∧ Normalised ⟨9223372036854775807, 1000⟩ ∧
    ValidDur ⟨0, 999999999⟩ ∧
    add (some ⟨9223372036854775807, 1000⟩) ⟨0, 999999999⟩ = .panic :=
  ⟨by unfold InRange; decide, by unfold Normalised; decide, by unfold ValidDur; decide, by decide⟩
/-- int64 underflow: must panic -/
example : InRange ⟨-9223372036854775808, 0⟩ ∧ Normalised ⟨-9223372036854775808, 0⟩ ∧
    ValidDur ⟨0, -1⟩ ∧
    add (some ⟨-9223372036854775808, 0⟩) ⟨0, -1⟩ = .panic :=
  ⟨by unfold InRange; decide, by unfold Normalised; decide, by unfold ValidDur; decide, by decide⟩
/-- the `hov` hypothesis of `C17_add_overflow_panics` holds on both of those inputs,
    and the theorem itself (not just evaluation) yields the panic -/
example : add (some ⟨9223372036854775807, 1000⟩) ⟨0, 999999999⟩ = .panic :=
  C17_add_overflow_panics _ _ (by unfold InRange; decide) (by unfold Normalised; decide)
    (by unfold ValidDur; decide) (by simp only [inst]; decide)
example : add (some ⟨-9223372036854775808, 0⟩) ⟨0, -1⟩ = .panic :=
  C17_add_overflow_panics _ _ (by unfold InRange; decide) (by unfold Normalised; decide)
    (by unfold ValidDur; decide) (by simp only [inst]; decide)
/-- `hrep` of `C17_add_valid` is satisfiable (and its conclusion non-vacuous) -/
example : ValidTS ⟨9, 999999995⟩ :=
  C17_add_valid ⟨10, 0⟩ ⟨0, -5⟩ _ (by unfold ValidTS; decide) (by unfold ValidDur; decide)
    (by decide) (by simp only [inst]; decide)
/-- compare on concrete values -/
example : compare ⟨9, 999999995⟩ ⟨10, 0⟩ = -1 ∧ compare ⟨10, 0⟩ ⟨10, 0⟩ = 0 ∧
    compare ⟨10, 1⟩ ⟨10, 0⟩ = 1 := by decide

end Pulsar.Timepb

#print axioms Pulsar.Timepb.C17_add_exact
#print axioms Pulsar.Timepb.C17_add_normalised
#print axioms Pulsar.Timepb.C17_add_valid
#print axioms Pulsar.Timepb.C17_add_eq_addStd
#print axioms Pulsar.Timepb.C17_add_overflow_panics
#print axioms Pulsar.Timepb.C17_add_no_wrap
#print axioms Pulsar.Timepb.C17_add_nil
#print axioms Pulsar.Timepb.C17_compare_chronological
#print axioms Pulsar.Timepb.C17_compare_total_order
