/-
  C05, the part tied to the source by extraction: deterministic marshalling is a function of the message value
  in the model by construction (`implMarshal` has no other argument). For the Go code to be one, the marshal and
  size closures must not read state that survives a call: `Pulsar.ExtractedCode` (regenerated on every run by
  harness/cmd/vfacts) shows that the runtime package holds no package-level variable other than error values,
  that no read path writes through the message or hands out the address of message memory, and that the buffer a
  marshal closure returns is one it made itself.

  Trusted: the extractor. Run-time side: repetition / rebuilt-equal values / object reuse in the codec engine.
-/
import Pulsar.ExtractedCode
namespace Pulsar
open ExtractedCode

theorem C05_extracted_marshal_reads_no_call_spanning_state :
    runtimeState = [] ∧ readPathWrites = [] ∧ readPathEscapes = [] ∧ marshalBufOther = [] ∧ errors = [] := by decide

#print axioms C05_extracted_marshal_reads_no_call_spanning_state
end Pulsar
