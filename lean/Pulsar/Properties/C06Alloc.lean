/-
  C06 (allocation clause) — "unmarshal never allocates memory out of proportion to the input length".

  `Pulsar.DecodeAlloc` is the generated `unmarshal` closure of `Pulsar.Decode` with every allocation site
  of the template accounted (the table is in that file). Proved here, for every schema (well-formed or
  not), every option, recursion budget, fuel, target and byte string:

  * `C06_alloc_value_agrees` — the accounting decoder *is* the decoder: its outcome is the outcome of
    `implUnmarshalClosure` (same message, same error, same panic);
  * `C06_alloc_linear` — an accepted input of `n` bytes made the closure allocate at most `K * n + K0`
    bytes, `K = 192`, `K0 = 0`;
  * `C06_alloc_linear_any_outcome` — the same bound for runs that end in an error (allocations made
    before the error is detected are counted), so no rejected input and no truncation is a cheap way to
    make the decoder allocate;
  * `C06_alloc_K_attained` — `K` cannot be lowered for these cost constants: the two bytes `0a 00` (a map
    entry with neither key nor value) cost exactly `2 * K` (map header, one bucket, one empty message).

  Why it holds: every allocation is paid for by input bytes consumed in the same record — a packed
  pre-allocation is at most 8 bytes per payload byte and the run consumes its payload; each appended
  element consumes at least one byte; every message, nested call, oneof wrapper and map entry is preceded by
  a tag and a length byte; nested payloads and map entries are disjoint slices of the parent's bytes. The recursion
  budget plays no role: a nesting level costs at least two input bytes.

  History: in the tree before fix d595428 the key/value reads of a map entry were bounds-checked against
  the end of the whole input while the parser afterwards jumped back to the end of the entry, so an entry
  of declared length 1 (`0a 01 12 …`) took its value from the bytes after the entry and the parent decoded
  those bytes again. With a message-valued map in a recursive type this re-reading doubles per 8 bytes of
  input: on the real code 1313 bytes made `proto.Unmarshal` allocate 619 MB (×4 for every 32 more bytes),
  and the then model gave 34, 470, 1022, 2126, … 1130414 bytes for inputs of 17, 25, 33, 41, … 113 bytes.
  The statement below was therefore false before the fix; `C06_alloc_attack_rejected` replays that input.
-/
import Pulsar.Proofs.DecodeAlloc
import Pulsar.Entry
namespace Pulsar
open Alloc

/-- The accounting decoder is the decoder. -/
theorem C06_alloc_value_agrees (S : Schema) (o : UOpts) (fuel : Nat) (d : Int) (i : Nat) (into : Val) (bs : Bytes) :
    (implUnmarshalAlloc S o fuel d i into bs).2 = implUnmarshalClosure S o fuel d i into bs :=
  al_value_agrees S o fuel d i into bs

/-- Allocation is linear in the input length, whatever the outcome of the run. -/
theorem C06_alloc_linear_any_outcome (S : Schema) (o : UOpts) (fuel : Nat) (d : Int) (i : Nat) (into : Val)
    (bs : Bytes) : (implUnmarshalAlloc S o fuel d i into bs).1 ≤ K * bs.length + K0 := by
  have := al_alloc_le S o fuel d i into bs
  simp only [K0]; omega

/-- Allocation of an accepted input is linear in its length. -/
theorem C06_alloc_linear (S : Schema) (o : UOpts) (fuel : Nat) (d : Int) (i : Nat) (into : Val) (bs : Bytes)
    (v : Val) (a : Nat) (h : implUnmarshalAlloc S o fuel d i into bs = (a, .ok v)) :
    a ≤ K * bs.length + K0 := by
  have := C06_alloc_linear_any_outcome S o fuel d i into bs
  rw [h] at this
  exact this

/-- The same, read off the generated closure: whenever `implUnmarshalClosure` accepts, the accounting run
    of the same call returns the same message and a linear allocation total. -/
theorem C06_alloc_linear_closure (S : Schema) (o : UOpts) (fuel : Nat) (d : Int) (i : Nat) (into : Val)
    (bs : Bytes) (v : Val) (h : implUnmarshalClosure S o fuel d i into bs = .ok v) :
    ∃ a, implUnmarshalAlloc S o fuel d i into bs = (a, .ok v) ∧ a ≤ K * bs.length + K0 := by
  refine ⟨(implUnmarshalAlloc S o fuel d i into bs).1, ?_, C06_alloc_linear_any_outcome S o fuel d i into bs⟩
  rw [← C06_alloc_value_agrees] at h
  rw [← h]

/-- `proto.Unmarshal(bs, m0)`: the allocations of the closure call it makes (`implUnmarshal`: fuel
    `len + 1`, the default budget, a reset or merged target). Not counted, because it is protobuf-go's code
    around the generated closure and not the closure: the one `ProtoMethods()` result of the top-level
    dispatch (48 bytes) and the initialisation walk `checkInitializedSlow` after a successful decode, which
    allocates a constant per message value it visits (measured: about 128 bytes per nested message). -/
def implUnmarshalTopAlloc (S : Schema) (o : UOpts) (i : Nat) (m0 : Val) (bs : Bytes) : Nat :=
  (implUnmarshalAlloc S o (bs.length + 1) 10000 i (if o.merge then m0 else emptyMsg S i) bs).1

theorem C06_alloc_linear_top (S : Schema) (o : UOpts) (i : Nat) (m0 : Val) (bs : Bytes) :
    implUnmarshalTopAlloc S o i m0 bs ≤ K * bs.length + K0 :=
  C06_alloc_linear_any_outcome S o _ _ i _ bs

/-! ### Non-vacuity -/

/-- ```
    message M { repeated int64 xs = 1; M child = 2; map<string, M> mp = 3; string s = 4; }
    ``` -/
def allocSchema : Schema :=
  ⟨[⟨[⟨1, .scalar .int64, .repeated true⟩, ⟨2, .message 0, .singular⟩, ⟨3, .message 0, .map .string⟩,
      ⟨4, .scalar .string, .singular⟩]⟩]⟩

example : allocSchema.WF = true := by decide

/-- 24 bytes: a packed run `xs = [1,2,3]`, a nested message `child {xs = [5,6]}`, a map entry
    `"k" ↦ {}`, `s = "hi"` and an unknown varint record `5: 1`. -/
def allocBytes : Bytes :=
  [0x0a, 0x03, 0x01, 0x02, 0x03,
   0x12, 0x04, 0x0a, 0x02, 0x05, 0x06,
   0x1a, 0x05, 0x0a, 0x01, 0x6b, 0x12, 0x00,
   0x22, 0x02, 0x68, 0x69,
   0x28, 0x01]

/-- accepted, 671 bytes allocated:
    72 (packed run: `make([]int64, 0, 3)` = 24, three appends = 48)
    + 160 (`&M{}` = 64, the nested call = 48, and in the child 16 + 32 for its packed run of two)
    + 433 (`make(map)` = 48, key `"k"` = 1, lazily allocated value `&M{}` = 64, the nested call = 48,
           new bucket = 272)
    + 2 (`"hi"`) + 4 (unknown record appended). -/
theorem C06_alloc_example :
    implUnmarshalAlloc allocSchema {} 25 0 0 (emptyMsg allocSchema 0) allocBytes =
      (671, .ok (.msg
        [.list true [.bits 1, .bits 2, .bits 3],
         .msg [.list true [.bits 5, .bits 6], .none, .map false [], .blob false []] [],
         .map true [.entry (.blob false [0x6b])
           (.msg [.list false [], .none, .map false [], .blob false []] [])],
         .blob false [0x68, 0x69]]
        [0x28, 0x01])) := by rfl

/-- the bound of the theorem for this run: 671 ≤ 192 * 24 -/
example : (671 : Nat) ≤ K * allocBytes.length + K0 :=
  C06_alloc_linear allocSchema {} 25 0 0 _ allocBytes _ 671 C06_alloc_example

/-- a rejected input still has its allocations counted: `0a 02 01 80` pre-allocates one `int64`, appends
    the element `1`, then fails on the truncated varint `80` — 24 bytes were allocated before the error. -/
theorem C06_alloc_example_err :
    implUnmarshalAlloc allocSchema {} 5 0 0 (emptyMsg allocSchema 0) [0x0a, 0x02, 0x01, 0x80] = (24, .err .eof) := by
  rfl

/-- `message M { map<int32, N> f = 1; }  message N {}` -/
def allocMapSchema : Schema := ⟨[⟨[⟨1, .message 1, .map .int32⟩]⟩, ⟨[]⟩]⟩

/-- `K` is attained: `0a 00` allocates the map, a bucket and an empty message value, `384 = K * 2`. -/
theorem C06_alloc_K_attained :
    (implUnmarshalAlloc allocMapSchema {} 3 0 0 (emptyMsg allocMapSchema 0) [0x0a, 0x00]).1 = K * 2 + K0 := by
  decide

/-- `message M { map<int32, M> f = 1; }` — the recursive message-valued map of the pre-fix attack -/
def allocRecMapSchema : Schema := ⟨[⟨[⟨1, .message 0, .map .int32⟩]⟩]⟩

/-- The input that doubled the pre-fix decoder's work per level (three levels shown: each `0a 01 12`
    declares a one-byte entry holding only the value tag, the value's length prefix `25`/`1d`/`15` and its
    payload lay *after* the entry). Since fix d595428 the value record must end inside the entry: rejected
    after allocating only the map header. -/
theorem C06_alloc_attack_rejected :
    implUnmarshalAlloc allocRecMapSchema {} 42 0 0 (emptyMsg allocRecMapSchema 0)
      [0x0a, 0x01, 0x12, 0x25, 0x10, 0x00, 0x10, 0x00,
       0x0a, 0x01, 0x12, 0x1d, 0x10, 0x00, 0x10, 0x00,
       0x0a, 0x01, 0x12, 0x15, 0x10, 0x00, 0x10, 0x00,
       0x12, 0x0f, 0, 0, 0, 0, 0, 0, 0, 0, 0, 0, 0, 0, 0, 0, 0] = (48, .err .eof) := by
  rfl

#print axioms C06_alloc_value_agrees
#print axioms C06_alloc_linear_any_outcome
#print axioms C06_alloc_linear
#print axioms C06_alloc_linear_closure
#print axioms C06_alloc_linear_top
#print axioms C06_alloc_example
#print axioms C06_alloc_example_err
#print axioms C06_alloc_K_attained
#print axioms C06_alloc_attack_rejected

end Pulsar
