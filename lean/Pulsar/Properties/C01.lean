/-
  C01 — Wire round-trip preserves every message value.

  * `C01_marshal_total`, `C01_roundtrip`                : proved as stated.
  * `C01_reference_roundtrip` (as first stated, no size bound) is FALSE in the model (unbounded byte
    lists): kept as `Remark_reference_roundtrip_unbounded`, refuted by
    `C01_remark_unbounded_length_prefix` (a `bytes` field of 2^64 bytes); the corrected statement
    `C01_reference_roundtrip` (encoding shorter than 2^64 bytes) is proved, as is its
    generalisation to any map-entry order `C01_reference_roundtrip_anyorder`.
  Proofs: Pulsar/Proofs/Roundtrip.lean and the Rt*.lean files it imports.
-/
import Pulsar.Proofs.Roundtrip
import Pulsar.Proofs.RtCounter
import Pulsar.Proofs.RtExample
namespace Pulsar

/-- Encoding never fails or panics for a well-typed message, in either marshal mode, whatever its
    strings contain (stronger than the property's "valid UTF-8" clause) and including the Go-only
    degenerate states (nil list elements, nil map values, typed-nil oneof wrappers). -/
theorem C01_marshal_total (S : Schema) (hS : S.WF = true) (fuel i : Nat) (v : Val) (o : MOpts)
    (hperm : ∀ es, (o.perm es).Perm es) (hi : i < S.msgs.length) (hv : msgOK S false fuel i v = true) :
    ∃ bs, implMarshal S o fuel i v = .ok bs :=
  ⟨_, (marshal_ok hS o (ordOf_perm o hperm) fuel i v hi hv).1⟩

/-- Round trip: for every well-formed schema, every well-typed value whose strings are valid UTF-8 and
    whose unknown sets are storable record sequences, in both marshal modes (any map iteration order):
    proto.Marshal succeeds and proto.Unmarshal of the bytes into a fresh message yields a message equal
    to the original — every scalar bit-exact (−0.0, NaN payloads, extreme integers), oneof choice incl.
    zero-valued members, map contents, nested messages, unknown fields byte for byte. -/
theorem C01_roundtrip (S : Schema) (hS : S.WF = true) (fuel i : Nat) (v : Val) (o : MOpts)
    (hperm : ∀ es, (o.perm es).Perm es) (hi : i < S.msgs.length)
    (hv : msgOK S false fuel i v = true) (hu : utf8OK S fuel i v = true) (hk : unknownOK S fuel i v = true)
    (hd : fuel ≤ 10000) :
    ∃ bs w, implMarshal S o fuel i v = .ok bs ∧
      (bs.length < 9223372036854775808 →
        implUnmarshal S {} i (emptyMsg S i) bs = .ok w ∧ Equiv S fuel i w v) :=
  impl_roundtrip hS fuel i v o hperm hi hv hu hk hd

/-- The round trip at the level of the specification, for ANY order of the map entries on the wire
    (`gEncode ord`, with `specEncode = gEncode sortEntries`): the strict reference decoder accepts the
    bytes — so they are `WellTyped`, the domain of C03 — and yields an equivalent value. -/
theorem C01_reference_roundtrip_anyorder (S : Schema) (hS : S.WF = true)
    (ord : Kind → List Val → List Val) (hord : ∀ kk es, (ord kk es).Perm es) (fuel i : Nat) (v : Val)
    (hi : i < S.msgs.length)
    (hv : msgOK S false fuel i v = true) (hu : utf8OK S fuel i v = true) (hk : unknownOK S fuel i v = true)
    (hd : fuel ≤ 10000) (hlen : (gEncode S ord fuel i v).length < 18446744073709551616) :
    ∃ w, specUnmarshalStrict S {} i (emptyMsg S i) (gEncode S ord fuel i v) = .ok w ∧ Equiv S fuel i w v :=
  spec_roundtrip_g hS hord fuel i v hi hv hu hk hd hlen

/-- The reference round trip AS ORIGINALLY STATED (no bound on the size of the encoding). It is false in
    the model, because `Bytes` are unbounded lists: see `C01_remark_unbounded_length_prefix`. -/
def Remark_reference_roundtrip_unbounded : Prop :=
  ∀ (S : Schema) (_hS : S.WF = true) (fuel i : Nat) (v : Val) (_hi : i < S.msgs.length)
    (_hv : msgOK S false fuel i v = true) (_hu : utf8OK S fuel i v = true)
    (_hk : unknownOK S fuel i v = true) (_hd : fuel ≤ 10000),
    ∃ w, specUnmarshalStrict S {} i (emptyMsg S i) (specEncode S fuel i v) = .ok w ∧ Equiv S fuel i w v

/-- Counterexample: `message { bytes b = 1; }` holding 2^64 bytes. The length prefix `varint 2^64` is
    ten bytes whose tenth is 2, which `protowire.ConsumeVarint` rejects (`overflow`). Not reachable in
    Go (a slice has fewer than 2^63 bytes): a modelling artefact, repaired by the length hypothesis of
    `C01_reference_roundtrip` (and already present inside `C01_roundtrip`). -/
theorem C01_remark_unbounded_length_prefix : ¬ Remark_reference_roundtrip_unbounded := by
  intro h
  obtain ⟨w, hw, _⟩ := h Counter.cS Counter.cS_wf 1 0 (Counter.cV Counter.big) (by decide)
    (Counter.cV_ok _) (Counter.cV_utf8 _) (Counter.cV_unknown _) (by omega)
  rw [Counter.cV_decode _ Counter.big_length] at hw
  cases hw

/-- The reference decoder reads the reference encoding back as the same value (the specification
    itself is a round trip), which together with C02 and C03 gives interoperability both ways.
    Corrected statement: the encoding is shorter than 2^64 bytes. -/
theorem C01_reference_roundtrip (S : Schema) (hS : S.WF = true) (fuel i : Nat) (v : Val)
    (hi : i < S.msgs.length)
    (hv : msgOK S false fuel i v = true) (hu : utf8OK S fuel i v = true) (hk : unknownOK S fuel i v = true)
    (hd : fuel ≤ 10000) (hlen : (specEncode S fuel i v).length < 18446744073709551616) :
    ∃ w, specUnmarshalStrict S {} i (emptyMsg S i) (specEncode S fuel i v) = .ok w ∧ Equiv S fuel i w v := by
  rw [specEncode_eq_g] at hlen ⊢
  exact spec_roundtrip_g hS sortEntries_perm fuel i v hi hv hu hk hd hlen

/-- Consequence: reference encodings (below 2^64 bytes) are `WellTyped` streams. -/
theorem C01_reference_encoding_wellTyped (S : Schema) (hS : S.WF = true) (fuel i : Nat) (v : Val)
    (hi : i < S.msgs.length)
    (hv : msgOK S false fuel i v = true) (hu : utf8OK S fuel i v = true) (hk : unknownOK S fuel i v = true)
    (hd : fuel ≤ 10000) (hlen : (specEncode S fuel i v).length < 18446744073709551616) :
    WellTyped S i (specEncode S fuel i v) := by
  obtain ⟨w, hw, _⟩ := C01_reference_roundtrip S hS fuel i v hi hv hu hk hd hlen
  simp [WellTyped, hw, Res.isOk]

/-! ### non-vacuity: the hypotheses are satisfiable (schema with every field shape, maps stored out of
    key order, nested messages, a populated oneof, unknown bytes) -/

open Example in
example : ∃ bs, implMarshal exS ⟨false, List.reverse⟩ 2 0 exV = .ok bs :=
  C01_marshal_total exS exS_wf 2 0 exV ⟨false, List.reverse⟩ (fun es => List.reverse_perm es) (by decide) exV_ok

open Example in
example : ∃ bs w, implMarshal exS ⟨false, List.reverse⟩ 2 0 exV = .ok bs ∧
    (bs.length < 9223372036854775808 →
      implUnmarshal exS {} 0 (emptyMsg exS 0) bs = .ok w ∧ Equiv exS 2 0 w exV) :=
  C01_roundtrip exS exS_wf 2 0 exV ⟨false, List.reverse⟩ (fun es => List.reverse_perm es) (by decide)
    exV_ok exV_utf8 exV_unknown (by omega)

open Example in
example : ∃ w, specUnmarshalStrict exS {} 0 (emptyMsg exS 0) (specEncode exS 2 0 exV) = .ok w ∧
    Equiv exS 2 0 w exV :=
  C01_reference_roundtrip exS exS_wf 2 0 exV (by decide) exV_ok exV_utf8 exV_unknown (by omega)
    exV_enc_length

end Pulsar

#print axioms Pulsar.C01_marshal_total
#print axioms Pulsar.C01_roundtrip
#print axioms Pulsar.C01_reference_roundtrip_anyorder
#print axioms Pulsar.C01_remark_unbounded_length_prefix
#print axioms Pulsar.C01_reference_roundtrip
#print axioms Pulsar.C01_reference_encoding_wellTyped
