/-
  C01 — Wire round-trip preserves every message value.
-/
import Pulsar.Proofs.Roundtrip
namespace Pulsar

/-- Encoding never fails or panics for a well-typed message, in either marshal mode, whatever its
    strings contain (stronger than the property's "valid UTF-8" clause) and including the Go-only
    degenerate states (nil list elements, nil map values, typed-nil oneof wrappers). -/
theorem C01_marshal_total (S : Schema) (hS : S.WF = true) (fuel i : Nat) (v : Val) (o : MOpts)
    (hperm : ∀ es, (o.perm es).Perm es) (hi : i < S.msgs.length) (hv : msgOK S false fuel i v = true) :
    ∃ bs, implMarshal S o fuel i v = .ok bs := sorry

/-- Round trip: for every well-formed schema, every well-typed value whose strings are valid UTF-8 and
    whose unknown sets are storable record sequences, in both marshal modes (any map iteration order):
    proto.Marshal succeeds and proto.Unmarshal of the bytes into a fresh message yields a message equal
    to the original — every scalar bit-exact (−0.0, NaN payloads, extreme integers), oneof choice incl.
    zero-valued members, map contents, nested messages, unknown fields byte for byte. -/
theorem C01_roundtrip (S : Schema) (hS : S.WF = true) (fuel i : Nat) (v : Val) (o : MOpts)
    (hperm : ∀ es, (o.perm es).Perm es) (hi : i < S.msgs.length)
    (hv : msgOK S false fuel i v = true) (hu : utf8OK S fuel i v = true) (hk : unknownOK S fuel i v = true)
    (hd : fuel ≤ 10000) :
    ∃ bs w, implMarshal S o fuel i v = .ok bs ∧
      (bs.length < 9223372036854775808 →
        implUnmarshal S {} i (emptyMsg S i) bs = .ok w ∧ Equiv S fuel i w v) := sorry

/-- The reference decoder reads the reference encoding back as the same value (the specification
    itself is a round trip), which together with C02 and C03 gives interoperability both ways. -/
theorem C01_reference_roundtrip (S : Schema) (hS : S.WF = true) (fuel i : Nat) (v : Val)
    (hi : i < S.msgs.length)
    (hv : msgOK S false fuel i v = true) (hu : utf8OK S fuel i v = true) (hk : unknownOK S fuel i v = true)
    (hd : fuel ≤ 10000) :
    ∃ w, specUnmarshalStrict S {} i (emptyMsg S i) (specEncode S fuel i v) = .ok w ∧ Equiv S fuel i w v := sorry

end Pulsar
