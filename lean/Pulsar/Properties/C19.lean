/-
  C19 — Generated Go API and descriptors are coherent with the schema (generator part).

  The two places where the fast-reflection code refers to a message by something other than its Go type:
  the index `N` of `&file_x_msgTypes[N]` (must be the message's slot in the flattened message table that
  the embedded protoc-gen-go builds in the same order) and the `Messages().ByName(…)` chain that
  initialises `md_<Message>` at package init (must reach the message's own descriptor).
  `protoimpl.TypeBuilder`, registries and `ByName` itself are protobuf-go (trusted; `resolve` states the
  assumed behaviour: first sibling of that name).
-/
import Pulsar.Proofs.Gen
namespace Pulsar.Gen
open Pulsar

/-! ### the flattened table -/

/-- the table holds exactly the messages of the file, each once -/
theorem C19_flatten_complete (tops : List MsgTree) :
    (∀ p, p ∈ allPositions tops ↔ (nodeAt tops p).isSome = true) ∧ (allPositions tops).Nodup :=
  ⟨fun _ => mem_allPositions, nodup_allPositions tops⟩

/-- top-level messages come first, in declaration order -/
theorem C19_toplevel_messages_first (tops : List MsgTree) (i : Nat) (h : i < tops.length) :
    (allPositions tops)[i]? = some [i] := by
  unfold allPositions
  rw [List.getElem?_append_left (by simpa using h)]
  simp [h]

/-- a message stands before each of its nested messages -/
theorem C19_flatten_parent_before_child (tops : List MsgTree) (p : Pos) (i : Nat) (hp : p ≠ [])
    (hv : (nodeAt tops (p ++ [i])).isSome = true) :
    [p, p ++ [i]].Sublist (allPositions tops) ∧
    (allPositions tops).idxOf p < (allPositions tops).idxOf (p ++ [i]) := by
  have hs : [p, p ++ [i]].Sublist (allPositions tops) := by
    rw [allPositions_eq]
    exact before_walkTree i p _ hp (by rw [← allPositions_eq]; exact mem_allPositions.2 hv)
  refine ⟨hs, sublist_pair_idxOf ?_ hs (nodup_allPositions tops)⟩
  intro e
  have := congrArg List.length e
  simp at this

/-! ### message index -/

/-- `msgIndex` is the position in the flattened table, and the table holds that very message there —
    whatever the map iteration order. -/
theorem C19_msgIndex_is_flatten_position (o : List (Pos × Nat) → List (Pos × Nat))
    (ho : ∀ l, (o l).Perm l) (tops : List MsgTree) (m : Pos)
    (hu : fullNamesUnique tops = true) (hm : (nodeAt tops m).isSome = true) :
    ∃ k, msgIndex o tops m = some k ∧ k = (allPositions tops).idxOf m ∧
      (allPositions tops)[k]? = some m ∧ (allMessages tops)[k]? = some (fullName tops m) := by
  have hu' : (allMessages tops).Nodup := by simpa [fullNamesUnique] using hu
  have hmem := mem_allPositions.2 hm
  refine ⟨_, msgIndex_eq o ho tops m hu' hmem, rfl, idxOf_getElem? hmem, ?_⟩
  simp [allMessages, List.getElem?_map, idxOf_getElem? hmem]

/-- `panic("not found")` is unreachable for a message of the file (uniqueness not needed) -/
theorem C19_msgIndex_never_panics (o : List (Pos × Nat) → List (Pos × Nat))
    (ho : ∀ l, (o l).Perm l) (tops : List MsgTree) (m : Pos) (hm : (nodeAt tops m).isSome = true) :
    (msgIndex o tops m).isSome = true := by
  have hmem := mem_allPositions.2 hm
  have hself : (m, (allPositions tops).idxOf m) ∈ byPtr tops := byPtr_mem.2 (idxOf_getElem? hmem)
  unfold msgIndex scanLast
  exact scan_foldl_isSome (fun p => fullName tops p == fullName tops m) _ none
    (Or.inr ⟨_, (ho _).mem_iff.2 hself, by simp⟩)

/-! ### descriptor path -/

/-- Evaluating the emitted `File_x.Messages().ByName(n₁)….ByName(nₖ)` chain, built from `findParents`,
    reaches the message itself when sibling names are unique at every level. -/
theorem C19_descPath_resolves_to_self (tops : List MsgTree) (m : Pos)
    (hu : siblingsUnique tops = true) (hm : (nodeAt tops m).isSome = true) :
    resolve tops (findParents tops m) = some m := by
  simp only [siblingsUnique, Bool.and_eq_true] at hu
  exact resolve_findParents m tops hu.1 hu.2 hm

/-- the hypothesis is needed: with two siblings of one name the chain reaches the first of them
    (protoc rejects such files) -/
theorem C19_descPath_needs_unique_siblings :
    ∃ (tops : List MsgTree) (m : Pos), (nodeAt tops m).isSome = true ∧
      resolve tops (findParents tops m) ≠ some m :=
  ⟨[.node "A" [], .node "A" []], [1], by decide, by decide⟩

/-- unique sibling names give unique full names: the hypotheses of the two theorems above coincide on
    what protoc accepts -/
theorem C19_siblings_unique_full_names_unique (tops : List MsgTree) (hu : siblingsUnique tops = true) :
    fullNamesUnique tops = true := by
  have : (allMessages tops).Nodup := by
    unfold allMessages
    apply nodup_map_of_inj_on _ (nodup_allPositions tops)
    intro a ha b hb hab
    have ra := C19_descPath_resolves_to_self tops a hu (mem_allPositions.1 ha)
    have rb := C19_descPath_resolves_to_self tops b hu (mem_allPositions.1 hb)
    unfold fullName at hab
    rw [hab, rb] at ra
    injection ra with ra
    exact ra.symm
  simpa [fullNamesUnique] using this

/-- both facts from the one hypothesis protoc guarantees -/
theorem C19_index_and_path_coherent (o : List (Pos × Nat) → List (Pos × Nat))
    (ho : ∀ l, (o l).Perm l) (tops : List MsgTree) (m : Pos)
    (hu : siblingsUnique tops = true) (hm : (nodeAt tops m).isSome = true) :
    msgIndex o tops m = some ((allPositions tops).idxOf m) ∧
    (allPositions tops)[(allPositions tops).idxOf m]? = some m ∧
    resolve tops (findParents tops m) = some m := by
  obtain ⟨k, h1, h2, h3, _⟩ := C19_msgIndex_is_flatten_position o ho tops m
    (C19_siblings_unique_full_names_unique tops hu) hm
  subst h2
  exact ⟨h1, h3, C19_descPath_resolves_to_self tops m hu hm⟩

-- non-vacuity: A{B{C} D} E
def c19tops : List MsgTree := [.node "A" [.node "B" [.node "C" []], .node "D" []], .node "E" []]
example : siblingsUnique c19tops = true := by decide
example : allPositions c19tops = [[0], [1], [0, 0], [0, 1], [0, 0, 0]] := by decide
example : allMessages c19tops = [["A"], ["E"], ["A", "B"], ["A", "D"], ["A", "B", "C"]] := by decide
example : findParents c19tops [0, 0, 0] = ["A", "B", "C"] := by decide
example : resolve c19tops ["A", "B", "C"] = some [0, 0, 0] := by decide
example : msgIndex id c19tops [0, 0, 0] = some 4 := by decide
example : msgIndex id c19tops [1] = some 1 := by decide
example : (nodeAt c19tops [0, 0, 0]).isSome = true := by decide
example : (nodeAt c19tops [0, 2]).isSome = false := by decide
example : resolve c19tops ["A", "X"] = none := by decide
-- the driver's forest syntax denotes the same forest
example : (parseTops "A(B(C),D),E").map allMessages = some (allMessages c19tops) := by decide +kernel
example : (parseTops "A(B(C),D),E").map (fun t => msgIndex id t [0, 0, 0]) = some (some 4) := by decide +kernel

end Pulsar.Gen

#print axioms Pulsar.Gen.C19_flatten_complete
#print axioms Pulsar.Gen.C19_toplevel_messages_first
#print axioms Pulsar.Gen.C19_flatten_parent_before_child
#print axioms Pulsar.Gen.C19_msgIndex_is_flatten_position
#print axioms Pulsar.Gen.C19_msgIndex_never_panics
#print axioms Pulsar.Gen.C19_descPath_resolves_to_self
#print axioms Pulsar.Gen.C19_descPath_needs_unique_siblings
#print axioms Pulsar.Gen.C19_siblings_unique_full_names_unique
#print axioms Pulsar.Gen.C19_index_and_path_coherent
