/-
  C19 (plain Go API part) — the generated plain-Go accessors agree with the fast reflection on every
  message state: the getter `x.Get<Field>()` (protocol op `getter j`, IMPL semantics `Reflect.getterF` /
  `Reflect.getterZero`, read off protoc-gen-go's `genMessageGetterMethods`) returns what
  `x.ProtoReflect().Get(fd)` returns (op `get j`) — also on the nil receiver —, and `Reset()` (op `reset`,
  `*x = T{}`) leaves the empty message.

  The ONE state on which getter and `Get` differ is the typed-nil oneof wrapper (`x.Oneof = (*T_M)(nil)`,
  slot `.oneNil`): the member getter's type assertion succeeds with a nil pointer and `x.M` panics, while
  `Get`/`Has` (fix 424cbe1) treat the state as "unset". That state is outside the junk-free domain
  `msgOK S false` of C08 (no reflection op, decoder or constructor produces it); it is stated explicitly
  below (`C19_getter_typed_nil_wrapper_default`) and is the hypothesis `isOneNil (s.slot j) = false` of the
  main theorem, which otherwise needs NO typing hypothesis.

  Property theorems only; helper lemmas live in Pulsar/Proofs/Reflect.lean (`getterF_eq_asGetter_getF`, …).
-/
import Pulsar.Proofs.ReflectCor
namespace Pulsar

/-- The relation between the output `g` of `getter j` and the output `r` of `get j`, spelled out:
    scalars are equal (integers, floats, bools, enums as bit patterns; strings and bytes as byte strings),
    a message getter returns a non-nil pointer exactly when `Get(fd).Message().IsValid()`,
    the returned slice / map has the length of the `List` / `Map` view — and that view is valid exactly
    when it is non-empty —, and for a field index out of range there is neither a method nor a field. -/
def GetterAgrees : Out → Out → Prop
  | .bits a, .bits b => a = b
  | .str a, .str b => a = b
  | .msgv a, .msgv b => a = b
  | .glist n, .listv v m => n = m ∧ v = decide (0 < m)
  | .gmap n, .mapv v m => n = m ∧ v = decide (0 < m)
  | .panic, .panic => True
  | _, _ => False

/-- field level: the shape of the two outputs -/
theorem getterAgrees_field (f : FieldDesc) (v : Val) (h : isOneNil v = false) :
    GetterAgrees (Reflect.getterF f v) (Reflect.getF f v) := by
  unfold Reflect.getterF Reflect.getF
  cases hs : f.shape with
  | singular =>
    simp only []
    cases f.elem with
    | scalar k => simp only [outElem]; split <;> simp only [GetterAgrees]
    | message mi => simp only [outElem, GetterAgrees]
  | oneof g =>
    simp only []
    cases v <;> simp only [isOneNil, reduceCtorEq] at h <;>
      (cases f.elem with
       | scalar k => simp only [outElem]; split <;> simp only [GetterAgrees]
       | message mi => simp only [outElem, GetterAgrees])
  | repeated p =>
    simp only []
    cases v.elems <;> simp [GetterAgrees]
  | map kk =>
    simp only []
    cases v.elems <;> simp [GetterAgrees]

theorem isOneNil_zero (f : FieldDesc) : isOneNil f.zero = false := by
  unfold FieldDesc.zero
  cases f.shape <;> cases f.elem <;> (try simp only [isOneNil])
  rename_i k; cases k.isBlob <;> rfl

/-- **Getters agree with `Get`.** For every schema, every message type `i`, every state `s` — any `Val`
    at all: no typing hypothesis; `s = .none` is the nil receiver `(*T)(nil)` — and every field index `j`
    (out of range included: both sides panic), provided slot `j` is not a typed-nil oneof wrapper:
    the output of `getter j` is the output of `get j` rendered in the getter's tokens, i.e. the two
    outputs stand in the relation `GetterAgrees`. -/
theorem C19_getters_eq_get (S : Schema) (i : Nat) (s : Val) (j : Nat) (hn : isOneNil (s.slot j) = false) :
    (Reflect.step S i s (.r (.getter j))).2 = ((Reflect.step S i s (.r (.get j))).2).asGetter ∧
    GetterAgrees (Reflect.step S i s (.r (.getter j))).2 (Reflect.step S i s (.r (.get j))).2 := by
  simp only [step_read, Reflect.read]
  cases hf : (S.msg i).fields[j]? with
  | none => exact ⟨rfl, trivial⟩
  | some f =>
    simp only []
    by_cases hs : s.isNone = true
    · simp only [hs, if_true, emptyMsg_slot S i j f hf]
      rw [← getterF_zero f]
      exact ⟨getterF_eq_asGetter_getF f _ (isOneNil_zero f), getterAgrees_field f _ (isOneNil_zero f)⟩
    · simp only [hs, Bool.false_eq_true, if_false]
      exact ⟨getterF_eq_asGetter_getF f _ hn, getterAgrees_field f _ hn⟩

/-- … in particular on the nil receiver, with no hypothesis at all: a getter called on `(*T)(nil)` returns
    what `Get` returns on the nil message (C09: the defaults), and does not panic. -/
theorem C19_getters_eq_get_nil (S : Schema) (i j : Nat) :
    (Reflect.step S i .none (.r (.getter j))).2 = ((Reflect.step S i .none (.r (.get j))).2).asGetter ∧
    GetterAgrees (Reflect.step S i .none (.r (.getter j))).2 (Reflect.step S i .none (.r (.get j))).2 ∧
    (j < (S.msg i).fields.length → (Reflect.step S i .none (.r (.getter j))).2 ≠ .panic) := by
  have h := C19_getters_eq_get S i .none j (by simp [Val.slot, Val.slots, isOneNil])
  refine ⟨h.1, h.2, fun hj => ?_⟩
  obtain ⟨f, hf⟩ : ∃ f, (S.msg i).fields[j]? = some f := ⟨_, List.getElem?_eq_getElem hj⟩
  simp only [step_read, Reflect.read, hf, Val.isNone, if_true]
  unfold Reflect.getterZero
  cases f.shape <;> cases f.elem <;> simp [outElem, Elem.zeroVar] <;> split <;> simp

/-- … and on every well-typed junk-free Go struct (the domain of C08; in particular every state reached
    from a decoded / constructed message by reflection histories, `C08_step_preserves_wf`). -/
theorem C19_getters_eq_get_wf (S : Schema) (n i : Nat) (s : Val) (j : Nat) (hs : msgOK S false n i s = true) :
    (Reflect.step S i s (.r (.getter j))).2 = ((Reflect.step S i s (.r (.get j))).2).asGetter ∧
    GetterAgrees (Reflect.step S i s (.r (.getter j))).2 (Reflect.step S i s (.r (.get j))).2 := by
  apply C19_getters_eq_get
  obtain ⟨slots, u, rfl⟩ := rf_msgOK_isMsg hs
  cases n with
  | zero => simp [msgOK] at hs
  | succ m =>
    cases hf : (S.msg i).fields[j]? with
    | some f => exact not_oneNil_of_slotOK (msgOK_oneNil S false m) (slotOK_getD hs hf)
    | none =>
      have hlen := msgOK_length hs
      have : slots.length ≤ j := by
        rw [hlen]; exact Nat.le_of_not_lt (fun h => by simp [List.getElem?_eq_getElem h] at hf)
      simp [Val.slot, Val.slots, List.getD, List.getElem?_eq_none this, isOneNil]

/-- The typed-nil wrapper (`x.Oneof = (*T_M)(nil)`): since fix 8687e51 the member getter answers the
    default, exactly like `Get`, and `Has` is false. -/
theorem C19_getter_typed_nil_wrapper_default (S : Schema) (i : Nat) (slots : List Val) (u : Bytes) (j g : Nat)
    (f : FieldDesc) (hf : (S.msg i).fields[j]? = some f) (hsh : f.shape = .oneof g)
    (hv : slots.getD j .none = .oneNil) :
    (Reflect.step S i (.msg slots u) (.r (.getter j))).2 = outElem f.elem (Elem.zeroVar f.elem) ∧
    (Reflect.step S i (.msg slots u) (.r (.get j))).2 = outElem f.elem (Elem.zeroVar f.elem) ∧
    (Reflect.step S i (.msg slots u) (.r (.has j))).2 = .bool false := by
  simp only [step_read, Reflect.read, Val.isNone_msg, Bool.false_eq_true, if_false, Val.slot, Val.slots_msg, hf, hv,
    Reflect.getterF, Reflect.getF, Reflect.hasF, hsh, and_self]

/-! ### at any path -/

/-- one addressing prefix of the protocol -/
inductive PStep
  | «in» (j : Nat) | «at» (j i : Nat) | mv (j : Nat) (k : Val)

/-- `op` addressed through the prefixes `p` -/
def Op.under : List PStep → Op → Op
  | [], op => op
  | .in j :: p, op => .in j (Op.under p op)
  | .at j n :: p, op => .at j n (Op.under p op)
  | .mv j k :: p, op => .mv j k (Op.under p op)

theorem Op.under_isWrite (p : List PStep) (op : Op) : (Op.under p op).isWrite = op.isWrite := by
  induction p with
  | nil => rfl
  | cons st p ih => cases st <;> simpa [Op.under, Op.isWrite] using ih

/-- A read addressed through a path either fails on the path (the same `panic`/`absent` whatever the leaf
    op is) or is the leaf read executed on the message `c` (of type `mi`) the path reaches. -/
theorem stepR_under (S : Schema) : ∀ (p : List PStep) (i : Nat) (s : Val),
    (∃ out, ∀ o : ROp, Reflect.stepR S i s (Op.under p (.r o)) = out) ∨
    (∃ mi c, ∀ o : ROp, Reflect.stepR S i s (Op.under p (.r o)) = Reflect.read S mi c o)
  | [], i, s => .inr ⟨i, s, fun _ => rfl⟩
  | .in j :: p, i, s => by
    simp only [Op.under, Reflect.stepR]
    cases hf : (S.msg i).fields[j]? with
    | none => exact .inl ⟨.panic, fun _ => rfl⟩
    | some f =>
      simp only []
      cases he : f.elem with
      | scalar k => exact .inl ⟨.panic, fun _ => rfl⟩
      | message mi =>
        cases hs : f.shape <;> simp only []
        · exact stepR_under S p mi _
        · exact .inl ⟨.panic, fun _ => rfl⟩
        · split
          · exact stepR_under S p mi _
          · exact stepR_under S p mi _
        · exact .inl ⟨.panic, fun _ => rfl⟩
  | .at j n :: p, i, s => by
    simp only [Op.under, Reflect.stepR]
    cases hf : (S.msg i).fields[j]? with
    | none => exact .inl ⟨.panic, fun _ => rfl⟩
    | some f =>
      simp only []
      cases he : f.elem with
      | scalar k => exact .inl ⟨.panic, fun _ => rfl⟩
      | message mi =>
        cases hs : f.shape <;> simp only []
        · exact .inl ⟨.panic, fun _ => rfl⟩
        · split
          · exact stepR_under S p mi _
          · exact .inl ⟨.panic, fun _ => rfl⟩
        · exact .inl ⟨.panic, fun _ => rfl⟩
        · exact .inl ⟨.panic, fun _ => rfl⟩
  | .mv j k :: p, i, s => by
    simp only [Op.under, Reflect.stepR]
    cases hf : (S.msg i).fields[j]? with
    | none => exact .inl ⟨.panic, fun _ => rfl⟩
    | some f =>
      simp only []
      cases he : f.elem with
      | scalar k => exact .inl ⟨.panic, fun _ => rfl⟩
      | message mi =>
        cases hs : f.shape <;> simp only []
        · exact .inl ⟨.panic, fun _ => rfl⟩
        · exact .inl ⟨.panic, fun _ => rfl⟩
        · exact .inl ⟨.panic, fun _ => rfl⟩
        · split
          · exact stepR_under S p mi _
          · exact .inl ⟨.absent, fun _ => rfl⟩

/-- **Getters agree with `Get` on every nested message as well**: for `getter j` / `get j` addressed through
    any `in`/`at`/`mv` path, on any root state: either the path itself fails (both ops give the same
    `panic` / `absent`), or both ops run on the same reached message `c` — a nil one for an unpopulated
    message field — and there the getter's output is `Get`'s output in getter tokens, unless slot `j` of `c`
    is a typed-nil oneof wrapper. -/
theorem C19_getters_eq_get_at_path (S : Schema) (p : List PStep) (i : Nat) (s : Val) (j : Nat) :
    (Reflect.step S i s (Op.under p (.r (.getter j)))).2 = (Reflect.step S i s (Op.under p (.r (.get j)))).2 ∨
    (∃ mi c,
      (Reflect.step S i s (Op.under p (.r (.getter j)))).2 = (Reflect.step S mi c (.r (.getter j))).2 ∧
      (Reflect.step S i s (Op.under p (.r (.get j)))).2 = (Reflect.step S mi c (.r (.get j))).2 ∧
      (isOneNil (c.slot j) = false →
        (Reflect.step S mi c (.r (.getter j))).2 = ((Reflect.step S mi c (.r (.get j))).2).asGetter ∧
        GetterAgrees (Reflect.step S mi c (.r (.getter j))).2 (Reflect.step S mi c (.r (.get j))).2)) := by
  have hw : ∀ o : ROp, (Reflect.step S i s (Op.under p (.r o))).2 = Reflect.stepR S i s (Op.under p (.r o)) := by
    intro o
    simp only [Reflect.step, Op.under_isWrite, Op.isWrite, Bool.false_eq_true, if_false]
  rcases stepR_under S p i s with ⟨out, h⟩ | ⟨mi, c, h⟩
  · left; rw [hw, hw, h, h]
  · right
    refine ⟨mi, c, ?_, ?_, fun hn => C19_getters_eq_get S mi c j hn⟩
    · rw [hw, h, step_read]
    · rw [hw, h, step_read]

/-! ### Reset -/

theorem hasF_zero (f : FieldDesc) : Reflect.hasF f f.zero = false := by
  unfold Reflect.hasF FieldDesc.zero
  cases f.shape <;> cases f.elem <;> simp [implPresent, Val.isNone, Val.elems]
  rename_i k; cases k <;> simp [Kind.isBlob, Val.getBlob, Val.getBits]

/-- **`Reset` empties the message.** On every non-nil message — whatever it holds, unknown fields included,
    no typing hypothesis — `reset` (`proto.Reset` → the generated `Reset()`: `*x = T{}`) succeeds and leaves
    exactly `&T{}`; afterwards every `Has` is false, `Range` visits nothing, there are no unknown fields,
    no oneof has a member, every getter returns its zero value, and the message encodes to no bytes. -/
theorem C19_reset_is_empty (S : Schema) (i : Nat) (slots : List Val) (u : Bytes) :
    Reflect.step S i (.msg slots u) (.w .reset) = (emptyMsg S i, .ok) ∧
    (∀ j, j < (S.msg i).fields.length →
      (Reflect.step S i (Reflect.step S i (.msg slots u) (.w .reset)).1 (.r (.has j))).2 = .bool false) ∧
    (Reflect.step S i (emptyMsg S i) (.r .range)).2 = .fields [] ∧
    (Reflect.step S i (emptyMsg S i) (.r .getu)).2 = .unk [] ∧
    (Reflect.step S i (emptyMsg S i) (.r .valid)).2 = .bool true ∧
    (∀ j f, (S.msg i).fields[j]? = some f →
      (Reflect.step S i (emptyMsg S i) (.r (.getter j))).2 = Reflect.getterZero f) ∧
    (Reflect.step S i (emptyMsg S i) (.r .size)).2 = .nat 0 ∧
    (Reflect.step S i (emptyMsg S i) (.r .enc)).2 = .enc (.ok []) := by
  have hreset : Reflect.step S i (.msg slots u) (.w .reset) = (emptyMsg S i, .ok) := rfl
  refine ⟨hreset, ?_, ?_, ?_, ?_, ?_, ?_, ?_⟩
  · intro j hj
    obtain ⟨f, hf⟩ : ∃ f, (S.msg i).fields[j]? = some f := ⟨_, List.getElem?_eq_getElem hj⟩
    rw [hreset]
    have hz := emptyMsg_slot S i j f hf
    have hnn : (emptyMsg S i).isNone = false := rfl
    simp only [step_read, Reflect.read, hf, hnn, Bool.false_eq_true, if_false, hz, hasF_zero]
  · simp only [step_read, Reflect.read, emptyMsg, Val.isNone, Val.slots_msg, any_oneNil_zero, idxFilter_zero_impl]
    rfl
  · rfl
  · rfl
  · intro j f hf
    simp only [step_read, Reflect.read, hf]
    rw [← getterF_zero f, ← emptyMsg_slot S i j f hf]
    rfl
  · simp only [step_read, Reflect.read, depth_emptyMsg]
    rw [implSize_emptyMsg S Reflect.mopts rfl 1 i]
  · simp only [step_read, Reflect.read, depth_emptyMsg]
    rw [implMarshal_emptyMsg S Reflect.mopts rfl 1 i]

/-- `Reset` refines the reference: the abstraction of the result is what dynamicpb's `Reset` leaves. -/
theorem C19_reset_refines (S : Schema) (n i : Nat) (slots : List Val) (u : Bytes) :
    abs S n i (Reflect.step S i (.msg slots u) (.w .reset)).1
      = (SpecReflect.step S i (abs S n i (.msg slots u)) (.w .reset)).1 := by
  show abs S n i (emptyMsg S i) = emptyMsg S i
  exact repNorm_emptyMsg S n i

/-- `Reset()` on the nil receiver is a nil-pointer dereference (`*x = T{}`): it panics, the message stays nil. -/
theorem C19_reset_nil_panics (S : Schema) (i : Nat) :
    Reflect.step S i .none (.w .reset) = (.none, .panic) := rfl

/-! ### Non-vacuity: the testpb.A-like schema of C08/C09 -/

def schemaA19 : Schema := ⟨[
  ⟨[⟨1, .scalar .enum, .singular⟩, ⟨2, .scalar .bool, .singular⟩, ⟨3, .scalar .int32, .singular⟩,
    ⟨15, .scalar .string, .singular⟩, ⟨16, .scalar .bytes, .singular⟩, ⟨17, .message 1, .singular⟩,
    ⟨18, .message 1, .map .string⟩, ⟨19, .message 1, .repeated false⟩, ⟨20, .message 1, .oneof 0⟩,
    ⟨21, .scalar .string, .oneof 0⟩, ⟨22, .scalar .enum, .repeated true⟩, ⟨23, .message 2, .singular⟩]⟩,
  ⟨[⟨1, .scalar .string, .singular⟩]⟩,
  ⟨[]⟩]⟩

def msgB19 (b : Bytes) : Val := .msg [.blob false b] []

/-- A{ INT32: 7, BYTES: non-nil empty, MESSAGE: B{"hi"}, MAP: 2 entries, LIST: [B{"q"}], ONEOF_STRING: "s",
       LIST_ENUM: allocated-empty } with unknown bytes -/
def stateA19 : Val := .msg
  [.bits 0, .bits 0, .bits 7, .blob false [], .blob true [], msgB19 [104, 105],
   .map true [.entry (.blob false [98]) (msgB19 [120]), .entry (.blob false [97]) (msgB19 [])],
   .list true [msgB19 [113]], .none, .one (.blob false [115]), .list true [], .none] [0x98, 0x3f, 0x01]

example : schemaA19.WF = true := by decide
example : msgOK schemaA19 false 3 0 stateA19 = true := by decide

-- getters, evaluated: scalar, message pointer, map, list, inactive / active oneof member, allocated-empty list
example : (Reflect.step schemaA19 0 stateA19 (.r (.getter 2))).2 = .bits 7 := rfl
example : (Reflect.step schemaA19 0 stateA19 (.r (.getter 5))).2 = .msgv true := rfl
example : (Reflect.step schemaA19 0 stateA19 (.r (.getter 11))).2 = .msgv false := rfl
example : (Reflect.step schemaA19 0 stateA19 (.r (.getter 6))).2 = .gmap 2 := rfl
example : (Reflect.step schemaA19 0 stateA19 (.r (.get 6))).2 = .mapv true 2 := rfl
example : (Reflect.step schemaA19 0 stateA19 (.r (.getter 7))).2 = .glist 1 := rfl
example : (Reflect.step schemaA19 0 stateA19 (.r (.getter 8))).2 = .msgv false := rfl
example : (Reflect.step schemaA19 0 stateA19 (.r (.getter 9))).2 = .str [115] := rfl
example : (Reflect.step schemaA19 0 stateA19 (.r (.getter 10))).2 = .glist 0 := rfl
example : (Reflect.step schemaA19 0 stateA19 (.r (.get 10))).2 = .listv false 0 := rfl
example : (Reflect.step schemaA19 0 stateA19 (.r (.getter 12))).2 = .panic := rfl
-- nested: through the message field, through a list element, through a map value, through an unset field (nil)
example : (Reflect.step schemaA19 0 stateA19 (.in 5 (.r (.getter 0)))).2 = .str [104, 105] := rfl
example : (Reflect.step schemaA19 0 stateA19 (.at 7 0 (.r (.getter 0)))).2 = .str [113] := rfl
example : (Reflect.step schemaA19 0 stateA19 (.mv 6 (.blob false [98]) (.r (.getter 0)))).2 = .str [120] := rfl
example : (Reflect.step schemaA19 0 stateA19 (.in 8 (.r (.getter 0)))).2 = .str [] := rfl
-- the SPEC machine gives the same tokens
example : (SpecReflect.step schemaA19 0 (abs schemaA19 3 0 stateA19) (.r (.getter 6))).2 = .gmap 2 := rfl
example : (SpecReflect.step schemaA19 0 (abs schemaA19 3 0 stateA19) (.r (.getter 10))).2 = .glist 0 := rfl
-- the theorem, instantiated (root, nil receiver, path)
example : GetterAgrees (Reflect.step schemaA19 0 stateA19 (.r (.getter 6))).2
    (Reflect.step schemaA19 0 stateA19 (.r (.get 6))).2 :=
  (C19_getters_eq_get_wf schemaA19 3 0 stateA19 6 (by decide)).2
example : GetterAgrees (.gmap 2) (.mapv true 2) := ⟨rfl, rfl⟩
example : ¬ GetterAgrees (.gmap 2) (.mapv true 3) := by simp [GetterAgrees]
example : ¬ GetterAgrees (.bits 7) (.bits 8) := by simp [GetterAgrees]
example : ¬ GetterAgrees (.msgv true) (.msgv false) := by simp [GetterAgrees]
example : (Reflect.step schemaA19 0 .none (.r (.getter 7))).2 = .glist 0 := rfl
example : Op.under [.in 5] (.r (.getter 0)) = .in 5 (.r (.getter 0)) := rfl
-- the typed-nil wrapper: getter and Get both answer the default
def stateNilWrap : Val := .msg
  [.bits 0, .bits 0, .bits 0, .blob false [], .blob false [], .none, .map false [], .list false [], .oneNil, .none,
   .list false [], .none] []
example : (Reflect.step schemaA19 0 stateNilWrap (.r (.getter 8))).2 = .msgv false := rfl
example : (Reflect.step schemaA19 0 stateNilWrap (.r (.get 8))).2 = .msgv false := rfl
example : (Reflect.step schemaA19 0 stateNilWrap (.r (.getter 9))).2 = .str [] := rfl   -- the sibling member is fine
example : msgOK schemaA19 false 3 0 stateNilWrap = false := by decide   -- … and the state is not junk-free
-- Reset
example : Reflect.step schemaA19 0 stateA19 (.w .reset) = (emptyMsg schemaA19 0, .ok) :=
  (C19_reset_is_empty schemaA19 0 _ _).1
example : (Reflect.step schemaA19 0 stateA19 (.r (.has 2))).2 = .bool true := rfl
example : (Reflect.step schemaA19 0 stateA19 (.r .getu)).2 = .unk [0x98, 0x3f, 0x01] := rfl
example : (Reflect.step schemaA19 0 (Reflect.step schemaA19 0 stateA19 (.w .reset)).1 (.r (.has 2))).2 = .bool false :=
  (C19_reset_is_empty schemaA19 0 _ _).2.1 2 (by decide)
example : (Reflect.step schemaA19 0 (emptyMsg schemaA19 0) (.r (.which 0))).2 = .which none := rfl

end Pulsar

#print axioms Pulsar.C19_getters_eq_get
#print axioms Pulsar.C19_getters_eq_get_nil
#print axioms Pulsar.C19_getters_eq_get_wf
#print axioms Pulsar.C19_getter_typed_nil_wrapper_default
#print axioms Pulsar.C19_getters_eq_get_at_path
#print axioms Pulsar.C19_reset_is_empty
#print axioms Pulsar.C19_reset_refines
#print axioms Pulsar.C19_reset_nil_panics
