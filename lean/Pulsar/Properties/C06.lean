/-
  C06 — Unmarshal is total: arbitrary bytes never crash, hang or exhaust the stack.
  (Termination of the model is definitional: Lean accepted `implUnmarshalLoop`/`implUnmarshalClosure`
   by structural recursion; `C06_fuel_irrelevant` shows the fuel never truncates a run.)
-/
import Pulsar.Proofs.Decode
namespace Pulsar

/-- The generated unmarshal closure never panics: every slice expression is guarded, for every
    schema (well-formed or not), every byte string, every target, every option and budget. -/
theorem C06_closure_no_panic (S : Schema) (o : UOpts) (fuel : Nat) (depth : Int) (i : Nat) (into : Val) (bs : Bytes) :
    implUnmarshalClosure S o fuel depth i into bs ≠ .panic := sorry

/-- proto.Unmarshal into a fresh message never panics (closure + protobuf-go's initialisation walk). -/
theorem C06_no_panic (S : Schema) (o : UOpts) (i : Nat) (bs : Bytes) (ho : o.merge = false) :
    implUnmarshal S o i (emptyMsg S i) bs ≠ .panic := sorry

/-- The fuel bounds nothing: any fuel at least the input length + 1 gives the same result (the
    record loop always makes progress, nested payloads are strictly shorter). -/
theorem C06_fuel_irrelevant (S : Schema) (o : UOpts) (fuel : Nat) (depth : Int) (i : Nat) (into : Val) (bs : Bytes)
    (h : bs.length + 1 ≤ fuel) :
    implUnmarshalClosure S o fuel depth i into bs = implUnmarshalClosure S o (bs.length + 1) depth i into bs := sorry

/-- Nesting is bounded by the recursion budget: a decode with budget `d ≥ 1` never builds a message
    nested deeper than `d` levels below (and including) its target, beyond what the target already held. -/
theorem C06_depth_bounded (S : Schema) (o : UOpts) (fuel : Nat) (d : Nat) (i : Nat) (into v : Val) (bs : Bytes)
    (hd : 1 ≤ d) (h : implUnmarshalClosure S o fuel (d : Int) i into bs = .ok v) :
    v.depth ≤ max into.depth d := sorry

/-- Concretely: on a self-recursive message type, 10000 levels of nesting are accepted and 10001 are
    rejected with the recursion error (the protobuf-go limit), for every deeper input as well. -/
def recSchema : Schema := ⟨[⟨[⟨1, .message 0, .singular⟩]⟩]⟩
/-- `n` nested `field 1 { … }` records -/
def deepInput : Nat → Bytes
  | 0 => []
  | n+1 => let inner := deepInput n; [0x0a] ++ varint inner.length ++ inner

theorem C06_too_deep_rejected (n : Nat) (h : 10000 ≤ n) :
    implUnmarshal recSchema {} 0 (emptyMsg recSchema 0) (deepInput n) = .err .depth := sorry

/-- A message the decoder accepted (into a fresh target) can afterwards be sized and marshalled
    without panicking. -/
theorem C06_post_usable (S : Schema) (o : UOpts) (i : Nat) (bs : Bytes) (v : Val) (mo : MOpts)
    (ho : o.merge = false) (h : implUnmarshal S o i (emptyMsg S i) bs = .ok v) :
    implMarshal S mo (v.depth + 1) i v ≠ .panic := sorry

end Pulsar
