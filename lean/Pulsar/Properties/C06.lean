/-
  C06 — Unmarshal is total: arbitrary bytes never crash, hang or exhaust the stack.
  (Termination of the model is definitional: Lean accepted `implUnmarshalLoop`/`implUnmarshalClosure`
   by structural recursion; `C06_fuel_irrelevant` shows the fuel never truncates a run.)
-/
import Pulsar.Proofs.Decode
namespace Pulsar

/-- The generated unmarshal closure never panics: every slice expression is guarded, for every
    schema (well-formed or not), every byte string, every target, every option and budget. -/
theorem C06_closure_no_panic (S : Schema) (o : UOpts) (fuel : Nat) (depth : Int) (i : Nat) (into : Val) (bs : Bytes) :
    implUnmarshalClosure S o fuel depth i into bs ≠ .panic :=
  implUnmarshalClosure_ne_panic S o fuel depth i into bs

/-- proto.Unmarshal into a fresh message never panics (closure + protobuf-go's initialisation walk). -/
theorem C06_no_panic (S : Schema) (o : UOpts) (i : Nat) (bs : Bytes) (ho : o.merge = false) :
    implUnmarshal S o i (emptyMsg S i) bs ≠ .panic :=
  -- (`ho` is not needed: the fresh target is nil-free, so even Merge into it cannot panic)
  have _ := ho
  implUnmarshal_fresh_ne_panic S o i bs

/-- The fuel bounds nothing: any fuel at least the input length + 1 gives the same result (the
    record loop always makes progress, nested payloads are strictly shorter). -/
theorem C06_fuel_irrelevant (S : Schema) (o : UOpts) (fuel : Nat) (depth : Int) (i : Nat) (into : Val) (bs : Bytes)
    (h : bs.length + 1 ≤ fuel) :
    implUnmarshalClosure S o fuel depth i into bs = implUnmarshalClosure S o (bs.length + 1) depth i into bs :=
  implUnmarshalClosure_fuel S o fuel (bs.length + 1) depth i into bs h (Nat.le_refl _)

/-- Nesting is bounded by the recursion budget: a decode with budget `d ≥ 1` never builds a message
    nested deeper than `d` levels below (and including) its target, beyond what the target already held.

    FALSE as stated (see `C06_remark_depth_bound_d_fails`), for two independent reasons:
    * the map code allocates an empty message for an entry without a value field
      (`if mapvalue == nil { mapvalue = &T{} }`) without spending budget, so a message-valued map at
      the last permitted level adds one more level (off by one, not a stack hazard: no recursion);
    * the model's tree fuel: with `fuel ≤` the input length a child call can run out of fuel and
      return its target unchanged instead of the recursion error.
    Proved instead: `d + 1` for every schema and fuel (`C06_depth_bounded`), and exactly `d`
    when no map field has a message value and the fuel is the one `proto.Unmarshal` uses
    (`C06_depth_bounded_exact`). -/
def Remark_depth_bound_d : Prop :=
  ∀ (S : Schema) (o : UOpts) (fuel : Nat) (d : Nat) (i : Nat) (into v : Val) (bs : Bytes),
    1 ≤ d → implUnmarshalClosure S o fuel (d : Int) i into bs = .ok v → v.depth ≤ max into.depth d

theorem C06_depth_bounded (S : Schema) (o : UOpts) (fuel : Nat) (d : Nat) (i : Nat) (into v : Val) (bs : Bytes)
    (hd : 1 ≤ d) (h : implUnmarshalClosure S o fuel (d : Int) i into bs = .ok v) :
    v.depth ≤ max into.depth (d + 1) :=
  implUnmarshalClosure_depth_le S o fuel d i into v bs hd h

theorem C06_depth_bounded_exact (S : Schema) (o : UOpts) (fuel : Nat) (d : Nat) (i : Nat) (into v : Val)
    (bs : Bytes) (hS : NoMsgMap S) (hf : bs.length + 1 ≤ fuel)
    (hd : 1 ≤ d) (h : implUnmarshalClosure S o fuel (d : Int) i into bs = .ok v) :
    v.depth ≤ max into.depth d := by
  have := implUnmarshalClosure_depth_exact S hS o fuel (d : Int) i into bs v hf h
  rwa [exactBound_pos d hd] at this

/-- `message M { map<int32, N> f = 1; }  message N {}` -/
def mapSchema : Schema := ⟨[⟨[⟨1, .message 1, .map .int32⟩]⟩, ⟨[]⟩]⟩

/-- budget 1, ample fuel, the two bytes `0a 00` (one map entry with neither key nor value): the result
    `{f: {0: {}}}` has depth 2. -/
theorem C06_remark_depth_bound_d_fails : ¬ Remark_depth_bound_d := by
  intro h
  have h1 : implUnmarshalClosure mapSchema {} 3 ((1 : Nat) : Int) 0 (emptyMsg mapSchema 0) [0x0a, 0x00] =
      .ok (.msg [.map true [.entry (.bits 0) (.msg [] [])]] []) := by rfl
  have := h mapSchema {} 3 1 0 (emptyMsg mapSchema 0) _ [0x0a, 0x00] (by decide) h1
  revert this
  decide

/-- Concretely: on a self-recursive message type, 10000 levels of nesting are accepted and 10001 are
    rejected with the recursion error (the protobuf-go limit), for every deeper input as well. -/
def recSchema : Schema := ⟨[⟨[⟨1, .message 0, .singular⟩]⟩]⟩
/-- `n` nested `field 1 { … }` records -/
def deepInput : Nat → Bytes
  | 0 => []
  | n+1 => let inner := deepInput n; [0x0a] ++ varint inner.length ++ inner

/-- FALSE as stated only for astronomically large `n` (not a finding): once the input reaches 2^63 bytes the
    outermost length prefix is read as a negative Go `int` and the error is `invalidLength`, not the
    recursion error. No Go slice is that long; the hypothesis is stated explicitly in the `_partial`. -/
def Remark_too_deep_unbounded : Prop :=
  ∀ (n : Nat), 10000 ≤ n →
    implUnmarshal recSchema {} 0 (emptyMsg recSchema 0) (deepInput n) = .err .depth

theorem deepInput_eq_deepBytes (n : Nat) : deepInput n = deepBytes n := by
  induction n with
  | zero => rfl
  | succ n ih => simp only [deepInput, deepBytes, ih]

theorem C06_too_deep_rejected (n : Nat) (h : 10000 ≤ n)
    (hl : (deepInput n).length < 9223372036854775808) :
    implUnmarshal recSchema {} 0 (emptyMsg recSchema 0) (deepInput n) = .err .depth := by
  rw [deepInput_eq_deepBytes] at hl ⊢
  exact implUnmarshal_selfRec_deep n h hl

/-- the absurd counterexample: 2^60 + 1 levels; the nested payload is between 2^63 and 2^64 bytes long -/
theorem C06_remark_too_deep_needs_length_bound : ¬ Remark_too_deep_unbounded := by
  intro h
  have h1 := h (hugeDepth + 1) (by decide)
  rw [deepInput_eq_deepBytes] at h1
  have h2 := implUnmarshal_selfRec_huge
  have e : recSchema = selfRec := rfl
  rw [e, h2] at h1
  cases h1

/-- A message the decoder accepted (into a fresh target) can afterwards be sized and marshalled
    without panicking.

    FALSE as stated (`C06_remark_post_usable_needs_wf`): the statement quantifies over schemas protoc
    rejects. With a *packed repeated message* field (`S.WF` forbids it) the decoder happily appends
    elements, and the marshal template has no packed branch for messages (modelled as `.panic`).
    It also quantifies over an arbitrary `mo.perm` (map iteration order), which must be a permutation. -/
def Remark_post_usable_any_schema : Prop :=
  ∀ (S : Schema) (o : UOpts) (i : Nat) (bs : Bytes) (v : Val) (mo : MOpts),
    o.merge = false → implUnmarshal S o i (emptyMsg S i) bs = .ok v →
    implMarshal S mo (v.depth + 1) i v ≠ .panic

/-- `message M { repeated M f = 1 [packed = true]; }` — not accepted by protoc -/
def packedMsgSchema : Schema := ⟨[⟨[⟨1, .message 0, .repeated true⟩]⟩]⟩

theorem C06_remark_post_usable_needs_wf : ¬ Remark_post_usable_any_schema := by
  intro h
  have hc : implUnmarshalClosure packedMsgSchema {} (([0x0a, 0x00] : Bytes).length + 1) 10000 0
      (emptyMsg packedMsgSchema 0) [0x0a, 0x00] = .ok (.msg [.list true [.msg [.list false []] []]] []) := by rfl
  have hu : implUnmarshal packedMsgSchema {} 0 (emptyMsg packedMsgSchema 0) [0x0a, 0x00] =
      .ok (.msg [.list true [.msg [.list false []] []]] []) := implUnmarshal_fresh_of_closure hc
  exact h packedMsgSchema {} 0 [0x0a, 0x00] _ ⟨true, id⟩ rfl hu (by rfl)

/-- The statement with the two missing hypotheses made explicit: a schema protoc accepts (only
    "no packed message field" is used: `PU.NoPackedMsg`, implied by `S.WF`), and a map iteration order
    that only yields entries of the map. Then `proto.Marshal` of the decoded message, with any fuel (in
    particular `v.depth + 1`), does not panic — and writes exactly `proto.Size` bytes. -/
theorem C06_post_usable (S : Schema) (hS : S.WF = true) (o : UOpts) (i : Nat) (bs : Bytes) (v : Val) (mo : MOpts)
    (hperm : mo.det = false → ∀ l x, x ∈ mo.perm l → x ∈ l)
    (ho : o.merge = false) (h : implUnmarshal S o i (emptyMsg S i) bs = .ok v) :
    implMarshal S mo (v.depth + 1) i v ≠ .panic :=
  have _ := ho
  PU.implMarshal_decoded_ne_panic S (PU.noPackedMsg_of_WF S hS) o i bs v mo hperm _ h

theorem C06_post_usable_size (S : Schema) (hS : S.WF = true) (o : UOpts) (i : Nat) (bs : Bytes) (v : Val)
    (mo : MOpts) (hperm : mo.det = false → ∀ l x, x ∈ mo.perm l → x ∈ l)
    (h : implUnmarshal S o i (emptyMsg S i) bs = .ok v) :
    ∃ b, implMarshal S mo (v.depth + 1) i v = .ok b ∧ b.length = implSize S mo (v.depth + 1) i v :=
  PU.implMarshal_decoded_size S (PU.noPackedMsg_of_WF S hS) o i bs v mo hperm _ h

/-- What holds for every schema: the decoded value contains no typed-nil oneof wrapper, the
    initialisation walk of `proto.Marshal` cannot panic on it (whatever the fuel), and so `proto.Marshal`
    can only panic inside the generated marshal closure. -/
theorem C06_post_usable_walk (S : Schema) (o : UOpts) (i : Nat) (bs : Bytes) (v : Val) (mo : MOpts) (fuel : Nat)
    (h : implUnmarshal S o i (emptyMsg S i) bs = .ok v) :
    walkPanics S fuel i v = false ∧
      (implMarshal S mo fuel i v = .panic → implMarshalClosure S mo fuel i v = .panic) :=
  ⟨walkPanics_noNil S fuel i v (implUnmarshal_ok_noNil h),
   implMarshal_panic_of_noNil (implUnmarshal_ok_noNil h)⟩

/-! ### Non-vacuity -/

/-- three levels `M{f: M{f: M{}}}` from `0a 02 0a 00` with budget 5: accepted (so the hypotheses of the
    depth theorems are satisfiable), depth 3. -/
example : implUnmarshalClosure recSchema {} 5 ((5 : Nat) : Int) 0 (emptyMsg recSchema 0) [0x0a, 0x02, 0x0a, 0x00] =
    .ok (.msg [.msg [.msg [.none] []] []] []) := by rfl
example : (Val.msg [.msg [.msg [.none] []] []] []).depth ≤ max (emptyMsg recSchema 0).depth (5 + 1) :=
  C06_depth_bounded recSchema {} 5 5 0 _ _ [0x0a, 0x02, 0x0a, 0x00] (by decide) (by rfl)

theorem recSchema_noMsgMap : NoMsgMap recSchema := by
  intro i f hf kk hk
  cases i with
  | zero =>
    simp only [recSchema, Schema.msg, List.getD_cons_zero, List.mem_singleton] at hf
    subst hf; cases hk
  | succ i => simp [recSchema, Schema.msg] at hf

example : (Val.msg [.msg [.msg [.none] []] []] []).depth ≤ max (emptyMsg recSchema 0).depth 5 :=
  C06_depth_bounded_exact recSchema {} 5 5 0 _ _ [0x0a, 0x02, 0x0a, 0x00] recSchema_noMsgMap (by decide)
    (by decide) (by rfl)

/-- with budget 2 the same input is rejected with the recursion error. -/
example : implUnmarshalClosure recSchema {} 5 2 0 (emptyMsg recSchema 0) [0x0a, 0x02, 0x0a, 0x00] = .err .depth := by rfl

/-- the length hypothesis of `C06_too_deep_rejected` holds at the limit: 10000 nested records
    (10001 levels) are rejected. -/
example : implUnmarshal recSchema {} 0 (emptyMsg recSchema 0) (deepInput 10000) = .err .depth :=
  C06_too_deep_rejected 10000 (by decide) (by
    rw [deepInput_eq_deepBytes]
    have := deepBytes_length_le 10000 (by decide)
    omega)

/-- `message M { sint32 a = 1; repeated M kids = 2; }` (well-formed): `08 03 12 02 08 01 1a 01 ff` is accepted
    (`a = -2`, one child with `a = -1`, unknown record `3: "\xff"`), and can be marshalled again. -/
def usableSchema : Schema := ⟨[⟨[⟨1, .scalar .sint32, .singular⟩, ⟨2, .message 0, .repeated false⟩]⟩]⟩

example : usableSchema.WF = true := by decide

theorem usable_decodes :
    implUnmarshal usableSchema {} 0 (emptyMsg usableSchema 0) [0x08, 0x03, 0x12, 0x02, 0x08, 0x01, 0x1a, 0x01, 0xff] =
      .ok (.msg [.bits 4294967294, .list true [.msg [.bits 4294967295, .list false []] []]] [0x1a, 0x01, 0xff]) :=
  implUnmarshal_fresh_of_closure (by rfl)

example (mo : MOpts) (hperm : mo.det = false → ∀ l x, x ∈ mo.perm l → x ∈ l) :
    implMarshal usableSchema mo
      ((Val.msg [.bits 4294967294, .list true [.msg [.bits 4294967295, .list false []] []]] [0x1a, 0x01, 0xff]).depth + 1) 0
      (.msg [.bits 4294967294, .list true [.msg [.bits 4294967295, .list false []] []]] [0x1a, 0x01, 0xff]) ≠ .panic :=
  C06_post_usable usableSchema (by decide) {} 0 _ _ mo hperm rfl usable_decodes

#print axioms C06_closure_no_panic
#print axioms C06_no_panic
#print axioms C06_fuel_irrelevant
#print axioms C06_depth_bounded
#print axioms C06_depth_bounded_exact
#print axioms C06_remark_depth_bound_d_fails
#print axioms C06_too_deep_rejected
#print axioms C06_remark_too_deep_needs_length_bound
#print axioms C06_post_usable
#print axioms C06_post_usable_size
#print axioms C06_post_usable_walk
#print axioms C06_remark_post_usable_needs_wf

end Pulsar
