/-
  C08 — the generated fast reflection (IMPL machine `Reflect.step`, over the Go struct) refines
  protobuf-go's reference semantics (SPEC machine `SpecReflect.step`, dynamicpb over abstract messages),
  step by step and along every history; with the consequences for oneofs, Range and list/map views.
  Property theorems only; helper lemmas live in Pulsar/Proofs/Reflect*.lean.

  Domain: the state is a well-typed, junk-free Go struct (`msgOK S false n i s`), the op's value arguments
  are well-typed (`Op.ok S n i op`). `abs = repNorm` is the abstraction; the SPEC machine receives the op
  with abstract value arguments (`Op.abs`). Field indexes out of range and ops addressed to a field of the
  wrong shape are *inside* the domain (both machines panic).
-/
import Pulsar.Proofs.ReflectCor
import Pulsar.Proofs.ReflectCodec
namespace Pulsar

/-- One step: the outputs are equivalent and the abstract states agree. Covers every op of the protocol at
    every path (`in`/`at`/`mv` prefixes), except that the *output* of `size`/`enc` is the codec's business
    (`C08_codec_statement`). `OutEq` is plain equality (see its definition for why). -/
theorem C08_step_refines (S : Schema) (n i : Nat) (s : Val) (op : Op)
    (hs : msgOK S false n i s = true) (hop : Op.ok S n i op = true) (hc : op.usesCodec = false) :
    OutEq (Reflect.step S i s op).2 (SpecReflect.step S i (abs S n i s) (Op.abs S n i op)).2 ∧
    abs S n i (Reflect.step S i s op).1 = (SpecReflect.step S i (abs S n i s) (Op.abs S n i op)).1 :=
  let h := step_refines S n i s op hs hop
  ⟨h.1 hc, h.2.1⟩

/-- … and the abstract states agree for the codec ops as well (they do not change the state). -/
theorem C08_step_state (S : Schema) (n i : Nat) (s : Val) (op : Op)
    (hs : msgOK S false n i s = true) (hop : Op.ok S n i op = true) :
    abs S n i (Reflect.step S i s op).1 = (SpecReflect.step S i (abs S n i s) (Op.abs S n i op)).1 :=
  (step_refines S n i s op hs hop).2.1

/-- The invariant: every step keeps the Go struct well-typed and junk-free (one slot per field, no nil
    list element / map value / typed-nil wrapper, distinct map keys, at most one member per oneof). -/
theorem C08_step_preserves_wf (S : Schema) (n i : Nat) (s : Val) (op : Op)
    (hs : msgOK S false n i s = true) (hop : Op.ok S n i op = true) :
    msgOK S false n i (Reflect.step S i s op).1 = true :=
  (step_refines S n i s op hs hop).2.2

/-- Histories: the output sequences are pointwise equivalent and the final abstract states agree. -/
theorem C08_history_refines (S : Schema) (n i : Nat) (s : Val) (ops : List Op)
    (hs : msgOK S false n i s = true)
    (hops : ∀ op ∈ ops, Op.ok S n i op = true ∧ op.usesCodec = false) :
    OutsEq (Reflect.run S i s ops).2 (SpecReflect.run S i (abs S n i s) (ops.map (Op.abs S n i))).2 ∧
    abs S n i (Reflect.run S i s ops).1 = (SpecReflect.run S i (abs S n i s) (ops.map (Op.abs S n i))).1 := by
  obtain ⟨h1, h2, _⟩ := run_refines_aux S n i ops s [] hs hops
  unfold Reflect.run SpecReflect.run
  rw [← h1]
  exact ⟨OutsEq_refl _, h2⟩

/-- After any history every oneof group has at most one member set. -/
theorem C08_oneof_at_most_one (S : Schema) (n i : Nat) (s : Val) (ops : List Op)
    (hs : msgOK S false n i s = true) (hops : ∀ op ∈ ops, Op.ok S n i op = true) (g : Nat) :
    (((S.msg i).fields.zip (Reflect.run S i s ops).1.slots).filter
      (fun p => p.1.group? == some g && !p.2.isNone)).length ≤ 1 := by
  have hw := run_preserves_wf S n i ops s [] hs hops
  exact (oneofOK_iff _).1 (msgOK_oneofOK hw) g

/-- `Set` of a oneof member makes it the set member (with the stored value) and unsets every other
    member of the group; fields outside the group keep their slot. -/
theorem C08_set_member_replaces (S : Schema) (n i : Nat) (slots : List Val) (u : Bytes) (j g : Nat)
    (f : FieldDesc) (a x : Val)
    (hs : msgOK S false (n+1) i (.msg slots u) = true) (hf : (S.msg i).fields[j]? = some f)
    (hsh : f.shape = .oneof g) (hx : Reflect.storeElem f.elem a = some x) :
    let s' := (Reflect.step S i (.msg slots u) (.w (.set j a))).1
    (Reflect.step S i s' (.r (.has j))).2 = .bool true ∧
    (Reflect.step S i s' (.r (.get j))).2 = outElem f.elem x ∧
    (Reflect.step S i s' (.r (.which g))).2 = .which (some j) ∧
    (∀ j' f', j' ≠ j → (S.msg i).fields[j']? = some f' → f'.group? = some g →
        (Reflect.step S i s' (.r (.has j'))).2 = .bool false) ∧
    (∀ j' f', (S.msg i).fields[j']? = some f' → f'.group? ≠ some g → s'.slot j' = slots.getD j' .none) := by
  have hlen := msgOK_length hs
  have hjl : j < (clearGroup (S.msg i).fields g slots).length := by
    rw [length_clearGroup _ _ _ hlen]; exact lt_of_getElem?_some hf
  intro s'
  have hs' : s' = .msg ((clearGroup (S.msg i).fields g slots).set j (.one x)) u := by
    show (Reflect.step S i (.msg slots u) (.w (.set j a))).1 = _
    rw [step_write_field S i slots u _ j f rfl hf]
    simp only [Reflect.writeF, Reflect.setF, hsh, hx, applyFW]
  rw [hs']
  simp only [step_read, Reflect.read, Val.isNone_msg, Bool.false_eq_true, if_false, Val.slot, Val.slots_msg]
  refine ⟨?_, ?_, ?_, ?_, ?_⟩
  · simp only [hf, getD_set_self _ _ _ _ hjl, Reflect.hasF, hsh, Val.isNone, Bool.not_false]
  · simp only [hf, getD_set_self _ _ _ _ hjl, Reflect.getF, hsh]
  · have hany : (S.msg i).fields.any (fun f => f.group? == some g) = true :=
      List.any_eq_true.2 ⟨f, List.mem_of_getElem? hf, by simp [group_of_shape hsh]⟩
    simp only [hany, if_true]
    have := whichFrom_eq_some g (S.msg i).fields ((clearGroup (S.msg i).fields g slots).set j (.one x)) 0 j f hf
      (group_of_shape hsh) (by rw [List.length_set]; exact hjl)
      (by rw [getD_set_self _ _ _ _ hjl]; rfl)
      (fun j' f' hj' hf' hg' => by
        rw [getD_set_ne _ _ _ _ _ (by omega), getD_clearGroup _ _ _ _ f' hf' hlen, hg']
        simp [Val.isNone])
    rw [this]; simp
  · intro j' f' hne hf' hg'
    have hsh' : ∃ g', f'.shape = .oneof g' := by
      unfold FieldDesc.group? at hg'
      cases h : f'.shape <;> simp [h] at hg'
      exact ⟨_, rfl⟩
    obtain ⟨g', hsh'⟩ := hsh'
    simp only [hf', getD_set_ne _ _ _ _ _ (Ne.symm hne), getD_clearGroup _ _ _ _ f' hf' hlen, hg',
      beq_self_eq_true, if_true, Reflect.hasF, hsh', Val.isNone, Bool.not_true]
  · intro j' f' hf' hg'
    have hne : j ≠ j' := by
      intro h; subst h
      rw [hf] at hf'; cases hf'
      exact hg' (group_of_shape hsh)
    have hb : (f'.group? == some g) = false := by simpa using hg'
    simp only [getD_set_ne _ _ _ _ _ hne, getD_clearGroup _ _ _ _ f' hf' hlen, hb, Bool.false_eq_true, if_false]

/-- `Clear` of a oneof member that is not the set one changes nothing (in particular it does not unset
    the sibling that is set). -/
theorem C08_clear_inactive_member_noop (S : Schema) (i : Nat) (slots : List Val) (u : Bytes) (j g : Nat)
    (f : FieldDesc) (hf : (S.msg i).fields[j]? = some f) (hsh : f.shape = .oneof g)
    (hin : slots.getD j .none = .none) :
    Reflect.step S i (.msg slots u) (.w (.clear j)) = (.msg slots u, .ok) := by
  rw [step_write_field S i slots u _ j f rfl hf]
  have hz : f.zero = .none := by
    unfold FieldDesc.zero; rw [hsh]
  have hset : slots.set j Val.none = slots := by
    have := set_getD_self Val.none slots j
    rw [hin] at this; exact this
  simp only [Reflect.writeF, Reflect.clearF, applyFW, hz, hset]

/-- `Range` visits exactly the populated fields, each exactly once (the visited indexes are strictly
    increasing, and `j` is visited iff `Has(j)`). -/
theorem C08_range_exactly_populated_once (S : Schema) (n i : Nat) (slots : List Val) (u : Bytes)
    (hs : msgOK S false (n+1) i (.msg slots u) = true) :
    ∃ js, (Reflect.step S i (.msg slots u) (.r .range)).2 = .fields js ∧
      js.Pairwise (· < ·) ∧ js.Nodup ∧
      ∀ j, j ∈ js ↔ (Reflect.step S i (.msg slots u) (.r (.has j))).2 = .bool true := by
  have hlen := msgOK_length hs
  have hall : ((S.msg i).fields.zip slots).all (fun p => slotOK (msgOK S false n) false p.1 p.2) = true := by
    rw [msgOK_succ] at hs
    simp only [Bool.and_eq_true] at hs
    exact hs.1.2
  refine ⟨idxFilter Reflect.hasF 0 (S.msg i).fields slots, ?_, idxFilter_sorted _ _ _ _, ?_, ?_⟩
  · simp [step_read, Reflect.read, any_oneNil_false S n _ _ hlen hall]
  · exact (idxFilter_sorted Reflect.hasF (S.msg i).fields slots 0).imp (fun h => Nat.ne_of_lt h)
  · intro j
    rw [mem_idxFilter]
    simp only [step_read, Reflect.read, Val.isNone_msg, Bool.false_eq_true, if_false, Val.slot, Val.slots_msg,
      Nat.zero_add]
    constructor
    · rintro ⟨j', f, rfl, hf, _, hp⟩
      simp only [hf, hp]
    · intro h
      cases hf : (S.msg i).fields[j]? with
      | none => simp [hf] at h
      | some f =>
        simp only [hf, Out.bool.injEq] at h
        exact ⟨j, f, rfl, hf, hlen ▸ lt_of_getElem?_some hf, h⟩

/-- List views write through: after `Mutable(fd).List().Append(v)` the message reports one more element
    (`Len`, `Get`'s view) and `Get(len)` is the appended value. -/
theorem C08_mutable_view_writes_through_list (S : Schema) (i : Nat) (slots : List Val) (u : Bytes) (j : Nat)
    (f : FieldDesc) (p : Bool) (a x : Val)
    (hl : slots.length = (S.msg i).fields.length) (hf : (S.msg i).fields[j]? = some f)
    (hsh : f.shape = .repeated p) (hx : Reflect.storeElem f.elem a = some x) :
    let s' := (Reflect.step S i (.msg slots u) (.w (.lapp j a))).1
    (Reflect.step S i (.msg slots u) (.r (.llen j))).2 = .nat (slots.getD j .none).elems.length ∧
    (Reflect.step S i s' (.r (.llen j))).2 = .nat ((slots.getD j .none).elems.length + 1) ∧
    (Reflect.step S i s' (.r (.get j))).2 = .listv true ((slots.getD j .none).elems.length + 1) ∧
    (Reflect.step S i s' (.r (.lget j (slots.getD j .none).elems.length))).2 = outElem f.elem x := by
  have hjl : j < slots.length := hl ▸ lt_of_getElem?_some hf
  intro s'
  have hs' : s' = .msg (slots.set j (.list true ((slots.getD j .none).elems ++ [x]))) u := by
    show (Reflect.step S i (.msg slots u) (.w (.lapp j a))).1 = _
    rw [step_write_field S i slots u _ j f rfl hf]
    simp only [Reflect.writeF, Reflect.lappF, hsh, hx, applyFW]
  rw [hs']
  simp only [step_read, Reflect.read, Val.isNone_msg, Bool.false_eq_true, if_false, Val.slot, Val.slots_msg, hf,
    hsh, getD_set_self _ _ _ _ hjl, Val.elems_list, List.length_append, List.length_cons, List.length_nil,
    Reflect.getF]
  generalize (slots.getD j Val.none).elems = es
  refine ⟨trivial, trivial, ?_, ?_⟩
  · cases es <;> rfl
  · rw [List.getElem?_append_right (Nat.le_refl _)]
    simp

/-- Map views write through: after `Mutable(fd).Map().Set(k, v)` the message has the key and `Get(k)` is
    the stored value. -/
theorem C08_mutable_view_writes_through_map (S : Schema) (i : Nat) (slots : List Val) (u : Bytes) (j : Nat)
    (f : FieldDesc) (kk : Kind) (k k' a x : Val)
    (hl : slots.length = (S.msg i).fields.length) (hf : (S.msg i).fields[j]? = some f)
    (hsh : f.shape = .map kk) (hk : Reflect.storeElem (.scalar kk) k = some k')
    (hx : Reflect.storeElem f.elem a = some x) :
    let s' := (Reflect.step S i (.msg slots u) (.w (.mset j k a))).1
    (Reflect.step S i s' (.r (.mhas j k))).2 = .bool true ∧
    (Reflect.step S i s' (.r (.mget j k))).2 = outElem f.elem x := by
  have hjl : j < slots.length := hl ▸ lt_of_getElem?_some hf
  have hkk : kbeqOf kk k' k = true := by
    obtain ⟨h1, h2⟩ := storeElem_scalar_bits hk
    rw [kbeqOf_of_bits_blob kk h1.symm h2.symm]; exact kbeqOf_refl kk k'
  intro s'
  have hs' : s' = .msg (slots.set j (.map true (mapPut (kbeqOf kk) (slots.getD j .none).elems k' x))) u := by
    show (Reflect.step S i (.msg slots u) (.w (.mset j k a))).1 = _
    rw [step_write_field S i slots u _ j f rfl hf]
    simp only [Reflect.writeF, Reflect.msetF, hsh, hk, hx, applyFW]
  rw [hs']
  simp only [step_read, Reflect.read, Val.isNone_msg, Bool.false_eq_true, if_false, Val.slot, Val.slots_msg, hf,
    hsh, getD_set_self _ _ _ _ hjl, Val.elems_map, any_mapPut kk _ k k' x hkk, findEntry_mapPut kk _ k k' x hkk,
    Val.value_entry, and_self]

/-- Views write through (lists and maps). -/
theorem C08_mutable_view_writes_through :
    (∀ (S : Schema) (i : Nat) (slots : List Val) (u : Bytes) (j : Nat) (f : FieldDesc) (p : Bool) (a x : Val),
      slots.length = (S.msg i).fields.length → (S.msg i).fields[j]? = some f → f.shape = .repeated p →
      Reflect.storeElem f.elem a = some x →
      (Reflect.step S i (Reflect.step S i (.msg slots u) (.w (.lapp j a))).1 (.r (.llen j))).2
        = .nat ((slots.getD j .none).elems.length + 1)) ∧
    (∀ (S : Schema) (i : Nat) (slots : List Val) (u : Bytes) (j : Nat) (f : FieldDesc) (kk : Kind) (k k' a x : Val),
      slots.length = (S.msg i).fields.length → (S.msg i).fields[j]? = some f → f.shape = .map kk →
      Reflect.storeElem (.scalar kk) k = some k' → Reflect.storeElem f.elem a = some x →
      (Reflect.step S i (Reflect.step S i (.msg slots u) (.w (.mset j k a))).1 (.r (.mget j k))).2
        = outElem f.elem x) :=
  ⟨fun S i slots u j f p a x hl hf hsh hx =>
      (C08_mutable_view_writes_through_list S i slots u j f p a x hl hf hsh hx).2.1,
   fun S i slots u j f kk k k' a x hl hf hsh hk hx =>
      (C08_mutable_view_writes_through_map S i slots u j f kk k k' a x hl hf hsh hk hx).2⟩

/-- What is left to the codec properties: on well-typed values with valid UTF-8 strings the outputs of
    `size`/`enc` agree as well. This is C02 (`implMarshal = specEncode`) composed with C05
    (`specEncode` does not depend on the representation) and the Size lemma of C04. Proved below
    (`C08_codec_ops_refine`), now that C02/C04/C05 exist. -/
def C08_codec_statement : Prop :=
  ∀ (S : Schema), S.WF = true → ∀ (n i : Nat) (s : Val), i < S.msgs.length → msgOK S false n i s = true →
    utf8OK S n i s = true → ∀ (o : ROp), o.usesCodec = true →
      (Reflect.step S i s (.r o)).2 = (SpecReflect.step S i (abs S n i s) (.r o)).2


/-! ### The codec ops, and every op at once

  The SPEC machine's `enc` is `proto.Marshal` of the reference implementation: it *fails* (`err`) on a
  proto3 string that is not valid UTF-8, whereas the generated marshaller does not validate. Hence the
  hypothesis `utf8OK` on the state. `Op.utf8` (Proofs/ReflectCodec) says that the strings a write op stores
  are valid UTF-8; such ops preserve `utf8OK`, so the hypothesis is an invariant of histories. -/

/-- `C08_codec_statement` holds: at the root, `size` and `enc` give the same output on the Go struct and on
    the abstract message (well-formed schema, well-typed state, valid UTF-8). -/
theorem C08_codec_ops_refine : C08_codec_statement := by
  intro S hS n i s hi hs hu o hc
  simp only [step_read, SpecReflect.step, Op.isWrite, Bool.false_eq_true, if_false, SpecReflect.stepR]
  exact (rc_read_codec_msg S hS n i s hi hs hu o hc).symm

/-- One step of a codec op at any path (`in`/`at`/`mv` prefixes; the target may be an unpopulated message:
    `0` / no bytes on both sides): outputs equivalent, states related. -/
theorem C08_step_refines_codec (S : Schema) (hS : S.WF = true) (n i : Nat) (s : Val) (op : Op)
    (hi : i < S.msgs.length) (hs : msgOK S false n i s = true) (hu : utf8OK S n i s = true)
    (hop : Op.ok S n i op = true) (hc : op.usesCodec = true) :
    OutEq (Reflect.step S i s op).2 (SpecReflect.step S i (abs S n i s) (Op.abs S n i op)).2 ∧
    abs S n i (Reflect.step S i s op).1 = (SpecReflect.step S i (abs S n i s) (Op.abs S n i op)).1 :=
  let h := rc_step_refines_all S hS n i s op hi hs hu hop (rc_utf8_of_read S op n i (rc_usesCodec_isRead op hc))
  ⟨h.1, h.2.1⟩

/-- One step, **every** op of the protocol (codec or not, any path): outputs equivalent, abstract states
    equal. Compared with `C08_step_refines` the hypothesis `usesCodec = false` is traded for: well-formed
    schema, type index in range, valid UTF-8 in the state (needed by `enc` only) and in the op's arguments
    (needed only to keep the invariant; see `C08_step_preserves_utf8`). -/
theorem C08_step_refines_all (S : Schema) (hS : S.WF = true) (n i : Nat) (s : Val) (op : Op)
    (hi : i < S.msgs.length) (hs : msgOK S false n i s = true) (hu : utf8OK S n i s = true)
    (hop : Op.ok S n i op = true) :
    OutEq (Reflect.step S i s op).2 (SpecReflect.step S i (abs S n i s) (Op.abs S n i op)).2 ∧
    abs S n i (Reflect.step S i s op).1 = (SpecReflect.step S i (abs S n i s) (Op.abs S n i op)).1 := by
  refine ⟨?_, C08_step_state S n i s op hs hop⟩
  cases hc : op.usesCodec with
  | false => exact (C08_step_refines S n i s op hs hop hc).1
  | true => exact (C08_step_refines_codec S hS n i s op hi hs hu hop hc).1

/-- The UTF-8 invariant: an op whose string arguments are valid UTF-8 keeps every string of the state valid
    (no typing hypothesis needed). -/
theorem C08_step_preserves_utf8 (S : Schema) (n i : Nat) (s : Val) (op : Op)
    (hu : utf8OK S n i s = true) (hop : Op.utf8 S n i op = true) :
    utf8OK S n i (Reflect.step S i s op).1 = true :=
  rc_step_utf8 S n i s op hu hop

/-- Histories over every op: output sequences pointwise equivalent, final abstract states equal. -/
theorem C08_history_refines_all (S : Schema) (hS : S.WF = true) (n i : Nat) (s : Val) (ops : List Op)
    (hi : i < S.msgs.length) (hs : msgOK S false n i s = true) (hu : utf8OK S n i s = true)
    (hops : ∀ op ∈ ops, Op.ok S n i op = true ∧ Op.utf8 S n i op = true) :
    OutsEq (Reflect.run S i s ops).2 (SpecReflect.run S i (abs S n i s) (ops.map (Op.abs S n i))).2 ∧
    abs S n i (Reflect.run S i s ops).1 = (SpecReflect.run S i (abs S n i s) (ops.map (Op.abs S n i))).1 := by
  obtain ⟨h1, h2, _⟩ := rc_run_refines_all S hS n i hi ops s [] hs hu hops
  unfold Reflect.run SpecReflect.run
  rw [← h1]
  exact ⟨OutsEq_refl _, h2⟩

/-! ### Non-vacuity: a testpb.A-like schema and a non-trivial state -/

def schemaA8 : Schema := ⟨[
  ⟨[⟨1, .scalar .enum, .singular⟩, ⟨2, .scalar .bool, .singular⟩, ⟨3, .scalar .int32, .singular⟩,
    ⟨15, .scalar .string, .singular⟩, ⟨16, .scalar .bytes, .singular⟩, ⟨17, .message 1, .singular⟩,
    ⟨18, .message 1, .map .string⟩, ⟨19, .message 1, .repeated false⟩, ⟨20, .message 1, .oneof 0⟩,
    ⟨21, .scalar .string, .oneof 0⟩, ⟨22, .scalar .enum, .repeated true⟩, ⟨23, .message 2, .singular⟩]⟩,
  ⟨[⟨1, .scalar .string, .singular⟩]⟩,
  ⟨[]⟩]⟩

def msgB (b : Bytes) : Val := .msg [.blob false b] []

/-- A{ INT32: 7, BYTES: non-nil empty, MESSAGE: B{x:"hi"}, MAP: {"b": B{"x"}, "a": B{}} (stored unsorted),
       LIST: [B{"q"}], ONEOF_STRING: "s", LIST_ENUM: allocated-empty } -/
def stateA : Val := .msg
  [.bits 0, .bits 0, .bits 7, .blob false [], .blob true [], msgB [104, 105],
   .map true [.entry (.blob false [98]) (msgB [120]), .entry (.blob false [97]) (msgB [])],
   .list true [msgB [113]], .none, .one (.blob false [115]), .list true [], .none] []

example : schemaA8.WF = true := by decide
example : msgOK schemaA8 false 3 0 stateA = true := by decide

/-- a history exercising every group of ops, with paths -/
def histA : List Op :=
  [.r (.has 2), .w (.set 8 (msgB [122])), .r (.which 0), .w (.clear 9), .r (.which 0),
   .in 8 (.w (.set 0 (.blob false [121]))), .w (.mset 6 (.blob false [99]) (msgB [])), .r (.mrange 6),
   .mv 6 (.blob false [97]) (.w (.set 0 (.blob false [65]))), .at 7 0 (.r (.get 0)), .w (.lappm 7),
   .r (.get 10), .w (.mut 10), .r (.get 10), .w (.ltrunc 7 5), .r .range, .w (.set 10 (.list false [])),
   .in 5 (.w (.mut 0)), .r (.getter 6), .r (.getter 7), .at 7 0 (.r (.getter 0)), .in 11 (.r (.getter 0)), .r (.getter 9)]

example : ∀ op ∈ histA, Op.ok schemaA8 3 0 op = true ∧ op.usesCodec = false := by decide

-- the two machines on this history (the theorem, instantiated) …
example :
    OutsEq (Reflect.run schemaA8 0 stateA histA).2
      (SpecReflect.run schemaA8 0 (abs schemaA8 3 0 stateA) (histA.map (Op.abs schemaA8 3 0))).2 ∧
    abs schemaA8 3 0 (Reflect.run schemaA8 0 stateA histA).1
      = (SpecReflect.run schemaA8 0 (abs schemaA8 3 0 stateA) (histA.map (Op.abs schemaA8 3 0))).1 :=
  C08_history_refines schemaA8 3 0 stateA histA (by decide) (by decide)

-- … and some of the outputs, evaluated
example : (Reflect.step schemaA8 0 stateA (.r (.which 0))).2 = .which (some 9) := rfl
example : (Reflect.step schemaA8 0 stateA (.w (.set 8 (msgB [122])))).1.slot 9 = .none := rfl
example : (Reflect.step schemaA8 0 stateA (.r (.get 10))).2 = .listv false 0 := rfl
example : (Reflect.step schemaA8 0 stateA (.r (.mrange 6))).2
    = .keys [.blob false [97], .blob false [98]] := rfl
example : (Reflect.step schemaA8 0 stateA (.r .range)).2 = .fields [2, 5, 6, 7, 9] := rfl
-- the generated getters are ops of both machines (SPEC: `Get` rendered in getter tokens)
example : (Reflect.step schemaA8 0 stateA (.r (.getter 6))).2 = .gmap 2 := rfl
example : (SpecReflect.step schemaA8 0 (abs schemaA8 3 0 stateA) (.r (.getter 6))).2 = .gmap 2 := rfl
example : (Reflect.step schemaA8 0 stateA (.w (.set 10 (.list false [])))).2 = .panic := rfl
example : (SpecReflect.step schemaA8 0 (abs schemaA8 3 0 stateA) (.w (.set 10 (.list false [])))).2 = .panic := rfl
-- Clear of the inactive member leaves ONEOF_STRING set (the fixed template)
example : Reflect.step schemaA8 0 stateA (.w (.clear 8)) = (stateA, .ok) :=
  C08_clear_inactive_member_noop schemaA8 0 _ _ 8 0 _ rfl rfl rfl

-- the codec ops on this state: the hypotheses of `C08_history_refines_all` hold …
theorem stateA_utf8 : utf8OK schemaA8 3 0 stateA = true := by
  simp [utf8OK, utf8Slot, utf8Elem, schemaA8, stateA, msgB, Schema.msg, Val.slots, Val.elems, Val.getBlob, Val.key,
    Val.value, Val.isNone, utf8Valid]

/-- `histA` extended with codec ops at the root, in a nested message, in a map value and on an unset member -/
def histA' : List Op :=
  histA ++ [.r .size, .r .enc, .in 5 (.r .enc), .mv 6 (.blob false [97]) (.r .size), .in 11 (.r .enc),
    .w (.set 3 (.blob true [195, 169])), .r .enc]

example : ∀ op ∈ histA', Op.ok schemaA8 3 0 op = true := by decide

theorem histA'_utf8 : ∀ op ∈ histA', Op.utf8 schemaA8 3 0 op = true := by
  simp [histA', histA, Op.utf8, WOp.utf8, setArgUtf8, keyUtf8, utf8OK, utf8Slot, utf8Elem, schemaA8, msgB, Schema.msg,
    Val.slots, Val.elems, Val.getBlob, Val.isNone, utf8Valid, Op.isWrite]

example :
    OutsEq (Reflect.run schemaA8 0 stateA histA').2
      (SpecReflect.run schemaA8 0 (abs schemaA8 3 0 stateA) (histA'.map (Op.abs schemaA8 3 0))).2 ∧
    abs schemaA8 3 0 (Reflect.run schemaA8 0 stateA histA').1
      = (SpecReflect.run schemaA8 0 (abs schemaA8 3 0 stateA) (histA'.map (Op.abs schemaA8 3 0))).1 :=
  C08_history_refines_all schemaA8 (by decide) 3 0 stateA histA' (by decide) (by decide) stateA_utf8
    (fun op h => ⟨by revert op; decide, histA'_utf8 op h⟩)

-- … and the UTF-8 hypothesis cannot be dropped: with an invalid string the generated marshaller emits the
-- bytes while the reference one fails
example : ∃ bs, (Reflect.step schemaA8 1 (msgB [255]) (.r .enc)).2 = .enc (.ok bs) := by
  have h := (marshal_ok (S := schemaA8) (by decide) Reflect.mopts (fun kk es => sortEntries_perm kk es)
    ((msgB [255]).depth + 1) 1 (msgB [255]) (by decide) (by decide)).1
  simp only [step_read, Reflect.read, h]
  exact ⟨_, rfl⟩
example : (SpecReflect.step schemaA8 1 (abs schemaA8 1 1 (msgB [255])) (.r .enc)).2 = .enc (.err .utf8) := by
  have h : utf8OK schemaA8 ((abs schemaA8 1 1 (msgB [255])).depth + 1) 1 (abs schemaA8 1 1 (msgB [255])) = false := by
    simp [utf8OK, utf8Slot, utf8Elem, schemaA8, msgB, Schema.msg, Val.slots, Val.getBlob, utf8Valid, abs, repNorm,
      repSlot, repElem]
  simp only [SpecReflect.step, Op.isWrite, Bool.false_eq_true, if_false, SpecReflect.stepR, SpecReflect.read,
    SpecReflect.encOf, h]

end Pulsar

#print axioms Pulsar.C08_step_refines
#print axioms Pulsar.C08_step_state
#print axioms Pulsar.C08_step_preserves_wf
#print axioms Pulsar.C08_history_refines
#print axioms Pulsar.C08_oneof_at_most_one
#print axioms Pulsar.C08_set_member_replaces
#print axioms Pulsar.C08_clear_inactive_member_noop
#print axioms Pulsar.C08_range_exactly_populated_once
#print axioms Pulsar.C08_mutable_view_writes_through_list
#print axioms Pulsar.C08_mutable_view_writes_through_map
#print axioms Pulsar.C08_mutable_view_writes_through
#print axioms Pulsar.C08_codec_ops_refine
#print axioms Pulsar.C08_step_refines_codec
#print axioms Pulsar.C08_step_refines_all
#print axioms Pulsar.C08_step_preserves_utf8
#print axioms Pulsar.C08_history_refines_all
