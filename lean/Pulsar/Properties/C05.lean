/-
  C05 — Deterministic encoding is a pure function of the message value.
-/
import Pulsar.Proofs.Encode
namespace Pulsar

/-- With Deterministic set the result does not depend on the Go runtime's map iteration order, at any
    nesting depth (the flag is passed unchanged to every nested Marshal). No typing hypothesis needed. -/
theorem C05_order_independent (S : Schema) (fuel i : Nat) (v : Val) (π π' : List Val → List Val) :
    implMarshal S ⟨true, π⟩ fuel i v = implMarshal S ⟨true, π'⟩ fuel i v := sorry

/-- Deterministic bytes do not depend on the representation (nil-vs-empty containers and byte slices,
    order in which the map entries happen to be stored). -/
theorem C05_rep_independent (S : Schema) (hS : S.WF = true) (fuel i : Nat) (v : Val) (π : List Val → List Val)
    (hi : i < S.msgs.length) (hv : msgOK S false fuel i v = true) :
    implMarshal S ⟨true, π⟩ fuel i v = implMarshal S ⟨true, π⟩ fuel i (repNorm S fuel i v) := sorry

/-- Equal messages (same value, possibly built through different histories) give identical bytes. -/
theorem C05_equiv_same_bytes (S : Schema) (hS : S.WF = true) (fuel i : Nat) (v w : Val) (π π' : List Val → List Val)
    (hi : i < S.msgs.length) (hv : msgOK S false fuel i v = true) (hw : msgOK S false fuel i w = true)
    (h : Equiv S fuel i v w) :
    implMarshal S ⟨true, π⟩ fuel i v = implMarshal S ⟨true, π'⟩ fuel i w := sorry

end Pulsar
