/-
  C05 — Deterministic encoding is a pure function of the message value.
-/
import Pulsar.Proofs.Encode
namespace Pulsar

/-- With Deterministic set the result does not depend on the Go runtime's map iteration order, at any
    nesting depth (the flag is passed unchanged to every nested Marshal). No typing hypothesis needed. -/
theorem C05_order_independent (S : Schema) (fuel i : Nat) (v : Val) (π π' : List Val → List Val) :
    implMarshal S ⟨true, π⟩ fuel i v = implMarshal S ⟨true, π'⟩ fuel i v :=
  implMarshal_det S π π' fuel i v

/-- Deterministic bytes do not depend on the representation (nil-vs-empty containers and byte slices,
    order in which the map entries happen to be stored). -/
theorem C05_rep_independent (S : Schema) (hS : S.WF = true) (fuel i : Nat) (v : Val) (π : List Val → List Val)
    (hi : i < S.msgs.length) (hv : msgOK S false fuel i v = true) :
    implMarshal S ⟨true, π⟩ fuel i v = implMarshal S ⟨true, π⟩ fuel i (repNorm S fuel i v) := by
  obtain ⟨hok, henc⟩ := repNorm_ok S fuel i v hv
  have hord : ∀ kk es, (ordOf ⟨true, π⟩ kk es).Perm es := fun kk es => sortEntries_perm kk es
  obtain ⟨h1, _, _, h4⟩ := marshal_ok hS ⟨true, π⟩ hord fuel i v hi hv
  obtain ⟨h1', _, _, h4'⟩ := marshal_ok hS ⟨true, π⟩ hord fuel i _ hi hok
  rw [h1, h1', h4 rfl, h4' rfl, henc]

/-- Equal messages (same value, possibly built through different histories) give identical bytes. -/
theorem C05_equiv_same_bytes (S : Schema) (hS : S.WF = true) (fuel i : Nat) (v w : Val) (π π' : List Val → List Val)
    (hi : i < S.msgs.length) (hv : msgOK S false fuel i v = true) (hw : msgOK S false fuel i w = true)
    (h : Equiv S fuel i v w) :
    implMarshal S ⟨true, π⟩ fuel i v = implMarshal S ⟨true, π'⟩ fuel i w := by
  rw [C05_rep_independent S hS fuel i v π hi hv, C05_order_independent S fuel i w π' π,
    C05_rep_independent S hS fuel i w π hi hw]
  unfold Equiv at h
  rw [h]

/-! ### axioms -/
#print axioms C05_order_independent
#print axioms C05_rep_independent
#print axioms C05_equiv_same_bytes

/-! ### non-vacuity: a concrete schema, and two different Go representations of one message value -/
section NonVacuity
open Example

example : exS.WF = true ∧ msgOK exS false 2 0 exV = true ∧ msgOK exS false 2 0 exW = true :=
  ⟨exS_wf, exV_ok, exW_ok⟩

/-- `exV` and `exW` are different values (flags and stored entry order differ) … -/
example : Val.beq exV exW = false := by decide

/-- … of the same message. -/
theorem exV_equiv_exW : Equiv exS 2 0 exV exW := by
  unfold Equiv
  rfl

example (π π' : List Val → List Val) :
    implMarshal exS ⟨true, π⟩ 2 0 exV = implMarshal exS ⟨true, π'⟩ 2 0 exW :=
  C05_equiv_same_bytes exS exS_wf 2 0 exV exW π π' (by decide) exV_ok exW_ok exV_equiv_exW

example (π : List Val → List Val) :
    implMarshal exS ⟨true, π⟩ 2 0 exV = implMarshal exS ⟨true, π⟩ 2 0 (repNorm exS 2 0 exV) :=
  C05_rep_independent exS exS_wf 2 0 exV π (by decide) exV_ok

end NonVacuity

end Pulsar
