/-
  C04 / C02 (source level) — generator.KeySize as TRANSLATED FROM /repo's generator/helpers.go on this run
  (`Pulsar.Xf.generator_KeySize`) equals the length of the tag of (field number, wire type) for every legal field
  number: the constant every size formula of the size template adds per key is the number of key bytes the marshal
  template writes.
-/
import Pulsar.Proofs.GoSrcKeySize
import Pulsar.Proofs.EncodeField
namespace Pulsar
open Pulsar

theorem C04_src_KeySize_eq_tag_length (num wt : Nat) (hn : num < 536870912) (hw : wt < 8) :
    Xf.generator_KeySize (num : Int) (wt : Int) = .ok ((tag num wt).length : Int) := by
  rw [src_KeySize num wt (by omega) (by omega), keySize_eq_tag_length hn hw]

theorem C04_src_KeySize_is_model (num wt : Nat) (hn : num < 2147483648) (hw : wt < 128) :
    Xf.generator_KeySize (num : Int) (wt : Int) = .ok (keySize num wt : Int) :=
  src_KeySize num wt hn hw

example : Xf.generator_KeySize 16 0 = .ok 2 := by decide
example : Xf.generator_KeySize 536870911 2 = .ok 5 := by decide

end Pulsar

#print axioms Pulsar.C04_src_KeySize_eq_tag_length
