/-
  C11, the part tied to the source by extraction instead of by execution: the read paths of every generated
  message type — fast-reflection reads (Descriptor, Type, New, Interface, Range, Has, Get, WhichOneof, GetUnknown,
  IsValid, NewField), list/map view reads (Len, Get, Has, Range, IsValid, NewElement, NewValue), the plain Go
  getters, ProtoReflect, and the size and marshal closures of ProtoMethods — contain no statement that writes
  memory reachable from the message. `Pulsar.ExtractedCode` is regenerated on every run by harness/cmd/vfacts
  (go/ast) from the code the working-tree generator emits for the whole corpus and from the checked-in
  *.pulsar.go files; a write on a read path makes the list non-empty and this theorem false — for every
  schedule, whether or not the race detector gets to see the racing pair.

  What is trusted: the extractor's syntactic notion of "reachable from the message" (a taint set seeded with the
  receiver / `x`, extended through `:=`, `range` and type-switch bindings; writes through values returned by
  calls are not followed) and its list of read paths. The model-level statement that reads leave the whole state
  unchanged is `C11_reads_write_nothing` (Properties/C11.lean); the run-time side is the race detector.
-/
import Pulsar.ExtractedCode
namespace Pulsar
open ExtractedCode

theorem C11_extracted_read_paths_write_nothing : readPathWrites = [] ∧ errors = [] := by decide

/-- … nor does a getter, `ProtoReflect`, a size or a marshal closure hand the address of message memory to a
    helper that could write through it, and the runtime package those closures call into keeps no package-level
    state (a shared table or pool written by concurrent readers). -/
theorem C11_extracted_read_paths_share_no_state : readPathEscapes = [] ∧ runtimeState = [] := by decide

#print axioms C11_extracted_read_paths_write_nothing
#print axioms C11_extracted_read_paths_share_no_state
end Pulsar
