/-
  C15 (source level) — runtime.Sov / runtime.Soz as TRANSLATED FROM /repo's runtime/runtime.go on this run
  (`Pulsar.Xf.runtime_Sov`, `runtime_Soz`; written by /verif/tools/go2lean into Pulsar/ExtractedFns.lean) compute
  exactly the wire-format sizes, for every 64-bit value. Nothing hand-written stands between these statements and
  the Go text except the translator and `math/bits.Len64` (= `bitLen`).
-/
import Pulsar.Proofs.GoSrcSov
namespace Pulsar
open Pulsar

/-- the translated `Sov` never fails and equals protowire's varint size, for every uint64 -/
theorem C15_src_Sov_eq_protowire_size (x : Nat) (hx : x < 18446744073709551616) :
    Xf.runtime_Sov x = .ok ((varint x).length : Int) := by
  rw [src_Sov x hx, sov_eq_varint_length]

/-- the translated `Soz` never fails and equals the size of the zig-zag encoding, for every uint64 pattern -/
theorem C15_src_Soz_eq (x : Nat) (hx : x < 18446744073709551616) :
    Xf.runtime_Soz x = .ok ((varint (zigzag64 x)).length : Int) := by
  rw [src_Soz x hx, soz_eq_varint_length x hx]

/-- the translated functions ARE the hand-written models used everywhere else in the proofs -/
theorem C15_src_Sov_is_model (x : Nat) (hx : x < 18446744073709551616) : Xf.runtime_Sov x = .ok (sov x : Int) :=
  src_Sov x hx
theorem C15_src_Soz_is_model (x : Nat) (hx : x < 18446744073709551616) : Xf.runtime_Soz x = .ok (soz x : Int) :=
  src_Soz x hx

/-! non-vacuity: a concrete value through the translated code -/
example : Xf.runtime_Sov 300 = .ok 2 := by rw [C15_src_Sov_is_model 300 (by decide), sov_300]; rfl

end Pulsar

#print axioms Pulsar.C15_src_Sov_eq_protowire_size
#print axioms Pulsar.C15_src_Soz_eq
