/-
  C15 (source level) — runtime.Sov as TRANSLATED FROM /repo's runtime/runtime.go on this run
  (`Pulsar.Xf.runtime_Sov`; written by /verif/tools/go2lean into Pulsar/ExtractedFns.lean) computes
  exactly the wire-format size, for every 64-bit value. Nothing hand-written stands between these statements and
  the Go text except the translator and `math/bits.Len64` (= `bitLen`).
-/
import Pulsar.Proofs.GoSrcSov
namespace Pulsar
open Pulsar

/-- the translated `Sov` never fails and equals protowire's varint size, for every uint64 -/
theorem C15_src_Sov_eq_protowire_size (x : Nat) (hx : x < 18446744073709551616) :
    Xf.runtime_Sov x = .ok ((varint x).length : Int) := by
  rw [src_Sov x hx, sov_eq_varint_length]

/-- the translated functions ARE the hand-written models used everywhere else in the proofs -/
theorem C15_src_Sov_is_model (x : Nat) (hx : x < 18446744073709551616) : Xf.runtime_Sov x = .ok (sov x : Int) :=
  src_Sov x hx

/-! non-vacuity: a concrete value through the translated code -/
example : Xf.runtime_Sov 300 = .ok 2 := by rw [C15_src_Sov_is_model 300 (by decide), sov_300]; rfl

end Pulsar

#print axioms Pulsar.C15_src_Sov_eq_protowire_size
