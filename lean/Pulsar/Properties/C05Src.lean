/-
  C05 / C02 / C04 (source level) — runtime.SizeInputToOptions and runtime.MarshalInputToOptions as TRANSLATED FROM
  /repo's runtime/runtime.go on this run: the options every generated size / marshal closure hands to nested
  messages carry the Deterministic and UseCachedSize flags of the input unchanged, and the two functions build the
  same options (Size and Marshal of a nested message run in the same mode). Fields of types outside the translated
  fragment (NoUnkeyedLiterals, Message, Buf) are dropped by the translator.
  Proved by exhaustion over the 256 values of the flags byte: independent of how the source tests the bits.
-/
import Pulsar.ExtractedFns
namespace Pulsar
open Pulsar

theorem C05_src_marshal_flags_forwarded (input : Xf.Rec.protoiface_MarshalInput) (hf : input.Flags < 256) :
    Xf.runtime_MarshalInputToOptions input =
      .ok { AllowPartial := true, Deterministic := input.Flags.testBit 0, UseCachedSize := input.Flags.testBit 1 } := by
  obtain ⟨fl⟩ := input
  revert fl
  decide +kernel

theorem C05_src_size_flags_forwarded (input : Xf.Rec.protoiface_SizeInput) (hf : input.Flags < 256) :
    Xf.runtime_SizeInputToOptions input =
      .ok { AllowPartial := true, Deterministic := input.Flags.testBit 0, UseCachedSize := input.Flags.testBit 1 } := by
  obtain ⟨fl⟩ := input
  revert fl
  decide +kernel

/-- Size and Marshal of nested messages are called with the same options -/
theorem C05_src_size_and_marshal_options_agree (fl : Nat) (hf : fl < 256) :
    Xf.runtime_SizeInputToOptions { Flags := fl } = Xf.runtime_MarshalInputToOptions { Flags := fl } := by
  rw [C05_src_marshal_flags_forwarded _ hf, C05_src_size_flags_forwarded _ hf]

/-- in particular: a deterministic marshal stays deterministic at every nesting level -/
theorem C05_src_deterministic_propagates (fl : Nat) (hf : fl < 256) (hdet : fl.testBit 0 = true) :
    ∃ o, Xf.runtime_MarshalInputToOptions { Flags := fl } = .ok o ∧ o.Deterministic = true :=
  ⟨_, C05_src_marshal_flags_forwarded _ hf, hdet⟩

example : Xf.runtime_MarshalInputToOptions { Flags := 1 } = .ok { AllowPartial := true, Deterministic := true, UseCachedSize := false } := by decide
example : Xf.runtime_MarshalInputToOptions { Flags := 2 } = .ok { AllowPartial := true, Deterministic := false, UseCachedSize := true } := by decide

end Pulsar

#print axioms Pulsar.C05_src_marshal_flags_forwarded
#print axioms Pulsar.C05_src_size_and_marshal_options_agree
