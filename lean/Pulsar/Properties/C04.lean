/-
  C04 — Size equals encoded length; append-marshal leaves the prefix intact.
-/
import Pulsar.Proofs.Encode
namespace Pulsar

/-- `generator.KeySize` is the length of the emitted key bytes. -/
theorem C04_keySize_eq (num wt : Nat) : keySize num wt = (keyBytes num wt).length :=
  keySize_eq_length num wt

/-- For every option combination (deterministic or any map iteration order), proto.Marshal succeeds
    (no panic, no error) and proto.Size equals the number of bytes produced. -/
theorem C04_size_eq_len (S : Schema) (hS : S.WF = true) (fuel i : Nat) (v : Val) (o : MOpts)
    (hperm : ∀ es, (o.perm es).Perm es) (hi : i < S.msgs.length) (hv : msgOK S false fuel i v = true) :
    ∃ bs, implMarshal S o fuel i v = .ok bs ∧ implSize S o fuel i v = bs.length :=
  let ⟨h1, h2, _, _⟩ := marshal_ok hS o (ordOf_perm o hperm) fuel i v hi hv
  ⟨_, h1, h2⟩

/-- … and equals the reference implementation's size (the length of the reference encoding). -/
theorem C04_size_eq_reference (S : Schema) (hS : S.WF = true) (fuel i : Nat) (v : Val) (o : MOpts)
    (hperm : ∀ es, (o.perm es).Perm es) (hi : i < S.msgs.length) (hv : msgOK S false fuel i v = true) :
    implSize S o fuel i v = (specEncode S fuel i v).length :=
  let ⟨_, h2, h3, _⟩ := marshal_ok hS o (ordOf_perm o hperm) fuel i v hi hv
  h2.trans h3

/-- The back-filled buffer is filled exactly: the write index ends at 0 (no zero padding in front,
    no index panic), at every level. -/
theorem C04_index_reaches_zero (S : Schema) (hS : S.WF = true) (fuel i : Nat) (v : Val) (o : MOpts)
    (hperm : ∀ es, (o.perm es).Perm es) (hi : i < S.msgs.length) (hv : msgOK S false (fuel+1) i v = true) :
    ∃ b, (BackBuf.mk (implSize S o (fuel+1) i v) []).writeAll
            (implWriteSeq o (implMarshalClosure S o fuel) ((S.msg i).fields.zip v.slots) v.unknown) = .ok b
         ∧ b.i = 0 :=
  ⟨_, writeSeq_ok hS o (ordOf_perm o hperm) fuel i v hi hv, rfl⟩

/-- MarshalAppend returns the prefix unchanged followed by exactly the encoding. -/
theorem C04_append (S : Schema) (hS : S.WF = true) (fuel i : Nat) (v : Val) (o : MOpts) (pre : Bytes)
    (hperm : ∀ es, (o.perm es).Perm es) (hi : i < S.msgs.length) (hv : msgOK S false fuel i v = true) :
    ∃ bs, implMarshal S o fuel i v = .ok bs ∧ implMarshalAppend S o fuel i pre v = .ok (pre ++ bs) := by
  obtain ⟨h1, _⟩ := marshal_ok hS o (ordOf_perm o hperm) fuel i v hi hv
  exact ⟨_, h1, by simp [implMarshalAppend, h1]⟩

/-! ### axioms -/
#print axioms C04_keySize_eq
#print axioms C04_size_eq_len
#print axioms C04_size_eq_reference
#print axioms C04_index_reaches_zero
#print axioms C04_append

/-! ### non-vacuity: the hypotheses are satisfiable on a schema with every shape (singular, packed and
    unpacked repeated, two maps — one with message values —, a oneof, a nested message, unknown bytes),
    under a non-deterministic option set whose map iteration order is "reversed". -/
section NonVacuity
open Example

example : exS.WF = true ∧ (0 < exS.msgs.length) ∧ msgOK exS false 2 0 exV = true :=
  ⟨exS_wf, by decide, exV_ok⟩

example : ∃ bs, implMarshal exS ⟨false, List.reverse⟩ 2 0 exV = .ok bs ∧
    implSize exS ⟨false, List.reverse⟩ 2 0 exV = bs.length :=
  C04_size_eq_len exS exS_wf 2 0 exV ⟨false, List.reverse⟩ List.reverse_perm (by decide) exV_ok

example : implSize exS ⟨false, List.reverse⟩ 2 0 exV = (specEncode exS 2 0 exV).length :=
  C04_size_eq_reference exS exS_wf 2 0 exV ⟨false, List.reverse⟩ List.reverse_perm (by decide) exV_ok

example (pre : Bytes) : ∃ bs, implMarshal exS ⟨true, id⟩ 2 0 exV = .ok bs ∧
    implMarshalAppend exS ⟨true, id⟩ 2 0 pre exV = .ok (pre ++ bs) :=
  C04_append exS exS_wf 2 0 exV ⟨true, id⟩ pre (fun _ => List.Perm.refl _) (by decide) exV_ok

end NonVacuity

end Pulsar
