/-
  C04 — Size equals encoded length; append-marshal leaves the prefix intact.
-/
import Pulsar.Proofs.Encode
namespace Pulsar

/-- `generator.KeySize` is the length of the emitted key bytes. -/
theorem C04_keySize_eq (num wt : Nat) : keySize num wt = (keyBytes num wt).length := sorry

/-- For every option combination (deterministic or any map iteration order), proto.Marshal succeeds
    (no panic, no error) and proto.Size equals the number of bytes produced. -/
theorem C04_size_eq_len (S : Schema) (hS : S.WF = true) (fuel i : Nat) (v : Val) (o : MOpts)
    (hperm : ∀ es, (o.perm es).Perm es) (hi : i < S.msgs.length) (hv : msgOK S false fuel i v = true) :
    ∃ bs, implMarshal S o fuel i v = .ok bs ∧ implSize S o fuel i v = bs.length := sorry

/-- … and equals the reference implementation's size (the length of the reference encoding). -/
theorem C04_size_eq_reference (S : Schema) (hS : S.WF = true) (fuel i : Nat) (v : Val) (o : MOpts)
    (hperm : ∀ es, (o.perm es).Perm es) (hi : i < S.msgs.length) (hv : msgOK S false fuel i v = true) :
    implSize S o fuel i v = (specEncode S fuel i v).length := sorry

/-- The back-filled buffer is filled exactly: the write index ends at 0 (no zero padding in front,
    no index panic), at every level. -/
theorem C04_index_reaches_zero (S : Schema) (hS : S.WF = true) (fuel i : Nat) (v : Val) (o : MOpts)
    (hperm : ∀ es, (o.perm es).Perm es) (hi : i < S.msgs.length) (hv : msgOK S false (fuel+1) i v = true) :
    ∃ b, (BackBuf.mk (implSize S o (fuel+1) i v) []).writeAll
            (implWriteSeq o (implMarshalClosure S o fuel) ((S.msg i).fields.zip v.slots) v.unknown) = .ok b
         ∧ b.i = 0 := sorry

/-- MarshalAppend returns the prefix unchanged followed by exactly the encoding. -/
theorem C04_append (S : Schema) (hS : S.WF = true) (fuel i : Nat) (v : Val) (o : MOpts) (pre : Bytes)
    (hperm : ∀ es, (o.perm es).Perm es) (hi : i < S.msgs.length) (hv : msgOK S false fuel i v = true) :
    ∃ bs, implMarshal S o fuel i v = .ok bs ∧ implMarshalAppend S o fuel i pre v = .ok (pre ++ bs) := sorry

end Pulsar
