/-
  C11 — Concurrent readers of a shared message are race-free (the part that is logic).
  The Go memory model, the race detector's judgement, and protobuf-go's atomics for embedded
  well-known types are outside the model (see DESIGN): this file proves that, in the model of the
  generated code, read-only operations write nothing, so every interleaving of readers is equivalent to
  each reader running alone; the `race` engine runs the real code under the race detector.
-/
import Pulsar.Reflect
namespace Pulsar
open Reflect

/-- A read-only operation (Size, Marshal, Has, Get, Range, WhichOneof, GetUnknown, list/map reads, at any
    nesting path) leaves every field of the Go struct unchanged, down to nil-versus-empty containers. -/
theorem C11_reads_write_nothing (S : Schema) (i : Nat) (s : Val) (op : Op) (h : op.isWrite = false) :
    (Reflect.step S i s op).1 = s := by
  simp [Reflect.step, h]

theorem run_reads_aux (S : Schema) (i : Nat) (s : Val) (ops : List Op) (acc : List Out)
    (h : ∀ op ∈ ops, op.isWrite = false) :
    ops.foldl (fun a op => let r := Reflect.step S i a.1 op; (r.1, a.2 ++ [r.2])) (s, acc)
      = (s, acc ++ ops.map (fun op => (Reflect.step S i s op).2)) := by
  induction ops generalizing acc with
  | nil => simp
  | cons op rest ih =>
    have hop : op.isWrite = false := h op (by simp)
    have hrest : ∀ o ∈ rest, o.isWrite = false := fun o ho => h o (by simp [ho])
    simp only [List.foldl_cons, List.map_cons]
    rw [C11_reads_write_nothing S i s op hop, ih _ hrest]
    simp

/-- A history of read-only operations never changes the message and every operation returns exactly
    what it returns on the initial message: outputs do not depend on what other readers did before. -/
theorem C11_read_history (S : Schema) (i : Nat) (s : Val) (ops : List Op)
    (h : ∀ op ∈ ops, op.isWrite = false) :
    Reflect.run S i s ops = (s, ops.map (fun op => (Reflect.step S i s op).2)) := by
  unfold Reflect.run
  simpa using run_reads_aux S i s ops [] h

/-- Interleaving: take any interleaving `tagged` of the read-only operation lists of several readers
    (each operation tagged with its reader). What reader `t` observes inside the interleaving is exactly
    what it observes running alone on the same message. -/
theorem C11_interleaving (S : Schema) (i : Nat) (s : Val) (tagged : List (Nat × Op))
    (h : ∀ p ∈ tagged, p.2.isWrite = false) (t : Nat) :
    ((tagged.zip (Reflect.run S i s (tagged.map Prod.snd)).2).filter (fun p => p.1.1 == t)).map (·.2)
      = (Reflect.run S i s ((tagged.filter (fun p => p.1 == t)).map Prod.snd)).2 := by
  have h1 : ∀ op ∈ tagged.map Prod.snd, op.isWrite = false := by
    intro op hop
    obtain ⟨p, hp, rfl⟩ := List.mem_map.mp hop
    exact h p hp
  have h2 : ∀ op ∈ (tagged.filter (fun p => p.1 == t)).map Prod.snd, op.isWrite = false := by
    intro op hop
    obtain ⟨p, hp, rfl⟩ := List.mem_map.mp hop
    exact h p (List.mem_filter.mp hp).1
  rw [C11_read_history S i s _ h1, C11_read_history S i s _ h2]
  simp only
  clear h h1 h2
  induction tagged with
  | nil => simp
  | cons p rest ih =>
    simp only [List.map_cons, List.zip_cons_cons, List.filter_cons]
    by_cases hp : p.1 == t
    · simp [hp]; simpa [List.map_map] using ih
    · simp [hp]; simpa [List.map_map] using ih

-- non-vacuity: two readers interleaved on a concrete message
example : (Reflect.run ⟨[⟨[⟨1, .scalar .int32, .singular⟩, ⟨2, .scalar .string, .repeated false⟩]⟩]⟩ 0
    (.msg [.bits 5, .list true [.blob false [104]]] [])
    [.r (.has 0), .r (.get 0), .r (.llen 1), .r .size, .r (.has 1)]).1
    = .msg [.bits 5, .list true [.blob false [104]]] [] := by
  rw [C11_read_history _ _ _ _ (by intro op h; simp at h; rcases h with rfl | rfl | rfl | rfl | rfl <;> rfl)]

end Pulsar

#print axioms Pulsar.C11_reads_write_nothing
#print axioms Pulsar.C11_read_history
#print axioms Pulsar.C11_interleaving
