/-
  C18 — rapidproto generators always yield valid, well-formed messages (the part that is logic; see
  DESIGN: rapid's draws, protoreflect and the registries are outside the model and are covered by the
  direct oracle of the `rapid` engine).
-/
import Pulsar.Rapidproto
namespace Pulsar.Rapidproto
open Pulsar Pulsar.Timepb

/-- Every Timestamp the generator can produce (any draws inside the ranges written in the source) is a
    valid Timestamp. The ranges are regenerated from rapidproto.go on every run. -/
theorem C18_gen_timestamp_valid (s n : Int) (hs : inRange s Extracted.tsSecondsRange)
    (hn : inRange n Extracted.tsNanosRange) : ValidTS (genTimestamp s n) := by
  unfold inRange Extracted.tsSecondsRange at hs
  unfold inRange Extracted.tsNanosRange at hn
  unfold ValidTS genTimestamp
  simp only at hs hn ⊢
  omega

/-- Every Duration the generator can produce is a valid Duration. -/
theorem C18_gen_duration_valid (s n : Int) (hs : inRange s Extracted.durSecondsRange)
    (hn : inRange n Extracted.durNanosRange) : ValidDur (genDuration s n) := by
  unfold inRange Extracted.durSecondsRange at hs
  unfold inRange Extracted.durNanosRange at hn
  unfold Extracted.maxDurationSeconds at hs
  unfold ValidDur genDuration
  simp only at hs hn ⊢
  omega

/-- Enum fields take values declared by their enum, for every index rapid can draw. -/
theorem C18_gen_enum_declared (declared : List Int) (i : Nat) (hi : i < declared.length) :
    genEnum declared i ∈ declared := by
  unfold genEnum
  rw [List.getD_eq_getElem?_getD, List.getElem?_eq_getElem hi]
  exact List.getElem_mem hi

/-- FieldMask fields carry exactly the paths that were drawn. -/
theorem C18_gen_fieldmask_paths (paths : List String) : genFieldMask paths = paths := by
  simp [genFieldMask]

/-- Generation never descends below the nesting limit, so it terminates on recursive types:
    at most `depthLimit + 2 - depth` nested calls along any branch. -/
theorem C18_gen_depth_bounded (depth : Nat) (h : descends depth = true) : depth ≤ Extracted.depthLimit := by
  unfold descends at h
  simp at h
  exact h

theorem C18_gen_branch_terminates (fuel depth : Nat) : branchCalls fuel depth = fuel + 1 := by
  induction fuel generalizing depth with
  | zero => rfl
  | succ f ih => simp [branchCalls, ih]; omega

-- non-vacuity: the range extremes are hit and valid
example : ValidTS (genTimestamp (-9999999999) 0) := by unfold ValidTS genTimestamp; simp
example : ValidTS (genTimestamp 9999999999 999999999) := by unfold ValidTS genTimestamp; simp
example : ValidDur (genDuration 9223372035 999999999) := by unfold ValidDur genDuration; simp
example : genEnum [0, 4, 5, 6] 1 = 4 := rfl

end Pulsar.Rapidproto

#print axioms Pulsar.Rapidproto.C18_gen_timestamp_valid
#print axioms Pulsar.Rapidproto.C18_gen_duration_valid
#print axioms Pulsar.Rapidproto.C18_gen_enum_declared
#print axioms Pulsar.Rapidproto.C18_gen_fieldmask_paths
#print axioms Pulsar.Rapidproto.C18_gen_depth_bounded
#print axioms Pulsar.Rapidproto.C18_gen_branch_terminates
