/-
  C14 / C03 / C06 (source level) — runtime.UnmarshalInputToOptions as TRANSLATED FROM /repo's runtime/runtime.go on
  this run: the options every generated unmarshal closure hands to nested messages have Merge set (repeated
  occurrences of a singular message field merge: C03), carry DiscardUnknown of the input unchanged (C14: dropped
  everywhere or nowhere) and a recursion limit that is the model's `nestedLimit` of the input's budget (C06).
  Fields of types outside the translated fragment (NoUnkeyedLiterals, Resolver) are dropped by the translator.
-/
import Pulsar.ExtractedFns
import Pulsar.Proofs.GoSrcLimit
namespace Pulsar
open Pulsar

theorem C14_src_unmarshal_options (input : Xf.Rec.protoiface_UnmarshalInput) (hf : input.Flags < 256)
    (hd : -9223372036854775808 ≤ input.Depth ∧ input.Depth ≤ 9223372036854775807) :
    Xf.runtime_UnmarshalInputToOptions input =
      .ok { Merge := true, AllowPartial := true, DiscardUnknown := input.Flags.testBit 0,
            RecursionLimit := nestedLimit input.Depth } := by
  unfold Xf.runtime_UnmarshalInputToOptions
  rw [src_nestedRecursionLimit _ hd]
  simp only [Res.bind_ok, Res.pure_eq, Res.ok.injEq, Xf.Rec.proto_UnmarshalOptions.mk.injEq, and_true, true_and]
  -- what is left mentions the flags byte only: decided for each of its 256 values, however the source tests the bit
  generalize input.Flags = fl at hf ⊢
  revert fl
  decide +kernel

/-- DiscardUnknown is forwarded unchanged to every nested decode -/
theorem C14_src_discard_forwarded (input : Xf.Rec.protoiface_UnmarshalInput) (hf : input.Flags < 256)
    (hd : -9223372036854775808 ≤ input.Depth ∧ input.Depth ≤ 9223372036854775807) :
    ∃ o, Xf.runtime_UnmarshalInputToOptions input = .ok o ∧ o.DiscardUnknown = input.Flags.testBit 0 ∧ o.Merge = true :=
  ⟨_, C14_src_unmarshal_options input hf hd, rfl, rfl⟩

/-- the recursion budget of nested decodes strictly decreases and is never the "unset" value 0 -/
theorem C14_src_limit_decreases (input : Xf.Rec.protoiface_UnmarshalInput) (hf : input.Flags < 256)
    (hd : 0 < input.Depth ∧ input.Depth ≤ 9223372036854775807) :
    ∃ o, Xf.runtime_UnmarshalInputToOptions input = .ok o ∧ o.RecursionLimit < input.Depth ∧ o.RecursionLimit ≠ 0 := by
  have h1 : nestedLimit input.Depth < input.Depth := by unfold nestedLimit; simp only []; split <;> split <;> omega
  have h2 : nestedLimit input.Depth ≠ 0 := by unfold nestedLimit; simp only []; split <;> split <;> omega
  exact ⟨_, C14_src_unmarshal_options input hf ⟨by omega, hd.2⟩, h1, h2⟩

example : Xf.runtime_UnmarshalInputToOptions { Flags := 1, Depth := 0 } =
    .ok { Merge := true, AllowPartial := true, DiscardUnknown := true, RecursionLimit := 9999 } := by decide

end Pulsar

#print axioms Pulsar.C14_src_unmarshal_options
#print axioms Pulsar.C14_src_limit_decreases
