/-
  C19 — the Go type table and the dependency index table of the generated file descriptor
  (`features/protoc/main.go: genReflectFileDescriptor`, model: Pulsar.GenTables) are coherent with the schema:
  protobuf-go resolves field and method types positionally through them.

  Tie: for every generated corpus file the desc engine sends the flattened enum / message names, the typed fields
  of every message in DECLARATION order and the methods (all read from the request's descriptor) and compares the
  model's tables with the `file_x_goTypes` / `file_x_depIdxs` variables parsed from the emitted source
  (`deptab` lines). A generator that walks fields in any other order than the descriptor's (seeds C12-g, C19-d)
  disagrees with the model there.
-/
import Pulsar.Proofs.GenTables
namespace Pulsar
open Gen

/-- **Every dependency index points at the row of the declared type**: the k-th entry of `depIdxs` (before the
    offsets) is the position in `goTypes` of the type of the k-th typed field in declaration order, then of the
    input types of the methods, then of their output types. For every file, no side condition. -/
theorem C19_depIdx_points_at_declared_type (enums msgs : List String) (fieldDeps : List (List String))
    (exts : List (String × Option String)) (methods : List (String × String)) :
    let T := typeTables enums msgs fieldDeps exts methods
    T.deps.length = (allDeps fieldDeps exts methods).length ∧
    ∀ k (h : k < (allDeps fieldDeps exts methods).length),
      T.goTypes[T.deps.getD k 0]? = some (allDeps fieldDeps exts methods)[k] := by
  intro T
  have h0 : TypeTab.Good ((enums ++ msgs).foldl TypeTab.decl {}) [] := by
    obtain ⟨hn, hd⟩ := foldl_decl_nodup (enums ++ msgs) {} (by simp)
    exact ⟨hn, by rw [hd]; rfl, fun k h => by simp at h⟩
  have h1 := foldl_dep_good fieldDeps.flatten _ _ h0
  have h1a := foldl_dep_good (extendees exts) _ _ h1
  have h1b := foldl_dep_good (extTypes exts) _ _ h1a
  have h2 := foldl_dep_good (methods.map (·.1)) _ _ h1b
  have h3 := foldl_dep_good (methods.map (·.2)) _ _ h2
  simp only [List.nil_append] at h3
  exact ⟨h3.2.1, h3.2.2⟩

/-- No type has two rows. -/
theorem C19_goTypes_nodup (enums msgs : List String) (fieldDeps : List (List String)) (exts : List (String × Option String)) (methods : List (String × String)) :
    (typeTables enums msgs fieldDeps exts methods).goTypes.Nodup := by
  have h0 : TypeTab.Good ((enums ++ msgs).foldl TypeTab.decl {}) [] := by
    obtain ⟨hn, hd⟩ := foldl_decl_nodup (enums ++ msgs) {} (by simp)
    exact ⟨hn, by rw [hd]; rfl, fun k h => by simp at h⟩
  exact (foldl_dep_good (methods.map (·.2)) _ _ (foldl_dep_good (methods.map (·.1)) _ _
    (foldl_dep_good (extTypes exts) _ _ (foldl_dep_good (extendees exts) _ _
      (foldl_dep_good fieldDeps.flatten _ _ h0))))).1

/-- **The file's own declarations come first, in flattened order** (enums, then messages): row `i` of `goTypes`
    is the i-th declaration, which is what makes `file_x_enumTypes[i]` / `file_x_msgTypes[i]` and the
    `&file_x_msgTypes[N]` of `slowProtoReflect` (C19_msgIndex_is_flatten_position) line up with it. Needs the
    declared full names to be distinct (protoc guarantees it). -/
theorem C19_goTypes_start_with_declarations (enums msgs : List String) (fieldDeps : List (List String))
    (exts : List (String × Option String)) (methods : List (String × String)) (hd : (enums ++ msgs).Nodup) :
    ∃ imported, (typeTables enums msgs fieldDeps exts methods).goTypes = enums ++ msgs ++ imported := by
  have e0 : ((enums ++ msgs).foldl TypeTab.decl {}).goTypes = enums ++ msgs := by
    have := foldl_decl_distinct (enums ++ msgs) {} (by simpa using hd)
    simpa using this
  obtain ⟨x1, h1⟩ := foldl_dep_prefix fieldDeps.flatten ((enums ++ msgs).foldl TypeTab.decl {})
  obtain ⟨x1a, h1a⟩ := foldl_dep_prefix (extendees exts) (fieldDeps.flatten.foldl TypeTab.dep ((enums ++ msgs).foldl TypeTab.decl {}))
  obtain ⟨x1b, h1b⟩ := foldl_dep_prefix (extTypes exts) ((extendees exts).foldl TypeTab.dep
    (fieldDeps.flatten.foldl TypeTab.dep ((enums ++ msgs).foldl TypeTab.decl {})))
  obtain ⟨x2, h2⟩ := foldl_dep_prefix (methods.map (·.1)) ((extTypes exts).foldl TypeTab.dep ((extendees exts).foldl TypeTab.dep
    (fieldDeps.flatten.foldl TypeTab.dep ((enums ++ msgs).foldl TypeTab.decl {}))))
  obtain ⟨x3, h3⟩ := foldl_dep_prefix (methods.map (·.2)) ((methods.map (·.1)).foldl TypeTab.dep ((extTypes exts).foldl TypeTab.dep
    ((extendees exts).foldl TypeTab.dep (fieldDeps.flatten.foldl TypeTab.dep ((enums ++ msgs).foldl TypeTab.decl {})))))
  refine ⟨x1 ++ x1a ++ x1b ++ x2 ++ x3, ?_⟩
  show (List.foldl TypeTab.dep _ (methods.map (·.2))).goTypes = _
  rw [h3, h2, h1b, h1a, h1, e0]
  simp [List.append_assoc]

/-- Every row is a declaration of the file or the type of one of its fields / methods: nothing else gets in. -/
theorem C19_goTypes_only_declared_or_used (enums msgs : List String) (fieldDeps : List (List String))
    (exts : List (String × Option String)) (methods : List (String × String)) (x : String)
    (h : x ∈ (typeTables enums msgs fieldDeps exts methods).goTypes) :
    x ∈ enums ++ msgs ∨ x ∈ allDeps fieldDeps exts methods := by
  have h : x ∈ (List.foldl TypeTab.dep (List.foldl TypeTab.dep (List.foldl TypeTab.dep (List.foldl TypeTab.dep
      (List.foldl TypeTab.dep (List.foldl TypeTab.decl {} (enums ++ msgs)) fieldDeps.flatten) (extendees exts))
      (extTypes exts)) (methods.map (·.1))) (methods.map (·.2))).goTypes := h
  have h3 := foldl_dep_mem (methods.map (·.2)) _ x h
  cases h3 with
  | inr h => exact Or.inr (by simp [allDeps, h])
  | inl h =>
    cases foldl_dep_mem (methods.map (·.1)) _ x h with
    | inr h => exact Or.inr (by simp [allDeps, h])
    | inl h =>
    cases foldl_dep_mem (extTypes exts) _ x h with
    | inr h => exact Or.inr (by simp only [allDeps, List.mem_append]; exact Or.inl (Or.inl (Or.inr h)))
    | inl h =>
    cases foldl_dep_mem (extendees exts) _ x h with
    | inr h => exact Or.inr (by simp only [allDeps, List.mem_append]; exact Or.inl (Or.inl (Or.inl (Or.inr h))))
    | inl h =>
      cases foldl_dep_mem fieldDeps.flatten _ x h with
      | inr h => exact Or.inr (by simp only [allDeps, List.mem_append]; exact Or.inl (Or.inl (Or.inl (Or.inl h))))
      | inl h =>
        left
        -- rows of the declaration pass are declarations
        have : ∀ (ns : List String) (t : TypeTab), x ∈ (ns.foldl TypeTab.decl t).goTypes → x ∈ t.goTypes ∨ x ∈ ns := by
          intro ns
          induction ns with
          | nil => intro t h; exact Or.inl h
          | cons n ns ih =>
            intro t h
            rw [List.foldl_cons] at h
            cases ih (t.decl n) h with
            | inr h1 => exact Or.inr (by simp [h1])
            | inl h1 =>
              unfold TypeTab.decl at h1
              split at h1
              · exact Or.inl h1
              · simp only [List.mem_append, List.mem_singleton] at h1
                cases h1 with
                | inl h2 => exact Or.inl h2
                | inr h2 => exact Or.inr (by simp [h2])
        cases this (enums ++ msgs) {} h with
        | inl h => simp at h
        | inr h => exact h

/-- The five trailing offsets delimit the sections as `filetype.TypeBuilder` reads them: field type names occupy
    `[0, F)`, extension extendees `[F, F+X)`, extension type names `[F+X, F+X+T)`, method inputs the next `M`
    entries, method outputs the last `M`. -/
theorem C19_depIdx_offsets (enums msgs : List String) (fieldDeps : List (List String)) (exts : List (String × Option String)) (methods : List (String × String)) :
    (typeTables enums msgs fieldDeps exts methods).offsets =
      [fieldDeps.flatten.length + exts.length + (extTypes exts).length + methods.length,
       fieldDeps.flatten.length + exts.length + (extTypes exts).length,
       fieldDeps.flatten.length + exts.length,
       fieldDeps.flatten.length, 0] ∧
    (typeTables enums msgs fieldDeps exts methods).deps.length =
      fieldDeps.flatten.length + exts.length + (extTypes exts).length + methods.length + methods.length := by
  have h0 : TypeTab.Good ((enums ++ msgs).foldl TypeTab.decl {}) [] := by
    obtain ⟨hn, hd⟩ := foldl_decl_nodup (enums ++ msgs) {} (by simp)
    exact ⟨hn, by rw [hd]; rfl, fun k h => by simp at h⟩
  have h1 := foldl_dep_good fieldDeps.flatten _ _ h0
  have h1a := foldl_dep_good (extendees exts) _ _ h1
  have h1b := foldl_dep_good (extTypes exts) _ _ h1a
  have h2 := foldl_dep_good (methods.map (·.1)) _ _ h1b
  have h3 := foldl_dep_good (methods.map (·.2)) _ _ h2
  refine ⟨?_, ?_⟩
  · show [_, _, _, _, 0] = _
    rw [h2.2.1, h1b.2.1, h1a.2.1, h1.2.1]; simp [extendees, Nat.add_assoc]
  · show (List.foldl TypeTab.dep _ _).deps.length = _
    rw [h3.2.1]; simp [extendees, Nat.add_assoc]

/-! ### non-vacuity: a file with an enum, three messages (one a map entry), a repeated self reference, an imported
    type used twice and a method -/

example :
    typeTables ["p.E"] ["p.A", "p.A.MEntry", "p.B"]
      [["p.B", "p.E", "p.A.MEntry", "q.X"], ["p.B"], ["p.A", "q.X", "p.E"]] [] [("p.A", "q.Y")] =
    { goTypes := ["p.E", "p.A", "p.A.MEntry", "p.B", "q.X", "q.Y"],
      deps := [3, 0, 2, 4, 3, 1, 4, 0, 1, 5],
      offsets := [9, 8, 8, 8, 0] } := by decide

/-- a file that declares extensions: two of descriptor.proto's FieldOptions (one enum typed), one of MessageOptions
    that is message typed -/
example :
    typeTables ["p.E"] ["p.A"] [["p.E"]]
      [("g.FieldOptions", none), ("g.MessageOptions", some "p.A"), ("g.FieldOptions", some "p.E")] [("p.A", "p.A")] =
    { goTypes := ["p.E", "p.A", "g.FieldOptions", "g.MessageOptions"],
      deps := [0, 2, 3, 2, 1, 0, 1, 1],
      offsets := [7, 6, 4, 1, 0] } := by decide

end Pulsar

#print axioms Pulsar.C19_depIdx_points_at_declared_type
#print axioms Pulsar.C19_goTypes_nodup
#print axioms Pulsar.C19_goTypes_start_with_declarations
#print axioms Pulsar.C19_goTypes_only_declared_or_used
#print axioms Pulsar.C19_depIdx_offsets
