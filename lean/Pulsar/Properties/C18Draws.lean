/-
  C18 at the draw level — `rapidproto.MessageGenerator` as a deterministic function of the values rapid
  hands out (RAPID_PROTOCOL.md; model: Pulsar/Rapidproto.lean `setFields` / `generate`, the function the
  driver commands `rgen` replay). rapid is a black box: every theorem quantifies over ALL draw sequences,
  all schemas, all option sets, all starting depths.

  * `C18_draws_total`            : with the fuel `depthLimit + 2 - depth` the model never runs out of fuel
                                   and `Truncate(i)` is never out of range; the only non-ok outcome is a
                                   missing / wrongly typed (/ left-over) draw; draws are consumed left to right.
  * `C18_draws_wellformed`       : draws in the range of their generators (`Ev.inRange`; for `String()`
                                   this is the ASSUMPTION that rapid yields valid UTF-8) ⇒ the message is
                                   `msgOK`, `utf8OK`, `enumsOK` (and has no unknown fields).
  * `C18_draws_marshal_roundtrip`: … so it marshals without error and round-trips (C01).
  * `C18_draws_depth_bounded`    : nesting depth ≤ depthLimit + 2; attained (Truncate quirk).
  * `C18_draws_noEmptyLists`, `C18_draws_disallowNil` and the `C18_remark_*` counterexamples: what the
    two options guarantee, and what they do not.
  * `C18_draws_mapper_honoured`, `C18_draws_mapper_consumes_no_draw` (+ corollaries): `FieldMaps`
    (`GenOpts.mapper`, answering by kind) — every scalar position of a mapped kind holds the mapper's value
    in every message filled within the nesting limit, and no scalar draw is consumed for a mapped kind; for
    ALL draws and ALL mappers. The well-formedness theorems need the mapper's values to be well-formed
    themselves (`MapperOK` / `MapperTyped`; trivially true without `FieldMaps`: `rp_mapperOK_none`).
  Proofs: Pulsar/Proofs/Rapid*.lean.
-/
import Pulsar.Proofs.RapidTop
import Pulsar.Proofs.RapidOpts
import Pulsar.Proofs.RapidMapper
import Pulsar.Proofs.ReflectCodec
import Pulsar.Properties.C01
namespace Pulsar.Rapidproto
open Pulsar

/-! ## Totality -/

/-- `setFields` at any depth, on any message value, with the fuel `depthLimit + 2 - depth`: a success
    consumed a prefix of the draws, left to right — the trace lists them in order with the generator
    that consumed each, the rest is a suffix; a `stuck` is a draw that is missing or of the wrong type
    (never `fuel`, never `truncate`: the loop index passed to `Truncate` is always within the list),
    at a position inside the sequence. -/
theorem C18_draws_total (S : Schema) (o : GenOpts) (E : List Int) (depth i : Nat) (v : Val) (ds : List Draw) :
    match setFields S o E (fuelFor depth) depth i v ds with
    | .ok _ rest tr => ds = tr.map Ev.draw ++ rest
    | .stuck p w => (w = .wrongType ∨ w = .missing) ∧ p ≤ ds.length := by
  have := rp_fine_setFields S o E (fuelFor depth) depth i v ds (rp_fuelFor_ge depth)
  cases h : setFields S o E (fuelFor depth) depth i v ds <;> simpa [h, Fine, Benign] using this

/-- top level: a success consumed exactly all draws; otherwise a draw is missing, of the wrong type, or
    left over. -/
theorem C18_draws_total_generate (S : Schema) (o : GenOpts) (E : List Int) (i : Nat) (ds : List Draw) :
    match generate S o E i ds with
    | .ok _ rest tr => rest = [] ∧ ds = tr.map Ev.draw
    | .stuck p w => (w = .wrongType ∨ w = .missing ∨ w = .leftover) ∧ p ≤ ds.length :=
  rp_fine_generate S o E i ds

/-! ## Well-formedness -/

/-- `setFields` on a well-formed message, all consumed draws in range: the message stays well-formed.
    `0 ∈ E`: the enum declares the number 0 (proto3 requires it of the first value); it is what the enum
    fields of the empty messages left behind by the Truncate quirk hold. -/
theorem C18_draws_wellformed_setFields (S : Schema) (o : GenOpts) (E : List Int) (h0 : (0 : Int) ∈ E)
    (hmap : MapperOK E o) (depth i : Nat) (v0 : Val) (ds : List Draw) (r : Bool × Val) (rest : List Draw) (tr : List Ev)
    (h : setFields S o E (fuelFor depth) depth i v0 ds = .ok r rest tr)
    (hr : ∀ e ∈ tr, e.inRange = true)
    (hm : msgOK S false (fuelFor depth) i v0 = true) (hu : utf8OK S (fuelFor depth) i v0 = true)
    (he : enumsOK S E (fuelFor depth) i v0 = true) :
    msgOK S false (fuelFor depth) i r.2 = true ∧ utf8OK S (fuelFor depth) i r.2 = true ∧
      enumsOK S E (fuelFor depth) i r.2 = true := by
  by_cases hd : depth ≤ Extracted.depthLimit + 2
  · have hN : Extracted.depthLimit + 2 ≤ fuelFor depth + depth := by unfold fuelFor; omega
    exact ⟨rp_ok_setFields S o hmap.typed E _ _ depth i v0 ds hN hm r rest tr h,
      rp_utf8_setFields S o E hmap.utf8 _ _ depth i v0 ds r rest tr h hr hu,
      rp_enum_setFields S o E h0 hmap.enum _ _ depth i v0 ds r rest tr h hr he⟩
  · have : fuelFor depth = 0 := by unfold fuelFor; omega
    rw [this] at hm; simp [msgOK] at hm

/-- The generated message is well-formed: `msgOK` (one slot per field, every scalar fits its kind, every
    oneof group holds at most one member, map keys distinct, no nil elements), every string is valid UTF-8
    and every enum field holds a declared number — provided every consumed draw is in the range of its
    generator (`Ev.inRange`: enum index < number of declared values, counts within [min,10], integers
    within their type, and `String()` draws valid UTF-8, which is an assumption about rapid). -/
theorem C18_draws_wellformed (S : Schema) (o : GenOpts) (E : List Int) (h0 : (0 : Int) ∈ E)
    (hmap : MapperOK E o) (i : Nat) (ds : List Draw) (v : Val) (rest : List Draw) (tr : List Ev)
    (h : generate S o E i ds = .ok v rest tr) (hr : ∀ e ∈ tr, e.inRange = true) :
    msgOK S false (fuelFor 0) i v = true ∧ utf8OK S (fuelFor 0) i v = true ∧
      enumsOK S E (fuelFor 0) i v = true ∧ unknownOK S (fuelFor 0) i v = true := by
  refine rp_post_generate S o E i ds
    (fun v => msgOK S false (fuelFor 0) i v = true ∧ utf8OK S (fuelFor 0) i v = true ∧
      enumsOK S E (fuelFor 0) i v = true ∧ unknownOK S (fuelFor 0) i v = true) (fun rest0 => ?_) v rest tr h hr
  refine rp_post_mono (rp_wf_setFields S o E h0 hmap (fuelFor 0) (fuelFor 0) 0 i (emptyMsg S i) rest0
    (by unfold fuelFor; omega)) (fun r tr' hq hin => ?_)
  exact hq hin (msgOK_emptyMsg S false _ i) (rp_utf8OK_emptyMsg S _ i) (rp_enumsOK_emptyMsg S h0 _ i)
    (rp_unknownOK_emptyMsg S _ i)

/-- `msgOK` alone needs no assumption on the draws: stored scalars are truncated to the field's width. -/
theorem C18_draws_msgOK (S : Schema) (o : GenOpts) (hmap : MapperTyped o) (E : List Int) (i : Nat) (ds : List Draw) (v : Val)
    (rest : List Draw) (tr : List Ev) (h : generate S o E i ds = .ok v rest tr) :
    msgOK S false (fuelFor 0) i v = true := by
  refine rp_post_generate' S o E i ds (fun v => msgOK S false (fuelFor 0) i v = true) (fun rest0 => ?_) v rest tr h
  exact rp_ok_setFields S o hmap E (fuelFor 0) (fuelFor 0) 0 i (emptyMsg S i) rest0
    (by unfold fuelFor; omega) (msgOK_emptyMsg S false _ i)

/-! ## Marshalling and round trip (composition with C01) -/

theorem rp_fuelFor_zero_le : fuelFor 0 ≤ 10000 := by unfold fuelFor Extracted.depthLimit; omega

/-- A generated message marshals without error or panic, in either marshal mode — for ALL draws (no
    range or UTF-8 assumption: the generated marshaller does not validate strings). -/
theorem C18_draws_marshal_total (S : Schema) (hS : S.WF = true) (o : GenOpts) (hmap : MapperTyped o) (E : List Int)
    (i : Nat) (hi : i < S.msgs.length) (ds : List Draw) (v : Val) (rest : List Draw) (tr : List Ev)
    (h : generate S o E i ds = .ok v rest tr) (mo : MOpts) (hperm : ∀ es, (mo.perm es).Perm es) :
    ∃ bs, implMarshal S mo (fuelFor 0) i v = .ok bs :=
  C01_marshal_total S hS (fuelFor 0) i v mo hperm hi (C18_draws_msgOK S o hmap E i ds v rest tr h)

/-- A message generated from in-range draws marshals and unmarshals back to an equal message (every
    hypothesis of `C01_roundtrip` is discharged: well-typed, valid UTF-8, no unknown fields, depth ≤ 12). -/
theorem C18_draws_marshal_roundtrip (S : Schema) (hS : S.WF = true) (o : GenOpts) (E : List Int)
    (h0 : (0 : Int) ∈ E) (hmap : MapperOK E o) (i : Nat) (hi : i < S.msgs.length) (ds : List Draw) (v : Val)
    (rest : List Draw)
    (tr : List Ev) (h : generate S o E i ds = .ok v rest tr) (hr : ∀ e ∈ tr, e.inRange = true)
    (mo : MOpts) (hperm : ∀ es, (mo.perm es).Perm es) :
    ∃ bs w, implMarshal S mo (fuelFor 0) i v = .ok bs ∧
      (bs.length < 9223372036854775808 →
        implUnmarshal S {} i (emptyMsg S i) bs = .ok w ∧ Equiv S (fuelFor 0) i w v) := by
  obtain ⟨hm, hu, _, hk⟩ := C18_draws_wellformed S o E h0 hmap i ds v rest tr h hr
  exact C01_roundtrip S hS (fuelFor 0) i v mo hperm hi hm hu hk rp_fuelFor_zero_le

/-! ## Nesting depth -/

/-- The nesting depth of a generated message is at most `depthLimit + 2` = 12 (not `depthLimit + 1`: a
    message at depth `depthLimit` can keep elements created at depth `depthLimit + 1`, see the example). -/
theorem C18_draws_depth_bounded (S : Schema) (o : GenOpts) (hmap : MapperTyped o) (E : List Int) (i : Nat) (ds : List Draw) (v : Val)
    (rest : List Draw) (tr : List Ev) (h : generate S o E i ds = .ok v rest tr) :
    v.depth ≤ Extracted.depthLimit + 2 :=
  rc_msgOK_depth_le S (fuelFor 0) i v (C18_draws_msgOK S o hmap E i ds v rest tr h)

/-- … and `setFields` at `depth` on a message of nesting ≤ `depthLimit + 2 - depth` keeps that bound. -/
theorem C18_draws_depth_bounded_setFields (S : Schema) (o : GenOpts) (hmap : MapperTyped o) (E : List Int) (depth i : Nat) (v0 : Val)
    (ds : List Draw) (r : Bool × Val) (rest : List Draw) (tr : List Ev)
    (h : setFields S o E (fuelFor depth) depth i v0 ds = .ok r rest tr)
    (hm : msgOK S false (fuelFor depth) i v0 = true) :
    r.2.depth ≤ Extracted.depthLimit + 2 - depth := by
  by_cases hd : depth ≤ Extracted.depthLimit + 2
  · have hN : Extracted.depthLimit + 2 ≤ fuelFor depth + depth := by unfold fuelFor; omega
    exact rc_msgOK_depth_le S (fuelFor depth) i r.2 (rp_ok_setFields S o hmap E _ _ depth i v0 ds hN hm r rest tr h)
  · have : fuelFor depth = 0 := by unfold fuelFor; omega
    rw [this] at hm; simp [msgOK] at hm

namespace DrawsExample

/-- `message L { repeated L l = 1; }` -/
def listS : Schema := ⟨[⟨[⟨1, .message 0, .repeated false⟩]⟩]⟩

def one : Draw := .num (some 1) none none
def three : Draw := .num (some 3) none none

/-- ten levels of one-element lists, then a list of count 3 at depth 10 -/
def deepDraws : List Draw :=
  [.bool true, one, .bool true, one, .bool true, one, .bool true, one, .bool true, one,
   .bool true, one, .bool true, one, .bool true, one, .bool true, one, .bool true, one,
   .bool true, three]

def resultOf : R Val → Val | .ok v _ _ => v | .stuck _ _ => .none

end DrawsExample

open DrawsExample in
/-- The bound is attained. At depth 10 the three `setFields(elem, 11)` calls return false; `Truncate(0)`
    empties the list, `Truncate(1)` and `Truncate(2)` are no-ops (the loop index is the length), so two
    elements created at depth 11 stay: nesting depth 12. -/
example : (resultOf (generate listS {} [0] 0 deepDraws)).depth = Extracted.depthLimit + 2 := by decide

/-! ## The options

  `everywhere mp S fuel 0 i v`: `mp depth j m` holds for every message `m` of the generated tree (with the
  depth of the `setFields` call that filled it). The fuel `fuelFor 0 = 12` covers the whole tree
  (`C18_draws_depth_bounded`). -/

/-- `NoEmptyLists` (counts drawn from `IntRange(1,10)`): in every message filled by a `setFields` call
    within the depth limit
    * every repeated SCALAR field has at least one element — always;
    * every repeated MESSAGE field has at least one element if `DisallowNilMessages` is set as well and the
      message is at depth < `depthLimit`.
    Nothing more is true: see the three remarks below. -/
theorem C18_draws_noEmptyLists (S : Schema) (o : GenOpts) (E : List Int) (ho : o.noEmptyLists = true)
    (i : Nat) (ds : List Draw) (v : Val) (rest : List Draw) (tr : List Ev)
    (h : generate S o E i ds = .ok v rest tr) (hr : ∀ e ∈ tr, e.inRange = true) :
    everywhere (nelLocal S o.disallowNil) S (fuelFor 0) 0 i v = true := by
  refine rp_post_generate S o E i ds (fun v => everywhere (nelLocal S o.disallowNil) S (fuelFor 0) 0 i v = true)
    (fun rest0 => ?_) v rest tr h hr
  exact rp_post_mono (rp_nel_setFields S o E ho (fuelFor 0) (fuelFor 0) 0 i (emptyMsg S i) rest0)
    (fun r tr' hq hin => hq hin (rp_spPre_emptyMsg rp_unk_SpZero S (rp_mpTrue_any_ok S _) _ 0 i))

/-- the same for a `setFields` call at any depth on an empty message or on a message that already satisfies
    the guarantee (the value `Map.Mutable` returns for a repeated key) -/
theorem C18_draws_noEmptyLists_setFields (S : Schema) (o : GenOpts) (E : List Int) (ho : o.noEmptyLists = true)
    (depth i : Nat) (v0 : Val) (ds : List Draw) (r : Bool × Val) (rest : List Draw) (tr : List Ev)
    (h : setFields S o E (fuelFor depth) depth i v0 ds = .ok r rest tr) (hr : ∀ e ∈ tr, e.inRange = true)
    (N : Nat) (hv0 : v0 = emptyMsg S i ∨ everywhere (nelLocal S o.disallowNil) S N depth i v0 = true) :
    everywhere (nelLocal S o.disallowNil) S N depth i r.2 = true := by
  refine rp_nel_setFields S o E ho (fuelFor depth) N depth i v0 ds r rest tr h hr ?_
  rcases hv0 with rfl | hv0
  · exact rp_spPre_emptyMsg rp_unk_SpZero S (rp_mpTrue_any_ok S _) _ _ i
  · rw [rp_everywhere_eq] at hv0
    exact rp_spPre_of_spOK S (rp_mpTrue_any_ok S _) hv0

/-- `DisallowNilMessages`: in every message filled by a `setFields` call at depth < `depthLimit`, every
    singular message field is present. (At depth = `depthLimit` every one of them is nil: remark below.) -/
theorem C18_draws_disallowNil (S : Schema) (o : GenOpts) (E : List Int) (ho : o.disallowNil = true)
    (i : Nat) (ds : List Draw) (v : Val) (rest : List Draw) (tr : List Ev)
    (h : generate S o E i ds = .ok v rest tr) (hr : ∀ e ∈ tr, e.inRange = true) :
    everywhere (nonilLocal S) S (fuelFor 0) 0 i v = true := by
  refine rp_post_generate S o E i ds (fun v => everywhere (nonilLocal S) S (fuelFor 0) 0 i v = true)
    (fun rest0 => ?_) v rest tr h hr
  exact rp_post_mono (rp_nonil_setFields S o E ho (fuelFor 0) (fuelFor 0) 0 i (emptyMsg S i) rest0)
    (fun r tr' hq hin => hq hin (rp_spPre_emptyMsg rp_unk_SpZero S (rp_mpTrue_any_ok S _) _ 0 i))

theorem C18_draws_disallowNil_setFields (S : Schema) (o : GenOpts) (E : List Int) (ho : o.disallowNil = true)
    (depth i : Nat) (v0 : Val) (ds : List Draw) (r : Bool × Val) (rest : List Draw) (tr : List Ev)
    (h : setFields S o E (fuelFor depth) depth i v0 ds = .ok r rest tr) (hr : ∀ e ∈ tr, e.inRange = true)
    (N : Nat) (hv0 : v0 = emptyMsg S i ∨ everywhere (nonilLocal S) S N depth i v0 = true) :
    everywhere (nonilLocal S) S N depth i r.2 = true := by
  refine rp_nonil_setFields S o E ho (fuelFor depth) N depth i v0 ds r rest tr h hr ?_
  rcases hv0 with rfl | hv0
  · exact rp_spPre_emptyMsg rp_unk_SpZero S (rp_mpTrue_any_ok S _) _ _ i
  · rw [rp_everywhere_eq] at hv0
    exact rp_spPre_of_spOK S (rp_mpTrue_any_ok S _) hv0

/-! ### What the options do NOT guarantee (the natural statements are false) -/

/-- the natural reading of `NoEmptyLists`: within the depth limit no repeated field is empty -/
def naiveNoEmptyLists (S : Schema) (depth i : Nat) (m : Val) : Bool :=
  decide (depth > Extracted.depthLimit) ||
    ((S.msg i).fields.zip m.slots).all (fun p =>
      match p.1.shape with | .repeated _ => decide (1 ≤ p.2.elems.length) | _ => true)

/-- the natural reading of `DisallowNilMessages`: within the depth limit no singular message field is nil -/
def naiveDisallowNil (S : Schema) (depth i : Nat) (m : Val) : Bool :=
  decide (depth > Extracted.depthLimit) ||
    ((S.msg i).fields.zip m.slots).all (fun p => presentField p.1 p.2)

namespace DrawsExample

/-- ten levels of one-element lists, then a list of count 1 at depth 10 -/
def deepDrawsOne : List Draw :=
  [.bool true, one, .bool true, one, .bool true, one, .bool true, one, .bool true, one,
   .bool true, one, .bool true, one, .bool true, one, .bool true, one, .bool true, one,
   .bool true, one]

/-- `message N { N n = 1; }` -/
def nestS : Schema := ⟨[⟨[⟨1, .message 0, .singular⟩]⟩]⟩

/-- `message Q { repeated Q q = 1; repeated int32 x = 2; }` -/
def leftS : Schema := ⟨[⟨[⟨1, .message 0, .repeated false⟩, ⟨2, .scalar .int32, .repeated false⟩]⟩]⟩

/-- levels 0–9: `q` gets one element, `x` gets one element; level 10: `q` count 2 (one element survives the
    Truncate quirk), `x` one element. Draw order per level: gen-q, count, <element…>, gen-x, count, value. -/
def leftDraws : List Draw :=
  [.bool true, one, .bool true, one, .bool true, one, .bool true, one, .bool true, one,
   .bool true, one, .bool true, one, .bool true, one, .bool true, one, .bool true, one,
   .bool true, .num (some 2) none none, .bool true, one, one,
   .bool true, one, one, .bool true, one, one, .bool true, one, one, .bool true, one, one, .bool true, one, one,
   .bool true, one, one, .bool true, one, one, .bool true, one, one, .bool true, one, one, .bool true, one, one]

end DrawsExample

open DrawsExample in
/-- Remark 1. A repeated MESSAGE field is skipped when its `gen-` draw is false (it is of `MessageKind`), so
    it stays empty in spite of `NoEmptyLists` (all draws in range). -/
theorem C18_remark_noEmptyLists_skipped :
    ∃ v tr, generate listS { noEmptyLists := true } [0] 0 [.bool false] = .ok v [] tr ∧
      (∀ e ∈ tr, e.inRange = true) ∧ naiveNoEmptyLists listS 0 0 v = false :=
  ⟨_, _, rfl, by decide, by decide⟩

open DrawsExample in
/-- Remark 2. Even with `DisallowNilMessages` (nothing is skipped): at depth `depthLimit` a repeated message
    field with count 1 ends up empty — `setFields(elem, depthLimit+1)` returns false and `Truncate(0)` removes
    the element. -/
theorem C18_remark_noEmptyLists_at_limit :
    ∃ v tr, generate listS { noEmptyLists := true, disallowNil := true } [0] 0 deepDrawsOne = .ok v [] tr ∧
      (∀ e ∈ tr, e.inRange = true) ∧ everywhere (naiveNoEmptyLists listS) listS (fuelFor 0) 0 0 v = false :=
  ⟨_, _, rfl, by decide, by decide⟩

open DrawsExample in
/-- Remark 3. The elements the Truncate quirk leaves behind (count ≥ 2 at depth `depthLimit`) are empty
    messages created at depth `depthLimit + 1`: their repeated SCALAR fields are empty too. The guarantee of
    `C18_draws_noEmptyLists` (which stops at the limit) holds, the same predicate without the depth guard
    fails. -/
theorem C18_remark_noEmptyLists_leftover :
    ∃ v tr, generate leftS { noEmptyLists := true, disallowNil := true } [0] 0 leftDraws = .ok v [] tr ∧
      (∀ e ∈ tr, e.inRange = true) ∧
      everywhere (nelLocal leftS true) leftS (fuelFor 0) 0 0 v = true ∧
      everywhere (fun _ i m => ((leftS.msg i).fields.zip m.slots).all (fun p => nelField false 0 p.1 p.2))
        leftS (fuelFor 0) 0 0 v = false :=
  ⟨_, _, rfl, by decide, by decide, by decide⟩

open DrawsExample in
/-- Remark 4. With `DisallowNilMessages` a singular message field of a message at depth `depthLimit` is nil:
    `Mutable` creates it, `setFields(…, depthLimit+1)` returns false, `Clear` removes it. -/
theorem C18_remark_disallowNil_at_limit :
    ∃ v tr, generate nestS { disallowNil := true } [0] 0 (List.replicate 11 (.bool false)) = .ok v [] tr ∧
      (∀ e ∈ tr, e.inRange = true) ∧
      everywhere (nonilLocal nestS) nestS (fuelFor 0) 0 0 v = true ∧
      everywhere (naiveDisallowNil nestS) nestS (fuelFor 0) 0 0 v = false :=
  ⟨_, _, rfl, by decide, by decide, by decide⟩

namespace DrawsExample

/-- `message O { oneof o { int32 a = 1; O m = 2; } }` -/
def oneofS : Schema := ⟨[⟨[⟨1, .scalar .int32, .oneof 0⟩, ⟨2, .message 0, .oneof 0⟩]⟩]⟩

/-- levels 0–9: `a` ← 1, then `m` generated (replaces `a`); level 10: `a` ← 7, then `m` generated -/
def oneofDraws : List Draw :=
  (List.replicate 10 [.bool true, one, .bool true]).flatten ++ [.bool true, .num (some 7) none none, .bool true]

/-- the innermost message of a chain of `m` members -/
def innermost : Nat → Val → Val
  | 0, v => v
  | k+1, v => (match v.slot 1 with | .one x => innermost k x | _ => v)

end DrawsExample

open DrawsExample in
/-- Remark 5 (oneof at the depth limit). At depth `depthLimit` the scalar member `a` is set to 7, then the
    message member `m` is generated: `Mutable` replaces `a` by a new `m`, `setFields(m, depthLimit+1)` returns
    false and `Clear` removes `m` — the group ends up EMPTY although two members were generated: the value
    drawn for `a` is lost. -/
theorem C18_remark_oneof_emptied_at_limit :
    ∃ v tr, generate oneofS {} [0] 0 oneofDraws = .ok v [] tr ∧ (∀ e ∈ tr, e.inRange = true) ∧
      (innermost 10 v).slots = [.none, .none] :=
  ⟨_, _, rfl, by decide, rfl⟩

open DrawsExample in
/-- Remark 6 (oneof of scalars). The `gen-` draw of a scalar field is ignored, so every scalar oneof member is
    set in turn and the LAST one always wins: with `oneof { int32 a = 1; string b = 2; }` the draws
    `gen-a = true, a = 1, gen-b = false, b = "a"` yield `b`. (The loop reaches `Set(b, …)` for every draw sequence,
    so `a` never survives; only this instance is proved here.) -/
theorem C18_remark_oneof_scalar_last_wins :
    ∃ v tr, generate ⟨[⟨[⟨1, .scalar .int32, .oneof 0⟩, ⟨2, .scalar .string, .oneof 0⟩]⟩]⟩ {} [0] 0
        [.bool true, one, .bool false, .str [0x61]] = .ok v [] tr ∧
      v.slots = [.none, .one (.blob false [0x61])] :=
  ⟨_, _, rfl, rfl⟩

/-! ## `FieldMaps`

  `GenOpts.mapper k = some w`: the field mappers answer `w` for every scalar of kind `k`
  (`genScalarFieldValue` returns it without drawing). No assumption on the draws, none on the mapper. -/

/-- `FieldMaps` is honoured: in every message filled by a `setFields` call within the depth limit — for all
    schemas, option sets and draw sequences — every scalar position of a kind `k` with `o.mapper k = some w`
    holds exactly `w` (`mapLocal` / `mapField … true` / `mapVal`, read by `rp_mapVal_iff`): singular scalar
    fields (always set), the scalar member a oneof group holds, every list element, every map key and every
    scalar map value. Exception, as for the other options: the messages the Truncate quirk leaves behind
    (created at depth `depthLimit + 1`, never filled) hold zero values — `mapLocal` claims nothing there. -/
theorem C18_draws_mapper_honoured (S : Schema) (o : GenOpts) (E : List Int)
    (i : Nat) (ds : List Draw) (v : Val) (rest : List Draw) (tr : List Ev)
    (h : generate S o E i ds = .ok v rest tr) :
    everywhere (mapLocal S o) S (fuelFor 0) 0 i v = true := by
  refine rp_post_generate' S o E i ds (fun v => everywhere (mapLocal S o) S (fuelFor 0) 0 i v = true)
    (fun rest0 => ?_) v rest tr h
  exact rp_post_mono (rp_map_setFields S o E (fuelFor 0) (fuelFor 0) 0 i (emptyMsg S i) rest0)
    (fun r _ hq => hq (rp_spPre_emptyMsg rp_unk_SpZero S (rp_map_MpOK S o) _ 0 i))

/-- the same for a `setFields` call at any depth on an empty message or on a message that already holds the
    mapper's values everywhere (the value `Map.Mutable` returns for a repeated key — with a mapped key kind
    that is every iteration after the first) -/
theorem C18_draws_mapper_honoured_setFields (S : Schema) (o : GenOpts) (E : List Int)
    (depth i : Nat) (v0 : Val) (ds : List Draw) (r : Bool × Val) (rest : List Draw) (tr : List Ev)
    (h : setFields S o E (fuelFor depth) depth i v0 ds = .ok r rest tr)
    (N : Nat) (hv0 : v0 = emptyMsg S i ∨ everywhere (mapLocal S o) S N depth i v0 = true) :
    everywhere (mapLocal S o) S N depth i r.2 = true := by
  refine rp_map_setFields S o E (fuelFor depth) N depth i v0 ds r rest tr h ?_
  rcases hv0 with rfl | hv0
  · exact rp_spPre_emptyMsg rp_unk_SpZero S (rp_map_MpOK S o) _ _ i
  · rw [rp_everywhere_eq] at hv0
    exact rp_spPre_of_spOK S (rp_map_MpOK S o) hv0

/-- how to read it, for the root message: a singular scalar field of a mapped kind IS the mapper's value
    (equality of values, not only `Val.beq`) -/
theorem C18_draws_mapper_honoured_root_singular (S : Schema) (o : GenOpts) (E : List Int)
    (i : Nat) (ds : List Draw) (v : Val) (rest : List Draw) (tr : List Ev)
    (h : generate S o E i ds = .ok v rest tr)
    (f : FieldDesc) (k : Kind) (w x : Val) (hs : f.shape = .singular) (he : f.elem = .scalar k)
    (hw : o.mapper k = some w) (hx : (f, x) ∈ (S.msg i).fields.zip v.slots) : x = w := by
  have := C18_draws_mapper_honoured S o E i ds v rest tr h
  have hf : fuelFor 0 = 11 + 1 := rfl
  rw [hf] at this
  simp only [everywhere, Bool.and_eq_true] at this
  have hl := this.1
  simp only [mapLocal, Bool.or_eq_true, decide_eq_true_eq] at hl
  rcases hl with hl | hl
  · exact absurd hl (by decide)
  · have := List.all_eq_true.1 hl _ hx
    simp only [mapField, hs, he, Bool.not_true, Bool.false_or] at this
    exact (rp_mapVal_iff o k x).1 this w hw

/-- `FieldMaps` consumes no draw: a successful generation consumed exactly the draws `ds` (the trace, in
    order), and every consumed draw is a `gen-`/`empty` flag, a count, or the scalar draw of a kind for which
    NO mapper answers (`Ev.unmapped`) — the trace contains no scalar draw event for a mapped kind. At the level
    of one scalar: `rp_genScalar_mapped` (`genScalar o E k ds = .ok w ds []`). -/
theorem C18_draws_mapper_consumes_no_draw (S : Schema) (o : GenOpts) (E : List Int)
    (i : Nat) (ds : List Draw) (v : Val) (rest : List Draw) (tr : List Ev)
    (h : generate S o E i ds = .ok v rest tr) :
    ds = tr.map Ev.draw ∧ ∀ e ∈ tr, e.unmapped o E := by
  have ht := C18_draws_total_generate S o E i ds
  rw [h] at ht
  exact ⟨ht.2, rp_tru_generate S o E i ds v rest tr h⟩

/-- the same for `setFields` at any depth, on any message -/
theorem C18_draws_mapper_consumes_no_draw_setFields (S : Schema) (o : GenOpts) (E : List Int)
    (depth i : Nat) (v0 : Val) (ds : List Draw) (r : Bool × Val) (rest : List Draw) (tr : List Ev)
    (h : setFields S o E (fuelFor depth) depth i v0 ds = .ok r rest tr) :
    ds = tr.map Ev.draw ++ rest ∧ ∀ e ∈ tr, e.unmapped o E := by
  have ht := C18_draws_total S o E depth i v0 ds
  rw [h] at ht
  exact ⟨ht, rp_tru_setFields S o E _ depth i v0 ds r rest tr h⟩

/-- … in terms of generators: when a mapper answers for every kind drawn from the rapid generator of kind
    `k` (`Int32()` serves int32, sint32 and sfixed32; `String()` only string), no draw of that generator
    occurs in the trace -/
theorem C18_draws_mapper_no_draw_of_gen (S : Schema) (o : GenOpts) (E : List Int)
    (i : Nat) (ds : List Draw) (v : Val) (rest : List Draw) (tr : List Ev)
    (h : generate S o E i ds = .ok v rest tr)
    (k : Kind) (hall : ∀ k', scalarGen E k' = scalarGen E k → o.mapper k' ≠ none) :
    ∀ e ∈ tr, e.gen ≠ scalarGen E k := by
  intro e he hg
  rcases (C18_draws_mapper_consumes_no_draw S o E i ds v rest tr h).2 e he with hf | ⟨m, hm⟩ | ⟨k', hn, hk'⟩
  · exact (rp_scalarGen_ne E k).1 (hg ▸ hf)
  · exact (rp_scalarGen_ne E k).2 m (hg ▸ hm)
  · exact hall k' (hk' ▸ hg) hn

/-- instance: a mapped string kind — the trace contains no `String()` draw -/
theorem C18_draws_mapper_no_string_draw (S : Schema) (o : GenOpts) (E : List Int)
    (i : Nat) (ds : List Draw) (v : Val) (rest : List Draw) (tr : List Ev)
    (h : generate S o E i ds = .ok v rest tr) (w : Val) (hw : o.mapper .string = some w) :
    ∀ e ∈ tr, e.gen ≠ .string := by
  refine C18_draws_mapper_no_draw_of_gen S o E i ds v rest tr h .string (fun k' hk' => ?_)
  cases k' <;> simp [scalarGen] at hk'
  simp [hw]

/-- a mapper answering for every kind: only flags and counts are drawn -/
theorem C18_draws_mapper_total_only_flags_and_counts (S : Schema) (o : GenOpts) (E : List Int)
    (i : Nat) (ds : List Draw) (v : Val) (rest : List Draw) (tr : List Ev)
    (h : generate S o E i ds = .ok v rest tr) (hall : ∀ k, o.mapper k ≠ none) :
    ∀ e ∈ tr, e.gen = .flag ∨ ∃ m, e.gen = .count m := by
  intro e he
  rcases (C18_draws_mapper_consumes_no_draw S o E i ds v rest tr h).2 e he with hf | hc | ⟨k, hn, _⟩
  · exact Or.inl hf
  · exact Or.inr hc
  · exact absurd hn (hall k)

/-! ## Non-vacuity: a schema with every field shape, both options, 34 draws in range -/

namespace DrawsExample

/-- message 0: int32, Msg1, repeated string, map<int32,Msg1>, oneof { enum, Msg1 };
    message 1: bool, repeated bytes -/
def exS : Schema := ⟨[
  ⟨[⟨1, .scalar .int32, .singular⟩, ⟨2, .message 1, .singular⟩, ⟨3, .scalar .string, .repeated false⟩,
    ⟨4, .message 1, .map .int32⟩, ⟨5, .scalar .enum, .oneof 0⟩, ⟨6, .message 1, .oneof 0⟩]⟩,
  ⟨[⟨1, .scalar .bool, .singular⟩, ⟨2, .scalar .bytes, .repeated false⟩]⟩]⟩

def exO : GenOpts := { noEmptyLists := true, disallowNil := true }
def exE : List Int := [0, 4, 5]
def n (i : Int) : Draw := .num (some i) none none

def exDraws : List Draw :=
  [.bool true, n (-5),                                                         -- int32
   .bool false, .bool true, .bool true, .bool true, n 1, .bytes [0],           -- Msg1 (gen- false, DisallowNil)
   .bool true, n 2, .str [0x61], .str [0xc3, 0xa9],                            -- repeated string
   .bool true, n 2, n 7, .bool false, .bool false, .bool true, n 1, .bytes [], -- map: key 7 …
                    n 7, .bool true, .bool true, .bool true, n 1, .bytes [255], --      … key 7 again: merged
   .bool true, n 1,                                                            -- enum member (index 1 → 4)
   .bool true, .bool true, .bool false, .bool true, n 1, .bytes [1]]           -- message member replaces it

theorem exS_wf : exS.WF = true := by decide

theorem ex_generates : ∃ v tr, generate exS exO exE 0 exDraws = .ok v [] tr ∧ (∀ e ∈ tr, e.inRange = true) :=
  ⟨_, _, rfl, by
    simp [Ev.inRange, Gen.inRange, scalarGen, n, Draw.getInt, Draw.getBlob, utf8Valid, exE, exO,
      Extracted.listMax]⟩

end DrawsExample

open DrawsExample in
example : ∃ v, msgOK exS false (fuelFor 0) 0 v = true ∧ utf8OK exS (fuelFor 0) 0 v = true ∧
    enumsOK exS exE (fuelFor 0) 0 v = true ∧ unknownOK exS (fuelFor 0) 0 v = true := by
  obtain ⟨v, tr, h, hr⟩ := ex_generates
  exact ⟨v, C18_draws_wellformed exS exO exE (by decide) (rp_mapperOK_none _ _ rfl) 0 exDraws v [] tr h hr⟩

open DrawsExample in
example : ∃ v bs w, implMarshal exS ⟨true, id⟩ (fuelFor 0) 0 v = .ok bs ∧
    (bs.length < 9223372036854775808 →
      implUnmarshal exS {} 0 (emptyMsg exS 0) bs = .ok w ∧ Equiv exS (fuelFor 0) 0 w v) := by
  obtain ⟨v, tr, h, hr⟩ := ex_generates
  obtain ⟨bs, w, hb⟩ := C18_draws_marshal_roundtrip exS exS_wf exO exE (by decide) (rp_mapperOK_none _ _ rfl) 0 (by decide) exDraws v [] tr
    h hr ⟨true, id⟩ (fun es => List.Perm.refl es)
  exact ⟨v, bs, w, hb⟩

open DrawsExample in
example : ∃ v, everywhere (nelLocal exS true) exS (fuelFor 0) 0 0 v = true ∧
    everywhere (nonilLocal exS) exS (fuelFor 0) 0 0 v = true := by
  obtain ⟨v, tr, h, hr⟩ := ex_generates
  exact ⟨v, C18_draws_noEmptyLists exS exO exE rfl 0 exDraws v [] tr h hr,
    C18_draws_disallowNil exS exO exE rfl 0 exDraws v [] tr h hr⟩

open DrawsExample in
/-- totality on a truncated draw sequence: `stuck` for a missing draw at the end of the sequence -/
example : generate exS exO exE 0 (exDraws.take 20) = .stuck 0 .missing := rfl

open DrawsExample in
/-- … and for a draw of the wrong type (position 1: 33 of the 34 draws were still unconsumed) -/
example : generate exS exO exE 0 (.bool true :: .str [] :: exDraws.drop 2) = .stuck 33 .wrongType := rfl

/-! ## Non-vacuity of the `FieldMaps` theorems: string ↦ "m", enum ↦ 4; 19 draws -/

namespace DrawsExample

/-- message 0: string, repeated string, map<string,int32>, map<string,Msg1>, oneof { int32, string }, enum;
    message 1: repeated int32 -/
def mapS : Schema := ⟨[
  ⟨[⟨1, .scalar .string, .singular⟩, ⟨2, .scalar .string, .repeated false⟩, ⟨3, .scalar .int32, .map .string⟩,
    ⟨4, .message 1, .map .string⟩, ⟨5, .scalar .int32, .oneof 0⟩, ⟨6, .scalar .string, .oneof 0⟩,
    ⟨7, .scalar .enum, .singular⟩]⟩,
  ⟨[⟨1, .scalar .int32, .repeated false⟩]⟩]⟩

def mVal : Val := .blob false [0x6d]

def mapO : GenOpts :=
  { mapper := fun k => match k with | .string => some mVal | .enum => some (.bits 4) | _ => none }

def mapDraws : List Draw :=
  [.bool true,                                                   -- string: only the gen- draw
   .bool true, n 2,                                              -- repeated string: only the count
   .bool true, n 2, n 1, n 2,                                    -- map<string,int32>: 2 values, both at key "m"
   .bool true, n 2, .bool true, n 1, n 7, .bool true, n 1, n 8,  -- map<string,Msg1>: the 2nd re-fills the 1st
   .bool true, n 1,                                              -- oneof: int32 member drawn …
   .bool false,                                                  -- … string member replaces it, no draw
   .bool true]                                                   -- enum: only the gen- draw

def mapResult : Val :=
  .msg [mVal, .list false [mVal, mVal], .map false [.entry mVal (.bits 2)],
        .map false [.entry mVal (.msg [.list false [.bits 7, .bits 8]] [])],
        .none, .one mVal, .bits 4] []

theorem mapO_ok : MapperOK exE mapO := by
  refine ⟨fun k w h => ?_, fun w h => ?_, fun w h => ?_⟩
  · cases k <;> simp [mapO] at h <;> subst h <;> decide
  · simp [mapO] at h; subst h; simp [mVal, Val.getBlob, utf8Valid]
  · simp [mapO] at h; subst h; decide

theorem map_generates : ∃ tr, generate mapS mapO exE 0 mapDraws = .ok mapResult [] tr ∧
    (∀ e ∈ tr, e.inRange = true) :=
  ⟨_, rfl, by
    simp [Ev.inRange, Gen.inRange, scalarGen, n, Draw.getInt, Draw.getBlob, mapO, Extracted.listMax]⟩

end DrawsExample

open DrawsExample in
/-- the mapper is honoured everywhere, no `String()` draw and no enum index draw was consumed, and the
    message is well-formed (the mapper's values are) -/
example : everywhere (mapLocal mapS mapO) mapS (fuelFor 0) 0 0 mapResult = true ∧
    (∃ tr, generate mapS mapO exE 0 mapDraws = .ok mapResult [] tr ∧ mapDraws = tr.map Ev.draw ∧
      (∀ e ∈ tr, e.unmapped mapO exE) ∧ (∀ e ∈ tr, e.gen ≠ .string) ∧ ∀ e ∈ tr, e.gen ≠ .enumIdx 3) ∧
    msgOK mapS false (fuelFor 0) 0 mapResult = true ∧ utf8OK mapS (fuelFor 0) 0 mapResult = true ∧
    enumsOK mapS exE (fuelFor 0) 0 mapResult = true := by
  obtain ⟨tr, h, hr⟩ := map_generates
  obtain ⟨hm, hu, he, _⟩ := C18_draws_wellformed mapS mapO exE (by decide) mapO_ok 0 mapDraws _ [] tr h hr
  have hc := C18_draws_mapper_consumes_no_draw mapS mapO exE 0 mapDraws _ [] tr h
  refine ⟨C18_draws_mapper_honoured mapS mapO exE 0 mapDraws _ [] tr h,
    ⟨tr, h, hc.1, hc.2, C18_draws_mapper_no_string_draw mapS mapO exE 0 mapDraws _ [] tr h mVal rfl, ?_⟩,
    hm, hu, he⟩
  refine C18_draws_mapper_no_draw_of_gen mapS mapO exE 0 mapDraws _ [] tr h .enum (fun k' hk' => ?_)
  cases k' <;> simp [scalarGen, exE] at hk'
  simp [mapO]

namespace DrawsExample

/-- `message Q { repeated Q q = 1; string s = 2; }` -/
def leftMapS : Schema := ⟨[⟨[⟨1, .message 0, .repeated false⟩, ⟨2, .scalar .string, .singular⟩]⟩]⟩

/-- levels 0–9: `q` gets one element; level 10: `q` count 2 (one element survives the Truncate quirk); then the
    `gen-s` flags of levels 10 … 0 (`s` is mapped: no `String()` draw) -/
def leftMapDraws : List Draw :=
  (List.replicate 10 [.bool true, one]).flatten ++ [.bool true, .num (some 2) none none] ++
    List.replicate 11 (.bool true)

end DrawsExample

open DrawsExample in
/-- Remark 7 (`FieldMaps` and the Truncate quirk). The element left behind at depth `depthLimit + 1` is an
    empty message that was never filled: its string field holds "" and not the mapper's value. `mapLocal`
    (which stops at the limit) holds everywhere, the same predicate without the depth guard fails. -/
theorem C18_remark_mapper_leftover :
    ∃ v tr, generate leftMapS mapO [0] 0 leftMapDraws = .ok v [] tr ∧
      everywhere (mapLocal leftMapS mapO) leftMapS (fuelFor 0) 0 0 v = true ∧
      everywhere (fun _ i m => ((leftMapS.msg i).fields.zip m.slots).all (fun p => mapField mapO true p.1 p.2))
        leftMapS (fuelFor 0) 0 0 v = false :=
  ⟨_, _, rfl, by decide, by decide⟩

open DrawsExample in
/-- the singular string field of the root IS the mapper's value -/
example (v : Val) (rest : List Draw) (tr : List Ev) (h : generate mapS mapO exE 0 mapDraws = .ok v rest tr) :
    v.slot 0 = mVal := by
  obtain ⟨tr', h', _⟩ := map_generates
  rw [h'] at h
  cases h
  rfl

open DrawsExample in
/-- without the mapper the same draws do not fit: the `String()` draw of field 1 is missing at position 1 -/
example : generate mapS {} exE 0 mapDraws = .stuck 18 .wrongType := rfl

open DrawsExample in
/-- `mapLocal` is not vacuous: the message generated WITHOUT the mapper from draws that fit violates it -/
example : ∃ v tr, generate mapS {} exE 0
      [.bool true, .str [0x78], .bool false, n 0, .bool false, .bool false, .bool true, n 1, .bool false, .str [],
       .bool true, n 0] = .ok v [] tr ∧
    everywhere (mapLocal mapS mapO) mapS (fuelFor 0) 0 0 v = false :=
  ⟨_, _, rfl, by decide⟩

end Pulsar.Rapidproto

#print axioms Pulsar.Rapidproto.C18_draws_total
#print axioms Pulsar.Rapidproto.C18_draws_total_generate
#print axioms Pulsar.Rapidproto.C18_draws_wellformed_setFields
#print axioms Pulsar.Rapidproto.C18_draws_wellformed
#print axioms Pulsar.Rapidproto.C18_draws_msgOK
#print axioms Pulsar.Rapidproto.C18_draws_marshal_total
#print axioms Pulsar.Rapidproto.C18_draws_marshal_roundtrip
#print axioms Pulsar.Rapidproto.C18_draws_depth_bounded
#print axioms Pulsar.Rapidproto.C18_draws_depth_bounded_setFields
#print axioms Pulsar.Rapidproto.C18_draws_noEmptyLists
#print axioms Pulsar.Rapidproto.C18_draws_noEmptyLists_setFields
#print axioms Pulsar.Rapidproto.C18_draws_disallowNil
#print axioms Pulsar.Rapidproto.C18_draws_disallowNil_setFields
#print axioms Pulsar.Rapidproto.C18_remark_noEmptyLists_skipped
#print axioms Pulsar.Rapidproto.C18_remark_noEmptyLists_at_limit
#print axioms Pulsar.Rapidproto.C18_remark_noEmptyLists_leftover
#print axioms Pulsar.Rapidproto.C18_remark_disallowNil_at_limit
#print axioms Pulsar.Rapidproto.C18_remark_oneof_emptied_at_limit
#print axioms Pulsar.Rapidproto.C18_remark_oneof_scalar_last_wins
#print axioms Pulsar.Rapidproto.C18_draws_mapper_honoured
#print axioms Pulsar.Rapidproto.C18_draws_mapper_honoured_setFields
#print axioms Pulsar.Rapidproto.C18_draws_mapper_honoured_root_singular
#print axioms Pulsar.Rapidproto.C18_draws_mapper_consumes_no_draw
#print axioms Pulsar.Rapidproto.C18_draws_mapper_consumes_no_draw_setFields
#print axioms Pulsar.Rapidproto.C18_draws_mapper_no_draw_of_gen
#print axioms Pulsar.Rapidproto.C18_draws_mapper_no_string_draw
#print axioms Pulsar.Rapidproto.C18_draws_mapper_total_only_flags_and_counts
#print axioms Pulsar.Rapidproto.rp_genScalar_mapped
#print axioms Pulsar.Rapidproto.rp_val_beq_iff
#print axioms Pulsar.Rapidproto.C18_remark_mapper_leftover
