/-
  C09 — a nil generated message is a safe, empty, read-only message: every read returns what it returns
  on the empty message and does not panic; every write panics and leaves it nil; Size is 0 and Marshal
  gives no bytes. (IMPL machine `Reflect.step`; `.none` is the nil receiver `(*T)(nil)`.)
  Property theorems only; helper lemmas live in Pulsar/Proofs/Reflect*.lean.
-/
import Pulsar.Proofs.ReflectCor
namespace Pulsar

/-- Reads on nil, at any path (`in`/`at`/`mv` prefixes included): the state stays nil and the output is the
    one the same op gives on the freshly allocated empty message. `IsValid` is the one observable
    difference (`f` on nil, `t` on `&T{}`), and is excluded. -/
theorem C09_nil_reads (S : Schema) (i : Nat) (op : Op) (hr : op.isWrite = false) (hv : op ≠ .r .valid) :
    Reflect.step S i .none op = (.none, (Reflect.step S i (emptyMsg S i) op).2) := by
  simp only [Reflect.step, hr, Bool.false_eq_true, if_false, Prod.mk.injEq, true_and]
  cases op with
  | r o =>
    by_cases hc : o.usesCodec = true
    · cases o <;> simp only [ROp.usesCodec, reduceCtorEq] at hc
      · simp only [Reflect.stepR, Reflect.read, depth_emptyMsg]
        rw [implSize_emptyMsg S Reflect.mopts rfl 1 i, implSize_none]
      · simp only [Reflect.stepR, Reflect.read, depth_emptyMsg]
        rw [implMarshal_emptyMsg S Reflect.mopts rfl 1 i, implMarshal_none]
    · exact impl_read_none S i o (fun h => hv (by rw [h])) (by simpa using hc)
  | w o => simp [Op.isWrite] at hr
  | «in» j op => simp only [Reflect.stepR, Val.isNone, emptyMsg, if_true, Bool.false_eq_true, if_false]
  | «at» j k op => simp only [Reflect.stepR, Val.isNone, emptyMsg, if_true, Bool.false_eq_true, if_false]
  | mv j k op => simp only [Reflect.stepR, Val.isNone, emptyMsg, if_true, Bool.false_eq_true, if_false]

/-- root-level reads that are addressed to an existing field of the right shape (`lget` has no valid
    index on an empty list, so it is not in the domain: `List.Get` out of range panics by contract) -/
def ROp.addressed (fs : List FieldDesc) : ROp → Bool
  | .has j | .get j | .newf j | .getter j => decide (j < fs.length)
  | .which g => fs.any (fun f => f.group? == some g)
  | .llen j => (match fs[j]? with | some f => (match f.shape with | .repeated _ => true | _ => false) | none => false)
  | .lget _ _ => false
  | .mlen j | .mhas j _ | .mget j _ | .mrange j =>
    (match fs[j]? with | some f => (match f.shape with | .map _ => true | _ => false) | none => false)
  | _ => true

/-- … and in particular they do not panic. -/
theorem C09_nil_reads_no_panic (S : Schema) (i : Nat) (o : ROp) (ha : o.addressed (S.msg i).fields = true) :
    (Reflect.step S i .none (.r o)).2 ≠ .panic ∧ (Reflect.step S i .none (.r o)).2 ≠ .enc .panic := by
  simp only [Reflect.step, Op.isWrite, Bool.false_eq_true, if_false, Reflect.stepR]
  cases o <;> simp only [ROp.addressed, decide_eq_true_eq, reduceCtorEq] at ha
  case has j =>
    obtain ⟨f, hf⟩ : ∃ f, (S.msg i).fields[j]? = some f := ⟨_, List.getElem?_eq_getElem ha⟩
    simp [Reflect.read, hf]
  case get j =>
    obtain ⟨f, hf⟩ : ∃ f, (S.msg i).fields[j]? = some f := ⟨_, List.getElem?_eq_getElem ha⟩
    simp only [Reflect.read, hf, Val.isNone, if_true, emptyMsg_slot S i j f hf]
    unfold Reflect.getF FieldDesc.zero
    cases f.shape <;> cases f.elem <;> simp [outElem, Elem.zeroVar, Val.elems] <;> split <;> simp
  case newf j =>
    obtain ⟨f, hf⟩ : ∃ f, (S.msg i).fields[j]? = some f := ⟨_, List.getElem?_eq_getElem ha⟩
    simp only [Reflect.read, hf]
    unfold newF
    cases f.shape <;> cases f.elem <;> simp [outElem] <;> split <;> simp
  case getter j =>
    -- the generated plain-Go getter on the nil receiver returns the zero value
    obtain ⟨f, hf⟩ : ∃ f, (S.msg i).fields[j]? = some f := ⟨_, List.getElem?_eq_getElem ha⟩
    simp only [Reflect.read, hf, Val.isNone, if_true]
    unfold Reflect.getterZero
    cases f.shape <;> cases f.elem <;> simp [outElem, Elem.zeroVar] <;> split <;> simp
  case which g => simp [Reflect.read, ha]
  case range => simp [Reflect.read, Val.isNone]
  case getu => simp [Reflect.read]
  case valid => simp [Reflect.read]
  case llen j =>
    cases hf : (S.msg i).fields[j]? with
    | none => simp [hf] at ha
    | some f => cases hs : f.shape <;> simp [hf, hs] at ha; simp [Reflect.read, hf, hs]
  case mlen j =>
    cases hf : (S.msg i).fields[j]? with
    | none => simp [hf] at ha
    | some f => cases hs : f.shape <;> simp [hf, hs] at ha; simp [Reflect.read, hf, hs]
  case mhas j k =>
    cases hf : (S.msg i).fields[j]? with
    | none => simp [hf] at ha
    | some f => cases hs : f.shape <;> simp [hf, hs] at ha; simp [Reflect.read, hf, hs]
  case mget j k =>
    cases hf : (S.msg i).fields[j]? with
    | none => simp [hf] at ha
    | some f =>
      cases hs : f.shape <;> simp [hf, hs] at ha
      simp only [Reflect.read, hf, hs, Val.isNone, if_true, emptyMsg_slot S i j f hf]
      simp [FieldDesc.zero, hs, findEntry]
  case mrange j =>
    cases hf : (S.msg i).fields[j]? with
    | none => simp [hf] at ha
    | some f => cases hs : f.shape <;> simp [hf, hs] at ha; simp [Reflect.read, hf, hs]
  case size => simp [Reflect.read]
  case enc => simp [Reflect.read, implMarshal_none]

/-- Every write on nil — at the root or through any path — panics and leaves the message nil. -/
theorem C09_nil_writes_panic (S : Schema) (i : Nat) (op : Op) (hw : op.isWrite = true) :
    Reflect.step S i .none op = (.none, .panic) := by
  simp only [Reflect.step, hw, if_true]
  cases op with
  | r o => simp [Op.isWrite] at hw
  | w o => rfl
  | «in» j op => rfl
  | «at» j k op => rfl
  | mv j k op => rfl

/-- `proto.Size(nil) = 0`, `proto.Marshal(nil)` = no bytes, for every option set and nesting budget. -/
theorem C09_nil_codec (S : Schema) (o : MOpts) (fuel i : Nat) :
    implSize S o fuel i .none = 0 ∧ implMarshal S o fuel i .none = .ok [] :=
  ⟨implSize_none S o fuel i, implMarshal_none S o fuel i⟩

/-- … exactly as on the empty message (deterministic marshalling). -/
theorem C09_empty_codec (S : Schema) (o : MOpts) (hd : o.det = true) (fuel i : Nat) :
    implSize S o (fuel+1) i (emptyMsg S i) = 0 ∧ implMarshal S o (fuel+1) i (emptyMsg S i) = .ok [] :=
  ⟨implSize_emptyMsg S o hd fuel i, implMarshal_emptyMsg S o hd fuel i⟩

/-- The reference (dynamicpb) invalid message behaves the same on reads: the IMPL nil receiver refines
    it at every path (codec ops are the subject of C02/C04). -/
theorem C09_nil_refines_spec (S : Schema) (i : Nat) (op : Op) (hr : op.isWrite = false)
    (hc : op.usesCodec = false) :
    (Reflect.step S i .none op).2 = (SpecReflect.step S i .none op).2 := by
  simp only [Reflect.step, SpecReflect.step, hr, Bool.false_eq_true, if_false]
  exact (stepR_none S op i hc).symm

/-! ### Non-vacuity: a testpb.A-like schema (message 0 = A, 1 = B, 2 = ImportedMessage) -/

def schemaA : Schema := ⟨[
  ⟨[⟨1, .scalar .enum, .singular⟩, ⟨2, .scalar .bool, .singular⟩, ⟨3, .scalar .int32, .singular⟩,
    ⟨15, .scalar .string, .singular⟩, ⟨16, .scalar .bytes, .singular⟩, ⟨17, .message 1, .singular⟩,
    ⟨18, .message 1, .map .string⟩, ⟨19, .message 1, .repeated false⟩, ⟨20, .message 1, .oneof 0⟩,
    ⟨21, .scalar .string, .oneof 0⟩, ⟨22, .scalar .enum, .repeated true⟩, ⟨23, .message 2, .singular⟩]⟩,
  ⟨[⟨1, .scalar .string, .singular⟩]⟩,
  ⟨[]⟩]⟩

example : schemaA.WF = true := by decide
-- Get of the unset message field / the empty list / the empty map / the inactive oneof member on nil
example : (Reflect.step schemaA 0 .none (.r (.get 5))).2 = .msgv false := rfl
example : (Reflect.step schemaA 0 .none (.r (.get 7))).2 = .listv false 0 := rfl
example : (Reflect.step schemaA 0 .none (.r (.get 6))).2 = .mapv false 0 := rfl
example : (Reflect.step schemaA 0 .none (.r (.get 9))).2 = .str [] := rfl
example : (Reflect.step schemaA 0 .none (.r (.which 0))).2 = .which none := rfl
-- the generated getters on the nil receiver: zero values (nil message pointer, nil slice, nil map, "")
example : (Reflect.step schemaA 0 .none (.r (.getter 5))).2 = .msgv false := rfl
example : (Reflect.step schemaA 0 .none (.r (.getter 7))).2 = .glist 0 := rfl
example : (Reflect.step schemaA 0 .none (.r (.getter 6))).2 = .gmap 0 := rfl
example : (Reflect.step schemaA 0 .none (.r (.getter 9))).2 = .str [] := rfl
example : (Reflect.step schemaA 0 .none (.in 5 (.r (.getter 0)))).2 = .str [] := rfl
example : (Reflect.step schemaA 0 .none (.r .range)).2 = .fields [] := rfl
-- a read through an unset message field reaches the nil message B and still answers
example : (Reflect.step schemaA 0 .none (.in 5 (.r (.get 0)))).2 = .str [] := rfl
example : (Reflect.step schemaA 0 .none (.r (.get 5))).2 ≠ .panic :=
  (C09_nil_reads_no_panic schemaA 0 (.get 5) (by decide)).1
-- writes
example : Reflect.step schemaA 0 .none (.w (.set 2 (.bits 7))) = (.none, .panic) :=
  C09_nil_writes_panic _ _ _ rfl
example : Reflect.step schemaA 0 .none (.in 5 (.w (.set 0 (.blob false [104])))) = (.none, .panic) :=
  C09_nil_writes_panic _ _ _ rfl
-- the same write on the empty message succeeds (so "writes panic" is about nil, not about the op)
example : (Reflect.step schemaA 0 (emptyMsg schemaA 0) (.w (.set 2 (.bits 7)))).2 = .ok := rfl

end Pulsar

#print axioms Pulsar.C09_nil_reads
#print axioms Pulsar.C09_nil_reads_no_panic
#print axioms Pulsar.C09_nil_writes_panic
#print axioms Pulsar.C09_nil_codec
#print axioms Pulsar.C09_empty_codec
#print axioms Pulsar.C09_nil_refines_spec
