/-
  C07, the part tied to the source by extraction: inside every unmarshal closure of the generated code each use of
  a sub-slice of the input buffer `dAtA[a:b]` is of a copying or reading form —

    string(dAtA[a:b])                        a Go string conversion copies
    append(dst, dAtA[a:b]...)                dst not rooted at the input: copies into dst's storage
    copy(dst, dAtA[a:b])                     likewise
    options.Unmarshal(dAtA[a:b], nested)     the nested message's own decoder (the same rules, by induction on nesting;
                                             for messages of other generators: protobuf-go, which copies)
    runtime.Skip(dAtA[a:]), binary.LittleEndian.Uint32/64(dAtA[a:]), for … range dAtA[a:b]     reads
    runtime.F(dAtA[a:b]) for a helper F of the runtime package whose body never writes through that
                                             parameter and whose results are of value types (or strings built by
                                             `string(…)`, which copies): "helper-read"; the runtime package has no
                                             package-level variable in which F could keep the slice (C03Code)

  — and the buffer a marshal closure returns (`input.Buf` / `dAtA`) is only ever bound to storage the closure made
  itself (make, append onto its own buffer), never to storage of the message. Hence no byte slice stored in a
  decoded message shares memory with the input, and returned bytes share no memory with the message.
  `Pulsar.ExtractedCode` is regenerated on every run (harness/cmd/vfacts, go/ast) from the emitted corpus code and
  the checked-in generated files. Trusted: the extractor and the reading of the Go forms above.
  The run-time side (scribble oracles: overwrite the input after Unmarshal / the message after Marshal) is in the
  decode and codec engines; the frame theorems are in Properties/C07.lean.
-/
import Pulsar.ExtractedCode
namespace Pulsar
open ExtractedCode

def copyingOrReadingForms : List String :=
  ["append-copy", "copy-copy", "fixed-read", "helper-read", "nested-decode", "range-read", "skip-read", "string-copy"]

theorem C07_extracted_input_flows_copy :
    inputFlowOther = [] ∧ (∀ k ∈ inputFlowKinds, k ∈ copyingOrReadingForms) ∧ errors = [] := by decide

theorem C07_extracted_marshal_returns_own_buffer : marshalBufOther = [] := by decide

#print axioms C07_extracted_input_flows_copy
#print axioms C07_extracted_marshal_returns_own_buffer
end Pulsar
