/-
  C12 — Generator is total on proto3 schemas; unknown features are an error; proto2 files and files
  that were not requested produce no output; reserved Go names are rewritten.

  The decision logic of the plugin (model: `Pulsar.Gen`). "The emitted text is Go that compiles" is not
  a Lean statement; it is reached by running the plugin (DESIGN §3 C12, partial).
-/
import Pulsar.Proofs.Gen
namespace Pulsar.Gen
open Pulsar

/-! ### feature names -/

/-- A name that is neither registered nor "all" makes `findFeatures` (hence `NewGenerator`, hence the
    plugin) answer with an error — wherever it stands in the list (also behind an "all"). -/
theorem C12_unknown_feature_is_error (reg : List (String × Bool)) (pre post : List String) (n : String)
    (o : List (String × Bool) → List (String × Bool))
    (hn : n ≠ "all") (hl : reg.lookup n = none) :
    ∃ e, findFeatures reg (pre ++ n :: post) o = .error e := by
  obtain ⟨e, he⟩ := collect_unknown reg n post hn hl pre false []
  exact ⟨e, by simp [findFeatures, he]⟩

/-- the same for the features the plugin registers: anything but "all", "fast", "protoc" -/
theorem C12_unknown_feature_is_error_registered (pre post : List String) (n : String)
    (o : List (String × Bool) → List (String × Bool))
    (hn : n ∉ ["all", "fast", "protoc"]) :
    ∃ e, findFeatures registered (pre ++ n :: post) o = .error e := by
  simp only [List.mem_cons, List.not_mem_nil, or_false, not_or] at hn
  apply C12_unknown_feature_is_error registered pre post n o hn.1
  rw [List.lookup_eq_none_iff]
  intro p hp
  simp only [registered, List.mem_cons, List.not_mem_nil, or_false] at hp
  rcases hp with rfl | rfl
  · simpa using hn.2.1
  · simpa using hn.2.2

/-- The error names the first offending feature when it is the only one. -/
theorem C12_unknown_feature_named (n : String) (o : List (String × Bool) → List (String × Bool))
    (hn : n ≠ "all") (hl : registered.lookup n = none) :
    findFeatures registered [n] o = .error n := by
  simp [findFeatures, collect, hn, hl]

/-- Requests made of registered names (and "all") are served. -/
theorem C12_known_features_ok (reg : List (String × Bool)) (names : List String)
    (o : List (String × Bool) → List (String × Bool))
    (h : ∀ n ∈ names, n = "all" ∨ (reg.lookup n).isSome = true) :
    ∃ fs, findFeatures reg names o = .ok fs := by
  obtain ⟨r, hr⟩ := collect_known reg names false [] h
  exact ⟨sortByName (o r), by simp [findFeatures, hr]⟩

/-- … and without "all", exactly the requested features run. -/
theorem C12_selected_are_requested (reg : List (String × Bool)) (names : List String)
    (o : List (String × Bool) → List (String × Bool)) (ho : ∀ l, (o l).Perm l)
    (fs : List (String × Bool)) (hall : "all" ∉ names) (h : findFeatures reg names o = .ok fs) :
    ∀ k, k ∈ featureNames fs ↔ k ∈ names := by
  intro k
  unfold findFeatures at h
  cases hc : collect reg names false [] with
  | error e => rw [hc] at h; cases h
  | ok r =>
    rw [hc] at h
    injection h with h
    subst h
    have hp : (featureNames (sortByName (o r))).Perm (keys r) :=
      ((sortByName_perm _).trans (ho r)).map _
    rw [hp.mem_iff, collect_keys_mem reg names [] r hall hc k]
    simp [keys]

/-- "all" selects every registered feature — when the names that follow it are known as well (they
    are validated like any other name). -/
theorem C12_all_selects_registered (ns : List String) (o : List (String × Bool) → List (String × Bool))
    (h : ∀ n ∈ ns, n = "all" ∨ (registered.lookup n).isSome = true) :
    findFeatures registered ("all" :: ns) o = .ok (sortByName (o registered)) := by
  have hc : collect registered ("all" :: ns) false [] = .ok registered :=
    collect_all registered ("all" :: ns) false []
      (fun n hn => by
        rcases List.mem_cons.1 hn with e | e
        · exact Or.inl e
        · exact h n e)
      (Or.inr (by simp))
  simp [findFeatures, hc]

/-- Names that follow "all" are validated too (the former finding `all+nosuch` is fixed):
    `features=all+nosuch` is an error like `features=nosuch+all` and `features=fast+nosuch`. -/
theorem C12_unknown_after_all_is_error :
    ∃ e, findFeatures registered (parseFeatures (some "all+nosuch")) id = .error e := ⟨"nosuch", rfl⟩

/-- … while "all" together with registered names is served and selects every registered feature. -/
theorem C12_all_with_known_names_ok :
    findFeatures registered (parseFeatures (some "all+fast")) id = .ok [("fast", true), ("protoc", false)] := rfl

/-! ### which files come back -/

/-- the per-file decision in closed form -/
theorem C12_emitted_iff (feats : List (String × Bool)) (seen : List (String × Nat)) (lp : List String)
    (f : FileIn) : (generateFile feats seen lp f).1.emitted = (f.requested && f.proto3 && emits feats) :=
  generateFile_emitted feats seen lp f

theorem C12_proto2_file_produces_nothing (feats : List (String × Bool)) (seen : List (String × Nat))
    (lp : List String) (f : FileIn) (h : f.proto3 = false) :
    generateFile feats seen lp f = (⟨false, [], []⟩, seen) := by
  unfold generateFile
  cases f.requested <;> simp [h]

theorem C12_unrequested_file_produces_nothing (feats : List (String × Bool)) (seen : List (String × Nat))
    (lp : List String) (f : FileIn) (h : f.requested = false) :
    generateFile feats seen lp f = (⟨false, [], []⟩, seen) := by
  unfold generateFile
  simp [h]

/-- in a whole run: every emitted file was requested and is proto3 -/
theorem C12_only_requested_proto3_emitted (flag : Option String) (files : List FileIn)
    (o : List (String × Bool) → List (String × Bool)) (outs : List FileOut)
    (h : runPlugin flag files o = .ok outs) :
    outs.length = files.length ∧
    ∀ (i : Nat) (out : FileOut) (f : FileIn), outs[i]? = some out → files[i]? = some f → out.emitted = true →
      f.requested = true ∧ f.proto3 = true := by
  unfold runPlugin at h
  cases hf : findFeatures registered (parseFeatures flag) o with
  | error e => rw [hf] at h; cases h
  | ok feats =>
    rw [hf] at h
    injection h with h
    subst h
    have key : ∀ (fs : List FileIn) (seen : List (String × Nat)),
        (generateAll feats (localPackages files) seen fs).length = fs.length ∧
        ∀ (i : Nat) (out : FileOut) (f : FileIn), (generateAll feats (localPackages files) seen fs)[i]? = some out →
          fs[i]? = some f → out.emitted = true → f.requested = true ∧ f.proto3 = true := by
      intro fs
      induction fs with
      | nil => intro seen; simp [generateAll]
      | cons g gs ih =>
        intro seen
        refine ⟨by simp [generateAll, (ih _).1], ?_⟩
        intro i out f ho hf he
        cases i with
        | zero =>
          simp [generateAll] at ho hf
          subst ho; subst hf
          rw [generateFile_emitted] at he
          simp only [Bool.and_eq_true] at he
          exact ⟨he.1.1, he.1.2⟩
        | succ i =>
          simp only [generateAll, List.getElem?_cons_succ] at ho hf
          exact (ih _).2 i out f ho hf he
    exact key files []

/-- "protoc" alone: its `GenerateFile` answers `pg.once` = false, every file is `Skip()`ped. -/
theorem C12_protoc_alone_emits_nothing (seen : List (String × Nat)) (lp : List String) (f : FileIn) :
    (generateFile [("protoc", false)] seen lp f).1.emitted = false := by
  rw [generateFile_emitted]; simp [emits]

theorem C12_protoc_alone_emits_nothing_run (files : List FileIn)
    (o : List (String × Bool) → List (String × Bool)) (ho : ∀ l, (o l).Perm l) :
    ∃ outs, runPlugin (some "protoc") files o = .ok outs ∧ ∀ out ∈ outs, out.emitted = false := by
  have hf : findFeatures registered (parseFeatures (some "protoc")) o = .ok (sortByName (o [("protoc", false)])) := rfl
  refine ⟨_, by simp only [runPlugin, hf]; rfl, ?_⟩
  intro out hout
  obtain ⟨f, _, s, hs⟩ := generateAll_mem _ _ _ _ _ hout
  rw [hs, generateFile_emitted]
  have hem : emits (sortByName (o [("protoc", false)])) = false := by
    unfold emits
    rw [List.any_eq_false]
    intro x hx
    have : x ∈ [("protoc", false)] := (ho _).mem_iff.1 ((sortByName_perm _).mem_iff.1 hx)
    simp at this
    simp [this]
  simp [hem]

/-- as soon as "fast" is among the features, every requested proto3 file is emitted -/
theorem C12_fast_emits (feats : List (String × Bool)) (seen : List (String × Nat)) (lp : List String)
    (f : FileIn) (hr : f.requested = true) (h3 : f.proto3 = true) (hfast : ("fast", true) ∈ feats) :
    (generateFile feats seen lp f).1.emitted = true := by
  rw [generateFile_emitted, hr, h3]
  simp only [Bool.and_self, Bool.true_and, emits, List.any_eq_true]
  exact ⟨_, hfast, rfl⟩

/-! ### reserved Go names -/

theorem C12_reserved_names_rewritten (n : String) : goFieldName n ∉ Extracted.reservedFieldNames :=
  rewriteName_not_reserved n

theorem C12_reserved_oneof_names_rewritten (n : String) : goOneofName n ∉ Extracted.reservedFieldNames :=
  rewriteName_not_reserved n

/-- names that are not reserved are left alone; the rewrite is idempotent (a second pass over an
    already processed message would change nothing) -/
theorem C12_unreserved_names_kept (n : String) (h : n ∉ Extracted.reservedFieldNames) : goFieldName n = n :=
  rewriteName_of_not_mem n h

theorem C12_rewrite_idempotent (n : String) : goFieldName (goFieldName n) = goFieldName n :=
  rewriteName_idem n

/-- FINDING (statement false): the rewrite is NOT injective. protogen hands the plugin distinct Go names
    (`type` ↦ `Type`, `type_` ↦ `Type_`), the rewrite maps both to `Type_`: a message with the fields
    `type` and `type_` gets two struct fields (and two getters) of the same name. -/
theorem C12_rewrite_not_injective : ¬ (∀ a b : String, goFieldName a = goFieldName b → a = b) := by
  intro h
  have := h "Type" "Type_" (by decide)
  exact absurd this (by decide)

/-! ### the behavioural model covers every kind -/

/-- Lean definitions are total, so the per-field functions of `Pulsar.Encode`/`Pulsar.Decode` answer on
    every kind × shape by construction (there is no "unsupported" outcome in `Res`). What can be
    *stated*: the extracted wire-type table has a legal entry for every kind and agrees with the
    wire-format specification, packable/blob is a partition of the kinds, and the generator's
    `kindToGoType` table (map keys) lists every kind. -/
theorem C12_model_total (k : Kind) :
    Extracted.wireType k ∈ [0, 1, 2, 5] ∧ Extracted.wireType k = k.specWireType ∧
    (k.packable = !k.isBlob) ∧ (k.isBlob = true ↔ Extracted.wireType k = 2) ∧
    k ∈ Extracted.mapKeyKinds := by
  cases k <;> decide

-- non-vacuity
example : parseFeatures (some "protoc+fast") = ["protoc", "fast"] := by decide
example : parseFeatures none = ["all"] := by decide
example : parseFeatures (some "") = [""] := by decide
example : findFeatures registered (parseFeatures (some "protoc+fast")) id = .ok [("fast", true), ("protoc", false)] := rfl
example : findFeatures registered (parseFeatures (some "protoc+fast")) List.reverse = .ok [("fast", true), ("protoc", false)] := rfl
example : findFeatures registered (parseFeatures (some "fast+nosuch")) id = .error "nosuch" := rfl
example : findFeatures registered (parseFeatures (some "all")) id = .ok [("fast", true), ("protoc", false)] := rfl
example : findFeatures registered (parseFeatures (some "fast+fast")) id = .ok [("fast", true)] := rfl
example : findFeatures registered (parseFeatures (some "")) id = .error "" := rfl
example : findFeatures registered (parseFeatures (some "all+nosuch")) id = .error "nosuch" := rfl
example : findFeatures registered (parseFeatures (some "nosuch+all")) id = .error "nosuch" := rfl
example : findFeatures registered (parseFeatures (some "fast+all")) id = .ok [("fast", true), ("protoc", false)] := rfl
example : findFeatures registered (parseFeatures (some "all+all")) id = .ok [("fast", true), ("protoc", false)] := rfl
example : (generateFile [("fast", true), ("protoc", false)] [] [] ⟨true, true, "p", "pkg"⟩).1 = ⟨true, ["fast", "protoc"], [0]⟩ := by decide
example : (generateFile [("fast", true), ("protoc", false)] [] [] ⟨true, false, "p", "pkg"⟩).1.emitted = false := by decide
example : (generateFile [("protoc", false)] [] [] ⟨true, true, "p", "pkg"⟩).1.emitted = false := by decide
example : goFieldName "Type" = "Type_" := by decide
example : goFieldName "ProtoReflect" = "ProtoReflect_" := by decide
example : goOneofName "Descriptor" = "Descriptor_" := by decide
example : goFieldName "Foo" = "Foo" := by decide
example : "Type" ∈ Extracted.reservedFieldNames := by decide

end Pulsar.Gen

#print axioms Pulsar.Gen.C12_unknown_feature_is_error
#print axioms Pulsar.Gen.C12_unknown_feature_is_error_registered
#print axioms Pulsar.Gen.C12_unknown_feature_named
#print axioms Pulsar.Gen.C12_known_features_ok
#print axioms Pulsar.Gen.C12_selected_are_requested
#print axioms Pulsar.Gen.C12_all_selects_registered
#print axioms Pulsar.Gen.C12_unknown_after_all_is_error
#print axioms Pulsar.Gen.C12_all_with_known_names_ok
#print axioms Pulsar.Gen.C12_emitted_iff
#print axioms Pulsar.Gen.C12_proto2_file_produces_nothing
#print axioms Pulsar.Gen.C12_unrequested_file_produces_nothing
#print axioms Pulsar.Gen.C12_only_requested_proto3_emitted
#print axioms Pulsar.Gen.C12_protoc_alone_emits_nothing
#print axioms Pulsar.Gen.C12_protoc_alone_emits_nothing_run
#print axioms Pulsar.Gen.C12_fast_emits
#print axioms Pulsar.Gen.C12_reserved_names_rewritten
#print axioms Pulsar.Gen.C12_reserved_oneof_names_rewritten
#print axioms Pulsar.Gen.C12_unreserved_names_kept
#print axioms Pulsar.Gen.C12_rewrite_idempotent
#print axioms Pulsar.Gen.C12_rewrite_not_injective
#print axioms Pulsar.Gen.C12_model_total
