/-
  C03, the part tied to the source by extraction: the Lean decoder models (`implUnmarshal`, `specUnmarshal`) are
  FUNCTIONS of (schema, options, target value, input bytes) — nothing else. The Go code has one more possible
  input that no value-level comparison can enumerate: state left behind by earlier calls in the same process
  (an intern table, a cache, a pool). `Pulsar.ExtractedCode` is regenerated on every run (harness/cmd/vfacts,
  go/ast): `runtimeState` lists every package-level variable of the runtime package that is not a plain error
  value, and `inputFlowOther` every use of a piece of the input buffer that is not a plain copy or read (e.g. a
  helper that may look the bytes up in a table). Both lists empty ⇒ the decode closures have no access to state
  that survives a call (the generated packages' own package-level variables are descriptor tables, covered by
  `C11_extracted_read_paths_write_nothing` for writes on read paths).

  Trusted: the extractor. The behavioural tie (model line by line vs real code) is in the decode engine.
-/
import Pulsar.ExtractedCode
namespace Pulsar
open ExtractedCode

theorem C03_extracted_decoder_has_no_call_spanning_state :
    runtimeState = [] ∧ inputFlowOther = [] ∧ errors = [] := by decide

#print axioms C03_extracted_decoder_has_no_call_spanning_state
end Pulsar
