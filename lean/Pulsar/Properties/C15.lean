/-
  C15 — Runtime varint helpers agree with protowire on all inputs.
  Property theorems only; helper lemmas live in Pulsar/Proofs/Runtime.lean.
-/
import Pulsar.Proofs.Runtime
namespace Pulsar

/-- Sov equals protowire.SizeVarint for every value (in particular every uint64). -/
theorem C15_sov_eq_protowire_size (x : Nat) : sov x = (varint x).length := sorry

/-- Soz equals the size of the zig-zag encoding for every 64-bit pattern. -/
theorem C15_soz_eq (x : Nat) (hx : x < 18446744073709551616) :
    soz x = (varint (zigzag64 x)).length := sorry

/-- EncodeVarint stores exactly the minimal varint ending at `off`, touches no other byte, returns
    `off - sov v`, and panics exactly when the varint does not fit before `off` inside the buffer. -/
theorem C15_encodeVarint_writes_minimal_varint (d : Bytes) (off v : Nat) :
    encodeVarint d off v =
      if sov v ≤ off ∧ off ≤ d.length
      then .ok (d.take (off - sov v) ++ varint v ++ d.drop off, ((off - sov v : Nat) : Int))
      else .panic := sorry

/-- Skip never panics, on any byte string. -/
theorem C15_skip_no_panic (bs : Bytes) : skip bs ≠ .panic := sorry

/-- Skip always makes progress when it succeeds. -/
theorem C15_skip_progress (bs : Bytes) (n : Nat) (h : skip bs = .ok n) : 0 < n := sorry

/-- For every input whose first record protowire accepts, Skip returns precisely that record's length
    (whatever follows it). `bs.length < 2^63` holds of every Go slice. -/
theorem C15_skip_len (bs : Bytes) (n : Nat) (hl : bs.length < 9223372036854775808)
    (h : consumeField bs = .ok n) : skip bs = .ok n := sorry

end Pulsar
