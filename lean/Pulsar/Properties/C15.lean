/-
  C15 — Runtime varint helpers agree with protowire on all inputs.
  Property theorems only; helper lemmas live in Pulsar/Proofs/Runtime.lean.
-/
import Pulsar.Proofs.Runtime
namespace Pulsar

/-- Sov equals protowire.SizeVarint for every value (in particular every uint64). -/
theorem C15_sov_eq_protowire_size (x : Nat) : sov x = (varint x).length :=
  sov_eq_varint_length x

/-- Soz equals the size of the zig-zag encoding for every 64-bit pattern. -/
theorem C15_soz_eq (x : Nat) (hx : x < 18446744073709551616) :
    soz x = (varint (zigzag64 x)).length :=
  soz_eq_varint_length x hx

/-- EncodeVarint stores exactly the minimal varint ending at `off`, touches no other byte, returns
    `off - sov v`, and panics exactly when the varint does not fit before `off` inside the buffer. -/
theorem C15_encodeVarint_writes_minimal_varint (d : Bytes) (off v : Nat) :
    encodeVarint d off v =
      if sov v ≤ off ∧ off ≤ d.length
      then .ok (d.take (off - sov v) ++ varint v ++ d.drop off, ((off - sov v : Nat) : Int))
      else .panic :=
  encodeVarint_spec d off v

/-- Skip never panics, on any byte string. -/
theorem C15_skip_no_panic (bs : Bytes) : skip bs ≠ .panic :=
  skip_ne_panic bs

/-- Skip always makes progress when it succeeds. -/
theorem C15_skip_progress (bs : Bytes) (n : Nat) (h : skip bs = .ok n) : 0 < n :=
  skip_progress bs n h

/-- For every input whose first record protowire accepts, Skip returns precisely that record's length
    (whatever follows it). `bs.length < 2^63` holds of every Go slice. -/
theorem C15_skip_len (bs : Bytes) (n : Nat) (hl : bs.length < 9223372036854775808)
    (h : consumeField bs = .ok n) : skip bs = .ok n :=
  skip_len_of_consumeField bs n hl h

/-! ### Non-vacuity: the hypotheses of the conditional theorems are satisfiable. -/

/-- varint record: field 1, wire type 0, value 150 (`08 96 01`). -/
example : consumeField [0x08, 0x96, 0x01] = .ok 3 := by
  simp [consumeField, consumeTag, consumeVarint, consumeVarintAux, consumeValue]
example : skip [0x08, 0x96, 0x01] = .ok 3 := C15_skip_len _ _ (by decide) (by
  simp [consumeField, consumeTag, consumeVarint, consumeVarintAux, consumeValue])
/-- trailing bytes after the first record are ignored. -/
example : consumeField [0x08, 0x96, 0x01, 0xff, 0xff] = .ok 3 := by
  simp [consumeField, consumeTag, consumeVarint, consumeVarintAux, consumeValue]
example : skip [0x08, 0x96, 0x01, 0xff, 0xff] = .ok 3 := C15_skip_len _ _ (by decide) (by
  simp [consumeField, consumeTag, consumeVarint, consumeVarintAux, consumeValue])
/-- length-delimited record: field 2, length 3. -/
example : consumeField [0x12, 0x03, 0x61, 0x62, 0x63] = .ok 5 := by
  simp [consumeField, consumeTag, consumeVarint, consumeVarintAux, consumeValue]
example : skip [0x12, 0x03, 0x61, 0x62, 0x63] = .ok 5 := C15_skip_len _ _ (by decide) (by
  simp [consumeField, consumeTag, consumeVarint, consumeVarintAux, consumeValue])
/-- fixed32 record: field 1, wire type 5. -/
example : consumeField [0x0d, 0x01, 0x02, 0x03, 0x04] = .ok 5 := by
  simp [consumeField, consumeTag, consumeVarint, consumeVarintAux, consumeValue]
example : skip [0x0d, 0x01, 0x02, 0x03, 0x04] = .ok 5 := C15_skip_len _ _ (by decide) (by
  simp [consumeField, consumeTag, consumeVarint, consumeVarintAux, consumeValue])
/-- group record: start-group 1, varint field 1 = 1, end-group 1. -/
example : consumeField [0x0b, 0x08, 0x01, 0x0c] = .ok 4 := by
  simp [consumeField, consumeTag, consumeVarint, consumeVarintAux, consumeValue, consumeGroup]
example : skip [0x0b, 0x08, 0x01, 0x0c] = .ok 4 := C15_skip_len _ _ (by decide) (by
  simp [consumeField, consumeTag, consumeVarint, consumeVarintAux, consumeValue, consumeGroup])
/-- nested groups: start 1, start 2, end 2, end 1, followed by one junk byte. -/
example : consumeField [0x0b, 0x13, 0x14, 0x0c, 0x07] = .ok 4 := by
  simp [consumeField, consumeTag, consumeVarint, consumeVarintAux, consumeValue, consumeGroup]
example : skip [0x0b, 0x13, 0x14, 0x0c, 0x07] = .ok 4 := C15_skip_len _ _ (by decide) (by
  simp [consumeField, consumeTag, consumeVarint, consumeVarintAux, consumeValue, consumeGroup])
/-- the hypothesis of `C15_skip_progress` is satisfiable. -/
example : 0 < 4 :=
  C15_skip_progress [0x0b, 0x08, 0x01, 0x0c] 4 (C15_skip_len _ _ (by decide) (by
  simp [consumeField, consumeTag, consumeVarint, consumeVarintAux, consumeValue, consumeGroup]))
/-- the hypothesis of `C15_soz_eq` is satisfiable at both ends (0 and -1 as int64). -/
example : soz 0 = (varint (zigzag64 0)).length := C15_soz_eq _ (by decide)
example : soz 18446744073709551615 = (varint (zigzag64 18446744073709551615)).length :=
  C15_soz_eq _ (by decide)
/-- both branches of `C15_encodeVarint_writes_minimal_varint` occur. -/
example : encodeVarint [0, 0, 0] 3 300 = .ok ([0, 0xac, 0x02], 1) := by
  rw [C15_encodeVarint_writes_minimal_varint, sov_300, varint_ge_128 (by omega),
    varint_lt_128 (by omega)]
  decide
example : encodeVarint [0] 1 300 = .panic := by
  rw [C15_encodeVarint_writes_minimal_varint, sov_300]; decide
example : encodeVarint [0, 0] 3 300 = .panic := by
  rw [C15_encodeVarint_writes_minimal_varint, sov_300]; decide

#print axioms C15_sov_eq_protowire_size
#print axioms C15_soz_eq
#print axioms C15_encodeVarint_writes_minimal_varint
#print axioms C15_skip_no_panic
#print axioms C15_skip_progress
#print axioms C15_skip_len

end Pulsar
