/-
  Pulsar.Proofs.DecodeDepth — nesting depth of decoded values against the recursion budget (C06_depth_bounded).
-/
import Pulsar.Proofs.ValDepth
import Pulsar.Proofs.DecodeFuel
namespace Pulsar

/-! ## depth of the value operations -/

theorem depth_zero (f : FieldDesc) : f.zero.depth = 0 := by
  unfold FieldDesc.zero
  split <;> (try split) <;> simp

theorem depth_emptyMsg (S : Schema) (i : Nat) : (emptyMsg S i).depth = 1 := by
  simp only [emptyMsg, Val.depth_msg]
  have : Val.depthList ((S.msg i).fields.map FieldDesc.zero) ≤ 0 := by
    apply Val.depthList_le
    intro x hx
    obtain ⟨f, _, rfl⟩ := List.mem_map.1 hx
    rw [depth_zero]; omega
  omega

theorem depth_zeroVar (e : Elem) : e.zeroVar.depth = 0 := by
  unfold Elem.zeroVar
  split <;> (try split) <;> simp

theorem depthList_set_le (l : List Val) (j : Nat) (v : Val) :
    Val.depthList (l.set j v) ≤ max (Val.depthList l) v.depth := by
  apply Val.depthList_le
  intro x hx
  rcases List.mem_or_eq_of_mem_set hx with h | h
  · have := Val.depth_le_depthList h; omega
  · subst h; omega

theorem depth_setSlot_le (m : Val) (j : Nat) (v : Val) :
    (m.setSlot j v).depth ≤ max m.depth (1 + v.depth) := by
  cases m with
  | msg s u =>
    simp only [Val.setSlot, Val.depth_msg]
    have := depthList_set_le s j v
    omega
  | _ => simp only [Val.setSlot]; omega

theorem depthList_clearGroup_le (fs : List FieldDesc) (g : Nat) (slots : List Val) :
    Val.depthList (clearGroup fs g slots) ≤ Val.depthList slots := by
  apply Val.depthList_le
  intro x hx
  simp only [clearGroup, List.mem_map] at hx
  obtain ⟨p, hp, rfl⟩ := hx
  split
  · simp
  · exact Val.depth_le_depthList (List.of_mem_zip hp).2

theorem depthList_mapPut_le (kb : Val → Val → Bool) (es : List Val) (k v : Val) :
    Val.depthList (mapPut kb es k v) ≤ max (Val.depthList es) (max k.depth v.depth) := by
  apply Val.depthList_le
  intro x hx
  unfold mapPut at hx
  split at hx
  · obtain ⟨e, he, rfl⟩ := List.mem_map.1 hx
    split
    · simp only [Val.depth_entry]; omega
    · have := Val.depth_le_depthList he; omega
  · simp only [List.mem_append, List.mem_singleton] at hx
    rcases hx with h | rfl
    · have := Val.depth_le_depthList h; omega
    · simp only [Val.depth_entry]; omega

theorem depthList_slots_le (m : Val) : 1 + Val.depthList m.slots ≤ max m.depth 1 := by
  cases m <;> simp only [Val.slots, Val.depthList_nil, Val.depth_msg] <;> omega

theorem depth_slot_lt (m : Val) (j : Nat) : 1 + (m.slot j).depth ≤ max m.depth 1 := by
  have h1 := depthList_slots_le m
  unfold Val.slot
  rw [List.getD_eq_getElem?_getD]
  cases hj : m.slots[j]? with
  | none => simp only [Option.getD_none, Val.depth_none]; omega
  | some x =>
    simp only [Option.getD_some]
    have := Val.depth_le_depthList (List.mem_of_getElem? hj)
    omega

/-! ## readers -/

theorem implReadScalar_depth {k : Kind} {rest : Bytes} {v : Val} {r : Bytes}
    (h : implReadScalar k rest = .ok (v, r)) : v.depth = 0 := by
  cases k <;> simp only [implReadScalar] at h <;> split at h <;>
    simp only [Res.ok.injEq, Prod.mk.injEq, reduceCtorEq] at h
  all_goals
    obtain ⟨rfl, _⟩ := h
    simp

theorem implPackedLoop_depth (k : Kind) : ∀ (fuel : Nat) (rest : Bytes) (rem : Nat) (acc vs : List Val) (r : Bytes),
    Val.depthList acc = 0 → implPackedLoop k fuel rest rem acc = .ok (vs, r) → Val.depthList vs = 0 := by
  intro fuel
  induction fuel with
  | zero =>
    intro rest rem acc vs r ha h
    simp only [implPackedLoop, Res.ok.injEq, Prod.mk.injEq] at h
    obtain ⟨rfl, _⟩ := h; exact ha
  | succ fuel ih =>
    intro rest rem acc vs r ha h
    rw [implPackedLoop] at h
    split at h
    · simp only [Res.ok.injEq, Prod.mk.injEq] at h
      obtain ⟨rfl, _⟩ := h; exact ha
    · cases hs : implReadScalar k rest with
      | ok a =>
        obtain ⟨v, r0⟩ := a
        rw [hs] at h
        simp only [] at h
        refine ih _ _ _ _ _ ?_ h
        rw [Val.depthList_append, ha]
        simp [implReadScalar_depth hs]
      | err e => rw [hs] at h; simp at h
      | panic => rw [hs] at h; simp at h

section child
variable {c : Nat → Val → Bytes → Res Val} {b : Nat}

/-- whenever the child decoder succeeds on a non-nil target, `1 ≤ b` and it has added at most `b`
    levels below that target (a child whose budget is exhausted never succeeds: `b = 0` is allowed) -/
def ChildDepth (c : Nat → Val → Bytes → Res Val) (b : Nat) : Prop :=
  ∀ i into p v, into.isNone = false → c i into p = .ok v → 1 ≤ b ∧ v.depth ≤ max into.depth b

theorem isNone_target (S : Schema) (i : Nat) (cur : Val) :
    (if cur.isNone then emptyMsg S i else cur).isNone = false := by
  split
  · rfl
  · rename_i h; simpa using h

theorem implReadMapField_depth (hc : ChildDepth c b) {S : Schema} {e : Elem} {old : Val} {rest : Bytes}
    {v : Val} {r : Bytes} (h : implReadMapField c S e old rest = .ok (v, r)) : v.depth ≤ max old.depth b := by
  unfold implReadMapField at h
  split at h
  · split at h
    · simp only [] at h
      split at h
      · rename_i hcv
        simp only [Res.ok.injEq, Prod.mk.injEq] at h
        obtain ⟨rfl, _⟩ := h
        obtain ⟨hb, this⟩ := hc _ _ _ _ (isNone_target _ _ _) hcv
        split at this
        · rw [depth_emptyMsg] at this; omega
        · exact this
      · simp at h
      · simp at h
    · simp at h
    · simp at h
  · rw [implReadScalar_depth h]; omega

theorem implEntryLoop_depth (hc : ChildDepth c b) (S : Schema) (kk : Kind) (e : Elem) :
    ∀ (fuel : Nat) (rest : Bytes) (rem : Nat) (k v k' v' : Val), k.depth = 0 →
      implEntryLoop c S kk e fuel rest rem k v = .ok (k', v') → k'.depth = 0 ∧ v'.depth ≤ max v.depth b := by
  intro fuel
  induction fuel with
  | zero =>
    intro rest rem k v k' v' hk h
    simp only [implEntryLoop, Res.ok.injEq, Prod.mk.injEq] at h
    obtain ⟨rfl, rfl⟩ := h; exact ⟨hk, by omega⟩
  | succ fuel ih =>
    intro rest rem k v k' v' hk h
    rw [implEntryLoop] at h
    split at h
    · simp only [Res.ok.injEq, Prod.mk.injEq] at h
      obtain ⟨rfl, rfl⟩ := h; exact ⟨hk, by omega⟩
    · cases hvr : readVarint rest with
      | err e => rw [hvr] at h; simp at h
      | panic => rw [hvr] at h; simp at h
      | ok a =>
        obtain ⟨wire, r⟩ := a
        rw [hvr] at h
        simp only [] at h
        split at h
        · cases hm : implReadMapField c S (.scalar kk) k r with
          | ok q =>
            obtain ⟨k1, r1⟩ := q
            rw [hm] at h
            exact ih _ _ _ _ _ _ (implReadScalar_depth hm) h
          | err e => rw [hm] at h; simp at h
          | panic => rw [hm] at h; simp at h
        · split at h
          · cases hm : implReadMapField c S e v r with
            | ok q =>
              obtain ⟨v1, r1⟩ := q
              rw [hm] at h
              have h1 := implReadMapField_depth hc hm
              have := ih _ _ _ _ _ _ hk h
              exact ⟨this.1, by omega⟩
            | err e => rw [hm] at h; simp at h
            | panic => rw [hm] at h; simp at h
          · cases hs : skip rest with
            | ok n =>
              rw [hs] at h
              simp only [] at h
              split at h
              · simp at h
              · exact ih _ _ _ _ _ _ hk h
            | err e => rw [hs] at h; simp at h
            | panic => rw [hs] at h; simp at h

theorem depth_list_snoc_le (nn : Bool) (cur v : Val) :
    (Val.list nn (cur.elems ++ [v])).depth ≤ max cur.depth v.depth := by
  simp only [Val.depth_list, Val.depthList_append, Val.depthList_cons, Val.depthList_nil]
  have := Val.depthList_elems_le cur
  omega

theorem depth_clear_set_le (fs : List FieldDesc) (g : Nat) (m : Val) (j : Nat) (v : Val) :
    ((Val.msg (clearGroup fs g m.slots) m.unknown).setSlot j (.one v)).depth ≤ max (max m.depth 1) (1 + v.depth) := by
  have h1 := depth_setSlot_le (Val.msg (clearGroup fs g m.slots) m.unknown) j (.one v)
  have h2 := depthList_clearGroup_le fs g m.slots
  have h3 := depthList_slots_le m
  simp only [Val.depth_msg, Val.depth_one] at h1
  omega

/-- one handled record adds at most `1 + b` levels -/
theorem implKnownField_depth (hc : ChildDepth c b) {S : Schema} {fs : List FieldDesc} {j : Nat}
    {f : FieldDesc} {wt : Nat} {m : Val} {rest : Bytes} {m' : Val} {r' : Bytes}
    (hmap : 1 ≤ b ∨ ∀ kk, f.shape = .map kk → ∃ k, f.elem = .scalar k)
    (h : implKnownField S fs c j f wt m rest = .ok (m', r')) : m'.depth ≤ max m.depth (1 + b) := by
  have hcur := depth_slot_lt m j
  have hset := depth_setSlot_le m j
  cases hsh : f.shape with
  | singular =>
    cases hel : f.elem with
    | scalar k =>
      simp only [implKnownField, hsh, hel] at h
      split at h
      · simp at h
      · cases hs : implReadScalar k rest with
        | ok a =>
          obtain ⟨v, r⟩ := a
          rw [hs] at h
          simp only [Res.ok.injEq, Prod.mk.injEq] at h
          obtain ⟨rfl, _⟩ := h
          have := hset v
          rw [implReadScalar_depth hs] at this
          omega
        | err e => rw [hs] at h; simp at h
        | panic => rw [hs] at h; simp at h
    | message mi =>
      simp only [implKnownField, hsh, hel] at h
      split at h
      · simp at h
      · cases hr : readLenDelim rest with
        | ok a =>
          obtain ⟨p, r⟩ := a
          rw [hr] at h
          simp only [] at h
          split at h
          · rename_i v hcv
            simp only [Res.ok.injEq, Prod.mk.injEq] at h
            obtain ⟨rfl, _⟩ := h
            obtain ⟨hb, h1⟩ := hc _ _ _ _ (isNone_target _ _ _) hcv
            have := hset v
            split at h1
            · rw [depth_emptyMsg] at h1; omega
            · omega
          · simp at h
          · simp at h
        | err e => rw [hr] at h; simp at h
        | panic => rw [hr] at h; simp at h
  | repeated pk =>
    cases hel : f.elem with
    | scalar k =>
      simp only [implKnownField, hsh, hel] at h
      have hone : ∀ (nn : Bool) (v : Val), v.depth = 0 →
          (m.setSlot j (.list nn ((m.slot j).elems ++ [v]))).depth ≤ max m.depth (1 + b) := by
        intro nn v hv
        have h1 := hset (.list nn ((m.slot j).elems ++ [v]))
        have h2 := depth_list_snoc_le nn (m.slot j) v
        omega
      split at h
      · split at h
        · cases hs : implReadScalar k rest with
          | ok a =>
            obtain ⟨v, r⟩ := a
            rw [hs] at h
            simp only [Res.ok.injEq, Prod.mk.injEq] at h
            obtain ⟨rfl, _⟩ := h
            exact hone _ _ (implReadScalar_depth hs)
          | err e => rw [hs] at h; simp at h
          | panic => rw [hs] at h; simp at h
        · split at h
          · cases hv : readVarint rest with
            | ok a =>
              obtain ⟨n, r⟩ := a
              rw [hv] at h
              simp only [] at h
              split at h
              · simp at h
              · split at h
                · simp at h
                · cases hp : implPackedLoop k n r n [] with
                  | ok q =>
                    obtain ⟨vs, r1⟩ := q
                    rw [hp] at h
                    simp only [Res.ok.injEq, Prod.mk.injEq] at h
                    obtain ⟨rfl, _⟩ := h
                    have h0 := implPackedLoop_depth k _ _ _ _ _ _ (by simp) hp
                    have hl : ∀ nn : Bool, (m.setSlot j (.list nn ((m.slot j).elems ++ vs))).depth
                        ≤ max m.depth (1 + b) := by
                      intro nn
                      have h1 := hset (.list nn ((m.slot j).elems ++ vs))
                      have h2 := Val.depthList_elems_le (m.slot j)
                      simp only [Val.depth_list, Val.depthList_append, h0] at h1
                      omega
                    exact hl _
                  | err e => rw [hp] at h; simp at h
                  | panic => rw [hp] at h; simp at h
            | err e => rw [hv] at h; simp at h
            | panic => rw [hv] at h; simp at h
          · simp at h
      · split at h
        · simp at h
        · cases hs : implReadScalar k rest with
          | ok a =>
            obtain ⟨v, r⟩ := a
            rw [hs] at h
            simp only [Res.ok.injEq, Prod.mk.injEq] at h
            obtain ⟨rfl, _⟩ := h
            exact hone _ _ (implReadScalar_depth hs)
          | err e => rw [hs] at h; simp at h
          | panic => rw [hs] at h; simp at h
    | message mi =>
      simp only [implKnownField, hsh, hel] at h
      split at h
      · simp at h
      · cases hr : readLenDelim rest with
        | ok a =>
          obtain ⟨p, r⟩ := a
          rw [hr] at h
          simp only [] at h
          split at h
          · rename_i v hcv
            simp only [Res.ok.injEq, Prod.mk.injEq] at h
            obtain ⟨rfl, _⟩ := h
            obtain ⟨hb, h1⟩ := hc _ _ _ _ rfl hcv
            rw [depth_emptyMsg] at h1
            have h2 := hset (.list true ((m.slot j).elems ++ [v]))
            have h3 := depth_list_snoc_le true (m.slot j) v
            omega
          · simp at h
          · simp at h
        | err e => rw [hr] at h; simp at h
        | panic => rw [hr] at h; simp at h
  | oneof g =>
    cases hel : f.elem with
    | scalar k =>
      simp only [implKnownField, hsh, hel] at h
      split at h
      · simp at h
      · cases hs : implReadScalar k rest with
        | ok a =>
          obtain ⟨v, r⟩ := a
          rw [hs] at h
          simp only [Res.ok.injEq, Prod.mk.injEq] at h
          obtain ⟨rfl, _⟩ := h
          have := depth_clear_set_le fs g m j v
          rw [implReadScalar_depth hs] at this
          omega
        | err e => rw [hs] at h; simp at h
        | panic => rw [hs] at h; simp at h
    | message mi =>
      simp only [implKnownField, hsh, hel] at h
      split at h
      · simp at h
      · cases hr : readLenDelim rest with
        | ok a =>
          obtain ⟨p, r⟩ := a
          rw [hr] at h
          simp only [] at h
          split at h
          · rename_i v hcv
            simp only [Res.ok.injEq, Prod.mk.injEq] at h
            obtain ⟨rfl, _⟩ := h
            obtain ⟨hb, h1⟩ := hc _ _ _ _ (by
              split
              · exact isNone_target _ _ _
              · rfl) hcv
            have h2 := depth_clear_set_le fs g m j v
            split at h1
            · rename_i x hx
              have : x.depth ≤ (m.slot j).depth := by rw [hx]; simp
              split at h1
              · rw [depth_emptyMsg] at h1; omega
              · omega
            · rw [depth_emptyMsg] at h1; omega
          · simp at h
          · simp at h
        | err e => rw [hr] at h; simp at h
        | panic => rw [hr] at h; simp at h
  | map kk =>
    simp only [implKnownField, hsh] at h
    split at h
    · simp at h
    · cases hv : readVarint rest with
      | ok a =>
        obtain ⟨n, r⟩ := a
        rw [hv] at h
        simp only [] at h
        split at h
        · simp at h
        · split at h
          · simp at h
          · cases he : implEntryLoop c S kk f.elem n (r.take n) n (Elem.zeroVar (.scalar kk)) f.elem.zeroVar with
            | ok q =>
              obtain ⟨k', v'⟩ := q
              rw [he] at h
              simp only [Res.ok.injEq, Prod.mk.injEq] at h
              obtain ⟨rfl, _⟩ := h
              obtain ⟨hk', hv'⟩ := implEntryLoop_depth hc S kk f.elem _ _ _ _ _ _ _ (depth_zeroVar _) he
              rw [depth_zeroVar] at hv'
              have hl : ∀ vv : Val, vv.depth ≤ b →
                  (m.setSlot j (.map true (mapPut (kbeqOf kk) (m.slot j).elems k' vv))).depth ≤ max m.depth (1 + b) := by
                intro vv hvd
                have h1 := hset (.map true (mapPut (kbeqOf kk) (m.slot j).elems k' vv))
                have h2 := depthList_mapPut_le (kbeqOf kk) (m.slot j).elems k' vv
                have h3 := Val.depthList_elems_le (m.slot j)
                simp only [Val.depth_map] at h1
                omega
              apply hl
              split
              · rename_i mi hmi
                split
                · rw [depth_emptyMsg]
                  rcases hmap with hb | hm
                  · exact hb
                  · obtain ⟨k, hk⟩ := hm kk hsh
                    rw [hk] at hmi; cases hmi
                · omega
              · omega
            | err e => rw [he] at h; simp at h
            | panic => rw [he] at h; simp at h
      | err e => rw [hv] at h; simp at h
      | panic => rw [hv] at h; simp at h

theorem implUnmarshalLoop_depth (hc : ChildDepth c b) (S : Schema) (i : Nat) (o : UOpts)
    (hmap : 1 ≤ b ∨ ∀ f ∈ (S.msg i).fields, ∀ kk, f.shape = .map kk → ∃ k, f.elem = .scalar k) :
    ∀ (fuel : Nat) (m : Val) (rest : Bytes) (v : Val),
      implUnmarshalLoop S i o c fuel m rest = .ok v → v.depth ≤ max m.depth (1 + b) := by
  intro fuel
  induction fuel with
  | zero =>
    intro m rest v h
    simp only [implUnmarshalLoop, Res.ok.injEq] at h
    subst h; omega
  | succ fuel ih =>
    intro m rest v h
    rw [implUnmarshalLoop] at h
    split at h
    · simp only [Res.ok.injEq] at h; subst h; omega
    · cases hv : readVarint rest with
      | err e => rw [hv] at h; simp at h
      | panic => rw [hv] at h; simp at h
      | ok a =>
        obtain ⟨wire, r⟩ := a
        rw [hv] at h
        simp only [] at h
        split at h
        · simp at h
        · split at h
          · simp at h
          · split at h
            · rename_i j f hf
              cases hk : implKnownField S (S.msg i).fields c j f (wire % 8) m r with
              | ok q =>
                obtain ⟨m', r'⟩ := q
                rw [hk] at h
                simp only [] at h
                have hm' := implKnownField_depth hc (hmap.imp id (fun hm => hm f (findField_mem hf))) hk
                split at h
                · have := ih _ _ _ h; omega
                · simp only [Res.ok.injEq] at h; subst h; exact hm'
              | err e => rw [hk] at h; simp at h
              | panic => rw [hk] at h; simp at h
            · cases hs : skip rest with
              | ok n =>
                rw [hs] at h
                simp only [] at h
                split at h
                · simp at h
                · cases hsl : sliceTo rest n with
                  | ok raw =>
                    rw [hsl] at h
                    simp only [] at h
                    have hm' : (if o.discard = true then m else Val.msg m.slots (m.unknown ++ raw)).depth
                        ≤ max m.depth 1 := by
                      split
                      · omega
                      · have := depthList_slots_le m
                        simp only [Val.depth_msg]; omega
                    split at h
                    · simp only [Res.ok.injEq] at h; subst h; omega
                    · have := ih _ _ _ h; omega
                  | err e => rw [hsl] at h; simp at h
                  | panic => rw [hsl] at h; simp at h
              | err e => rw [hs] at h; simp at h
              | panic => rw [hs] at h; simp at h

end child

/-- levels a decode with budget `d` may add below its target (0 reads as the default 10000; an
    exhausted budget adds nothing). The `+ 1` is the empty message that the map code allocates for an
    entry without a value field, which costs no budget. -/
def depthBound (d : Int) : Nat := if d < 0 then 0 else if d = 0 then 10001 else d.toNat + 1

theorem depthBound_nested (d : Int) (h : ¬ d < 0) : 1 + max 1 (depthBound (nestedLimit d)) ≤ depthBound d := by
  unfold depthBound nestedLimit
  simp only []
  by_cases h0 : d = 0
  · subst h0; decide
  · by_cases h1 : d ≤ 1
    · have : d = 1 := by omega
      subst this; decide
    · have e1 : (if d = 0 then (10000 : Int) else d) = d := by simp [h0]
      rw [e1]
      simp only [h1, if_false]
      have h2 : ¬ (d - 1 < 0) := by omega
      have h3 : ¬ (d - 1 = 0) := by omega
      simp only [h, h0, h2, h3, if_false]
      omega

theorem implUnmarshalClosure_depth (S : Schema) (o : UOpts) : ∀ (fuel : Nat) (d : Int),
    ChildDepth (implUnmarshalClosure S o fuel d) (max 1 (depthBound d)) := by
  intro fuel
  induction fuel with
  | zero =>
    intro d i into p v _ h
    simp only [implUnmarshalClosure, Res.ok.injEq] at h
    subst h; omega
  | succ fuel ih =>
    intro d i into p v _ h
    rw [implUnmarshalClosure] at h
    split at h
    · simp only [Res.ok.injEq] at h; subst h; omega
    · split at h
      · simp at h
      · rename_i hd
        have hc : ChildDepth (implUnmarshalClosure S o fuel (nestedLimit d)) (max 1 (depthBound (nestedLimit d))) := by
          intro i' into' p' v' hn h'
          have := (ih (nestedLimit d) i' into' p' v' hn h').2
          exact ⟨Nat.le_max_left 1 _, by omega⟩
        have := implUnmarshalLoop_depth hc S i o (Or.inl (Nat.le_max_left 1 _)) _ _ _ _ h
        have := depthBound_nested d hd
        omega

theorem implUnmarshalClosure_none (S : Schema) (o : UOpts) (fuel : Nat) (d : Int) (i : Nat) (into : Val) (bs : Bytes)
    (v : Val) (hn : into.isNone = true) (h : implUnmarshalClosure S o fuel d i into bs = .ok v) : v = into := by
  cases fuel with
  | zero => simp only [implUnmarshalClosure, Res.ok.injEq] at h; exact h.symm
  | succ fuel => simp only [implUnmarshalClosure, hn, if_true, Res.ok.injEq] at h; exact h.symm

theorem depthBound_pos (d : Nat) (hd : 1 ≤ d) : depthBound (d : Int) = d + 1 := by
  unfold depthBound
  have h1 : ¬ ((d : Int) < 0) := by omega
  have h2 : ¬ ((d : Int) = 0) := by omega
  simp only [h1, h2, if_false, Int.toNat_natCast]

/-- budget `d ≥ 1`: at most `d + 1` levels below (and including) the target -/
theorem implUnmarshalClosure_depth_le (S : Schema) (o : UOpts) (fuel : Nat) (d : Nat) (i : Nat) (into v : Val)
    (bs : Bytes) (hd : 1 ≤ d) (h : implUnmarshalClosure S o fuel (d : Int) i into bs = .ok v) :
    v.depth ≤ max into.depth (d + 1) := by
  cases hn : into.isNone with
  | true => rw [implUnmarshalClosure_none S o fuel _ i into bs v hn h]; omega
  | false =>
    have := (implUnmarshalClosure_depth S o fuel (d : Int) i into bs v hn h).2
    rw [depthBound_pos d hd] at this
    omega

/-! ## the exact bound: with enough fuel and no message-valued map fields -/

/-- levels a decode with budget `d` may add below its target, not counting the map allocation -/
def exactBound (d : Int) : Nat := if d < 0 then 0 else if d = 0 then 10000 else d.toNat

/-- no map field of the schema has a message value type -/
def NoMsgMap (S : Schema) : Prop :=
  ∀ i, ∀ f ∈ (S.msg i).fields, ∀ kk, f.shape = .map kk → ∃ k, f.elem = .scalar k

theorem exactBound_pos (d : Nat) (hd : 1 ≤ d) : exactBound (d : Int) = d := by
  unfold exactBound
  have h1 : ¬ ((d : Int) < 0) := by omega
  have h2 : ¬ ((d : Int) = 0) := by omega
  simp only [h1, h2, if_false, Int.toNat_natCast]

theorem exactBound_nested (d : Int) (h : ¬ d < 0) : 1 + exactBound (nestedLimit d) ≤ exactBound d := by
  unfold exactBound nestedLimit
  simp only []
  by_cases h0 : d = 0
  · subst h0; decide
  · by_cases h1 : d ≤ 1
    · have : d = 1 := by omega
      subst this; decide
    · have e1 : (if d = 0 then (10000 : Int) else d) = d := by simp [h0]
      rw [e1]
      simp only [h1, if_false]
      have h2 : ¬ (d - 1 < 0) := by omega
      have h3 : ¬ (d - 1 = 0) := by omega
      simp only [h, h0, h2, h3, if_false]
      omega

theorem exactBound_nested_pos (d : Int) (h : ¬ d < 0) (h1 : d ≠ 1) : 1 ≤ exactBound (nestedLimit d) := by
  unfold exactBound nestedLimit
  simp only []
  by_cases h0 : d = 0
  · subst h0; decide
  · have e1 : (if d = 0 then (10000 : Int) else d) = d := by simp [h0]
    rw [e1]
    have h2 : ¬ (d ≤ 1) := by omega
    simp only [h2, if_false]
    have h3 : ¬ (d - 1 < 0) := by omega
    have h4 : ¬ (d - 1 = 0) := by omega
    simp only [h3, h4, if_false]
    omega

theorem implUnmarshalClosure_depth_exact (S : Schema) (hS : NoMsgMap S) (o : UOpts) :
    ∀ (fuel : Nat) (d : Int) (i : Nat) (into : Val) (bs : Bytes) (v : Val), bs.length + 1 ≤ fuel →
      implUnmarshalClosure S o fuel d i into bs = .ok v → v.depth ≤ max into.depth (exactBound d) := by
  intro fuel
  induction fuel with
  | zero => intro d i into bs v hf; omega
  | succ fuel ih =>
    intro d i into bs v hf h
    rw [implUnmarshalClosure] at h
    split at h
    · simp only [Res.ok.injEq] at h; subst h; omega
    · split at h
      · simp at h
      · rename_i hd
        -- the child is only called on payloads shorter than `bs`
        rw [implUnmarshalLoop_congr (c2 := fun i' into' p =>
              if p.length < bs.length then implUnmarshalClosure S o fuel (nestedLimit d) i' into' p else .err .other)
            S i o bs.length (by intro i' into' p hp; simp [hp]) _ _ _ (Nat.le_refl _)] at h
        have hc : ChildDepth (fun i' into' p =>
              if p.length < bs.length then implUnmarshalClosure S o fuel (nestedLimit d) i' into' p else .err .other)
            (exactBound (nestedLimit d)) := by
          intro i' into' p v' hn h'
          simp only [] at h'
          split at h'
          · rename_i hp
            refine ⟨?_, ih _ _ _ _ _ (by omega) h'⟩
            by_cases h1 : d = 1
            · -- exhausted budget: the child cannot have succeeded
              exfalso
              subst h1
              cases fuel with
              | zero => omega
              | succ fuel =>
                rw [implUnmarshalClosure] at h'
                simp [hn, nestedLimit] at h'
            · exact exactBound_nested_pos d hd h1
          · simp at h'
        have := implUnmarshalLoop_depth hc S i o (Or.inr (hS i)) _ _ _ _ h
        have := exactBound_nested d hd
        omega

end Pulsar
