/-
  Pulsar.Proofs.RapidWF — the draw-level model of rapidproto keeps messages well-typed (`msgOK`): every
  layer of `setFields`, for every draw sequence (in range or not: stored scalars are truncated to the
  field's width) and every field mapper whose values fit their kinds (`MapperTyped`).
-/
import Pulsar.Proofs.RapidModel
import Pulsar.Proofs.Reflect
namespace Pulsar.Rapidproto
open Pulsar

/-! ### scalars -/

theorem rp_scalarVal_ok (E : List Int) (k : Kind) (d : Draw) : scalarOK k (scalarVal E k d) = true := by
  have h32 : ∀ x : Nat, x % 4294967296 < 4294967296 := fun x => Nat.mod_lt _ (by omega)
  have h64 : ∀ x : Nat, x % 18446744073709551616 < 18446744073709551616 := fun x => Nat.mod_lt _ (by omega)
  cases k <;> simp [scalarVal, scalarOK, Kind.isBlob, Kind.width, ofInt32, ofInt64, h32, h64] <;>
    first | omega | (split <;> omega)

/-- a generated scalar fits its kind: a drawn one always (truncation), a mapped one because the harness
    supplies such values (`MapperTyped`) -/
theorem rp_ok_genScalar {o : GenOpts} (hmap : MapperTyped o) (E : List Int) (k : Kind) (ds : List Draw) :
    Post (genScalar o E k ds) (fun v _ => scalarOK k v = true) := by
  unfold genScalar
  split
  · rename_i w hw
    exact rp_post_ok (hmap k w hw)
  · exact rp_post_map (fun _ _ _ _ => rp_scalarVal_ok E k _)

theorem rp_all_append_one {p : Val → Bool} {es : List Val} {v : Val} (h : es.all p = true) (hv : p v = true) :
    (es ++ [v]).all p = true := by
  simp [List.all_append, h, hv]

theorem rp_all_sort {p : Val → Bool} (kk : Kind) {es : List Val} (h : es.all p = true) :
    (sortEntries kk es).all p = true := by
  rw [List.all_eq_true] at *
  exact fun e he => h e ((rf_sortEntries_perm kk es).mem_iff.1 he)

theorem rp_all_mapDel {p : Val → Bool} (kk : Kind) {es : List Val} (k : Val) (h : es.all p = true) :
    (mapDel kk es k).all p = true := by
  rw [List.all_eq_true] at *
  exact fun e he => h e (List.mem_filter.1 he).1

theorem rp_ok_listScalars {o : GenOpts} (hmap : MapperTyped o) (E : List Int) (k : Kind) (child : Nat → Val → Bool) :
    ∀ (n : Nat) (es : List Val) (ds : List Draw), es.all (elemOK child (.scalar k) false) = true →
    Post (listScalars o E k n es ds) (fun es' _ => es'.all (elemOK child (.scalar k) false) = true)
  | 0, es, ds, h => rp_post_ok h
  | n+1, es, ds, h => by
    simp only [listScalars]
    refine rp_post_bind (rp_ok_genScalar hmap E k ds) (fun v rest tr _ hv => ?_)
    exact rp_post_mono (rp_ok_listScalars hmap E k child n _ rest (rp_all_append_one h (by simpa [elemOK] using hv)))
      (fun _ _ h => h)

/-! ### children -/

/-- the child (`setFields` one level down) keeps messages typed with fuel `n` -/
def ChildOK (S : Schema) (n : Nat) (child : Nat → Val → List Draw → R (Bool × Val)) : Prop :=
  ∀ mi v ds, msgOK S false n mi v = true → Post (child mi v ds) (fun r _ => msgOK S false n mi r.2 = true)

theorem rp_ok_listMsgs (S : Schema) {n : Nat} {child : Nat → Val → List Draw → R (Bool × Val)}
    (hc : ChildOK S (n+1) child) (mi : Nat) : ∀ (cnt i : Nat) (es : List Val) (ds : List Draw),
    es.all (elemOK (msgOK S false (n+1)) (.message mi) false) = true →
    Post (listMsgs S child mi cnt i es ds)
      (fun es' _ => es'.all (elemOK (msgOK S false (n+1)) (.message mi) false) = true)
  | 0, _, es, ds, h => rp_post_ok h
  | cnt+1, i, es, ds, h => by
    simp only [listMsgs]
    refine rp_post_bind (hc mi _ ds (msgOK_emptyMsg S false n mi)) (fun r rest tr _ hr => ?_)
    have h1 : (es ++ [r.2]).all (elemOK (msgOK S false (n+1)) (.message mi) false) = true :=
      rp_all_append_one h (by simpa [elemOK] using hr)
    split
    · exact rp_post_mono (rp_ok_listMsgs S hc mi cnt (i+1) _ rest h1) (fun _ _ h => h)
    · split
      · exact rp_post_mono (rp_ok_listMsgs S hc mi cnt (i+1) _ rest (all_take _ _ i h1)) (fun _ _ h => h)
      · exact rp_post_stuck

theorem rp_ok_mapScalars {o : GenOpts} (hmap : MapperTyped o) (E : List Int) (kk vk : Kind) (child : Nat → Val → Bool) :
    ∀ (n : Nat) (es : List Val) (ds : List Draw),
    es.all (entryOK child false kk (.scalar vk)) = true → DistinctK kk es →
    Post (mapScalars o E kk vk n es ds)
      (fun es' _ => es'.all (entryOK child false kk (.scalar vk)) = true ∧ DistinctK kk es')
  | 0, es, ds, h, hd => rp_post_ok ⟨h, hd⟩
  | n+1, es, ds, h, hd => by
    simp only [mapScalars]
    refine rp_post_bind (rp_ok_genScalar hmap E kk ds) (fun k rest tr _ hk => ?_)
    refine rp_post_bind (rp_ok_genScalar hmap E vk rest) (fun v rest' tr' _ hv => ?_)
    refine rp_post_mono (rp_ok_mapScalars hmap E kk vk child n _ rest' ?_ ?_) (fun _ _ h => h)
    · exact rp_all_sort kk (all_mapPut _ es k v h (by simp [entryOK, hk, elemOK, hv]))
    · exact distinct_sort (distinct_mapPut k v hd)

theorem rp_findEntry_mem {kk : Kind} {es : List Val} {k en : Val} (h : findEntry kk es k = some en) : en ∈ es :=
  List.mem_of_find?_eq_some h

theorem rp_ok_mapMsgs (S : Schema) {o : GenOpts} (hmap : MapperTyped o) (E : List Int) {n : Nat} {child : Nat → Val → List Draw → R (Bool × Val)}
    (hc : ChildOK S (n+1) child) (kk : Kind) (mi : Nat) : ∀ (cnt : Nat) (es : List Val) (ds : List Draw),
    es.all (entryOK (msgOK S false (n+1)) false kk (.message mi)) = true → DistinctK kk es →
    Post (mapMsgs S o E child kk mi cnt es ds)
      (fun es' _ => es'.all (entryOK (msgOK S false (n+1)) false kk (.message mi)) = true ∧ DistinctK kk es')
  | 0, es, ds, h, hd => rp_post_ok ⟨h, hd⟩
  | cnt+1, es, ds, h, hd => by
    simp only [mapMsgs]
    refine rp_post_bind (rp_ok_genScalar hmap E kk ds) (fun k rest tr _ hk => ?_)
    have hcur : msgOK S false (n+1) mi (valueOr (findEntry kk es k) (emptyMsg S mi)) = true := by
      cases hf : findEntry kk es k with
      | none => exact msgOK_emptyMsg S false n mi
      | some en =>
        obtain ⟨k0, v0, rfl, _, hv0⟩ := entryOK_inv (List.all_eq_true.1 h en (rp_findEntry_mem hf))
        simpa [valueOr, elemOK] using hv0
    refine rp_post_bind (hc mi _ rest hcur) (fun r rest' tr' _ hr => ?_)
    refine rp_post_mono (rp_ok_mapMsgs S hmap E hc kk mi cnt _ rest' ?_ ?_) (fun _ _ h => h)
    · split
      · exact rp_all_sort kk (all_mapPut _ es k r.2 h (by simp [entryOK, hk, elemOK, hr]))
      · exact rp_all_mapDel kk k h
    · split
      · exact distinct_sort (distinct_mapPut k r.2 hd)
      · exact distinct_mapDel k hd

/-! ### one field -/

theorem rp_applyFW_put (fs : List FieldDesc) (f : FieldDesc) (j : Nat) (slots : List Val) (u : Bytes) (x : Val) :
    (applyFW fs f j slots u (.put x)).1 = .msg (slots.set j x) u := rfl

theorem rp_applyFW_putOne (fs : List FieldDesc) (f : FieldDesc) (j : Nat) (slots : List Val) (u : Bytes) (x : Val)
    {g : Nat} (hs : f.shape = .oneof g) :
    (applyFW fs f j slots u (.putOne x)).1 = .msg ((clearGroup fs g slots).set j (.one x)) u := by
  simp [applyFW, hs]

theorem rp_isOneof_false {f : FieldDesc} (h : ∀ g, f.shape ≠ .oneof g) : f.isOneof = false := by
  unfold FieldDesc.isOneof
  cases hs : f.shape <;> simp
  exact absurd hs (h _)

/-- a `put` on a field that is not a oneof member -/
theorem rp_put_ok (S : Schema) (n i : Nat) (f : FieldDesc) (j : Nat) (slots : List Val) (u : Bytes) (x : Val)
    (hm : msgOK S false (n+1) i (.msg slots u) = true) (hf : (S.msg i).fields[j]? = some f)
    (hx : slotOK (msgOK S false n) false f x = true) (hno : ∀ g, f.shape ≠ .oneof g) :
    msgOK S false (n+1) i (.msg (slots.set j x) u) = true := by
  have := applyFW_ok S n i f j slots u hm hf (fw := .put x) hx
    (fun y _ ho _ => by rw [rp_isOneof_false hno] at ho; cases ho)
  simpa [rp_applyFW_put] using this

theorem rp_ok_genField (S : Schema) (o : GenOpts) (hmap : MapperTyped o) (E : List Int) {n : Nat}
    {child : Nat → Val → List Draw → R (Bool × Val)} (hc : ChildOK S (n+1) child)
    (i : Nat) (f : FieldDesc) (j : Nat) (slots : List Val) (u : Bytes) (ds : List Draw)
    (hm : msgOK S false (n+2) i (.msg slots u) = true) (hf : (S.msg i).fields[j]? = some f) :
    Post (genField S o E child (S.msg i).fields f j slots ds)
      (fun slots' _ => msgOK S false (n+2) i (.msg slots' u) = true) := by
  have hcur := slotOK_getD hm hf
  unfold genField
  cases hs : f.shape with
  | singular =>
    have hno : ∀ g, f.shape ≠ .oneof g := by intro g; rw [hs]; exact fun h => by cases h
    cases he : f.elem with
    | scalar k =>
      simp only []
      refine rp_post_map (rp_post_mono (rp_ok_genScalar hmap E k ds) (fun v _ hv => ?_))
      exact rp_put_ok S (n+1) i f j slots u v hm hf (by simp [slotOK, hs, he, elemOK, hv]) hno
    | message mi =>
      simp only []
      have hcur' := slotOK_singular hs hcur
      simp only [he, elemOK, Bool.and_true] at hcur'
      have hstart : msgOK S false (n+1) mi
          (if (slots.getD j Val.none).isNone = true then emptyMsg S mi else slots.getD j Val.none) = true := by
        split
        · exact msgOK_emptyMsg S false n mi
        · rename_i hn
          rcases (by simpa using hcur' : _ ∨ _) with h | h
          · exact absurd h hn
          · exact h
      refine rp_post_map (rp_post_mono (hc mi _ ds hstart) (fun r _ hr => ?_))
      refine rp_put_ok S (n+1) i f j slots u _ hm hf ?_ hno
      split
      · simp [slotOK, hs, he, elemOK, hr]
      · simp [slotOK, hs, he, elemOK, Val.isNone]
  | repeated p =>
    have hno : ∀ g, f.shape ≠ .oneof g := by intro g; rw [hs]; exact fun h => by cases h
    obtain ⟨nn, es, hcv, hes⟩ := slotOK_repeated hs hcur
    cases he : f.elem with
    | scalar k =>
      simp only []
      refine rp_post_bind (rp_post_draw _ ds) (fun c rest tr _ _ => ?_)
      refine rp_post_map (rp_post_mono
        (rp_ok_listScalars hmap E k (msgOK S false (n+1)) _ _ rest (by rw [hcv, ← he]; exact hes)) (fun es' _ h' => ?_))
      exact rp_put_ok S (n+1) i f j slots u _ hm hf (by simpa [slotOK, hs, he] using h') hno
    | message mi =>
      simp only []
      refine rp_post_bind (rp_post_draw _ ds) (fun c rest tr _ _ => ?_)
      refine rp_post_map (rp_post_mono
        (rp_ok_listMsgs S hc mi _ 0 _ rest (by rw [hcv, ← he]; exact hes)) (fun es' _ h' => ?_))
      exact rp_put_ok S (n+1) i f j slots u _ hm hf (by simpa [slotOK, hs, he] using h') hno
  | map kk =>
    have hno : ∀ g, f.shape ≠ .oneof g := by intro g; rw [hs]; exact fun h => by cases h
    obtain ⟨nn, es, hcv, hes, hd⟩ := slotOK_map hs hcur
    have hd' := (rf_distinctKeys_iff kk es).1 hd
    cases he : f.elem with
    | scalar vk =>
      simp only []
      refine rp_post_bind (rp_post_draw _ ds) (fun c rest tr _ _ => ?_)
      refine rp_post_map (rp_post_mono
        (rp_ok_mapScalars hmap E kk vk (msgOK S false (n+1)) _ _ rest (by rw [hcv, ← he]; exact hes)
          (by rw [hcv]; exact hd')) (fun es' _ h' => ?_))
      exact rp_put_ok S (n+1) i f j slots u _ hm hf
        (slotOK_map_intro S (n+1) hs false (by rw [he]; exact h'.1) h'.2) hno
    | message mi =>
      simp only []
      refine rp_post_bind (rp_post_draw _ ds) (fun c rest tr _ _ => ?_)
      refine rp_post_map (rp_post_mono
        (rp_ok_mapMsgs S hmap E hc kk mi _ _ rest (by rw [hcv, ← he]; exact hes)
          (by rw [hcv]; exact hd')) (fun es' _ h' => ?_))
      exact rp_put_ok S (n+1) i f j slots u _ hm hf
        (slotOK_map_intro S (n+1) hs false (by rw [he]; exact h'.1) h'.2) hno
  | oneof g =>
    have hfo : f.isOneof = true := by simp [FieldDesc.isOneof, hs]
    cases he : f.elem with
    | scalar k =>
      simp only []
      refine rp_post_map (rp_post_mono (rp_ok_genScalar hmap E k ds) (fun v _ hv => ?_))
      have := applyFW_ok S (n+1) i f j slots u hm hf (fw := .putOne v)
        (by simp [FWok, he, elemOK, hv]) (fun y hy => by cases hy)
      simpa [rp_applyFW_putOne _ _ _ _ _ _ hs] using this
    | message mi =>
      simp only []
      rcases slotOK_oneof hs hcur with hnone | ⟨x, hx, hxok⟩
      · -- no member / another member held: Mutable stores a new wrapper
        rw [hnone]
        simp only []
        refine rp_post_map (rp_post_mono (hc mi _ ds (msgOK_emptyMsg S false n mi)) (fun r _ hr => ?_))
        split
        · have := applyFW_ok S (n+1) i f j slots u hm hf (fw := .putOne r.2)
            (by simp [FWok, he, elemOK, hr]) (fun y hy => by cases hy)
          simpa [rp_applyFW_putOne _ _ _ _ _ _ hs] using this
        · -- Mutable (putOne of the empty message), then Clear
          have h1 := applyFW_ok S (n+1) i f j slots u hm hf (fw := .putOne (emptyMsg S mi))
            (by simp [FWok, he, elemOK, msgOK_emptyMsg]) (fun y hy => by cases hy)
          rw [rp_applyFW_putOne _ _ _ _ _ _ hs] at h1
          have h2 := applyFW_ok S (n+1) i f j _ u h1 hf (fw := .put .none)
            (by simp [FWok, slotOK, hs]) (fun y hy _ hyn => by
              simp only [FW.put.injEq] at hy; subst hy; simp [Val.isNone] at hyn)
          simpa [rp_applyFW_put] using h2
      · rw [hx]
        simp only []
        have hxok' : msgOK S false (n+1) mi x = true := by simpa [he, elemOK] using hxok
        refine rp_post_map (rp_post_mono (hc mi _ ds hxok') (fun r _ hr => ?_))
        have := applyFW_ok S (n+1) i f j slots u hm hf (fw := .put (if r.1 then .one r.2 else .none))
          (by split <;> simp [FWok, slotOK, hs, he, elemOK, hr])
          (fun y _ _ _ => by rw [hx]; rfl)
        simpa [rp_applyFW_put] using this

/-! ### the field loop and `setFields` -/

theorem rp_ok_genFields (S : Schema) (o : GenOpts) (hmap : MapperTyped o) (E : List Int) {n : Nat}
    {child : Nat → Val → List Draw → R (Bool × Val)} (hc : ChildOK S (n+1) child) (i : Nat) (u : Bytes) :
    ∀ (rem : List FieldDesc) (j : Nat) (slots : List Val) (ds : List Draw),
    (S.msg i).fields.drop j = rem → msgOK S false (n+2) i (.msg slots u) = true →
    Post (genFields S o E child (S.msg i).fields j rem slots ds)
      (fun slots' _ => msgOK S false (n+2) i (.msg slots' u) = true)
  | [], _, slots, ds, _, hm => rp_post_ok hm
  | f :: rem, j, slots, ds, hdrop, hm => by
    have hf : (S.msg i).fields[j]? = some f := by
      have := congrArg List.head? hdrop
      simpa [List.head?_drop] using this
    have hdrop' : (S.msg i).fields.drop (j+1) = rem := by
      have := congrArg List.tail hdrop
      simpa [List.tail_drop] using this
    simp only [genFields]
    refine rp_post_bind (rp_post_draw _ ds) (fun g rest tr _ _ => ?_)
    split
    · exact rp_post_mono (rp_ok_genFields S o hmap E hc i u rem (j+1) slots rest hdrop' hm) (fun _ _ h => h)
    · refine rp_post_bind (rp_ok_genField S o hmap E hc i f j slots u rest hm hf) (fun slots' rest' tr' _ hm' => ?_)
      exact rp_post_mono (rp_ok_genFields S o hmap E hc i u rem (j+1) slots' rest' hdrop' hm') (fun _ _ h => h)

/-- `setFields` at `depth` keeps a message typed with fuel `N ≥ depthLimit + 2 - depth` -/
theorem rp_ok_setFields (S : Schema) (o : GenOpts) (hmap : MapperTyped o) (E : List Int) : ∀ (fuel N depth i : Nat) (v : Val)
    (ds : List Draw), Extracted.depthLimit + 2 ≤ N + depth → msgOK S false N i v = true →
    Post (setFields S o E fuel depth i v ds) (fun r _ => msgOK S false N i r.2 = true)
  | 0, N, depth, i, v, ds, _, hv => by
    simp only [setFields]
    split
    · exact rp_post_ok hv
    · exact rp_post_stuck
  | fuel+1, N, depth, i, v, ds, hN, hv => by
    simp only [setFields]
    split
    · exact rp_post_ok hv
    · rename_i hd
      obtain ⟨n, rfl⟩ : ∃ n, N = n + 2 := ⟨N - 2, by omega⟩
      obtain ⟨slots, u, rfl⟩ := rf_msgOK_isMsg hv
      have hc : ChildOK S (n+1) (setFields S o E fuel (depth+1)) :=
        fun mi c ds' hcv => rp_ok_setFields S o hmap E fuel (n+1) (depth+1) mi c ds' (by omega) hcv
      refine rp_post_map (rp_post_mono
        (rp_ok_genFields S o hmap E hc i u _ 0 slots ds (by simp) hv) (fun slots' _ h' => ?_))
      simpa [Val.unknown, Val.slots] using h'

end Pulsar.Rapidproto
