/-
  Pulsar.Proofs.EncodeSort — a generic insertion sort that the three model sorts (`sortFV`,
  `sortDesc`, `sortBy`) are instances of; permutation, sortedness, uniqueness of sorted permutations.
-/
import Pulsar.Typing
namespace Pulsar

def ins {α : Type} (lt : α → α → Bool) (x : α) : List α → List α
  | [] => [x]
  | y :: ys => if lt x y then x :: y :: ys else y :: ins lt x ys

def isort {α : Type} (lt : α → α → Bool) : List α → List α
  | [] => []
  | x :: xs => ins lt x (isort lt xs)

theorem insertFV_eq (x : FieldDesc × Val) (l : List (FieldDesc × Val)) : insertFV x l = ins legacyLt x l := by
  induction l with
  | nil => rfl
  | cons y ys ih => simp [insertFV, ins, ih]

theorem sortFV_eq (l : List (FieldDesc × Val)) : sortFV l = isort legacyLt l := by
  induction l with
  | nil => rfl
  | cons y ys ih => simp [sortFV, isort, ih, insertFV_eq]

theorem insertDesc_eq (x : FieldDesc × Val) (l : List (FieldDesc × Val)) : insertDesc x l = ins numGt x l := by
  induction l with
  | nil => rfl
  | cons y ys ih => simp [insertDesc, ins, ih]

theorem sortDesc_eq (l : List (FieldDesc × Val)) : sortDesc l = isort numGt l := by
  induction l with
  | nil => rfl
  | cons y ys ih => simp [sortDesc, isort, ih, insertDesc_eq]

theorem insertBy_eq (lt : Val → Val → Bool) (x : Val) (l : List Val) : insertBy lt x l = ins lt x l := by
  induction l with
  | nil => rfl
  | cons y ys ih => simp [insertBy, ins, ih]

theorem sortBy_eq (lt : Val → Val → Bool) (l : List Val) : sortBy lt l = isort lt l := by
  induction l with
  | nil => rfl
  | cons y ys ih => simp [sortBy, isort, ih, insertBy_eq]

section generic
variable {α : Type} (lt : α → α → Bool)

theorem ins_perm (x : α) (l : List α) : (ins lt x l).Perm (x :: l) := by
  induction l with
  | nil => exact List.Perm.refl _
  | cons y ys ih =>
    simp only [ins]
    split
    · exact List.Perm.refl _
    · exact (List.Perm.cons y ih).trans (List.Perm.swap x y ys)

theorem isort_perm (l : List α) : (isort lt l).Perm l := by
  induction l with
  | nil => exact List.Perm.refl _
  | cons y ys ih => exact (ins_perm lt y _).trans (List.Perm.cons y ih)

theorem mem_isort {l : List α} {a : α} : a ∈ isort lt l ↔ a ∈ l := (isort_perm lt l).mem_iff

theorem ins_pairwise (htrans : ∀ a b c, lt a b = true → lt b c = true → lt a c = true)
    (x : α) (l : List α) (hl : l.Pairwise (fun a b => lt a b = true))
    (htot : ∀ y ∈ l, lt x y = true ∨ lt y x = true) :
    (ins lt x l).Pairwise (fun a b => lt a b = true) := by
  induction l with
  | nil => simp [ins]
  | cons y ys ih =>
    simp only [ins]
    rw [List.pairwise_cons] at hl
    split
    · rename_i hxy
      refine List.pairwise_cons.2 ⟨?_, List.pairwise_cons.2 hl⟩
      intro z hz
      rcases List.mem_cons.1 hz with rfl | hz
      · exact hxy
      · exact htrans _ _ _ hxy (hl.1 z hz)
    · rename_i hxy
      have hyx : lt y x = true := by
        rcases htot y List.mem_cons_self with h | h
        · exact absurd h hxy
        · exact h
      refine List.pairwise_cons.2 ⟨?_, ih hl.2 (fun z hz => htot z (List.mem_cons_of_mem _ hz))⟩
      intro z hz
      rcases List.mem_cons.1 ((ins_perm lt x ys).mem_iff.1 hz) with rfl | hz
      · exact hyx
      · exact hl.1 z hz

theorem isort_pairwise (htrans : ∀ a b c, lt a b = true → lt b c = true → lt a c = true)
    (l : List α) (htot : l.Pairwise (fun a b => lt a b = true ∨ lt b a = true)) :
    (isort lt l).Pairwise (fun a b => lt a b = true) := by
  induction l with
  | nil => simp [isort]
  | cons y ys ih =>
    rw [List.pairwise_cons] at htot
    simp only [isort]
    apply ins_pairwise lt htrans y _ (ih htot.2)
    intro z hz
    exact htot.1 z ((mem_isort lt).1 hz)

theorem sorted_perm_unique (hasymm : ∀ a b, lt a b = true → lt b a = true → False)
    {l₁ l₂ : List α} (hp : l₁.Perm l₂) (h₁ : l₁.Pairwise (fun a b => lt a b = true))
    (h₂ : l₂.Pairwise (fun a b => lt a b = true)) : l₁ = l₂ :=
  List.Perm.eq_of_pairwise (le := fun a b => lt a b = true)
    (fun a b _ _ hab hba => (hasymm a b hab hba).elim) h₁ h₂ hp

theorem isort_of_sorted (htrans : ∀ a b c, lt a b = true → lt b c = true → lt a c = true)
    (hasymm : ∀ a b, lt a b = true → lt b a = true → False)
    (l : List α) (hl : l.Pairwise (fun a b => lt a b = true)) : isort lt l = l :=
  sorted_perm_unique lt hasymm (isort_perm lt l)
    (isort_pairwise lt htrans l (hl.imp (fun h => Or.inl h))) hl

theorem ins_map {β : Type} (lt' : β → β → Bool) (f : α → β)
    (h : ∀ a b, lt' (f a) (f b) = lt a b) (x : α) (l : List α) :
    ins lt' (f x) (l.map f) = (ins lt x l).map f := by
  induction l with
  | nil => rfl
  | cons y ys ih =>
    simp only [List.map_cons, ins, h]
    split
    · rfl
    · simp [ih]

theorem isort_map {β : Type} (lt' : β → β → Bool) (f : α → β)
    (h : ∀ a b, lt' (f a) (f b) = lt a b) (l : List α) :
    isort lt' (l.map f) = (isort lt l).map f := by
  induction l with
  | nil => rfl
  | cons y ys ih => simp only [List.map_cons, isort, ih, ins_map lt lt' f h]

end generic
end Pulsar
