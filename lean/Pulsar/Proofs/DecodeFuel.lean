/-
  Pulsar.Proofs.DecodeFuel — the fuel of the closure bounds nothing (C06_fuel_irrelevant):
  every nested payload is strictly shorter than the input it is cut from, so the tree fuel
  `bs.length + 1` is never exhausted.
-/
import Pulsar.Proofs.DecodeNoPanic
namespace Pulsar

/-! ## consumption -/

theorem implReadMapField_ok {c : Nat → Val → Bytes → Res Val} {S : Schema} {e : Elem} {old : Val} {rest : Bytes}
    {v : Val} {r : Bytes} (h : implReadMapField c S e old rest = .ok (v, r)) : r.length < rest.length := by
  unfold implReadMapField at h
  split at h
  · cases hr : readLenDelim rest with
    | ok a =>
      obtain ⟨p, r0⟩ := a
      rw [hr] at h
      simp only [] at h
      have := readLenDelim_ok hr
      split at h
      · simp only [Res.ok.injEq, Prod.mk.injEq] at h
        obtain ⟨_, rfl⟩ := h
        omega
      · simp at h
      · simp at h
    | err e => rw [hr] at h; simp at h
    | panic => rw [hr] at h; simp at h
  · exact implReadScalar_ok h

theorem implPackedLoop_ok (k : Kind) : ∀ (fuel : Nat) (rest : Bytes) (rem : Nat) (acc vs : List Val) (r : Bytes),
    implPackedLoop k fuel rest rem acc = .ok (vs, r) → r.length ≤ rest.length := by
  intro fuel
  induction fuel with
  | zero =>
    intro rest rem acc vs r h
    simp only [implPackedLoop, Res.ok.injEq, Prod.mk.injEq] at h
    obtain ⟨_, rfl⟩ := h; omega
  | succ fuel ih =>
    intro rest rem acc vs r h
    rw [implPackedLoop] at h
    split at h
    · simp only [Res.ok.injEq, Prod.mk.injEq] at h
      obtain ⟨_, rfl⟩ := h; omega
    · cases hs : implReadScalar k rest with
      | ok a =>
        obtain ⟨v, r0⟩ := a
        rw [hs] at h
        simp only [] at h
        have := implReadScalar_ok hs
        have := ih _ _ _ _ _ h
        omega
      | err e => rw [hs] at h; simp at h
      | panic => rw [hs] at h; simp at h

/-- a handled record never leaves more input than it was given -/
theorem implKnownField_ok {c : Nat → Val → Bytes → Res Val} {S : Schema} {fs : List FieldDesc} {j : Nat}
    {f : FieldDesc} {wt : Nat} {m : Val} {rest : Bytes} {m' : Val} {r' : Bytes}
    (h : implKnownField S fs c j f wt m rest = .ok (m', r')) : r'.length ≤ rest.length := by
  unfold implKnownField at h
  simp only [] at h
  repeat' split at h
  all_goals first
    | (exfalso; simp at h; done)
    | (simp only [Res.ok.injEq, Prod.mk.injEq] at h
       obtain ⟨_, rfl⟩ := h
       first
       | (have := implReadScalar_ok ‹implReadScalar _ _ = Res.ok _›; omega)
       | (have := readLenDelim_ok ‹readLenDelim _ = Res.ok _›; omega)
       | (have := readVarint_ok ‹readVarint _ = Res.ok _›
          have := implPackedLoop_ok _ _ _ _ _ _ _ ‹implPackedLoop _ _ _ _ _ = Res.ok _›; omega)
       | (have := readVarint_ok ‹readVarint _ = Res.ok _›; simp only [List.length_drop]; omega))

/-! ## the child is only ever called on payloads shorter than the remaining input -/

section congr
variable {c1 c2 : Nat → Val → Bytes → Res Val}

theorem implReadMapField_congr (S : Schema) (e : Elem) (old : Val) (rest : Bytes)
    (L : Nat) (hL : rest.length ≤ L)
    (hc : ∀ i into p, p.length < L → c1 i into p = c2 i into p) :
    implReadMapField c1 S e old rest = implReadMapField c2 S e old rest := by
  unfold implReadMapField
  split
  · cases hr : readLenDelim rest with
    | ok a =>
      obtain ⟨p, r0⟩ := a
      simp only []
      have := readLenDelim_ok hr
      rw [hc _ _ _ (by omega)]
    | err e => rfl
    | panic => rfl
  · rfl

theorem implEntryLoop_congr (S : Schema) (kk : Kind) (e : Elem) (L : Nat)
    (hc : ∀ i into p, p.length < L → c1 i into p = c2 i into p) :
    ∀ (fuel : Nat) (rest : Bytes) (rem : Nat) (k v : Val), rest.length ≤ L →
      implEntryLoop c1 S kk e fuel rest rem k v = implEntryLoop c2 S kk e fuel rest rem k v := by
  intro fuel
  induction fuel with
  | zero => intro rest rem k v _; simp [implEntryLoop]
  | succ fuel ih =>
    intro rest rem k v hL
    rw [implEntryLoop, implEntryLoop]
    split
    · rfl
    · cases hv : readVarint rest with
      | err e => rfl
      | panic => rfl
      | ok a =>
        obtain ⟨wire, r⟩ := a
        simp only []
        have hr := readVarint_ok hv
        split
        · rw [implReadMapField_congr S (.scalar kk) k r L (by omega) hc]
          cases hm : implReadMapField c2 S (.scalar kk) k r with
          | ok b =>
            obtain ⟨k', r'⟩ := b
            simp only []
            have := implReadMapField_ok hm
            exact ih _ _ _ _ (by omega)
          | err e => rfl
          | panic => rfl
        · split
          · rw [implReadMapField_congr S e v r L (by omega) hc]
            cases hm : implReadMapField c2 S e v r with
            | ok b =>
              obtain ⟨v', r'⟩ := b
              simp only []
              have := implReadMapField_ok hm
              exact ih _ _ _ _ (by omega)
            | err e => rfl
            | panic => rfl
          · cases hs : skip rest with
            | ok n =>
              simp only []
              split
              · rfl
              · exact ih _ _ _ _ (by simp only [List.length_drop]; omega)
            | err e => rfl
            | panic => rfl

theorem implKnownField_congr (S : Schema) (fs : List FieldDesc) (j : Nat) (f : FieldDesc) (wt : Nat) (m : Val)
    (rest : Bytes) (L : Nat) (hL : rest.length ≤ L)
    (hc : ∀ i into p, p.length < L → c1 i into p = c2 i into p) :
    implKnownField S fs c1 j f wt m rest = implKnownField S fs c2 j f wt m rest := by
  unfold implKnownField
  simp only []
  split
  · rfl
  · -- repeated message
    split
    · rfl
    · cases hr : readLenDelim rest with
      | ok a =>
        obtain ⟨p, r0⟩ := a
        simp only []
        have := readLenDelim_ok hr
        rw [hc _ _ _ (by omega)]
      | err e => rfl
      | panic => rfl
  · rfl
  · -- singular message
    split
    · rfl
    · cases hr : readLenDelim rest with
      | ok a =>
        obtain ⟨p, r0⟩ := a
        simp only []
        have := readLenDelim_ok hr
        rw [hc _ _ _ (by omega)]
      | err e => rfl
      | panic => rfl
  · rfl
  · -- oneof message
    split
    · rfl
    · cases hr : readLenDelim rest with
      | ok a =>
        obtain ⟨p, r0⟩ := a
        simp only []
        have := readLenDelim_ok hr
        rw [hc _ _ _ (by omega)]
      | err e => rfl
      | panic => rfl
  · -- map
    split
    · rfl
    · cases hv : readVarint rest with
      | ok a =>
        obtain ⟨n, r⟩ := a
        simp only []
        have := readVarint_ok hv
        split
        · rfl
        · split
          · rfl
          · rw [implEntryLoop_congr S _ _ L hc _ (r.take n) _ _ _ (by simp only [List.length_take]; omega)]
      | err e => rfl
      | panic => rfl

theorem implUnmarshalLoop_congr (S : Schema) (i : Nat) (o : UOpts) (L : Nat)
    (hc : ∀ i into p, p.length < L → c1 i into p = c2 i into p) :
    ∀ (fuel : Nat) (m : Val) (rest : Bytes), rest.length ≤ L →
      implUnmarshalLoop S i o c1 fuel m rest = implUnmarshalLoop S i o c2 fuel m rest := by
  intro fuel
  induction fuel with
  | zero => intro m rest _; simp [implUnmarshalLoop]
  | succ fuel ih =>
    intro m rest hL
    rw [implUnmarshalLoop, implUnmarshalLoop]
    split
    · rfl
    · cases hv : readVarint rest with
      | err e => rfl
      | panic => rfl
      | ok a =>
        obtain ⟨wire, r⟩ := a
        simp only []
        have hr := readVarint_ok hv
        split
        · rfl
        · split
          · rfl
          · split
            · rename_i j f hf
              rw [implKnownField_congr S _ j f _ m r L (by omega) hc]
              cases hk : implKnownField S (S.msg i).fields c2 j f (wire % 8) m r with
              | ok b =>
                obtain ⟨m', r'⟩ := b
                simp only []
                split
                · exact ih _ _ (by omega)
                · rfl
              | err e => rfl
              | panic => rfl
            · cases hs : skip rest with
              | ok n =>
                simp only []
                split
                · rfl
                · cases hsl : sliceTo rest n with
                  | ok raw =>
                    simp only []
                    split
                    · rfl
                    · exact ih _ _ (by simp only [List.length_drop]; omega)
                  | err e => rfl
                  | panic => rfl
              | err e => rfl
              | panic => rfl

end congr

/-! ## loop fuels: every iteration consumes input, so the `0`-fuel branches are never reached -/

theorem implPackedLoop_fuel (k : Kind) : ∀ (f1 f2 : Nat) (rest : Bytes) (rem : Nat) (acc : List Val),
    rem ≤ f1 → rem ≤ f2 → implPackedLoop k f1 rest rem acc = implPackedLoop k f2 rest rem acc := by
  intro f1
  induction f1 with
  | zero =>
    intro f2 rest rem acc h1 h2
    have : rem = 0 := by omega
    subst this
    cases f2 <;> simp [implPackedLoop]
  | succ f1 ih =>
    intro f2 rest rem acc h1 h2
    cases f2 with
    | zero =>
      have : rem = 0 := by omega
      subst this
      simp [implPackedLoop]
    | succ f2 =>
      rw [implPackedLoop, implPackedLoop]
      split
      · rfl
      · cases hs : implReadScalar k rest with
        | ok a =>
          obtain ⟨v, r⟩ := a
          simp only []
          have := implReadScalar_ok hs
          exact ih _ _ _ _ (by omega) (by omega)
        | err e => rfl
        | panic => rfl

theorem implEntryLoop_fuel (c : Nat → Val → Bytes → Res Val) (S : Schema) (kk : Kind) (e : Elem) :
    ∀ (f1 f2 : Nat) (rest : Bytes) (rem : Nat) (k v : Val), rem ≤ f1 → rem ≤ f2 →
      implEntryLoop c S kk e f1 rest rem k v = implEntryLoop c S kk e f2 rest rem k v := by
  intro f1
  induction f1 with
  | zero =>
    intro f2 rest rem k v h1 h2
    have : rem = 0 := by omega
    subst this
    cases f2 <;> simp [implEntryLoop]
  | succ f1 ih =>
    intro f2 rest rem k v h1 h2
    cases f2 with
    | zero =>
      have : rem = 0 := by omega
      subst this
      simp [implEntryLoop]
    | succ f2 =>
      rw [implEntryLoop, implEntryLoop]
      split
      · rfl
      · cases hv : readVarint rest with
        | err e => rfl
        | panic => rfl
        | ok a =>
          obtain ⟨wire, r⟩ := a
          simp only []
          have hr := readVarint_ok hv
          split
          · cases hm : implReadMapField c S (.scalar kk) k r with
            | ok b =>
              obtain ⟨k', r'⟩ := b
              simp only []
              have := implReadMapField_ok hm
              exact ih _ _ _ _ _ (by omega) (by omega)
            | err e => rfl
            | panic => rfl
          · split
            · cases hm : implReadMapField c S e v r with
              | ok b =>
                obtain ⟨v', r'⟩ := b
                simp only []
                have := implReadMapField_ok hm
                exact ih _ _ _ _ _ (by omega) (by omega)
              | err e => rfl
              | panic => rfl
            · cases hs : skip rest with
              | ok n =>
                simp only []
                have := skip_progress rest n hs
                split
                · rfl
                · exact ih _ _ _ _ _ (by omega) (by omega)
              | err e => rfl
              | panic => rfl

/-- the "no progress" exits of the model's record loop are unreachable: a handled record leaves
    strictly less input than the loop iteration started with. -/
theorem implUnmarshalLoop_known_progress {c : Nat → Val → Bytes → Res Val} {S : Schema} {fs : List FieldDesc}
    {j : Nat} {f : FieldDesc} {wt : Nat} {m : Val} {rest r : Bytes} {wire : Nat} {m' : Val} {r' : Bytes}
    (hv : readVarint rest = .ok (wire, r)) (h : implKnownField S fs c j f wt m r = .ok (m', r')) :
    r'.length < rest.length := by
  have := readVarint_ok hv
  have := implKnownField_ok h
  omega

theorem implUnmarshalLoop_fuel (S : Schema) (i : Nat) (o : UOpts) (c : Nat → Val → Bytes → Res Val) :
    ∀ (f1 f2 : Nat) (m : Val) (rest : Bytes), rest.length ≤ f1 → rest.length ≤ f2 →
      implUnmarshalLoop S i o c f1 m rest = implUnmarshalLoop S i o c f2 m rest := by
  intro f1
  induction f1 with
  | zero =>
    intro f2 m rest h1 h2
    have : rest = [] := List.eq_nil_of_length_eq_zero (by omega)
    subst this
    cases f2 <;> simp [implUnmarshalLoop]
  | succ f1 ih =>
    intro f2 m rest h1 h2
    cases f2 with
    | zero =>
      have : rest = [] := List.eq_nil_of_length_eq_zero (by omega)
      subst this
      simp [implUnmarshalLoop]
    | succ f2 =>
      rw [implUnmarshalLoop, implUnmarshalLoop]
      split
      · rfl
      · cases hv : readVarint rest with
        | err e => rfl
        | panic => rfl
        | ok a =>
          obtain ⟨wire, r⟩ := a
          simp only []
          have hr := readVarint_ok hv
          split
          · rfl
          · split
            · rfl
            · split
              · rename_i j f hf
                cases hk : implKnownField S (S.msg i).fields c j f (wire % 8) m r with
                | ok b =>
                  obtain ⟨m', r'⟩ := b
                  simp only []
                  have := implUnmarshalLoop_known_progress hv hk
                  simp only [this, if_true]
                  exact ih _ _ _ (by omega) (by omega)
                | err e => rfl
                | panic => rfl
              · cases hs : skip rest with
                | ok n =>
                  simp only []
                  have := skip_progress rest n hs
                  split
                  · rfl
                  · cases hsl : sliceTo rest n with
                    | ok raw =>
                      simp only []
                      have hn0 : ¬ (n = 0) := by omega
                      simp only [hn0, if_false]
                      exact ih _ _ _ (by simp only [List.length_drop]; omega) (by simp only [List.length_drop]; omega)
                    | err e => rfl
                    | panic => rfl
                | err e => rfl
                | panic => rfl

/-- Any two tree fuels above the input length give the same result. -/
theorem implUnmarshalClosure_fuel (S : Schema) (o : UOpts) : ∀ (f1 f2 : Nat) (depth : Int) (i : Nat)
    (into : Val) (bs : Bytes), bs.length + 1 ≤ f1 → bs.length + 1 ≤ f2 →
    implUnmarshalClosure S o f1 depth i into bs = implUnmarshalClosure S o f2 depth i into bs := by
  intro f1
  induction f1 with
  | zero => intro f2 depth i into bs h; omega
  | succ f1 ih =>
    intro f2 depth i into bs h1 h2
    cases f2 with
    | zero => omega
    | succ f2 =>
      rw [implUnmarshalClosure, implUnmarshalClosure]
      split
      · rfl
      · split
        · rfl
        · apply implUnmarshalLoop_congr S i o bs.length _ _ _ _ (Nat.le_refl _)
          intro i' into' p hp
          exact ih f2 _ i' into' p (by omega) (by omega)

end Pulsar
