/-
  Pulsar.Proofs.DecodeDeep — the closure's varint reader inverts `varint`, and a self-recursive
  message nested deeper than the budget is rejected with the recursion error (C06_too_deep_rejected).
-/
import Pulsar.Proofs.DecodeFuel
namespace Pulsar

/-! ## `skipReadVarint` on a minimal varint -/

theorem pow_split (k : Nat) (hk : k ≤ 9) : 2 ^ (64 - 7 * k) * 2 ^ (7 * k) = 18446744073709551616 := by
  rw [← Nat.pow_add]
  have : 64 - 7 * k + 7 * k = 64 := by omega
  rw [this]

theorem skipReadVarint_varint (x : Nat) : ∀ (k acc : Nat) (rest : Bytes), k ≤ 9 → x < 2 ^ (64 - 7 * k) →
    acc < 2 ^ (7 * k) →
    ∃ n, skipReadVarint k acc (varint x ++ rest) = .ok (acc + x * 2 ^ (7 * k), n, rest) := by
  induction x using Nat.strongRecOn with
  | ind x ih =>
    intro k acc rest hk hx hacc
    have hsplit := pow_split k hk
    have hk10 : ¬ (k ≥ 10) := by omega
    -- acc + x * P < 2^64
    have hlt : acc + x * 2 ^ (7 * k) < 18446744073709551616 := by
      have h1 : (x + 1) * 2 ^ (7 * k) ≤ 2 ^ (64 - 7 * k) * 2 ^ (7 * k) := Nat.mul_le_mul_right _ hx
      rw [hsplit, Nat.add_mul] at h1
      omega
    by_cases h128 : x < 128
    · rw [varint_lt_128 h128]
      simp only [List.singleton_append, skipReadVarint, hk10, if_false]
      have hb : x.toUInt8.toNat = x := by
        simp only [Nat.toUInt8, UInt8.toNat_ofNat']; omega
      rw [hb]
      have hm : x % 128 = x := Nat.mod_eq_of_lt h128
      simp only [hm, h128, if_true, Nat.mod_eq_of_lt hlt]
      exact ⟨_, rfl⟩
    · have hge : 128 ≤ x := by omega
      rw [varint_ge_128 hge]
      simp only [List.cons_append, skipReadVarint, hk10, if_false]
      have hb : (x % 128 + 128).toUInt8.toNat = x % 128 + 128 := by
        simp only [Nat.toUInt8, UInt8.toNat_ofNat']; omega
      rw [hb]
      have hnot : ¬ (x % 128 + 128 < 128) := by omega
      have hm : (x % 128 + 128) % 128 = x % 128 := by omega
      simp only [hnot, if_false, hm]
      -- k ≤ 8, since 128 ≤ x < 2^(64-7k)
      have hk8 : k ≤ 8 := by
        rcases Nat.lt_or_ge k 9 with h | h
        · omega
        · have : k = 9 := by omega
          subst this
          simp only [Nat.reduceMul, Nat.reduceSub, Nat.reducePow] at hx
          omega
      have hk' : ¬ (k + 1 ≥ 10) := by omega
      simp only [hk', if_false]
      have hbound := varint_acc_bound (k := k) (acc := acc) (x := x % 128) hacc (by omega)
      have hP : 2 ^ (7 * (k + 1)) ≤ 18446744073709551616 := by
        have : 2 ^ (7 * (k + 1)) ≤ 2 ^ 64 := Nat.pow_le_pow_right (by omega) (by omega)
        simpa using this
      rw [Nat.mod_eq_of_lt (by omega)]
      have hx' : x / 128 < 2 ^ (64 - 7 * (k + 1)) := by
        have e : 2 ^ (64 - 7 * k) = 128 * 2 ^ (64 - 7 * (k + 1)) := by
          have : 64 - 7 * k = 7 + (64 - 7 * (k + 1)) := by omega
          rw [this, Nat.pow_add]
        rw [e] at hx
        exact Nat.div_lt_of_lt_mul hx
      obtain ⟨n, hn⟩ := ih (x / 128) (by omega) (k + 1) (acc + x % 128 * 2 ^ (7 * k)) rest (by omega) hx' hbound
      refine ⟨n, ?_⟩
      rw [hn]
      have e : 2 ^ (7 * (k + 1)) = 128 * 2 ^ (7 * k) := by
        rw [Nat.mul_add, Nat.pow_add]; simp [Nat.mul_comm]
      rw [e]
      have : x / 128 * (128 * 2 ^ (7 * k)) + x % 128 * 2 ^ (7 * k) = x * 2 ^ (7 * k) := by
        rw [← Nat.mul_assoc, ← Nat.add_mul]
        congr 1
        omega
      simp only [Res.ok.injEq, Prod.mk.injEq, and_true]
      omega

theorem readVarint_varint (x : Nat) (rest : Bytes) (hx : x < 18446744073709551616) :
    readVarint (varint x ++ rest) = .ok (x, rest) := by
  obtain ⟨n, hn⟩ := skipReadVarint_varint x 0 0 rest (by omega) (by simpa using hx) (by simp)
  simp [readVarint, hn]

theorem readLenDelim_varint (p rest : Bytes) (hp : p.length < 9223372036854775808) :
    readLenDelim (varint p.length ++ (p ++ rest)) = .ok (p, rest) := by
  rw [readLenDelim_eq, readVarint_varint _ _ (by omega)]
  simp only []
  have h1 : ¬ (p.length ≥ 9223372036854775808) := by omega
  have h2 : ¬ (p.length > (p ++ rest).length) := by simp
  simp [h1]

/-! ## a self-recursive message type and `n` nested records -/

/-- `message M { M f = 1; }` -/
def selfRec : Schema := ⟨[⟨[⟨1, .message 0, .singular⟩]⟩]⟩

/-- `n` nested `field 1 { … }` records -/
def deepBytes : Nat → Bytes
  | 0 => []
  | n+1 => let inner := deepBytes n; [0x0a] ++ varint inner.length ++ inner

theorem deepBytes_succ (n : Nat) :
    deepBytes (n + 1) = 0x0a :: (varint (deepBytes n).length ++ (deepBytes n ++ [])) := by
  simp [deepBytes]

theorem deepBytes_length_ge (n : Nat) : 2 * n ≤ (deepBytes n).length := by
  induction n with
  | zero => simp
  | succ n ih =>
    rw [deepBytes_succ]
    have : 0 < (varint (deepBytes n).length).length := by
      rw [← sov_eq_varint_length]; exact sov_pos _
    simp only [List.length_cons, List.length_append, List.length_nil]
    omega

theorem deepBytes_length_mono (n : Nat) : (deepBytes n).length < (deepBytes (n + 1)).length := by
  rw [deepBytes_succ]
  simp only [List.length_cons, List.length_append, List.length_nil]
  omega

theorem readVarint_tag (rest : Bytes) : readVarint (0x0a :: rest) = .ok (10, rest) := by
  simp [readVarint, skipReadVarint]

/-- one level: the record loop on `0a <len> inner` hands `inner` to the child and propagates its error -/
theorem closure_selfRec_step (o : UOpts) (f : Nat) (d : Int) (e : Err) (bs : Bytes)
    (hl : bs.length < 9223372036854775808) (m : Val) (hm : m.isNone = false) (hd : ¬ d < 0)
    (hchild : ∀ into', into'.isNone = false →
      implUnmarshalClosure selfRec o f (nestedLimit d) 0 into' bs = .err e) :
    implUnmarshalClosure selfRec o (f + 1) d 0 m (0x0a :: (varint bs.length ++ (bs ++ []))) = .err e := by
  rw [implUnmarshalClosure]
  simp only [hm, Bool.false_eq_true, if_false, hd]
  rw [List.length_cons, implUnmarshalLoop]
  simp only [List.cons_ne_nil, if_false, readVarint_tag]
  have hfind : findField (selfRec.msg 0).fields (10 / 8 % 4294967296) = some (0, ⟨1, .message 0, .singular⟩) := by
    decide
  have h1 : ¬ (10 % 8 = 4) := by decide
  have h2 : ¬ (10 / 8 % 4294967296 = 0 ∨ 10 / 8 % 4294967296 ≥ 2147483648) := by decide
  simp only [h1, h2, if_false, hfind]
  have hk : implKnownField selfRec (selfRec.msg 0).fields (implUnmarshalClosure selfRec o f (nestedLimit d))
      0 ⟨1, .message 0, .singular⟩ (10 % 8) m (varint bs.length ++ (bs ++ [])) = .err e := by
    simp only [implKnownField]
    have : ¬ ((10 % 8 != 2) = true) := by decide
    simp only [this, readLenDelim_varint bs [] hl]
    rw [hchild _ (by split <;> simp_all [emptyMsg, Val.isNone])]
    simp
  rw [hk]

theorem closure_selfRec_deep (o : UOpts) : ∀ (n d fuel : Nat) (m : Val), 1 ≤ d → d ≤ n → d + 1 ≤ fuel →
    m.isNone = false → (deepBytes n).length < 9223372036854775808 →
    implUnmarshalClosure selfRec o fuel (d : Int) 0 m (deepBytes n) = .err .depth := by
  intro n
  induction n with
  | zero => intro d fuel m h1 h2; omega
  | succ n ih =>
    intro d fuel m h1 h2 hf hm hl
    obtain ⟨f, rfl⟩ : ∃ f, fuel = f + 1 := ⟨fuel - 1, by omega⟩
    have hl' : (deepBytes n).length < 9223372036854775808 := by
      have := deepBytes_length_mono n; omega
    rw [deepBytes_succ]
    apply closure_selfRec_step o f (d : Int) .depth _ hl' m hm (by omega)
    intro into' hinto
    by_cases hd1 : d = 1
    · subst hd1
      obtain ⟨f', rfl⟩ : ∃ f', f = f' + 1 := ⟨f - 1, by omega⟩
      rw [implUnmarshalClosure]
      simp [hinto, nestedLimit]
    · have hnl : nestedLimit (d : Int) = ((d - 1 : Nat) : Int) := by
        unfold nestedLimit
        have h0 : ¬ ((d : Int) = 0) := by omega
        have h1' : ¬ ((d : Int) ≤ 1) := by omega
        simp only [h0, if_false, h1']
        omega
      rw [hnl]
      exact ih (d - 1) f into' (by omega) (by omega) (by omega) hinto hl'

/-- `proto.Unmarshal` of `n ≥ 10000` nested records (into a fresh target) is the recursion error -/
theorem implUnmarshal_selfRec_deep (n : Nat) (h : 10000 ≤ n) (hl : (deepBytes n).length < 9223372036854775808) :
    implUnmarshal selfRec {} 0 (emptyMsg selfRec 0) (deepBytes n) = .err .depth := by
  have hge := deepBytes_length_ge n
  have := closure_selfRec_deep {} n 10000 ((deepBytes n).length + 1) (emptyMsg selfRec 0) (by omega) h (by omega) rfl hl
  have e : ((10000 : Nat) : Int) = 10000 := rfl
  rw [e] at this
  exact implUnmarshal_fresh_err this

/-! ## how long `deepBytes n` is (for non-vacuity, and for the astronomically deep counterexample) -/

theorem varint_length_le : ∀ (k x : Nat), x < 128 ^ (k + 1) → (varint x).length ≤ k + 1 := by
  intro k
  induction k with
  | zero => intro x hx; rw [varint_lt_128 (by simpa using hx)]; simp
  | succ k ih =>
    intro x hx
    by_cases h : x < 128
    · rw [varint_lt_128 h]; simp
    · rw [varint_ge_128 (by omega)]
      have : x / 128 < 128 ^ (k + 1) := by
        apply Nat.div_lt_of_lt_mul
        rw [Nat.pow_succ, Nat.mul_comm] at hx
        exact hx
      have := ih _ this
      simp only [List.length_cons]; omega

theorem varint_length_ge : ∀ (k x : Nat), 128 ^ k ≤ x → k + 1 ≤ (varint x).length := by
  intro k
  induction k with
  | zero =>
    intro x _
    rw [← sov_eq_varint_length]; exact sov_pos x
  | succ k ih =>
    intro x hx
    have h128 : 128 ≤ x := by
      have : 128 ^ 1 ≤ 128 ^ (k + 1) := Nat.pow_le_pow_right (by omega) (by omega)
      omega
    rw [varint_ge_128 h128]
    have : 128 ^ k ≤ x / 128 := by
      rw [Nat.le_div_iff_mul_le (by omega), ← Nat.pow_succ]
      exact hx
    have := ih _ this
    simp only [List.length_cons]; omega

theorem deepBytes_length_succ (n : Nat) :
    (deepBytes (n + 1)).length = 1 + (varint (deepBytes n).length).length + (deepBytes n).length := by
  rw [deepBytes_succ]
  simp only [List.length_cons, List.length_append, List.length_nil]
  omega

/-- at most 11 bytes per level while the total stays below 2^70 -/
theorem deepBytes_length_le : ∀ (n : Nat), n ≤ 1152921504606846976 → (deepBytes n).length ≤ 11 * n := by
  intro n
  induction n with
  | zero => intro _; simp [deepBytes]
  | succ n ih =>
    intro hn
    have h := ih (by omega)
    rw [deepBytes_length_succ]
    have : (varint (deepBytes n).length).length ≤ 10 := varint_length_le 9 _ (by
      have : (128 : Nat) ^ (9 + 1) = 1180591620717411303424 := by decide
      omega)
    omega

/-- from level 2^55 on every level costs at least 10 bytes -/
theorem deepBytes_length_ge10 : ∀ (k : Nat),
    72057594037927936 + 10 * k ≤ (deepBytes (36028797018963968 + k)).length := by
  intro k
  induction k with
  | zero => have := deepBytes_length_ge 36028797018963968; simpa using this
  | succ k ih =>
    rw [← Nat.add_assoc, deepBytes_length_succ]
    have : 9 ≤ (varint (deepBytes (36028797018963968 + k)).length).length := varint_length_ge 8 _ (by
      have : (128 : Nat) ^ 8 = 72057594037927936 := by decide
      omega)
    omega

/-- the level at which the (absurd) input crosses 2^63 bytes -/
def hugeDepth : Nat := 1152921504606846976

theorem deepBytes_huge :
    9223372036854775808 ≤ (deepBytes hugeDepth).length ∧ (deepBytes hugeDepth).length < 18446744073709551616 := by
  constructor
  · have := deepBytes_length_ge10 (hugeDepth - 36028797018963968)
    have e : 36028797018963968 + (hugeDepth - 36028797018963968) = hugeDepth := by decide
    rw [e] at this
    have e2 : hugeDepth - 36028797018963968 = 1116892707587883008 := by decide
    rw [e2] at this
    omega
  · have := deepBytes_length_le hugeDepth (by decide)
    have e : 11 * hugeDepth = 12682136550675316736 := by decide
    omega

/-- once the nested payload is ≥ 2^63 bytes long its length prefix reads as a negative `int` -/
theorem implUnmarshal_selfRec_long (bs : Bytes) (hlo : 9223372036854775808 ≤ bs.length)
    (hhi : bs.length < 18446744073709551616) :
    implUnmarshal selfRec {} 0 (emptyMsg selfRec 0) (0x0a :: (varint bs.length ++ (bs ++ []))) =
      .err .invalidLength := by
  have hc : implUnmarshalClosure selfRec {} ((0x0a :: (varint bs.length ++ (bs ++ []))).length + 1)
      10000 0 (emptyMsg selfRec 0) (0x0a :: (varint bs.length ++ (bs ++ []))) = .err .invalidLength := by
    rw [implUnmarshalClosure]
    have hn : (emptyMsg selfRec 0).isNone = false := rfl
    have hd : ¬ ((10000 : Int) < 0) := by decide
    simp only [hn, Bool.false_eq_true, if_false, hd]
    rw [List.length_cons, implUnmarshalLoop]
    simp only [List.cons_ne_nil, if_false, readVarint_tag]
    have hfind : findField (selfRec.msg 0).fields (10 / 8 % 4294967296) = some (0, ⟨1, .message 0, .singular⟩) := by
      decide
    have h1 : ¬ (10 % 8 = 4) := by decide
    have h2 : ¬ (10 / 8 % 4294967296 = 0 ∨ 10 / 8 % 4294967296 ≥ 2147483648) := by decide
    simp only [h1, h2, if_false, hfind]
    have hk : ∀ c m, implKnownField selfRec (selfRec.msg 0).fields c
        0 ⟨1, .message 0, .singular⟩ (10 % 8) m (varint bs.length ++ (bs ++ [])) = .err .invalidLength := by
      intro c m
      simp only [implKnownField]
      have : ¬ ((10 % 8 != 2) = true) := by decide
      simp only [this, readLenDelim_eq, readVarint_varint _ _ hhi]
      simp [hlo]
    rw [hk]
  exact implUnmarshal_fresh_err hc

theorem implUnmarshal_selfRec_huge :
    implUnmarshal selfRec {} 0 (emptyMsg selfRec 0) (deepBytes (hugeDepth + 1)) = .err .invalidLength := by
  obtain ⟨hlo, hhi⟩ := deepBytes_huge
  rw [deepBytes_succ]
  exact implUnmarshal_selfRec_long _ hlo hhi

end Pulsar
