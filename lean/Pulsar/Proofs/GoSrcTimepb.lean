/-
  Pulsar.Proofs.GoSrcTimepb — support/timepb
  (functions translated from the Go source on every run, `Pulsar/ExtractedFns.lean`, related to the hand-written
  models the property theorems are about; see Pulsar/Proofs/GoSrcBase.lean).
-/
import Pulsar.ExtractedFns
import Pulsar.Proofs.GoSrcBase
namespace Pulsar
open Pulsar Pulsar.Timepb

/-! ### support/timepb -/

namespace Timepb

theorem src_IsZero (t : Option SN) : Xf.timepb_IsZero t = .ok t.isNone := by
  simp [Xf.timepb_IsZero]

/-- every Go value of the two message types: seconds an int64, nanos an int32 -/
def InR (x : Option SN) : Prop := ∀ v, x = some v → InRange v

theorem src_Compare (a b : Option SN) (ha : InR a) (hb : InR b) : Xf.timepb_Compare a b = compareOpt a b := by
  cases a with
  | none => cases b <;> simp [Xf.timepb_Compare, compareOpt]
  | some x =>
    cases b with
    | none => simp [Xf.timepb_Compare, compareOpt]
    | some y =>
      have hx := ha x rfl
      have hy := hb y rfl
      simp only [InRange] at hx hy
      simp [Xf.timepb_Compare, compareOpt, compare, wrap64, wrap32]
      go_cases

theorem src_DurationIsNegative (d : SN) (hd : InRange d) :
    Xf.timepb_DurationIsNegative (some d) = .ok (durationIsNegative d) := by
  simp only [InRange] at hd
  simp [Xf.timepb_DurationIsNegative, durationIsNegative, wrap64, wrap32]
  go_cases

theorem src_overflowPanic (t1 t2 : SN) (h1 : InRange t1) (h2 : InRange t2) (neg : Bool) :
    Xf.timepb_overflowPanic (some t1) (some t2) neg = if overflowPanics t1 t2 neg then .panic else .ok () := by
  have e := src_Compare (some t1) (some t2) (fun v h => by cases h; exact h1) (fun v h => by cases h; exact h2)
  simp only [InRange] at h1 h2
  simp [Xf.timepb_overflowPanic, e, compareOpt, overflowPanics, compare, wrap64, wrap32]
  go_cases

theorem wrap64_lb (x : Int) : -9223372036854775808 ≤ wrap64 x := by unfold wrap64; simp only []; split <;> omega
theorem wrap64_ub (x : Int) : wrap64 x ≤ 9223372036854775807 := by unfold wrap64; simp only []; split <;> omega
theorem wrap32_lb (x : Int) : -2147483648 ≤ wrap32 x := by unfold wrap32; simp only []; split <;> omega
theorem wrap32_ub (x : Int) : wrap32 x ≤ 2147483647 := by unfold wrap32; simp only []; split <;> omega

theorem wrap64_idem (x : Int) : wrap64 (wrap64 x) = wrap64 x := wrap64_id (wrap64_lb x) (wrap64_ub x)
theorem wrap32_idem (x : Int) : wrap32 (wrap32 x) = wrap32 x := wrap32_id (wrap32_lb x) (wrap32_ub x)

/-- whatever `Add` builds from wrapped sums is a value of the message type again -/
theorem inRange_wrapped (a b : Int) : InRange ⟨wrap64 a, wrap32 b⟩ :=
  ⟨wrap64_lb a, wrap64_ub a, wrap32_lb b, wrap32_ub b⟩

theorem src_Add (t : Option SN) (d : SN) (ht : InR t) (hd : InRange d) : Xf.timepb_Add t (some d) = add t d := by
  cases t with
  | none => simp [Xf.timepb_Add, add]
  | some t =>
    have htr := ht t rfl
    have hpanic : ∀ (t2 : SN) (neg : Bool), InRange t2 →
        Xf.timepb_overflowPanic (some t) (some t2) neg = if overflowPanics t t2 neg then .panic else .ok () :=
      fun t2 neg h2 => src_overflowPanic t t2 htr h2 neg
    simp only [InRange] at htr hd
    simp [Xf.timepb_Add, add, src_DurationIsNegative d (by simp only [InRange]; exact hd), second]
    simp only [hpanic _ _ (inRange_wrapped _ _)]
    repeat' split
    all_goals (try simp_all)
    all_goals (try simp (disch := omega) only [wrap32_id, wrap64_id, wrap64_idem, wrap32_idem, ← Int.sub_eq_add_neg] at *)
    all_goals (try simp_all)
    all_goals (try omega)

end Timepb

end Pulsar
