/-
  Pulsar.Proofs.GoSrcTimepb — support/timepb
  (functions translated from the Go source on every run, `Pulsar/ExtractedFns.lean`, related to the hand-written
  models the property theorems are about; see Pulsar/Proofs/GoSrcBase.lean).
-/
import Pulsar.ExtractedFns
import Pulsar.Proofs.GoSrcBase
namespace Pulsar
open Pulsar Pulsar.Timepb

/-! ### support/timepb -/

namespace Timepb

theorem src_IsZero (t : Option SN) : Xf.timepb_IsZero t = .ok t.isNone := by
  simp [Xf.timepb_IsZero]

theorem src_Compare (a b : Option SN) : Xf.timepb_Compare a b = compareOpt a b := by
  cases a <;> cases b <;> simp [Xf.timepb_Compare, compareOpt, compare]
  go_cases

theorem src_DurationIsNegative (d : SN) :
    Xf.timepb_DurationIsNegative (some d) = .ok (durationIsNegative d) := by
  simp [Xf.timepb_DurationIsNegative, durationIsNegative]
  go_cases

theorem src_overflowPanic (t1 t2 : SN) (neg : Bool) :
    Xf.timepb_overflowPanic (some t1) (some t2) neg = if overflowPanics t1 t2 neg then .panic else .ok () := by
  simp [Xf.timepb_overflowPanic, src_Compare, compareOpt, overflowPanics]
  go_cases

theorem src_Add (t : Option SN) (d : SN) : Xf.timepb_Add t (some d) = add t d := by
  cases t with
  | none => simp [Xf.timepb_Add, add]
  | some t =>
    simp [Xf.timepb_Add, add, src_DurationIsNegative, src_overflowPanic, second]
    go_cases

end Timepb

end Pulsar
