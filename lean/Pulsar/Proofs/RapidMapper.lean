/-
  Pulsar.Proofs.RapidMapper — the `FieldMaps` option of the draw-level rapidproto model
  (`GenOpts.mapper`, Pulsar/Rapidproto.lean):
  * every scalar position of a mapped kind holds the mapper's value in every message `setFields` fills
    (`mapLocal`, a loop invariant of `genFields` lifted to the generated tree by the generic theorem of
    Proofs/RapidScalars.lean) — for ALL draw sequences;
  * no scalar draw is consumed for a mapped kind (`Ev.unmapped` for every event of the trace).
-/
import Pulsar.Proofs.RapidOpts
import Pulsar.Proofs.RapidTop
namespace Pulsar.Rapidproto
open Pulsar

/-! ### the mapper's value is stored -/

theorem rp_mapVal_self {o : GenOpts} {k : Kind} {w : Val} (h : o.mapper k = some w) : mapVal o k w = true := by
  simp [mapVal, h, rp_val_beq_refl]

theorem rp_map_genScalar (o : GenOpts) (E : List Int) (k : Kind) (ds : List Draw) :
    Post (genScalar o E k ds) (fun v _ => mapVal o k v = true) := by
  unfold genScalar
  split
  · rename_i w hw
    exact rp_post_ok (rp_mapVal_self hw)
  · rename_i hn
    exact rp_post_map (fun _ _ _ _ => by simp [mapVal, hn])

theorem rp_map_listScalars (o : GenOpts) (E : List Int) (k : Kind) : ∀ (n : Nat) (es : List Val) (ds : List Draw),
    Post (listScalars o E k n es ds)
      (fun es' _ => es.all (mapVal o k) = true → es'.all (mapVal o k) = true)
  | 0, es, ds => rp_post_ok (fun h => h)
  | n+1, es, ds => by
    simp only [listScalars]
    refine rp_post_bind (rp_map_genScalar o E k ds) (fun v rest tr _ hv => ?_)
    exact rp_post_mono (rp_map_listScalars o E k n _ rest) (fun _ _ h' h => h' (rp_all_append_one' h hv))

theorem rp_map_mapScalars (o : GenOpts) (E : List Int) (kk vk : Kind) :
    ∀ (n : Nat) (es : List Val) (ds : List Draw),
    Post (mapScalars o E kk vk n es ds) (fun es' _ =>
      es.all (fun en => mapVal o kk en.key && mapVal o vk en.value) = true →
      es'.all (fun en => mapVal o kk en.key && mapVal o vk en.value) = true)
  | 0, es, ds => rp_post_ok (fun h => h)
  | n+1, es, ds => by
    simp only [mapScalars]
    refine rp_post_bind (rp_map_genScalar o E kk ds) (fun k rest tr _ hk => ?_)
    refine rp_post_bind (rp_map_genScalar o E vk rest) (fun v rest' tr' _ hv => ?_)
    refine rp_post_mono (rp_map_mapScalars o E kk vk n _ rest') (fun _ _ h' h => h' ?_)
    exact rp_all_sort' kk (all_mapPut _ es k v h (by simp [Val.key, Val.value, hk, hv]))

theorem rp_map_mapMsgs (S : Schema) (o : GenOpts) (E : List Int) (child : Nat → Val → List Draw → R (Bool × Val))
    (kk : Kind) (mi : Nat) : ∀ (n : Nat) (es : List Val) (ds : List Draw),
    Post (mapMsgs S o E child kk mi n es ds) (fun es' _ =>
      es.all (fun en => mapVal o kk en.key) = true → es'.all (fun en => mapVal o kk en.key) = true)
  | 0, es, ds => rp_post_ok (fun h => h)
  | n+1, es, ds => by
    simp only [mapMsgs]
    refine rp_post_bind (rp_map_genScalar o E kk ds) (fun k rest tr _ hk => ?_)
    refine rp_post_bind (rp_post_any _) (fun r rest' tr' _ _ => ?_)
    refine rp_post_mono (rp_map_mapMsgs S o E child kk mi n _ rest') (fun _ _ h' h => h' ?_)
    split
    · exact rp_all_sort' kk (all_mapPut _ es k r.2 h (by simpa [Val.key] using hk))
    · exact rp_all_mapDel' kk k h

/-- `genField` on field `j`: the field holds the mapper's value at every scalar position afterwards, if its
    containers did before (for every draw sequence, every child) -/
theorem rp_map_step (S : Schema) (o : GenOpts) (E : List Int) (child : Nat → Val → List Draw → R (Bool × Val))
    (fs : List FieldDesc) (f : FieldDesc) (j : Nat) (slots : List Val) (ds : List Draw) :
    Post (genField S o E child fs f j slots ds) (fun slots' _ => j < slots'.length →
      mapField o false f (slots.getD j .none) = true → mapField o true f (slots'.getD j .none) = true) := by
  unfold genField
  cases hs : f.shape with
  | singular =>
    cases he : f.elem with
    | scalar k =>
      simp only []
      refine rp_post_map (rp_post_mono (rp_map_genScalar o E k ds) (fun v _ hv hj _ => ?_))
      rw [rp_getD_set_self hj]
      simp [mapField, hs, he, hv]
    | message mi =>
      refine rp_post_mono (rp_post_any _) (fun _ _ _ _ _ => ?_)
      simp [mapField, hs, he]
  | repeated p =>
    cases he : f.elem with
    | scalar k =>
      simp only []
      refine rp_post_bind (rp_post_any _) (fun c rest tr _ _ => ?_)
      refine rp_post_map (rp_post_mono (rp_map_listScalars o E k _ _ rest) (fun es' _ h' hj h0 => ?_))
      rw [rp_getD_set_self hj]
      simp only [mapField, hs, he] at h0 ⊢
      simpa [Val.elems] using h' h0
    | message mi =>
      refine rp_post_mono (rp_post_any _) (fun _ _ _ _ _ => ?_)
      simp [mapField, hs, he]
  | map kk =>
    cases he : f.elem with
    | scalar vk =>
      simp only []
      refine rp_post_bind (rp_post_any _) (fun c rest tr _ _ => ?_)
      refine rp_post_map (rp_post_mono (rp_map_mapScalars o E kk vk _ _ rest) (fun es' _ h' hj h0 => ?_))
      rw [rp_getD_set_self hj]
      simp only [mapField, hs, he] at h0 ⊢
      simpa [Val.elems] using h' h0
    | message mi =>
      simp only []
      refine rp_post_bind (rp_post_any _) (fun c rest tr _ _ => ?_)
      refine rp_post_map (rp_post_mono (rp_map_mapMsgs S o E child kk mi _ _ rest) (fun es' _ h' hj h0 => ?_))
      rw [rp_getD_set_self hj]
      simp only [mapField, hs, he] at h0 ⊢
      simpa [Val.elems] using h' h0
  | oneof g =>
    cases he : f.elem with
    | scalar k =>
      simp only []
      refine rp_post_map (rp_post_mono (rp_map_genScalar o E k ds) (fun v _ hv hj _ => ?_))
      rw [rp_getD_set_self hj]
      simp [mapField, hs, he, hv]
    | message mi =>
      refine rp_post_mono (rp_post_any _) (fun _ _ _ _ _ => ?_)
      simp [mapField, hs, he]

theorem rp_mapField_none (o : GenOpts) (sing : Bool) (f : FieldDesc) (g : Nat) (h : f.group? = some g) :
    mapField o sing f .none = true := by
  unfold FieldDesc.group? at h
  cases hs : f.shape <;> simp [hs] at h
  cases he : f.elem <;> simp [mapField, hs, he]

/-- a field that can be skipped is not a singular scalar -/
theorem rp_mapField_skip (o : GenOpts) (f : FieldDesc) (x : Val) (h : isMsgKind f = true)
    (h0 : mapField o false f x = true) : mapField o true f x = true := by
  unfold isMsgKind at h
  cases hs : f.shape <;> cases he : f.elem <;> simp [hs, he] at h <;>
    first
      | (simp [mapField, hs, he]; done)
      | simpa [mapField, hs, he] using h0

theorem rp_mapField_weaken (o : GenOpts) (f : FieldDesc) (x : Val) (h : mapField o true f x = true) :
    mapField o false f x = true := by
  cases hs : f.shape <;> cases he : f.elem <;> simp [mapField, hs, he] at h ⊢ <;> exact h

theorem rp_mapField_zero (o : GenOpts) (f : FieldDesc) : mapField o false f f.zero = true := by
  cases hs : f.shape <;> cases he : f.elem <;> simp [mapField, FieldDesc.zero, hs, he, Val.elems]

theorem rp_map_MpOK (S : Schema) (o : GenOpts) : MpOK S (mapLocalPre S o) (mapLocal S o) := by
  refine ⟨fun d i v h => ?_, fun d i => ?_, fun d i => ?_⟩
  · simp only [mapLocal, mapLocalPre, Bool.or_eq_true] at h ⊢
    rcases h with h | h
    · exact Or.inl h
    · refine Or.inr ?_
      rw [List.all_eq_true] at h ⊢
      exact fun q hq => rp_mapField_weaken o _ _ (h q hq)
  · simp only [mapLocalPre, Bool.or_eq_true]
    refine Or.inr ?_
    simp only [emptyMsg, Val.slots]
    exact all_zip_zero (fun f v => mapField o false f v) (rp_mapField_zero o) _
  · simp [mapLocalPre, Val.slots]

/-- one `setFields` call, any draws: `mapLocalPre` before, `mapLocal` afterwards -/
theorem rp_map_MpStep {p : Ev → Bool} (S : Schema) (o : GenOpts) (E : List Int) :
    MpStep p S o E (mapLocalPre S o) (mapLocal S o) := by
  intro fuel depth i v ds r rest tr h hin hv
  by_cases hd : depth ≤ Extracted.depthLimit
  · have hv' : ((S.msg i).fields.zip v.slots).all (fun q => mapField o false q.1 q.2) = true := by
      simp only [mapLocalPre, Bool.or_eq_true, decide_eq_true_eq] at hv
      rcases hv with h | h
      · omega
      · exact h
    have := rp_local_setFields (p := p) S o E (fun _ => mapField o false) (fun _ => mapField o true)
      (fun _ f g hg => rp_mapField_none o true f g hg) (fun _ f g hg => rp_mapField_none o false f g hg)
      (fun _ f x hk _ h0 => rp_mapField_skip o f x hk h0)
      (fun fuel depth fs f j slots ds _ _ =>
        rp_post_mono (rp_map_step S o E _ fs f j slots ds) (fun _ _ h _ hj h0 => h hj h0))
      fuel depth i v ds r rest tr h hin hd hv'
    simp only [mapLocal, Bool.or_eq_true]
    exact Or.inr this
  · simp only [mapLocal, Bool.or_eq_true, decide_eq_true_eq]
    exact Or.inl (by omega)

/-- `setFields` turns a message whose containers (and sub-messages, everywhere) hold the mapper's values into
    one that holds them at every scalar position, everywhere — for every draw sequence -/
theorem rp_map_setFields (S : Schema) (o : GenOpts) (E : List Int) (fuel N depth i : Nat) (v : Val)
    (ds : List Draw) :
    Post (setFields S o E fuel depth i v ds) (fun r _ =>
      spPre unkSp (mapLocalPre S o) (mapLocal S o) S N depth i v = true →
      everywhere (mapLocal S o) S N depth i r.2 = true) := by
  intro r rest tr h hv
  rw [rp_everywhere_eq]
  exact rp_sp_setFields (p := fun _ => true) (rp_unk_SpGen o E) rp_unk_SpZero S (rp_map_MpOK S o)
    (rp_map_MpStep S o E) fuel N depth i v ds r rest tr h (InRP.all tr) hv

/-! ### no draw is consumed for a mapped kind -/

/-- every consumed draw is a flag, a count, or the scalar draw of a kind no mapper answers for -/
def TrUnmapped (o : GenOpts) (E : List Int) (tr : List Ev) : Prop := ∀ e ∈ tr, e.unmapped o E

theorem rp_tru_nil (o : GenOpts) (E : List Int) : TrUnmapped o E [] := fun _ h => by cases h

theorem rp_tru_append {o : GenOpts} {E : List Int} {a b : List Ev} (ha : TrUnmapped o E a)
    (hb : TrUnmapped o E b) : TrUnmapped o E (a ++ b) := fun e he => by
  rcases List.mem_append.1 he with h | h
  · exact ha e h
  · exact hb e h

theorem rp_tru_bind {α β} {o : GenOpts} {E : List Int} {r : R α} {f : α → List Draw → R β}
    (h1 : Post r (fun _ tr => TrUnmapped o E tr))
    (h2 : ∀ a rest, Post (f a rest) (fun _ tr => TrUnmapped o E tr)) :
    Post (r.bind f) (fun _ tr => TrUnmapped o E tr) :=
  rp_post_bind h1 (fun a rest _ _ ht => rp_post_mono (h2 a rest) (fun _ _ ht' => rp_tru_append ht ht'))

theorem rp_tru_map {α β} {o : GenOpts} {E : List Int} {r : R α} {g : α → β}
    (h : Post r (fun _ tr => TrUnmapped o E tr)) : Post (r.map g) (fun _ tr => TrUnmapped o E tr) :=
  rp_post_map h

theorem rp_tru_ok {α} (o : GenOpts) (E : List Int) (a : α) (ds : List Draw) :
    Post (R.ok a ds []) (fun _ tr => TrUnmapped o E tr) := rp_post_ok (rp_tru_nil o E)

theorem rp_tru_draw {o : GenOpts} {E : List Int} (g : Gen) (hg : ∀ d, Ev.unmapped o E ⟨g, d⟩) (ds : List Draw) :
    Post (draw g ds) (fun _ tr => TrUnmapped o E tr) :=
  rp_post_mono (rp_post_draw g ds) (fun d tr h e he => by
    rw [h.1] at he
    rw [List.mem_singleton.1 he]
    exact hg d)

theorem rp_tru_flag (o : GenOpts) (E : List Int) (ds : List Draw) :
    Post (draw .flag ds) (fun _ tr => TrUnmapped o E tr) := rp_tru_draw _ (fun _ => Or.inl rfl) ds

theorem rp_tru_count (o : GenOpts) (E : List Int) (m : Nat) (ds : List Draw) :
    Post (draw (.count m) ds) (fun _ tr => TrUnmapped o E tr) :=
  rp_tru_draw _ (fun _ => Or.inr (Or.inl ⟨m, rfl⟩)) ds

theorem rp_tru_genScalar (o : GenOpts) (E : List Int) (k : Kind) (ds : List Draw) :
    Post (genScalar o E k ds) (fun _ tr => TrUnmapped o E tr) := by
  unfold genScalar
  split
  · exact rp_tru_ok o E _ _
  · rename_i hn
    exact rp_tru_map (rp_tru_draw _ (fun _ => Or.inr (Or.inr ⟨k, hn, rfl⟩)) ds)

theorem rp_tru_listScalars (o : GenOpts) (E : List Int) (k : Kind) : ∀ (n : Nat) (es : List Val) (ds : List Draw),
    Post (listScalars o E k n es ds) (fun _ tr => TrUnmapped o E tr)
  | 0, es, ds => rp_tru_ok o E _ _
  | n+1, es, ds => by
    simp only [listScalars]
    exact rp_tru_bind (rp_tru_genScalar o E k ds) (fun v rest => rp_tru_listScalars o E k n _ rest)

/-- the child (`setFields` one level down) consumes no draw for a mapped kind -/
def ChildTru (o : GenOpts) (E : List Int) (child : Nat → Val → List Draw → R (Bool × Val)) : Prop :=
  ∀ mi v ds, Post (child mi v ds) (fun _ tr => TrUnmapped o E tr)

theorem rp_tru_listMsgs (S : Schema) {o : GenOpts} {E : List Int}
    {child : Nat → Val → List Draw → R (Bool × Val)} (hc : ChildTru o E child) (mi : Nat) :
    ∀ (n i : Nat) (es : List Val) (ds : List Draw),
    Post (listMsgs S child mi n i es ds) (fun _ tr => TrUnmapped o E tr)
  | 0, _, es, ds => rp_tru_ok o E _ _
  | n+1, i, es, ds => by
    simp only [listMsgs]
    refine rp_tru_bind (hc mi _ ds) (fun r rest => ?_)
    split
    · exact rp_tru_listMsgs S hc mi n (i+1) _ rest
    · split
      · exact rp_tru_listMsgs S hc mi n (i+1) _ rest
      · exact rp_post_stuck

theorem rp_tru_mapScalars (o : GenOpts) (E : List Int) (kk vk : Kind) :
    ∀ (n : Nat) (es : List Val) (ds : List Draw),
    Post (mapScalars o E kk vk n es ds) (fun _ tr => TrUnmapped o E tr)
  | 0, es, ds => rp_tru_ok o E _ _
  | n+1, es, ds => by
    simp only [mapScalars]
    exact rp_tru_bind (rp_tru_genScalar o E kk ds) (fun k rest =>
      rp_tru_bind (rp_tru_genScalar o E vk rest) (fun v rest' => rp_tru_mapScalars o E kk vk n _ rest'))

theorem rp_tru_mapMsgs (S : Schema) {o : GenOpts} {E : List Int}
    {child : Nat → Val → List Draw → R (Bool × Val)} (hc : ChildTru o E child) (kk : Kind) (mi : Nat) :
    ∀ (n : Nat) (es : List Val) (ds : List Draw),
    Post (mapMsgs S o E child kk mi n es ds) (fun _ tr => TrUnmapped o E tr)
  | 0, es, ds => rp_tru_ok o E _ _
  | n+1, es, ds => by
    simp only [mapMsgs]
    exact rp_tru_bind (rp_tru_genScalar o E kk ds) (fun k rest =>
      rp_tru_bind (hc mi _ rest) (fun r rest' => rp_tru_mapMsgs S hc kk mi n _ rest'))

theorem rp_tru_genField (S : Schema) (o : GenOpts) (E : List Int)
    {child : Nat → Val → List Draw → R (Bool × Val)} (hc : ChildTru o E child)
    (fs : List FieldDesc) (f : FieldDesc) (j : Nat) (slots : List Val) (ds : List Draw) :
    Post (genField S o E child fs f j slots ds) (fun _ tr => TrUnmapped o E tr) := by
  unfold genField
  cases hs : f.shape <;> cases he : f.elem <;> simp only []
  · exact rp_tru_map (rp_tru_genScalar _ _ _ _)
  · exact rp_tru_map (hc _ _ _)
  · exact rp_tru_bind (rp_tru_count _ _ _ _) (fun _ _ => rp_tru_map (rp_tru_listScalars _ _ _ _ _ _))
  · exact rp_tru_bind (rp_tru_count _ _ _ _) (fun _ _ => rp_tru_map (rp_tru_listMsgs S hc _ _ _ _ _))
  · exact rp_tru_map (rp_tru_genScalar _ _ _ _)
  · split <;> exact rp_tru_map (hc _ _ _)
  · exact rp_tru_bind (rp_tru_count _ _ _ _) (fun _ _ => rp_tru_map (rp_tru_mapScalars _ _ _ _ _ _ _))
  · exact rp_tru_bind (rp_tru_count _ _ _ _) (fun _ _ => rp_tru_map (rp_tru_mapMsgs S hc _ _ _ _ _))

theorem rp_tru_genFields (S : Schema) (o : GenOpts) (E : List Int)
    {child : Nat → Val → List Draw → R (Bool × Val)} (hc : ChildTru o E child) (fs : List FieldDesc) :
    ∀ (rem : List FieldDesc) (j : Nat) (slots : List Val) (ds : List Draw),
    Post (genFields S o E child fs j rem slots ds) (fun _ tr => TrUnmapped o E tr)
  | [], _, slots, ds => rp_tru_ok o E _ _
  | f :: rem, j, slots, ds => by
    simp only [genFields]
    refine rp_tru_bind (rp_tru_flag o E ds) (fun g rest => ?_)
    split
    · exact rp_tru_genFields S o E hc fs rem (j+1) slots rest
    · exact rp_tru_bind (rp_tru_genField S o E hc fs f j slots rest)
        (fun slots' rest' => rp_tru_genFields S o E hc fs rem (j+1) slots' rest')

theorem rp_tru_setFields (S : Schema) (o : GenOpts) (E : List Int) : ∀ (fuel depth i : Nat) (v : Val)
    (ds : List Draw), Post (setFields S o E fuel depth i v ds) (fun _ tr => TrUnmapped o E tr)
  | 0, depth, i, v, ds => by
    simp only [setFields]
    split
    · exact rp_tru_ok o E _ _
    · exact rp_post_stuck
  | fuel+1, depth, i, v, ds => by
    simp only [setFields]
    split
    · exact rp_tru_ok o E _ _
    · exact rp_tru_map (rp_tru_genFields S o E
        (fun mi v ds => rp_tru_setFields S o E fuel (depth+1) mi v ds) _ _ _ _ _)

theorem rp_tru_generate (S : Schema) (o : GenOpts) (E : List Int) (i : Nat) (ds : List Draw) :
    Post (generate S o E i ds) (fun _ tr => TrUnmapped o E tr) := by
  unfold generate
  refine rp_tru_bind ?_ (fun _ rest => rp_tru_bind (rp_tru_setFields S o E _ _ _ _ rest) (fun r rest' => ?_))
  · split
    · exact rp_tru_map (rp_tru_flag o E ds)
    · exact rp_tru_ok o E _ _
  · split
    · exact rp_tru_ok o E _ _
    · exact rp_post_stuck

/-- the generators of scalar draws: neither a flag nor a count -/
theorem rp_scalarGen_ne (E : List Int) (k : Kind) : scalarGen E k ≠ .flag ∧ ∀ m, scalarGen E k ≠ .count m := by
  cases k <;> simp [scalarGen]

end Pulsar.Rapidproto
