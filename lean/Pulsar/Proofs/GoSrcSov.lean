/-
  Pulsar.Proofs.GoSrcSov — runtime.Sov
  (functions translated from the Go source on every run, `Pulsar/ExtractedFns.lean`, related to the hand-written
  models the property theorems are about; see Pulsar/Proofs/GoSrcBase.lean).
-/
import Pulsar.ExtractedFns
import Pulsar.Proofs.GoSrcBase
import Pulsar.Proofs.Runtime
namespace Pulsar
open Pulsar Pulsar.Timepb

/-! ### runtime.Sov / Soz -/

theorem bitLen_or_one_le (x : Nat) (hx : x < 18446744073709551616) : bitLen (x ||| 1) ≤ 64 := by
  apply bitLen_le_of_lt_two_pow 64
  exact Nat.or_lt_two_pow (by simpa using hx) (by decide)

/-- by exhaustion over the 65 possible bit lengths: whatever arithmetic the source uses to turn `bits.Len64(x|1)`
    into a byte count is evaluated for each of them (robust against rewrites of the formula) -/
theorem src_Sov (x : Nat) (hx : x < 18446744073709551616) : Xf.runtime_Sov x = .ok (sov x : Int) := by
  have hb := bitLen_or_one_le x hx
  have hb1 : 1 ≤ bitLen (x ||| 1) := by
    have hne : x ||| 1 ≠ 0 := by
      intro h0
      have : (x ||| 1) % 2 = 1 := Nat.or_mod_two_eq_one.mpr (Or.inr rfl)
      omega
    rw [bitLen_pos hne]; omega
  unfold Xf.runtime_Sov sov Go.bitsLen64
  generalize bitLen (x ||| 1) = n at hb hb1 ⊢
  revert n
  decide

end Pulsar
