/-
  Pulsar.Proofs.GoSrcSov — runtime.Sov / runtime.Soz
  (functions translated from the Go source on every run, `Pulsar/ExtractedFns.lean`, related to the hand-written
  models the property theorems are about; see Pulsar/Proofs/GoSrcBase.lean).
-/
import Pulsar.ExtractedFns
import Pulsar.Proofs.GoSrcBase
import Pulsar.Proofs.Runtime
namespace Pulsar
open Pulsar Pulsar.Timepb

/-! ### runtime.Sov / Soz -/

theorem bitLen_or_one_le (x : Nat) (hx : x < 18446744073709551616) : bitLen (x ||| 1) ≤ 64 := by
  apply bitLen_le_of_lt_two_pow 64
  exact Nat.or_lt_two_pow (by simpa using hx) (by decide)

theorem src_Sov (x : Nat) (hx : x < 18446744073709551616) : Xf.runtime_Sov x = .ok (sov x : Int) := by
  have hb := bitLen_or_one_le x hx
  unfold Xf.runtime_Sov sov Go.bitsLen64
  generalize bitLen (x ||| 1) = n at hb ⊢
  have e1 : wrap64 ((n : Int) + 6) = (n : Int) + 6 := wrap64_id (by omega) (by omega)
  have e2 : Int.tdiv ((n : Int) + 6) 7 = ((n : Int) + 6) / 7 := Int.tdiv_eq_ediv_of_nonneg (by omega)
  have e3 : wrap64 (((n : Int) + 6) / 7) = ((n : Int) + 6) / 7 := wrap64_id (by omega) (by omega)
  rw [e1, e2, e3]
  simp only [Res.pure_eq]
  congr 1

theorem src_Soz (x : Nat) (hx : x < 18446744073709551616) : Xf.runtime_Soz x = .ok (soz x : Int) := by
  unfold Xf.runtime_Soz soz
  have e : Int.toNat (((wrap64 (x : Int)) / (9223372036854775808 : Int)) % 18446744073709551616)
      = (if x < 9223372036854775808 then 0 else 18446744073709551615) := by
    simp only [wrap64]
    split <;> split <;> omega
  rw [e, src_Sov _ (by
    apply Nat.xor_lt_two_pow (n := 64)
    · exact Nat.mod_lt _ (by decide)
    · split <;> decide)]
  rfl

end Pulsar
