/-
  Pulsar.Proofs.GoSrcSov — runtime.Sov
  (functions translated from the Go source on every run, `Pulsar/ExtractedFns.lean`, related to the hand-written
  models the property theorems are about; see Pulsar/Proofs/GoSrcBase.lean).
-/
import Pulsar.ExtractedFns
import Pulsar.Proofs.GoSrcBase
import Pulsar.Proofs.Runtime
namespace Pulsar
open Pulsar Pulsar.Timepb

/-! ### runtime.Sov / Soz -/

theorem bitLen_or_one_le (x : Nat) (hx : x < 18446744073709551616) : bitLen (x ||| 1) ≤ 64 := by
  apply bitLen_le_of_lt_two_pow 64
  exact Nat.or_lt_two_pow (by simpa using hx) (by decide)

/-- by exhaustion over the possible bit lengths: whatever arithmetic the source uses to turn `bits.Len64(x|1)` (or
    `bits.Len64(x)`) into a byte count is evaluated for each of them (robust against rewrites of the formula) -/
theorem src_Sov (x : Nat) (hx : x < 18446744073709551616) : Xf.runtime_Sov x = .ok (sov x : Int) := by
  by_cases hx0 : x = 0
  · subst hx0
    have h0 : bitLen 0 = 0 := bitLen_zero
    have h1 : bitLen (0 ||| 1) = 1 := by
      rw [show (0 ||| 1 : Nat) = 1 from rfl, bitLen_pos (by decide), show (1 / 2 : Nat) = 0 from rfl, bitLen_zero]
    unfold Xf.runtime_Sov sov Go.bitsLen64
    simp only [h0, h1]
    decide
  · have hb : bitLen x ≤ 64 := bitLen_le_of_lt_two_pow 64 x (by simpa using hx)
    have hb1 : 1 ≤ bitLen x := by rw [bitLen_pos hx0]; omega
    have hor : bitLen (x ||| 1) = bitLen x := bitLen_or_one_of_ne_zero hx0
    unfold Xf.runtime_Sov sov Go.bitsLen64
    simp only [hor]
    generalize bitLen x = n at hb hb1 ⊢
    revert n
    decide

end Pulsar
