/-
  Pulsar.Proofs.RapidModel — reasoning principles for the draw-level model of rapidproto
  (Pulsar/Rapidproto.lean): postconditions of replays (`Post`), benign outcomes (`Fine`), their rules for
  `bind` / `map` / `draw`, and totality of every layer of the model (for `C18_draws_total`).
-/
import Pulsar.Rapidproto
import Pulsar.Proofs.ReflectMsg
namespace Pulsar.Rapidproto
open Pulsar

/-! ### `Val.beq` is equality -/

mutual
theorem rp_val_beq_refl : ∀ a : Val, Val.beq a a = true
  | .bits n => by simp [Val.beq]
  | .blob f a => by simp [Val.beq]
  | .none => by simp [Val.beq]
  | .msg s u => by simp [Val.beq, rp_val_beqList_refl s]
  | .list f a => by simp [Val.beq, rp_val_beqList_refl a]
  | .map f a => by simp [Val.beq, rp_val_beqList_refl a]
  | .entry k v => by simp [Val.beq, rp_val_beq_refl k, rp_val_beq_refl v]
  | .one a => by simp [Val.beq, rp_val_beq_refl a]
  | .oneNil => by simp [Val.beq]
theorem rp_val_beqList_refl : ∀ l : List Val, Val.beqList l l = true
  | [] => by simp [Val.beqList]
  | a :: as => by simp [Val.beqList, rp_val_beq_refl a, rp_val_beqList_refl as]
end

mutual
theorem rp_val_eq_of_beq : ∀ a b : Val, Val.beq a b = true → a = b
  | .bits n, b => by cases b <;> simp [Val.beq]
  | .blob f a, b => by cases b <;> simp [Val.beq]
  | .none, b => by cases b <;> simp [Val.beq]
  | .msg s u, b => by
    cases b <;> simp [Val.beq]
    intro h1 h2; exact ⟨rp_val_eq_of_beqList s _ h1, h2⟩
  | .list f a, b => by
    cases b <;> simp [Val.beq]
    intro h1 h2; exact ⟨h1, rp_val_eq_of_beqList a _ h2⟩
  | .map f a, b => by
    cases b <;> simp [Val.beq]
    intro h1 h2; exact ⟨h1, rp_val_eq_of_beqList a _ h2⟩
  | .entry k v, b => by
    cases b <;> simp [Val.beq]
    intro h1 h2; exact ⟨rp_val_eq_of_beq k _ h1, rp_val_eq_of_beq v _ h2⟩
  | .one a, b => by
    cases b <;> simp [Val.beq]
    intro h1; exact rp_val_eq_of_beq a _ h1
  | .oneNil, b => by cases b <;> simp [Val.beq]
theorem rp_val_eq_of_beqList : ∀ l m : List Val, Val.beqList l m = true → l = m
  | [], m => by cases m <;> simp [Val.beqList]
  | a :: as, m => by
    cases m <;> simp [Val.beqList]
    intro h1 h2; exact ⟨rp_val_eq_of_beq a _ h1, rp_val_eq_of_beqList as _ h2⟩
end

theorem rp_val_beq_iff (a b : Val) : Val.beq a b = true ↔ a = b :=
  ⟨rp_val_eq_of_beq a b, fun h => h ▸ rp_val_beq_refl a⟩

/-- `mapVal` read as a proposition: the scalar IS the mapper's value -/
theorem rp_mapVal_iff (o : GenOpts) (k : Kind) (v : Val) :
    mapVal o k v = true ↔ ∀ w, o.mapper k = some w → v = w := by
  unfold mapVal
  cases h : o.mapper k with
  | none => simp
  | some w => simp [rp_val_beq_iff]

/-! ### `genScalar` with and without a mapper -/

/-- a mapped kind: the mapper's value, the draws untouched, nothing consumed -/
theorem rp_genScalar_mapped {o : GenOpts} {k : Kind} {w : Val} (h : o.mapper k = some w) (E : List Int)
    (ds : List Draw) : genScalar o E k ds = .ok w ds [] := by
  simp [genScalar, h]

/-- no mapper answers: the draw of the kind's generator -/
theorem rp_genScalar_unmapped {o : GenOpts} {k : Kind} (h : o.mapper k = none) (E : List Int)
    (ds : List Draw) : genScalar o E k ds = (draw (scalarGen E k) ds).map (scalarVal E k) := by
  simp [genScalar, h]

/-- no `FieldMaps` and the options with no `FieldMaps` satisfy `MapperOK` -/
theorem rp_mapperOK_none (E : List Int) (o : GenOpts) (h : o.mapper = fun _ => none) : MapperOK E o :=
  ⟨fun k w hk => by simp [h] at hk, fun w hk => by simp [h] at hk, fun w hk => by simp [h] at hk⟩

theorem rp_mapperTyped_none (o : GenOpts) (h : o.mapper = fun _ => none) : MapperTyped o :=
  fun k w hk => by simp [h] at hk

/-! ### postconditions -/

/-- every successful outcome satisfies `Q result trace` -/
def Post {α} (r : R α) (Q : α → List Ev → Prop) : Prop :=
  ∀ a rest tr, r = .ok a rest tr → Q a tr

theorem rp_post_bind {α β} {r : R α} {f : α → List Draw → R β} {Q1 : α → List Ev → Prop}
    {Q : β → List Ev → Prop} (h1 : Post r Q1)
    (h2 : ∀ a rest tr, r = .ok a rest tr → Q1 a tr → Post (f a rest) (fun b tr' => Q b (tr ++ tr'))) :
    Post (r.bind f) Q := by
  intro b rest' tr'' h
  cases r with
  | stuck p w => simp [R.bind] at h
  | ok a rest tr =>
    simp only [R.bind] at h
    cases hf : f a rest with
    | stuck p w => simp [hf] at h
    | ok b' rest2 tr' =>
      rw [hf] at h
      simp only [R.ok.injEq] at h
      obtain ⟨rfl, rfl, rfl⟩ := h
      exact h2 a rest tr rfl (h1 a rest tr rfl) b' rest2 tr' hf

theorem rp_post_map {α β} {r : R α} {g : α → β} {Q : β → List Ev → Prop}
    (h : Post r (fun a tr => Q (g a) tr)) : Post (r.map g) Q := by
  intro b rest tr hb
  cases r with
  | stuck p w => simp [R.map] at hb
  | ok a rest' tr' =>
    simp only [R.map, R.ok.injEq] at hb
    obtain ⟨rfl, rfl, rfl⟩ := hb
    exact h a rest' tr' rfl

theorem rp_post_ok {α} {a : α} {ds : List Draw} {Q : α → List Ev → Prop} (h : Q a []) :
    Post (R.ok a ds []) Q := by
  intro a' rest tr e
  simp only [R.ok.injEq] at e
  obtain ⟨rfl, rfl, rfl⟩ := e
  exact h

theorem rp_post_stuck {α} {p : Nat} {w : Why} {Q : α → List Ev → Prop} : Post (R.stuck p w : R α) Q := by
  intro a rest tr e; cases e

theorem rp_post_mono {α} {r : R α} {Q Q' : α → List Ev → Prop} (h : Post r Q) (hq : ∀ a tr, Q a tr → Q' a tr) :
    Post r Q' := fun a rest tr e => hq a tr (h a rest tr e)

theorem rp_post_and {α} {r : R α} {Q Q' : α → List Ev → Prop} (h : Post r Q) (h' : Post r Q') :
    Post r (fun a tr => Q a tr ∧ Q' a tr) := fun a rest tr e => ⟨h a rest tr e, h' a rest tr e⟩

/-- `draw g`: the trace is the one event -/
theorem rp_post_draw (g : Gen) (ds : List Draw) :
    Post (draw g ds) (fun d tr => tr = [⟨g, d⟩] ∧ g.accepts d = true) := by
  intro d rest tr h
  cases ds with
  | nil => simp [draw] at h
  | cons d' ds =>
    simp only [draw] at h
    split at h
    · simp only [R.ok.injEq] at h
      obtain ⟨rfl, rfl, rfl⟩ := h
      exact ⟨rfl, by assumption⟩
    · cases h

/-- every consumed draw satisfies `p` (the generic lemmas are stated for an arbitrary `p`; `fun _ => true`
    gives statements about ALL draw sequences) -/
def InRP (p : Ev → Bool) (tr : List Ev) : Prop := ∀ e ∈ tr, p e = true

theorem InRP.left {p : Ev → Bool} {a b : List Ev} (h : InRP p (a ++ b)) : InRP p a :=
  fun e he => h e (List.mem_append_left _ he)
theorem InRP.right {p : Ev → Bool} {a b : List Ev} (h : InRP p (a ++ b)) : InRP p b :=
  fun e he => h e (List.mem_append_right _ he)
theorem InRP.nil {p : Ev → Bool} : InRP p [] := fun _ h => by cases h
theorem InRP.all (tr : List Ev) : InRP (fun _ => true) tr := fun _ _ => rfl

/-- all consumed draws are in the range of their generators -/
abbrev InR (tr : List Ev) : Prop := InRP Ev.inRange tr

theorem InR.left {a b : List Ev} (h : InR (a ++ b)) : InR a := InRP.left h
theorem InR.right {a b : List Ev} (h : InR (a ++ b)) : InR b := InRP.right h
theorem InR.nil : InR [] := InRP.nil

/-! ### totality: only benign `stuck`s, draws consumed left to right -/

def Benign (w : Why) : Prop := w = .wrongType ∨ w = .missing

/-- the outcome on `ds` is either a success that consumed a prefix of `ds` — the trace, in order — or a
    `stuck` for a missing / wrongly typed draw at a position inside `ds` -/
def Fine {α} (r : R α) (ds : List Draw) : Prop :=
  match r with
  | .ok _ rest tr => ds = tr.map Ev.draw ++ rest
  | .stuck p w => Benign w ∧ p ≤ ds.length

theorem rp_fine_bind {α β} {r : R α} {f : α → List Draw → R β} {ds : List Draw} (h1 : Fine r ds)
    (h2 : ∀ a rest tr, r = .ok a rest tr → Fine (f a rest) rest) : Fine (r.bind f) ds := by
  cases r with
  | stuck p w => exact h1
  | ok a rest tr =>
    have := h2 a rest tr rfl
    simp only [R.bind]
    simp only [Fine] at h1
    cases hf : f a rest with
    | stuck p w =>
      rw [hf] at this
      simp only [Fine] at this ⊢
      refine ⟨this.1, ?_⟩
      rw [h1]; simp; omega
    | ok b rest' tr' =>
      rw [hf] at this
      simp only [Fine] at this ⊢
      rw [h1, this]; simp

theorem rp_fine_map {α β} {r : R α} {g : α → β} {ds : List Draw} (h : Fine r ds) : Fine (r.map g) ds := by
  cases r <;> exact h

theorem rp_fine_ok {α} (a : α) (ds : List Draw) : Fine (R.ok a ds []) ds := by simp [Fine]

theorem rp_fine_draw (g : Gen) (ds : List Draw) : Fine (draw g ds) ds := by
  cases ds with
  | nil => simp [draw, Fine, Benign]
  | cons d ds =>
    simp only [draw]
    split
    · simp [Fine]
    · simp [Fine, Benign]

theorem rp_fine_genScalar (o : GenOpts) (E : List Int) (k : Kind) (ds : List Draw) :
    Fine (genScalar o E k ds) ds := by
  unfold genScalar
  split
  · exact rp_fine_ok _ _
  · exact rp_fine_map (rp_fine_draw _ _)

theorem rp_fine_listScalars (o : GenOpts) (E : List Int) (k : Kind) : ∀ (n : Nat) (es : List Val) (ds : List Draw),
    Fine (listScalars o E k n es ds) ds
  | 0, es, ds => rp_fine_ok _ _
  | n+1, es, ds => by
    simp only [listScalars]
    exact rp_fine_bind (rp_fine_genScalar _ _ _ _) (fun v rest _ _ => rp_fine_listScalars o E k n _ rest)

/-- the child (`setFields` one level down) is total -/
def ChildFine (child : Nat → Val → List Draw → R (Bool × Val)) : Prop :=
  ∀ mi v ds, Fine (child mi v ds) ds

/-- `Truncate(i)` is always in range: the list is never shorter than the loop index when it is called,
    because iteration `i` starts with at least `i - 1` elements (`i ≤ es.length + 1`). -/
theorem rp_fine_listMsgs (S : Schema) {child : Nat → Val → List Draw → R (Bool × Val)} (hc : ChildFine child)
    (mi : Nat) : ∀ (n i : Nat) (es : List Val) (ds : List Draw), i ≤ es.length + 1 →
    Fine (listMsgs S child mi n i es ds) ds
  | 0, _, es, ds, _ => rp_fine_ok _ _
  | n+1, i, es, ds, hi => by
    simp only [listMsgs]
    refine rp_fine_bind (hc _ _ _) (fun r rest _ _ => ?_)
    have hlen : i ≤ (es ++ [r.2]).length := by simp; omega
    split
    · exact rp_fine_listMsgs S hc mi n (i+1) _ rest (by simp; omega)
    · first
        | exact rp_fine_listMsgs S hc mi n (i+1) _ rest (by simp [List.length_take]; omega)
        | (rw [if_pos hlen]
           exact rp_fine_listMsgs S hc mi n (i+1) _ rest (by simp [List.length_take]; omega))

theorem rp_fine_mapScalars (o : GenOpts) (E : List Int) (kk vk : Kind) : ∀ (n : Nat) (es : List Val) (ds : List Draw),
    Fine (mapScalars o E kk vk n es ds) ds
  | 0, es, ds => rp_fine_ok _ _
  | n+1, es, ds => by
    simp only [mapScalars]
    exact rp_fine_bind (rp_fine_genScalar _ _ _ _) (fun k rest _ _ =>
      rp_fine_bind (rp_fine_genScalar _ _ _ _) (fun v rest' _ _ => rp_fine_mapScalars o E kk vk n _ rest'))

theorem rp_fine_mapMsgs (S : Schema) (o : GenOpts) (E : List Int) {child : Nat → Val → List Draw → R (Bool × Val)}
    (hc : ChildFine child) (kk : Kind) (mi : Nat) : ∀ (n : Nat) (es : List Val) (ds : List Draw),
    Fine (mapMsgs S o E child kk mi n es ds) ds
  | 0, es, ds => rp_fine_ok _ _
  | n+1, es, ds => by
    simp only [mapMsgs]
    exact rp_fine_bind (rp_fine_genScalar _ _ _ _) (fun k rest _ _ =>
      rp_fine_bind (hc _ _ _) (fun r rest' _ _ => rp_fine_mapMsgs S o E hc kk mi n _ rest'))

theorem rp_fine_genField (S : Schema) (o : GenOpts) (E : List Int)
    {child : Nat → Val → List Draw → R (Bool × Val)} (hc : ChildFine child)
    (fs : List FieldDesc) (f : FieldDesc) (j : Nat) (slots : List Val) (ds : List Draw) :
    Fine (genField S o E child fs f j slots ds) ds := by
  unfold genField
  cases hs : f.shape <;> cases he : f.elem <;> simp only []
  · exact rp_fine_map (rp_fine_genScalar _ _ _ _)
  · exact rp_fine_map (hc _ _ _)
  · exact rp_fine_bind (rp_fine_draw _ _) (fun _ _ _ _ => rp_fine_map (rp_fine_listScalars _ _ _ _ _ _))
  · exact rp_fine_bind (rp_fine_draw _ _) (fun _ _ _ _ =>
      rp_fine_map (rp_fine_listMsgs S hc _ _ 0 _ _ (by omega)))
  · exact rp_fine_map (rp_fine_genScalar _ _ _ _)
  · split <;> exact rp_fine_map (hc _ _ _)
  · exact rp_fine_bind (rp_fine_draw _ _) (fun _ _ _ _ => rp_fine_map (rp_fine_mapScalars _ _ _ _ _ _ _))
  · exact rp_fine_bind (rp_fine_draw _ _) (fun _ _ _ _ => rp_fine_map (rp_fine_mapMsgs S o E hc _ _ _ _ _))

theorem rp_fine_genFields (S : Schema) (o : GenOpts) (E : List Int)
    {child : Nat → Val → List Draw → R (Bool × Val)} (hc : ChildFine child) (fs : List FieldDesc) :
    ∀ (rem : List FieldDesc) (j : Nat) (slots : List Val) (ds : List Draw),
    Fine (genFields S o E child fs j rem slots ds) ds
  | [], _, slots, ds => rp_fine_ok _ _
  | f :: rem, j, slots, ds => by
    simp only [genFields]
    refine rp_fine_bind (rp_fine_draw _ _) (fun g rest _ _ => ?_)
    split
    · exact rp_fine_genFields S o E hc fs rem (j+1) slots rest
    · exact rp_fine_bind (rp_fine_genField S o E hc fs f j slots rest)
        (fun slots' rest' _ _ => rp_fine_genFields S o E hc fs rem (j+1) slots' rest')

/-- with enough fuel `setFields` is total at every depth -/
theorem rp_fine_setFields (S : Schema) (o : GenOpts) (E : List Int) : ∀ (fuel depth i : Nat) (v : Val)
    (ds : List Draw), Extracted.depthLimit + 1 ≤ fuel + depth → Fine (setFields S o E fuel depth i v ds) ds
  | 0, depth, i, v, ds, h => by
    simp only [setFields]
    rw [if_pos (by omega)]
    exact rp_fine_ok _ _
  | fuel+1, depth, i, v, ds, h => by
    simp only [setFields]
    split
    · exact rp_fine_ok _ _
    · exact rp_fine_map (rp_fine_genFields S o E
        (fun mi v ds => rp_fine_setFields S o E fuel (depth+1) mi v ds (by omega)) _ _ _ _ _)

end Pulsar.Rapidproto
