/-
  Pulsar.Proofs.RtExample — the example value of EncodeExample satisfies the extra hypotheses of C01
  (valid UTF-8, storable unknown records), and its reference encoding, computed.
-/
import Pulsar.Proofs.RtWire
import Pulsar.Proofs.EncodeExample
namespace Pulsar.Example
open Pulsar

theorem inner_enc (a : Nat) : specEncode exS 1 1 (exInner a) = (if a = 0 then [] else 8 :: varint a) ++ [
 18, 16, 8, 255, 255, 255, 255, 255, 255, 255, 255, 255, 1, 21, 7, 0, 0, 0, 18, 7, 8, 3, 21, 9,
 0, 0, 0, 24, 1] := by
  simp [specEncode, specEncodeLvl, specField, specEntry, specElem, specScalar, specTag, specPresent,
    sortFV, insertFV, legacyLt, sortEntries, sortBy, insertBy, keyLt, toInt32, wrap32,
    exS, exInner, Schema.msg, Val.slots, Val.unknown, Val.elems, Val.getBlob, Val.getBits, Val.key,
    Val.value, Val.isNone, FieldDesc.group?, Kind.specWireType, Kind.isBlob, Kind.toVarint, tag,
    zigzag64, sext32, fixed32, fixed64, le, varint_lt_128, varint_ge_128]

set_option maxRecDepth 8000 in
theorem exV_enc : specEncode exS 2 0 exV = 
[8, 250, 255, 255, 255, 255, 255, 255, 255, 255, 1, 18, 2, 104, 105, 26, 2, 6, 1, 34, 37, 10, 1, 97, 18, 32, 8, 172, 2,
 18, 16, 8, 255, 255, 255, 255, 255, 255, 255, 255, 255, 1, 21, 7, 0, 0, 0, 18, 7, 8, 3, 21, 9, 0, 0, 0, 24, 1, 34, 36,
 10, 1, 98, 18, 31, 8, 1, 18, 16, 8, 255, 255, 255, 255, 255, 255, 255, 255, 255, 1, 21, 7, 0, 0, 0, 18, 7, 8, 3, 21, 9,
 0, 0, 0, 24, 1, 41, 0, 0, 0, 0, 0, 0, 0, 128, 58, 31, 8, 5, 18, 16, 8, 255, 255, 255, 255, 255, 255, 255, 255, 255, 1,
 21, 7, 0, 0, 0, 18, 7, 8, 3, 21, 9, 0, 0, 0, 24, 1, 66, 1, 1, 66, 0, 50, 29, 18, 16, 8, 255, 255, 255, 255, 255, 255,
 255, 255, 255, 1, 21, 7, 0, 0, 0, 18, 7, 8, 3, 21, 9, 0, 0, 0, 24, 1, 152, 6, 1] := by
  have hm0 : exS.msg 0 = ⟨[ ⟨1, .scalar .int32, .singular⟩,
     ⟨2, .scalar .string, .singular⟩,
     ⟨3, .scalar .sint64, .repeated true⟩,
     ⟨4, .message 1, .map .string⟩,
     ⟨9, .scalar .bool, .oneof 0⟩,
     ⟨6, .message 1, .oneof 0⟩,
     ⟨7, .message 1, .singular⟩,
     ⟨8, .scalar .bytes, .repeated false⟩,
     ⟨5, .scalar .double, .singular⟩ ]⟩ := rfl
  have hin : ∀ a, (exInner a).isNone = false := fun _ => rfl
  simp only [Val.isNone] at hin
  rw [specEncode]
  simp [hm0, hin, inner_enc, specEncodeLvl, specField, specEntry, specElem, specScalar, specTag, specPresent,
    sortFV, insertFV, legacyLt, sortEntries, sortBy, insertBy, keyLt, bytesLt, 
    exV, Val.slots, Val.unknown, Val.elems, Val.getBlob, Val.getBits, Val.key,
    Val.value, Val.isNone, FieldDesc.group?, Kind.specWireType, Kind.isBlob, Kind.toVarint, tag,
    zigzag64, sext32, fixed32, fixed64, le, varint_lt_128, varint_ge_128]

set_option maxRecDepth 8000 in
theorem exV_enc_length : (specEncode exS 2 0 exV).length < 18446744073709551616 := by
  rw [exV_enc]; decide

theorem exV_utf8 : utf8OK exS 2 0 exV = true := by
  simp [utf8OK, utf8Slot, utf8Elem, exS, exV, exInner, Schema.msg, Val.slots, Val.elems, Val.getBlob, Val.key,
    Val.value, Val.isNone, utf8Valid]

theorem exV_unknown : unknownOK exS 2 0 exV = true := by
  simp [unknownOK, unknownSlot, unknownElem, unknownRecordsOK, exS, exV, exInner, Schema.msg, Val.slots,
    Val.unknown, Val.elems, Val.value, Val.isNone, consumeTag, consumeField, consumeValue, consumeVarint,
    consumeVarintAux]

end Pulsar.Example
