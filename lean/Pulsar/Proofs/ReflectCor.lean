/-
  Helper lemmas for the corollaries of C08 and for C09 (IMPL machine only).
-/
import Pulsar.Proofs.Reflect
namespace Pulsar

/-! ### `Range` visits exactly the populated fields, each once -/

theorem mem_idxFilter (p : FieldDesc → Val → Bool) : ∀ (fs : List FieldDesc) (vs : List Val) (k x : Nat),
    x ∈ idxFilter p k fs vs ↔
      ∃ j f, x = k + j ∧ fs[j]? = some f ∧ j < vs.length ∧ p f (vs.getD j .none) = true
  | [], _, _, _ => by simp [idxFilter]
  | _ :: _, [], _, _ => by simp [idxFilter]
  | f :: fs, v :: vs, k, x => by
    simp only [idxFilter, List.mem_append, mem_idxFilter p fs vs (k+1) x]
    constructor
    · rintro (h | ⟨j, f', hx, hf, hj, hp⟩)
      · split at h
        · simp only [List.mem_singleton] at h
          exact ⟨0, f, by omega, rfl, by simp, by simpa⟩
        · cases h
      · exact ⟨j+1, f', by omega, by simpa using hf, by simpa using hj, by simpa using hp⟩
    · rintro ⟨j, f', hx, hf, hj, hp⟩
      cases j with
      | zero =>
        left
        simp only [List.getElem?_cons_zero, Option.some.injEq] at hf
        subst hf
        simp only [List.getD_cons_zero] at hp
        simp [hp, hx]
      | succ j =>
        right
        exact ⟨j, f', by omega, by simpa using hf, by simpa using hj, by simpa using hp⟩

theorem idxFilter_lb (p : FieldDesc → Val → Bool) (fs : List FieldDesc) (vs : List Val) (k x : Nat)
    (h : x ∈ idxFilter p k fs vs) : k ≤ x := by
  obtain ⟨j, _, hx, _⟩ := (mem_idxFilter p fs vs k x).1 h
  omega

theorem idxFilter_sorted (p : FieldDesc → Val → Bool) : ∀ (fs : List FieldDesc) (vs : List Val) (k : Nat),
    (idxFilter p k fs vs).Pairwise (· < ·)
  | [], _, _ => by simp [idxFilter]
  | _ :: _, [], _ => by simp [idxFilter]
  | f :: fs, v :: vs, k => by
    simp only [idxFilter]
    split
    · simp only [List.singleton_append, List.pairwise_cons]
      refine ⟨fun x hx => ?_, idxFilter_sorted p fs vs (k+1)⟩
      have := idxFilter_lb p fs vs (k+1) x hx
      omega
    · simpa using idxFilter_sorted p fs vs (k+1)

/-! ### list helpers -/

theorem getD_set_self {α} (d : α) : ∀ (l : List α) (j : Nat) (v : α), j < l.length → (l.set j v).getD j d = v
  | [], _, _, h => by simp at h
  | _ :: _, 0, _, _ => by simp
  | a :: as, j+1, v, h => by
    simp only [List.length_cons, Nat.add_lt_add_iff_right] at h
    simpa using getD_set_self d as j v h

theorem getD_set_ne {α} (d : α) : ∀ (l : List α) (j j' : Nat) (v : α), j ≠ j' → (l.set j v).getD j' d = l.getD j' d
  | [], _, _, _, _ => by simp
  | _ :: _, 0, 0, _, h => absurd rfl h
  | _ :: _, 0, _+1, _, _ => by simp
  | _ :: _, _+1, 0, _, _ => by simp
  | a :: as, j+1, j'+1, v, h => by
    simpa using getD_set_ne d as j j' v (by omega)

theorem set_getD_self {α} (d : α) : ∀ (l : List α) (j : Nat), l.set j (l.getD j d) = l
  | [], _ => by simp
  | _ :: _, 0 => by simp
  | a :: as, j+1 => by simpa using set_getD_self d as j

theorem getD_clearGroup (fs : List FieldDesc) (g : Nat) (slots : List Val) (j : Nat) (f : FieldDesc)
    (hf : fs[j]? = some f) (hl : slots.length = fs.length) :
    (clearGroup fs g slots).getD j .none
      = if f.group? == some g then Val.none else slots.getD j .none := by
  rw [clearGroup_eq]
  exact getD_map_zip (fun p : FieldDesc × Val => if p.1.group? == some g then Val.none else p.2) Val.none Val.none
    fs slots j f hf (hl ▸ lt_of_getElem?_some hf)

/-! ### map helpers -/

theorem findEntry_mapPut (kk : Kind) : ∀ (es : List Val) (k k' x : Val), kbeqOf kk k' k = true →
    findEntry kk (mapPut (kbeqOf kk) es k' x) k = some (.entry k' x)
  | es, k, k', x, hk => by
    have hcongr : ∀ en : Val, kbeqOf kk en.key k' = kbeqOf kk en.key k := fun en =>
      kbeqOf_congr_right kk k' k en.key hk
    unfold mapPut findEntry
    split
    · rename_i hany
      induction es with
      | nil => simp at hany
      | cons e es ih =>
        simp only [List.map_cons, List.find?_cons]
        by_cases he : kbeqOf kk e.key k' = true
        · simp only [he, if_true, Val.key_entry, hk]
        · have he' : kbeqOf kk e.key k' = false := by simpa using he
          simp only [he', Bool.false_eq_true, if_false]
          rw [← hcongr e, he']
          simp only [List.any_cons, he', Bool.false_or] at hany
          exact ih hany
    · rename_i hany
      rw [List.find?_append]
      have : es.find? (fun en => kbeqOf kk en.key k) = none := by
        rw [List.find?_eq_none]
        intro e he hek
        apply hany
        exact List.any_eq_true.2 ⟨e, he, by rw [hcongr]; exact hek⟩
      simp [this, hk]

theorem any_mapPut (kk : Kind) (es : List Val) (k k' x : Val) (hk : kbeqOf kk k' k = true) :
    (mapPut (kbeqOf kk) es k' x).any (fun en => kbeqOf kk en.key k) = true := by
  have := findEntry_mapPut kk es k k' x hk
  unfold findEntry at this
  exact List.any_eq_true.2 ⟨_, List.mem_of_find?_eq_some this, by simpa using hk⟩

/-! ### the codec on the nil receiver and on the empty message (C09) -/

theorem implSize_none (S : Schema) (o : MOpts) (fuel i : Nat) : implSize S o fuel i .none = 0 := by
  cases fuel <;> rfl

theorem implMarshal_none (S : Schema) (o : MOpts) (fuel i : Nat) : implMarshal S o fuel i .none = .ok [] := by
  cases fuel <;> simp [implMarshal, implMarshalClosure, walkPanics, Val.isNone, nilRangePanics]

theorem implFieldSize_zero (o : MOpts) (hd : o.det = true) (c : Nat → Val → Nat) (f : FieldDesc) :
    implFieldSize o c f f.zero = 0 := by
  unfold implFieldSize FieldDesc.zero
  cases f.shape <;> cases f.elem <;> simp [Val.isNone, Val.elems, hd, sortEntries, sortBy]
  all_goals (rename_i k; cases k <;> simp [Kind.isBlob, implPresent, Val.getBits, Val.getBlob])

theorem sum_map_zip_zero (g : FieldDesc → Val → Nat) (hg : ∀ f, g f f.zero = 0) : ∀ fs : List FieldDesc,
    ((fs.zip (fs.map FieldDesc.zero)).map (fun p => g p.1 p.2)).sum = 0
  | [] => rfl
  | f :: fs => by simp [hg, sum_map_zip_zero g hg fs]

theorem implSize_emptyMsg (S : Schema) (o : MOpts) (hd : o.det = true) (fuel i : Nat) :
    implSize S o (fuel+1) i (emptyMsg S i) = 0 := by
  simp only [implSize, emptyMsg, Val.isNone, Bool.false_eq_true, if_false, implSizeLvl, Val.slots_msg,
    Val.unknown_msg, List.length_nil, Nat.add_zero]
  exact sum_map_zip_zero (fun f v => implFieldSize o (implSize S o fuel) f v) (implFieldSize_zero o hd _) _

theorem implFieldBytes_zero (o : MOpts) (hd : o.det = true) (c : Nat → Val → Res Bytes) (f : FieldDesc) :
    implFieldBytes o c f f.zero = .ok [] := by
  unfold implFieldBytes FieldDesc.zero
  cases f.shape <;> cases f.elem <;> simp [Val.isNone, Val.elems, hd, sortEntries, sortBy, concatRes]
  all_goals (rename_i k; cases k <;> simp [Kind.isBlob, implPresent, Val.getBits, Val.getBlob])

theorem mem_insertDesc (x y : FieldDesc × Val) : ∀ l, y ∈ insertDesc x l → y = x ∨ y ∈ l
  | [], h => by simp [insertDesc] at h; exact Or.inl h
  | z :: zs, h => by
    unfold insertDesc at h
    split at h
    · simpa using h
    · simp only [List.mem_cons] at h ⊢
      rcases h with h | h
      · exact Or.inr (Or.inl h)
      · rcases mem_insertDesc x y zs h with h | h
        · exact Or.inl h
        · exact Or.inr (Or.inr h)

theorem mem_sortDesc (y : FieldDesc × Val) : ∀ l, y ∈ sortDesc l → y ∈ l
  | [], h => by simp [sortDesc] at h
  | x :: xs, h => by
    rcases mem_insertDesc x y _ h with h | h
    · simp [h]
    · exact List.mem_cons_of_mem _ (mem_sortDesc y xs h)

theorem writeAll_empty : ∀ (l : List (Res Bytes)), (∀ x ∈ l, x = .ok []) →
    (BackBuf.mk 0 []).writeAll l = .ok ⟨0, []⟩
  | [], _ => rfl
  | c :: cs, h => by
    have hc := h c List.mem_cons_self
    subst hc
    simp only [BackBuf.writeAll, BackBuf.write, List.length_nil, Nat.le_refl, if_true, Nat.sub_zero,
      List.nil_append]
    exact writeAll_empty cs (fun x hx => h x (List.mem_cons_of_mem _ hx))

theorem implWriteSeq_zero (o : MOpts) (hd : o.det = true) (c : Nat → Val → Res Bytes) (fs : List FieldDesc) :
    ∀ x ∈ implWriteSeq o c (fs.zip (fs.map FieldDesc.zero)) [], x = .ok [] := by
  intro x hx
  have hz : ∀ p ∈ fs.zip (fs.map FieldDesc.zero), implFieldBytes o c p.1 p.2 = .ok [] := by
    intro p hp
    rw [mem_zip_map_zero hp]
    exact implFieldBytes_zero o hd c p.1
  simp only [implWriteSeq, List.mem_append, List.mem_singleton, List.mem_flatMap, List.mem_map,
    List.mem_reverse, List.mem_filter] at hx
  rcases hx with (hx | ⟨g, _, p, ⟨hp, _⟩, rfl⟩) | ⟨p, hp, rfl⟩
  · exact hx
  · exact hz p hp
  · exact hz p (List.mem_filter.1 (mem_sortDesc p _ hp)).1

theorem walkFields_zero (S : Schema) (fuel : Nat) : ∀ fs : List FieldDesc,
    walkFields S fuel (fs.zip (fs.map FieldDesc.zero)) = false
  | [] => by simp [walkFields]
  | f :: fs => by
    have ih := walkFields_zero S fuel fs
    rw [List.map_cons, List.zip_cons_cons]
    unfold walkFields
    rw [ih, Bool.or_false]
    generalize hz : f.zero = z
    unfold FieldDesc.zero at hz
    cases hs : f.shape <;> cases he : f.elem <;> simp only [hs, he] at hz <;> subst hz <;>
      simp [Val.isNone, Val.elems]
    all_goals (rename_i k; cases k <;> simp [Kind.isBlob])

theorem implMarshal_emptyMsg (S : Schema) (o : MOpts) (hd : o.det = true) (fuel i : Nat) :
    implMarshal S o (fuel+1) i (emptyMsg S i) = .ok [] := by
  have hcl : implMarshalClosure S o (fuel+1) i (emptyMsg S i) = .ok [] := by
    simp only [implMarshalClosure, emptyMsg, Val.isNone, Bool.false_eq_true, if_false]
    have := implSize_emptyMsg S o hd fuel i
    simp only [emptyMsg] at this
    rw [this]
    simp only [implMarshalLvl, Val.slots_msg, Val.unknown_msg]
    rw [writeAll_empty _ (implWriteSeq_zero o hd _ _)]
    rfl
  have hw : walkPanics S (fuel+1) i (emptyMsg S i) = false := by
    simp only [walkPanics, emptyMsg, Val.isNone, Bool.false_eq_true, if_false, Val.slots_msg]
    exact walkFields_zero S fuel _
  simp only [implMarshal, hcl, hw, Bool.false_eq_true, if_false]

theorem depth_emptyMsg (S : Schema) (i : Nat) : (emptyMsg S i).depth = 1 := by
  have : ∀ fs : List FieldDesc, Val.depthList (fs.map FieldDesc.zero) = 0 := by
    intro fs
    induction fs with
    | nil => rfl
    | cons f fs ih =>
      simp only [List.map_cons, Val.depthList, ih, Nat.max_zero]
      unfold FieldDesc.zero
      cases f.shape <;> cases f.elem <;> simp [Val.depth, Val.depthList]
      all_goals (rename_i k; cases k <;> simp [Kind.isBlob, Val.depth])
  simp [emptyMsg, Val.depth, this]

/-! ### evaluating single steps -/

theorem step_write_field (S : Schema) (i : Nat) (slots : List Val) (u : Bytes) (o : WOp) (j : Nat) (f : FieldDesc)
    (hfld : WOp.field? o = some j) (hf : (S.msg i).fields[j]? = some f) :
    Reflect.step S i (.msg slots u) (.w o)
      = applyFW (S.msg i).fields f j slots u (Reflect.writeF S f (slots.getD j .none) o) := by
  simp only [Reflect.step, Op.isWrite, if_true, Reflect.stepW]
  rw [write_field S i slots u o j hfld, hf]

theorem step_read (S : Schema) (i : Nat) (s : Val) (o : ROp) :
    Reflect.step S i s (.r o) = (s, Reflect.read S i s o) := by
  simp only [Reflect.step, Op.isWrite, Bool.false_eq_true, if_false, Reflect.stepR]

theorem storeElem_scalar_bits {kk : Kind} {k k' : Val} (h : Reflect.storeElem (.scalar kk) k = some k') :
    k'.getBits = k.getBits ∧ k'.getBlob = k.getBlob := by
  cases k <;> simp only [Reflect.storeElem, reduceCtorEq] at h
  · split at h <;> simp only [Option.some.injEq, reduceCtorEq] at h
    subst h; exact ⟨rfl, rfl⟩
  · split at h
    · simp only [Option.some.injEq] at h; subst h; exact ⟨rfl, rfl⟩
    · split at h <;> simp only [Option.some.injEq, reduceCtorEq] at h
      subst h; exact ⟨rfl, rfl⟩

/-- well-typedness is preserved along a history (no condition on codec ops) -/
theorem run_preserves_wf (S : Schema) (n i : Nat) : ∀ (ops : List Op) (s : Val) (acc : List Out),
    msgOK S false n i s = true → (∀ op ∈ ops, Op.ok S n i op = true) →
    msgOK S false n i
      (ops.foldl (fun a op => let r := Reflect.step S i a.1 op; (r.1, a.2 ++ [r.2])) (s, acc)).1 = true
  | [], _, _, hs, _ => hs
  | op :: ops, s, acc, hs, hops => by
    have h3 := (step_refines S n i s op hs (hops op List.mem_cons_self)).2.2
    simp only [List.foldl_cons]
    exact run_preserves_wf S n i ops _ _ h3 (fun o ho => hops o (List.mem_cons_of_mem _ ho))

theorem msgOK_oneofOK {S : Schema} {n i : Nat} {s : Val} (h : msgOK S false n i s = true) :
    oneofOK ((S.msg i).fields.zip s.slots) = true := by
  obtain ⟨sl, u, rfl⟩ := rf_msgOK_isMsg h
  cases n with
  | zero => simp [msgOK] at h
  | succ m =>
    rw [msgOK_succ] at h
    simp only [Bool.and_eq_true] at h
    exact h.2

/-- `WhichOneof` returns the member `j` when `j` is set and no earlier member of the group is -/
theorem whichFrom_eq_some (g : Nat) : ∀ (fs : List FieldDesc) (slots : List Val) (k j : Nat) (f : FieldDesc),
    fs[j]? = some f → f.group? = some g → j < slots.length → (slots.getD j .none).isNone = false →
    (∀ j' f', j' < j → fs[j']? = some f' → f'.group? = some g → (slots.getD j' .none).isNone = true) →
    whichFrom g k fs slots = some (k + j)
  | [], _, _, _, _, h, _, _, _, _ => by simp at h
  | _ :: _, [], _, _, _, _, _, h, _, _ => by simp at h
  | f0 :: fs, v0 :: vs, k, 0, f, hf, hg, _, hv, _ => by
    simp only [List.getElem?_cons_zero, Option.some.injEq] at hf
    subst hf
    simp only [List.getD_cons_zero] at hv
    simp [whichFrom, hg, hv]
  | f0 :: fs, v0 :: vs, k, j+1, f, hf, hg, hl, hv, hprev => by
    simp only [List.getElem?_cons_succ] at hf
    simp only [List.length_cons, Nat.add_lt_add_iff_right] at hl
    simp only [List.getD_cons_succ] at hv
    have h0 : (f0.group? == some g && !v0.isNone) = false := by
      cases hg0 : f0.group? == some g
      · rfl
      · have := hprev 0 f0 (Nat.succ_pos j) rfl (by simpa using hg0)
        simp only [List.getD_cons_zero] at this
        simp [this]
    simp only [whichFrom, h0, Bool.false_eq_true, if_false]
    rw [whichFrom_eq_some g fs vs (k+1) j f hf hg hl hv
      (fun j' f' hj' hf' hg' => by
        have := hprev (j'+1) f' (Nat.succ_lt_succ hj') (by simpa using hf') hg'
        simpa using this)]
    congr 1; omega

end Pulsar
