/-
  Pulsar.Proofs.RtField — one field: the reference decoder, run on the bytes the (order-generalised)
  reference encoder produced for a well-typed slot, stores a value with the same `repSlot` in that
  slot and touches nothing else.
-/
import Pulsar.Proofs.RtStep
import Pulsar.Proofs.EncodeField
import Pulsar.Proofs.EncodeRep
namespace Pulsar

/-- What the field lemmas assume about the next nesting level: well-typed children are non-nil and
    their encodings (shorter than `B`) decode into a fresh message to an equivalent value. -/
structure RtChild (S : Schema) (n B : Nat) (cOK cU cK : Nat → Val → Bool) (child : Nat → Val → Bytes)
    (cd : Nat → Val → Bytes → Res Val) (rn : Nat → Val → Val) : Prop where
  nn : ∀ j x, cOK j x = true → x.isNone = false
  rt : ∀ j x, j < n → cOK j x = true → cU j x = true → cK j x = true → (child j x).length < B →
    ∃ w, cd j (emptyMsg S j) (child j x) = .ok w ∧ rn j w = rn j x ∧ w.isNone = false

theorem FieldDesc.wf_num_pos {n : Nat} {f : FieldDesc} (h : f.wf n = true) : 1 ≤ f.num := by
  simp [FieldDesc.wf] at h; omega

theorem specWireType_lt_8 (k : Kind) : k.specWireType < 8 := by cases k <;> decide

/-! ### list plumbing -/

/-- pointwise relation between two lists. -/
inductive All2 {α β : Type} (R : α → β → Prop) : List α → List β → Prop
  | nil : All2 R [] []
  | cons {a b as bs} : R a b → All2 R as bs → All2 R (a :: as) (b :: bs)

theorem All2.map_eq {α β γ : Type} {R : α → β → Prop} {g : α → γ} {h : β → γ}
    (hR : ∀ a b, R a b → h b = g a) : ∀ {l : List α} {l' : List β}, All2 R l l' → l'.map h = l.map g
  | _, _, .nil => rfl
  | _, _, .cons r rs => by simp [hR _ _ r, All2.map_eq hR rs]

theorem Val.key_entry (k v : Val) : (Val.entry k v).key = k := rfl
theorem Val.value_entry (k v : Val) : (Val.entry k v).value = v := rfl

theorem rt_set_getD_self (ss : List Val) (j : Nat) (hj : j < ss.length) : ss.set j (ss.getD j Val.none) = ss := by
  simp [List.getD_eq_getElem?_getD, List.getElem?_eq_getElem hj]

theorem rt_getD_set_self (ss : List Val) (j : Nat) (v : Val) (hj : j < ss.length) :
    (ss.set j v).getD j Val.none = v := by
  simp [List.getD_eq_getElem?_getD, hj]

section level
variable {S : Schema} {i n B : Nat} {cOK cU cK : Nat → Val → Bool} {child : Nat → Val → Bytes}
  {cd : Nat → Val → Bytes → Res Val} {rn : Nat → Val → Val}

local notation "LL" => specDecodeLoop true S i {} cd

/-! ### a nested message payload -/

theorem msg_payload (H : RtChild S n B cOK cU cK child cd rn) (hB : B ≤ 18446744073709551616)
    {mi : Nat} {x : Val} (hmi : mi < n)
    (hx : elemOK cOK (.message mi) false x = true) (hu : utf8Elem cU (.message mi) x = true)
    (hk : unknownElem cK (.message mi) x = true) (hlen : (child mi x).length < B) (rest : Bytes) :
    ∃ w, consumeVarint (specElem child (.message mi) x ++ rest) = .ok ((child mi x).length, child mi x ++ rest) ∧
      (child mi x).length ≤ (child mi x ++ rest).length ∧
      cd mi (emptyMsg S mi) ((child mi x ++ rest).take (child mi x).length) = .ok w ∧
      (child mi x ++ rest).drop (child mi x).length = rest ∧
      repElem rn (.message mi) w = repElem rn (.message mi) x := by
  have hx' : cOK mi x = true := by simpa [elemOK] using hx
  have hnn := H.nn mi x hx'
  have hu' : cU mi x = true := by simpa [utf8Elem, hnn] using hu
  have hk' : cK mi x = true := by simpa [unknownElem, hnn] using hk
  obtain ⟨w, hw, hr, hwn⟩ := H.rt mi x hmi hx' hu' hk' hlen
  refine ⟨w, ?_, by simp, ?_, drop_append_length _ _, ?_⟩
  · simp only [specElem, List.append_assoc]
    exact consumeVarint_varint (by omega) _
  · rw [take_append_length]; exact hw
  · simp [repElem, hnn, hwn, hr]

/-! ### map entries -/

theorem entryLoop_scalar {kk vk : Kind} {k x : Val}
    (hk : scalarOK kk k = true) (hku : kk = .string → utf8Valid k.getBlob = true)
    (hkl : k.getBlob.length < 18446744073709551616)
    (hx : scalarOK vk x = true) (hxu : vk = .string → utf8Valid x.getBlob = true)
    (hxl : x.getBlob.length < 18446744073709551616) (fuel : Nat) (k0 v0 : Val) :
    specEntryLoop true cd kk (.scalar vk) (fuel + 2) (specEntry child kk (.scalar vk) (.entry k x)) k0 v0 =
      .ok (decScalar kk k, decScalar vk x) := by
  have ht1 := consumeTag_tag (num := 1) (wt := kk.specWireType) (by omega) (by omega) (specWireType_lt_8 kk)
  have ht2 := consumeTag_tag (num := 2) (wt := vk.specWireType) (by omega) (by omega) (specWireType_lt_8 vk)
  simp only [specEntry, Val.key, Val.value, specElem, List.append_assoc]
  rw [specEntryLoop]
  have hne1 : tag 1 kk.specWireType ++ (specScalar kk k ++ (tag 2 vk.specWireType ++ specScalar vk x)) ≠ [] :=
    List.append_ne_nil_of_left_ne_nil (varint_ne_nil _) _
  simp only [hne1, if_false, ht1, show ¬ (1 > 536870911) by omega, if_true,
    specReadScalar_specScalar hk hku hkl]
  rw [specEntryLoop]
  have hne2 : tag 2 vk.specWireType ++ specScalar vk x ≠ [] :=
    List.append_ne_nil_of_left_ne_nil (varint_ne_nil _) _
  have hx' := specReadScalar_specScalar hx hxu hxl []
  rw [List.append_nil] at hx'
  simp only [hne2, if_false, ht2, show ¬ (2 > 536870911) by omega, show ¬ (2 = 1) by omega, if_true, hx']
  cases fuel <;> simp [specEntryLoop]

theorem entryLoop_message {kk : Kind} {mi : Nat} {k x w v0 : Val}
    (hk : scalarOK kk k = true) (hku : kk = .string → utf8Valid k.getBlob = true)
    (hkl : k.getBlob.length < 18446744073709551616)
    (hlen : (child mi x).length < 18446744073709551616)
    (hd : cd mi v0 (child mi x) = .ok w) (fuel : Nat) (k0 : Val) :
    specEntryLoop true cd kk (.message mi) (fuel + 2) (specEntry child kk (.message mi) (.entry k x)) k0 v0 =
      .ok (decScalar kk k, w) := by
  have ht1 := consumeTag_tag (num := 1) (wt := kk.specWireType) (by omega) (by omega) (specWireType_lt_8 kk)
  have ht2 := consumeTag_tag (num := 2) (wt := 2) (by omega) (by omega) (by omega)
  simp only [specEntry, Val.key, Val.value, specElem, List.append_assoc]
  rw [specEntryLoop]
  have hne1 : tag 1 kk.specWireType ++ (specScalar kk k ++ (tag 2 2 ++ (varint (child mi x).length ++ child mi x))) ≠ [] :=
    List.append_ne_nil_of_left_ne_nil (varint_ne_nil _) _
  simp only [hne1, if_false, ht1, show ¬ (1 > 536870911) by omega, if_true,
    specReadScalar_specScalar hk hku hkl]
  rw [specEntryLoop]
  have hne2 : tag 2 2 ++ (varint (child mi x).length ++ child mi x) ≠ [] :=
    List.append_ne_nil_of_left_ne_nil (varint_ne_nil _) _
  have hcv := consumeVarint_varint hlen (child mi x)
  simp only [hne2, if_false, ht2, show ¬ (2 > 536870911) by omega, show ¬ (2 = 1) by omega, if_true, hcv,
    show ¬ ((child mi x).length > (child mi x).length) by omega, List.take_length, List.drop_length, hd]
  cases fuel <;> simp [specEntryLoop]

/-! ### single records -/

section records
variable {f : FieldDesc} {j : Nat} {ss : List Val} {u : Bytes}

theorem specTag_scalar {k : Kind} (he : f.elem = .scalar k) : specTag f = tag f.num k.specWireType := by
  simp [specTag, he]

theorem specTag_message {mi : Nat} (he : f.elem = .message mi) : specTag f = tag f.num 2 := by
  simp [specTag, he]

theorem tag_append_length_lt (num wt : Nat) (p rest : Bytes) : rest.length < (tag num wt ++ p ++ rest).length := by
  have := tag_length_pos num wt
  simp only [List.length_append]; omega

theorem rec_singular_scalar (hfind : findField (S.msg i).fields f.num = some (j, f)) (hwf : f.wf n = true)
    {k : Kind} {v : Val} (hs : f.shape = .singular) (he : f.elem = .scalar k)
    (hv : scalarOK k v = true) (hu : k = .string → utf8Valid v.getBlob = true)
    (hl : v.getBlob.length < 18446744073709551616) (rest : Bytes) :
    Steps LL (.msg ss u) (specTag f ++ specScalar k v ++ rest) (.msg (ss.set j (decScalar k v)) u) rest := by
  rw [specTag_scalar he]
  refine Steps.of_step ?_ (tag_append_length_lt _ _ _ _)
  intro fuel
  have ht := consumeTag_tag (FieldDesc.wf_num_pos hwf) (FieldDesc.wf_num hwf) (specWireType_lt_8 k)
    (specScalar k v ++ rest)
  rw [List.append_assoc]
  exact step_singular_scalar ht (by have := FieldDesc.wf_num hwf; omega) hfind hs he
    (specReadScalar_specScalar hv hu hl rest)

theorem rec_oneof_scalar (hfind : findField (S.msg i).fields f.num = some (j, f)) (hwf : f.wf n = true)
    {g : Nat} {k : Kind} {v : Val} (hs : f.shape = .oneof g) (he : f.elem = .scalar k)
    (hclr : clearGroup (S.msg i).fields g ss = ss)
    (hv : scalarOK k v = true) (hu : k = .string → utf8Valid v.getBlob = true)
    (hl : v.getBlob.length < 18446744073709551616) (rest : Bytes) :
    Steps LL (.msg ss u) (specTag f ++ specScalar k v ++ rest) (.msg (ss.set j (.one (decScalar k v))) u) rest := by
  rw [specTag_scalar he]
  refine Steps.of_step ?_ (tag_append_length_lt _ _ _ _)
  intro fuel
  have ht := consumeTag_tag (FieldDesc.wf_num_pos hwf) (FieldDesc.wf_num hwf) (specWireType_lt_8 k)
    (specScalar k v ++ rest)
  rw [List.append_assoc]
  have := step_oneof_scalar (cd := cd) (fuel := fuel) (m := .msg ss u) ht
    (by have := FieldDesc.wf_num hwf; omega) hfind hs he (specReadScalar_specScalar hv hu hl rest)
  simp only [Val.slots, Val.unknown, hclr, Val.setSlot] at this
  exact this

theorem rec_repeated_scalar (hfind : findField (S.msg i).fields f.num = some (j, f)) (hwf : f.wf n = true)
    {pk : Bool} {k : Kind} {v : Val} (hs : f.shape = .repeated pk) (he : f.elem = .scalar k)
    (hnp : ¬ (k.specWireType = 2 ∧ k.packable = true))
    (hv : scalarOK k v = true) (hu : k = .string → utf8Valid v.getBlob = true)
    (hl : v.getBlob.length < 18446744073709551616) (rest : Bytes) :
    Steps LL (.msg ss u) (specTag f ++ specScalar k v ++ rest)
      (.msg (ss.set j (.list true ((ss.getD j .none).elems ++ [decScalar k v]))) u) rest := by
  rw [specTag_scalar he]
  refine Steps.of_step ?_ (tag_append_length_lt _ _ _ _)
  intro fuel
  have ht := consumeTag_tag (FieldDesc.wf_num_pos hwf) (FieldDesc.wf_num hwf) (specWireType_lt_8 k)
    (specScalar k v ++ rest)
  rw [List.append_assoc]
  exact step_repeated_scalar ht (by have := FieldDesc.wf_num hwf; omega) hfind hs he hnp
    (specReadScalar_specScalar hv hu hl rest)

variable (H : RtChild S n B cOK cU cK child cd rn) (hB : B ≤ 18446744073709551616)
include H hB

theorem rec_singular_message (hfind : findField (S.msg i).fields f.num = some (j, f)) (hwf : f.wf n = true)
    {mi : Nat} {x : Val} (hs : f.shape = .singular) (he : f.elem = .message mi)
    (hcur : ss.getD j .none = .none)
    (hx : elemOK cOK (.message mi) false x = true) (hu : utf8Elem cU (.message mi) x = true)
    (hk : unknownElem cK (.message mi) x = true) (hlen : (child mi x).length < B) (rest : Bytes) :
    ∃ w, Steps LL (.msg ss u) (specTag f ++ specElem child (.message mi) x ++ rest) (.msg (ss.set j w) u) rest ∧
      repElem rn (.message mi) w = repElem rn (.message mi) x := by
  obtain ⟨w, hc, hle, hd, hdrop, hrep⟩ :=
    msg_payload H hB (FieldDesc.wf_elem hwf mi he) hx hu hk hlen rest
  refine ⟨w, ?_, hrep⟩
  rw [specTag_message he]
  refine Steps.of_step ?_ (tag_append_length_lt _ _ _ _)
  intro fuel
  have ht := consumeTag_tag (FieldDesc.wf_num_pos hwf) (FieldDesc.wf_num hwf) (show 2 < 8 by omega)
    (specElem child (.message mi) x ++ rest)
  rw [List.append_assoc]
  have := step_singular_message (cd := cd) (fuel := fuel) (m := .msg ss u) ht
    (by have := FieldDesc.wf_num hwf; omega) hfind hs he hc hle
    (v := w) (by simp only [Val.slot, Val.slots, hcur, Val.isNone, if_true]; exact hd)
  rw [hdrop] at this
  exact this

theorem rec_oneof_message (hfind : findField (S.msg i).fields f.num = some (j, f)) (hwf : f.wf n = true)
    {g mi : Nat} {x : Val} (hs : f.shape = .oneof g) (he : f.elem = .message mi)
    (hcur : ss.getD j .none = .none) (hclr : clearGroup (S.msg i).fields g ss = ss)
    (hx : elemOK cOK (.message mi) false x = true) (hu : utf8Elem cU (.message mi) x = true)
    (hk : unknownElem cK (.message mi) x = true) (hlen : (child mi x).length < B) (rest : Bytes) :
    ∃ w, Steps LL (.msg ss u) (specTag f ++ specElem child (.message mi) x ++ rest)
        (.msg (ss.set j (.one w)) u) rest ∧
      repElem rn (.message mi) w = repElem rn (.message mi) x := by
  obtain ⟨w, hc, hle, hd, hdrop, hrep⟩ :=
    msg_payload H hB (FieldDesc.wf_elem hwf mi he) hx hu hk hlen rest
  refine ⟨w, ?_, hrep⟩
  rw [specTag_message he]
  refine Steps.of_step ?_ (tag_append_length_lt _ _ _ _)
  intro fuel
  have ht := consumeTag_tag (FieldDesc.wf_num_pos hwf) (FieldDesc.wf_num hwf) (show 2 < 8 by omega)
    (specElem child (.message mi) x ++ rest)
  rw [List.append_assoc]
  have := step_oneof_message (cd := cd) (fuel := fuel) (m := .msg ss u) ht
    (by have := FieldDesc.wf_num hwf; omega) hfind hs he hc hle
    (v := w) (by simp only [Val.slot, Val.slots, hcur]) hd
  simp only [Val.slots, Val.unknown, hclr, Val.setSlot, hdrop] at this
  exact this

theorem rec_repeated_message (hfind : findField (S.msg i).fields f.num = some (j, f)) (hwf : f.wf n = true)
    {pk : Bool} {mi : Nat} {x : Val} (hs : f.shape = .repeated pk) (he : f.elem = .message mi)
    (hx : elemOK cOK (.message mi) false x = true) (hu : utf8Elem cU (.message mi) x = true)
    (hk : unknownElem cK (.message mi) x = true) (hlen : (child mi x).length < B) (rest : Bytes) :
    ∃ w, Steps LL (.msg ss u) (specTag f ++ specElem child (.message mi) x ++ rest)
        (.msg (ss.set j (.list true ((ss.getD j .none).elems ++ [w]))) u) rest ∧
      repElem rn (.message mi) w = repElem rn (.message mi) x := by
  obtain ⟨w, hc, hle, hd, hdrop, hrep⟩ :=
    msg_payload H hB (FieldDesc.wf_elem hwf mi he) hx hu hk hlen rest
  refine ⟨w, ?_, hrep⟩
  rw [specTag_message he]
  refine Steps.of_step ?_ (tag_append_length_lt _ _ _ _)
  intro fuel
  have ht := consumeTag_tag (FieldDesc.wf_num_pos hwf) (FieldDesc.wf_num hwf) (show 2 < 8 by omega)
    (specElem child (.message mi) x ++ rest)
  rw [List.append_assoc]
  have := step_repeated_message (cd := cd) (fuel := fuel) (m := .msg ss u) ht
    (by have := FieldDesc.wf_num hwf; omega) hfind hs he hc hle hd
  rw [hdrop] at this
  exact this

end records

/-! ### packed runs and map entries as records -/

section records2
variable {f : FieldDesc} {j : Nat} {ss : List Val} {u : Bytes}

theorem getBlob_length_le {k : Kind} {v : Val} (h : scalarOK k v = true) :
    v.getBlob.length ≤ (specScalar k v).length := by
  by_cases hb : k.isBlob = true
  · cases k <;> simp [Kind.isBlob] at hb <;> simp [specScalar]
  · obtain ⟨m, rfl, _⟩ := scalarOK_bits h (by simpa using hb)
    simp [Val.getBlob]

theorem rec_packed (hfind : findField (S.msg i).fields f.num = some (j, f)) (hwf : f.wf n = true)
    {pk : Bool} {k : Kind} {es : List Val} {nn : Bool} {acc : List Val}
    (hs : f.shape = .repeated pk) (he : f.elem = .scalar k) (hblob : k.isBlob = false)
    (hcur : ss.getD j .none = .list nn acc) (hes : ∀ x ∈ es, scalarOK k x = true)
    (hlen : ((es.map (specScalar k)).flatten).length < 18446744073709551616) (rest : Bytes) :
    Steps LL (.msg ss u)
      (tag f.num 2 ++ varint ((es.map (specScalar k)).flatten).length ++ (es.map (specScalar k)).flatten ++ rest)
      (.msg (ss.set j (.list (nn || !es.isEmpty) (acc ++ es))) u) rest := by
  refine Steps.of_step ?_ (by have := tag_length_pos f.num 2; simp only [List.length_append]; omega)
  intro fuel
  have ht := consumeTag_tag (FieldDesc.wf_num_pos hwf) (FieldDesc.wf_num hwf) (show 2 < 8 by omega)
    (varint ((es.map (specScalar k)).flatten).length ++ ((es.map (specScalar k)).flatten ++ rest))
  have hc := consumeVarint_varint hlen ((es.map (specScalar k)).flatten ++ rest)
  have hp := specPackedLoop_run hblob es ((es.map (specScalar k)).flatten).length [] hes (Nat.le_refl _)
  rw [List.nil_append] at hp
  simp only [List.append_assoc]
  have := step_packed (cd := cd) (fuel := fuel) (m := .msg ss u) (pk := pk) ht
    (by have := FieldDesc.wf_num hwf; omega) hfind hs he (by simp [Kind.packable, hblob]) hc (by simp)
    (nn := nn) (acc := acc) (by simp only [Val.slot, Val.slots, hcur])
    (by rw [take_append_length]; exact hp)
  rw [drop_append_length] at this
  exact this

variable (H : RtChild S n B cOK cU cK child cd rn) (hB : B ≤ 18446744073709551616)
include H hB

theorem entryLoop_rt {kk : Kind} {e : Elem} {en : Val} (he : ∀ mi, e = .message mi → mi < n)
    (hen : entryOK cOK false kk e en = true)
    (hu : ((kk != .string || utf8Valid en.key.getBlob) && utf8Elem cU e en.value) = true)
    (hk : unknownElem cK e en.value = true)
    (hlen : (specEntry child kk e en).length < B) (fuel : Nat) (k0 : Val) :
    ∃ x', specEntryLoop true cd kk e (fuel + 2) (specEntry child kk e en) k0 (mapV0 S e) =
        .ok (decScalar kk en.key, x') ∧ repElem rn e x' = repElem rn e en.value := by
  cases en <;> simp [entryOK] at hen
  case entry k x =>
    obtain ⟨hk1, hx1⟩ := hen
    simp only [Val.key, Val.value, Bool.and_eq_true, Bool.or_eq_true, bne_iff_ne, ne_eq] at hu hk ⊢
    obtain ⟨hku, hxu⟩ := hu
    have hku' : kk = .string → utf8Valid k.getBlob = true := by
      intro h; rcases hku with h' | h'
      · exact absurd h h'
      · exact h'
    have hlen' : (specEntry child kk e (.entry k x)).length < 18446744073709551616 := by omega
    have hkl : k.getBlob.length < 18446744073709551616 := by
      have := getBlob_length_le hk1
      simp only [specEntry, Val.key, List.length_append] at hlen'
      omega
    cases e with
    | scalar vk =>
      have hx1' : scalarOK vk x = true := by simpa [elemOK] using hx1
      have hxu' : vk = .string → utf8Valid x.getBlob = true := by
        intro h; subst h; simpa [utf8Elem] using hxu
      have hxl : x.getBlob.length < 18446744073709551616 := by
        have := getBlob_length_le hx1'
        simp only [specEntry, Val.value, specElem, List.length_append] at hlen'
        omega
      exact ⟨decScalar vk x, entryLoop_scalar hk1 hku' hkl hx1' hxu' hxl fuel k0 _, decScalar_rep rn vk vk x⟩
    | message mi =>
      have hx' : cOK mi x = true := by simpa [elemOK] using hx1
      have hnn := H.nn mi x hx'
      have hu' : cU mi x = true := by simpa [utf8Elem, hnn] using hxu
      have hk' : cK mi x = true := by simpa [unknownElem, hnn] using hk
      have hcl : (child mi x).length < B := by
        simp only [specEntry, Val.value, specElem, List.length_append] at hlen
        omega
      obtain ⟨w, hw, hr, hwn⟩ := H.rt mi x (he mi rfl) hx' hu' hk' hcl
      refine ⟨w, entryLoop_message hk1 hku' hkl (by omega) (by simpa [mapV0] using hw) fuel k0, ?_⟩
      simp [repElem, hnn, hwn, hr]

theorem rec_map (hfind : findField (S.msg i).fields f.num = some (j, f)) (hwf : f.wf n = true)
    {kk : Kind} {en : Val} (hs : f.shape = .map kk)
    (hen : entryOK cOK false kk f.elem en = true)
    (hu : ((kk != .string || utf8Valid en.key.getBlob) && utf8Elem cU f.elem en.value) = true)
    (hk : unknownElem cK f.elem en.value = true)
    (hlen : (specEntry child kk f.elem en).length < B) (rest : Bytes) :
    ∃ x', Steps LL (.msg ss u)
        (tag f.num 2 ++ varint (specEntry child kk f.elem en).length ++ specEntry child kk f.elem en ++ rest)
        (.msg (ss.set j (.map true (mapPut (kbeqOf kk) (ss.getD j .none).elems (decScalar kk en.key) x'))) u) rest ∧
      repElem rn f.elem x' = repElem rn f.elem en.value := by
  have h2 : 2 ≤ (specEntry child kk f.elem en).length := by
    have := tag_length_pos 1 kk.specWireType
    have := specScalar_length_pos kk en.key
    simp only [specEntry, List.length_append]; omega
  obtain ⟨g, hg⟩ : ∃ g, (specEntry child kk f.elem en).length = g + 2 :=
    ⟨(specEntry child kk f.elem en).length - 2, by omega⟩
  obtain ⟨x', hloop, hrep⟩ := entryLoop_rt H hB (FieldDesc.wf_elem hwf) hen hu hk hlen g
    (Elem.zeroVar (.scalar kk))
  refine ⟨x', ?_, hrep⟩
  refine Steps.of_step ?_ (by have := tag_length_pos f.num 2; simp only [List.length_append]; omega)
  intro fuel
  have ht := consumeTag_tag (FieldDesc.wf_num_pos hwf) (FieldDesc.wf_num hwf) (show 2 < 8 by omega)
    (varint (specEntry child kk f.elem en).length ++ (specEntry child kk f.elem en ++ rest))
  have hc := consumeVarint_varint (show (specEntry child kk f.elem en).length < 18446744073709551616 by omega)
    (specEntry child kk f.elem en ++ rest)
  simp only [List.append_assoc]
  have := step_map (cd := cd) (fuel := fuel) (m := .msg ss u) ht
    (by have := FieldDesc.wf_num hwf; omega) hfind hs rfl hc (by simp)
    (k := decScalar kk en.key) (v := x') (by rw [take_append_length, hg]; exact hloop)
  rw [drop_append_length] at this
  exact this

end records2

/-! ### runs of records -/

section runs
variable {f : FieldDesc} {j : Nat} {u : Bytes}

theorem records_list {enc : Val → Bytes} {P : Val → Prop} {R : Val → Val → Prop}
    (hrec : ∀ x, P x → ∀ (ss : List Val) (rest : Bytes), j < ss.length →
      ∃ x', R x x' ∧ Steps LL (.msg ss u) (enc x ++ rest)
        (.msg (ss.set j (.list true ((ss.getD j .none).elems ++ [x']))) u) rest) :
    ∀ (es : List Val), (∀ x ∈ es, P x) → ∀ (ss : List Val) (nn : Bool) (acc : List Val) (rest : Bytes),
      j < ss.length → ss.getD j .none = .list nn acc →
      ∃ es', All2 R es es' ∧ Steps LL (.msg ss u) ((es.map enc).flatten ++ rest)
        (.msg (ss.set j (.list (nn || !es.isEmpty) (acc ++ es'))) u) rest := by
  intro es
  induction es with
  | nil =>
    intro _ ss nn acc rest hj hcur
    refine ⟨[], All2.nil, ?_⟩
    simp only [List.map_nil, List.flatten_nil, List.nil_append, List.isEmpty_nil, Bool.not_true,
      Bool.or_false, List.append_nil]
    rw [← hcur, rt_set_getD_self ss j hj]
    exact Steps.refl _ _ _
  | cons x xs ih =>
    intro hP ss nn acc rest hj hcur
    obtain ⟨x', hR, hst⟩ := hrec x (hP x List.mem_cons_self) ss ((xs.map enc).flatten ++ rest) hj
    rw [hcur] at hst
    simp only [Val.elems] at hst
    obtain ⟨xs', hRs, hst2⟩ := ih (fun y hy => hP y (List.mem_cons_of_mem _ hy))
      (ss.set j (.list true (acc ++ [x']))) true (acc ++ [x']) rest (by simpa using hj)
      (rt_getD_set_self ss j _ hj)
    refine ⟨x' :: xs', All2.cons hR hRs, ?_⟩
    simp only [List.map_cons, List.flatten_cons, List.append_assoc]
    have := hst.trans hst2
    simp only [List.set_set, Bool.true_or, List.append_assoc, List.singleton_append] at this
    simpa using this

theorem mapPut_fresh (kbeq : Val → Val → Bool) (es : List Val) (k v : Val)
    (h : ∀ e ∈ es, kbeq e.key k = false) : mapPut kbeq es k v = es ++ [.entry k v] := by
  unfold mapPut
  rw [if_neg]
  simp only [List.any_eq_true, not_exists, not_and, Bool.not_eq_true]
  exact h

/-- relation between an encoded map entry and what the decoder stores for it. -/
def EntRel (rn : Nat → Val → Val) (kk : Kind) (e : Elem) (en en' : Val) : Prop :=
  ∃ x', en' = .entry (decScalar kk en.key) x' ∧ repElem rn e x' = repElem rn e en.value

variable (H : RtChild S n B cOK cU cK child cd rn) (hB : B ≤ 18446744073709551616)
include H hB

theorem records_map (hfind : findField (S.msg i).fields f.num = some (j, f)) (hwf : f.wf n = true)
    {kk : Kind} (hs : f.shape = .map kk) :
    ∀ (l : List Val),
      (∀ en ∈ l, entryOK cOK false kk f.elem en = true ∧
        ((kk != .string || utf8Valid en.key.getBlob) && utf8Elem cU f.elem en.value) = true ∧
        unknownElem cK f.elem en.value = true ∧ (specEntry child kk f.elem en).length < B) →
      l.Pairwise (fun a b => kbeqOf kk a.key b.key = false) →
      ∀ (ss : List Val) (nn : Bool) (acc : List Val) (rest : Bytes), j < ss.length →
        ss.getD j .none = .map nn acc → (∀ a ∈ acc, ∀ en ∈ l, kbeqOf kk a.key en.key = false) →
      ∃ l', All2 (EntRel rn kk f.elem) l l' ∧
        Steps LL (.msg ss u)
          ((l.map (fun en => tag f.num 2 ++ varint (specEntry child kk f.elem en).length ++
              specEntry child kk f.elem en)).flatten ++ rest)
          (.msg (ss.set j (.map (nn || !l.isEmpty) (acc ++ l'))) u) rest := by
  intro l
  induction l with
  | nil =>
    intro _ _ ss nn acc rest hj hcur _
    refine ⟨[], All2.nil, ?_⟩
    simp only [List.map_nil, List.flatten_nil, List.nil_append, List.isEmpty_nil, Bool.not_true,
      Bool.or_false, List.append_nil]
    rw [← hcur, rt_set_getD_self ss j hj]
    exact Steps.refl _ _ _
  | cons en l ih =>
    intro hP hpw ss nn acc rest hj hcur hacc
    obtain ⟨h1, h2, h3, h4⟩ := hP en List.mem_cons_self
    rw [List.pairwise_cons] at hpw
    obtain ⟨x', hst, hrep⟩ := rec_map (ss := ss) (u := u) H hB hfind hwf hs h1 h2 h3 h4
      ((l.map (fun en => tag f.num 2 ++ varint (specEntry child kk f.elem en).length ++
              specEntry child kk f.elem en)).flatten ++ rest)
    rw [hcur] at hst
    simp only [Val.elems] at hst
    have hkey : ∀ a : Val, kbeqOf kk a.key (decScalar kk en.key) = kbeqOf kk a.key en.key := fun a =>
      kbeqOf_congr kk rfl rfl (decScalar_getBits kk en.key) (decScalar_getBlob kk en.key)
    rw [mapPut_fresh _ _ _ _ (fun a ha => by rw [hkey]; exact hacc a ha en List.mem_cons_self)] at hst
    obtain ⟨l', hRs, hst2⟩ := ih (fun y hy => hP y (List.mem_cons_of_mem _ hy)) hpw.2
      (ss.set j (.map true (acc ++ [.entry (decScalar kk en.key) x']))) true
      (acc ++ [.entry (decScalar kk en.key) x']) rest (by simpa using hj)
      (rt_getD_set_self ss j _ hj)
      (by
        intro a ha en2 hen2
        rcases List.mem_append.1 ha with ha | ha
        · exact hacc a ha en2 (List.mem_cons_of_mem _ hen2)
        · simp only [List.mem_singleton] at ha
          subst ha
          rw [Val.key_entry, kbeqOf_comm, hkey, kbeqOf_comm]
          exact hpw.1 en2 hen2)
    refine ⟨.entry (decScalar kk en.key) x' :: l', All2.cons ⟨x', rfl, hrep⟩ hRs, ?_⟩
    simp only [List.map_cons, List.flatten_cons, List.append_assoc]
    have := hst.trans hst2
    simp only [List.set_set, Bool.true_or, List.append_assoc, List.singleton_append] at this
    simpa [List.append_assoc] using this

end runs

end level
end Pulsar
