/-
  Pulsar.Proofs.GoSrcSkip — runtime.Skip as translated from the Go source (`Pulsar.Xf.runtime_Skip`, four fuel-recursive
  loop helpers) is the hand-written model `Pulsar.skip` on every input shorter than 2^62 bytes.
  The three inner loops (tag, skipped varint value, length) are the model's `skipReadVarint` started at the cursor; the
  outer loop is `skipLoop`. (Shape-dependent induction: see Pulsar/Proofs/GoSrcBase.lean.)
-/
import Pulsar.ExtractedFns
import Pulsar.Proofs.GoSrcBase
import Pulsar.Proofs.Runtime
import Pulsar.Proofs.DecodeGood
namespace Pulsar
open Pulsar Pulsar.Timepb

/-- reading the byte at the cursor: `d[i]` is the head of `d.drop i` -/
theorem getAt_of_drop {d : Bytes} {i : Nat} {b : UInt8} {tl : Bytes} (h : d.drop i = b :: tl) :
    Go.getAt d (i : Int) = .ok b.toNat ∧ tl = d.drop (i + 1) ∧ i < d.length := by
  have hi : i < d.length := by
    cases Nat.lt_or_ge i d.length with
    | inl h' => exact h'
    | inr h' => rw [List.drop_eq_nil_of_le h'] at h; simp at h
  have hb : d[i]? = some b := by
    have := List.getElem?_drop (xs := d) (i := i) (j := 0)
    rw [h] at this; simpa using this.symm
  have htl : tl = d.drop (i + 1) := by
    have : (d.drop i).tail = d.drop (i + 1) := by simp [List.tail_drop]
    rw [h] at this; simpa using this
  refine ⟨?_, htl, hi⟩
  unfold Go.getAt
  have : ¬ ((i : Int) < 0) := by omega
  simp [this, hb]

theorem drop_nil_of_ge {d : Bytes} {i : Nat} (h : d.drop i = []) : d.length ≤ i := by
  simpa using h

/-- a 7-bit group placed above an accumulator that fits below it: OR is addition, also after the 64-bit cut -/
theorem or_group_eq (acc x k : Nat) (hacc : acc < 2 ^ (7 * k)) (hk : k ≤ 9) :
    acc ||| ((x % 128 * 2 ^ (7 * k)) % 18446744073709551616) = (acc + x % 128 * 2 ^ (7 * k)) % 18446744073709551616 := by
  have e64 : (18446744073709551616 : Nat) = 2 ^ (64 - 7 * k) * 2 ^ (7 * k) := by
    rw [← Nat.pow_add, show 64 - 7 * k + 7 * k = 64 from by omega]
  have ht : (x % 128 * 2 ^ (7 * k)) % 18446744073709551616 = (x % 128 % 2 ^ (64 - 7 * k)) * 2 ^ (7 * k) := by
    rw [e64, Nat.mul_mod_mul_right]
  have hm : x % 128 % 2 ^ (64 - 7 * k) < 2 ^ (64 - 7 * k) := Nat.mod_lt _ (Nat.two_pow_pos _)
  have hlt : acc + (x % 128 % 2 ^ (64 - 7 * k)) * 2 ^ (7 * k) < 18446744073709551616 := by
    rw [e64]
    calc acc + (x % 128 % 2 ^ (64 - 7 * k)) * 2 ^ (7 * k)
        < 2 ^ (7 * k) + (x % 128 % 2 ^ (64 - 7 * k)) * 2 ^ (7 * k) := by omega
      _ = (x % 128 % 2 ^ (64 - 7 * k) + 1) * 2 ^ (7 * k) := by rw [Nat.add_mul]; omega
      _ ≤ 2 ^ (64 - 7 * k) * 2 ^ (7 * k) := Nat.mul_le_mul_right _ (by omega)
  have hacc64 : acc < 18446744073709551616 := by omega
  rw [Nat.add_mod, Nat.mod_eq_of_lt hacc64, ht, Nat.mod_eq_of_lt hlt,
    Nat.or_comm, Nat.mul_comm, ← Nat.two_pow_add_eq_or_of_lt hacc, Nat.add_comm]

theorem toNat_and_127 (b : UInt8) : b.toNat &&& 127 = b.toNat % 128 :=
  Nat.and_two_pow_sub_one_eq_mod b.toNat 7

/-- what the tag loop returns for an outcome of the model's varint reader (byte count k at cursor i) -/
def lift2 (i k : Nat) : Res (Nat × Nat × Bytes) → Res (Sum (Int × Nat × Nat) Int)
  | .ok (v, n, _) => .ok (Sum.inl (((i + n - k : Nat) : Int), 7 * (n - 1), v))
  | .err e => .err e
  | .panic => .panic

theorem src_Skip_loop2 (d : Bytes) (hd : d.length < 4611686018427387904) :
    ∀ (r i k acc : Nat), d.length - i = r → i ≤ d.length → k ≤ 9 → acc < 2 ^ (7 * k) →
    Xf.runtime_Skip_loop2 (11 - k) d (d.length : Int) (i : Int) (7 * k) acc
      = lift2 i k (skipReadVarint k acc (d.drop i)) := by
  intro r
  induction r with
  | zero =>
    intro i k acc hr hi hk hacc
    have hil : i = d.length := by omega
    subst hil
    rw [show 11 - k = (10 - k) + 1 from by omega]
    unfold Xf.runtime_Skip_loop2
    simp only [List.drop_length, skipReadVarint, lift2]
    have h1 : ¬ (7 * k ≥ 64) := by omega
    simp [h1]
  | succ r ih =>
    intro i k acc hr hi hk hacc
    cases hdrop : d.drop i with
    | nil => have := drop_nil_of_ge hdrop; omega
    | cons b tl =>
      obtain ⟨hget, htl, hlt⟩ := getAt_of_drop hdrop
      rw [show 11 - k = (10 - k) + 1 from by omega]
      unfold Xf.runtime_Skip_loop2
      rw [skipReadVarint]
      have h1 : ¬ (7 * k ≥ 64) := by omega
      have h2 : ¬ ((i : Int) ≥ (d.length : Int)) := by omega
      have h3 : ¬ (k ≥ 10) := by omega
      have hw : wrap64 ((i : Int) + 1) = ((i + 1 : Nat) : Int) := by
        rw [wrap64_id (by omega) (by omega)]; omega
      simp only [h1, h2, h3, decide_false, if_false, hget, Res.bind_ok, hw, toNat_and_127, or_group_eq acc b.toNat k hacc hk,
        Bool.false_eq_true]
      by_cases hb : b.toNat < 128
      · simp only [hb, decide_true, if_true, lift2, Res.pure_eq]
        rw [show i + (k + 1) - k = i + 1 from by omega, show k + 1 - 1 = k from by omega]
      · simp only [hb, decide_false, if_false, Bool.false_eq_true]
        have hs : (7 * k + 7) % 18446744073709551616 = 7 * (k + 1) := by omega
        rw [hs]
        by_cases hk9 : k + 1 ≥ 10
        · -- the tenth byte had its continuation bit set: both report an overflow
          simp only [hk9, if_true, lift2]
          have hk' : k = 9 := by omega
          subst hk'
          show Xf.runtime_Skip_loop2 (0 + 1) d _ _ _ _ = _
          unfold Xf.runtime_Skip_loop2
          simp
        · simp only [hk9, if_false]
          have hx : b.toNat % 128 < 128 := Nat.mod_lt _ (by decide)
          have hbound := varint_acc_bound hacc hx
          have hp : (2 : Nat) ^ (7 * (k + 1)) ≤ 2 ^ 63 := Nat.pow_le_pow_right (by decide) (by omega)
          have hmod : (acc + b.toNat % 128 * 2 ^ (7 * k)) % 18446744073709551616 = acc + b.toNat % 128 * 2 ^ (7 * k) :=
            Nat.mod_eq_of_lt (by
              have : (2 : Nat) ^ 63 < 18446744073709551616 := by decide
              omega)
          rw [hmod, htl]
          have := ih (i + 1) (k + 1) (acc + b.toNat % 128 * 2 ^ (7 * k)) (by omega) (by omega) (by omega) hbound
          rw [show 11 - (k + 1) = 10 - k from by omega] at this
          rw [this]
          cases hX : skipReadVarint (k + 1) (acc + b.toNat % 128 * 2 ^ (7 * k)) (List.drop (i + 1) d) with
          | ok x =>
            obtain ⟨v, n, rest⟩ := x
            have hc := (skipReadVarint_count _ _ _ _ _ _ hX).2
            simp only [lift2]
            rw [show i + 1 + n - (k + 1) = i + n - k from by omega]
          | err e => rfl
          | panic => rfl

/-- the value-skipping loop (wire type 0) -/
def lift3 (i k : Nat) : Res (Nat × Nat × Bytes) → Res (Sum (Int × Nat) Int)
  | .ok (_, n, _) => .ok (Sum.inl (((i + n - k : Nat) : Int), 7 * (n - 1)))
  | .err e => .err e
  | .panic => .panic

theorem src_Skip_loop3 (d : Bytes) (hd : d.length < 4611686018427387904) :
    ∀ (r i k acc : Nat), d.length - i = r → i ≤ d.length → k ≤ 9 →
    Xf.runtime_Skip_loop3 (11 - k) d (d.length : Int) (i : Int) (7 * k)
      = lift3 i k (skipReadVarint k acc (d.drop i)) := by
  intro r
  induction r with
  | zero =>
    intro i k acc hr hi hk
    have hil : i = d.length := by omega
    subst hil
    rw [show 11 - k = (10 - k) + 1 from by omega]
    unfold Xf.runtime_Skip_loop3
    simp only [List.drop_length, skipReadVarint, lift3]
    have h1 : ¬ (7 * k ≥ 64) := by omega
    simp [h1]
  | succ r ih =>
    intro i k acc hr hi hk
    cases hdrop : d.drop i with
    | nil => have := drop_nil_of_ge hdrop; omega
    | cons b tl =>
      obtain ⟨hget, htl, hlt⟩ := getAt_of_drop hdrop
      rw [show 11 - k = (10 - k) + 1 from by omega]
      unfold Xf.runtime_Skip_loop3
      rw [skipReadVarint]
      have h1 : ¬ (7 * k ≥ 64) := by omega
      have h2 : ¬ ((i : Int) ≥ (d.length : Int)) := by omega
      have h3 : ¬ (k ≥ 10) := by omega
      have hw : wrap64 ((i : Int) + 1) = ((i + 1 : Nat) : Int) := by
        rw [wrap64_id (by omega) (by omega)]; omega
      have hw2 : wrap64 (((i + 1 : Nat) : Int) - 1) = (i : Int) := by
        rw [wrap64_id (by omega) (by omega)]; omega
      simp only [h1, h2, h3, decide_false, if_false, hw, hw2, hget, Res.bind_ok, Res.pure_eq, Bool.false_eq_true]
      by_cases hb : b.toNat < 128
      · simp only [hb, decide_true, if_true, lift3]
        rw [show i + (k + 1) - k = i + 1 from by omega, show k + 1 - 1 = k from by omega]
      · simp only [hb, decide_false, if_false, Bool.false_eq_true]
        have hs : (7 * k + 7) % 18446744073709551616 = 7 * (k + 1) := by omega
        rw [hs]
        by_cases hk9 : k + 1 ≥ 10
        · simp only [hk9, if_true, lift3]
          have hk' : k = 9 := by omega
          subst hk'
          show Xf.runtime_Skip_loop3 (0 + 1) d _ _ _ = _
          unfold Xf.runtime_Skip_loop3
          simp
        · simp only [hk9, if_false]
          rw [htl]
          have := ih (i + 1) (k + 1) ((acc + b.toNat % 128 * 2 ^ (7 * k)) % 18446744073709551616) (by omega) (by omega) (by omega)
          rw [show 11 - (k + 1) = 10 - k from by omega] at this
          rw [this]
          cases hX : skipReadVarint (k + 1) ((acc + b.toNat % 128 * 2 ^ (7 * k)) % 18446744073709551616) (List.drop (i + 1) d) with
          | ok x =>
            obtain ⟨v, n, rest⟩ := x
            have hc := (skipReadVarint_count _ _ _ _ _ _ hX).2
            simp only [lift3]
            rw [show i + 1 + n - (k + 1) = i + n - k from by omega]
          | err e => rfl
          | panic => rfl

/-! signed bit operations on 64-bit patterns -/

theorem ofInt64_toInt64 (a : Nat) (ha : a < 18446744073709551616) :
    ((wrap64 (a : Int)) % 18446744073709551616).toNat = a := by
  unfold wrap64; simp only []; split <;> omega

theorem wrap64_natCast_mod (n : Nat) : wrap64 (n : Int) = wrap64 ((n % 18446744073709551616 : Nat) : Int) := by
  unfold wrap64; simp only []
  have : ((n : Int) % 18446744073709551616) = ((n % 18446744073709551616 : Nat) : Int) := by omega
  have h2 : (((n % 18446744073709551616 : Nat) : Int) % 18446744073709551616) = ((n % 18446744073709551616 : Nat) : Int) := by omega
  rw [this, h2]

theorem sbits_toInt64 (op : Nat → Nat → Nat) (a b : Nat) (ha : a < 18446744073709551616) (hb : b < 18446744073709551616) :
    Go.sbits 18446744073709551616 op (wrap64 (a : Int)) (wrap64 (b : Int)) = wrap64 ((op a b % 18446744073709551616 : Nat) : Int) := by
  unfold Go.sbits
  simp only []
  have e1 := ofInt64_toInt64 a ha
  have e2 := ofInt64_toInt64 b hb
  rw [e1, e2]
  unfold wrap64
  simp only []
  have : (((op a b % 18446744073709551616 : Nat) : Int) % 18446744073709551616) = ((op a b : Nat) : Int) % 18446744073709551616 := by omega
  rw [this]
  split <;> split <;> omega


theorem sbits_and_127 (b : Nat) (hb : b < 256) :
    Go.sbits 18446744073709551616 (fun x y => x &&& y) (b : Int) (127 : Int) = ((b % 128 : Nat) : Int) := by
  unfold Go.sbits
  simp only []
  have e1 : ((b : Int) % 18446744073709551616).toNat = b := by omega
  have e2 : ((127 : Int) % 18446744073709551616).toNat = 127 := by decide
  rw [e1, e2, Nat.and_two_pow_sub_one_eq_mod b 7]
  have : (((b % 2 ^ 7 : Nat) : Int) % 18446744073709551616) = ((b % 128 : Nat) : Int) := by omega
  rw [this]
  split <;> omega

/-- the length loop (wire type 2): the signed accumulator is the signed reading of the model's accumulator -/
def lift4 (i k : Nat) : Res (Nat × Nat × Bytes) → Res (Sum (Int × Int × Nat) Int)
  | .ok (v, n, _) => .ok (Sum.inl (((i + n - k : Nat) : Int), wrap64 (v : Int), 7 * (n - 1)))
  | .err e => .err e
  | .panic => .panic

theorem length_step (acc b k : Nat) (hb : b < 256) (hacc : acc < 2 ^ (7 * k)) (hk : k ≤ 9) :
    Go.sbits 18446744073709551616 (fun x y => x ||| y) (wrap64 (acc : Int))
      (wrap64 ((Go.sbits 18446744073709551616 (fun x y => x &&& y) (b : Int) (127 : Int)) * 2 ^ (7 * k)))
    = wrap64 (((acc + b % 128 * 2 ^ (7 * k)) % 18446744073709551616 : Nat) : Int) := by
  rw [sbits_and_127 b hb]
  have hc : (((b % 128 : Nat) : Int) * 2 ^ (7 * k)) = ((b % 128 * 2 ^ (7 * k) : Nat) : Int) := by
    simp [Int.natCast_mul, Int.natCast_pow]
  rw [hc, wrap64_natCast_mod (b % 128 * 2 ^ (7 * k))]
  have hacc64 : acc < 18446744073709551616 := by
    have : (2 : Nat) ^ (7 * k) ≤ 2 ^ 63 := Nat.pow_le_pow_right (by decide) (by omega)
    have : (2 : Nat) ^ 63 < 18446744073709551616 := by decide
    omega
  rw [sbits_toInt64 _ acc _ hacc64 (Nat.mod_lt _ (by decide))]
  show wrap64 ((((acc ||| (b % 128 * 2 ^ (7 * k)) % 18446744073709551616) % 18446744073709551616 : Nat)) : Int) = _
  rw [or_group_eq acc b k hacc hk, Nat.mod_mod]


theorem src_Skip_loop4 (d : Bytes) (hd : d.length < 4611686018427387904) :
    ∀ (r i k acc : Nat), d.length - i = r → i ≤ d.length → k ≤ 9 → acc < 2 ^ (7 * k) →
    Xf.runtime_Skip_loop4 (11 - k) d (d.length : Int) (i : Int) (wrap64 (acc : Int)) (7 * k)
      = lift4 i k (skipReadVarint k acc (d.drop i)) := by
  intro r
  induction r with
  | zero =>
    intro i k acc hr hi hk hacc
    have hil : i = d.length := by omega
    subst hil
    rw [show 11 - k = (10 - k) + 1 from by omega]
    unfold Xf.runtime_Skip_loop4
    simp only [List.drop_length, skipReadVarint, lift4]
    have h1 : ¬ (7 * k ≥ 64) := by omega
    simp [h1]
  | succ r ih =>
    intro i k acc hr hi hk hacc
    cases hdrop : d.drop i with
    | nil => have := drop_nil_of_ge hdrop; omega
    | cons b tl =>
      obtain ⟨hget, htl, hlt⟩ := getAt_of_drop hdrop
      rw [show 11 - k = (10 - k) + 1 from by omega]
      unfold Xf.runtime_Skip_loop4
      rw [skipReadVarint]
      have h1 : ¬ (7 * k ≥ 64) := by omega
      have h2 : ¬ ((i : Int) ≥ (d.length : Int)) := by omega
      have h3 : ¬ (k ≥ 10) := by omega
      have hw : wrap64 ((i : Int) + 1) = ((i + 1 : Nat) : Int) := by
        rw [wrap64_id (by omega) (by omega)]; omega
      have hb256 : b.toNat < 256 := by have := b.toNat_lt; omega
      simp only [h1, h2, h3, decide_false, if_false, hget, Res.bind_ok, hw, length_step acc b.toNat k hb256 hacc hk,
        Bool.false_eq_true]
      by_cases hb : b.toNat < 128
      · simp only [hb, decide_true, if_true, lift4, Res.pure_eq]
        rw [show i + (k + 1) - k = i + 1 from by omega, show k + 1 - 1 = k from by omega]
      · simp only [hb, decide_false, if_false, Bool.false_eq_true]
        have hs : (7 * k + 7) % 18446744073709551616 = 7 * (k + 1) := by omega
        rw [hs]
        by_cases hk9 : k + 1 ≥ 10
        · simp only [hk9, if_true, lift4]
          have hk' : k = 9 := by omega
          subst hk'
          show Xf.runtime_Skip_loop4 (0 + 1) d _ _ _ _ = _
          unfold Xf.runtime_Skip_loop4
          simp
        · simp only [hk9, if_false]
          have hx : b.toNat % 128 < 128 := Nat.mod_lt _ (by decide)
          have hbound := varint_acc_bound hacc hx
          have hp : (2 : Nat) ^ (7 * (k + 1)) ≤ 2 ^ 63 := Nat.pow_le_pow_right (by decide) (by omega)
          have hmod : (acc + b.toNat % 128 * 2 ^ (7 * k)) % 18446744073709551616 = acc + b.toNat % 128 * 2 ^ (7 * k) :=
            Nat.mod_eq_of_lt (by
              have : (2 : Nat) ^ 63 < 18446744073709551616 := by decide
              omega)
          rw [hmod, htl]
          have := ih (i + 1) (k + 1) (acc + b.toNat % 128 * 2 ^ (7 * k)) (by omega) (by omega) (by omega) hbound
          rw [show 11 - (k + 1) = 10 - k from by omega] at this
          rw [this]
          cases hX : skipReadVarint (k + 1) (acc + b.toNat % 128 * 2 ^ (7 * k)) (List.drop (i + 1) d) with
          | ok x =>
            obtain ⟨v, n, rest⟩ := x
            have hc := (skipReadVarint_count _ _ _ _ _ _ hX).2
            simp only [lift4]
            rw [show i + 1 + n - (k + 1) = i + n - k from by omega]
          | err e => rfl
          | panic => rfl


/-- the bytes left by the model's varint reader are a suffix of its input -/
theorem skipReadVarint_rest (bs : Bytes) : ∀ k acc v n rest,
    skipReadVarint k acc bs = .ok (v, n, rest) → rest = bs.drop (n - k) := by
  induction bs with
  | nil => intro k acc v n rest h; simp [skipReadVarint] at h
  | cons b tl ih =>
    intro k acc v n rest h
    rw [skipReadVarint] at h
    split at h
    · simp at h
    · simp only [] at h
      split at h
      · simp only [Res.ok.injEq, Prod.mk.injEq] at h
        obtain ⟨_, rfl, rfl⟩ := h
        simp
      · split at h
        · simp at h
        · have hc := (skipReadVarint_count _ _ _ _ _ _ h).2
          have := ih _ _ _ _ _ h
          rw [this, show n - k = (n - (k + 1)) + 1 from by omega]
          simp

def fin : Res (Sum (Int × Int) Int) → Res Int
  | .ok (.inr r) => .ok r
  | .ok (.inl _) => .err .eof
  | .err e => .err e
  | .panic => .panic

def natRes : Res Nat → Res Int
  | .ok n => .ok (n : Int)
  | .err e => .err e
  | .panic => .panic

theorem loop2_start (d : Bytes) (hd : d.length < 4611686018427387904) (i : Nat) (hi : i ≤ d.length) :
    Xf.runtime_Skip_loop2 11 d (d.length : Int) (i : Int) 0 0 = lift2 i 0 (skipReadVarint 0 0 (d.drop i)) := by
  have := src_Skip_loop2 d hd _ i 0 0 rfl hi (by omega) (by simp)
  simpa using this

theorem loop3_start (d : Bytes) (hd : d.length < 4611686018427387904) (i : Nat) (hi : i ≤ d.length) :
    Xf.runtime_Skip_loop3 11 d (d.length : Int) (i : Int) 0 = lift3 i 0 (skipReadVarint 0 0 (d.drop i)) := by
  have := src_Skip_loop3 d hd _ i 0 0 rfl hi (by omega)
  simpa using this

theorem loop4_start (d : Bytes) (hd : d.length < 4611686018427387904) (i : Nat) (hi : i ≤ d.length) :
    Xf.runtime_Skip_loop4 11 d (d.length : Int) (i : Int) 0 0 = lift4 i 0 (skipReadVarint 0 0 (d.drop i)) := by
  have := src_Skip_loop4 d hd _ i 0 0 rfl hi (by omega) (by simp)
  have e : wrap64 ((0 : Nat) : Int) = 0 := by decide
  rw [e] at this
  simpa using this


theorem fin_bind {α : Type} (r : Res α) (g : α → Res (Sum (Int × Int) Int)) :
    fin (r >>= g) = match r with | .ok a => fin (g a) | .err e => .err e | .panic => .panic := by
  cases r <;> rfl

/-- what follows the `switch` in one iteration of the outer loop, given the induction hypothesis for the next one -/
theorem skip_tail (d : Bytes) (f : Nat)
    (ih : ∀ (i depth : Nat), d.length - i ≤ f → depth ≤ i →
      fin (Xf.runtime_Skip_loop1 (f + 1) d (d.length : Int) (depth : Int) (i : Int)) = natRes (skipLoop f (d.drop i) i depth))
    (c2 depth2 : Nat) (hc : c2 < 9223372036854775808) (hfuel : d.length - c2 ≤ f) (hdep : depth2 ≤ c2) :
    fin (if decide ((c2 : Int) < 0) = true then Res.err Err.invalidLength
         else if decide ((depth2 : Int) = 0) = true then pure (Sum.inr (c2 : Int))
         else Xf.runtime_Skip_loop1 (f + 1) d (d.length : Int) (depth2 : Int) (c2 : Int))
      = natRes (if c2 ≥ 9223372036854775808 then Res.err Err.invalidLength
                else if depth2 = 0 then Res.ok c2 else skipLoop f (d.drop c2) c2 depth2) := by
  have h1 : ¬ ((c2 : Int) < 0) := by omega
  have h2 : ¬ (c2 ≥ 9223372036854775808) := by omega
  simp only [h1, decide_false, h2, if_false, Bool.false_eq_true]
  by_cases hz : depth2 = 0
  · subst hz; simp [fin, natRes]
  · have h3 : ¬ ((depth2 : Int) = 0) := by omega
    simp only [h3, decide_false, hz, if_false, Bool.false_eq_true]
    exact ih c2 depth2 hfuel hdep

set_option maxRecDepth 100000 in
theorem src_Skip_loop1 (d : Bytes) (hd : d.length < 4611686018427387904) :
    ∀ (f i depth : Nat), d.length - i ≤ f → depth ≤ i →
    fin (Xf.runtime_Skip_loop1 (f + 1) d (d.length : Int) (depth : Int) (i : Int))
      = natRes (skipLoop f (d.drop i) i depth) := by
  intro f
  induction f with
  | zero =>
    intro i depth hf hdep
    have hge : d.length ≤ i := by omega
    unfold Xf.runtime_Skip_loop1
    have h1 : ¬ ((i : Int) < (d.length : Int)) := by omega
    simp [h1, fin, skipLoop, natRes]
  | succ f ih =>
    intro i depth hf hdep
    by_cases hlt : i < d.length
    · unfold Xf.runtime_Skip_loop1
      rw [skipLoop_succ]
      have h1 : ((i : Int) < (d.length : Int)) := by omega
      have hne : d.drop i ≠ [] := by
        intro h; have := drop_nil_of_ge h; omega
      simp only [h1, decide_true, if_true, hne, if_false, loop2_start d hd i (by omega)]
      rcases hT : skipReadVarint 0 0 (d.drop i) with ⟨wire, n, rest1⟩ | e | _
      · show fin (_ >>= _) = _
        rw [show lift2 i 0 (Res.ok (wire, n, rest1)) = Res.ok (Sum.inl (((i + n - 0 : Nat) : Int), 7 * (n - 1), wire)) from rfl, Res.bind_ok]
        dsimp only []
        obtain ⟨hcnt, hnpos⟩ := skipReadVarint_count _ _ _ _ _ _ hT
        have hrest := skipReadVarint_rest _ _ _ _ _ _ hT
        simp only [Nat.sub_zero, Nat.zero_add, List.length_drop, List.drop_drop] at hcnt hrest
        have hc1 : i + n ≤ d.length := by omega
        subst hrest
        have hw8 : wire &&& 7 = wire % 8 := Nat.and_two_pow_sub_one_eq_mod wire 3
        have hwr : wrap64 ((wire % 8 : Nat) : Int) = ((wire % 8 : Nat) : Int) := wrap64_id (by omega) (by omega)
        rw [hw8, hwr]
        clear hwr hw8
        have hwlt : wire % 8 < 8 := Nat.mod_lt _ (by decide)
        generalize wire % 8 = w at hwlt ⊢
        have hsub : ((i + n - 0 : Nat) : Int) = ((i + n : Nat) : Int) := by simp
        have hw : w = 0 ∨ w = 1 ∨ w = 2 ∨ w = 3 ∨ w = 4 ∨ w = 5 ∨ w = 6 ∨ w = 7 := by omega
        rcases hw with rfl | rfl | rfl | rfl | rfl | rfl | rfl | rfl
        · -- wire type 0: a varint value is skipped
          rw [show ((0 : Nat) : Int) = 0 from rfl]
          simp only [hsub, skipAfter, loop3_start d hd (i + n) hc1, Int.reduceEq, Nat.reduceEqDiff, decide_false, decide_true,
            Bool.false_eq_true, if_false, if_true, List.drop_drop]
          cases hV : skipReadVarint 0 0 (d.drop (i + n)) with
          | err e => simp [lift3, fin, natRes]
          | panic => simp [lift3, fin, natRes]
          | ok x =>
            obtain ⟨v, m, r⟩ := x
            obtain ⟨hcnt2, hmpos⟩ := skipReadVarint_count _ _ _ _ _ _ hV
            have hrest2 := skipReadVarint_rest _ _ _ _ _ _ hV
            simp only [Nat.sub_zero, Nat.zero_add, List.length_drop, List.drop_drop] at hcnt2 hrest2
            subst hrest2
            simp only [lift3, Res.bind_ok, Nat.sub_zero]
            exact skip_tail d f ih (i + n + m) depth (by omega) (by omega) (by omega)
        · -- wire type 1: eight bytes
          have e8 : wrap64 (((i + n : Nat) : Int) + 8) = ((i + n + 8 : Nat) : Int) := by
            rw [wrap64_id (by omega) (by omega)]; omega
          rw [show ((1 : Nat) : Int) = 1 from rfl]
          simp only [hsub, e8, skipAfter, Int.reduceEq, Nat.reduceEqDiff, decide_false, decide_true,
            Bool.false_eq_true, if_false, if_true, List.drop_drop]
          clear e8
          exact skip_tail d f ih (i + n + 8) depth (by omega) (by omega) (by omega)
        · -- wire type 2: a length and that many bytes
          rw [show ((2 : Nat) : Int) = 2 from rfl]
          simp only [hsub, skipAfter, loop4_start d hd (i + n) hc1, Int.reduceEq, Nat.reduceEqDiff, decide_false, decide_true,
            Bool.false_eq_true, if_false, if_true, List.drop_drop]
          cases hV : skipReadVarint 0 0 (d.drop (i + n)) with
          | err e => simp [lift4, fin, natRes]
          | panic => simp [lift4, fin, natRes]
          | ok x =>
            obtain ⟨len, m, r⟩ := x
            obtain ⟨hcnt2, hmpos⟩ := skipReadVarint_count _ _ _ _ _ _ hV
            have hrest2 := skipReadVarint_rest _ _ _ _ _ _ hV
            have hlen64 := PU.skipReadVarint_lt _ _ _ _ _ _ hV
            simp only [Nat.sub_zero, Nat.zero_add, List.length_drop, List.drop_drop] at hcnt2 hrest2
            subst hrest2
            rw [show lift4 (i + n) 0 (Res.ok (len, m, List.drop (i + n + m) d))
                = Res.ok (Sum.inl (((i + n + m : Nat) : Int), wrap64 (len : Int), 7 * (m - 1))) from rfl, Res.bind_ok]
            dsimp only []
            by_cases hneg : len ≥ 9223372036854775808
            · have hl : wrap64 (len : Int) < 0 := by
                rw [wrap64_hi (by omega) (by omega)]; omega
              rw [if_pos (decide_eq_true hl), if_pos hneg]; rfl
            · have hl : wrap64 (len : Int) = (len : Int) := wrap64_id (by omega) (by omega)
              have hl0 : ¬ ((len : Int) < 0) := by clear hl; omega
              rw [hl, if_neg (mt of_decide_eq_true hl0), if_neg hneg]
              dsimp only []
              by_cases hbig : i + n + m + len ≥ 9223372036854775808
              · have hw2 : wrap64 (((i + n + m : Nat) : Int) + (len : Int)) < 0 := by
                  clear hl; rw [wrap64_hi (by omega) (by omega)]; omega
                rw [if_pos (decide_eq_true hw2), if_pos hbig]; rfl
              · have hw2 : wrap64 (((i + n + m : Nat) : Int) + (len : Int)) = ((i + n + m + len : Nat) : Int) := by
                  clear hl; rw [wrap64_id (by omega) (by omega)]; omega
                rw [hw2]
                clear hw2 hl
                have := skip_tail d f ih (i + n + m + len) depth (by omega) (by omega) (by omega)
                rw [List.drop_drop]
                exact this
        · -- wire type 3: a group starts
          have ed : wrap64 ((depth : Int) + 1) = ((depth + 1 : Nat) : Int) := by
            rw [wrap64_id (by omega) (by omega)]; omega
          rw [show ((3 : Nat) : Int) = 3 from rfl]
          simp only [hsub, ed, skipAfter, Int.reduceEq, Nat.reduceEqDiff, decide_false, decide_true,
            Bool.false_eq_true, if_false, if_true, List.drop_drop]
          clear ed
          exact skip_tail d f ih (i + n) (depth + 1) (by omega) (by omega) (by omega)
        · -- wire type 4: a group ends
          rw [show ((4 : Nat) : Int) = 4 from rfl]
          simp only [hsub, skipAfter, Int.reduceEq, Nat.reduceEqDiff, decide_false, decide_true,
            Bool.false_eq_true, if_false, if_true, List.drop_drop]
          by_cases hz : depth = 0
          · subst hz; simp [fin, natRes]
          · have hz' : ¬ ((depth : Int) = 0) := by omega
            have ed : wrap64 ((depth : Int) - 1) = ((depth - 1 : Nat) : Int) := by
              rw [wrap64_id (by omega) (by omega)]; omega
            simp only [hz, hz', ed, decide_false, if_false, Bool.false_eq_true]
            exact skip_tail d f ih (i + n) (depth - 1) (by omega) (by omega) (by omega)
        · -- wire type 5: four bytes
          have e4 : wrap64 (((i + n : Nat) : Int) + 4) = ((i + n + 4 : Nat) : Int) := by
            rw [wrap64_id (by omega) (by omega)]; omega
          rw [show ((5 : Nat) : Int) = 5 from rfl]
          simp only [hsub, e4, skipAfter, Int.reduceEq, Nat.reduceEqDiff, decide_false, decide_true,
            Bool.false_eq_true, if_false, if_true, List.drop_drop]
          clear e4
          exact skip_tail d f ih (i + n + 4) depth (by omega) (by omega) (by omega)
        · rw [show ((6 : Nat) : Int) = 6 from rfl]
          simp [skipAfter, fin, natRes]
        · rw [show ((7 : Nat) : Int) = 7 from rfl]
          simp [skipAfter, fin, natRes]
      · simp [lift2, fin, natRes]
      · simp [lift2, fin, natRes]
    · have hge : d.length ≤ i := by omega
      unfold Xf.runtime_Skip_loop1
      have h1 : ¬ ((i : Int) < (d.length : Int)) := by omega
      have hnil : d.drop i = [] := List.drop_eq_nil_of_le hge
      rw [skipLoop_succ]
      simp [h1, fin, natRes, hnil]

/-- **`runtime.Skip` as written in the Go source is the model `skip`**, outcome for outcome (value, which error,
    never a panic), for every input shorter than 2^62 bytes. -/
theorem src_Skip (d : Bytes) (hd : d.length < 4611686018427387904) :
    Xf.runtime_Skip d = natRes (skip d) := by
  have h := src_Skip_loop1 d hd d.length 0 0 (by omega) (by omega)
  simp only [List.drop_zero] at h
  unfold Xf.runtime_Skip skip
  rw [← h]
  show (Xf.runtime_Skip_loop1 (d.length + 1) d (d.length : Int) 0 0 >>= _) = _
  rw [show ((0 : Nat) : Int) = 0 from rfl]
  cases Xf.runtime_Skip_loop1 (d.length + 1) d (d.length : Int) 0 0 with
  | ok x => cases x with
    | inl st => obtain ⟨a, b⟩ := st; rfl
    | inr r => rfl
  | err e => rfl
  | panic => rfl

/-! the model has no "out of fuel" outcome -/

theorem skipReadVarint_ne_other (bs : Bytes) : ∀ k acc, skipReadVarint k acc bs ≠ .err .other := by
  induction bs with
  | nil => intro k acc; simp [skipReadVarint]
  | cons b tl ih =>
    intro k acc
    rw [skipReadVarint]
    split
    · simp
    · simp only []
      split
      · simp
      · split
        · simp
        · exact ih _ _

theorem skipAfter_ne_other (r : Bytes) (c wt d : Nat) : skipAfter r c wt d ≠ .err .other := by
  unfold skipAfter
  have := skipReadVarint_ne_other r 0 0
  repeat' split
  all_goals first | (rename_i heq; intro h; cases h; exact absurd heq this) | simp

theorem skipLoop_ne_other (fuel : Nat) : ∀ rest c k, skipLoop fuel rest c k ≠ .err .other := by
  induction fuel with
  | zero => intro rest c k; simp [skipLoop]
  | succ f ih =>
    intro rest c k
    rw [skipLoop_succ]
    have h1 := skipReadVarint_ne_other rest 0 0
    split
    · simp
    · split
      · rename_i e heq; intro h; cases h; exact h1 heq
      · simp
      · rename_i wire n rest1 heq
        have h2 := skipAfter_ne_other rest1 (c + n) (wire % 8) k
        split
        · rename_i e heq2; intro h; cases h; exact h2 heq2
        · simp
        · split
          · simp
          · split
            · simp
            · exact ih _ _ _

theorem skip_ne_other (bs : Bytes) : skip bs ≠ .err .other := skipLoop_ne_other _ _ _ _
end Pulsar
