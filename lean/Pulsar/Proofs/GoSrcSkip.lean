/-
  Pulsar.Proofs.GoSrcSkip — runtime.Skip as translated from the Go source (`Pulsar.Xf.runtime_Skip`, four fuel-recursive
  loop helpers) is the hand-written model `Pulsar.skip` on every input shorter than 2^62 bytes.
  The three inner loops (tag, skipped varint value, length) are the model's `skipReadVarint` started at the cursor; the
  outer loop is `skipLoop`. (Shape-dependent induction: see Pulsar/Proofs/GoSrcBase.lean.)
-/
import Pulsar.ExtractedFns
import Pulsar.Proofs.GoSrcBase
import Pulsar.Proofs.Runtime
namespace Pulsar
open Pulsar Pulsar.Timepb

/-- reading the byte at the cursor: `d[i]` is the head of `d.drop i` -/
theorem getAt_of_drop {d : Bytes} {i : Nat} {b : UInt8} {tl : Bytes} (h : d.drop i = b :: tl) :
    Go.getAt d (i : Int) = .ok b.toNat ∧ tl = d.drop (i + 1) ∧ i < d.length := by
  have hi : i < d.length := by
    cases Nat.lt_or_ge i d.length with
    | inl h' => exact h'
    | inr h' => rw [List.drop_eq_nil_of_le h'] at h; simp at h
  have hb : d[i]? = some b := by
    have := List.getElem?_drop (xs := d) (i := i) (j := 0)
    rw [h] at this; simpa using this.symm
  have htl : tl = d.drop (i + 1) := by
    have : (d.drop i).tail = d.drop (i + 1) := by simp [List.tail_drop]
    rw [h] at this; simpa using this
  refine ⟨?_, htl, hi⟩
  unfold Go.getAt
  have : ¬ ((i : Int) < 0) := by omega
  simp [this, hb]

theorem drop_nil_of_ge {d : Bytes} {i : Nat} (h : d.drop i = []) : d.length ≤ i := by
  simpa using h

/-- a 7-bit group placed above an accumulator that fits below it: OR is addition, also after the 64-bit cut -/
theorem or_group_eq (acc x k : Nat) (hacc : acc < 2 ^ (7 * k)) (hk : k ≤ 9) :
    acc ||| ((x % 128 * 2 ^ (7 * k)) % 18446744073709551616) = (acc + x % 128 * 2 ^ (7 * k)) % 18446744073709551616 := by
  have e64 : (18446744073709551616 : Nat) = 2 ^ (64 - 7 * k) * 2 ^ (7 * k) := by
    rw [← Nat.pow_add, show 64 - 7 * k + 7 * k = 64 from by omega]
  have ht : (x % 128 * 2 ^ (7 * k)) % 18446744073709551616 = (x % 128 % 2 ^ (64 - 7 * k)) * 2 ^ (7 * k) := by
    rw [e64, Nat.mul_mod_mul_right]
  have hm : x % 128 % 2 ^ (64 - 7 * k) < 2 ^ (64 - 7 * k) := Nat.mod_lt _ (Nat.two_pow_pos _)
  have hlt : acc + (x % 128 % 2 ^ (64 - 7 * k)) * 2 ^ (7 * k) < 18446744073709551616 := by
    rw [e64]
    calc acc + (x % 128 % 2 ^ (64 - 7 * k)) * 2 ^ (7 * k)
        < 2 ^ (7 * k) + (x % 128 % 2 ^ (64 - 7 * k)) * 2 ^ (7 * k) := by omega
      _ = (x % 128 % 2 ^ (64 - 7 * k) + 1) * 2 ^ (7 * k) := by rw [Nat.add_mul]; omega
      _ ≤ 2 ^ (64 - 7 * k) * 2 ^ (7 * k) := Nat.mul_le_mul_right _ (by omega)
  have hacc64 : acc < 18446744073709551616 := by omega
  rw [Nat.add_mod, Nat.mod_eq_of_lt hacc64, ht, Nat.mod_eq_of_lt hlt,
    Nat.or_comm, Nat.mul_comm, ← Nat.two_pow_add_eq_or_of_lt hacc, Nat.add_comm]

theorem toNat_and_127 (b : UInt8) : b.toNat &&& 127 = b.toNat % 128 :=
  Nat.and_two_pow_sub_one_eq_mod b.toNat 7

/-- what the tag loop returns for an outcome of the model's varint reader (byte count k at cursor i) -/
def lift2 (i k : Nat) : Res (Nat × Nat × Bytes) → Res (Sum (Int × Nat × Nat) Int)
  | .ok (v, n, _) => .ok (Sum.inl (((i + n - k : Nat) : Int), 7 * (n - 1), v))
  | .err e => .err e
  | .panic => .panic

theorem src_Skip_loop2 (d : Bytes) (hd : d.length < 4611686018427387904) :
    ∀ (r i k acc : Nat), d.length - i = r → i ≤ d.length → k ≤ 9 → acc < 2 ^ (7 * k) →
    Xf.runtime_Skip_loop2 (11 - k) d (d.length : Int) (i : Int) (7 * k) acc
      = lift2 i k (skipReadVarint k acc (d.drop i)) := by
  intro r
  induction r with
  | zero =>
    intro i k acc hr hi hk hacc
    have hil : i = d.length := by omega
    subst hil
    rw [show 11 - k = (10 - k) + 1 from by omega]
    unfold Xf.runtime_Skip_loop2
    simp only [List.drop_length, skipReadVarint, lift2]
    have h1 : ¬ (7 * k ≥ 64) := by omega
    simp [h1]
  | succ r ih =>
    intro i k acc hr hi hk hacc
    cases hdrop : d.drop i with
    | nil => have := drop_nil_of_ge hdrop; omega
    | cons b tl =>
      obtain ⟨hget, htl, hlt⟩ := getAt_of_drop hdrop
      rw [show 11 - k = (10 - k) + 1 from by omega]
      unfold Xf.runtime_Skip_loop2
      rw [skipReadVarint]
      have h1 : ¬ (7 * k ≥ 64) := by omega
      have h2 : ¬ ((i : Int) ≥ (d.length : Int)) := by omega
      have h3 : ¬ (k ≥ 10) := by omega
      have hw : wrap64 ((i : Int) + 1) = ((i + 1 : Nat) : Int) := by
        rw [wrap64_id (by omega) (by omega)]; omega
      simp only [h1, h2, h3, decide_false, if_false, hget, Res.bind_ok, hw, toNat_and_127, or_group_eq acc b.toNat k hacc hk,
        Bool.false_eq_true]
      by_cases hb : b.toNat < 128
      · simp only [hb, decide_true, if_true, lift2, Res.pure_eq]
        rw [show i + (k + 1) - k = i + 1 from by omega, show k + 1 - 1 = k from by omega]
      · simp only [hb, decide_false, if_false, Bool.false_eq_true]
        have hs : (7 * k + 7) % 18446744073709551616 = 7 * (k + 1) := by omega
        rw [hs]
        by_cases hk9 : k + 1 ≥ 10
        · -- the tenth byte had its continuation bit set: both report an overflow
          simp only [hk9, if_true, lift2]
          have hk' : k = 9 := by omega
          subst hk'
          show Xf.runtime_Skip_loop2 (0 + 1) d _ _ _ _ = _
          unfold Xf.runtime_Skip_loop2
          simp
        · simp only [hk9, if_false]
          have hx : b.toNat % 128 < 128 := Nat.mod_lt _ (by decide)
          have hbound := varint_acc_bound hacc hx
          have hp : (2 : Nat) ^ (7 * (k + 1)) ≤ 2 ^ 63 := Nat.pow_le_pow_right (by decide) (by omega)
          have hmod : (acc + b.toNat % 128 * 2 ^ (7 * k)) % 18446744073709551616 = acc + b.toNat % 128 * 2 ^ (7 * k) :=
            Nat.mod_eq_of_lt (by
              have : (2 : Nat) ^ 63 < 18446744073709551616 := by decide
              omega)
          rw [hmod, htl]
          have := ih (i + 1) (k + 1) (acc + b.toNat % 128 * 2 ^ (7 * k)) (by omega) (by omega) (by omega) hbound
          rw [show 11 - (k + 1) = 10 - k from by omega] at this
          rw [this]
          cases hX : skipReadVarint (k + 1) (acc + b.toNat % 128 * 2 ^ (7 * k)) (List.drop (i + 1) d) with
          | ok x =>
            obtain ⟨v, n, rest⟩ := x
            have hc := (skipReadVarint_count _ _ _ _ _ _ hX).2
            simp only [lift2]
            rw [show i + 1 + n - (k + 1) = i + n - k from by omega]
          | err e => rfl
          | panic => rfl

/-- the value-skipping loop (wire type 0) -/
def lift3 (i k : Nat) : Res (Nat × Nat × Bytes) → Res (Sum (Int × Nat) Int)
  | .ok (_, n, _) => .ok (Sum.inl (((i + n - k : Nat) : Int), 7 * (n - 1)))
  | .err e => .err e
  | .panic => .panic

theorem src_Skip_loop3 (d : Bytes) (hd : d.length < 4611686018427387904) :
    ∀ (r i k acc : Nat), d.length - i = r → i ≤ d.length → k ≤ 9 →
    Xf.runtime_Skip_loop3 (11 - k) d (d.length : Int) (i : Int) (7 * k)
      = lift3 i k (skipReadVarint k acc (d.drop i)) := by
  intro r
  induction r with
  | zero =>
    intro i k acc hr hi hk
    have hil : i = d.length := by omega
    subst hil
    rw [show 11 - k = (10 - k) + 1 from by omega]
    unfold Xf.runtime_Skip_loop3
    simp only [List.drop_length, skipReadVarint, lift3]
    have h1 : ¬ (7 * k ≥ 64) := by omega
    simp [h1]
  | succ r ih =>
    intro i k acc hr hi hk
    cases hdrop : d.drop i with
    | nil => have := drop_nil_of_ge hdrop; omega
    | cons b tl =>
      obtain ⟨hget, htl, hlt⟩ := getAt_of_drop hdrop
      rw [show 11 - k = (10 - k) + 1 from by omega]
      unfold Xf.runtime_Skip_loop3
      rw [skipReadVarint]
      have h1 : ¬ (7 * k ≥ 64) := by omega
      have h2 : ¬ ((i : Int) ≥ (d.length : Int)) := by omega
      have h3 : ¬ (k ≥ 10) := by omega
      have hw : wrap64 ((i : Int) + 1) = ((i + 1 : Nat) : Int) := by
        rw [wrap64_id (by omega) (by omega)]; omega
      have hw2 : wrap64 (((i + 1 : Nat) : Int) - 1) = (i : Int) := by
        rw [wrap64_id (by omega) (by omega)]; omega
      simp only [h1, h2, h3, decide_false, if_false, hw, hw2, hget, Res.bind_ok, Res.pure_eq, Bool.false_eq_true]
      by_cases hb : b.toNat < 128
      · simp only [hb, decide_true, if_true, lift3]
        rw [show i + (k + 1) - k = i + 1 from by omega, show k + 1 - 1 = k from by omega]
      · simp only [hb, decide_false, if_false, Bool.false_eq_true]
        have hs : (7 * k + 7) % 18446744073709551616 = 7 * (k + 1) := by omega
        rw [hs]
        by_cases hk9 : k + 1 ≥ 10
        · simp only [hk9, if_true, lift3]
          have hk' : k = 9 := by omega
          subst hk'
          show Xf.runtime_Skip_loop3 (0 + 1) d _ _ _ = _
          unfold Xf.runtime_Skip_loop3
          simp
        · simp only [hk9, if_false]
          rw [htl]
          have := ih (i + 1) (k + 1) ((acc + b.toNat % 128 * 2 ^ (7 * k)) % 18446744073709551616) (by omega) (by omega) (by omega)
          rw [show 11 - (k + 1) = 10 - k from by omega] at this
          rw [this]
          cases hX : skipReadVarint (k + 1) ((acc + b.toNat % 128 * 2 ^ (7 * k)) % 18446744073709551616) (List.drop (i + 1) d) with
          | ok x =>
            obtain ⟨v, n, rest⟩ := x
            have hc := (skipReadVarint_count _ _ _ _ _ _ hX).2
            simp only [lift3]
            rw [show i + 1 + n - (k + 1) = i + n - k from by omega]
          | err e => rfl
          | panic => rfl

/-! signed bit operations on 64-bit patterns -/

theorem ofInt64_toInt64 (a : Nat) (ha : a < 18446744073709551616) :
    ((wrap64 (a : Int)) % 18446744073709551616).toNat = a := by
  unfold wrap64; simp only []; split <;> omega

theorem wrap64_natCast_mod (n : Nat) : wrap64 (n : Int) = wrap64 ((n % 18446744073709551616 : Nat) : Int) := by
  unfold wrap64; simp only []
  have : ((n : Int) % 18446744073709551616) = ((n % 18446744073709551616 : Nat) : Int) := by omega
  have h2 : (((n % 18446744073709551616 : Nat) : Int) % 18446744073709551616) = ((n % 18446744073709551616 : Nat) : Int) := by omega
  rw [this, h2]

theorem sbits_toInt64 (op : Nat → Nat → Nat) (a b : Nat) (ha : a < 18446744073709551616) (hb : b < 18446744073709551616) :
    Go.sbits 18446744073709551616 op (wrap64 (a : Int)) (wrap64 (b : Int)) = wrap64 ((op a b % 18446744073709551616 : Nat) : Int) := by
  unfold Go.sbits
  simp only []
  have e1 := ofInt64_toInt64 a ha
  have e2 := ofInt64_toInt64 b hb
  rw [e1, e2]
  unfold wrap64
  simp only []
  have : (((op a b % 18446744073709551616 : Nat) : Int) % 18446744073709551616) = ((op a b : Nat) : Int) % 18446744073709551616 := by omega
  rw [this]
  split <;> split <;> omega


theorem sbits_and_127 (b : Nat) (hb : b < 256) :
    Go.sbits 18446744073709551616 (fun x y => x &&& y) (b : Int) (127 : Int) = ((b % 128 : Nat) : Int) := by
  unfold Go.sbits
  simp only []
  have e1 : ((b : Int) % 18446744073709551616).toNat = b := by omega
  have e2 : ((127 : Int) % 18446744073709551616).toNat = 127 := by decide
  rw [e1, e2, Nat.and_two_pow_sub_one_eq_mod b 7]
  have : (((b % 2 ^ 7 : Nat) : Int) % 18446744073709551616) = ((b % 128 : Nat) : Int) := by omega
  rw [this]
  split <;> omega

/-- the length loop (wire type 2): the signed accumulator is the signed reading of the model's accumulator -/
def lift4 (i k : Nat) : Res (Nat × Nat × Bytes) → Res (Sum (Int × Int × Nat) Int)
  | .ok (v, n, _) => .ok (Sum.inl (((i + n - k : Nat) : Int), wrap64 (v : Int), 7 * (n - 1)))
  | .err e => .err e
  | .panic => .panic

theorem length_step (acc b k : Nat) (hb : b < 256) (hacc : acc < 2 ^ (7 * k)) (hk : k ≤ 9) :
    Go.sbits 18446744073709551616 (fun x y => x ||| y) (wrap64 (acc : Int))
      (wrap64 ((Go.sbits 18446744073709551616 (fun x y => x &&& y) (b : Int) (127 : Int)) * 2 ^ (7 * k)))
    = wrap64 (((acc + b % 128 * 2 ^ (7 * k)) % 18446744073709551616 : Nat) : Int) := by
  rw [sbits_and_127 b hb]
  have hc : (((b % 128 : Nat) : Int) * 2 ^ (7 * k)) = ((b % 128 * 2 ^ (7 * k) : Nat) : Int) := by
    simp [Int.natCast_mul, Int.natCast_pow]
  rw [hc, wrap64_natCast_mod (b % 128 * 2 ^ (7 * k))]
  have hacc64 : acc < 18446744073709551616 := by
    have : (2 : Nat) ^ (7 * k) ≤ 2 ^ 63 := Nat.pow_le_pow_right (by decide) (by omega)
    have : (2 : Nat) ^ 63 < 18446744073709551616 := by decide
    omega
  rw [sbits_toInt64 _ acc _ hacc64 (Nat.mod_lt _ (by decide))]
  show wrap64 ((((acc ||| (b % 128 * 2 ^ (7 * k)) % 18446744073709551616) % 18446744073709551616 : Nat)) : Int) = _
  rw [or_group_eq acc b k hacc hk, Nat.mod_mod]


theorem src_Skip_loop4 (d : Bytes) (hd : d.length < 4611686018427387904) :
    ∀ (r i k acc : Nat), d.length - i = r → i ≤ d.length → k ≤ 9 → acc < 2 ^ (7 * k) →
    Xf.runtime_Skip_loop4 (11 - k) d (d.length : Int) (i : Int) (wrap64 (acc : Int)) (7 * k)
      = lift4 i k (skipReadVarint k acc (d.drop i)) := by
  intro r
  induction r with
  | zero =>
    intro i k acc hr hi hk hacc
    have hil : i = d.length := by omega
    subst hil
    rw [show 11 - k = (10 - k) + 1 from by omega]
    unfold Xf.runtime_Skip_loop4
    simp only [List.drop_length, skipReadVarint, lift4]
    have h1 : ¬ (7 * k ≥ 64) := by omega
    simp [h1]
  | succ r ih =>
    intro i k acc hr hi hk hacc
    cases hdrop : d.drop i with
    | nil => have := drop_nil_of_ge hdrop; omega
    | cons b tl =>
      obtain ⟨hget, htl, hlt⟩ := getAt_of_drop hdrop
      rw [show 11 - k = (10 - k) + 1 from by omega]
      unfold Xf.runtime_Skip_loop4
      rw [skipReadVarint]
      have h1 : ¬ (7 * k ≥ 64) := by omega
      have h2 : ¬ ((i : Int) ≥ (d.length : Int)) := by omega
      have h3 : ¬ (k ≥ 10) := by omega
      have hw : wrap64 ((i : Int) + 1) = ((i + 1 : Nat) : Int) := by
        rw [wrap64_id (by omega) (by omega)]; omega
      have hb256 : b.toNat < 256 := by have := b.toNat_lt; omega
      simp only [h1, h2, h3, decide_false, if_false, hget, Res.bind_ok, hw, length_step acc b.toNat k hb256 hacc hk,
        Bool.false_eq_true]
      by_cases hb : b.toNat < 128
      · simp only [hb, decide_true, if_true, lift4, Res.pure_eq]
        rw [show i + (k + 1) - k = i + 1 from by omega, show k + 1 - 1 = k from by omega]
      · simp only [hb, decide_false, if_false, Bool.false_eq_true]
        have hs : (7 * k + 7) % 18446744073709551616 = 7 * (k + 1) := by omega
        rw [hs]
        by_cases hk9 : k + 1 ≥ 10
        · simp only [hk9, if_true, lift4]
          have hk' : k = 9 := by omega
          subst hk'
          show Xf.runtime_Skip_loop4 (0 + 1) d _ _ _ _ = _
          unfold Xf.runtime_Skip_loop4
          simp
        · simp only [hk9, if_false]
          have hx : b.toNat % 128 < 128 := Nat.mod_lt _ (by decide)
          have hbound := varint_acc_bound hacc hx
          have hp : (2 : Nat) ^ (7 * (k + 1)) ≤ 2 ^ 63 := Nat.pow_le_pow_right (by decide) (by omega)
          have hmod : (acc + b.toNat % 128 * 2 ^ (7 * k)) % 18446744073709551616 = acc + b.toNat % 128 * 2 ^ (7 * k) :=
            Nat.mod_eq_of_lt (by
              have : (2 : Nat) ^ 63 < 18446744073709551616 := by decide
              omega)
          rw [hmod, htl]
          have := ih (i + 1) (k + 1) (acc + b.toNat % 128 * 2 ^ (7 * k)) (by omega) (by omega) (by omega) hbound
          rw [show 11 - (k + 1) = 10 - k from by omega] at this
          rw [this]
          cases hX : skipReadVarint (k + 1) (acc + b.toNat % 128 * 2 ^ (7 * k)) (List.drop (i + 1) d) with
          | ok x =>
            obtain ⟨v, n, rest⟩ := x
            have hc := (skipReadVarint_count _ _ _ _ _ _ hX).2
            simp only [lift4]
            rw [show i + 1 + n - (k + 1) = i + n - k from by omega]
          | err e => rfl
          | panic => rfl

end Pulsar
