/-
  C03 — decoding against the reference: assembly of the helper developments.

  * DecodeRefReaders : varint / tag / scalar / packed-run / unknown-record agreement
  * DecodeRefEntry   : map-entry loops
  * DecodeRefKnown   : per-shape handling of declared fields
  * DecodeRefLoop    : record loop and tree recursion (`closure_agree`)
  * DecodeRefWalk    : the reference decoder's results pass the `checkInitialized` walk
  * DecodeRefTyped   : so do well-typed junk-free merge targets
  * DecodeRefStrict  : strict acceptance ⇒ plain acceptance
-/
import Pulsar.Typing
import Pulsar.Proofs.Runtime
import Pulsar.Proofs.DecodeRefLoop
import Pulsar.Proofs.DecodeRefTyped
import Pulsar.Proofs.DecodeRefStrict
namespace Pulsar

/-- The closure on the start value, plus the `checkInitialized` walk on its result. -/
theorem unmarshal_agree_start (S : Schema) (o : UOpts) (i : Nat) (start : Val) (bs : Bytes) (v : Val)
    (hl : bs.length < 9223372036854775808)
    (hnn : start.isNone = false) (hnp : NoPanic S i start)
    (h : specDecodeInto true S o (bs.length + 1) 10000 i start bs = .ok v) :
    implUnmarshalClosure S o (bs.length + 1) 10000 i start bs = .ok v ∧
      walkPanics S (bs.length + 2) i v = false := by
  obtain ⟨hc, _⟩ := closure_agree S o (bs.length + 1) 10000 10000 i start bs v
    (Or.inl ⟨by omega, rfl⟩) hnn hl h
  exact ⟨hc, walkPanics_eq_false S _ i v⟩

theorem unmarshal_agree (S : Schema) (o : UOpts) (i : Nat) (m0 : Val) (bs : Bytes) (v : Val)
    (hl : bs.length < 9223372036854775808)
    (hnn : o.merge = false → m0.isNone = false)
    (hm : o.merge = false ∨ msgOK S false (m0.depth + 1) i m0 = true)
    (h : specUnmarshalStrict S o i m0 bs = .ok v) :
    implUnmarshal S o i m0 bs = .ok v := by
  unfold specUnmarshalStrict at h
  unfold implUnmarshal
  cases hmerge : o.merge with
  | false =>
    have hn := hnn hmerge
    simp only [hmerge, Bool.false_eq_true, if_false, hn] at h ⊢
    obtain ⟨hc, hw⟩ :=
      unmarshal_agree_start S o i _ bs v hl (emptyMsg_isNone S i) (noPanic_all S i _) h
    simp [hc, hw]
  | true =>
    simp only [hmerge, if_true] at h ⊢
    have hok : msgOK S false (m0.depth + 1) i m0 = true := by
      rcases hm with hm | hm
      · rw [hmerge] at hm; exact absurd hm (by simp)
      · exact hm
    obtain ⟨s, u, rfl⟩ := msgOK_isMsg hok
    obtain ⟨hc, hw⟩ := unmarshal_agree_start S o i _ bs v hl rfl (msgOK_noPanic hok) h
    simp [hc, hw]

theorem strict_implies_reference (S : Schema) (o : UOpts) (i : Nat) (m0 : Val) (bs : Bytes) (v : Val)
    (h : specUnmarshalStrict S o i m0 bs = .ok v) : specUnmarshal S o i m0 bs = .ok v :=
  strict_into S o _ _ _ _ _ _ h

end Pulsar
