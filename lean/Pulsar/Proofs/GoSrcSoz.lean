/-
  Pulsar.Proofs.GoSrcSoz — runtime.Soz
  (function translated from the Go source on every run, `Pulsar/ExtractedFns.lean`, related to the hand-written
  model; see Pulsar/Proofs/GoSrcBase.lean).
-/
import Pulsar.Proofs.GoSrcSov
namespace Pulsar
open Pulsar Pulsar.Timepb

theorem src_Soz (x : Nat) (hx : x < 18446744073709551616) : Xf.runtime_Soz x = .ok (soz x : Int) := by
  unfold Xf.runtime_Soz soz
  have e : Int.toNat (((wrap64 (x : Int)) / (9223372036854775808 : Int)) % 18446744073709551616)
      = (if x < 9223372036854775808 then 0 else 18446744073709551615) := by
    simp only [wrap64]
    split <;> split <;> omega
  rw [e, src_Sov _ (by
    apply Nat.xor_lt_two_pow (n := 64)
    · exact Nat.mod_lt _ (by decide)
    · split <;> decide)]
  rfl


end Pulsar
