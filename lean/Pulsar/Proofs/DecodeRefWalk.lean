/-
  protobuf-go's `checkInitialized` walk over a generated message can no longer panic: since the
  nil-receiver fix (c454db6) `Range` on a nil message visits nothing and since 424cbe1 a typed-nil oneof
  wrapper is skipped. The model's `walkPanics` is therefore constantly false; this file proves it.
  (Before those fixes this file carried the invariant "the decoder never stores a typed-nil wrapper".)
-/
import Pulsar.Proofs.DecodeRefKnown
namespace Pulsar

theorem walk_false (S : Schema) : ∀ (fuel : Nat),
    (∀ i v, walkPanics S fuel i v = false) ∧ (∀ l, walkFields S fuel l = false) := by
  intro fuel
  induction fuel with
  | zero =>
    have h0 : ∀ i v, walkPanics S 0 i v = false := fun i v => by simp [walkPanics]
    refine ⟨h0, ?_⟩
    intro l
    induction l with
    | nil => simp [walkFields]
    | cons p tl ih =>
      obtain ⟨f, v⟩ := p
      rw [walkFields.eq_def]
      simp only [ih, Bool.or_false]
      split <;> simp [h0, nilRangePanics]
  | succ fuel ih =>
    obtain ⟨ihw, ihf⟩ := ih
    have hf : ∀ l, walkFields S (fuel + 1) l = false := by
      intro l
      induction l with
      | nil => simp [walkFields]
      | cons p tl ihl =>
        obtain ⟨f, v⟩ := p
        rw [walkFields.eq_def]
        simp only [ihl, Bool.or_false]
        -- the per-field test only calls `walkPanics` at the same fuel on children; prove it by
        -- strong reasoning on the definition of `walkPanics (fuel+1)` in terms of `walkFields fuel`
        have hw : ∀ i x, walkPanics S (fuel + 1) i x = false := by
          intro i x
          rw [walkPanics.eq_def]
          simp only [nilRangePanics]
          split <;> simp [ihf]
        split <;> simp [hw]
    refine ⟨?_, hf⟩
    intro i v
    rw [walkPanics.eq_def]
    simp only [nilRangePanics]
    split <;> simp [ihf]

theorem walkPanics_eq_false (S : Schema) (fuel i : Nat) (v : Val) : walkPanics S fuel i v = false :=
  (walk_false S fuel).1 i v

/-- `checkInitialized` does not panic on `v`, whatever the traversal fuel. -/
def NoPanic (S : Schema) (i : Nat) (v : Val) : Prop := ∀ fuel, walkPanics S fuel i v = false

theorem noPanic_all (S : Schema) (i : Nat) (v : Val) : NoPanic S i v :=
  fun fuel => walkPanics_eq_false S fuel i v

end Pulsar
