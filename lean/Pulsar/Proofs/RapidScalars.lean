/-
  Pulsar.Proofs.RapidScalars — properties of the *stored scalars* of the draw-level model that depend on
  the draws being in range: a generic per-kind scalar predicate `sp` lifted to messages (`spOK`, of the
  same shape as `utf8OK`), preserved by every layer of `setFields` when the consumed draws are in the
  range of their generators (`InR`); instances: valid UTF-8 strings (`utf8OK`) and declared enum numbers
  (`enumsOK`). The layers are stated for an arbitrary per-draw predicate `p` (`InRP p`; `InR = InRP Ev.inRange`),
  so that `p = fun _ => true` gives statements about all draw sequences, and for an arbitrary field mapper
  (`SpGen`: what the instance must show for drawn AND mapped scalars).
-/
import Pulsar.Proofs.RapidModel
namespace Pulsar.Rapidproto
open Pulsar

/-! ### the generic predicate -/

def spElem (sp : Kind → Val → Bool) (child : Nat → Val → Bool) (e : Elem) (v : Val) : Bool :=
  match e with
  | .scalar k => sp k v
  | .message i => v.isNone || child i v

def spEntry (sp : Kind → Val → Bool) (child : Nat → Val → Bool) (kk : Kind) (e : Elem) (en : Val) : Bool :=
  sp kk en.key && spElem sp child e en.value

def spSlot (sp : Kind → Val → Bool) (child : Nat → Val → Bool) (f : FieldDesc) (v : Val) : Bool :=
  match f.shape with
  | .singular => spElem sp child f.elem v
  | .repeated _ => v.elems.all (spElem sp child f.elem)
  | .map kk => v.elems.all (spEntry sp child kk f.elem)
  | .oneof _ => (match v with | .one x => spElem sp child f.elem x | _ => true)

/-- `mp depth i m`: a per-message predicate (depth of the message in the tree, its type, the message) -/
def spOK (sp : Kind → Val → Bool) (mp : Nat → Nat → Val → Bool) (S : Schema) : Nat → Nat → Nat → Val → Bool
  | 0, _, _, _ => true
  | fuel+1, d, i, v =>
    mp d i v && ((S.msg i).fields.zip v.slots).all (fun p => spSlot sp (spOK sp mp S fuel (d+1)) p.1 p.2)

/-- the precondition on the message `setFields` starts from: the weaker per-message predicate `mp0` for the
    message itself (what an empty message satisfies), `spOK` for everything below -/
def spPre (sp : Kind → Val → Bool) (mp0 mp : Nat → Nat → Val → Bool) (S : Schema) : Nat → Nat → Nat → Val → Bool
  | 0, _, _, _ => true
  | fuel+1, d, i, v =>
    mp0 d i v && ((S.msg i).fields.zip v.slots).all (fun p => spSlot sp (spOK sp mp S fuel (d+1)) p.1 p.2)

structure MpOK (S : Schema) (mp0 mp : Nat → Nat → Val → Bool) : Prop where
  weaken : ∀ d i v, mp d i v = true → mp0 d i v = true
  empty : ∀ d i, mp0 d i (emptyMsg S i) = true
  none : ∀ d i, mp0 d i Val.none = true

/-- the zero value of every kind satisfies `sp` -/
def SpZero (sp : Kind → Val → Bool) : Prop := ∀ k, sp k (if k.isBlob then .blob false [] else .bits 0) = true

theorem rp_spSlot_zero {sp : Kind → Val → Bool} (hz : SpZero sp) (child : Nat → Val → Bool) (f : FieldDesc) :
    spSlot sp child f f.zero = true := by
  unfold spSlot FieldDesc.zero
  cases hs : f.shape <;> cases he : f.elem <;> simp [spElem, Val.elems, Val.isNone]
  exact hz _

theorem rp_spPre_emptyMsg {sp : Kind → Val → Bool} {mp0 mp : Nat → Nat → Val → Bool} (hz : SpZero sp) (S : Schema)
    (hm : MpOK S mp0 mp) (n d i : Nat) : spPre sp mp0 mp S n d i (emptyMsg S i) = true := by
  cases n with
  | zero => rfl
  | succ n =>
    simp only [spPre, hm.empty d i, Bool.true_and]
    simp only [emptyMsg, Val.slots]
    exact all_zip_zero (fun f v => spSlot sp (spOK sp mp S n (d+1)) f v) (rp_spSlot_zero hz _) _

theorem rp_spPre_none {sp : Kind → Val → Bool} {mp0 mp : Nat → Nat → Val → Bool} (S : Schema)
    (hm : MpOK S mp0 mp) (n d i : Nat) : spPre sp mp0 mp S n d i .none = true := by
  cases n <;> simp [spPre, Val.slots, hm.none d i]

theorem rp_spPre_of_spOK {sp : Kind → Val → Bool} {mp0 mp : Nat → Nat → Val → Bool} (S : Schema)
    (hm : MpOK S mp0 mp) {n d i : Nat} {v : Val} (h : spOK sp mp S n d i v = true) :
    spPre sp mp0 mp S n d i v = true := by
  cases n with
  | zero => rfl
  | succ n =>
    simp only [spOK, spPre, Bool.and_eq_true] at h ⊢
    exact ⟨hm.weaken _ _ _ h.1, h.2⟩

/-! ### list helpers -/

theorem rp_all_set' {α} (p : α → Bool) : ∀ (l : List α) (i : Nat) (x : α), l.all p = true →
    (i < l.length → p x = true) → (l.set i x).all p = true
  | [], _, _, _, _ => rfl
  | a :: as, 0, x, h, hx => by
    simp only [List.all_cons, Bool.and_eq_true, List.set_cons_zero] at *
    exact ⟨hx (by simp), h.2⟩
  | a :: as, i+1, x, h, hx => by
    simp only [List.all_cons, Bool.and_eq_true, List.set_cons_succ] at *
    exact ⟨h.1, rp_all_set' p as i x h.2 (fun hi => hx (by simp; omega))⟩

theorem rp_zip_all_set {P : FieldDesc × Val → Bool} {fs : List FieldDesc} {slots : List Val} {j : Nat}
    {f : FieldDesc} (x : Val) (h : (fs.zip slots).all P = true) (hf : fs[j]? = some f)
    (hx : j < slots.length → P (f, x) = true) : (fs.zip (slots.set j x)).all P = true := by
  rw [zip_set_right fs slots j x f hf]
  refine rp_all_set' P _ j (f, x) h (fun hj => hx ?_)
  simp at hj; omega

theorem rp_zip_all_clearGroup {P : FieldDesc × Val → Bool} {fs : List FieldDesc} {slots : List Val} (g : Nat)
    (hnone : ∀ f : FieldDesc, f.group? = some g → P (f, Val.none) = true)
    (h : (fs.zip slots).all P = true) : (fs.zip (clearGroup fs g slots)).all P = true := by
  rw [zip_clearGroup, List.all_map]
  rw [List.all_eq_true] at *
  intro p hp
  simp only [Function.comp]
  cases hg : p.1.group? == some g
  · simpa using h p hp
  · simp only [if_true]
    exact hnone _ (by simpa using hg)

theorem rp_getD_mem_zip {fs : List FieldDesc} {slots : List Val} {j : Nat} {f : FieldDesc}
    (hf : fs[j]? = some f) (hj : j < slots.length) : (f, slots.getD j Val.none) ∈ fs.zip slots :=
  mem_zip_getD Val.none fs slots j f hf hj

theorem rp_all_append_one' {p : Val → Bool} {es : List Val} {v : Val} (h : es.all p = true) (hv : p v = true) :
    (es ++ [v]).all p = true := by
  simp [List.all_append, h, hv]

theorem rp_all_sort' {p : Val → Bool} (kk : Kind) {es : List Val} (h : es.all p = true) :
    (sortEntries kk es).all p = true := by
  rw [List.all_eq_true] at *
  exact fun e he => h e ((rf_sortEntries_perm kk es).mem_iff.1 he)

theorem rp_all_mapDel' {p : Val → Bool} (kk : Kind) {es : List Val} (k : Val) (h : es.all p = true) :
    (mapDel kk es k).all p = true := by
  rw [List.all_eq_true] at *
  exact fun e he => h e (List.mem_filter.1 he).1

theorem rp_all_take' {p : Val → Bool} {es : List Val} (n : Nat) (h : es.all p = true) : (es.take n).all p = true := by
  rw [List.all_eq_true] at *
  exact fun e he => h e (List.mem_of_mem_take he)

/-! ### the layers -/

section
variable {p : Ev → Bool} {sp : Kind → Val → Bool} {mp0 mp : Nat → Nat → Val → Bool} {E : List Int} {o : GenOpts}

/-- what the instance must provide: a scalar generated from in-range draws satisfies `sp` -/
def SpGen (p : Ev → Bool) (sp : Kind → Val → Bool) (o : GenOpts) (E : List Int) : Prop :=
  ∀ k ds, Post (genScalar o E k ds) (fun v tr => InRP p tr → sp k v = true)

theorem rp_sp_listScalars (hg : SpGen p sp o E) (k : Kind) (child : Nat → Val → Bool) :
    ∀ (n : Nat) (es : List Val) (ds : List Draw),
    Post (listScalars o E k n es ds) (fun es' tr => InRP p tr →
      es.all (spElem sp child (.scalar k)) = true → es'.all (spElem sp child (.scalar k)) = true)
  | 0, es, ds => rp_post_ok (fun _ h => h)
  | n+1, es, ds => by
    simp only [listScalars]
    refine rp_post_bind (hg k ds) (fun v rest tr _ hv => ?_)
    refine rp_post_mono (rp_sp_listScalars hg k child n (es ++ [v]) rest) (fun es' tr' h' hin hes => ?_)
    exact h' hin.right (rp_all_append_one' hes (by simpa [spElem] using hv hin.left))

/-- the child (`setFields` at depth `d`) establishes `spOK … n d` from `spPre … n d` when its draws are in range -/
def ChildSp (p : Ev → Bool) (sp : Kind → Val → Bool) (mp0 mp : Nat → Nat → Val → Bool) (S : Schema) (n d : Nat)
    (child : Nat → Val → List Draw → R (Bool × Val)) : Prop :=
  ∀ mi v ds, Post (child mi v ds) (fun r tr => InRP p tr →
    spPre sp mp0 mp S n d mi v = true → spOK sp mp S n d mi r.2 = true)

theorem rp_sp_listMsgs (hz : SpZero sp) (S : Schema) (hm : MpOK S mp0 mp) {n d : Nat}
    {child : Nat → Val → List Draw → R (Bool × Val)}
    (hc : ChildSp p sp mp0 mp S n d child) (mi : Nat) : ∀ (cnt i : Nat) (es : List Val) (ds : List Draw),
    Post (listMsgs S child mi cnt i es ds) (fun es' tr => InRP p tr →
      es.all (spElem sp (spOK sp mp S n d) (.message mi)) = true →
      es'.all (spElem sp (spOK sp mp S n d) (.message mi)) = true)
  | 0, _, es, ds => rp_post_ok (fun _ h => h)
  | cnt+1, i, es, ds => by
    simp only [listMsgs]
    refine rp_post_bind (hc mi _ ds) (fun r rest tr _ hr => ?_)
    have h1 : InRP p tr → es.all (spElem sp (spOK sp mp S n d) (.message mi)) = true →
        (es ++ [r.2]).all (spElem sp (spOK sp mp S n d) (.message mi)) = true := fun hin hes =>
      rp_all_append_one' hes (by simp [spElem, hr hin (rp_spPre_emptyMsg hz S hm n d mi)])
    split
    · exact rp_post_mono (rp_sp_listMsgs hz S hm hc mi cnt (i+1) _ rest)
        (fun es' tr' h' hin hes => h' hin.right (h1 hin.left hes))
    · split
      · exact rp_post_mono (rp_sp_listMsgs hz S hm hc mi cnt (i+1) _ rest)
          (fun es' tr' h' hin hes => h' hin.right (rp_all_take' i (h1 hin.left hes)))
      · exact rp_post_stuck

theorem rp_sp_mapScalars (hg : SpGen p sp o E) (kk vk : Kind) (child : Nat → Val → Bool) :
    ∀ (n : Nat) (es : List Val) (ds : List Draw),
    Post (mapScalars o E kk vk n es ds) (fun es' tr => InRP p tr →
      es.all (spEntry sp child kk (.scalar vk)) = true → es'.all (spEntry sp child kk (.scalar vk)) = true)
  | 0, es, ds => rp_post_ok (fun _ h => h)
  | n+1, es, ds => by
    simp only [mapScalars]
    refine rp_post_bind (hg kk ds) (fun k rest tr _ hk => ?_)
    refine rp_post_bind (hg vk rest) (fun v rest' tr' _ hv => ?_)
    refine rp_post_mono (rp_sp_mapScalars hg kk vk child n _ rest') (fun es' tr'' h' hin hes => ?_)
    refine h' hin.right.right (rp_all_sort' kk (all_mapPut _ es k v hes ?_))
    simp [spEntry, spElem, hk hin.left, hv hin.right.left]

theorem rp_sp_mapMsgs (hg : SpGen p sp o E) (hz : SpZero sp) (S : Schema) (hm : MpOK S mp0 mp) {n d : Nat}
    {child : Nat → Val → List Draw → R (Bool × Val)} (hc : ChildSp p sp mp0 mp S n d child) (kk : Kind) (mi : Nat) :
    ∀ (cnt : Nat) (es : List Val) (ds : List Draw),
    Post (mapMsgs S o E child kk mi cnt es ds) (fun es' tr => InRP p tr →
      es.all (spEntry sp (spOK sp mp S n d) kk (.message mi)) = true →
      es'.all (spEntry sp (spOK sp mp S n d) kk (.message mi)) = true)
  | 0, es, ds => rp_post_ok (fun _ h => h)
  | cnt+1, es, ds => by
    simp only [mapMsgs]
    refine rp_post_bind (hg kk ds) (fun k rest tr _ hk => ?_)
    refine rp_post_bind (hc mi _ rest) (fun r rest' tr' _ hr => ?_)
    refine rp_post_mono (rp_sp_mapMsgs hg hz S hm hc kk mi cnt _ rest') (fun es' tr'' h' hin hes => ?_)
    refine h' hin.right.right ?_
    split
    · refine rp_all_sort' kk (all_mapPut _ es k r.2 hes ?_)
      have hcur : spPre sp mp0 mp S n d mi (valueOr (findEntry kk es k) (emptyMsg S mi)) = true := by
        cases hf : findEntry kk es k with
        | none => exact rp_spPre_emptyMsg hz S hm n d mi
        | some en =>
          have := List.all_eq_true.1 hes en (List.mem_of_find?_eq_some hf)
          simp only [spEntry, spElem, Bool.and_eq_true, Bool.or_eq_true] at this
          rcases this.2 with h | h
          · -- a nil value: not a message; `setFields` is then run on it as is
            simp only [valueOr]
            cases hv : en.value <;> simp [hv, Val.isNone] at h
            exact rp_spPre_none S hm n d mi
          · exact rp_spPre_of_spOK S hm (by simpa [valueOr] using h)
      simp [spEntry, spElem, hk hin.left, hr hin.right.left hcur]
    · exact rp_all_mapDel' kk k hes

theorem rp_sp_genField (hg : SpGen p sp o E) (hz : SpZero sp) (S : Schema) (hm : MpOK S mp0 mp) {n d : Nat}
    {child : Nat → Val → List Draw → R (Bool × Val)} (hc : ChildSp p sp mp0 mp S n d child)
    (fs : List FieldDesc) (f : FieldDesc) (j : Nat) (slots : List Val) (ds : List Draw) (hf : fs[j]? = some f) :
    Post (genField S o E child fs f j slots ds) (fun slots' tr => InRP p tr →
      (fs.zip slots).all (fun p => spSlot sp (spOK sp mp S n d) p.1 p.2) = true →
      (fs.zip slots').all (fun p => spSlot sp (spOK sp mp S n d) p.1 p.2) = true) := by
  have hcur : (fs.zip slots).all (fun p => spSlot sp (spOK sp mp S n d) p.1 p.2) = true → j < slots.length →
      spSlot sp (spOK sp mp S n d) f (slots.getD j .none) = true := fun h hj =>
    List.all_eq_true.1 h _ (rp_getD_mem_zip hf hj)
  unfold genField
  cases hs : f.shape with
  | singular =>
    cases he : f.elem with
    | scalar k =>
      simp only []
      refine rp_post_map (rp_post_mono (hg k ds) (fun v tr hv hin hall => ?_))
      exact rp_zip_all_set _ hall hf (fun _ => by simp [spSlot, hs, he, spElem, hv hin])
    | message mi =>
      simp only []
      refine rp_post_map (rp_post_mono (hc mi _ ds) (fun r tr hr hin hall => ?_))
      refine rp_zip_all_set _ hall hf (fun hj => ?_)
      have h0 := hcur hall hj
      simp only [spSlot, hs, he, spElem, Bool.or_eq_true] at h0 ⊢
      split
      · refine Or.inr (hr hin ?_)
        split
        · exact rp_spPre_emptyMsg hz S hm n d mi
        · rename_i hn
          rcases h0 with h | h
          · exact absurd h hn
          · exact rp_spPre_of_spOK S hm h
      · simp [Val.isNone]
  | repeated p =>
    cases he : f.elem with
    | scalar k =>
      simp only []
      refine rp_post_bind (rp_post_draw _ ds) (fun c rest tr _ _ => ?_)
      refine rp_post_map (rp_post_mono (rp_sp_listScalars hg k (spOK sp mp S n d) _ _ rest)
        (fun es' tr' h' hin hall => ?_))
      refine rp_zip_all_set _ hall hf (fun hj => ?_)
      have h0 := hcur hall hj
      simp only [spSlot, hs, he] at h0 ⊢
      exact h' hin.right h0
    | message mi =>
      simp only []
      refine rp_post_bind (rp_post_draw _ ds) (fun c rest tr _ _ => ?_)
      refine rp_post_map (rp_post_mono (rp_sp_listMsgs hz S hm hc mi _ 0 _ rest)
        (fun es' tr' h' hin hall => ?_))
      refine rp_zip_all_set _ hall hf (fun hj => ?_)
      have h0 := hcur hall hj
      simp only [spSlot, hs, he] at h0 ⊢
      exact h' hin.right h0
  | map kk =>
    cases he : f.elem with
    | scalar vk =>
      simp only []
      refine rp_post_bind (rp_post_draw _ ds) (fun c rest tr _ _ => ?_)
      refine rp_post_map (rp_post_mono (rp_sp_mapScalars hg kk vk (spOK sp mp S n d) _ _ rest)
        (fun es' tr' h' hin hall => ?_))
      refine rp_zip_all_set _ hall hf (fun hj => ?_)
      have h0 := hcur hall hj
      simp only [spSlot, hs, he] at h0 ⊢
      exact h' hin.right h0
    | message mi =>
      simp only []
      refine rp_post_bind (rp_post_draw _ ds) (fun c rest tr _ _ => ?_)
      refine rp_post_map (rp_post_mono (rp_sp_mapMsgs hg hz S hm hc kk mi _ _ rest)
        (fun es' tr' h' hin hall => ?_))
      refine rp_zip_all_set _ hall hf (fun hj => ?_)
      have h0 := hcur hall hj
      simp only [spSlot, hs, he] at h0 ⊢
      exact h' hin.right h0
  | oneof g =>
    have hnone : ∀ f' : FieldDesc, f'.group? = some g →
        (fun p : FieldDesc × Val => spSlot sp (spOK sp mp S n d) p.1 p.2) (f', Val.none) = true := by
      intro f' hg'
      unfold FieldDesc.group? at hg'
      cases hs' : f'.shape <;> simp [hs'] at hg'
      simp [spSlot, hs']
    cases he : f.elem with
    | scalar k =>
      simp only []
      refine rp_post_map (rp_post_mono (hg k ds) (fun v tr hv hin hall => ?_))
      exact rp_zip_all_set _ (rp_zip_all_clearGroup g hnone hall) hf
        (fun _ => by simp [spSlot, hs, he, spElem, hv hin])
    | message mi =>
      simp only []
      split
      · rename_i x hx
        refine rp_post_map (rp_post_mono (hc mi _ ds) (fun r tr hr hin hall => ?_))
        refine rp_zip_all_set _ hall hf (fun hj => ?_)
        have h0 := hcur hall hj
        rw [hx] at h0
        simp only [spSlot, hs, he, spElem, Bool.or_eq_true] at h0
        have hx' : spPre sp mp0 mp S n d mi x = true := by
          rcases h0 with h | h
          · cases x <;> simp [Val.isNone] at h
            exact rp_spPre_none S hm n d mi
          · exact rp_spPre_of_spOK S hm h
        cases hr1 : r.1
        · simp [spSlot, hs]
        · simp [spSlot, hs, he, spElem, hr hin hx']
      · refine rp_post_map (rp_post_mono (hc mi _ ds) (fun r tr hr hin hall => ?_))
        refine rp_zip_all_set _ (rp_zip_all_clearGroup g hnone hall) hf (fun _ => ?_)
        cases hr1 : r.1
        · simp [spSlot, hs]
        · simp [spSlot, hs, he, spElem, hr hin (rp_spPre_emptyMsg hz S hm n d mi)]

theorem rp_sp_genFields (hg : SpGen p sp o E) (hz : SpZero sp) (S : Schema) (hm : MpOK S mp0 mp)
    {n d : Nat} {child : Nat → Val → List Draw → R (Bool × Val)} (hc : ChildSp p sp mp0 mp S n d child)
    (fs : List FieldDesc) :
    ∀ (rem : List FieldDesc) (j : Nat) (slots : List Val) (ds : List Draw), fs.drop j = rem →
    Post (genFields S o E child fs j rem slots ds) (fun slots' tr => InRP p tr →
      (fs.zip slots).all (fun p => spSlot sp (spOK sp mp S n d) p.1 p.2) = true →
      (fs.zip slots').all (fun p => spSlot sp (spOK sp mp S n d) p.1 p.2) = true)
  | [], _, slots, ds, _ => rp_post_ok (fun _ h => h)
  | f :: rem, j, slots, ds, hdrop => by
    have hf : fs[j]? = some f := by
      have := congrArg List.head? hdrop
      simpa [List.head?_drop] using this
    have hdrop' : fs.drop (j+1) = rem := by
      have := congrArg List.tail hdrop
      simpa [List.tail_drop] using this
    simp only [genFields]
    refine rp_post_bind (rp_post_draw _ ds) (fun g rest tr _ _ => ?_)
    split
    · exact rp_post_mono (rp_sp_genFields hg hz S hm hc fs rem (j+1) slots rest hdrop')
        (fun _ _ h' hin hall => h' hin.right hall)
    · refine rp_post_bind (rp_sp_genField hg hz S hm hc fs f j slots rest hf) (fun slots' rest' tr' _ h1 => ?_)
      exact rp_post_mono (rp_sp_genFields hg hz S hm hc fs rem (j+1) slots' rest' hdrop')
        (fun _ _ h' hin hall => h' hin.right.right (h1 hin.right.left hall))

/-- what the instance must provide for the per-message predicate: one `setFields` call establishes `mp` for
    the message it returns from `mp0` for the message it was given (in-range draws) -/
def MpStep (p : Ev → Bool) (S : Schema) (o : GenOpts) (E : List Int) (mp0 mp : Nat → Nat → Val → Bool) : Prop :=
  ∀ fuel depth i v ds, Post (setFields S o E fuel depth i v ds) (fun r tr => InRP p tr →
    mp0 depth i v = true → mp depth i r.2 = true)

theorem rp_sp_setFields (hg : SpGen p sp o E) (hz : SpZero sp) (S : Schema) (hm : MpOK S mp0 mp)
    (hstep : MpStep p S o E mp0 mp) :
    ∀ (fuel N depth i : Nat) (v : Val) (ds : List Draw),
    Post (setFields S o E fuel depth i v ds) (fun r tr => InRP p tr →
      spPre sp mp0 mp S N depth i v = true → spOK sp mp S N depth i r.2 = true)
  | fuel, 0, depth, i, v, ds => fun _ _ _ _ _ _ => rfl
  | 0, N+1, depth, i, v, ds => by
    refine rp_post_mono (rp_post_and (hstep 0 depth i v ds) (Q' := fun r _ => r.2 = v) ?_)
      (fun r tr h hin hv => ?_)
    · simp only [setFields]
      split
      · exact rp_post_ok rfl
      · exact rp_post_stuck
    · simp only [spPre, spOK, Bool.and_eq_true] at hv ⊢
      rw [h.2]
      exact ⟨by have := h.1 hin hv.1; rwa [h.2] at this, hv.2⟩
  | fuel+1, n+1, depth, i, v, ds => by
    have hc : ChildSp p sp mp0 mp S n (depth+1) (setFields S o E fuel (depth+1)) :=
      fun mi c ds' => rp_sp_setFields hg hz S hm hstep fuel n (depth+1) mi c ds'
    refine rp_post_mono (rp_post_and (hstep (fuel+1) depth i v ds)
      (Q' := fun r tr => InRP p tr →
        ((S.msg i).fields.zip v.slots).all (fun p => spSlot sp (spOK sp mp S n (depth+1)) p.1 p.2) = true →
        ((S.msg i).fields.zip r.2.slots).all (fun p => spSlot sp (spOK sp mp S n (depth+1)) p.1 p.2) = true) ?_)
      (fun r tr h hin hv => ?_)
    · simp only [setFields]
      split
      · exact rp_post_ok (fun _ h => h)
      · exact rp_post_map (rp_post_mono (rp_sp_genFields hg hz S hm hc _ _ 0 v.slots ds (by simp))
          (fun slots' tr h' hin hv => by simpa [Val.slots] using h' hin hv))
    · simp only [spPre, spOK, Bool.and_eq_true] at hv ⊢
      exact ⟨h.1 hin hv.1, h.2 hin hv.2⟩
end

/-! ### instances: UTF-8 validity and declared enum numbers -/

def mpTrue (_ _ : Nat) (_ : Val) : Bool := true

theorem rp_mpTrue_ok (S : Schema) : MpOK S mpTrue mpTrue := ⟨fun _ _ _ h => h, fun _ _ => rfl, fun _ _ => rfl⟩

theorem rp_mpTrue_step {p : Ev → Bool} (S : Schema) (o : GenOpts) (E : List Int) : MpStep p S o E mpTrue mpTrue :=
  fun _ _ _ _ _ _ _ _ _ _ _ => rfl

def utf8Sp (k : Kind) (v : Val) : Bool := k != .string || utf8Valid v.getBlob

def enumSp (E : List Int) (k : Kind) (v : Val) : Bool := k != .enum || enumDeclared E v

theorem rp_utf8Elem_eq (child : Nat → Val → Bool) (e : Elem) (v : Val) :
    utf8Elem child e v = spElem utf8Sp child e v := by
  cases e with
  | scalar k => cases k <;> simp [utf8Elem, spElem, utf8Sp]
  | message i => rfl

theorem rp_utf8Slot_eq (child : Nat → Val → Bool) (f : FieldDesc) (v : Val) :
    utf8Slot child f v = spSlot utf8Sp child f v := by
  unfold utf8Slot spSlot
  cases f.shape with
  | singular => exact rp_utf8Elem_eq _ _ _
  | repeated p =>
    show v.elems.all (utf8Elem child f.elem) = v.elems.all (spElem utf8Sp child f.elem)
    congr 1; funext x; exact rp_utf8Elem_eq _ _ _
  | map kk =>
    show v.elems.all _ = v.elems.all (spEntry utf8Sp child kk f.elem)
    congr 1; funext en
    simp only [rp_utf8Elem_eq, spEntry, utf8Sp]
  | oneof g => cases v <;> simp only [rp_utf8Elem_eq]

theorem rp_utf8OK_eq (S : Schema) : ∀ (n d i : Nat) (v : Val), utf8OK S n i v = spOK utf8Sp mpTrue S n d i v
  | 0, _, _, _ => rfl
  | n+1, d, i, v => by
    have : utf8OK S n = spOK utf8Sp mpTrue S n (d+1) := by funext i v; exact rp_utf8OK_eq S n (d+1) i v
    simp only [utf8OK, spOK, this, rp_utf8Slot_eq, mpTrue, Bool.true_and]

theorem rp_enumElem_eq (E : List Int) (child : Nat → Val → Bool) (e : Elem) (v : Val) :
    enumElem E child e v = spElem (enumSp E) child e v := by
  cases e with
  | scalar k => cases k <;> simp [enumElem, spElem, enumSp]
  | message i => rfl

theorem rp_enumSlot_eq (E : List Int) (child : Nat → Val → Bool) (f : FieldDesc) (v : Val) :
    enumSlot E child f v = spSlot (enumSp E) child f v := by
  unfold enumSlot spSlot
  cases f.shape with
  | singular => exact rp_enumElem_eq _ _ _ _
  | repeated p =>
    show v.elems.all (enumElem E child f.elem) = v.elems.all (spElem (enumSp E) child f.elem)
    congr 1; funext x; exact rp_enumElem_eq _ _ _ _
  | map kk =>
    show v.elems.all _ = v.elems.all (spEntry (enumSp E) child kk f.elem)
    congr 1; funext en
    simp only [rp_enumElem_eq, spEntry, enumSp]
  | oneof g => cases v <;> simp only [rp_enumElem_eq]

theorem rp_enumsOK_eq (S : Schema) (E : List Int) : ∀ (n d i : Nat) (v : Val),
    enumsOK S E n i v = spOK (enumSp E) mpTrue S n d i v
  | 0, _, _, _ => rfl
  | n+1, d, i, v => by
    have : enumsOK S E n = spOK (enumSp E) mpTrue S n (d+1) := by funext i v; exact rp_enumsOK_eq S E n (d+1) i v
    simp only [enumsOK, spOK, this, rp_enumSlot_eq, mpTrue, Bool.true_and]

theorem rp_utf8_SpZero : SpZero utf8Sp := by
  intro k; cases k <;> simp [utf8Sp, Kind.isBlob, Val.getBlob, utf8Valid]

/-- proto3: the first value of every enum is zero, so `0 ∈ E` for every enum protoc accepts -/
theorem rp_enum_SpZero {E : List Int} (h0 : (0 : Int) ∈ E) : SpZero (enumSp E) := by
  intro k
  cases k <;> simp [enumSp, Kind.isBlob, enumDeclared, Val.getBits]
  exact ⟨0, h0, rfl⟩

theorem rp_inR_single {g : Gen} {d : Draw} (h : InR [⟨g, d⟩]) : g.inRange d = true :=
  h ⟨g, d⟩ (List.mem_singleton.2 rfl)

theorem rp_utf8_SpGen (o : GenOpts) (E : List Int)
    (hmap : ∀ w, o.mapper .string = some w → utf8Valid w.getBlob = true) : SpGen Ev.inRange utf8Sp o E := by
  intro k ds
  unfold genScalar
  split
  · rename_i w hw
    refine rp_post_ok (fun _ => ?_)
    by_cases hk : k = .string
    · subst hk; simp [utf8Sp, hmap w hw]
    · simp [utf8Sp, hk]
  refine rp_post_map (rp_post_mono (rp_post_draw _ ds) (fun d tr h hin => ?_))
  obtain ⟨rfl, _⟩ := h
  have := rp_inR_single hin
  cases k <;> simp [utf8Sp, scalarVal, scalarGen, Gen.inRange, Val.getBlob] at this ⊢
  exact this

theorem rp_enum_SpGen (o : GenOpts) (E : List Int)
    (hmap : ∀ w, o.mapper .enum = some w → enumDeclared E w = true) : SpGen Ev.inRange (enumSp E) o E := by
  intro k ds
  unfold genScalar
  split
  · rename_i w hw
    refine rp_post_ok (fun _ => ?_)
    by_cases hk : k = .enum
    · subst hk; simp [enumSp, hmap w hw]
    · simp [enumSp, hk]
  refine rp_post_map (rp_post_mono (rp_post_draw _ ds) (fun d tr h hin => ?_))
  obtain ⟨rfl, _⟩ := h
  have := rp_inR_single hin
  cases k <;> simp [enumSp, scalarVal, scalarGen, Gen.inRange, enumDeclared, Val.getBits] at this ⊢
  refine ⟨genEnum E d.getInt.toNat, ?_, rfl⟩
  unfold genEnum
  have hi : d.getInt.toNat < E.length := by omega
  rw [List.getD_eq_getElem?_getD, List.getElem?_eq_getElem hi]
  exact List.getElem_mem hi

/-! ### instance: storable unknown-field sets (`unknownOK`; the generator never writes unknown fields) -/

def unkSp (_ : Kind) (_ : Val) : Bool := true

def unkMp (S : Schema) (_ : Nat) (i : Nat) (v : Val) : Bool :=
  unknownRecordsOK (S.msg i).fields v.unknown.length v.unknown

theorem rp_unknownElem_eq (child : Nat → Val → Bool) (e : Elem) (v : Val) :
    unknownElem child e v = spElem unkSp child e v := by
  cases e <;> rfl

theorem rp_unknownSlot_eq (child : Nat → Val → Bool) (f : FieldDesc) (v : Val) :
    unknownSlot child f v = spSlot unkSp child f v := by
  unfold unknownSlot spSlot
  cases f.shape with
  | singular => exact rp_unknownElem_eq _ _ _
  | repeated p =>
    show v.elems.all (unknownElem child f.elem) = v.elems.all (spElem unkSp child f.elem)
    have : unknownElem child f.elem = spElem unkSp child f.elem := by funext x; exact rp_unknownElem_eq _ _ _
    rw [this]
  | map kk =>
    show v.elems.all _ = v.elems.all (spEntry unkSp child kk f.elem)
    have : (fun en : Val => unknownElem child f.elem en.value) = spEntry unkSp child kk f.elem := by
      funext en; simp only [rp_unknownElem_eq, spEntry, unkSp, Bool.true_and]
    rw [this]
  | oneof g => cases v <;> simp only [rp_unknownElem_eq]

theorem rp_unknownOK_eq (S : Schema) : ∀ (n d i : Nat) (v : Val),
    unknownOK S n i v = spOK unkSp (unkMp S) S n d i v
  | 0, _, _, _ => rfl
  | n+1, d, i, v => by
    have : unknownOK S n = spOK unkSp (unkMp S) S n (d+1) := by funext i v; exact rp_unknownOK_eq S n (d+1) i v
    simp only [unknownOK, spOK, this, rp_unknownSlot_eq, unkMp]

theorem rp_unk_MpOK (S : Schema) : MpOK S (unkMp S) (unkMp S) :=
  ⟨fun _ _ _ h => h, fun _ i => by simp [unkMp, emptyMsg, Val.unknown, unknownRecordsOK],
   fun _ i => by simp [unkMp, Val.unknown, unknownRecordsOK]⟩

/-- `setFields` never touches the unknown fields of the message it is given -/
theorem rp_setFields_unknown (S : Schema) (o : GenOpts) (E : List Int) (fuel depth i : Nat) (v : Val)
    (ds : List Draw) : Post (setFields S o E fuel depth i v ds) (fun r _ => r.2.unknown = v.unknown) := by
  cases fuel with
  | zero =>
    simp only [setFields]
    split
    · exact rp_post_ok rfl
    · exact rp_post_stuck
  | succ fuel =>
    simp only [setFields]
    split
    · exact rp_post_ok rfl
    · exact rp_post_map (fun _ _ _ _ => rfl)

theorem rp_unk_MpStep {p : Ev → Bool} (S : Schema) (o : GenOpts) (E : List Int) :
    MpStep p S o E (unkMp S) (unkMp S) := by
  intro fuel depth i v ds r rest tr h _ hv
  have := rp_setFields_unknown S o E fuel depth i v ds r rest tr h
  simp only [unkMp] at hv ⊢
  rw [this]; exact hv

theorem rp_unk_SpZero : SpZero unkSp := fun _ => rfl

theorem rp_unk_SpGen {p : Ev → Bool} (o : GenOpts) (E : List Int) : SpGen p unkSp o E :=
  fun _ _ _ _ _ _ _ => rfl

end Pulsar.Rapidproto
