/-
  Pulsar.Proofs.DecodeDiscard — decoding with DiscardUnknown = decoding without it, then erasing
  every unknown set (C14_discard). A simulation between the two runs: at every step the state of the
  discarding run is `E` of the state of the retaining run.
-/
import Pulsar.Proofs.EraseOps
import Pulsar.Proofs.DecodeNoPanic
namespace Pulsar

def Res.mapR {α β : Type} (f : α → β) : Res α → Res β
  | .ok a => .ok (f a)
  | .err e => .err e
  | .panic => .panic

@[simp] theorem Res.mapR_ok {α β : Type} (f : α → β) (a : α) : Res.mapR f (.ok a) = .ok (f a) := rfl
@[simp] theorem Res.mapR_err {α β : Type} (f : α → β) (e : Err) : Res.mapR f (.err e : Res α) = .err e := rfl
@[simp] theorem Res.mapR_panic {α β : Type} (f : α → β) : Res.mapR f (.panic : Res α) = .panic := rfl

theorem Res.mapR_id' {α : Type} (f : α → α) (h : ∀ a, f a = a) (r : Res α) : Res.mapR f r = r := by
  cases r <;> simp [h]

variable (S : Schema)

/-! ## slot forms by shape -/

theorem ES_singular {f : FieldDesc} (hs : f.shape = .singular) (v : Val) : ES S f v = eE S f.elem v := by
  simp [ES, eraseSlot, hs]

theorem ShS_singular {f : FieldDesc} (hs : f.shape = .singular) (v : Val) : ShS S f v = sE S f.elem v := by
  simp [ShS, shSlot, hs]

theorem ES_repeated {f : FieldDesc} {pk : Bool} (hs : f.shape = .repeated pk) (nn : Bool) (es : List Val) :
    ES S f (.list nn es) = .list nn (es.map (eE S f.elem)) := by
  simp [ES, eraseSlot, hs]

theorem ShS_repeated_list {f : FieldDesc} {pk : Bool} (hs : f.shape = .repeated pk) (nn : Bool) (es : List Val) :
    ShS S f (.list nn es) = es.all (sE S f.elem) := by
  simp [ShS, shSlot, hs]

theorem ShS_repeated {f : FieldDesc} {pk : Bool} (hs : f.shape = .repeated pk) {v : Val} (h : ShS S f v = true) :
    ∃ nn es, v = .list nn es := by
  cases v with
  | list nn es => exact ⟨nn, es, rfl⟩
  | _ => simp [ShS, shSlot, hs] at h

theorem ES_map {f : FieldDesc} {kk : Kind} (hs : f.shape = .map kk) (nn : Bool) (es : List Val) :
    ES S f (.map nn es) = .map nn (es.map (fun en => .entry en.key (eE S f.elem en.value))) := by
  simp [ES, eraseSlot, hs]

theorem ShS_map_map {f : FieldDesc} {kk : Kind} (hs : f.shape = .map kk) (nn : Bool) (es : List Val) :
    ShS S f (.map nn es) = es.all (fun en => sE S f.elem en.value) := by
  simp [ShS, shSlot, hs]

theorem ShS_map {f : FieldDesc} {kk : Kind} (hs : f.shape = .map kk) {v : Val} (h : ShS S f v = true) :
    ∃ nn es, v = .map nn es := by
  cases v with
  | map nn es => exact ⟨nn, es, rfl⟩
  | _ => simp [ShS, shSlot, hs] at h

theorem ES_oneof_one {f : FieldDesc} {g : Nat} (hs : f.shape = .oneof g) (x : Val) :
    ES S f (.one x) = .one (eE S f.elem x) := by
  simp [ES, eraseSlot, hs]

theorem ShS_oneof_one {f : FieldDesc} {g : Nat} (hs : f.shape = .oneof g) (x : Val) :
    ShS S f (.one x) = sE S f.elem x := by
  simp [ShS, shSlot, hs]

theorem ES_oneof_other {f : FieldDesc} {g : Nat} (hs : f.shape = .oneof g) {v : Val} (h : ∀ x, v ≠ .one x) :
    ES S f v = v := by
  cases v with
  | one x => exact absurd rfl (h x)
  | _ => simp [ES, eraseSlot, hs]

theorem map_eE_scalar (k : Kind) (es : List Val) : es.map (eE S (.scalar k)) = es :=
  List.map_id'' (fun _ => rfl) es

theorem ES_repeated_scalar {f : FieldDesc} {pk : Bool} {k : Kind} (hs : f.shape = .repeated pk)
    (he : f.elem = .scalar k) (nn : Bool) (es : List Val) : ES S f (.list nn es) = .list nn es := by
  rw [ES_repeated S hs, he, map_eE_scalar]

theorem ShS_repeated_scalar {f : FieldDesc} {pk : Bool} {k : Kind} (hs : f.shape = .repeated pk)
    (he : f.elem = .scalar k) (nn : Bool) (es : List Val) : ShS S f (.list nn es) = true := by
  rw [ShS_repeated_list S hs, he]; simp

@[simp] theorem Val.key_entry (k v : Val) : (Val.entry k v).key = k := rfl
@[simp] theorem Val.value_entry (k v : Val) : (Val.entry k v).value = v := rfl

theorem mapPut_map (kb : Val → Val → Bool) (es : List Val) (k v : Val) (g : Val → Val) :
    mapPut kb (es.map (fun en => Val.entry en.key (g en.value))) k (g v) =
      (mapPut kb es k v).map (fun en => Val.entry en.key (g en.value)) := by
  unfold mapPut
  have hany : (es.map (fun en => Val.entry en.key (g en.value))).any (fun e => kb e.key k) =
      es.any (fun e => kb e.key k) := by
    simp only [List.any_map, Function.comp_def, Val.key_entry]
  rw [hany]
  split
  · simp only [List.map_map]
    apply List.map_congr_left
    intro en _
    simp only [Function.comp_apply, Val.key_entry]
    by_cases h : kb en.key k = true
    · simp only [h, if_true, Val.key_entry, Val.value_entry]
    · simp [h]
  · simp only [List.map_append, List.map_cons, List.map_nil, Val.key_entry, Val.value_entry]

theorem mapPut_all (kb : Val → Val → Bool) (es : List Val) (k v : Val) (P : Val → Bool)
    (hes : es.all (fun en => P en.value) = true) (hv : P v = true) :
    (mapPut kb es k v).all (fun en => P en.value) = true := by
  unfold mapPut
  rw [List.all_eq_true] at hes
  split
  · rw [List.all_eq_true]
    intro x hx
    obtain ⟨en, hen, rfl⟩ := List.mem_map.1 hx
    split
    · simpa using hv
    · exact hes en hen
  · simp only [List.all_append, List.all_cons, List.all_nil, Bool.and_true, Bool.and_eq_true, Val.value_entry]
    exact ⟨List.all_eq_true.2 hes, hv⟩

theorem eE_zeroVar (e : Elem) : eE S e e.zeroVar = e.zeroVar := by
  cases e <;> simp [Elem.zeroVar, eE_message, Val.isNone]

theorem sE_zeroVar (e : Elem) : sE S e e.zeroVar = true := by
  cases e <;> simp [Elem.zeroVar, sE_message, Val.isNone]

/-! ## decode targets -/

/-- `if x.F == nil { x.F = &T{} }` commutes with erasing -/
theorem target_sim (i : Nat) {cur : Val} (h : sE S (.message i) cur = true) :
    (if (eE S (.message i) cur).isNone then emptyMsg S i else eE S (.message i) cur)
      = E S i (if cur.isNone then emptyMsg S i else cur) ∧
    Sh S i (if cur.isNone then emptyMsg S i else cur) = true := by
  rw [sE_message] at h
  rw [eE_message]
  cases hn : cur.isNone with
  | true => simp [hn, E_emptyMsg, Sh_emptyMsg]
  | false =>
    simp only [hn, Bool.false_or] at h
    simp [E_isNone S h, h]

/-! ## the simulation -/

/-- the discarding child decoder `cd` simulates the retaining one `cn` -/
def ChildSim (cd cn : Nat → Val → Bytes → Res Val) : Prop :=
  ∀ i into p, Sh S i into = true →
    cd i (E S i into) p = (cn i into p).mapR (E S i) ∧ ∀ v, cn i into p = .ok v → Sh S i v = true

section sim
variable {S}
variable {cd cn : Nat → Val → Bytes → Res Val}

theorem implReadMapField_scalar (c : Nat → Val → Bytes → Res Val) (k : Kind) (old : Val) (rest : Bytes) :
    implReadMapField c S (.scalar k) old rest = implReadScalar k rest := rfl

theorem implReadMapField_sim (hc : ChildSim S cd cn) (e : Elem) (old : Val) (rest : Bytes)
    (ho : sE S e old = true) :
    implReadMapField cd S e (eE S e old) rest =
        (implReadMapField cn S e old rest).mapR (fun q => (eE S e q.1, q.2)) ∧
      ∀ v r, implReadMapField cn S e old rest = .ok (v, r) → sE S e v = true := by
  cases e with
  | scalar k =>
    simp only [implReadMapField_scalar, eE_scalar, sE_scalar, implies_true, and_true]
    rw [Res.mapR_id']
    intro a; rfl
  | message i =>
    obtain ⟨ht, hsh⟩ := target_sim S i ho
    simp only [implReadMapField]
    cases hr : readLenDelim rest with
    | ok a =>
      obtain ⟨p, r⟩ := a
      simp only []
      rw [ht, (hc i _ p hsh).1]
      have h2 := (hc i _ p hsh).2
      cases hcn : cn i (if old.isNone then emptyMsg S i else old) p with
      | ok v =>
        have hv := h2 v hcn
        simp only [Res.mapR_ok, eE_of_Sh S hv, true_and]
        intro v' r' h
        simp only [Res.ok.injEq, Prod.mk.injEq] at h
        obtain ⟨rfl, _⟩ := h
        exact sE_of_Sh S hv
      | err e => simp
      | panic => simp
    | err e => simp
    | panic => simp

theorem implEntryLoop_sim (hc : ChildSim S cd cn) (kk : Kind) (e : Elem) :
    ∀ (fuel : Nat) (rest : Bytes) (rem : Nat) (k v : Val), sE S e v = true →
      implEntryLoop cd S kk e fuel rest rem k (eE S e v) =
          (implEntryLoop cn S kk e fuel rest rem k v).mapR (fun q => (q.1, eE S e q.2)) ∧
        ∀ k' v', implEntryLoop cn S kk e fuel rest rem k v = .ok (k', v') → sE S e v' = true := by
  intro fuel
  induction fuel with
  | zero =>
    intro rest rem k v hv
    simp only [implEntryLoop, Res.mapR_ok, true_and, Res.ok.injEq, Prod.mk.injEq]
    rintro k' v' ⟨_, rfl⟩; exact hv
  | succ fuel ih =>
    intro rest rem k v hv
    rw [implEntryLoop, implEntryLoop]
    split
    · simp only [Res.mapR_ok, true_and, Res.ok.injEq, Prod.mk.injEq]
      rintro k' v' ⟨_, rfl⟩; exact hv
    · cases hvr : readVarint rest with
      | err e => simp
      | panic => simp
      | ok a =>
        obtain ⟨wire, r⟩ := a
        simp only []
        split
        · simp only [implReadMapField_scalar]
          cases hs : implReadScalar kk r with
          | ok b =>
            obtain ⟨k1, r1⟩ := b
            exact ih _ _ _ _ hv
          | err e => simp
          | panic => simp
        · split
          · obtain ⟨h1, h2⟩ := implReadMapField_sim hc e v r hv
            rw [h1]
            cases hm : implReadMapField cn S e v r with
            | ok b =>
              obtain ⟨v1, r1⟩ := b
              simp only [Res.mapR_ok]
              exact ih _ _ _ _ (h2 v1 r1 hm)
            | err e => simp
            | panic => simp
          · cases hs : skip rest with
            | ok n =>
              simp only []
              split
              · simp
              · exact ih _ _ _ _ hv
            | err e => simp
            | panic => simp

/-- the statement of the simulation for one known-field record -/
def KFSim (S : Schema) (cd cn : Nat → Val → Bytes → Res Val) (i j : Nat) (f : FieldDesc) (wt : Nat)
    (slots : List Val) (u : Bytes) (rest : Bytes) : Prop :=
  implKnownField S (S.msg i).fields cd j f wt (E S i (Val.msg slots u)) rest =
      (implKnownField S (S.msg i).fields cn j f wt (Val.msg slots u) rest).mapR (fun q => (E S i q.1, q.2)) ∧
    ∀ m' r', implKnownField S (S.msg i).fields cn j f wt (Val.msg slots u) rest = .ok (m', r') → Sh S i m' = true

theorem set_sim {i j : Nat} {f : FieldDesc} {slots : List Val} {u : Bytes}
    (hf : (S.msg i).fields[j]? = some f) (hm : Sh S i (Val.msg slots u) = true)
    {v vd : Val} (hv : ShS S f v = true) (hvd : ES S f v = vd) :
    E S i ((Val.msg slots u).setSlot j v) = (E S i (Val.msg slots u)).setSlot j vd ∧
      Sh S i ((Val.msg slots u).setSlot j v) = true := by
  subst hvd
  exact ⟨E_setSlot S slots u v hf, Sh_setSlot S hf hm hv⟩

theorem clear_set_sim {i j : Nat} {f : FieldDesc} {slots : List Val} {u : Bytes}
    (hf : (S.msg i).fields[j]? = some f) (hm : Sh S i (Val.msg slots u) = true) (g : Nat)
    {v vd : Val} (hv : ShS S f v = true) (hvd : ES S f v = vd) :
    E S i ((Val.msg (clearGroup (S.msg i).fields g slots) u).setSlot j v) =
        (Val.msg (clearGroup (S.msg i).fields g (E S i (Val.msg slots u)).slots)
          (E S i (Val.msg slots u)).unknown).setSlot j vd ∧
      Sh S i ((Val.msg (clearGroup (S.msg i).fields g slots) u).setSlot j v) = true := by
  subst hvd
  rw [← E_clearGroup]
  exact ⟨E_setSlot S _ u v hf, Sh_setSlot S hf (Sh_clearGroup S g hm) hv⟩

section cases
variable {i j : Nat} {f : FieldDesc} {wt : Nat} {slots : List Val} {u : Bytes} {rest : Bytes}

theorem kf_singular_scalar (k : Kind) (hsh : f.shape = .singular) (hel : f.elem = .scalar k)
    (hf : (S.msg i).fields[j]? = some f) (hm : Sh S i (Val.msg slots u) = true) :
    KFSim S cd cn i j f wt slots u rest := by
  unfold KFSim
  simp only [implKnownField, hsh, hel]
  by_cases hw : (wt != Extracted.wireType k) = true
  · simp [hw]
  · simp only [hw]
    cases hs : implReadScalar k rest with
    | ok a =>
      obtain ⟨v, r⟩ := a
      have := set_sim hf hm (v := v) (vd := v) (by simp [ShS_singular S hsh, hel]) (by simp [ES_singular S hsh, hel])
      simp only [Bool.false_eq_true, if_false, Res.mapR_ok, this.1, true_and, Res.ok.injEq, Prod.mk.injEq]
      rintro m' r' ⟨rfl, _⟩; exact this.2
    | err e => simp
    | panic => simp

theorem kf_singular_message (hc : ChildSim S cd cn) (mi : Nat) (hsh : f.shape = .singular) (hel : f.elem = .message mi)
    (hf : (S.msg i).fields[j]? = some f) (hm : Sh S i (Val.msg slots u) = true) :
    KFSim S cd cn i j f wt slots u rest := by
  unfold KFSim
  simp only [implKnownField, hsh, hel]
  have hcur := ShS_slot S hf hm
  rw [ShS_singular S hsh, hel] at hcur
  obtain ⟨ht, hsh'⟩ := target_sim S mi hcur
  rw [E_slot S slots u hf, ES_singular S hsh, hel]
  by_cases hw : (wt != 2) = true
  · simp [hw]
  · simp only [hw]
    cases hr : readLenDelim rest with
    | ok a =>
      obtain ⟨p, r⟩ := a
      simp only [Bool.false_eq_true, if_false]
      rw [ht, (hc mi _ p hsh').1]
      have h2 := (hc mi _ p hsh').2
      cases hcn : cn mi (if ((Val.msg slots u).slot j).isNone then emptyMsg S mi else (Val.msg slots u).slot j) p with
      | ok v =>
        have hv := h2 v hcn
        have := set_sim hf hm (v := v) (vd := E S mi v)
          (by rw [ShS_singular S hsh, hel]; exact sE_of_Sh S hv)
          (by rw [ES_singular S hsh, hel]; exact eE_of_Sh S hv)
        simp only [Res.mapR_ok, this.1, true_and, Res.ok.injEq, Prod.mk.injEq]
        rintro m' r' ⟨rfl, _⟩; exact this.2
      | err e => simp
      | panic => simp
    | err e => simp
    | panic => simp

theorem kf_oneof_scalar (g : Nat) (k : Kind) (hsh : f.shape = .oneof g) (hel : f.elem = .scalar k)
    (hf : (S.msg i).fields[j]? = some f) (hm : Sh S i (Val.msg slots u) = true) :
    KFSim S cd cn i j f wt slots u rest := by
  unfold KFSim
  simp only [implKnownField, hsh, hel]
  by_cases hw : (wt != Extracted.wireType k) = true
  · simp [hw]
  · simp only [hw]
    cases hs : implReadScalar k rest with
    | ok a =>
      obtain ⟨v, r⟩ := a
      have := clear_set_sim hf hm g (v := .one v) (vd := .one v)
        (by rw [ShS_oneof_one S hsh, hel]; rfl) (by rw [ES_oneof_one S hsh, hel]; rfl)
      simp only [Val.slots, Val.unknown] at this ⊢
      simp only [Bool.false_eq_true, if_false, Res.mapR_ok, this.1, true_and, Res.ok.injEq, Prod.mk.injEq]
      rintro m' r' ⟨rfl, _⟩; exact this.2
    | err e => simp
    | panic => simp

theorem kf_oneof_message (hc : ChildSim S cd cn) (g mi : Nat) (hsh : f.shape = .oneof g) (hel : f.elem = .message mi)
    (hf : (S.msg i).fields[j]? = some f) (hm : Sh S i (Val.msg slots u) = true) :
    KFSim S cd cn i j f wt slots u rest := by
  unfold KFSim
  simp only [implKnownField, hsh, hel]
  have hcur := ShS_slot S hf hm
  rw [E_slot S slots u hf]
  generalize (Val.msg slots u).slot j = cur at hcur ⊢
  by_cases hw : (wt != 2) = true
  · simp [hw]
  · simp only [hw, Bool.false_eq_true, if_false]
    cases hr : readLenDelim rest with
    | ok a =>
      obtain ⟨p, r⟩ := a
      simp only []
      -- the two decode targets are related
      have key : ∀ (into_n into_d : Val), into_d = E S mi into_n → Sh S mi into_n = true →
          ((match cd mi into_d p with
            | .ok v => Res.ok ((Val.msg (clearGroup (S.msg i).fields g (E S i (Val.msg slots u)).slots)
                  (E S i (Val.msg slots u)).unknown).setSlot j (.one v), r)
            | .err e => .err e
            | .panic => .panic) =
            Res.mapR (fun q => (E S i q.1, q.2))
              (match cn mi into_n p with
              | .ok v => Res.ok ((Val.msg (clearGroup (S.msg i).fields g (Val.msg slots u).slots)
                    (Val.msg slots u).unknown).setSlot j (.one v), r)
              | .err e => .err e
              | .panic => .panic)) ∧
          ∀ m' r', (match cn mi into_n p with
              | .ok v => Res.ok ((Val.msg (clearGroup (S.msg i).fields g (Val.msg slots u).slots)
                    (Val.msg slots u).unknown).setSlot j (.one v), r)
              | .err e => .err e
              | .panic => .panic) = Res.ok (m', r') → Sh S i m' = true := by
        intro into_n into_d hd hsn
        subst hd
        rw [(hc mi _ p hsn).1]
        have h2 := (hc mi _ p hsn).2
        cases hcn : cn mi into_n p with
        | ok v =>
          have hv := h2 v hcn
          have := clear_set_sim hf hm g (v := .one v) (vd := .one (E S mi v))
            (by rw [ShS_oneof_one S hsh, hel]; exact sE_of_Sh S hv)
            (by rw [ES_oneof_one S hsh, hel, eE_of_Sh S hv])
          simp only [Val.slots, Val.unknown] at this ⊢
          simp only [Res.mapR_ok, this.1, true_and, Res.ok.injEq, Prod.mk.injEq]
          rintro m' r' ⟨rfl, _⟩; exact this.2
        | err e => simp
        | panic => simp
      cases cur with
      | one x =>
        rw [ES_oneof_one S hsh, hel]
        rw [ShS_oneof_one S hsh, hel] at hcur
        obtain ⟨ht, hsh'⟩ := target_sim S mi hcur
        exact key _ _ ht hsh'
      | _ =>
        rw [ES_oneof_other S hsh (by intro x h; cases h)]
        exact key _ _ (E_emptyMsg S mi).symm (Sh_emptyMsg S mi)
    | err e => simp
    | panic => simp

theorem kf_repeated_scalar (pk : Bool) (k : Kind) (hsh : f.shape = .repeated pk) (hel : f.elem = .scalar k)
    (hf : (S.msg i).fields[j]? = some f) (hm : Sh S i (Val.msg slots u) = true) :
    KFSim S cd cn i j f wt slots u rest := by
  unfold KFSim
  simp only [implKnownField, hsh, hel]
  have hcur := ShS_slot S hf hm
  rw [E_slot S slots u hf]
  obtain ⟨nn, es, hce⟩ := ShS_repeated S hsh hcur
  rw [hce, ES_repeated_scalar S hsh hel]
  -- every successful branch stores a list of scalars
  have hset : ∀ (nn' : Bool) (vs : List Val) (r : Bytes),
      (Res.ok ((E S i (Val.msg slots u)).setSlot j (.list nn' vs), r) : Res (Val × Bytes)) =
        Res.mapR (fun q => (E S i q.1, q.2)) (Res.ok ((Val.msg slots u).setSlot j (.list nn' vs), r)) ∧
      ∀ m' r', (Res.ok ((Val.msg slots u).setSlot j (.list nn' vs), r) : Res (Val × Bytes)) = Res.ok (m', r') →
        Sh S i m' = true := by
    intro nn' vs r
    have := set_sim hf hm (v := .list nn' vs) (vd := .list nn' vs)
      (ShS_repeated_scalar S hsh hel _ _) (ES_repeated_scalar S hsh hel _ _)
    simp only [Res.mapR_ok, this.1, true_and, Res.ok.injEq, Prod.mk.injEq]
    rintro m' r' ⟨rfl, _⟩; exact this.2
  by_cases h2 : (Extracted.wireType k != 2) = true
  · simp only [h2, if_true]
    by_cases hw : wt = Extracted.wireType k
    · simp only [hw, if_true]
      cases hs : implReadScalar k rest with
      | ok a => obtain ⟨v, r⟩ := a; exact hset _ _ _
      | err e => simp
      | panic => simp
    · simp only [hw, if_false]
      by_cases hw2 : wt = 2
      · simp only [hw2, if_true]
        cases hv : readVarint rest with
        | ok a =>
          obtain ⟨n, r⟩ := a
          simp only []
          split
          · simp
          · split
            · simp
            · cases hp : implPackedLoop k n r n [] with
              | ok b => obtain ⟨vs, r1⟩ := b; exact hset _ _ _
              | err e => simp
              | panic => simp
        | err e => simp
        | panic => simp
      · simp [hw2]
  · simp only [h2, Bool.false_eq_true, if_false]
    by_cases hw : (wt != 2) = true
    · simp [hw]
    · simp only [hw, Bool.false_eq_true, if_false]
      cases hs : implReadScalar k rest with
      | ok a => obtain ⟨v, r⟩ := a; exact hset _ _ _
      | err e => simp
      | panic => simp

theorem kf_repeated_message (hc : ChildSim S cd cn) (pk : Bool) (mi : Nat) (hsh : f.shape = .repeated pk)
    (hel : f.elem = .message mi)
    (hf : (S.msg i).fields[j]? = some f) (hm : Sh S i (Val.msg slots u) = true) :
    KFSim S cd cn i j f wt slots u rest := by
  unfold KFSim
  simp only [implKnownField, hsh, hel]
  have hcur := ShS_slot S hf hm
  rw [E_slot S slots u hf]
  obtain ⟨nn, es, hce⟩ := ShS_repeated S hsh hcur
  rw [hce] at hcur ⊢
  rw [ShS_repeated_list S hsh, hel] at hcur
  rw [ES_repeated S hsh, hel]
  by_cases hw : (wt != 2) = true
  · simp [hw]
  · simp only [hw, Bool.false_eq_true, if_false]
    cases hr : readLenDelim rest with
    | ok a =>
      obtain ⟨p, r⟩ := a
      simp only []
      have h1 := (hc mi _ p (Sh_emptyMsg S mi)).1
      have h2 := (hc mi _ p (Sh_emptyMsg S mi)).2
      rw [E_emptyMsg] at h1
      rw [h1]
      cases hcn : cn mi (emptyMsg S mi) p with
      | ok v =>
        have hv := h2 v hcn
        have := set_sim hf hm (v := .list true (es ++ [v])) (vd := .list true (es.map (eE S (.message mi)) ++ [E S mi v]))
          (by rw [ShS_repeated_list S hsh, hel, List.all_append, hcur]; simp [sE_of_Sh S hv])
          (by rw [ES_repeated S hsh, hel, List.map_append, List.map_cons, List.map_nil, eE_of_Sh S hv])
        simp only [Val.elems, Res.mapR_ok, this.1, true_and, Res.ok.injEq, Prod.mk.injEq]
        rintro m' r' ⟨rfl, _⟩; exact this.2
      | err e => simp
      | panic => simp
    | err e => simp
    | panic => simp

theorem kf_map (hc : ChildSim S cd cn) (kk : Kind) (hsh : f.shape = .map kk)
    (hf : (S.msg i).fields[j]? = some f) (hm : Sh S i (Val.msg slots u) = true) :
    KFSim S cd cn i j f wt slots u rest := by
  unfold KFSim
  simp only [implKnownField, hsh]
  have hcur := ShS_slot S hf hm
  rw [E_slot S slots u hf]
  obtain ⟨nn, es, hce⟩ := ShS_map S hsh hcur
  rw [hce] at hcur ⊢
  rw [ShS_map_map S hsh] at hcur
  rw [ES_map S hsh]
  by_cases hw : (wt != 2) = true
  · simp [hw]
  · simp only [hw, Bool.false_eq_true, if_false]
    cases hv : readVarint rest with
    | ok a =>
      obtain ⟨n, r⟩ := a
      simp only []
      split
      · simp
      · split
        · simp
        · obtain ⟨h1, h2⟩ := implEntryLoop_sim hc kk f.elem n (r.take n) n (Elem.zeroVar (.scalar kk)) f.elem.zeroVar
            (sE_zeroVar S _)
          rw [eE_zeroVar] at h1
          rw [h1]
          cases hl : implEntryLoop cn S kk f.elem n (r.take n) n (Elem.zeroVar (.scalar kk)) f.elem.zeroVar with
          | ok b =>
            obtain ⟨k', v'⟩ := b
            have hv' := h2 k' v' hl
            simp only [Res.mapR_ok, Val.elems]
            -- the stored value: an empty message replaces a missing message value
            have key : ∀ (vn vd : Val), vd = eE S f.elem vn → sE S f.elem vn = true →
                ((Res.ok ((E S i (Val.msg slots u)).setSlot j
                    (.map true (mapPut (kbeqOf kk)
                      (es.map (fun en => Val.entry en.key (eE S f.elem en.value))) k' vd)), r.drop n)
                    : Res (Val × Bytes)) =
                  Res.mapR (fun q => (E S i q.1, q.2))
                    (Res.ok ((Val.msg slots u).setSlot j (.map true (mapPut (kbeqOf kk) es k' vn)), r.drop n))) ∧
                ∀ m' r', (Res.ok ((Val.msg slots u).setSlot j (.map true (mapPut (kbeqOf kk) es k' vn)), r.drop n)
                    : Res (Val × Bytes)) = Res.ok (m', r') → Sh S i m' = true := by
              intro vn vd hd hs
              subst hd
              have := set_sim hf hm (v := .map true (mapPut (kbeqOf kk) es k' vn))
                (vd := .map true (mapPut (kbeqOf kk) (es.map (fun en => Val.entry en.key (eE S f.elem en.value))) k'
                  (eE S f.elem vn)))
                (by rw [ShS_map_map S hsh]; exact mapPut_all _ _ _ _ _ hcur hs)
                (by rw [ES_map S hsh, mapPut_map])
              simp only [Res.mapR_ok, this.1, true_and, Res.ok.injEq, Prod.mk.injEq]
              rintro m' r' ⟨rfl, _⟩; exact this.2
            cases hel : f.elem with
            | scalar k =>
              simp only [hel] at key hv' ⊢
              exact key v' v' rfl rfl
            | message mi =>
              simp only [hel] at key hv' ⊢
              obtain ⟨ht, hs'⟩ := target_sim S mi hv'
              exact key _ _ (by rw [ht, eE_of_Sh S hs']) (sE_of_Sh S hs')
          | err e => simp
          | panic => simp
    | err e => simp
    | panic => simp

end cases

theorem implKnownField_sim (hc : ChildSim S cd cn) (i j : Nat) (f : FieldDesc) (wt : Nat) (slots : List Val)
    (u : Bytes) (rest : Bytes) (hf : (S.msg i).fields[j]? = some f) (hm : Sh S i (Val.msg slots u) = true) :
    KFSim S cd cn i j f wt slots u rest := by
  cases hsh : f.shape with
  | singular =>
    cases hel : f.elem with
    | scalar k => exact kf_singular_scalar k hsh hel hf hm
    | message mi => exact kf_singular_message hc mi hsh hel hf hm
  | repeated pk =>
    cases hel : f.elem with
    | scalar k => exact kf_repeated_scalar pk k hsh hel hf hm
    | message mi => exact kf_repeated_message hc pk mi hsh hel hf hm
  | oneof g =>
    cases hel : f.elem with
    | scalar k => exact kf_oneof_scalar g k hsh hel hf hm
    | message mi => exact kf_oneof_message hc g mi hsh hel hf hm
  | map kk => exact kf_map hc kk hsh hf hm

theorem implUnmarshalLoop_sim (hc : ChildSim S cd cn) (i : Nat) :
    ∀ (fuel : Nat) (slots : List Val) (u : Bytes) (rest : Bytes), Sh S i (Val.msg slots u) = true →
      implUnmarshalLoop S i { discard := true } cd fuel (E S i (Val.msg slots u)) rest =
          (implUnmarshalLoop S i { discard := false } cn fuel (Val.msg slots u) rest).mapR (E S i) ∧
        ∀ v, implUnmarshalLoop S i { discard := false } cn fuel (Val.msg slots u) rest = .ok v → Sh S i v = true := by
  intro fuel
  induction fuel with
  | zero =>
    intro slots u rest hm
    simp only [implUnmarshalLoop, Res.mapR_ok, true_and, Res.ok.injEq]
    rintro v rfl; exact hm
  | succ fuel ih =>
    intro slots u rest hm
    rw [implUnmarshalLoop, implUnmarshalLoop]
    split
    · simp only [Res.mapR_ok, true_and, Res.ok.injEq]
      rintro v rfl; exact hm
    · cases hv : readVarint rest with
      | err e => simp
      | panic => simp
      | ok a =>
        obtain ⟨wire, r⟩ := a
        simp only []
        split
        · simp
        · split
          · simp
          · cases hfind : findField (S.msg i).fields (wire / 8 % 4294967296) with
            | some jf =>
              obtain ⟨j, f⟩ := jf
              simp only []
              obtain ⟨h1, h2⟩ := implKnownField_sim hc i j f (wire % 8) slots u r (findField_getElem? hfind) hm
              rw [h1]
              cases hk : implKnownField S (S.msg i).fields cn j f (wire % 8) (Val.msg slots u) r with
              | ok b =>
                obtain ⟨m', r'⟩ := b
                have hm' := h2 m' r' hk
                obtain ⟨s', u', rfl⟩ := Sh_is_msg hm'
                simp only [Res.mapR_ok]
                split
                · exact ih s' u' r' hm'
                · simp only [Res.mapR_ok, true_and, Res.ok.injEq]
                  rintro v rfl; exact hm'
              | err e => simp
              | panic => simp
            | none =>
              simp only []
              cases hs : skip rest with
              | ok n =>
                simp only []
                split
                · simp
                · cases hsl : sliceTo rest n with
                  | ok raw =>
                    simp only [if_true, Bool.false_eq_true, if_false, Val.slots, Val.unknown]
                    have hm' := Sh_unknown S (u ++ raw) hm
                    split
                    · simp only [Res.mapR_ok, true_and, Res.ok.injEq, E_unknown S slots u (u ++ raw)]
                      rintro v rfl; exact hm'
                    · have := ih slots (u ++ raw) (rest.drop n) hm'
                      rw [E_unknown S slots u (u ++ raw)] at this
                      exact this
                  | err e => simp
                  | panic => simp
              | err e => simp
              | panic => simp

end sim

theorem implUnmarshalClosure_sim (S : Schema) : ∀ (fuel : Nat) (depth : Int),
    ChildSim S (implUnmarshalClosure S { discard := true } fuel depth)
      (implUnmarshalClosure S { discard := false } fuel depth) := by
  intro fuel
  induction fuel with
  | zero =>
    intro depth i into p hsh
    simp only [implUnmarshalClosure, Res.mapR_ok, true_and, Res.ok.injEq]
    rintro v rfl; exact hsh
  | succ fuel ih =>
    intro depth i into p hsh
    rw [implUnmarshalClosure, implUnmarshalClosure]
    obtain ⟨slots, u, rfl⟩ := Sh_is_msg hsh
    rw [E_isNone S hsh]
    simp only [Val.isNone, Bool.false_eq_true, if_false]
    split
    · simp
    · exact implUnmarshalLoop_sim (ih _) i _ slots u p hsh

/-- C14_discard, in fuel-free form. -/
theorem implUnmarshalClosure_discard (S : Schema) (fuel : Nat) (depth : Int) (i : Nat) (bs : Bytes) :
    implUnmarshalClosure S { discard := true } fuel depth i (emptyMsg S i) bs =
      (match implUnmarshalClosure S { discard := false } fuel depth i (emptyMsg S i) bs with
       | .ok v => .ok (eraseUnknown S (v.depth + 1) i v)
       | .err e => .err e
       | .panic => .panic) := by
  have h := (implUnmarshalClosure_sim S fuel depth i (emptyMsg S i) bs (Sh_emptyMsg S i)).1
  rw [E_emptyMsg] at h
  rw [h]
  cases implUnmarshalClosure S { discard := false } fuel depth i (emptyMsg S i) bs <;> rfl

end Pulsar
