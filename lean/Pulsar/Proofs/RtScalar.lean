/-
  Pulsar.Proofs.RtScalar — the reference scalar reader reads back what the reference scalar writer
  wrote (every kind, bit-exact; blobs up to the nil/empty flag), and packed runs.
-/
import Pulsar.Proofs.RtWire
import Pulsar.Proofs.EncodeKeyOrder
namespace Pulsar

/-- what the decoder stores for an encoded scalar: the same value, blobs with the decoder's flag. -/
def decScalar (k : Kind) (v : Val) : Val :=
  match v with
  | .blob _ b => .blob (k == .bytes) b
  | x => x

theorem decScalar_getBits (k : Kind) (v : Val) : (decScalar k v).getBits = v.getBits := by
  cases v <;> rfl

theorem decScalar_getBlob (k : Kind) (v : Val) : (decScalar k v).getBlob = v.getBlob := by
  cases v <;> rfl

theorem decScalar_rep (rn : Nat → Val → Val) (k k' : Kind) (v : Val) :
    repElem rn (.scalar k') (decScalar k v) = repElem rn (.scalar k') v := by
  cases v <;> rfl

theorem decScalar_bits (k : Kind) (n : Nat) : decScalar k (.bits n) = .bits n := rfl

theorem scalarOK_dec (k k' : Kind) (v : Val) : scalarOK k (decScalar k' v) = scalarOK k v := by
  cases v <;> rfl

theorem toVarint_lt {k : Kind} {n : Nat} (hb : k.isBlob = false) (hn : if k = .bool then n < 2 else n < 2 ^ k.width) :
    k.toVarint n < 18446744073709551616 := by
  cases k <;> simp [Kind.width, Kind.isBlob] at hn hb <;> simp only [Kind.toVarint]
  case int32 | enum => exact sext32_lt hn
  case sint32 => exact zigzag64_lt (sext32_lt hn)
  case sint64 => exact zigzag64_lt hn
  all_goals omega

theorem specScalar_length_pos (k : Kind) (v : Val) : 0 < (specScalar k v).length := by
  cases k <;> simp only [specScalar, fixed64, fixed32, length_le, List.length_append] <;>
    first
    | omega
    | exact varint_length_pos _
    | (have := varint_length_pos v.getBlob.length; omega)

/-- the scalar round trip at the wire level. -/
theorem specReadScalar_specScalar {k : Kind} {v : Val} (hv : scalarOK k v = true)
    (hu : k = .string → utf8Valid v.getBlob = true)
    (hl : v.getBlob.length < 18446744073709551616) (rest : Bytes) :
    specReadScalar k (specScalar k v ++ rest) = .ok (decScalar k v, rest) := by
  by_cases hblob : k.isBlob = true
  · obtain ⟨nn, b, rfl⟩ := scalarOK_blob hv hblob
    simp only [Val.getBlob] at hl hu
    cases k <;> simp [Kind.isBlob] at hblob
    case string =>
      simp only [specReadScalar, specScalar, Val.getBlob, List.append_assoc,
        consumeVarint_varint hl]
      rw [if_neg (by simp), take_append_length, drop_append_length]
      simp [hu rfl, decScalar]
    case bytes =>
      simp only [specReadScalar, specScalar, Val.getBlob, List.append_assoc,
        consumeVarint_varint hl]
      rw [if_neg (by simp), take_append_length, drop_append_length]
      simp [decScalar]
  · have hblob' : k.isBlob = false := by simpa using hblob
    obtain ⟨n, rfl, hn⟩ := scalarOK_bits hv hblob'
    have hvar := toVarint_lt hblob' hn
    cases k <;> simp [Kind.isBlob] at hblob' <;> simp [Kind.width] at hn
    case double | fixed64 | sfixed64 =>
      simp only [specReadScalar, specScalar, Val.getBits, fixed64, take_le_append, drop_le_append,
        decScalar]
      rw [if_neg (by simp [length_le]), ofLE_le_of_lt (by simpa using hn)]
    case float | fixed32 | sfixed32 =>
      simp only [specReadScalar, specScalar, Val.getBits, fixed32, take_le_append, drop_le_append,
        decScalar]
      rw [if_neg (by simp [length_le]), ofLE_le_of_lt (by simpa using hn)]
    case int64 | uint64 =>
      simp only [specReadScalar, specScalar, Val.getBits, consumeVarint_varint hvar, decScalar]
      simp [Kind.toVarint]
    case int32 | enum =>
      simp only [specReadScalar, specScalar, Val.getBits, consumeVarint_varint hvar, decScalar]
      simp [Kind.toVarint, sext32_mod hn]
    case uint32 =>
      simp only [specReadScalar, specScalar, Val.getBits, consumeVarint_varint hvar, decScalar]
      simp [Kind.toVarint, Nat.mod_eq_of_lt hn]
    case sint32 =>
      simp only [specReadScalar, specScalar, Val.getBits, consumeVarint_varint hvar, decScalar]
      simp [Kind.toVarint, unzigzag32_zigzag hn]
    case sint64 =>
      simp only [specReadScalar, specScalar, Val.getBits, consumeVarint_varint hvar, decScalar]
      simp [Kind.toVarint, unzigzag64_zigzag64 hn]
    case bool =>
      simp only [specReadScalar, specScalar, Val.getBits, consumeVarint_varint hvar, decScalar]
      have : n = 0 ∨ n = 1 := by omega
      rcases this with rfl | rfl <;> simp [Kind.toVarint]

/-- a packed run of non-blob scalars reads back element by element. -/
theorem specPackedLoop_run {k : Kind} (hk : k.isBlob = false) : ∀ (es : List Val) (fuel : Nat) (acc : List Val),
    (∀ x ∈ es, scalarOK k x = true) → ((es.map (specScalar k)).flatten).length ≤ fuel →
    specPackedLoop k fuel ((es.map (specScalar k)).flatten) acc = .ok (acc ++ es) := by
  intro es
  induction es with
  | nil =>
    intro fuel acc _ _
    cases fuel <;> simp [specPackedLoop]
  | cons x xs ih =>
    intro fuel acc hok hf
    have hx : scalarOK k x = true := hok x List.mem_cons_self
    obtain ⟨n, rfl, hn⟩ := scalarOK_bits hx hk
    have hpos := specScalar_length_pos k (.bits n)
    simp only [List.map_cons, List.flatten_cons, List.length_append] at hf ⊢
    obtain ⟨g, rfl⟩ : ∃ g, fuel = g + 1 := ⟨fuel - 1, by omega⟩
    rw [specPackedLoop]
    have hne : specScalar k (.bits n) ++ (xs.map (specScalar k)).flatten ≠ [] := by
      intro h
      have := congrArg List.length h
      simp only [List.length_append, List.length_nil] at this
      omega
    rw [if_neg hne, specReadScalar_specScalar hx (by intro h; subst h; simp [Kind.isBlob] at hk)
      (by simp [Val.getBlob])]
    simp only [decScalar_bits]
    rw [ih g _ (fun y hy => hok y (List.mem_cons_of_mem _ hy)) (by omega)]
    simp

end Pulsar
