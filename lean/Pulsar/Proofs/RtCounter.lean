/-
  Pulsar.Proofs.RtCounter — why the reference round trip needs a length bound: the model's byte
  strings are unbounded lists, and a `bytes` field of 2^64 bytes gets a length prefix that is not a
  valid varint (ten bytes, the tenth being 2), so `protowire.ConsumeVarint` rejects it.
-/
import Pulsar.Proofs.RtStep
namespace Pulsar.Counter
open Pulsar

/-- message { bytes b = 1; } -/
def cS : Schema := ⟨[⟨[⟨1, .scalar .bytes, .singular⟩]⟩]⟩

/-- a message whose only field holds the bytes `b`. -/
def cV (b : Bytes) : Val := .msg [.blob true b] []

theorem cS_wf : cS.WF = true := by decide

theorem cV_ok (b : Bytes) : msgOK cS false 1 0 (cV b) = true := by
  simp [msgOK, msgOKLvl, cV, cS, Schema.msg, slotOK, elemOK, scalarOK, Kind.isBlob, oneofOK,
    FieldDesc.group?]

theorem cV_utf8 (b : Bytes) : utf8OK cS 1 0 (cV b) = true := by
  simp [utf8OK, cV, cS, Schema.msg, Val.slots, utf8Slot, utf8Elem]

theorem cV_unknown (b : Bytes) : unknownOK cS 1 0 (cV b) = true := by
  simp [unknownOK, cV, cS, Schema.msg, Val.slots, Val.unknown, unknownRecordsOK, unknownSlot, unknownElem]

theorem varint_two64 : varint 18446744073709551616 = [128, 128, 128, 128, 128, 128, 128, 128, 128, 2] := by
  rw [varint_ge_128 (by omega), varint_ge_128 (by omega), varint_ge_128 (by omega),
    varint_ge_128 (by omega), varint_ge_128 (by omega), varint_ge_128 (by omega),
    varint_ge_128 (by omega), varint_ge_128 (by omega), varint_ge_128 (by omega),
    varint_lt_128 (by omega)]
  decide

theorem cV_encode (b : Bytes) (hb : b.length = 18446744073709551616) :
    specEncode cS 1 0 (cV b) = tag 1 2 ++ (varint 18446744073709551616 ++ b) := by
  simp [specEncode, specEncodeLvl, cV, cS, Schema.msg, Val.isNone, Val.slots, Val.unknown, sortFV, insertFV,
    specField, specPresent, Kind.isBlob, Val.getBlob, hb, specTag, specScalar, Kind.specWireType]

theorem consumeVarint_two64 (rest : Bytes) :
    consumeVarint (varint 18446744073709551616 ++ rest) = .err .overflow := by
  rw [varint_two64]
  rfl

/-- the reference decoder rejects the reference encoding of `cV b` when `b` has 2^64 bytes. -/
theorem cV_decode (b : Bytes) (hb : b.length = 18446744073709551616) :
    specUnmarshalStrict cS {} 0 (emptyMsg cS 0) (specEncode cS 1 0 (cV b)) = .err .overflow := by
  rw [cV_encode b hb]
  have ht := consumeTag_tag (num := 1) (wt := 2) (by omega) (by omega) (by omega)
    (varint 18446744073709551616 ++ b)
  have hne : tag 1 2 ++ (varint 18446744073709551616 ++ b) ≠ [] :=
    List.append_ne_nil_of_left_ne_nil (varint_ne_nil _) _
  obtain ⟨g, hg⟩ : ∃ g, (tag 1 2 ++ (varint 18446744073709551616 ++ b)).length = g + 1 :=
    ⟨(tag 1 2 ++ (varint 18446744073709551616 ++ b)).length - 1, by
      have := List.length_pos_iff.2 hne; omega⟩
  have hfind : findField (cS.msg 0).fields 1 = some (0, ⟨1, .scalar .bytes, .singular⟩) := by decide
  unfold specUnmarshalStrict
  simp only [Bool.false_eq_true, if_false]
  rw [hg, specDecodeInto, if_neg (by decide), hg, specDecodeLoop]
  simp only [hne, if_false, ht, show ¬ (1 > 536870911) by omega, hfind]
  simp only [Kind.specWireType, if_true, specReadScalar, consumeVarint_two64]

/-- 2^64 zero bytes. -/
def big : Bytes := List.replicate 18446744073709551616 0

theorem big_length : big.length = 18446744073709551616 := List.length_replicate

end Pulsar.Counter
