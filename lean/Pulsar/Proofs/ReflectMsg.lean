/-
  Helper lemmas for C08, message level: positional slot lists (`zip`/`set`/`clearGroup`), the oneof
  invariant as a counting property, and the lifting of field-level outcomes (`applyFW`).
-/
import Pulsar.Proofs.ReflectSlot
namespace Pulsar

/-! ### positional lists -/

theorem zip_set_right {α β} : ∀ (fs : List α) (vs : List β) (j : Nat) (v : β) (f : α), fs[j]? = some f →
    fs.zip (vs.set j v) = (fs.zip vs).set j (f, v)
  | [], _, _, _, _, h => by simp at h
  | _ :: _, [], _, _, _, _ => by simp
  | a :: as, b :: bs, 0, v, f, h => by simp at h; simp [h]
  | a :: as, b :: bs, j+1, v, f, h => by
    simp only [List.getElem?_cons_succ] at h
    simp only [List.set_cons_succ, List.zip_cons_cons, zip_set_right as bs j v f h]

theorem zip_map_right {α β γ} (g : α → β → γ) : ∀ (fs : List α) (vs : List β),
    fs.zip ((fs.zip vs).map (fun p => g p.1 p.2)) = (fs.zip vs).map (fun p => (p.1, g p.1 p.2))
  | [], _ => rfl
  | _ :: _, [] => by simp
  | a :: as, b :: bs => by simp [zip_map_right g as bs]

theorem getD_map_zip {α β γ} (g : α × β → γ) (d : γ) (d' : β) : ∀ (fs : List α) (vs : List β) (j : Nat) (f : α),
    fs[j]? = some f → j < vs.length → ((fs.zip vs).map g).getD j d = g (f, vs.getD j d')
  | [], _, _, _, h, _ => by simp at h
  | _ :: _, [], _, _, _, h => by simp at h
  | a :: as, b :: bs, 0, f, h, _ => by simp at h; simp [h]
  | a :: as, b :: bs, j+1, f, h, hl => by
    simp only [List.getElem?_cons_succ] at h
    simp only [List.length_cons, Nat.add_lt_add_iff_right] at hl
    simpa using getD_map_zip g d d' as bs j f h hl

theorem lt_of_getElem?_some {α} {l : List α} {j : Nat} {a : α} (h : l[j]? = some a) : j < l.length := by
  cases hj : decide (j < l.length)
  · simp at hj; rw [List.getElem?_eq_none hj] at h; cases h
  · simpa using hj

theorem mem_zip_getD {α β} (d : β) : ∀ (fs : List α) (vs : List β) (j : Nat) (f : α),
    fs[j]? = some f → j < vs.length → (f, vs.getD j d) ∈ fs.zip vs
  | [], _, _, _, h, _ => by simp at h
  | _ :: _, [], _, _, _, h => by simp at h
  | a :: as, b :: bs, 0, f, h, _ => by simp at h; simp [h]
  | a :: as, b :: bs, j+1, f, h, hl => by
    simp only [List.getElem?_cons_succ] at h
    simp only [List.length_cons, Nat.add_lt_add_iff_right] at hl
    have := mem_zip_getD d as bs j f h hl
    simp only [List.zip_cons_cons, List.mem_cons, List.getD_cons_succ]
    exact Or.inr this

theorem getElem?_zip_getD {α β} (d : β) : ∀ (fs : List α) (vs : List β) (j : Nat) (f : α),
    fs[j]? = some f → j < vs.length → (fs.zip vs)[j]? = some (f, vs.getD j d)
  | [], _, _, _, h, _ => by simp at h
  | _ :: _, [], _, _, _, h => by simp at h
  | a :: as, b :: bs, 0, f, h, _ => by simp at h; simp [h]
  | a :: as, b :: bs, j+1, f, h, hl => by
    simp only [List.getElem?_cons_succ] at h
    simp only [List.length_cons, Nat.add_lt_add_iff_right] at hl
    simpa using getElem?_zip_getD d as bs j f h hl

theorem clearGroup_eq (fs : List FieldDesc) (g : Nat) (slots : List Val) :
    clearGroup fs g slots = (fs.zip slots).map (fun p => if p.1.group? == some g then Val.none else p.2) := rfl

theorem length_clearGroup (fs : List FieldDesc) (g : Nat) (slots : List Val) (h : slots.length = fs.length) :
    (clearGroup fs g slots).length = fs.length := by
  simp [clearGroup_eq, h]

theorem zip_clearGroup (fs : List FieldDesc) (g : Nat) (slots : List Val) :
    fs.zip (clearGroup fs g slots)
      = (fs.zip slots).map (fun p => (p.1, if p.1.group? == some g then Val.none else p.2)) :=
  zip_map_right (fun (f : FieldDesc) (v : Val) => if f.group? == some g then Val.none else v) fs slots

theorem repSlot_none_of_group (c : Nat → Val → Val) {f : FieldDesc} {g : Nat} (h : f.group? = some g) :
    repSlot c f .none = .none := by
  unfold FieldDesc.group? at h
  cases hs : f.shape <;> simp [hs] at h
  simp [repSlot, hs]

/-- abstraction of the slot list commutes with `clearGroup` -/
theorem abs_clearGroup (c : Nat → Val → Val) (fs : List FieldDesc) (g : Nat) (slots : List Val) :
    (fs.zip (clearGroup fs g slots)).map (fun p => repSlot c p.1 p.2)
      = clearGroup fs g ((fs.zip slots).map (fun p => repSlot c p.1 p.2)) := by
  rw [zip_clearGroup, clearGroup_eq, zip_map_right (fun f v => repSlot c f v), List.map_map, List.map_map]
  apply List.map_congr_left
  intro p _
  simp only [Function.comp]
  cases hg : p.1.group? == some g
  · simp
  · simp only [if_true]
    exact repSlot_none_of_group c (by simpa using hg)

/-- abstraction of the slot list commutes with an update -/
theorem abs_set (c : Nat → Val → Val) (fs : List FieldDesc) (slots : List Val) (j : Nat) (v : Val) (f : FieldDesc)
    (hf : fs[j]? = some f) :
    (fs.zip (slots.set j v)).map (fun p => repSlot c p.1 p.2)
      = ((fs.zip slots).map (fun p => repSlot c p.1 p.2)).set j (repSlot c f v) := by
  rw [zip_set_right fs slots j v f hf, List.map_set]

theorem abs_getD (c : Nat → Val → Val) (fs : List FieldDesc) (slots : List Val) (j : Nat) (f : FieldDesc)
    (hf : fs[j]? = some f) (hl : slots.length = fs.length) :
    ((fs.zip slots).map (fun p => repSlot c p.1 p.2)).getD j .none = repSlot c f (slots.getD j .none) :=
  getD_map_zip _ _ _ fs slots j f hf (hl ▸ lt_of_getElem?_some hf)

/-! ### the oneof invariant as a count -/

/-- the pair is a set member of oneof `g` -/
def ind (g : Nat) (p : FieldDesc × Val) : Bool := p.1.group? == some g && !p.2.isNone

/-- number of set members of oneof `g` -/
def cnt (g : Nat) (fvs : List (FieldDesc × Val)) : Nat := (fvs.filter (ind g)).length

theorem cnt_cons (g : Nat) (p : FieldDesc × Val) (fvs : List (FieldDesc × Val)) :
    cnt g (p :: fvs) = (if ind g p then 1 else 0) + cnt g fvs := by
  unfold cnt
  rw [List.filter_cons]
  split <;> simp <;> omega

theorem oneofOK_iff (fvs : List (FieldDesc × Val)) : oneofOK fvs = true ↔ ∀ g, cnt g fvs ≤ 1 := by
  unfold oneofOK
  rw [List.all_eq_true]
  constructor
  · intro h g
    by_cases h0 : cnt g fvs = 0
    · omega
    · have : (fvs.filter (ind g)) ≠ [] := by
        intro hn; apply h0; unfold cnt; rw [hn]; rfl
      obtain ⟨p, hp⟩ := List.exists_mem_of_ne_nil _ this
      obtain ⟨hp1, hp2⟩ := List.mem_filter.1 hp
      have := h p hp1
      simp only [ind, Bool.and_eq_true, beq_iff_eq, Bool.not_eq_true'] at hp2
      rw [hp2.1] at this
      simp only [hp2.2, Bool.false_or, decide_eq_true_eq] at this
      exact this
  · intro h p _
    cases hg : p.1.group? with
    | none => rfl
    | some g =>
      have := h g
      simp only [Bool.or_eq_true, decide_eq_true_eq]
      exact Or.inr this

theorem cnt_set (g : Nat) : ∀ (fvs : List (FieldDesc × Val)) (j : Nat) (f : FieldDesc) (v v' : Val),
    fvs[j]? = some (f, v) →
    cnt g (fvs.set j (f, v')) + (if ind g (f, v) then 1 else 0) = cnt g fvs + (if ind g (f, v') then 1 else 0)
  | [], _, _, _, _, h => by simp at h
  | p :: ps, 0, f, v, v', h => by
    simp at h; subst h
    simp only [List.set_cons_zero, cnt_cons]; omega
  | p :: ps, j+1, f, v, v', h => by
    simp only [List.getElem?_cons_succ] at h
    have := cnt_set g ps j f v v' h
    simp only [List.set_cons_succ, cnt_cons]; omega

theorem cnt_clear (g g0 : Nat) : ∀ (fvs : List (FieldDesc × Val)),
    cnt g (fvs.map (fun p => (p.1, if p.1.group? == some g0 then Val.none else p.2)))
      = if g = g0 then 0 else cnt g fvs
  | [] => by simp [cnt]
  | p :: ps => by
    simp only [List.map_cons, cnt_cons, cnt_clear g g0 ps]
    by_cases hg : g = g0
    · subst hg
      simp only [if_true, Nat.add_zero]
      cases hp : p.1.group? == some g <;> simp [ind, hp, Val.isNone]
    · simp only [hg, if_false]
      cases hp : p.1.group? == some g0
      · simp
      · have : p.1.group? = some g0 := by simpa using hp
        have hne : (some g0 == some g) = false := by simp; exact fun h => hg h.symm
        simp [ind, this, hne]

theorem group_of_shape {f : FieldDesc} {g : Nat} (h : f.shape = .oneof g) : f.group? = some g := by
  simp [FieldDesc.group?, h]

theorem group_none_of_shape {f : FieldDesc} (h : ∀ g, f.shape ≠ .oneof g) : f.group? = none := by
  unfold FieldDesc.group?
  cases hs : f.shape <;> simp
  exact absurd hs (h _)

/-! ### lifting field-level outcomes -/

/-- one level of abstraction, with the child abstraction as a parameter -/
def absSlots (c : Nat → Val → Val) (fs : List FieldDesc) (slots : List Val) : List Val :=
  (fs.zip slots).map (fun p => repSlot c p.1 p.2)

theorem absSlots_getD (c : Nat → Val → Val) (fs : List FieldDesc) (slots : List Val) (j : Nat) (f : FieldDesc)
    (hf : fs[j]? = some f) (hl : slots.length = fs.length) :
    (absSlots c fs slots).getD j .none = repSlot c f (slots.getD j .none) :=
  abs_getD c fs slots j f hf hl

theorem absSlots_set (c : Nat → Val → Val) (fs : List FieldDesc) (slots : List Val) (j : Nat) (v : Val) (f : FieldDesc)
    (hf : fs[j]? = some f) :
    absSlots c fs (slots.set j v) = (absSlots c fs slots).set j (repSlot c f v) :=
  abs_set c fs slots j v f hf

theorem absSlots_clearGroup (c : Nat → Val → Val) (fs : List FieldDesc) (g : Nat) (slots : List Val) :
    absSlots c fs (clearGroup fs g slots) = clearGroup fs g (absSlots c fs slots) :=
  abs_clearGroup c fs g slots

theorem repNorm_succ (S : Schema) (n i : Nat) (slots : List Val) (u : Bytes) :
    repNorm S (n+1) i (.msg slots u) = .msg (absSlots (repNorm S n) (S.msg i).fields slots) u := rfl

theorem msgOK_succ (S : Schema) (junk : Bool) (n i : Nat) (slots : List Val) (u : Bytes) :
    msgOK S junk (n+1) i (.msg slots u) =
      (slots.length == (S.msg i).fields.length &&
       ((S.msg i).fields.zip slots).all (fun p => slotOK (msgOK S junk n) junk p.1 p.2) &&
       oneofOK ((S.msg i).fields.zip slots)) := rfl

theorem length_absSlots (c : Nat → Val → Val) (fs : List FieldDesc) (slots : List Val) (h : slots.length = fs.length) :
    (absSlots c fs slots).length = fs.length := by
  simp [absSlots, h]

theorem applyFW_refines (c : Nat → Val → Val) (fs : List FieldDesc) (f : FieldDesc) (j : Nat) (slots : List Val)
    (u : Bytes) (hf : fs[j]? = some f) {fw fw' : FW} (h : FWrel c f fw fw') :
    (applyFW fs f j slots u fw).2 = (applyFW fs f j (absSlots c fs slots) u fw').2 ∧
    (match (applyFW fs f j slots u fw).1 with
     | .msg sl u' => Val.msg (absSlots c fs sl) u'
     | x => x) = (applyFW fs f j (absSlots c fs slots) u fw').1 := by
  cases fw <;> cases fw' <;> simp only [FWrel] at h
  · exact ⟨rfl, rfl⟩
  · subst h
    simp only [applyFW, absSlots, abs_set c fs slots j _ f hf, and_self]
  · subst h
    cases hs : f.shape with
    | oneof g =>
      simp only [applyFW, hs, absSlots, true_and]
      rw [abs_set c fs _ j _ f hf, abs_clearGroup, repSlot_oneof _ _ _ hs]
    | singular => simp [applyFW, hs]
    | repeated p => simp [applyFW, hs]
    | map kk => simp [applyFW, hs]

theorem all_map_clear {child : Nat → Val → Bool} (g : Nat) : ∀ (fvs : List (FieldDesc × Val)),
    fvs.all (fun p => slotOK child false p.1 p.2) = true →
    (fvs.map (fun p => (p.1, if p.1.group? == some g then Val.none else p.2))).all
      (fun p => slotOK child false p.1 p.2) = true
  | [], _ => rfl
  | p :: ps, h => by
    simp only [List.all_cons, Bool.and_eq_true, List.map_cons] at *
    refine ⟨?_, all_map_clear g ps h.2⟩
    cases hp : p.1.group? == some g
    · simpa using h.1
    · simp only [if_true]
      have hg : p.1.group? = some g := by simpa using hp
      unfold FieldDesc.group? at hg
      cases hs : p.1.shape <;> simp [hs] at hg
      simp [slotOK, hs]

theorem getElem?_map_clear (g : Nat) (fvs : List (FieldDesc × Val)) (j : Nat) (f : FieldDesc) (v : Val)
    (h : fvs[j]? = some (f, v)) (hg : f.group? = some g) :
    (fvs.map (fun p => (p.1, if p.1.group? == some g then Val.none else p.2)))[j]? = some (f, Val.none) := by
  rw [List.getElem?_map, h]; simp [hg]

/-- a field-level outcome that keeps the slot typed and does not activate a second oneof member keeps
    the message typed -/
theorem applyFW_ok (S : Schema) (n i : Nat) (f : FieldDesc) (j : Nat) (slots : List Val) (u : Bytes)
    (hm : msgOK S false (n+1) i (.msg slots u) = true) (hf : (S.msg i).fields[j]? = some f) {fw : FW}
    (hok : FWok (msgOK S false n) f fw)
    (hmono : ∀ x, fw = .put x → f.isOneof = true → x.isNone = false → (slots.getD j .none).isNone = false) :
    msgOK S false (n+1) i (applyFW (S.msg i).fields f j slots u fw).1 = true := by
  have hm' := hm
  rw [msgOK_succ] at hm'
  simp only [Bool.and_eq_true, beq_iff_eq] at hm'
  obtain ⟨⟨hlen, hall⟩, hone⟩ := hm'
  have hjl : j < slots.length := hlen ▸ lt_of_getElem?_some hf
  have hget := getElem?_zip_getD Val.none (S.msg i).fields slots j f hf hjl
  cases fw with
  | panic => exact hm
  | put x =>
    simp only [applyFW, msgOK_succ, Bool.and_eq_true, beq_iff_eq, List.length_set]
    refine ⟨⟨hlen, ?_⟩, ?_⟩
    · rw [zip_set_right _ _ _ _ f hf]
      exact all_set _ _ _ _ hall hok
    · rw [zip_set_right _ _ _ _ f hf, oneofOK_iff]
      rw [oneofOK_iff] at hone
      intro g
      have h1 := cnt_set g _ j f _ x hget
      have h2 := hone g
      by_cases hi : ind g (f, x) = true
      · have hx : x.isNone = false := by simp [ind] at hi; exact hi.2
        have hfo : f.isOneof = true := by
          simp only [ind, Bool.and_eq_true, beq_iff_eq] at hi
          unfold FieldDesc.group? at hi
          unfold FieldDesc.isOneof
          cases hs : f.shape <;> simp [hs] at hi ⊢
        have hv := hmono x rfl hfo hx
        have : ind g (f, slots.getD j Val.none) = true := by
          simp only [ind, Bool.and_eq_true, beq_iff_eq, Bool.not_eq_true'] at hi ⊢
          exact ⟨hi.1, hv⟩
        simp only [hi, this, if_true] at h1
        omega
      · have hi' : ind g (f, x) = false := by simpa using hi
        simp only [hi', Bool.false_eq_true, if_false] at h1
        split at h1 <;> omega
  | putOne x =>
    cases hs : f.shape with
    | oneof g0 =>
      have hg0 := group_of_shape hs
      simp only [applyFW, hs, msgOK_succ, Bool.and_eq_true, beq_iff_eq, List.length_set]
      refine ⟨⟨length_clearGroup _ _ _ hlen, ?_⟩, ?_⟩
      · rw [zip_set_right _ _ _ _ f hf, zip_clearGroup]
        refine all_set _ _ _ _ (all_map_clear g0 _ hall) ?_
        simpa [slotOK, hs, FWok] using hok
      · rw [zip_set_right _ _ _ _ f hf, zip_clearGroup, oneofOK_iff]
        rw [oneofOK_iff] at hone
        intro g
        have h1 := cnt_set g _ j f _ (Val.one x) (getElem?_map_clear g0 _ j f _ hget hg0)
        rw [cnt_clear] at h1
        have h2 := hone g
        by_cases hg : g = g0
        · subst hg
          simp only [if_true, ind, Val.isNone, hg0, beq_self_eq_true, Bool.not_false, Bool.and_true,
            Bool.not_true, Bool.and_false, Bool.false_eq_true, if_false] at h1
          omega
        · have hne : (some g0 == some g) = false := by simp; exact fun h => hg h.symm
          simp only [hg, if_false, ind, hg0, hne, Bool.false_and, Bool.false_eq_true] at h1
          omega
    | singular => simpa [applyFW, hs] using hm
    | repeated p => simpa [applyFW, hs] using hm
    | map kk => simpa [applyFW, hs] using hm

end Pulsar
