/-
  Pulsar.Proofs.DecodeNoPanic — the generated unmarshal closure never panics (C06), and the
  single-step facts about unknown fields (C14).
-/
import Pulsar.Proofs.DecodeReaders
namespace Pulsar

/-- close a "never panics" goal: try `simp_all`, otherwise split the outermost `if`/`match` and recurse. -/
syntax "np_auto" : tactic
macro_rules
  | `(tactic| np_auto) => `(tactic| first | (simp_all; done) | ((try simp only []); split <;> np_auto))

attribute [local simp] readVarint_ne_panic readLenDelim_ne_panic readFixed_ne_panic
  implReadScalar_ne_panic skip_ne_panic

theorem implPackedLoop_ne_panic (k : Kind) : ∀ (fuel : Nat) (rest : Bytes) (rem : Nat) (acc : List Val),
    implPackedLoop k fuel rest rem acc ≠ .panic := by
  intro fuel
  induction fuel with
  | zero => intro rest rem acc; simp [implPackedLoop]
  | succ fuel ih =>
    intro rest rem acc
    rw [implPackedLoop]
    np_auto

section child
variable {childDec : Nat → Val → Bytes → Res Val}

theorem implReadMapField_ne_panic (hc : ∀ i into p, childDec i into p ≠ .panic)
    (S : Schema) (e : Elem) (old : Val) (rest : Bytes) :
    implReadMapField childDec S e old rest ≠ .panic := by
  unfold implReadMapField
  np_auto

theorem implEntryLoop_ne_panic (hc : ∀ i into p, childDec i into p ≠ .panic)
    (S : Schema) (kk : Kind) (e : Elem) : ∀ (fuel : Nat) (rest : Bytes) (rem : Nat) (k v : Val),
    implEntryLoop childDec S kk e fuel rest rem k v ≠ .panic := by
  intro fuel
  induction fuel with
  | zero => intro rest rem k v; simp [implEntryLoop]
  | succ fuel ih =>
    intro rest rem k v
    have hm := implReadMapField_ne_panic hc S
    rw [implEntryLoop]
    np_auto

theorem implKnownField_ne_panic (hc : ∀ i into p, childDec i into p ≠ .panic)
    (S : Schema) (fs : List FieldDesc) (j : Nat) (f : FieldDesc) (wt : Nat) (m : Val) (rest : Bytes) :
    implKnownField S fs childDec j f wt m rest ≠ .panic := by
  have hp := implPackedLoop_ne_panic
  have he := implEntryLoop_ne_panic hc S
  unfold implKnownField
  simp only []
  np_auto

theorem implUnmarshalLoop_ne_panic (hc : ∀ i into p, childDec i into p ≠ .panic)
    (S : Schema) (i : Nat) (o : UOpts) : ∀ (fuel : Nat) (m : Val) (rest : Bytes),
    implUnmarshalLoop S i o childDec fuel m rest ≠ .panic := by
  intro fuel
  induction fuel with
  | zero => intro m rest; simp [implUnmarshalLoop]
  | succ fuel ih =>
    intro m rest
    have hk := implKnownField_ne_panic hc S (S.msg i).fields
    rw [implUnmarshalLoop]
    simp only [sliceTo]
    np_auto

end child

theorem implUnmarshalClosure_ne_panic (S : Schema) (o : UOpts) : ∀ (fuel : Nat) (depth : Int) (i : Nat)
    (into : Val) (bs : Bytes), implUnmarshalClosure S o fuel depth i into bs ≠ .panic := by
  intro fuel
  induction fuel with
  | zero => intro depth i into bs; simp [implUnmarshalClosure]
  | succ fuel ih =>
    intro depth i into bs
    rw [implUnmarshalClosure]
    split
    · simp
    · split
      · simp
      · exact implUnmarshalLoop_ne_panic (fun i into p => ih _ i into p) S i o _ _ _

/-- `proto.Unmarshal` into a fresh message: Reset is a no-op, then the closure, then the walk.
    (Everything about `implUnmarshal` on fresh targets goes through this lemma.) -/
theorem implUnmarshal_fresh (S : Schema) (o : UOpts) (i : Nat) (bs : Bytes) :
    implUnmarshal S o i (emptyMsg S i) bs =
      match implUnmarshalClosure S o (bs.length + 1) 10000 i (emptyMsg S i) bs with
      | .ok v => if !o.discard && walkPanics S (bs.length + 2) i v then .panic else .ok v
      | .err e => .err e
      | .panic => .panic := by
  have hn : (emptyMsg S i).isNone = false := rfl
  unfold implUnmarshal
  -- (the simp set covers both formulations of the Reset step: with and without the nil-target panic)
  simp only [hn, Bool.and_false, Bool.false_eq_true, if_false, ite_self]
  cases implUnmarshalClosure S o (bs.length + 1) 10000 i (emptyMsg S i) bs <;> rfl

theorem implUnmarshal_fresh_err {S : Schema} {o : UOpts} {i : Nat} {bs : Bytes} {e : Err}
    (h : implUnmarshalClosure S o (bs.length + 1) 10000 i (emptyMsg S i) bs = .err e) :
    implUnmarshal S o i (emptyMsg S i) bs = .err e := by
  rw [implUnmarshal_fresh, h]

/-- conversely, an accepted input was accepted by the closure -/
theorem implUnmarshal_ok_closure {S : Schema} {o : UOpts} {i : Nat} {bs : Bytes} {v : Val}
    (h : implUnmarshal S o i (emptyMsg S i) bs = .ok v) :
    implUnmarshalClosure S o (bs.length + 1) 10000 i (emptyMsg S i) bs = .ok v := by
  rw [implUnmarshal_fresh] at h
  cases hc : implUnmarshalClosure S o (bs.length + 1) 10000 i (emptyMsg S i) bs with
  | ok w =>
    rw [hc] at h
    simp only [] at h
    split at h
    · simp at h
    · simp only [Res.ok.injEq] at h; rw [h]
  | err e => rw [hc] at h; simp at h
  | panic => rw [hc] at h; simp at h

/-! ## C14 single-step facts -/

theorem Val.unknown_setSlot (slots : List Val) (u : Bytes) (j : Nat) (v : Val) :
    ((Val.msg slots u).setSlot j v).unknown = u := rfl

theorem implKnownField_unknown (S : Schema) (fs : List FieldDesc) (childDec : Nat → Val → Bytes → Res Val)
    (j : Nat) (f : FieldDesc) (wt : Nat) (slots : List Val) (u : Bytes) (rest : Bytes) (m' : Val) (r' : Bytes)
    (h : implKnownField S fs childDec j f wt (Val.msg slots u) rest = .ok (m', r')) :
    m'.unknown = u := by
  unfold implKnownField at h
  simp only [] at h
  repeat' split at h
  all_goals first
    | (exfalso; simp at h; done)
    | (simp only [Res.ok.injEq, Prod.mk.injEq] at h
       obtain ⟨rfl, _⟩ := h
       rfl)

theorem implUnmarshalLoop_unknown_step (S : Schema) (i : Nat) (o : UOpts) (childDec : Nat → Val → Bytes → Res Val)
    (fuel : Nat) (m : Val) (rest : Bytes) (wire n : Nat) (r : Bytes)
    (hne : rest ≠ []) (hv : readVarint rest = .ok (wire, r))
    (hwt : wire % 8 ≠ 4) (hnum : (wire / 8) % 4294967296 ≠ 0 ∧ (wire / 8) % 4294967296 < 2147483648)
    (hunk : findField (S.msg i).fields ((wire / 8) % 4294967296) = none)
    (hs : skip rest = .ok n) (hn : n ≤ rest.length) (hd : o.discard = false) :
    implUnmarshalLoop S i o childDec (fuel + 1) m rest =
      implUnmarshalLoop S i o childDec fuel (Val.msg m.slots (m.unknown ++ rest.take n)) (rest.drop n) := by
  have hpos := skip_progress rest n hs
  rw [implUnmarshalLoop]
  simp only [hne, if_false, hv, hwt]
  have h1 : ¬ ((wire / 8) % 4294967296 = 0 ∨ (wire / 8) % 4294967296 ≥ 2147483648) := by omega
  simp only [h1, if_false, hunk, hs]
  have h2 : ¬ (n > rest.length) := by omega
  simp only [h2, if_false, sliceTo_of_le hn, hd]
  have h3 : ¬ (n = 0) := by omega
  simp [h3]

theorem specEncodeLvl_unknown_last (S : Schema) (i : Nat) (child : Nat → Val → Bytes) (slots : List Val) (u : Bytes) :
    specEncodeLvl S i child (Val.msg slots u) = specEncodeLvl S i child (Val.msg slots []) ++ u := by
  simp [specEncodeLvl, Val.slots, Val.unknown]

end Pulsar
