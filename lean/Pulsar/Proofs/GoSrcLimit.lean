/-
  Pulsar.Proofs.GoSrcLimit — runtime.nestedRecursionLimit
  (functions translated from the Go source on every run, `Pulsar/ExtractedFns.lean`, related to the hand-written
  models the property theorems are about; see Pulsar/Proofs/GoSrcBase.lean).
-/
import Pulsar.ExtractedFns
import Pulsar.Proofs.GoSrcBase
import Pulsar.Decode
namespace Pulsar
open Pulsar Pulsar.Timepb

/-! ### runtime.nestedRecursionLimit -/

theorem src_nestedRecursionLimit (d : Int) (hd : -9223372036854775808 ≤ d ∧ d ≤ 9223372036854775807) :
    Xf.runtime_nestedRecursionLimit d = .ok (nestedLimit d) := by
  simp [Xf.runtime_nestedRecursionLimit, nestedLimit, wrap64]
  go_cases

end Pulsar
