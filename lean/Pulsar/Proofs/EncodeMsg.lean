/-
  Pulsar.Proofs.EncodeMsg — message level and tree level: the generated size/marshal closures
  compute (the length of) `gEncode (ordOf o)` on every well-typed value of a well-formed schema.
-/
import Pulsar.Proofs.EncodeField
import Pulsar.Proofs.EncodeOrder
namespace Pulsar

/-! ### facts from `Schema.WF` -/

theorem Schema.msg_wf {S : Schema} (hS : S.WF = true) {i : Nat} (hi : i < S.msgs.length) :
    (S.msg i).wf S.msgs.length = true := by
  unfold Schema.WF at hS
  rw [List.all_eq_true] at hS
  have : S.msg i = S.msgs[i] := by simp [Schema.msg, List.getD_eq_getElem?_getD, hi]
  rw [this]
  exact hS _ (List.getElem_mem hi)

theorem allDistinct_pairwise : ∀ (l : List Nat), allDistinct l = true → l.Pairwise (· ≠ ·)
  | [], _ => List.Pairwise.nil
  | x :: xs, h => by
    simp only [allDistinct, Bool.and_eq_true, Bool.not_eq_true'] at h
    refine List.pairwise_cons.2 ⟨?_, allDistinct_pairwise xs h.2⟩
    intro y hy hxy
    have : xs.contains x = true := List.contains_iff_mem.2 (hxy ▸ hy)
    rw [h.1] at this; cases this

theorem MsgDesc.wf_field {n : Nat} {m : MsgDesc} (h : m.wf n = true) {f : FieldDesc} (hf : f ∈ m.fields) :
    f.wf n = true := by
  simp only [MsgDesc.wf, Bool.and_eq_true, List.all_eq_true] at h
  exact h.1 f hf

theorem MsgDesc.wf_distinct {n : Nat} {m : MsgDesc} (h : m.wf n = true) :
    m.fields.Pairwise (fun a b => a.num ≠ b.num) := by
  simp only [MsgDesc.wf, Bool.and_eq_true] at h
  have := allDistinct_pairwise _ h.2
  rwa [List.pairwise_map] at this

theorem zip_distinct {fs : List FieldDesc} (h : fs.Pairwise (fun a b => a.num ≠ b.num)) :
    ∀ (vs : List Val), (fs.zip vs).Pairwise (fun a b => a.1.num ≠ b.1.num) := by
  induction fs with
  | nil => intro vs; simp
  | cons f fs ih =>
    intro vs
    cases vs with
    | nil => simp
    | cons v vs =>
      rw [List.pairwise_cons] at h
      simp only [List.zip_cons_cons]
      refine List.pairwise_cons.2 ⟨?_, ih h.2 vs⟩
      intro p hp
      exact h.1 p.1 (List.of_mem_zip (a := p.1) (b := p.2) hp).1

/-! ### typing facts -/

theorem msgOK_isMsg {S : Schema} {junk : Bool} {fuel i : Nat} {v : Val}
    (h : msgOK S junk fuel i v = true) : ∃ slots u, v = .msg slots u := by
  cases fuel with
  | zero => simp [msgOK] at h
  | succ fuel =>
    cases v <;> simp [msgOK, msgOKLvl] at h
    exact ⟨_, _, rfl⟩

theorem msgOK_not_none {S : Schema} {junk : Bool} {fuel i : Nat} {v : Val}
    (h : msgOK S junk fuel i v = true) : v.isNone = false := by
  obtain ⟨s, u, rfl⟩ := msgOK_isMsg h; rfl

theorem oneofOK_le_one {fvs : List (FieldDesc × Val)} (h : oneofOK fvs = true) (g : Nat) :
    (fvs.filter (fun q => q.1.group? == some g && !q.2.isNone)).length ≤ 1 := by
  cases hl : fvs.filter (fun q => q.1.group? == some g && !q.2.isNone) with
  | nil => simp
  | cons q qs =>
    have hq : q ∈ fvs.filter (fun q => q.1.group? == some g && !q.2.isNone) := by
      rw [hl]; exact List.mem_cons_self
    rw [List.mem_filter] at hq
    obtain ⟨hq1, hq2⟩ := hq
    simp only [Bool.and_eq_true, beq_iff_eq, Bool.not_eq_true'] at hq2
    unfold oneofOK at h
    rw [List.all_eq_true] at h
    have := h q hq1
    rw [hq2.1] at this
    simp only [hq2.2, Bool.false_or, decide_eq_true_eq] at this
    rw [← hl]; exact this

/-- an inactive oneof member contributes no bytes. -/
theorem gField_not_live (ord : Kind → List Val → List Val) (child : Nat → Val → Bytes)
    (p : FieldDesc × Val) (h : live p = false) : gField ord child p.1 p.2 = [] := by
  simp only [live, Bool.not_eq_false', Bool.and_eq_true] at h
  obtain ⟨h1, h2⟩ := h
  have hv : p.2 = .none := by cases hp : p.2 <;> simp [hp, Val.isNone] at h2; rfl
  unfold FieldDesc.isOneof at h1
  unfold gField
  cases hs : p.1.shape <;> simp [hs] at h1
  simp [hv]

/-! ### one level -/

section level
variable {S : Schema} {childOK : Nat → Val → Bool} {child : Nat → Val → Bytes}
  {childEnc : Nat → Val → Res Bytes} {childSize : Nat → Val → Nat}

theorem level_ok (hS : S.WF = true) {i : Nat} (hi : i < S.msgs.length) (o : MOpts)
    (hord : ∀ kk es, (ordOf o kk es).Perm es)
    (H : ChildOK S.msgs.length childOK child childEnc childSize) {v : Val}
    (hv : msgOKLvl S false childOK i v = true) :
    implSizeLvl S i o childSize v = (gEncodeLvl S (ordOf o) i child v).length ∧
    (BackBuf.mk (implSizeLvl S i o childSize v) []).writeAll
        (implWriteSeq o childEnc ((S.msg i).fields.zip v.slots) v.unknown) =
      .ok ⟨0, gEncodeLvl S (ordOf o) i child v⟩ := by
  cases v <;> simp only [msgOKLvl, Bool.false_eq_true] at hv
  case msg slots u =>
    simp only [Bool.and_eq_true, beq_iff_eq, List.all_eq_true] at hv
    obtain ⟨⟨hlen, hslots⟩, hone⟩ := hv
    have hmwf := Schema.msg_wf hS hi
    simp only [Val.slots, Val.unknown]
    generalize hfvs : (S.msg i).fields.zip slots = fvs at *
    let gF : FieldDesc × Val → Bytes := fun p => gField (ordOf o) child p.1 p.2
    have hmem : ∀ kk es x, x ∈ ordOf o kk es → x ∈ es :=
      fun kk es x hx => (hord kk es).mem_iff.1 hx
    have hF : ∀ p ∈ fvs, implFieldBytes o childEnc p.1 p.2 = .ok (gF p) ∧
        implFieldSize o childSize p.1 p.2 = (gF p).length := by
      intro p hp
      have hpf : p.1 ∈ (S.msg i).fields := by
        rw [← hfvs] at hp
        exact (List.of_mem_zip (a := p.1) (b := p.2) hp).1
      exact field_ok H o hmem (MsgDesc.wf_field hmwf hpf) (hslots p hp)
    have hdist : fvs.Pairwise (fun a b => a.1.num ≠ b.1.num) := by
      rw [← hfvs]; exact zip_distinct (MsgDesc.wf_distinct hmwf) slots
    have horder := flatten_legacy_eq_implOrder gF (gField_not_live _ _) fvs hdist (oneofOK_le_one hone)
    -- size
    have hsize : implSizeLvl S i o childSize (.msg slots u) =
        (gEncodeLvl S (ordOf o) i child (.msg slots u)).length := by
      simp only [implSizeLvl, gEncodeLvl, Val.slots, Val.unknown, hfvs, List.length_append]
      congr 1
      have h1 : fvs.map (fun p => implFieldSize o childSize p.1 p.2) = fvs.map (fun p => (gF p).length) :=
        List.map_congr_left (fun p hp => (hF p hp).2)
      rw [h1, List.length_flatten, List.map_map]
      have hp : ((sortFV fvs).map (List.length ∘ fun p => gField (ordOf o) child p.1 p.2)).Perm
          (fvs.map (fun p => (gF p).length)) := by
        rw [sortFV_eq]; exact (isort_perm _ _).map _
      exact hp.sum_nat.symm
    refine ⟨hsize, ?_⟩
    -- write sequence
    have hseq : implWriteSeq o childEnc fvs u =
        ([u] ++ (((groupsOf (fvs.map (·.1))).reverse.flatMap
            (fun g => (fvs.filter (fun p => p.1.group? == some g)).reverse)).map gF) ++
          (sortDesc (fvs.filter (fun p => !p.1.isOneof))).map gF).map Res.ok := by
      simp only [implWriteSeq, List.map_append, List.map_cons, List.map_nil, List.map_map]
      congr 1
      · congr 1
        rw [List.map_flatMap]
        apply flatMap_congr'
        intro g _
        apply List.map_congr_left
        intro p hp
        rw [List.mem_reverse, List.mem_filter] at hp
        exact (hF p hp.1).1
      · apply List.map_congr_left
        intro p hp
        rw [sortDesc_eq, mem_isort, List.mem_filter] at hp
        exact (hF p hp.1).1
    -- what the reversed chunks concatenate to
    have hcat : ([u] ++ (((groupsOf (fvs.map (·.1))).reverse.flatMap
            (fun g => (fvs.filter (fun p => p.1.group? == some g)).reverse)).map gF) ++
          (sortDesc (fvs.filter (fun p => !p.1.isOneof))).map gF).reverse.flatten =
        gEncodeLvl S (ordOf o) i child (.msg slots u) := by
      simp only [gEncodeLvl, Val.slots, Val.unknown, hfvs]
      rw [horder]
      simp only [List.reverse_append, List.flatten_append, ← List.map_reverse, List.reverse_flatMap,
        List.reverse_reverse, List.reverse_cons, List.reverse_nil, List.nil_append,
        List.flatten_cons, List.flatten_nil, List.append_nil, List.append_assoc]
      congr 2
      have : (List.reverse ∘ fun g => (fvs.filter (fun p => p.1.group? == some g)).reverse) =
          fun g => fvs.filter (fun p => p.1.group? == some g) := by
        funext g; simp
      rw [this]
    have hsum : (([u] ++ (((groupsOf (fvs.map (·.1))).reverse.flatMap
            (fun g => (fvs.filter (fun p => p.1.group? == some g)).reverse)).map gF) ++
          (sortDesc (fvs.filter (fun p => !p.1.isOneof))).map gF).map List.length).sum =
        implSizeLvl S i o childSize (.msg slots u) := by
      rw [hsize, ← hcat, List.length_flatten, List.map_reverse, List.sum_reverse_nat]
    rw [hseq, writeAll_ok _ _ _ (by rw [hsum]; exact Nat.le_refl _), hsum, hcat]
    simp

end level

/-! ### the tree -/

theorem closure_ok {S : Schema} (hS : S.WF = true) (o : MOpts) (hord : ∀ kk es, (ordOf o kk es).Perm es) :
    ∀ (fuel i : Nat) (v : Val), i < S.msgs.length → msgOK S false fuel i v = true →
      implMarshalClosure S o fuel i v = .ok (gEncode S (ordOf o) fuel i v) ∧
      implSize S o fuel i v = (gEncode S (ordOf o) fuel i v).length := by
  intro fuel
  induction fuel with
  | zero => intro i v _ h; simp [msgOK] at h
  | succ fuel ih =>
    intro i v hi hv
    have H : ChildOK S.msgs.length (msgOK S false fuel) (gEncode S (ordOf o) fuel)
        (implMarshalClosure S o fuel) (implSize S o fuel) :=
      fun j x hj hx => ⟨(ih j x hj hx).1, (ih j x hj hx).2, msgOK_not_none hx⟩
    have hnn := msgOK_not_none hv
    obtain ⟨h1, h2⟩ := level_ok hS hi o hord H (v := v) hv
    have hsz : implSize S o (fuel + 1) i v = implSizeLvl S i o (implSize S o fuel) v := by
      simp [implSize, hnn]
    refine ⟨?_, ?_⟩
    · simp only [implMarshalClosure, gEncode, hnn, Bool.false_eq_true, if_false, implMarshalLvl, hsz, h2]
      simp
    · simp only [hsz, gEncode, hnn, Bool.false_eq_true, if_false, h1]

/-- one level of the write sequence (the form `C04_index_reaches_zero` is stated in). -/
theorem writeSeq_ok {S : Schema} (hS : S.WF = true) (o : MOpts) (hord : ∀ kk es, (ordOf o kk es).Perm es)
    (fuel i : Nat) (v : Val) (hi : i < S.msgs.length) (hv : msgOK S false (fuel + 1) i v = true) :
    (BackBuf.mk (implSize S o (fuel + 1) i v) []).writeAll
        (implWriteSeq o (implMarshalClosure S o fuel) ((S.msg i).fields.zip v.slots) v.unknown) =
      .ok ⟨0, gEncode S (ordOf o) (fuel + 1) i v⟩ := by
  have H : ChildOK S.msgs.length (msgOK S false fuel) (gEncode S (ordOf o) fuel)
      (implMarshalClosure S o fuel) (implSize S o fuel) :=
    fun j x hj hx => ⟨(closure_ok hS o hord fuel j x hj hx).1, (closure_ok hS o hord fuel j x hj hx).2,
      msgOK_not_none hx⟩
  have hnn := msgOK_not_none hv
  obtain ⟨_, h2⟩ := level_ok hS hi o hord H (v := v) hv
  have hsz : implSize S o (fuel + 1) i v = implSizeLvl S i o (implSize S o fuel) v := by
    simp [implSize, hnn]
  rw [hsz, h2]
  simp [gEncode, hnn]

end Pulsar
