/-
  The record loop and the tree recursion: reference decoder (strict) vs. generated closure.
-/
import Pulsar.Proofs.DecodeRefKnown
namespace Pulsar

section Loop
variable (S : Schema) (i : Nat) (o : UOpts) (ci : Nat → Val → Bytes → Res Val)

/-- one iteration of the generated loop on a record of a declared field. -/
theorem implLoop_known {fuel : Nat} {m : Val} {rest : Bytes} {wire : Nat} {r : Bytes}
    {j : Nat} {f : FieldDesc} {m' : Val} {r' : Bytes}
    (hne : rest ≠ []) (hread : readVarint rest = .ok (wire, r))
    (hwt : wire % 8 ≠ 4) (hn0 : 1 ≤ (wire / 8) % 4294967296) (hn1 : (wire / 8) % 4294967296 ≤ 536870911)
    (hf : findField (S.msg i).fields ((wire / 8) % 4294967296) = some (j, f))
    (hk : implKnownField S (S.msg i).fields ci j f (wire % 8) m r = .ok (m', r'))
    (hlen : r'.length < rest.length) :
    implUnmarshalLoop S i o ci (fuel + 1) m rest = implUnmarshalLoop S i o ci fuel m' r' := by
  rw [implUnmarshalLoop]
  simp only [hne, if_false, hread]
  rw [if_neg hwt, if_neg (by omega)]
  simp only [hf, hk, hlen, if_true]

/-- one iteration of the generated loop on a record of an undeclared number. -/
theorem implLoop_unknown {fuel : Nat} {m : Val} {rest : Bytes} {wire : Nat} {r : Bytes} {n : Nat}
    (hne : rest ≠ []) (hread : readVarint rest = .ok (wire, r))
    (hwt : wire % 8 ≠ 4) (hn0 : 1 ≤ (wire / 8) % 4294967296) (hn1 : (wire / 8) % 4294967296 ≤ 536870911)
    (hf : findField (S.msg i).fields ((wire / 8) % 4294967296) = none)
    (hs : skip rest = .ok n) (hn : n ≤ rest.length) (hpos : 0 < n) :
    implUnmarshalLoop S i o ci (fuel + 1) m rest =
      implUnmarshalLoop S i o ci fuel
        (if o.discard then m else Val.msg m.slots (m.unknown ++ rest.take n)) (rest.drop n) := by
  rw [implUnmarshalLoop]
  simp only [hne, if_false, hread]
  rw [if_neg hwt, if_neg (by omega)]
  simp only [hf, hs, sliceTo]
  rw [if_neg (by omega), if_pos hn]
  simp only []
  rw [if_neg (by omega)]

end Loop

theorem loop_agree (S : Schema) (i : Nat) (o : UOpts) (cs ci : Nat → Val → Bytes → Res Val)
    (H : ChildAgree cs ci) :
    ∀ (fuel : Nat) (m : Val) (rest : Bytes) (v : Val),
      m.isNone = false → rest.length < 9223372036854775808 →
      specDecodeLoop true S i o cs fuel m rest = .ok v →
      implUnmarshalLoop S i o ci fuel m rest = .ok v ∧ v.isNone = false := by
  intro fuel
  induction fuel with
  | zero =>
    intro m rest v hm _ h
    simp only [specDecodeLoop, Res.ok.injEq] at h; subst h
    exact ⟨by simp [implUnmarshalLoop], hm⟩
  | succ fuel ih =>
    intro m rest v hm hl h
    rw [specDecodeLoop] at h
    split at h
    · rename_i hp; subst hp
      simp only [Res.ok.injEq] at h; subst h
      exact ⟨by simp [implUnmarshalLoop], hm⟩
    · rename_i hne
      split at h
      · simp at h
      · simp at h
      · rename_i num wt r ht
        split at h
        · simp at h
        · rename_i hnum
          obtain ⟨wire, hread, hfn, hwt, h1, hlen⟩ := consumeTag_read ht (by omega)
          subst hfn hwt
          have hrl : r.length < 9223372036854775808 := by omega
          simp only [Bool.true_and] at h
          simp only [if_true] at h
          split at h
          · -- undeclared number
            rename_i hf
            simp only [Bool.false_eq_true, if_false] at h
            split at h
            · rename_i r' hv
              obtain ⟨hs, hlt, hd⟩ := unknown_record ht hv hl
              have hw4 : wire % 8 ≠ 4 := by
                intro e
                rw [e, consumeValue] at hv
                simp at hv
              rw [implLoop_unknown S i o ci hne hread hw4 h1 (by omega) hf hs (by omega) (by omega), hd]
              refine ih _ _ _ ?_ (by omega) h
              split
              · exact hm
              · rfl
            · simp at h
            · simp at h
          · rename_i j f hf
            split at h
            · -- singular scalar
              rename_i k hsh hel
              split at h
              · rename_i hw
                split at h
                · rename_i x r' hs
                  have hk := known_singular_scalar S (S.msg i).fields ci j f _ m r hsh hel hrl hw hs
                  have hl' := specReadScalar_length hs
                  rw [implLoop_known S i o ci hne hread (hw ▸ specWireType_ne_4 k) h1 (by omega) hf hk
                    (by omega)]
                  exact ih _ _ _ (by rw [setSlot_isNone]; exact hm) (by omega) h
                · simp at h
                · simp at h
              · simp at h
            · -- oneof scalar
              rename_i g k hsh hel
              split at h
              · rename_i hw
                split at h
                · rename_i x r' hs
                  have hk := known_oneof_scalar S (S.msg i).fields ci j f _ m r hsh hel hrl hw hs
                  have hl' := specReadScalar_length hs
                  rw [implLoop_known S i o ci hne hread (hw ▸ specWireType_ne_4 k) h1 (by omega) hf hk
                    (by omega)]
                  exact ih _ _ _ (by rw [setSlot_isNone]; rfl) (by omega) h
                · simp at h
                · simp at h
              · simp at h
            · -- singular message
              rename_i mi hsh hel
              split at h
              · rename_i hw
                split at h
                · rename_i n r1 hcv
                  split at h
                  · simp at h
                  · rename_i hn
                    have hl1 := consumeVarint_length hcv
                    split at h
                    · rename_i x hc
                      obtain ⟨hk, hx⟩ := known_singular_message S (S.msg i).fields cs ci j f _ m r H
                        hsh hel hrl hw hcv hn hc
                      rw [implLoop_known S i o ci hne hread (by omega) h1 (by omega) hf hk
                        (by simp only [List.length_drop]; omega)]
                      exact ih _ _ _ (by rw [setSlot_isNone]; exact hm)
                        (by simp only [List.length_drop]; omega) h
                    · simp at h
                    · simp at h
                · simp at h
                · simp at h
              · simp at h
            · -- oneof message
              rename_i g mi hsh hel
              split at h
              · rename_i hw
                split at h
                · rename_i n r1 hcv
                  split at h
                  · simp at h
                  · rename_i hn
                    have hl1 := consumeVarint_length hcv
                    split at h
                    · rename_i x hc
                      obtain ⟨hk, hx⟩ := known_oneof_message S (S.msg i).fields cs ci j f _ m r H
                        hsh hel hrl hw hcv hn hc
                      rw [implLoop_known S i o ci hne hread (by omega) h1 (by omega) hf hk
                        (by simp only [List.length_drop]; omega)]
                      exact ih _ _ _ (by rw [setSlot_isNone]; rfl)
                        (by simp only [List.length_drop]; omega) h
                    · simp at h
                    · simp at h
                · simp at h
                · simp at h
              · simp at h
            · -- repeated scalar
              rename_i pk k hsh hel
              split at h
              · rename_i hw
                split at h
                · rename_i n r1 hcv
                  split at h
                  · simp at h
                  · rename_i hn
                    have hl1 := consumeVarint_length hcv
                    split at h
                    · rename_i vs hp
                      have hk := known_repeated_packed S (S.msg i).fields ci j f _ m r
                        hsh hel hrl hw hcv hn hp
                      rw [implLoop_known S i o ci hne hread (by omega) h1 (by omega) hf hk
                        (by simp only [List.length_drop]; omega)]
                      exact ih _ _ _ (by rw [setSlot_isNone]; exact hm)
                        (by simp only [List.length_drop]; omega) h
                    · simp at h
                    · simp at h
                · simp at h
                · simp at h
              · split at h
                · rename_i hw
                  split at h
                  · rename_i x r' hs
                    have hk := known_repeated_unpacked S (S.msg i).fields ci j f _ m r hsh hel hrl hw hs
                    have hl' := specReadScalar_length hs
                    rw [implLoop_known S i o ci hne hread (hw ▸ specWireType_ne_4 k) h1 (by omega) hf hk
                      (by omega)]
                    exact ih _ _ _ (by rw [setSlot_isNone]; exact hm) (by omega) h
                  · simp at h
                  · simp at h
                · simp at h
            · -- repeated message
              rename_i pk mi hsh hel
              split at h
              · rename_i hw
                split at h
                · rename_i n r1 hcv
                  split at h
                  · simp at h
                  · rename_i hn
                    have hl1 := consumeVarint_length hcv
                    split at h
                    · rename_i x hc
                      obtain ⟨hk, hx⟩ := known_repeated_message S (S.msg i).fields cs ci j f _ m r H
                        hsh hel hrl hw hcv hn hc
                      rw [implLoop_known S i o ci hne hread (by omega) h1 (by omega) hf hk
                        (by simp only [List.length_drop]; omega)]
                      exact ih _ _ _ (by rw [setSlot_isNone]; exact hm)
                        (by simp only [List.length_drop]; omega) h
                    · simp at h
                    · simp at h
                · simp at h
                · simp at h
              · simp at h
            · -- map
              rename_i kk hsh
              split at h
              · rename_i hw
                split at h
                · rename_i n r1 hcv
                  split at h
                  · simp at h
                  · rename_i hn
                    have hl1 := consumeVarint_length hcv
                    split at h
                    · rename_i k x hc
                      have hk := known_map S (S.msg i).fields cs ci j f _ m r H
                        hsh rfl hrl hw hcv hn hc
                      rw [implLoop_known S i o ci hne hread (by omega) h1 (by omega) hf hk
                        (by simp only [List.length_drop]; omega)]
                      exact ih _ _ _ (by rw [setSlot_isNone]; exact hm)
                        (by simp only [List.length_drop]; omega) h
                    · simp at h
                    · simp at h
                · simp at h
                · simp at h
              · simp at h

/-! ## tree recursion -/

/-- protobuf-go's recursion budget (`depth : Nat`, error at 0) against the generated code's
    (`UnmarshalInput.Depth : int`, error when negative, `nestedRecursionLimit` for children). -/
def DepthRel (depth : Nat) (d : Int) : Prop := (1 ≤ depth ∧ d = depth) ∨ (depth = 0 ∧ d = -1)

theorem depthRel_step {depth : Nat} {d : Int} (h : DepthRel depth d) (h0 : depth ≠ 0) :
    DepthRel (depth - 1) (nestedLimit d) := by
  rcases h with ⟨h1, rfl⟩ | ⟨h1, _⟩
  · unfold nestedLimit DepthRel
    by_cases h2 : depth = 1
    · subst h2; simp
    · left
      have hne : ¬ ((depth : Int) = 0) := by omega
      simp only [hne, if_false]
      rw [if_neg (by omega)]
      omega
  · exact absurd h1 h0

theorem closure_agree (S : Schema) (o : UOpts) :
    ∀ (fuel depth : Nat) (d : Int) (i : Nat) (into : Val) (bs : Bytes) (v : Val),
      DepthRel depth d → into.isNone = false → bs.length < 9223372036854775808 →
      specDecodeInto true S o fuel depth i into bs = .ok v →
      implUnmarshalClosure S o fuel d i into bs = .ok v ∧ v.isNone = false := by
  intro fuel
  induction fuel with
  | zero =>
    intro depth d i into bs v _ hi _ h
    simp only [specDecodeInto, Res.ok.injEq] at h; subst h
    exact ⟨by simp [implUnmarshalClosure], hi⟩
  | succ fuel ih =>
    intro depth d i into bs v hd hi hl h
    rw [specDecodeInto] at h
    split at h
    · simp at h
    · rename_i h0
      have hd' := depthRel_step hd h0
      have hdn : ¬ d < 0 := by
        rcases hd with ⟨h1, rfl⟩ | ⟨h1, _⟩
        · omega
        · exact absurd h1 h0
      rw [implUnmarshalClosure]
      simp only [hi, Bool.false_eq_true, if_false, hdn]
      refine loop_agree S i o _ _ ?_ _ _ _ _ hi hl h
      intro i' into' p v' hi' hp hc
      exact ih _ _ _ _ _ _ hd' hi' hp hc

end Pulsar

