/-
  Pulsar.Proofs.RtMsg — one message level of the round trip: the known fields in `sortFV` order,
  then the unknown records.
-/
import Pulsar.Proofs.RtSlot
import Pulsar.Proofs.EncodeMsg
namespace Pulsar

/-! ### `findField` on pairwise distinct numbers -/

theorem find_zipIdx {fs : List FieldDesc} (hd : fs.Pairwise (fun a b => a.num ≠ b.num)) :
    ∀ (start j : Nat) (f : FieldDesc), fs[j]? = some f →
      (fs.zipIdx start).find? (fun p => p.1.num == f.num) = some (f, start + j) := by
  induction fs with
  | nil => intro start j f h; simp at h
  | cons g fs ih =>
    intro start j f h
    rw [List.pairwise_cons] at hd
    cases j with
    | zero =>
      simp only [List.getElem?_cons_zero, Option.some.injEq] at h
      subst h
      simp [List.zipIdx_cons]
    | succ j =>
      simp only [List.getElem?_cons_succ] at h
      have hne : g.num ≠ f.num := hd.1 f (List.mem_of_getElem? h)
      rw [List.zipIdx_cons, List.find?_cons]
      have : (g.num == f.num) = false := beq_eq_false_iff_ne.2 hne
      simp only [this]
      rw [ih hd.2 (start + 1) j f h]
      congr 2; omega

theorem findField_of_getElem? {fs : List FieldDesc} (hd : fs.Pairwise (fun a b => a.num ≠ b.num))
    {j : Nat} {f : FieldDesc} (h : fs[j]? = some f) : findField fs f.num = some (j, f) := by
  unfold findField
  rw [find_zipIdx hd 0 j f h]
  simp

theorem findField_none {fs : List FieldDesc} {num : Nat} (h : fs.any (fun f => f.num == num) = false) :
    findField fs num = none := by
  unfold findField
  rw [Option.map_eq_none_iff, List.find?_eq_none]
  intro p hp
  rw [List.any_eq_false] at h
  have := h p.1 (by
    have := List.mem_zipIdx hp
    rcases p with ⟨a, b⟩
    simp only at this ⊢
    obtain ⟨_, _, h3⟩ := this
    rw [h3]; exact List.getElem_mem _)
  simpa using this

theorem index_unique {fs : List FieldDesc} (hd : fs.Pairwise (fun a b => a.num ≠ b.num))
    {j k : Nat} {f g : FieldDesc} (hj : fs[j]? = some f) (hk : fs[k]? = some g) (h : f.num = g.num) :
    j = k := by
  have h1 := findField_of_getElem? hd hj
  have h2 := findField_of_getElem? hd hk
  rw [h] at h1
  rw [h1] at h2
  simp only [Option.some.injEq, Prod.mk.injEq] at h2
  exact h2.1

/-! ### unknown records -/

section level
variable {S : Schema} {i : Nat} {cd : Nat → Val → Bytes → Res Val}

local notation "LL" => specDecodeLoop true S i {} cd

theorem unknown_rt : ∀ (fuel : Nat) (bs acc : Bytes) (ss : List Val),
    unknownRecordsOK (S.msg i).fields fuel bs = true →
    Steps LL (.msg ss acc) bs (.msg ss (acc ++ bs)) [] := by
  intro fuel
  induction fuel with
  | zero =>
    intro bs acc ss h
    simp only [unknownRecordsOK, List.isEmpty_iff] at h
    subst h
    rw [List.append_nil]; exact Steps.refl _ _ _
  | succ fuel ih =>
    intro bs acc ss h
    rw [unknownRecordsOK] at h
    by_cases hb : bs = []
    · subst hb; rw [List.append_nil]; exact Steps.refl _ _ _
    · have hb' : bs.isEmpty = false := by simpa using hb
      simp only [hb', Bool.false_eq_true, if_false] at h
      split at h
      · rename_i num wt r n ht hf
        simp only [Bool.and_eq_true, decide_eq_true_eq, Bool.not_eq_true'] at h
        obtain ⟨⟨⟨hnum, hnf⟩, hn⟩, hrec⟩ := h
        unfold consumeField at hf
        simp only [ht] at hf
        split at hf
        · rename_i rest2 hv
          simp only [Res.ok.injEq] at hf
          obtain ⟨pre1, hp1⟩ := consumeTag_suffix ht
          obtain ⟨pre2, hp2⟩ := (consume_suffix _).1 _ _ _ _ _ hv
          have hsuf : bs = (pre1 ++ pre2) ++ rest2 := by rw [hp1, hp2]; simp
          have hdrop : bs.drop n = rest2 := by rw [← hf]; exact drop_length_sub_of_suffix hsuf
          have hlt : rest2.length < bs.length := by omega
          have hstep : Steps LL (.msg ss acc) bs (.msg ss (acc ++ bs.take n)) rest2 := by
            refine Steps.of_step ?_ hlt
            intro g
            have := step_unknown (S := S) (i := i) (cd := cd) (fuel := g) (m := .msg ss acc) ht hnum
              (findField_none hnf) (consumeValue_fuel hv)
            rw [hf] at this
            exact this
          have := ih rest2 (acc ++ bs.take n) ss (by rw [← hdrop]; exact hrec)
          have h2 := hstep.trans this
          rw [← hdrop, List.append_assoc, List.take_append_drop] at h2
          rw [← hdrop] at hstep
          exact h2
        · simp at hf
        · simp at hf
      · simp at h

/-! ### the known fields -/

theorem mem_zip_index {fs : List FieldDesc} {slots : List Val} {p : FieldDesc × Val}
    (h : p ∈ fs.zip slots) : ∃ j : Nat, fs[j]? = some p.1 ∧ slots[j]? = some p.2 := by
  obtain ⟨j, hj⟩ := List.getElem?_of_mem h
  exact ⟨j, List.getElem?_zip_eq_some.1 hj⟩

theorem index_mem_zip {fs : List FieldDesc} {slots : List Val} {j : Nat} {f : FieldDesc} {v : Val}
    (hf : fs[j]? = some f) (hv : slots[j]? = some v) : (f, v) ∈ fs.zip slots :=
  List.mem_of_getElem? (List.getElem?_zip_eq_some.2 ⟨hf, hv⟩)

theorem rt_getD_set_ne (ss : List Val) {j k : Nat} (v : Val) (h : j ≠ k) :
    (ss.set j v).getD k Val.none = ss.getD k Val.none := by
  simp [List.getD_eq_getElem?_getD, List.getElem?_set_ne h]

theorem oneof_zero {f : FieldDesc} (h : f.isOneof = true) : f.zero = .none := by
  unfold FieldDesc.isOneof at h
  cases hs : f.shape <;> simp [hs] at h
  cases he : f.elem <;> simp [FieldDesc.zero, hs, he]

theorem repSlot_oneof_none {rn : Nat → Val → Val} {f : FieldDesc} {x : Val} (h : f.isOneof = true)
    (hx : repSlot rn f x = repSlot rn f .none) : x = .none := by
  unfold FieldDesc.isOneof at h
  cases hs : f.shape <;> simp [hs] at h
  simp only [repSlot, hs] at hx
  cases x <;> simp at hx ⊢

theorem length_le_one_eq {α : Type} {l : List α} (h : l.length ≤ 1) {a b : α} (ha : a ∈ l) (hb : b ∈ l) :
    a = b := by
  match l, h with
  | [x], _ =>
    simp only [List.mem_singleton] at ha hb
    rw [ha, hb]

theorem clearGroup_eq_self (fs : List FieldDesc) (g : Nat) : ∀ (ss : List Val), ss.length = fs.length →
    (∀ k fk, fs[k]? = some fk → fk.group? = some g → ss.getD k .none = .none) →
    clearGroup fs g ss = ss := by
  unfold clearGroup
  induction fs with
  | nil => intro ss hl _; cases ss <;> simp_all
  | cons f fs ih =>
    intro ss hl h
    cases ss with
    | nil => simp at hl
    | cons x xs =>
      simp only [List.zip_cons_cons, List.map_cons, List.cons.injEq]
      refine ⟨?_, ih xs (by simpa using hl) (fun k fk hk hg => by
        have := h (k + 1) fk (by simpa using hk) hg
        simpa using this)⟩
      by_cases hg : f.group? = some g
      · have := h 0 f rfl hg
        simp only [List.getD_cons_zero] at this
        simp [hg, this]
      · have : (f.group? == some g) = false := beq_eq_false_iff_ne.2 hg
        simp [this]

theorem zip_map_congr (R : FieldDesc → Val → Val) : ∀ (fs : List FieldDesc) (ss ss' : List Val),
    ss.length = fs.length → ss'.length = fs.length →
    (∀ j f v, fs[j]? = some f → ss'[j]? = some v → R f (ss.getD j .none) = R f v) →
    (fs.zip ss).map (fun p => R p.1 p.2) = (fs.zip ss').map (fun p => R p.1 p.2) := by
  intro fs
  induction fs with
  | nil => intro ss ss' _ _ _; simp
  | cons f fs ih =>
    intro ss ss' h1 h2 h
    cases ss with
    | nil => simp at h1
    | cons x xs =>
      cases ss' with
      | nil => simp at h2
      | cons y ys =>
        simp only [List.zip_cons_cons, List.map_cons, List.cons.injEq]
        refine ⟨?_, ih xs ys (by simpa using h1) (by simpa using h2) (fun j g v hg hv => by
          have := h (j + 1) g v (by simpa using hg) (by simpa using hv)
          simpa using this)⟩
        have := h 0 f y rfl rfl
        simpa using this

section fields
variable {n B : Nat} {cOK cU cK : Nat → Val → Bool} {child : Nat → Val → Bytes} {rn : Nat → Val → Val}
  (H : RtChild S n B cOK cU cK child cd rn) (hB : B ≤ 18446744073709551616)
  {ord : Kind → List Val → List Val} (hord : ∀ kk es, (ord kk es).Perm es)
include H hB hord

theorem fields_rt (hwfm : (S.msg i).wf n = true) {slots : List Val} {u : Bytes}
    (hslen : slots.length = (S.msg i).fields.length)
    (hslots : ∀ p ∈ (S.msg i).fields.zip slots, slotOK cOK false p.1 p.2 = true ∧
      utf8Slot cU p.1 p.2 = true ∧ unknownSlot cK p.1 p.2 = true)
    (hone : oneofOK ((S.msg i).fields.zip slots) = true) :
    ∀ (l : List (FieldDesc × Val)), (∀ p ∈ l, p ∈ (S.msg i).fields.zip slots) →
      l.Pairwise (fun a b => a.1.num ≠ b.1.num) →
      ∀ (ss : List Val) (rest : Bytes), ss.length = (S.msg i).fields.length →
      (∀ j f v, (S.msg i).fields[j]? = some f → slots[j]? = some v →
        ((f, v) ∈ l → ss.getD j .none = f.zero) ∧
        ((f, v) ∉ l → repSlot rn f (ss.getD j .none) = repSlot rn f v)) →
      ((l.map (fun p => gField ord child p.1 p.2)).flatten.length ≤ B) →
      ∃ ss', ss'.length = (S.msg i).fields.length ∧
        (∀ j f v, (S.msg i).fields[j]? = some f → slots[j]? = some v →
          repSlot rn f (ss'.getD j .none) = repSlot rn f v) ∧
        Steps LL (.msg ss u) ((l.map (fun p => gField ord child p.1 p.2)).flatten ++ rest) (.msg ss' u) rest := by
  have hdist := MsgDesc.wf_distinct hwfm
  intro l
  induction l with
  | nil =>
    intro _ _ ss rest hl hinv _
    exact ⟨ss, hl, fun j f v hf hv => (hinv j f v hf hv).2 (by simp), by simpa using Steps.refl _ _ _⟩
  | cons p l ih =>
    intro hmem hpw ss rest hl hinv hlen
    obtain ⟨f, v⟩ := p
    rw [List.pairwise_cons] at hpw
    have hpz := hmem (f, v) List.mem_cons_self
    obtain ⟨j, hjf, hjv⟩ := mem_zip_index hpz
    simp only at hjf hjv
    have hjlt : j < ss.length := by
      rw [hl]; exact (List.getElem?_eq_some_iff.1 hjf).1
    have hfmem : f ∈ (S.msg i).fields := List.mem_of_getElem? hjf
    obtain ⟨hok, hu8, hunk⟩ := hslots (f, v) hpz
    simp only [List.map_cons, List.flatten_cons, List.length_append, List.append_assoc] at hlen ⊢
    have hcur := (hinv j f v hjf hjv).1 List.mem_cons_self
    -- the other members of an active oneof group are unset
    have hclr : ∀ g, f.shape = .oneof g → v.isNone = false →
        clearGroup (S.msg i).fields g ss = ss := by
      intro g hs hvn
      apply clearGroup_eq_self _ _ _ hl
      intro k fk hk hg
      have hfg : f.group? = some g := by simp [FieldDesc.group?, hs]
      have hfko : fk.isOneof = true := by rw [isOneof_eq_isSome, hg]; rfl
      by_cases hkj : k = j
      · subst hkj
        rw [hjf] at hk
        simp only [Option.some.injEq] at hk; subst hk
        rw [hcur]; exact oneof_zero hfko
      · have hklt : k < slots.length := by
          rw [hslen]; exact (List.getElem?_eq_some_iff.1 hk).1
        obtain ⟨vk, hvk⟩ : ∃ vk, slots[k]? = some vk := ⟨slots[k], List.getElem?_eq_getElem hklt⟩
        have hvkn : vk = .none := by
          by_cases hvkn : vk.isNone = true
          · exact isNone_eq_true hvkn
          · exfalso
            have hle := oneofOK_le_one hone g
            have ha : (f, v) ∈ ((S.msg i).fields.zip slots).filter
                (fun q => q.1.group? == some g && !q.2.isNone) := by
              rw [List.mem_filter]; exact ⟨hpz, by simp [hfg, hvn]⟩
            have hb : (fk, vk) ∈ ((S.msg i).fields.zip slots).filter
                (fun q => q.1.group? == some g && !q.2.isNone) := by
              rw [List.mem_filter]; exact ⟨index_mem_zip hk hvk, by simpa [hg] using hvkn⟩
            have := length_le_one_eq hle ha hb
            simp only [Prod.mk.injEq] at this
            exact hkj (index_unique hdist hk hjf (by rw [this.1]))
        subst hvkn
        by_cases hin : (fk, Val.none) ∈ (f, v) :: l
        · rw [((hinv k fk .none hk hvk).1 hin)]; exact oneof_zero hfko
        · exact repSlot_oneof_none hfko ((hinv k fk .none hk hvk).2 hin)
    obtain ⟨v', hst, hrep⟩ := field_rt (ss := ss) (u := u) H hB hord
      (findField_of_getElem? hdist hjf) (MsgDesc.wf_field hwfm hfmem) hok hu8 hunk
      (show (gField ord child f v).length ≤ B by omega) hjlt hcur hclr
      ((l.map (fun p => gField ord child p.1 p.2)).flatten ++ rest)
    obtain ⟨ss', hl', hfin, hst2⟩ := ih (fun q hq => hmem q (List.mem_cons_of_mem _ hq)) hpw.2
      (ss.set j v') rest (by simpa using hl)
      (by
        intro k fk vk hk hvk
        by_cases hkj : k = j
        · subst hkj
          rw [hjf] at hk; rw [hjv] at hvk
          simp only [Option.some.injEq] at hk hvk; subst hk; subst hvk
          refine ⟨fun hin => absurd rfl (hpw.1 _ hin), fun _ => ?_⟩
          rw [rt_getD_set_self ss k v' hjlt]; exact hrep
        · rw [rt_getD_set_ne ss v' (Ne.symm hkj)]
          have hne : (fk, vk) ≠ (f, v) := by
            intro h
            simp only [Prod.mk.injEq] at h
            exact hkj (index_unique hdist hk hjf (by rw [h.1]))
          refine ⟨fun hin => (hinv k fk vk hk hvk).1 (List.mem_cons_of_mem _ hin), fun hnin => ?_⟩
          apply (hinv k fk vk hk hvk).2
          intro hin
          rcases List.mem_cons.1 hin with h | h
          · exact hne h
          · exact hnin h)
      (by omega)
    exact ⟨ss', hl', hfin, hst.trans hst2⟩

end fields

end level
end Pulsar
