/-
  Helper lemmas for C08, field level: every field-level read and write of the IMPL machine agrees with
  the SPEC machine on the abstraction of the slot (`repSlot`), and writes keep the slot well-typed.
-/
import Pulsar.Proofs.ReflectSort
namespace Pulsar

/-! ### `repNorm` / `msgOK` basics -/

theorem repNorm_isNone (S : Schema) (fuel i : Nat) (v : Val) : (repNorm S fuel i v).isNone = v.isNone := by
  cases fuel with
  | zero => rfl
  | succ n => cases v <;> rfl

theorem repNorm_none (S : Schema) (fuel i : Nat) : repNorm S fuel i .none = .none := by
  cases fuel <;> rfl

theorem repNorm_msg (S : Schema) (fuel i : Nat) (s : List Val) (u : Bytes) :
    ∃ s', repNorm S fuel i (.msg s u) = .msg s' u := by
  cases fuel with
  | zero => exact ⟨s, rfl⟩
  | succ n => exact ⟨_, rfl⟩

theorem rf_msgOK_isMsg {S : Schema} {junk : Bool} {fuel i : Nat} {v : Val} (h : msgOK S junk fuel i v = true) :
    ∃ s u, v = .msg s u := by
  cases fuel with
  | zero => simp [msgOK] at h
  | succ n => cases v <;> simp [msgOK, msgOKLvl] at h; exact ⟨_, _, rfl⟩

theorem repSlot_zero (c : Nat → Val → Val) (f : FieldDesc) : repSlot c f f.zero = f.zero := by
  unfold repSlot FieldDesc.zero
  cases f.shape <;> cases f.elem <;> simp [repElem, Val.elems, sortEntries, sortBy, Val.isNone]
  rename_i k
  cases k <;> simp [Kind.isBlob]

theorem map_zip_zero (g : FieldDesc → Val → Val) (hg : ∀ f, g f f.zero = f.zero) :
    ∀ fs : List FieldDesc, ((fs.zip (fs.map FieldDesc.zero)).map (fun p => g p.1 p.2)) = fs.map FieldDesc.zero
  | [] => rfl
  | f :: fs => by simp [hg, map_zip_zero g hg fs]

theorem repNorm_emptyMsg (S : Schema) (fuel i : Nat) : repNorm S fuel i (emptyMsg S i) = emptyMsg S i := by
  cases fuel with
  | zero => rfl
  | succ n =>
    simp only [repNorm, emptyMsg]
    rw [map_zip_zero (fun f v => repSlot (repNorm S n) f v) (repSlot_zero _)]

theorem slotOK_zero (child : Nat → Val → Bool) (junk : Bool) (f : FieldDesc) : slotOK child junk f f.zero = true := by
  unfold slotOK FieldDesc.zero
  cases f.shape <;> cases f.elem <;> simp [elemOK, scalarOK, distinctKeys, Val.isNone]
  rename_i k
  cases k <;> simp [Kind.isBlob, Kind.width]

theorem all_zip_zero (p : FieldDesc → Val → Bool) (hp : ∀ f, p f f.zero = true) :
    ∀ fs : List FieldDesc, ((fs.zip (fs.map FieldDesc.zero)).all (fun q => p q.1 q.2)) = true
  | [] => rfl
  | f :: fs => by simp [hp, all_zip_zero p hp fs]

/-! ### elements -/

section
variable (S : Schema) (fuel : Nat)

theorem repElem_getBits (c : Nat → Val → Val) (k : Kind) (v : Val) :
    (repElem c (.scalar k) v).getBits = v.getBits := by
  cases v <;> rfl

theorem repElem_getBlob (c : Nat → Val → Val) (k : Kind) (v : Val) :
    (repElem c (.scalar k) v).getBlob = v.getBlob := by
  cases v <;> rfl

theorem repElem_isNone (e : Elem) (v : Val) : (repElem (repNorm S fuel) e v).isNone = v.isNone := by
  cases e with
  | scalar k => cases v <;> rfl
  | message i =>
    simp only [repElem]
    split
    · rfl
    · exact repNorm_isNone S fuel i v

theorem outElem_repElem (e : Elem) (v : Val) : outElem e (repElem (repNorm S fuel) e v) = outElem e v := by
  cases e with
  | scalar k => simp only [outElem, repElem_getBits, repElem_getBlob]
  | message i => simp only [outElem, repElem_isNone]

theorem kbeqOf_repElem_left (c : Nat → Val → Val) (kk k' : Kind) (a b : Val) :
    kbeqOf kk (repElem c (.scalar k') a) b = kbeqOf kk a b := by
  simp only [kbeqOf, repElem_getBits, repElem_getBlob]

theorem keyLt_repElem (c : Nat → Val → Val) (kk k1 k2 : Kind) (a b : Val) :
    keyLt kk (repElem c (.scalar k1) a) (repElem c (.scalar k2) b) = keyLt kk a b := by
  cases kk <;> simp only [keyLt, repElem_getBits, repElem_getBlob]

theorem scalarOK_repElem (c : Nat → Val → Val) (kk k' : Kind) (a : Val) :
    scalarOK kk (repElem c (.scalar k') a) = scalarOK kk a := by
  cases a <;> rfl

/-- the entry normaliser of `repSlot` -/
def normEntry (c : Nat → Val → Val) (kk : Kind) (e : Elem) (en : Val) : Val :=
  .entry (repElem c (.scalar kk) en.key) (repElem c e en.value)

theorem repSlot_map (c : Nat → Val → Val) (f : FieldDesc) (kk : Kind) (h : f.shape = .map kk) (v : Val) :
    repSlot c f v = .map false (sortEntries kk (v.elems.map (normEntry c kk f.elem))) := by
  simp only [repSlot, h]; rfl

theorem repSlot_repeated (c : Nat → Val → Val) (f : FieldDesc) (p : Bool) (h : f.shape = .repeated p) (v : Val) :
    repSlot c f v = .list false (v.elems.map (repElem c f.elem)) := by
  simp only [repSlot, h]

theorem repSlot_singular (c : Nat → Val → Val) (f : FieldDesc) (h : f.shape = .singular) (v : Val) :
    repSlot c f v = repElem c f.elem v := by
  simp only [repSlot, h]

theorem repSlot_oneof (c : Nat → Val → Val) (f : FieldDesc) (g : Nat) (h : f.shape = .oneof g) (v : Val) :
    repSlot c f v = (match v with | .one x => .one (repElem c f.elem x) | x => x) := by
  simp only [repSlot, h]; cases v <;> rfl

theorem normEntry_key (c : Nat → Val → Val) (kk : Kind) (e : Elem) (en : Val) :
    (normEntry c kk e en).key = repElem c (.scalar kk) en.key := rfl

theorem normEntry_value (c : Nat → Val → Val) (kk : Kind) (e : Elem) (en : Val) :
    (normEntry c kk e en).value = repElem c e en.value := rfl

theorem klt_normEntry (c : Nat → Val → Val) (kk : Kind) (e : Elem) (a b : Val) :
    klt kk (normEntry c kk e a) (normEntry c kk e b) = klt kk a b := by
  simp only [klt, normEntry_key, keyLt_repElem]

theorem distinct_map_normEntry (c : Nat → Val → Val) (kk : Kind) (e : Elem) {L : List Val} (hd : DistinctK kk L) :
    DistinctK kk (L.map (normEntry c kk e)) := by
  unfold DistinctK at *
  rw [List.pairwise_map]
  refine hd.imp ?_
  intro a b h
  rw [normEntry_key, normEntry_key, kbeqOf_repElem_left, kbeqOf_symm, kbeqOf_repElem_left, kbeqOf_symm]
  exact h

theorem keysOK_map_normEntry (c : Nat → Val → Val) (kk : Kind) (e : Elem) {L : List Val} (hk : KeysOK kk L) :
    KeysOK kk (L.map (normEntry c kk e)) := by
  intro x hx
  obtain ⟨a, ha, rfl⟩ := List.mem_map.1 hx
  rw [normEntry_key, scalarOK_repElem]; exact hk a ha

theorem any_map_normEntry (c : Nat → Val → Val) (kk : Kind) (e : Elem) (L : List Val) (k : Val) :
    (L.map (normEntry c kk e)).any (fun en => kbeqOf kk en.key k) = L.any (fun en => kbeqOf kk en.key k) := by
  rw [List.any_map]
  congr 1
  funext en
  simp only [Function.comp, normEntry_key, kbeqOf_repElem_left]

theorem findEntry_map_normEntry (c : Nat → Val → Val) (kk : Kind) (e : Elem) (L : List Val) (k : Val) :
    findEntry kk (L.map (normEntry c kk e)) k = (findEntry kk L k).map (normEntry c kk e) := by
  unfold findEntry
  rw [List.find?_map]
  congr 2
  funext en
  simp only [Function.comp, normEntry_key, kbeqOf_repElem_left]

theorem mapPut_map_normEntry (c : Nat → Val → Val) (kk : Kind) (e : Elem) (L : List Val) (k x : Val) :
    (mapPut (kbeqOf kk) L k x).map (normEntry c kk e)
      = mapPut (kbeqOf kk) (L.map (normEntry c kk e)) (repElem c (.scalar kk) k) (repElem c e x) := by
  have hk : ∀ en : Val, kbeqOf kk (normEntry c kk e en).key (repElem c (.scalar kk) k) = kbeqOf kk en.key k := by
    intro en
    rw [normEntry_key, kbeqOf_repElem_left, kbeqOf_symm, kbeqOf_repElem_left, kbeqOf_symm]
  unfold mapPut
  rw [List.any_map]
  have : ((fun en => kbeqOf kk en.key (repElem c (.scalar kk) k)) ∘ normEntry c kk e)
      = (fun en => kbeqOf kk en.key k) := by
    funext en; exact hk en
  rw [this]
  split
  · rw [List.map_map, List.map_map]
    apply List.map_congr_left
    intro en _
    simp only [Function.comp, hk]
    split <;> rfl
  · rw [List.map_append]; rfl

theorem mapDel_map_normEntry (c : Nat → Val → Val) (kk : Kind) (e : Elem) (L : List Val) (k : Val) :
    (mapDel kk L k).map (normEntry c kk e) = mapDel kk (L.map (normEntry c kk e)) k := by
  unfold mapDel
  rw [List.filter_map]
  congr 2
  funext en
  simp only [Function.comp, normEntry_key, kbeqOf_repElem_left]

end

/-! ### inversion of `slotOK` (junk-free) -/

theorem slotOK_repeated {child : Nat → Val → Bool} {f : FieldDesc} {v : Val} {p : Bool}
    (h : f.shape = .repeated p) (hv : slotOK child false f v = true) :
    ∃ nn es, v = .list nn es ∧ es.all (elemOK child f.elem false) = true := by
  simp only [slotOK, h] at hv
  cases v <;> simp at hv
  exact ⟨_, _, rfl, by simpa using hv⟩

theorem slotOK_map {child : Nat → Val → Bool} {f : FieldDesc} {v : Val} {kk : Kind}
    (h : f.shape = .map kk) (hv : slotOK child false f v = true) :
    ∃ nn es, v = .map nn es ∧ es.all (entryOK child false kk f.elem) = true ∧ distinctKeys kk es = true := by
  simp only [slotOK, h] at hv
  cases v <;> simp at hv
  exact ⟨_, _, rfl, by simpa using hv.1, hv.2⟩

theorem slotOK_oneof {child : Nat → Val → Bool} {f : FieldDesc} {v : Val} {g : Nat}
    (h : f.shape = .oneof g) (hv : slotOK child false f v = true) :
    v = .none ∨ ∃ x, v = .one x ∧ elemOK child f.elem false x = true := by
  simp only [slotOK, h] at hv
  cases v <;> simp at hv
  · exact Or.inl rfl
  · exact Or.inr ⟨_, rfl, hv⟩

theorem slotOK_singular {child : Nat → Val → Bool} {f : FieldDesc} {v : Val}
    (h : f.shape = .singular) (hv : slotOK child false f v = true) : elemOK child f.elem true v = true := by
  simpa only [slotOK, h] using hv

theorem entryOK_inv {child : Nat → Val → Bool} {kk : Kind} {e : Elem} {en : Val}
    (h : entryOK child false kk e en = true) :
    ∃ k v, en = .entry k v ∧ scalarOK kk k = true ∧ elemOK child e false v = true := by
  cases en <;> simp [entryOK] at h
  exact ⟨_, _, rfl, h.1, h.2⟩

theorem keysOK_of_entries {child : Nat → Val → Bool} {kk : Kind} {e : Elem} {es : List Val}
    (h : es.all (entryOK child false kk e) = true) : KeysOK kk es := by
  intro en hen
  obtain ⟨k, v, rfl, hk, _⟩ := entryOK_inv (List.all_eq_true.1 h en hen)
  exact hk

/-! ### reads -/

@[simp] theorem Val.elems_list (nn : Bool) (es : List Val) : (Val.list nn es).elems = es := rfl
@[simp] theorem Val.elems_map (nn : Bool) (es : List Val) : (Val.map nn es).elems = es := rfl

theorem present_eq (k : Kind) (v : Val) : specPresent k v = implPresent k v := by
  cases k <;> simp [specPresent, implPresent, Kind.isBlob]

theorem rf_sortEntries_perm (kk : Kind) (L : List Val) : (sortEntries kk L).Perm L := sortBy_perm _ L

theorem length_sortEntries (kk : Kind) (L : List Val) : (sortEntries kk L).length = L.length :=
  (sortBy_perm _ L).length_eq

section
variable (S : Schema) (fuel : Nat)

theorem hasF_refines {f : FieldDesc} {v : Val} (hv : slotOK (msgOK S false fuel) false f v = true) :
    SpecReflect.hasF f (repSlot (repNorm S fuel) f v) = Reflect.hasF f v := by
  cases hs : f.shape with
  | singular =>
    simp only [SpecReflect.hasF, Reflect.hasF, hs, repSlot_singular _ _ hs]
    cases he : f.elem with
    | scalar k =>
      simp only [present_eq]
      cases k <;> simp only [implPresent, repElem_getBits, repElem_getBlob]
    | message i => simp only [repElem_isNone]
  | oneof g =>
    simp only [SpecReflect.hasF, Reflect.hasF, hs, repSlot_oneof _ _ _ hs]
    rcases slotOK_oneof hs hv with rfl | ⟨x, rfl, _⟩ <;> rfl
  | repeated p =>
    simp only [SpecReflect.hasF, Reflect.hasF, hs, repSlot_repeated _ _ _ hs, Val.elems_list, List.length_map]
    cases v.elems <;> simp
  | map kk =>
    simp only [SpecReflect.hasF, Reflect.hasF, hs, repSlot_map _ _ _ hs, Val.elems_map, length_sortEntries,
      List.length_map]
    cases v.elems <;> simp

theorem getF_refines {f : FieldDesc} {v : Val} (hv : slotOK (msgOK S false fuel) false f v = true) :
    SpecReflect.getF f (repSlot (repNorm S fuel) f v) = Reflect.getF f v := by
  cases hs : f.shape with
  | singular =>
    simp only [SpecReflect.getF, Reflect.getF, hs, repSlot_singular _ _ hs, outElem_repElem]
  | oneof g =>
    simp only [SpecReflect.getF, Reflect.getF, hs, repSlot_oneof _ _ _ hs]
    rcases slotOK_oneof hs hv with rfl | ⟨x, rfl, _⟩
    · rfl
    · simp only [outElem_repElem]
  | repeated p =>
    simp only [SpecReflect.getF, Reflect.getF, hs, repSlot_repeated _ _ _ hs, Val.elems_list, List.length_map]
    cases v.elems <;> simp
  | map kk =>
    simp only [SpecReflect.getF, Reflect.getF, hs, repSlot_map _ _ _ hs, Val.elems_map, length_sortEntries,
      List.length_map]
    cases v.elems <;> simp
end

/-! ### writes -/

/-- the SPEC outcome is the abstraction of the IMPL outcome -/
def FWrel (c : Nat → Val → Val) (f : FieldDesc) : FW → FW → Prop
  | .panic, .panic => True
  | .put x, .put y => repSlot c f x = y
  | .putOne x, .putOne y => repElem c f.elem x = y
  | _, _ => False

/-- the IMPL outcome keeps the slot well-typed -/
def FWok (child : Nat → Val → Bool) (f : FieldDesc) : FW → Prop
  | .panic => True
  | .put x => slotOK child false f x = true
  | .putOne x => elemOK child f.elem false x = true

theorem elemOK_weaken {child : Nat → Val → Bool} {e : Elem} {v : Val} (h : elemOK child e false v = true) :
    elemOK child e true v = true := by
  cases e <;> simp_all [elemOK]

section
variable (S : Schema) (fuel : Nat)

theorem store_check {e : Elem} {a : Val} (ha : elemOK (msgOK S false fuel) e false a = true) :
    ∃ x, Reflect.storeElem e a = some x ∧
      SpecReflect.checkElem e (repElem (repNorm S fuel) e a) = some (repElem (repNorm S fuel) e x) ∧
      elemOK (msgOK S false fuel) e false x = true := by
  cases e with
  | scalar k =>
    simp only [elemOK] at ha
    by_cases hk : k.isBlob = true
    · obtain ⟨nn, b, rfl⟩ := rf_scalarOK_blob ha hk
      cases k <;> simp [Kind.isBlob] at hk
      · exact ⟨.blob false b, by simp [Reflect.storeElem], by simp [SpecReflect.checkElem, repElem, Kind.isBlob],
          by simp [elemOK, scalarOK, Kind.isBlob]⟩
      · exact ⟨.blob nn b, by simp [Reflect.storeElem], by simp [SpecReflect.checkElem, repElem, Kind.isBlob],
          by simp [elemOK, scalarOK, Kind.isBlob]⟩
    · have hk' : k.isBlob = false := by simpa using hk
      obtain ⟨n, rfl, _⟩ := rf_scalarOK_bits ha hk'
      exact ⟨.bits n, by simp [Reflect.storeElem, hk'], by simp [SpecReflect.checkElem, repElem, hk'],
        by simpa [elemOK] using ha⟩
  | message i =>
    simp only [elemOK, Val.isNone, Bool.and_false, Bool.false_or] at ha
    have ha' : msgOK S false fuel i a = true := by
      cases a <;> simpa using ha
    obtain ⟨s, u, rfl⟩ := rf_msgOK_isMsg ha'
    obtain ⟨s', hs'⟩ := repNorm_msg S fuel i s u
    refine ⟨.msg s u, rfl, ?_, by simpa [elemOK] using ha'⟩
    simp [SpecReflect.checkElem, repElem, Val.isNone, hs']

theorem setF_refines {f : FieldDesc} {a : Val} (ha : setArgOK (msgOK S false fuel) f a = true) :
    FWrel (repNorm S fuel) f (Reflect.setF f a) (SpecReflect.setF f (absArg (repNorm S fuel) f a)) ∧
    FWok (msgOK S false fuel) f (Reflect.setF f a) := by
  cases hs : f.shape with
  | singular =>
    simp only [setArgOK, hs] at ha
    obtain ⟨x, h1, h2, h3⟩ := store_check S fuel ha
    simp only [Reflect.setF, SpecReflect.setF, absArg, hs, h1, h2, FWrel, FWok, repSlot_singular _ _ hs,
      slotOK, elemOK_weaken h3, and_self]
  | oneof g =>
    simp only [setArgOK, hs] at ha
    obtain ⟨x, h1, h2, h3⟩ := store_check S fuel ha
    simp only [Reflect.setF, SpecReflect.setF, absArg, hs, h1, h2, FWrel, FWok, h3, and_self]
  | repeated p =>
    simp only [setArgOK, hs] at ha
    obtain ⟨nn, es, rfl, hes⟩ := slotOK_repeated hs ha
    cases nn
    · simp [Reflect.setF, SpecReflect.setF, absArg, hs, FWrel, FWok]
    · simp only [Reflect.setF, SpecReflect.setF, absArg, hs, FWrel, FWok, repSlot_repeated _ _ _ hs,
        Val.elems_list, true_and]
      simpa [slotOK, hs] using hes
  | map kk =>
    simp only [setArgOK, hs] at ha
    obtain ⟨nn, es, rfl, hes, hd⟩ := slotOK_map hs ha
    cases nn
    · simp [Reflect.setF, SpecReflect.setF, absArg, hs, FWrel, FWok]
    · simp only [Reflect.setF, SpecReflect.setF, absArg, hs, FWrel, FWok, repSlot_map _ _ _ hs,
        Val.elems_map]
      refine ⟨rfl, ?_⟩
      simpa [slotOK, hs] using ha

theorem clearF_refines (f : FieldDesc) :
    FWrel (repNorm S fuel) f (Reflect.clearF f) (SpecReflect.clearF f) ∧
    FWok (msgOK S false fuel) f (Reflect.clearF f) := by
  simp only [Reflect.clearF, SpecReflect.clearF, FWrel, FWok, repSlot_zero, slotOK_zero, and_self]

end

/-! ### the empty message is well-typed -/

theorem mem_zip_map_zero : ∀ {fs : List FieldDesc} {p : FieldDesc × Val},
    p ∈ fs.zip (fs.map FieldDesc.zero) → p.2 = p.1.zero
  | [], _, h => by cases h
  | f :: fs, p, h => by
    simp only [List.map_cons, List.zip_cons_cons, List.mem_cons] at h
    rcases h with rfl | h
    · rfl
    · exact mem_zip_map_zero h

theorem zero_isNone_of_group {f : FieldDesc} {g : Nat} (h : f.group? = some g) : f.zero.isNone = true := by
  unfold FieldDesc.group? at h
  unfold FieldDesc.zero
  cases hs : f.shape <;> simp [hs] at h
  cases f.elem <;> rfl

theorem oneofOK_zero (fs : List FieldDesc) : oneofOK (fs.zip (fs.map FieldDesc.zero)) = true := by
  unfold oneofOK
  rw [List.all_eq_true]
  intro p hp
  have := mem_zip_map_zero hp
  cases hg : p.1.group? with
  | none => rfl
  | some g => simp [this, zero_isNone_of_group hg]

theorem msgOK_emptyMsg (S : Schema) (junk : Bool) (n i : Nat) : msgOK S junk (n+1) i (emptyMsg S i) = true := by
  simp only [msgOK, msgOKLvl, emptyMsg, List.length_map, beq_self_eq_true, Bool.true_and, Bool.and_eq_true]
  exact ⟨all_zip_zero (fun f v => slotOK (msgOK S junk n) junk f v) (slotOK_zero _ _) _, oneofOK_zero _⟩

section
variable (S : Schema) (fuel : Nat)

theorem mutF_refines {f : FieldDesc} {v : Val} (hv : slotOK (msgOK S false (fuel+1)) false f v = true) :
    FWrel (repNorm S (fuel+1)) f (Reflect.mutF S f v) (SpecReflect.mutF S f (repSlot (repNorm S (fuel+1)) f v)) ∧
    FWok (msgOK S false (fuel+1)) f (Reflect.mutF S f v) := by
  cases hs : f.shape with
  | singular =>
    cases he : f.elem with
    | scalar k => simp [Reflect.mutF, SpecReflect.mutF, hs, he, FWrel, FWok]
    | message mi =>
      have hv' := slotOK_singular hs hv
      simp only [Reflect.mutF, SpecReflect.mutF, hs, he, FWrel, FWok, repSlot_singular _ _ hs, repElem_isNone]
      cases hn : v.isNone
      · simp only [Bool.false_eq_true, if_false, slotOK, hs, hv', and_self]
      · simp only [if_true, repElem, he, slotOK, hs, elemOK, msgOK_emptyMsg, Bool.or_true, and_true]
        rw [repNorm_emptyMsg]; simp
  | repeated p =>
    obtain ⟨nn, es, rfl, hes⟩ := slotOK_repeated hs hv
    simp only [Reflect.mutF, SpecReflect.mutF, hs, FWrel, FWok, repSlot_repeated _ _ _ hs, Val.elems_list,
      true_and]
    simpa [slotOK, hs] using hes
  | map kk =>
    obtain ⟨nn, es, rfl, hes, hd⟩ := slotOK_map hs hv
    simp only [Reflect.mutF, SpecReflect.mutF, hs, FWrel, FWok, repSlot_map _ _ _ hs, Val.elems_map,
      true_and]
    simpa [slotOK, hs] using hv
  | oneof g =>
    cases he : f.elem with
    | scalar k => simp [Reflect.mutF, SpecReflect.mutF, hs, he, FWrel, FWok]
    | message mi =>
      rcases slotOK_oneof hs hv with rfl | ⟨x, rfl, hx⟩
      · simp only [Reflect.mutF, SpecReflect.mutF, hs, he, FWrel, FWok, repSlot_oneof _ _ _ hs, repElem,
          elemOK, msgOK_emptyMsg, Bool.or_true, and_true]
        simp only [emptyMsg, Val.isNone, Bool.false_eq_true, if_false]
        exact repNorm_emptyMsg S (fuel+1) mi
      · have hxn : x ≠ Val.none := by
          rintro rfl
          simp [elemOK, he, msgOK, msgOKLvl, Val.isNone] at hx
        cases x with
        | none => exact absurd rfl hxn
        | _ =>
          simp only [Reflect.mutF, SpecReflect.mutF, hs, he, FWrel, FWok, repSlot_oneof _ _ _ hs, true_and]
          exact hv
end

/-! ### list views -/

theorem all_set {α} (p : α → Bool) : ∀ (l : List α) (i : Nat) (x : α), l.all p = true → p x = true →
    (l.set i x).all p = true
  | [], _, _, _, _ => rfl
  | a :: as, 0, x, h, hx => by simp only [List.set_cons_zero, List.all_cons, Bool.and_eq_true] at *; exact ⟨hx, h.2⟩
  | a :: as, i+1, x, h, hx => by
    simp only [List.set_cons_succ, List.all_cons, Bool.and_eq_true] at *
    exact ⟨h.1, all_set p as i x h.2 hx⟩

theorem all_take {α} (p : α → Bool) (l : List α) (n : Nat) (h : l.all p = true) : (l.take n).all p = true := by
  rw [List.all_eq_true] at *
  exact fun x hx => h x (List.mem_of_mem_take hx)

section
variable (S : Schema) (fuel : Nat)

theorem lsetF_refines {f : FieldDesc} {v a : Val} (i : Nat)
    (hv : slotOK (msgOK S false fuel) false f v = true) (ha : elemOK (msgOK S false fuel) f.elem false a = true) :
    FWrel (repNorm S fuel) f (Reflect.lsetF f v i a)
      (SpecReflect.lsetF f (repSlot (repNorm S fuel) f v) i (repElem (repNorm S fuel) f.elem a)) ∧
    FWok (msgOK S false fuel) f (Reflect.lsetF f v i a) := by
  cases hs : f.shape with
  | repeated p =>
    obtain ⟨nn, es, rfl, hes⟩ := slotOK_repeated hs hv
    obtain ⟨x, h1, h2, h3⟩ := store_check S fuel ha
    simp only [Reflect.lsetF, SpecReflect.lsetF, hs, h1, h2, repSlot_repeated _ _ _ hs, Val.elems_list,
      List.length_map]
    by_cases hi : i < es.length
    · simp only [hi, if_true, FWrel, FWok, repSlot_repeated _ _ _ hs, Val.elems_list, List.map_set, true_and]
      simpa [slotOK, hs] using all_set _ es i x hes h3
    · simp [hi, FWrel, FWok]
  | singular => simp [Reflect.lsetF, SpecReflect.lsetF, hs, FWrel, FWok]
  | oneof g => simp [Reflect.lsetF, SpecReflect.lsetF, hs, FWrel, FWok]
  | map kk => simp [Reflect.lsetF, SpecReflect.lsetF, hs, FWrel, FWok]

theorem lappF_refines {f : FieldDesc} {v a : Val}
    (hv : slotOK (msgOK S false fuel) false f v = true) (ha : elemOK (msgOK S false fuel) f.elem false a = true) :
    FWrel (repNorm S fuel) f (Reflect.lappF f v a)
      (SpecReflect.lappF f (repSlot (repNorm S fuel) f v) (repElem (repNorm S fuel) f.elem a)) ∧
    FWok (msgOK S false fuel) f (Reflect.lappF f v a) := by
  cases hs : f.shape with
  | repeated p =>
    obtain ⟨nn, es, rfl, hes⟩ := slotOK_repeated hs hv
    obtain ⟨x, h1, h2, h3⟩ := store_check S fuel ha
    simp only [Reflect.lappF, SpecReflect.lappF, hs, h1, h2, repSlot_repeated _ _ _ hs, Val.elems_list,
      FWrel, FWok, List.map_append, List.map_cons, List.map_nil, true_and]
    simp [slotOK, hs, hes, h3]
  | singular => simp [Reflect.lappF, SpecReflect.lappF, hs, FWrel, FWok]
  | oneof g => simp [Reflect.lappF, SpecReflect.lappF, hs, FWrel, FWok]
  | map kk => simp [Reflect.lappF, SpecReflect.lappF, hs, FWrel, FWok]

theorem repElem_emptyMsg (mi : Nat) :
    repElem (repNorm S fuel) (.message mi) (emptyMsg S mi) = emptyMsg S mi := by
  simp only [repElem, emptyMsg, Val.isNone, Bool.false_eq_true, if_false]
  exact repNorm_emptyMsg S fuel mi

theorem lappmF_refines {f : FieldDesc} {v : Val}
    (hv : slotOK (msgOK S false (fuel+1)) false f v = true) :
    FWrel (repNorm S (fuel+1)) f (Reflect.lappmF S f v)
      (SpecReflect.lappmF S f (repSlot (repNorm S (fuel+1)) f v)) ∧
    FWok (msgOK S false (fuel+1)) f (Reflect.lappmF S f v) := by
  cases hs : f.shape with
  | repeated p =>
    obtain ⟨nn, es, rfl, hes⟩ := slotOK_repeated hs hv
    cases he : f.elem with
    | scalar k => simp [Reflect.lappmF, SpecReflect.lappmF, hs, he, FWrel, FWok]
    | message mi =>
      simp only [he] at hes
      simp only [Reflect.lappmF, SpecReflect.lappmF, hs, he, repSlot_repeated _ _ _ hs, Val.elems_list,
        FWrel, FWok, List.map_append, List.map_cons, List.map_nil, repElem_emptyMsg, true_and]
      simp [slotOK, hs, he, hes, elemOK, msgOK_emptyMsg]
  | singular => simp [Reflect.lappmF, SpecReflect.lappmF, hs, FWrel, FWok]
  | oneof g => simp [Reflect.lappmF, SpecReflect.lappmF, hs, FWrel, FWok]
  | map kk => simp [Reflect.lappmF, SpecReflect.lappmF, hs, FWrel, FWok]

theorem ltruncF_refines {f : FieldDesc} {v : Val} (n : Nat)
    (hv : slotOK (msgOK S false fuel) false f v = true) :
    FWrel (repNorm S fuel) f (Reflect.ltruncF f v n)
      (SpecReflect.ltruncF f (repSlot (repNorm S fuel) f v) n) ∧
    FWok (msgOK S false fuel) f (Reflect.ltruncF f v n) := by
  cases hs : f.shape with
  | repeated p =>
    obtain ⟨nn, es, rfl, hes⟩ := slotOK_repeated hs hv
    simp only [Reflect.ltruncF, SpecReflect.ltruncF, hs, repSlot_repeated _ _ _ hs, Val.elems_list,
      List.length_map]
    by_cases hi : n ≤ es.length
    · simp only [hi, if_true, FWrel, FWok, repSlot_repeated _ _ _ hs, Val.elems_list, List.map_take, true_and]
      simpa [slotOK, hs] using all_take _ es n hes
    · simp [hi, FWrel, FWok]
  | singular => simp [Reflect.ltruncF, SpecReflect.ltruncF, hs, FWrel, FWok]
  | oneof g => simp [Reflect.ltruncF, SpecReflect.ltruncF, hs, FWrel, FWok]
  | map kk => simp [Reflect.ltruncF, SpecReflect.ltruncF, hs, FWrel, FWok]
end

/-! ### map views -/

theorem store_check_key (c : Nat → Val → Val) {kk : Kind} {k : Val} (hk : scalarOK kk k = true) :
    ∃ k', Reflect.storeElem (.scalar kk) k = some k' ∧
      SpecReflect.checkElem (.scalar kk) k = some (repElem c (.scalar kk) k') ∧
      scalarOK kk k' = true ∧ k'.getBits = k.getBits ∧ k'.getBlob = k.getBlob := by
  by_cases hb : kk.isBlob = true
  · obtain ⟨nn, b, rfl⟩ := rf_scalarOK_blob hk hb
    cases kk <;> simp [Kind.isBlob] at hb
    · exact ⟨.blob false b, by simp [Reflect.storeElem], by simp [SpecReflect.checkElem, repElem, Kind.isBlob],
        by simp [scalarOK, Kind.isBlob], rfl, rfl⟩
    · exact ⟨.blob nn b, by simp [Reflect.storeElem], by simp [SpecReflect.checkElem, repElem, Kind.isBlob],
        by simp [scalarOK, Kind.isBlob], rfl, rfl⟩
  · have hb' : kk.isBlob = false := by simpa using hb
    obtain ⟨n, rfl, _⟩ := rf_scalarOK_bits hk hb'
    exact ⟨.bits n, by simp [Reflect.storeElem, hb'], by simp [SpecReflect.checkElem, repElem, hb'], hk, rfl, rfl⟩

theorem kbeqOf_of_bits_blob (kk : Kind) {a a' : Val} (h1 : a'.getBits = a.getBits) (h2 : a'.getBlob = a.getBlob)
    (b : Val) : kbeqOf kk b a' = kbeqOf kk b a := by
  simp only [kbeqOf, h1, h2]

theorem all_mapPut {p : Val → Bool} (kbeq : Val → Val → Bool) (L : List Val) (k x : Val)
    (h : L.all p = true) (hx : p (.entry k x) = true) : (mapPut kbeq L k x).all p = true := by
  unfold mapPut
  rw [List.all_eq_true] at h
  split
  · rw [List.all_eq_true]
    intro e he
    obtain ⟨a, ha, rfl⟩ := List.mem_map.1 he
    split
    · exact hx
    · exact h a ha
  · rw [List.all_eq_true]
    intro e he
    rcases List.mem_append.1 he with he | he
    · exact h e he
    · simp at he; subst he; exact hx

section
variable (S : Schema) (fuel : Nat)

theorem slotOK_map_intro {f : FieldDesc} {kk : Kind} (hs : f.shape = .map kk) (nn : Bool) {es : List Val}
    (h1 : es.all (entryOK (msgOK S false fuel) false kk f.elem) = true) (h2 : DistinctK kk es) :
    slotOK (msgOK S false fuel) false f (.map nn es) = true := by
  simp only [slotOK, hs, Bool.and_eq_true]
  exact ⟨h1, (rf_distinctKeys_iff kk es).2 h2⟩

theorem msetF_refines {f : FieldDesc} {v k a : Val}
    (hv : slotOK (msgOK S false fuel) false f v = true) (hk : keyArgOK f k = true)
    (ha : elemOK (msgOK S false fuel) f.elem false a = true) :
    FWrel (repNorm S fuel) f (Reflect.msetF f v k a)
      (SpecReflect.msetF f (repSlot (repNorm S fuel) f v) k (repElem (repNorm S fuel) f.elem a)) ∧
    FWok (msgOK S false fuel) f (Reflect.msetF f v k a) := by
  cases hs : f.shape with
  | map kk =>
    obtain ⟨nn, es, rfl, hes, hd⟩ := slotOK_map hs hv
    have hd' := (rf_distinctKeys_iff kk es).1 hd
    simp only [keyArgOK, hs] at hk
    obtain ⟨k', hk1, hk2, hk3, hk4, hk5⟩ := store_check_key (repNorm S fuel) hk
    obtain ⟨x, h1, h2, h3⟩ := store_check S fuel ha
    simp only [Reflect.msetF, SpecReflect.msetF, hs, hk1, hk2, h1, h2, repSlot_map _ _ _ hs, Val.elems_map,
      FWrel, FWok]
    constructor
    · rw [mapPut_map_normEntry]
      rw [sort_mapPut_sort _ _ (distinct_map_normEntry _ kk f.elem hd')
        (keysOK_map_normEntry _ kk f.elem (keysOK_of_entries hes)) (by rw [scalarOK_repElem]; exact hk3)]
    · refine slotOK_map_intro S fuel hs true (all_mapPut _ es k' x hes ?_) (distinct_mapPut k' x hd')
      simp [entryOK, hk3, h3]
  | singular => simp [Reflect.msetF, SpecReflect.msetF, hs, FWrel, FWok]
  | oneof g => simp [Reflect.msetF, SpecReflect.msetF, hs, FWrel, FWok]
  | repeated p => simp [Reflect.msetF, SpecReflect.msetF, hs, FWrel, FWok]

theorem mclrF_refines {f : FieldDesc} {v : Val} (k : Val)
    (hv : slotOK (msgOK S false fuel) false f v = true) :
    FWrel (repNorm S fuel) f (Reflect.mclrF f v k)
      (SpecReflect.mclrF f (repSlot (repNorm S fuel) f v) k) ∧
    FWok (msgOK S false fuel) f (Reflect.mclrF f v k) := by
  cases hs : f.shape with
  | map kk =>
    obtain ⟨nn, es, rfl, hes, hd⟩ := slotOK_map hs hv
    have hd' := (rf_distinctKeys_iff kk es).1 hd
    simp only [Reflect.mclrF, SpecReflect.mclrF, hs, repSlot_map _ _ _ hs, Val.elems_map, FWrel, FWok]
    constructor
    · rw [mapDel_map_normEntry, sort_mapDel _ (distinct_map_normEntry _ kk f.elem hd')
        (keysOK_map_normEntry _ kk f.elem (keysOK_of_entries hes))]
    · refine slotOK_map_intro S fuel hs true ?_ (distinct_mapDel k hd')
      rw [List.all_eq_true] at *
      exact fun e he => hes e (List.mem_filter.1 he).1
  | singular => simp [Reflect.mclrF, SpecReflect.mclrF, hs, FWrel, FWok]
  | oneof g => simp [Reflect.mclrF, SpecReflect.mclrF, hs, FWrel, FWok]
  | repeated p => simp [Reflect.mclrF, SpecReflect.mclrF, hs, FWrel, FWok]

theorem mmutF_refines {f : FieldDesc} {v k : Val}
    (hv : slotOK (msgOK S false (fuel+1)) false f v = true) (hk : keyArgOK f k = true) :
    FWrel (repNorm S (fuel+1)) f (Reflect.mmutF S f v k)
      (SpecReflect.mmutF S f (repSlot (repNorm S (fuel+1)) f v) k) ∧
    FWok (msgOK S false (fuel+1)) f (Reflect.mmutF S f v k) := by
  cases hs : f.shape with
  | map kk =>
    obtain ⟨nn, es, rfl, hes, hd⟩ := slotOK_map hs hv
    have hd' := (rf_distinctKeys_iff kk es).1 hd
    simp only [keyArgOK, hs] at hk
    obtain ⟨k', hk1, hk2, hk3, hk4, hk5⟩ := store_check_key (repNorm S (fuel+1)) hk
    cases he : f.elem with
    | scalar k0 => simp [Reflect.mmutF, SpecReflect.mmutF, hs, he, FWrel, FWok]
    | message mi =>
      simp only [he] at hes
      have hany : ((sortEntries kk (es.map (normEntry (repNorm S (fuel+1)) kk (.message mi)))).any
            (fun en => kbeqOf kk en.key (repElem (repNorm S (fuel+1)) (.scalar kk) k')))
          = es.any (fun en => kbeqOf kk en.key k') := by
        rw [any_perm (rf_sortEntries_perm _ _), any_map_normEntry]
        congr 1; funext en
        rw [kbeqOf_symm, kbeqOf_repElem_left, kbeqOf_symm]
      simp only [Reflect.mmutF, SpecReflect.mmutF, hs, he, hk1, hk2, repSlot_map _ _ _ hs, Val.elems_map, hany]
      by_cases hex : es.any (fun en => kbeqOf kk en.key k') = true
      · simp only [hex, if_true, FWrel, FWok, repSlot_map _ _ _ hs, Val.elems_map, he, true_and]
        exact slotOK_map_intro S (fuel+1) hs true (by rw [he]; exact hes) hd'
      · have hex' : es.any (fun en => kbeqOf kk en.key k') = false := by simpa using hex
        simp only [hex', Bool.false_eq_true, if_false, FWrel, FWok, repSlot_map _ _ _ hs, Val.elems_map, he]
        constructor
        · rw [List.map_append]
          simp only [List.map_cons, List.map_nil, normEntry, Val.key_entry, Val.value_entry, repElem_emptyMsg]
          have hnew : (es.map (normEntry (repNorm S (fuel+1)) kk (.message mi))).any (fun en => kbeqOf kk en.key
              (Val.entry (repElem (repNorm S (fuel+1)) (.scalar kk) k') (emptyMsg S mi)).key) = false := by
            rw [any_map_normEntry, Val.key_entry, ← hex']
            congr 1; funext en
            rw [kbeqOf_symm, kbeqOf_repElem_left, kbeqOf_symm]
          rw [sort_append_sort _ (distinct_map_normEntry _ kk (.message mi) hd')
            (keysOK_map_normEntry _ kk (.message mi) (keysOK_of_entries hes))
            (by rw [Val.key_entry, scalarOK_repElem]; exact hk3) hnew]
        · refine slotOK_map_intro S (fuel+1) hs true ?_ (distinct_append_new _ hd' (by simpa using hex'))
          rw [he, List.all_append, hes]
          simp [entryOK, hk3, elemOK, msgOK_emptyMsg]
  | singular => simp [Reflect.mmutF, SpecReflect.mmutF, hs, FWrel, FWok]
  | oneof g => simp [Reflect.mmutF, SpecReflect.mmutF, hs, FWrel, FWok]
  | repeated p => simp [Reflect.mmutF, SpecReflect.mmutF, hs, FWrel, FWok]
end

end Pulsar
