/-
  Pulsar.Proofs.GoSrcKeySize — generator.KeySize
  (functions translated from the Go source on every run, `Pulsar/ExtractedFns.lean`, related to the hand-written
  models the property theorems are about; see Pulsar/Proofs/GoSrcBase.lean).
-/
import Pulsar.ExtractedFns
import Pulsar.Proofs.GoSrcBase
import Pulsar.Proofs.Runtime
import Pulsar.Scalar
namespace Pulsar
open Pulsar Pulsar.Timepb

/-! ### generator.KeySize -/

theorem keySizeLoop_le : ∀ (k x : Nat), x < 128 ^ (k + 1) → keySizeLoop x ≤ k + 1
  | 0, x, hx => by
    rw [keySizeLoop]; simp at hx
    rw [dif_neg (by omega)]; omega
  | k+1, x, hx => by
    rw [keySizeLoop]
    split
    · have : x / 128 < 128 ^ (k + 1) := by
        rw [Nat.div_lt_iff_lt_mul (by decide)]; rw [Nat.pow_succ] at hx; exact hx
      have := keySizeLoop_le k (x / 128) this
      omega
    · omega

/-- the loop of `KeySize`, for any fuel that suffices -/
theorem src_KeySize_loop : ∀ (fuel : Nat) (size : Int) (x : Nat), x < 128 ^ (fuel + 1) →
    -9223372036854775808 ≤ size → size + fuel + 1 ≤ 9223372036854775807 →
    ∃ x', Xf.generator_KeySize_loop1 (fuel + 1) size x = .ok (size + (keySizeLoop x : Int) - 1, x')
  | 0, size, x, hx, _, _ => by
    have h : ¬ x > 127 := by simp at hx; omega
    unfold Xf.generator_KeySize_loop1
    rw [keySizeLoop]
    simp only [h, decide_false, dite_false]
    exact ⟨x, by simp⟩
  | fuel+1, size, x, hx, h1, h2 => by
    unfold Xf.generator_KeySize_loop1
    rw [keySizeLoop]
    by_cases h : x > 127
    · simp only [h, decide_true, if_true, dite_true]
      have hx' : x / 128 < 128 ^ (fuel + 1) := by
        rw [Nat.div_lt_iff_lt_mul (by decide)]; rw [Nat.pow_succ] at hx; exact hx
      rw [wrap64_id (by omega) (by omega)]
      obtain ⟨x', hr⟩ := src_KeySize_loop fuel (size + 1) (x / 128) hx' (by omega) (by omega)
      refine ⟨x', ?_⟩
      rw [hr]; congr 2; omega
    · simp only [h, decide_false, dite_false]
      exact ⟨x, by simp⟩

theorem src_KeySize (num wt : Nat) (hn : num < 2147483648) (hw : wt < 128) :
    Xf.generator_KeySize (num : Int) (wt : Int) = .ok (keySize num wt : Int) := by
  unfold Xf.generator_KeySize keySize keyWord
  have e1 : Int.toNat ((num : Int) % 4294967296) = num % 4294967296 := by omega
  have e2 : Int.toNat ((wt : Int) % 4294967296) = wt := by omega
  rw [e1, e2]
  have hlt : (num % 4294967296 * 8 % 4294967296 ||| wt) < 128 ^ (4 + 1) := by
    have : (num % 4294967296 * 8 % 4294967296 ||| wt) < 2 ^ 32 :=
      Nat.or_lt_two_pow (Nat.mod_lt _ (by decide)) (by omega)
    omega
  obtain ⟨x', hr⟩ := src_KeySize_loop 4 0 _ hlt (by omega) (by omega)
  have hk := keySizeLoop_le 4 _ hlt
  simp only [hr, Res.bind_ok]
  rw [wrap64_id (by omega) (by omega)]
  simp only [Res.pure_eq]; congr 1; omega

end Pulsar
