/-
  Clients of the reflection machines (C10).

  A *client* is a deterministic program that talks to a message only through the reflection interface:
  from the outputs it has seen so far it chooses the next operation, or stops. This is what a generic
  algorithm of protobuf-go (proto.Equal / Clone / Merge, the JSON and text codecs) is with respect to a
  `protoreflect.Message`. `runClient` runs a client against a machine for at most `fuel` operations.

  The simulation lemma `rc_runClient_sim` is generic in the state and op types, so the one-message and the
  two-message theorems of C10 are instances of it.
-/
import Pulsar.Proofs.ReflectCodec
namespace Pulsar

/-- a deterministic client over ops `ω`: outputs seen so far ↦ next op, or `none` to stop -/
abbrev Client (ω : Type) := List Out → Option ω

/-- run `c` against the machine `step` from state `s`, having already seen `outs`; at most `fuel` ops.
    Result: final state and all outputs (the given ones first). -/
def runClient {σ ω : Type} (step : σ → ω → σ × Out) (c : Client ω) : Nat → σ → List Out → σ × List Out
  | 0, s, outs => (s, outs)
  | n+1, s, outs =>
    match c outs with
    | none => (s, outs)
    | some op => runClient step c n (step s op).1 (outs ++ [(step s op).2])

/-- every op the client chooses *along this run* satisfies `ok` (decidable; nothing is required of the
    client on output sequences it never sees) -/
def clientOKOn {σ ω : Type} (step : σ → ω → σ × Out) (ok : ω → Bool) (c : Client ω) : Nat → σ → List Out → Bool
  | 0, _, _ => true
  | n+1, s, outs =>
    match c outs with
    | none => true
    | some op => ok op && clientOKOn step ok c n (step s op).1 (outs ++ [(step s op).2])

theorem rc_clientOKOn_of_forall {σ ω : Type} (step : σ → ω → σ × Out) (ok : ω → Bool) (c : Client ω)
    (h : ∀ outs op, c outs = some op → ok op = true) :
    ∀ (fuel : Nat) (s : σ) (outs : List Out), clientOKOn step ok c fuel s outs = true
  | 0, _, _ => rfl
  | n+1, s, outs => by
    unfold clientOKOn
    cases hc : c outs with
    | none => rfl
    | some op =>
      simp only [h outs op hc, Bool.true_and]
      exact rc_clientOKOn_of_forall step ok c h n _ _

/-! ### `OutsEq` -/

theorem rc_OutsEq_snoc : ∀ {a b : List Out} {x y : Out}, OutsEq a b → OutEq x y → OutsEq (a ++ [x]) (b ++ [y])
  | [], [], _, _, _, h => ⟨h, trivial⟩
  | [], _ :: _, _, _, h, _ => by simp [OutsEq] at h
  | _ :: _, [], _, _, h, _ => by simp [OutsEq] at h
  | _ :: as, _ :: bs, _, _, h, hxy => ⟨h.1, rc_OutsEq_snoc (a := as) (b := bs) h.2 hxy⟩

/-- `OutEq` is equality today, hence so is `OutsEq` … -/
theorem rc_OutsEq_eq : ∀ {a b : List Out}, OutsEq a b → a = b
  | [], [], _ => rfl
  | [], _ :: _, h => by simp [OutsEq] at h
  | _ :: _, [], h => by simp [OutsEq] at h
  | x :: as, y :: bs, h => by
    have h1 : x = y := h.1
    rw [h1, rc_OutsEq_eq (a := as) (b := bs) h.2]

/-- … and every client respects it. (If `OutEq` ever identifies distinct outputs, this becomes a genuine
    hypothesis on the client: it must not distinguish what `OutEq` identifies. The theorems below take it
    as the explicit hypothesis `hresp`; this lemma discharges it.) -/
theorem rc_client_respects {ω : Type} (c : Client ω) : ∀ l l', OutsEq l l' → c l = c l' :=
  fun _ _ h => by rw [rc_OutsEq_eq h]

/-! ### the simulation lemma -/

/-- If one step of `stepI` is simulated by one step of `stepS` on `R`-related states for `ok` ops (outputs
    `OutEq`, successor states `R`-related), then a whole client run is: the traces are `OutsEq` and the final
    states `R`-related — for every client that respects `OutsEq` and chooses only `ok` ops along its run. -/
theorem rc_runClient_sim {σ τ ω : Type} (stepI : σ → ω → σ × Out) (stepS : τ → ω → τ × Out) (R : σ → τ → Prop)
    (ok : ω → Bool)
    (hstep : ∀ s t op, R s t → ok op = true →
      OutEq (stepI s op).2 (stepS t op).2 ∧ R (stepI s op).1 (stepS t op).1)
    (c : Client ω) (hresp : ∀ l l', OutsEq l l' → c l = c l') :
    ∀ (fuel : Nat) (s : σ) (t : τ) (outs outs' : List Out), R s t → OutsEq outs outs' →
      clientOKOn stepI ok c fuel s outs = true →
      OutsEq (runClient stepI c fuel s outs).2 (runClient stepS c fuel t outs').2 ∧
      R (runClient stepI c fuel s outs).1 (runClient stepS c fuel t outs').1
  | 0, _, _, _, _, hR, ho, _ => ⟨ho, hR⟩
  | n+1, s, t, outs, outs', hR, ho, hok => by
    unfold runClient
    unfold clientOKOn at hok
    rw [← hresp outs outs' ho]
    cases hc : c outs with
    | none => exact ⟨ho, hR⟩
    | some op =>
      simp only [hc, Bool.and_eq_true] at hok
      obtain ⟨h1, h2⟩ := hstep s t op hR hok.1
      exact rc_runClient_sim stepI stepS R ok hstep c hresp n _ _ _ _ h2 (rc_OutsEq_snoc ho h1) hok.2

/-! ### two messages -/

/-- the product machine: an op is tagged with the message it addresses (`false`: the first, `true`: the
    second) -/
def step2 {σ₁ σ₂ ω : Type} (st1 : σ₁ → ω → σ₁ × Out) (st2 : σ₂ → ω → σ₂ × Out) (s : σ₁ × σ₂) (o : Bool × ω) :
    (σ₁ × σ₂) × Out :=
  if o.1 then ((s.1, (st2 s.2 o.2).1), (st2 s.2 o.2).2) else (((st1 s.1 o.2).1, s.2), (st1 s.1 o.2).2)

def ok2 {ω : Type} (ok1 ok2 : ω → Bool) (o : Bool × ω) : Bool := if o.1 then ok2 o.2 else ok1 o.2

theorem rc_step2_sim {σ₁ σ₂ τ₁ τ₂ ω : Type} (stI1 : σ₁ → ω → σ₁ × Out) (stI2 : σ₂ → ω → σ₂ × Out)
    (stS1 : τ₁ → ω → τ₁ × Out) (stS2 : τ₂ → ω → τ₂ × Out) (R1 : σ₁ → τ₁ → Prop) (R2 : σ₂ → τ₂ → Prop)
    (k1 k2 : ω → Bool)
    (h1 : ∀ s t op, R1 s t → k1 op = true → OutEq (stI1 s op).2 (stS1 t op).2 ∧ R1 (stI1 s op).1 (stS1 t op).1)
    (h2 : ∀ s t op, R2 s t → k2 op = true → OutEq (stI2 s op).2 (stS2 t op).2 ∧ R2 (stI2 s op).1 (stS2 t op).1) :
    ∀ (s : σ₁ × σ₂) (t : τ₁ × τ₂) (o : Bool × ω), (R1 s.1 t.1 ∧ R2 s.2 t.2) → ok2 k1 k2 o = true →
      OutEq (step2 stI1 stI2 s o).2 (step2 stS1 stS2 t o).2 ∧
      (R1 (step2 stI1 stI2 s o).1.1 (step2 stS1 stS2 t o).1.1 ∧
       R2 (step2 stI1 stI2 s o).1.2 (step2 stS1 stS2 t o).1.2) := by
  intro s t o hR hok
  obtain ⟨b, op⟩ := o
  cases b with
  | false =>
    simp only [ok2, Bool.false_eq_true, if_false] at hok
    obtain ⟨ho, hr⟩ := h1 s.1 t.1 op hR.1 hok
    simp only [step2, Bool.false_eq_true, if_false]
    exact ⟨ho, hr, hR.2⟩
  | true =>
    simp only [ok2, if_true] at hok
    obtain ⟨ho, hr⟩ := h2 s.2 t.2 op hR.2 hok
    simp only [step2, if_true]
    exact ⟨ho, hR.1, hr⟩

/-! ### the two reflection machines as a client drives them -/

/-- the SPEC machine as the client drives it: the client's op with its value arguments abstracted -/
def SpecReflect.stepAbs (S : Schema) (n i : Nat) (a : Val) (op : Op) : Val × Out :=
  SpecReflect.step S i a (Op.abs S n i op)

/-- ops a client may issue on a state typed with fuel `n`: well-formed value arguments, valid UTF-8 -/
def Op.okU (S : Schema) (n i : Nat) (op : Op) : Bool := Op.ok S n i op && Op.utf8 S n i op

/-- the simulation relation of C08 with its two invariants -/
def ReflRel (S : Schema) (n i : Nat) (s t : Val) : Prop :=
  msgOK S false n i s = true ∧ utf8OK S n i s = true ∧ abs S n i s = t

theorem rc_ReflRel_step (S : Schema) (hS : S.WF = true) (n i : Nat) (hi : i < S.msgs.length) :
    ∀ s t op, ReflRel S n i s t → Op.okU S n i op = true →
      OutEq (Reflect.step S i s op).2 (SpecReflect.stepAbs S n i t op).2 ∧
      ReflRel S n i (Reflect.step S i s op).1 (SpecReflect.stepAbs S n i t op).1 := by
  intro s t op ⟨hs, hu, ht⟩ hok
  subst ht
  simp only [Op.okU, Bool.and_eq_true] at hok
  obtain ⟨h1, h2, h3, h4⟩ := rc_step_refines_all S hS n i s op hi hs hu hok.1 hok.2
  exact ⟨h1, h3, h4, h2⟩

/-- without codec ops: no UTF-8 invariant, no schema hypothesis -/
def ReflRel0 (S : Schema) (n i : Nat) (s t : Val) : Prop :=
  msgOK S false n i s = true ∧ abs S n i s = t

theorem rc_ReflRel0_step (S : Schema) (n i : Nat) :
    ∀ s t op, ReflRel0 S n i s t → (Op.ok S n i op && !op.usesCodec) = true →
      OutEq (Reflect.step S i s op).2 (SpecReflect.stepAbs S n i t op).2 ∧
      ReflRel0 S n i (Reflect.step S i s op).1 (SpecReflect.stepAbs S n i t op).1 := by
  intro s t op ⟨hs, ht⟩ hok
  subst ht
  simp only [Bool.and_eq_true, Bool.not_eq_true'] at hok
  obtain ⟨h1, h2, h3⟩ := step_refines S n i s op hs hok.1
  exact ⟨h1 hok.2, h3, h2⟩

end Pulsar
