/-
  Pulsar.Proofs.RtStep — one record of the reference decoder's loop, per field shape, and the
  bookkeeping relation `Steps` (the loop moves from one state/input to another, fuel permitting).
-/
import Pulsar.Proofs.RtScalar
namespace Pulsar

theorem consumeTag_nil : consumeTag [] = .err .eof := by
  simp [consumeTag, consumeVarint, consumeVarintAux]

/-- The loop `L`, started on `bs` in state `m` with enough fuel, reaches input `bs'` in state `m'`
    with enough fuel. -/
def Steps (L : Nat → Val → Bytes → Res Val) (m : Val) (bs : Bytes) (m' : Val) (bs' : Bytes) : Prop :=
  ∀ fuel, bs.length ≤ fuel → ∃ fuel', bs'.length ≤ fuel' ∧ L fuel m bs = L fuel' m' bs'

theorem Steps.refl (L : Nat → Val → Bytes → Res Val) (m : Val) (bs : Bytes) : Steps L m bs m bs :=
  fun fuel h => ⟨fuel, h, rfl⟩

theorem Steps.trans {L : Nat → Val → Bytes → Res Val} {m m' m'' : Val} {bs bs' bs'' : Bytes}
    (h1 : Steps L m bs m' bs') (h2 : Steps L m' bs' m'' bs'') : Steps L m bs m'' bs'' := by
  intro fuel hf
  obtain ⟨f1, hf1, e1⟩ := h1 fuel hf
  obtain ⟨f2, hf2, e2⟩ := h2 f1 hf1
  exact ⟨f2, hf2, e1.trans e2⟩

theorem Steps.of_step {L : Nat → Val → Bytes → Res Val} {m m' : Val} {bs bs' : Bytes}
    (h : ∀ fuel, L (fuel + 1) m bs = L fuel m' bs') (hl : bs'.length < bs.length) : Steps L m bs m' bs' := by
  intro fuel hf
  obtain ⟨g, rfl⟩ : ∃ g, fuel = g + 1 := ⟨fuel - 1, by omega⟩
  exact ⟨g, by omega, h g⟩

section
variable {S : Schema} {i : Nat} {cd : Nat → Val → Bytes → Res Val}

theorem loop_nil (fuel : Nat) (m : Val) : specDecodeLoop true S i {} cd fuel m [] = .ok m := by
  cases fuel <;> simp [specDecodeLoop]

variable {fuel : Nat} {m : Val} {bs r : Bytes} {num j : Nat} {f : FieldDesc}

theorem step_singular_scalar {k : Kind} {v : Val} {r' : Bytes}
    (ht : consumeTag bs = .ok (num, k.specWireType, r)) (hn : num ≤ 536870911)
    (hfind : findField (S.msg i).fields num = some (j, f))
    (hs : f.shape = .singular) (he : f.elem = .scalar k)
    (hr : specReadScalar k r = .ok (v, r')) :
    specDecodeLoop true S i {} cd (fuel + 1) m bs = specDecodeLoop true S i {} cd fuel (m.setSlot j v) r' := by
  have hne : bs ≠ [] := by rintro rfl; rw [consumeTag_nil] at ht; cases ht
  rw [specDecodeLoop]
  simp only [hne, if_false, ht, show ¬ (num > 536870911) by omega, hfind, hs, he, if_true, hr]

theorem step_oneof_scalar {g : Nat} {k : Kind} {v : Val} {r' : Bytes}
    (ht : consumeTag bs = .ok (num, k.specWireType, r)) (hn : num ≤ 536870911)
    (hfind : findField (S.msg i).fields num = some (j, f))
    (hs : f.shape = .oneof g) (he : f.elem = .scalar k)
    (hr : specReadScalar k r = .ok (v, r')) :
    specDecodeLoop true S i {} cd (fuel + 1) m bs =
      specDecodeLoop true S i {} cd fuel
        ((Val.msg (clearGroup (S.msg i).fields g m.slots) m.unknown).setSlot j (.one v)) r' := by
  have hne : bs ≠ [] := by rintro rfl; rw [consumeTag_nil] at ht; cases ht
  rw [specDecodeLoop]
  simp only [hne, if_false, ht, show ¬ (num > 536870911) by omega, hfind, hs, he, if_true, hr]

theorem step_singular_message {mi n : Nat} {v : Val} {r1 : Bytes}
    (ht : consumeTag bs = .ok (num, 2, r)) (hn : num ≤ 536870911)
    (hfind : findField (S.msg i).fields num = some (j, f))
    (hs : f.shape = .singular) (he : f.elem = .message mi)
    (hc : consumeVarint r = .ok (n, r1)) (hle : n ≤ r1.length)
    (hd : cd mi (if (m.slot j).isNone then emptyMsg S mi else m.slot j) (r1.take n) = .ok v) :
    specDecodeLoop true S i {} cd (fuel + 1) m bs =
      specDecodeLoop true S i {} cd fuel (m.setSlot j v) (r1.drop n) := by
  have hne : bs ≠ [] := by rintro rfl; rw [consumeTag_nil] at ht; cases ht
  rw [specDecodeLoop]
  simp only [hne, if_false, ht, show ¬ (num > 536870911) by omega, hfind, hs, he, if_true, hc,
    show ¬ (n > r1.length) by omega, hd]

theorem step_oneof_message {g mi n : Nat} {v : Val} {r1 : Bytes}
    (ht : consumeTag bs = .ok (num, 2, r)) (hn : num ≤ 536870911)
    (hfind : findField (S.msg i).fields num = some (j, f))
    (hs : f.shape = .oneof g) (he : f.elem = .message mi)
    (hc : consumeVarint r = .ok (n, r1)) (hle : n ≤ r1.length)
    (hcur : m.slot j = Val.none)
    (hd : cd mi (emptyMsg S mi) (r1.take n) = .ok v) :
    specDecodeLoop true S i {} cd (fuel + 1) m bs =
      specDecodeLoop true S i {} cd fuel
        ((Val.msg (clearGroup (S.msg i).fields g m.slots) m.unknown).setSlot j (.one v)) (r1.drop n) := by
  have hne : bs ≠ [] := by rintro rfl; rw [consumeTag_nil] at ht; cases ht
  rw [specDecodeLoop]
  simp only [hne, if_false, ht, show ¬ (num > 536870911) by omega, hfind, hs, he, if_true, hc,
    show ¬ (n > r1.length) by omega, hcur, hd]

theorem step_packed {pk : Bool} {k : Kind} {n : Nat} {vs : List Val} {r1 : Bytes} {nn : Bool} {acc : List Val}
    (ht : consumeTag bs = .ok (num, 2, r)) (hn : num ≤ 536870911)
    (hfind : findField (S.msg i).fields num = some (j, f))
    (hs : f.shape = .repeated pk) (he : f.elem = .scalar k) (hpk : k.packable = true)
    (hc : consumeVarint r = .ok (n, r1)) (hle : n ≤ r1.length)
    (hcur : m.slot j = .list nn acc)
    (hp : specPackedLoop k n (r1.take n) [] = .ok vs) :
    specDecodeLoop true S i {} cd (fuel + 1) m bs =
      specDecodeLoop true S i {} cd fuel
        (m.setSlot j (.list (nn || !vs.isEmpty) (acc ++ vs))) (r1.drop n) := by
  have hne : bs ≠ [] := by rintro rfl; rw [consumeTag_nil] at ht; cases ht
  rw [specDecodeLoop]
  simp only [hne, if_false, ht, show ¬ (num > 536870911) by omega, hfind, hs, he, hpk, and_self, if_true, hc,
    show ¬ (n > r1.length) by omega, hp, hcur, Val.elems]

theorem step_repeated_scalar {pk : Bool} {k : Kind} {v : Val} {r' : Bytes}
    (ht : consumeTag bs = .ok (num, k.specWireType, r)) (hn : num ≤ 536870911)
    (hfind : findField (S.msg i).fields num = some (j, f))
    (hs : f.shape = .repeated pk) (he : f.elem = .scalar k)
    (hnp : ¬ (k.specWireType = 2 ∧ k.packable = true))
    (hr : specReadScalar k r = .ok (v, r')) :
    specDecodeLoop true S i {} cd (fuel + 1) m bs =
      specDecodeLoop true S i {} cd fuel (m.setSlot j (.list true ((m.slot j).elems ++ [v]))) r' := by
  have hne : bs ≠ [] := by rintro rfl; rw [consumeTag_nil] at ht; cases ht
  rw [specDecodeLoop]
  simp only [hne, if_false, ht, show ¬ (num > 536870911) by omega, hfind, hs, he, hnp, if_true, hr]

theorem step_repeated_message {pk : Bool} {mi n : Nat} {v : Val} {r1 : Bytes}
    (ht : consumeTag bs = .ok (num, 2, r)) (hn : num ≤ 536870911)
    (hfind : findField (S.msg i).fields num = some (j, f))
    (hs : f.shape = .repeated pk) (he : f.elem = .message mi)
    (hc : consumeVarint r = .ok (n, r1)) (hle : n ≤ r1.length)
    (hd : cd mi (emptyMsg S mi) (r1.take n) = .ok v) :
    specDecodeLoop true S i {} cd (fuel + 1) m bs =
      specDecodeLoop true S i {} cd fuel (m.setSlot j (.list true ((m.slot j).elems ++ [v]))) (r1.drop n) := by
  have hne : bs ≠ [] := by rintro rfl; rw [consumeTag_nil] at ht; cases ht
  rw [specDecodeLoop]
  simp only [hne, if_false, ht, show ¬ (num > 536870911) by omega, hfind, hs, he, if_true, hc,
    show ¬ (n > r1.length) by omega, hd]

/-- value default of a map entry in the reference decoder. -/
def mapV0 (S : Schema) (e : Elem) : Val :=
  match e with | .message mi => emptyMsg S mi | .scalar k => Elem.zeroVar (.scalar k)

theorem step_map {kk : Kind} {e : Elem} {n : Nat} {k v : Val} {r1 : Bytes}
    (ht : consumeTag bs = .ok (num, 2, r)) (hn : num ≤ 536870911)
    (hfind : findField (S.msg i).fields num = some (j, f))
    (hs : f.shape = .map kk) (he : f.elem = e)
    (hc : consumeVarint r = .ok (n, r1)) (hle : n ≤ r1.length)
    (hd : specEntryLoop true cd kk e n (r1.take n) (Elem.zeroVar (.scalar kk)) (mapV0 S e) = .ok (k, v)) :
    specDecodeLoop true S i {} cd (fuel + 1) m bs =
      specDecodeLoop true S i {} cd fuel
        (m.setSlot j (.map true (mapPut (kbeqOf kk) (m.slot j).elems k v))) (r1.drop n) := by
  have hne : bs ≠ [] := by rintro rfl; rw [consumeTag_nil] at ht; cases ht
  rw [specDecodeLoop]
  cases e with
  | scalar vk =>
    simp only [mapV0] at hd
    simp only [hne, if_false, ht, show ¬ (num > 536870911) by omega, hfind, hs, he, if_true, hc,
      show ¬ (n > r1.length) by omega, hd]
  | message mi =>
    simp only [mapV0] at hd
    simp only [hne, if_false, ht, show ¬ (num > 536870911) by omega, hfind, hs, he, if_true, hc,
      show ¬ (n > r1.length) by omega, hd]

theorem step_unknown {wt : Nat} {r' : Bytes}
    (ht : consumeTag bs = .ok (num, wt, r)) (hn : num ≤ 536870911)
    (hfind : findField (S.msg i).fields num = none)
    (hv : consumeValue (2 * r.length + 2) 10001 num wt r = .ok r') :
    specDecodeLoop true S i {} cd (fuel + 1) m bs =
      specDecodeLoop true S i {} cd fuel
        (Val.msg m.slots (m.unknown ++ bs.take (bs.length - r'.length))) r' := by
  have hne : bs ≠ [] := by rintro rfl; rw [consumeTag_nil] at ht; cases ht
  rw [specDecodeLoop]
  simp only [hne, if_false, ht, show ¬ (num > 536870911) by omega, hfind, hv]
  simp

end
end Pulsar
