/-
  Helper lemmas for C17 (timepb arithmetic).  Core-only tactics.
-/
import Pulsar.Timepb
namespace Pulsar.Timepb
open Pulsar

/-! ### wrap helpers -/

theorem wrap32_id {x : Int} (h1 : -2147483648 ≤ x) (h2 : x ≤ 2147483647) : wrap32 x = x := by
  unfold wrap32; simp only; split <;> omega

theorem wrap64_id {x : Int} (h1 : -9223372036854775808 ≤ x) (h2 : x ≤ 9223372036854775807) :
    wrap64 x = x := by
  unfold wrap64; simp only; split <;> omega

/-- one wrap upward overflow -/
theorem wrap64_hi {x : Int} (h1 : 9223372036854775808 ≤ x) (h2 : x < 27670116110564327424) :
    wrap64 x = x - 18446744073709551616 := by
  unfold wrap64; simp only; split <;> omega

/-- one wrap downward overflow -/
theorem wrap64_lo {x : Int} (h1 : -27670116110564327424 ≤ x) (h2 : x < -9223372036854775808) :
    wrap64 x = x + 18446744073709551616 := by
  unfold wrap64; simp only; split <;> omega

/-! ### compare -/

theorem compare_lt {a b : SN} (h : a.sec < b.sec ∨ (a.sec = b.sec ∧ a.nanos < b.nanos)) :
    compare a b = -1 := by
  unfold compare
  rw [if_neg (by omega), if_pos h]

theorem compare_eq {a b : SN} (h : a.sec = b.sec ∧ a.nanos = b.nanos) : compare a b = 0 := by
  unfold compare
  rw [if_pos h]

theorem compare_gt {a b : SN} (h : b.sec < a.sec ∨ (a.sec = b.sec ∧ b.nanos < a.nanos)) :
    compare a b = 1 := by
  unfold compare
  rw [if_neg (by omega), if_neg (by omega)]

/-- Value of `compare` as a three-way case analysis. -/
theorem compare_cases (a b : SN) :
    (compare a b = -1 ∧ (a.sec < b.sec ∨ (a.sec = b.sec ∧ a.nanos < b.nanos))) ∨
    (compare a b = 0 ∧ a.sec = b.sec ∧ a.nanos = b.nanos) ∨
    (compare a b = 1 ∧ (b.sec < a.sec ∨ (a.sec = b.sec ∧ b.nanos < a.nanos))) := by
  by_cases h1 : a.sec < b.sec ∨ (a.sec = b.sec ∧ a.nanos < b.nanos)
  · exact Or.inl ⟨compare_lt h1, h1⟩
  · by_cases h2 : a.sec = b.sec ∧ a.nanos = b.nanos
    · exact Or.inr (Or.inl ⟨compare_eq h2, h2⟩)
    · have h3 : b.sec < a.sec ∨ (a.sec = b.sec ∧ b.nanos < a.nanos) := by omega
      exact Or.inr (Or.inr ⟨compare_gt h3, h3⟩)

/-! ### overflowPanics -/

theorem overflowPanics_true_neg {a b : SN} (h : a.sec < b.sec ∨ (a.sec = b.sec ∧ a.nanos < b.nanos)) :
    overflowPanics a b true = true := by
  simp only [overflowPanics, compare_lt h]; decide

theorem overflowPanics_true_pos {a b : SN} (h : b.sec < a.sec ∨ (a.sec = b.sec ∧ b.nanos < a.nanos)) :
    overflowPanics a b false = true := by
  simp only [overflowPanics, compare_gt h]; decide

theorem overflowPanics_false_neg {a b : SN} (h : b.sec < a.sec ∨ (a.sec = b.sec ∧ b.nanos ≤ a.nanos)) :
    overflowPanics a b true = false := by
  rcases compare_cases a b with ⟨hc, h'⟩ | ⟨hc, _⟩ | ⟨hc, _⟩
  · omega
  · simp only [overflowPanics, hc]; decide
  · simp only [overflowPanics, hc]; decide

theorem overflowPanics_false_pos {a b : SN} (h : a.sec < b.sec ∨ (a.sec = b.sec ∧ a.nanos ≤ b.nanos)) :
    overflowPanics a b false = false := by
  rcases compare_cases a b with ⟨hc, _⟩ | ⟨hc, _⟩ | ⟨hc, h'⟩
  · simp only [overflowPanics, hc]; decide
  · simp only [overflowPanics, hc]; decide
  · omega

/-! ### durationIsNegative -/

theorem durNeg_true {d : SN} (h : d.sec < 0 ∨ (d.sec = 0 ∧ d.nanos < 0)) :
    durationIsNegative d = true := by
  simp only [durationIsNegative, Bool.or_eq_true, Bool.and_eq_true, decide_eq_true_eq]; exact h

theorem durNeg_false {d : SN} (h : ¬ (d.sec < 0 ∨ (d.sec = 0 ∧ d.nanos < 0))) :
    durationIsNegative d = false := by
  cases hb : durationIsNegative d with
  | false => rfl
  | true =>
    simp only [durationIsNegative, Bool.or_eq_true, Bool.and_eq_true, decide_eq_true_eq] at hb
    exact absurd hb h

/-! ### the main characterisation of `add` -/

/-- The overflow predicate: the exact seconds of `t + d` do not fit in an int64. -/
def Overflows (t d : SN) : Prop :=
  (inst t + inst d) / 1000000000 < -9223372036854775808 ∨
  (inst t + inst d) / 1000000000 > 9223372036854775807

/-- the un-checked sum computed by `Add` before `overflowPanic` -/
def rawSum (t d : SN) : SN :=
  let s0 := wrap64 (t.sec + d.sec)
  let n0 := wrap32 (t.nanos + d.nanos)
  if n0 ≥ second then ⟨wrap64 (s0 + 1), wrap32 (n0 - second)⟩
  else if n0 < 0 then ⟨wrap64 (s0 - 1), wrap32 (n0 + second)⟩
  else ⟨s0, n0⟩

theorem add_some (t d : SN) :
    add (some t) d =
      if d.sec = 0 ∧ d.nanos = 0 then .ok (some t)
      else if overflowPanics t (rawSum t d) (durationIsNegative d) then .panic
      else .ok (some (rawSum t d)) := rfl

theorem wrap64_wrap64_add (x c : Int) : wrap64 (wrap64 x + c) = wrap64 (x + c) := by
  unfold wrap64; simp only
  split <;> split <;> split <;> omega

/-- Under the C17 hypotheses the raw sum is the exact normalised sum with wrapped seconds. -/
theorem rawSum_spec (ts tn ds dn : Int) (hn : Normalised ⟨ts, tn⟩) (hd : ValidDur ⟨ds, dn⟩) :
    rawSum ⟨ts, tn⟩ ⟨ds, dn⟩ =
      ⟨wrap64 ((ts * 1000000000 + tn + (ds * 1000000000 + dn)) / 1000000000),
        (ts * 1000000000 + tn + (ds * 1000000000 + dn)) % 1000000000⟩ := by
  simp only [Normalised, ValidDur] at hn hd
  have hw : wrap32 (tn + dn) = tn + dn := wrap32_id (by omega) (by omega)
  simp only [rawSum, second, hw]
  by_cases h1 : tn + dn ≥ 1000000000
  · rw [if_pos h1, wrap64_wrap64_add, wrap32_id (by omega) (by omega)]
    congr 1
    · congr 1; omega
    · omega
  · rw [if_neg h1]
    by_cases h2 : tn + dn < 0
    · rw [if_pos h2, wrap32_id (by omega) (by omega)]
      have : wrap64 (ts + ds) - 1 = wrap64 (ts + ds) + (-1) := by omega
      rw [this, wrap64_wrap64_add]
      congr 1
      · congr 1; omega
      · omega
    · rw [if_neg h2]
      congr 1
      · congr 1; omega
      · omega

theorem add_main (t d : SN) (ht : InRange t) (hn : Normalised t) (hd : ValidDur d) :
    (Overflows t d → add (some t) d = .panic) ∧
    (¬ Overflows t d → add (some t) d = .ok (some (addStdSpec t (inst d)))) := by
  obtain ⟨ts, tn⟩ := t; obtain ⟨ds, dn⟩ := d
  simp only [Overflows, addStdSpec, inst]
  rw [add_some, rawSum_spec ts tn ds dn hn hd]
  simp only [InRange, Normalised, ValidDur] at ht hn hd
  by_cases h0 : ds = 0 ∧ dn = 0
  · rw [if_pos h0]
    obtain ⟨rfl, rfl⟩ := h0
    constructor
    · intro h; omega
    · intro _
      congr 2
      rw [SN.mk.injEq]; omega
  · rw [if_neg h0]
    constructor
    · rintro (h | h)
      · -- underflow: d negative, wrapped seconds exceed t.sec
        rw [durNeg_true (by simp only; omega), wrap64_lo (by omega) (by omega),
          overflowPanics_true_neg (by simp only; omega)]
        rfl
      · rw [durNeg_false (by simp only; omega), wrap64_hi (by omega) (by omega),
          overflowPanics_true_pos (by simp only; omega)]
        rfl
    · intro h
      rw [wrap64_id (by omega) (by omega)]
      by_cases hneg : ds < 0 ∨ (ds = 0 ∧ dn < 0)
      · rw [durNeg_true hneg, overflowPanics_false_neg (by simp only; omega)]
        rfl
      · rw [durNeg_false hneg, overflowPanics_false_pos (by simp only; omega)]
        rfl

/-! ### consequences used by the C17 property theorems -/

theorem ValidTS.inRange {t : SN} (h : ValidTS t) : InRange t := by
  simp only [ValidTS] at h; simp only [InRange]; omega

theorem ValidTS.normalised {t : SN} (h : ValidTS t) : Normalised t := by
  simp only [ValidTS] at h; simp only [Normalised]; omega

theorem valid_not_overflows {t d : SN} (ht : ValidTS t) (hd : ValidDur d) : ¬ Overflows t d := by
  simp only [ValidTS] at ht; simp only [ValidDur] at hd
  simp only [Overflows, inst]; omega

theorem inst_addStdSpec (t : SN) (dn : Int) : inst (addStdSpec t dn) = inst t + dn := by
  simp only [addStdSpec, inst]; omega

theorem normalised_addStdSpec (t : SN) (dn : Int) : Normalised (addStdSpec t dn) := by
  simp only [addStdSpec, Normalised]; omega

/-- For valid inputs `Add` returns exactly the `AddStd` result. -/
theorem add_valid {t d : SN} (ht : ValidTS t) (hd : ValidDur d) :
    add (some t) d = .ok (some (addStdSpec t (inst d))) :=
  (add_main t d ht.inRange ht.normalised hd).2 (valid_not_overflows ht hd)

/-- Any value returned by `Add` (normalised in-range `t`, valid `d`) is the `AddStd` result. -/
theorem add_ok_inv {t d r : SN} (ht : InRange t) (hn : Normalised t) (hd : ValidDur d)
    (h : add (some t) d = .ok (some r)) : r = addStdSpec t (inst d) := by
  by_cases hov : Overflows t d
  · rw [(add_main t d ht hn hd).1 hov] at h; cases h
  · rw [(add_main t d ht hn hd).2 hov] at h
    injection h with h; injection h with h; exact h.symm

end Pulsar.Timepb
