/-
  Pulsar.Proofs.GoSrcEncodeVarint — runtime.EncodeVarint
  (functions translated from the Go source on every run, `Pulsar/ExtractedFns.lean`, related to the hand-written
  models the property theorems are about; see Pulsar/Proofs/GoSrcBase.lean).
-/
import Pulsar.Proofs.GoSrcSov
namespace Pulsar
open Pulsar Pulsar.Timepb

/-! ### runtime.EncodeVarint -/

theorem and127_or128 : ∀ a : Nat, a < 128 → (a ||| 128) = a + 128 := by decide

theorem src_byte (v : Nat) : (((v &&& 127) ||| 128) % 256) = v % 128 + 128 := by
  have h1 : v &&& 127 = v % 128 := Nat.and_two_pow_sub_one_eq_mod v 7
  rw [h1, and127_or128 _ (Nat.mod_lt _ (by decide))]
  omega

theorem toUInt8_mod (v : Nat) : (v % 256).toUInt8 = v.toUInt8 := by
  apply UInt8.toNat_inj.mp
  simp [Nat.toUInt8]

/-- the loop of `EncodeVarint` followed by the final store is the model's loop, whenever the fuel suffices and
    the write position cannot wrap -/
theorem src_EncodeVarint_loop : ∀ (fuel : Nat) (d : Bytes) (pos : Int) (v : Nat), v < 128 ^ (fuel + 1) →
    -9223372036854775808 ≤ pos → pos + fuel + 1 ≤ 9223372036854775807 →
    (Xf.runtime_EncodeVarint_loop1 (fuel + 1) d pos v >>= fun (d', off, v') => Go.setAt d' off (v' % 256))
      = encodeVarintLoop d pos v
  | 0, d, pos, v, hv, _, _ => by
    have h : v < 128 := by simpa using hv
    unfold Xf.runtime_EncodeVarint_loop1
    rw [encodeVarintLoop]
    have h' : ¬ v ≥ 128 := by omega
    simp only [h', decide_false, h, dite_true, Res.pure_eq, Res.bind_ok, Go.setAt, toUInt8_mod]
    rfl
  | fuel+1, d, pos, v, hv, h1, h2 => by
    unfold Xf.runtime_EncodeVarint_loop1
    rw [encodeVarintLoop]
    by_cases h : v ≥ 128
    · have h' : ¬ v < 128 := by omega
      simp only [h, decide_true, if_true, h', dite_false]
      rw [Res.bind_assoc', src_byte, wrap64_id (by omega) (by omega)]
      simp only [Go.setAt]
      cases hs : setAt d pos (v % 128 + 128).toUInt8 with
      | ok d' =>
        simp only [Res.bind_ok]
        have hv' : v / 128 < 128 ^ (fuel + 1) := by
          rw [Nat.div_lt_iff_lt_mul (by decide)]; rw [Nat.pow_succ] at hv; exact hv
        have := src_EncodeVarint_loop fuel d' (pos + 1) (v / 128) hv' (by omega) (by omega)
        simp only [Go.setAt] at this
        exact this
      | err e => rfl
      | panic => rfl
    · have h' : v < 128 := by omega
      simp only [h, decide_false, h', dite_true, Res.pure_eq, Res.bind_ok, Go.setAt, toUInt8_mod]
      rfl

theorem src_EncodeVarint (d : Bytes) (offset v : Nat) (ho : offset < 9223372036854775000)
    (hv : v < 18446744073709551616) :
    Xf.runtime_EncodeVarint d (offset : Int) v = encodeVarint d offset v := by
  unfold Xf.runtime_EncodeVarint encodeVarint
  rw [src_Sov v hv]
  have hs : sov v ≤ 10 := by
    have := bitLen_or_one_le v hv
    unfold sov; omega
  simp only [Res.bind_ok, Res.pure_eq]
  rw [wrap64_id (by omega) (by omega)]
  have hv' : v < 128 ^ (9 + 1) := by omega
  have hl := src_EncodeVarint_loop 9 d ((offset : Int) - (sov v : Int)) v hv' (by omega) (by omega)
  rw [show (9 + 1 : Nat) = 10 from rfl] at hl
  rw [← hl]
  generalize Xf.runtime_EncodeVarint_loop1 10 d ((offset : Int) - (sov v : Int)) v = L
  cases L with
  | ok x =>
    obtain ⟨d', off, v'⟩ := x
    simp only [Res.bind_ok]
    cases Go.setAt d' off (v' % 256) <;> rfl
  | err e => rfl
  | panic => rfl

end Pulsar
