/-
  Pulsar.Proofs.RapidTop — the top level of the draw-level rapidproto model (`generate`): lifting of
  `setFields` facts, and the combined well-formedness statement for `setFields`.
-/
import Pulsar.Proofs.RapidWF
import Pulsar.Proofs.RapidScalars
namespace Pulsar.Rapidproto
open Pulsar

theorem rp_fuelFor_ge (depth : Nat) : Extracted.depthLimit + 1 ≤ fuelFor depth + depth := by
  unfold fuelFor; omega

/-- a property of the message `setFields` returns (for in-range draws) holds for what `generate` returns -/
theorem rp_post_generate {p : Ev → Bool} (S : Schema) (o : GenOpts) (E : List Int) (i : Nat) (ds : List Draw)
    (P : Val → Prop)
    (h : ∀ rest, Post (setFields S o E (fuelFor 0) 0 i (emptyMsg S i) rest) (fun r tr => InRP p tr → P r.2)) :
    Post (generate S o E i ds) (fun v tr => InRP p tr → P v) := by
  unfold generate
  refine rp_post_bind (Q1 := fun _ _ => True) (fun _ _ _ _ => trivial) (fun _ rest tr0 _ _ => ?_)
  refine rp_post_bind (h rest) (fun r rest' tr1 _ hr => ?_)
  split
  · exact rp_post_ok (fun hin => hr hin.right.left)
  · exact rp_post_stuck

/-- … and without any assumption on the draws -/
theorem rp_post_generate' (S : Schema) (o : GenOpts) (E : List Int) (i : Nat) (ds : List Draw) (P : Val → Prop)
    (h : ∀ rest, Post (setFields S o E (fuelFor 0) 0 i (emptyMsg S i) rest) (fun r _ => P r.2)) :
    Post (generate S o E i ds) (fun v _ => P v) := by
  unfold generate
  refine rp_post_bind (Q1 := fun _ _ => True) (fun _ _ _ _ => trivial) (fun _ rest tr0 _ _ => ?_)
  refine rp_post_bind (h rest) (fun r rest' tr1 _ hr => ?_)
  split
  · exact rp_post_ok hr
  · exact rp_post_stuck

/-- `generate` is total: a success consumed exactly the draws (the trace, in order); the only `stuck`s are a
    missing / wrongly typed / left-over draw, at a position inside the sequence -/
theorem rp_fine_generate (S : Schema) (o : GenOpts) (E : List Int) (i : Nat) (ds : List Draw) :
    match generate S o E i ds with
    | .ok _ rest tr => rest = [] ∧ ds = tr.map Ev.draw
    | .stuck p w => (w = .wrongType ∨ w = .missing ∨ w = .leftover) ∧ p ≤ ds.length := by
  unfold generate
  have hA : Fine (if (S.msg i).fields.isEmpty then (draw .flag ds).map (fun _ => ()) else R.ok () ds []) ds := by
    split
    · exact rp_fine_map (rp_fine_draw _ _)
    · exact rp_fine_ok _ _
  generalize (if (S.msg i).fields.isEmpty then (draw .flag ds).map (fun _ => ()) else R.ok () ds []) = A at hA
  cases A with
  | stuck p w =>
    simp only [R.bind]
    obtain ⟨hb, hp⟩ := hA
    exact ⟨by rcases hb with h | h <;> simp [h], hp⟩
  | ok a rest tr0 =>
    simp only [Fine] at hA
    have hB := rp_fine_setFields S o E (fuelFor 0) 0 i (emptyMsg S i) rest (rp_fuelFor_ge 0)
    simp only [R.bind]
    generalize setFields S o E (fuelFor 0) 0 i (emptyMsg S i) rest = B at hB
    cases B with
    | stuck p w =>
      obtain ⟨hb, hp⟩ := hB
      refine ⟨by rcases hb with h | h <;> simp [h], ?_⟩
      rw [hA]; simp; omega
    | ok r rest' tr1 =>
      simp only [Fine] at hB
      by_cases he : rest'.isEmpty = true
      · simp only [he, if_true]
        have : rest' = [] := by simpa using he
        subst this
        simp [hA, hB]
      · simp only [he, Bool.false_eq_true, if_false]
        refine ⟨by simp, ?_⟩
        rw [hA, hB]; simp; omega

theorem rp_utf8_setFields (S : Schema) (o : GenOpts) (E : List Int)
    (hmap : ∀ w, o.mapper .string = some w → utf8Valid w.getBlob = true) (fuel N depth i : Nat) (v : Val)
    (ds : List Draw) : Post (setFields S o E fuel depth i v ds) (fun r tr => InR tr →
      utf8OK S N i v = true → utf8OK S N i r.2 = true) := by
  intro r rest tr h hin hu
  rw [rp_utf8OK_eq S N depth] at hu ⊢
  exact rp_sp_setFields (rp_utf8_SpGen o E hmap) rp_utf8_SpZero S (rp_mpTrue_ok S) (rp_mpTrue_step S o E)
    fuel N depth i v ds r rest tr h hin (rp_spPre_of_spOK S (rp_mpTrue_ok S) hu)

theorem rp_enum_setFields (S : Schema) (o : GenOpts) (E : List Int) (h0 : (0 : Int) ∈ E)
    (hmap : ∀ w, o.mapper .enum = some w → enumDeclared E w = true) (fuel N depth i : Nat)
    (v : Val) (ds : List Draw) : Post (setFields S o E fuel depth i v ds) (fun r tr => InR tr →
      enumsOK S E N i v = true → enumsOK S E N i r.2 = true) := by
  intro r rest tr h hin hu
  rw [rp_enumsOK_eq S E N depth] at hu ⊢
  exact rp_sp_setFields (rp_enum_SpGen o E hmap) (rp_enum_SpZero h0) S (rp_mpTrue_ok S) (rp_mpTrue_step S o E)
    fuel N depth i v ds r rest tr h hin (rp_spPre_of_spOK S (rp_mpTrue_ok S) hu)

theorem rp_unknown_setFields (S : Schema) (o : GenOpts) (E : List Int) (fuel N depth i : Nat) (v : Val)
    (ds : List Draw) : Post (setFields S o E fuel depth i v ds) (fun r tr => InR tr →
      unknownOK S N i v = true → unknownOK S N i r.2 = true) := by
  intro r rest tr h hin hu
  rw [rp_unknownOK_eq S N depth] at hu ⊢
  exact rp_sp_setFields (rp_unk_SpGen o E) rp_unk_SpZero S (rp_unk_MpOK S) (rp_unk_MpStep S o E)
    fuel N depth i v ds r rest tr h hin (rp_spPre_of_spOK S (rp_unk_MpOK S) hu)

/-- everything `setFields` preserves, in one statement (`N`: the typing fuel of the message) -/
theorem rp_wf_setFields (S : Schema) (o : GenOpts) (E : List Int) (h0 : (0 : Int) ∈ E) (hmap : MapperOK E o)
    (fuel N depth i : Nat) (v : Val) (ds : List Draw) (hN : Extracted.depthLimit + 2 ≤ N + depth) :
    Post (setFields S o E fuel depth i v ds) (fun r tr => InR tr →
      msgOK S false N i v = true → utf8OK S N i v = true → enumsOK S E N i v = true → unknownOK S N i v = true →
      msgOK S false N i r.2 = true ∧ utf8OK S N i r.2 = true ∧ enumsOK S E N i r.2 = true ∧
        unknownOK S N i r.2 = true) := by
  intro r rest tr h hin hm hu he hk
  exact ⟨rp_ok_setFields S o hmap.typed E fuel N depth i v ds hN hm r rest tr h,
    rp_utf8_setFields S o E hmap.utf8 fuel N depth i v ds r rest tr h hin hu,
    rp_enum_setFields S o E h0 hmap.enum fuel N depth i v ds r rest tr h hin he,
    rp_unknown_setFields S o E fuel N depth i v ds r rest tr h hin hk⟩

theorem rp_utf8OK_emptyMsg (S : Schema) (n i : Nat) : utf8OK S n i (emptyMsg S i) = true := by
  cases n with
  | zero => rfl
  | succ n =>
    simp only [utf8OK, emptyMsg, Val.slots]
    refine all_zip_zero (fun f v => utf8Slot (utf8OK S n) f v) (fun f => ?_) _
    rw [rp_utf8Slot_eq]; exact rp_spSlot_zero rp_utf8_SpZero _ _

theorem rp_enumsOK_emptyMsg (S : Schema) {E : List Int} (h0 : (0 : Int) ∈ E) (n i : Nat) :
    enumsOK S E n i (emptyMsg S i) = true := by
  cases n with
  | zero => rfl
  | succ n =>
    simp only [enumsOK, emptyMsg, Val.slots]
    refine all_zip_zero (fun f v => enumSlot E (enumsOK S E n) f v) (fun f => ?_) _
    rw [rp_enumSlot_eq]; exact rp_spSlot_zero (rp_enum_SpZero h0) _ _

theorem rp_unknownOK_emptyMsg (S : Schema) (n i : Nat) : unknownOK S n i (emptyMsg S i) = true := by
  cases n with
  | zero => rfl
  | succ n =>
    simp only [unknownOK, Bool.and_eq_true]
    refine ⟨by simp [emptyMsg, Val.unknown, unknownRecordsOK], ?_⟩
    simp only [emptyMsg, Val.slots]
    refine all_zip_zero (fun f v => unknownSlot (unknownOK S n) f v) (fun f => ?_) _
    rw [rp_unknownSlot_eq]; exact rp_spSlot_zero rp_unk_SpZero _ _

end Pulsar.Rapidproto
