/-
  Pulsar.Proofs.EncodeScalar — key bytes / key size, the wire-type table, per-kind scalar bytes and
  sizes: implementation = reference under `scalarOK`.
-/
import Pulsar.Typing
import Pulsar.Proofs.Runtime
namespace Pulsar

/-! ### keys -/

theorem keyBytesLoop_eq_varint (x : Nat) : keyBytesLoop x = varint x := by
  induction x using Nat.strongRecOn with
  | _ x ih =>
    rw [keyBytesLoop, varint]
    by_cases h : x < 128
    · have h' : ¬ x > 127 := by omega
      simp [h, h']
    · have h' : x > 127 := by omega
      simp only [h, h', dite_true, dite_false]
      rw [ih (x / 128) (by omega), Nat.add_comm]

theorem keySizeLoop_eq_length (x : Nat) : keySizeLoop x = (keyBytesLoop x).length := by
  induction x using Nat.strongRecOn with
  | _ x ih =>
    rw [keySizeLoop, keyBytesLoop]
    by_cases h : x > 127
    · simp only [h, dite_true, List.length_cons]
      rw [ih (x / 128) (by omega)]
    · simp [h]

theorem keySize_eq_length (num wt : Nat) : keySize num wt = (keyBytes num wt).length :=
  keySizeLoop_eq_length _

theorem keyWord_eq (num wt : Nat) (hn : num < 536870912) (hw : wt < 8) :
    keyWord num wt = num * 8 + wt := by
  unfold keyWord
  have h1 : num % 4294967296 = num := Nat.mod_eq_of_lt (by omega)
  have h2 : num * 8 % 4294967296 = num * 8 := Nat.mod_eq_of_lt (by omega)
  rw [h1, h2]
  have := Nat.shiftLeft_add_eq_or_of_lt (i := 3) (b := wt) (by omega) num
  rw [Nat.shiftLeft_eq] at this
  exact this.symm

theorem keyBytes_eq_tag (num wt : Nat) (hn : num < 536870912) (hw : wt < 8) :
    keyBytes num wt = tag num wt := by
  unfold keyBytes tag
  rw [keyBytesLoop_eq_varint, keyWord_eq num wt hn hw]

theorem wireType_eq_spec (k : Kind) : Extracted.wireType k = k.specWireType := by
  cases k <;> rfl

theorem wireType_lt_8 (k : Kind) : Extracted.wireType k < 8 := by
  cases k <;> decide

theorem elem_wireType_lt_8 (e : Elem) : e.wireType < 8 := by
  cases e with
  | scalar k => exact wireType_lt_8 k
  | message i => show 2 < 8; omega

theorem elem_wireType_eq (e : Elem) :
    e.wireType = (match e with | .scalar k => k.specWireType | .message _ => 2) := by
  cases e with
  | scalar k => exact wireType_eq_spec k
  | message i => rfl

/-! ### scalars -/

theorem sext32_lt {n : Nat} (h : n < 4294967296) : sext32 n < 18446744073709551616 := by
  unfold sext32; split <;> omega

theorem zigzag32_eq {n : Nat} (h : n < 4294967296) : zigzag32 n = zigzag64 (sext32 n) := by
  unfold zigzag32 zigzag64 sext32
  split <;> split <;> omega

theorem length_le (w n : Nat) : (le w n).length = w := by
  induction w generalizing n with
  | zero => rfl
  | succ w ih => simp [le, ih]

theorem scalarOK_bits {k : Kind} {v : Val} (h : scalarOK k v = true) (hk : k.isBlob = false) :
    ∃ n, v = .bits n ∧ (if k = .bool then n < 2 else n < 2 ^ k.width) := by
  cases v <;> simp [scalarOK, hk] at h
  case bits n =>
    refine ⟨n, rfl, ?_⟩
    by_cases hb : k = .bool
    · subst hb; simpa using h
    · simp only [hb, if_false]
      simpa [hb] using h

theorem implScalarBytes_eq_spec {k : Kind} {v : Val} (h : scalarOK k v = true) :
    implScalarBytes k v = specScalar k v := by
  cases k
  case sint32 =>
    obtain ⟨n, rfl, hn⟩ := scalarOK_bits h rfl
    simp [Kind.width] at hn
    simp [implScalarBytes, specScalar, Kind.toVarint, Val.getBits, zigzag32_eq hn]
  case bool =>
    obtain ⟨n, rfl, hn⟩ := scalarOK_bits h rfl
    simp at hn
    have : n = 0 ∨ n = 1 := by omega
    rcases this with rfl | rfl
    · simp [implScalarBytes, specScalar, Kind.toVarint, Val.getBits]; rw [varint]; simp
    · simp [implScalarBytes, specScalar, Kind.toVarint, Val.getBits]; rw [varint]; simp
  all_goals simp [implScalarBytes, specScalar, Kind.toVarint]

theorem implScalarSize_eq_length {k : Kind} {v : Val} (h : scalarOK k v = true) :
    implScalarSize k v = (implScalarBytes k v).length := by
  cases k
  case sint32 =>
    obtain ⟨n, rfl, hn⟩ := scalarOK_bits h rfl
    simp [Kind.width] at hn
    simp only [implScalarSize, implScalarBytes, Val.getBits]
    rw [soz_eq_varint_length _ (sext32_lt hn), zigzag32_eq hn]
  case sint64 =>
    obtain ⟨n, rfl, hn⟩ := scalarOK_bits h rfl
    simp [Kind.width] at hn
    simp only [implScalarSize, implScalarBytes, Val.getBits]
    rw [soz_eq_varint_length _ hn]
  all_goals
    simp [implScalarSize, implScalarBytes, sov_eq_varint_length, fixed64, fixed32, length_le]
  all_goals omega

theorem implPresent_eq_spec (k : Kind) (v : Val) : implPresent k v = specPresent k v := by
  cases k <;> simp [implPresent, specPresent, Kind.isBlob]

end Pulsar
