/-
  Concatenation: decoding `a ++ b` equals decoding `b` (merging) into the result of decoding `a`
  (reference decoder; transferred to the generated decoder through C03).

  The reference record loop is factored as "one record (`specStep`), then the loop again"; the step is
  stable under appending bytes behind a record it accepted.
-/
import Pulsar.Proofs.DecodeRefReaders
import Pulsar.Proofs.RtWire
namespace Pulsar

/-- One record of the reference record loop: the message after the record and the remaining input.
    Textually the body of `specDecodeLoop` with every recursive call replaced by its arguments
    (`specDecodeLoop_succ` proves exactly that). -/
def specStep (strict : Bool) (S : Schema) (i : Nat) (o : UOpts) (childDec : Nat → Val → Bytes → Res Val)
    (m : Val) (bs : Bytes) : Res (Val × Bytes) :=
    match consumeTag bs with
      | .err e => .err e | .panic => .panic
      | .ok (num, wt, r) =>
        if num > 536870911 then .err .illegalTag
        else
          let fs := (S.msg i).fields
          -- unknown path: also taken for a known number with a mismatching wire type (`errUnknown`)
          let asUnknown (known : Bool) : Res (Val × Bytes) :=
            if strict && known then .err .wrongWireType else
            match consumeValue (2 * r.length + 2) 10001 num wt r with
            | .ok r' =>
              let raw := bs.take (bs.length - r'.length)
              let m' := if o.discard then m else Val.msg m.slots (m.unknown ++ raw)
              .ok (m', r')
            | .err e => .err e | .panic => .panic
          match findField fs num with
          | none => asUnknown false
          | some (j, f) =>
            let cur := m.slot j
            match f.shape, f.elem with
            | .singular, .scalar k =>
              if wt = k.specWireType then
                match specReadScalar k r with
                | .ok (v, r') => .ok ((m.setSlot j v), r')
                | .err e => .err e | .panic => .panic
              else asUnknown true
            | .oneof g, .scalar k =>
              if wt = k.specWireType then
                match specReadScalar k r with
                | .ok (v, r') =>
                  .ok (((Val.msg (clearGroup fs g m.slots) m.unknown).setSlot j (.one v)), r')
                | .err e => .err e | .panic => .panic
              else asUnknown true
            | .singular, .message mi =>
              if wt = 2 then
                match consumeVarint r with
                | .ok (n, r1) =>
                  if n > r1.length then .err .eof
                  else
                    let into := if cur.isNone then emptyMsg S mi else cur
                    match childDec mi into (r1.take n) with
                    | .ok v => .ok ((m.setSlot j v), (r1.drop n))
                    | .err e => .err e | .panic => .panic
                | .err e => .err e | .panic => .panic
              else asUnknown true
            | .oneof g, .message mi =>
              if wt = 2 then
                match consumeVarint r with
                | .ok (n, r1) =>
                  if n > r1.length then .err .eof
                  else
                    -- `m.Mutable(fd)`: the existing message when this member is the active one
                    let into := match cur with | .one x => (if x.isNone then emptyMsg S mi else x) | _ => emptyMsg S mi
                    match childDec mi into (r1.take n) with
                    | .ok v =>
                      .ok (((Val.msg (clearGroup fs g m.slots) m.unknown).setSlot j (.one v)), (r1.drop n))
                    | .err e => .err e | .panic => .panic
                | .err e => .err e | .panic => .panic
              else asUnknown true
            | .repeated _, .scalar k =>
              if wt = 2 ∧ k.packable then
                match consumeVarint r with
                | .ok (n, r1) =>
                  if n > r1.length then .err .eof
                  else match specPackedLoop k n (r1.take n) [] with
                    | .ok vs =>
                      let nonNil := match cur with | .list nn _ => nn || !vs.isEmpty | _ => !vs.isEmpty
                      .ok ((m.setSlot j (.list nonNil (cur.elems ++ vs))), (r1.drop n))
                    | .err e => .err e | .panic => .panic
                | .err e => .err e | .panic => .panic
              else if wt = k.specWireType then
                match specReadScalar k r with
                | .ok (v, r') => .ok ((m.setSlot j (.list true (cur.elems ++ [v]))), r')
                | .err e => .err e | .panic => .panic
              else asUnknown true
            | .repeated _, .message mi =>
              if wt = 2 then
                match consumeVarint r with
                | .ok (n, r1) =>
                  if n > r1.length then .err .eof
                  else match childDec mi (emptyMsg S mi) (r1.take n) with
                    | .ok v => .ok ((m.setSlot j (.list true (cur.elems ++ [v]))), (r1.drop n))
                    | .err e => .err e | .panic => .panic
                | .err e => .err e | .panic => .panic
              else asUnknown true
            | .map kk, e =>
              if wt = 2 then
                match consumeVarint r with
                | .ok (n, r1) =>
                  if n > r1.length then .err .eof
                  else
                    -- key default, value default (`NewValue()`: an empty message for message values)
                    let v0 := match e with | .message mi => emptyMsg S mi | .scalar k => Elem.zeroVar (.scalar k)
                    match specEntryLoop strict childDec kk e n (r1.take n) (Elem.zeroVar (.scalar kk)) v0 with
                    | .ok (k, v) =>
                      .ok ((m.setSlot j (.map true (mapPut (kbeqOf kk) cur.elems k v))), (r1.drop n))
                    | .err e => .err e | .panic => .panic
                | .err e => .err e | .panic => .panic
              else asUnknown true

section Step
variable (strict : Bool) (S : Schema) (i : Nat) (o : UOpts) (c : Nat → Val → Bytes → Res Val)

/-- the record loop is "one step, then the loop". -/
theorem specDecodeLoop_succ (fuel : Nat) (m : Val) (bs : Bytes) :
    specDecodeLoop strict S i o c (fuel + 1) m bs =
      if bs = [] then .ok m else
      match specStep strict S i o c m bs with
      | .ok (m', r') => specDecodeLoop strict S i o c fuel m' r'
      | .err e => .err e
      | .panic => .panic := by
  rw [specDecodeLoop]
  unfold specStep
  repeat' (first | rfl | (split <;> (try simp only [*])))
  all_goals first
    | (generalize FieldDesc.elem _ = el at *; cases el <;> simp_all; done)
    | (generalize m.slot _ = cur at *; cases cur <;> simp_all; done)


theorem lenDelim_append {r r1 : Bytes} {n : Nat} (hcv : consumeVarint r = .ok (n, r1)) (hn : ¬ n > r1.length)
    (t : Bytes) :
    consumeVarint (r ++ t) = .ok (n, r1 ++ t) ∧ ¬ n > (r1 ++ t).length ∧ (r1 ++ t).take n = r1.take n ∧
      (r1 ++ t).drop n = r1.drop n ++ t ∧ (r1.drop n).length < r.length := by
  have hl := consumeVarint_length hcv
  refine ⟨consumeVarint_append t hcv, by simp only [List.length_append]; omega,
    take_append_of_le' _ _ _ (by omega), drop_append_of_le _ _ _ (by omega), ?_⟩
  simp only [List.length_drop]; omega

theorem unknown_append {bs r r' : Bytes} {num wt : Nat} (ht : consumeTag bs = .ok (num, wt, r))
    (hv : consumeValue (2 * r.length + 2) 10001 num wt r = .ok r') (t : Bytes) :
    consumeValue (2 * (r ++ t).length + 2) 10001 num wt (r ++ t) = .ok (r' ++ t) ∧
      (bs ++ t).take ((bs ++ t).length - (r' ++ t).length) = bs.take (bs.length - r'.length) ∧
      r'.length < bs.length := by
  have h1 := (consume_append _).1 _ _ _ _ _ t hv
  obtain ⟨pre1, hp1⟩ := consumeTag_suffix ht
  obtain ⟨pre2, hp2⟩ := (consume_suffix _).1 _ _ _ _ _ hv
  have hl := consumeTag_length ht
  have hl2 : r'.length ≤ r.length := by rw [hp2]; simp
  refine ⟨consumeValue_fuel h1, ?_, by omega⟩
  have key : ∀ (p q : Bytes), (p ++ q).take ((p ++ q).length - q.length) = p := by intro p q; simp
  have e1 : bs = (pre1 ++ pre2) ++ r' := by rw [hp1, hp2]; simp
  have e2 : bs ++ t = (pre1 ++ pre2) ++ (r' ++ t) := by rw [e1]; simp
  rw [e2, key, e1, key]

/-- A record the step accepts is consumed the same way when more bytes follow it, and the step makes
    progress. -/
theorem specStep_append {m : Val} {a : Bytes} {m' : Val} {r' : Bytes}
    (h : specStep strict S i o c m a = .ok (m', r')) (t : Bytes) :
    specStep strict S i o c m (a ++ t) = .ok (m', r' ++ t) ∧ r'.length < a.length := by
  unfold specStep at h ⊢
  split at h
  · simp at h
  · simp at h
  · rename_i num wt r ht
    have htl := consumeTag_length ht
    simp only [consumeTag_append t ht]
    simp only [] at h
    split at h
    · simp at h
    · rename_i hnum
      rw [if_neg hnum]
      split at h
      · -- unknown number
        rename_i hf
        (try simp only [hf])
        simp only [Bool.and_false, Bool.false_eq_true, if_false] at h ⊢
        split at h
        · rename_i r2 hv
          have ⟨u1, u2, u3⟩ := unknown_append ht hv t
          simp only [u1, u2]
          simp only [Res.ok.injEq, Prod.mk.injEq] at h
          obtain ⟨rfl, rfl⟩ := h
          exact ⟨rfl, u3⟩
        · simp at h
        · simp at h
      · rename_i j f hf
        (try simp only [hf])
        split at h
        · -- singular scalar
          rename_i k hsh hel
          (try simp only [hsh, hel])
          split at h
          · rename_i hw; rw [if_pos hw]
            split at h
            · rename_i x r2 hs
              have hsl := specReadScalar_length hs
              simp only [specReadScalar_append t hs]
              simp only [Res.ok.injEq, Prod.mk.injEq] at h
              obtain ⟨rfl, rfl⟩ := h
              exact ⟨rfl, by omega⟩
            · simp at h
            · simp at h
          · rename_i hw; rw [if_neg hw]
            split at h
            · simp at h
            · rename_i hsk
              rw [if_neg hsk]
              split at h
              · rename_i r2 hv
                have ⟨u1, u2, u3⟩ := unknown_append ht hv t
                simp only [u1, u2]
                simp only [Res.ok.injEq, Prod.mk.injEq] at h
                obtain ⟨rfl, rfl⟩ := h
                exact ⟨rfl, u3⟩
              · simp at h
              · simp at h
        · -- oneof scalar
          rename_i g k hsh hel
          (try simp only [hsh, hel])
          split at h
          · rename_i hw; rw [if_pos hw]
            split at h
            · rename_i x r2 hs
              have hsl := specReadScalar_length hs
              simp only [specReadScalar_append t hs]
              simp only [Res.ok.injEq, Prod.mk.injEq] at h
              obtain ⟨rfl, rfl⟩ := h
              exact ⟨rfl, by omega⟩
            · simp at h
            · simp at h
          · rename_i hw; rw [if_neg hw]
            split at h
            · simp at h
            · rename_i hsk
              rw [if_neg hsk]
              split at h
              · rename_i r2 hv
                have ⟨u1, u2, u3⟩ := unknown_append ht hv t
                simp only [u1, u2]
                simp only [Res.ok.injEq, Prod.mk.injEq] at h
                obtain ⟨rfl, rfl⟩ := h
                exact ⟨rfl, u3⟩
              · simp at h
              · simp at h
        · -- singular message
          rename_i mi hsh hel
          (try simp only [hsh, hel])
          split at h
          · rename_i hw; rw [if_pos hw]
            split at h
            · rename_i n r1 hcv
              split at h
              · simp at h
              · rename_i hn
                have ⟨e1, e2, e3, e4, e5⟩ := lenDelim_append hcv hn t
                simp only [e1, e3, e4]
                rw [if_neg e2]
                split at h
                · rename_i x hc
                  (try simp only [hc])
                  simp only [Res.ok.injEq, Prod.mk.injEq] at h
                  obtain ⟨rfl, rfl⟩ := h
                  exact ⟨rfl, by omega⟩
                · simp at h
                · simp at h
            · simp at h
            · simp at h
          · rename_i hw; rw [if_neg hw]
            split at h
            · simp at h
            · rename_i hsk
              rw [if_neg hsk]
              split at h
              · rename_i r2 hv
                have ⟨u1, u2, u3⟩ := unknown_append ht hv t
                simp only [u1, u2]
                simp only [Res.ok.injEq, Prod.mk.injEq] at h
                obtain ⟨rfl, rfl⟩ := h
                exact ⟨rfl, u3⟩
              · simp at h
              · simp at h
        · -- oneof message
          rename_i g mi hsh hel
          (try simp only [hsh, hel])
          split at h
          · rename_i hw; rw [if_pos hw]
            split at h
            · rename_i n r1 hcv
              split at h
              · simp at h
              · rename_i hn
                have ⟨e1, e2, e3, e4, e5⟩ := lenDelim_append hcv hn t
                simp only [e1, e3, e4]
                rw [if_neg e2]
                split at h
                · rename_i x hc
                  (try simp only [hc])
                  simp only [Res.ok.injEq, Prod.mk.injEq] at h
                  obtain ⟨rfl, rfl⟩ := h
                  exact ⟨rfl, by omega⟩
                · simp at h
                · simp at h
            · simp at h
            · simp at h
          · rename_i hw; rw [if_neg hw]
            split at h
            · simp at h
            · rename_i hsk
              rw [if_neg hsk]
              split at h
              · rename_i r2 hv
                have ⟨u1, u2, u3⟩ := unknown_append ht hv t
                simp only [u1, u2]
                simp only [Res.ok.injEq, Prod.mk.injEq] at h
                obtain ⟨rfl, rfl⟩ := h
                exact ⟨rfl, u3⟩
              · simp at h
              · simp at h
        · -- repeated scalar
          rename_i pk k hsh hel
          (try simp only [hsh, hel])
          split at h
          · rename_i hw; rw [if_pos hw]
            split at h
            · rename_i n r1 hcv
              split at h
              · simp at h
              · rename_i hn
                have ⟨e1, e2, e3, e4, e5⟩ := lenDelim_append hcv hn t
                simp only [e1, e3, e4]
                rw [if_neg e2]
                split at h
                · rename_i vs hp
                  (try simp only [hp])
                  simp only [Res.ok.injEq, Prod.mk.injEq] at h
                  obtain ⟨rfl, rfl⟩ := h
                  exact ⟨rfl, by omega⟩
                · simp at h
                · simp at h
            · simp at h
            · simp at h
          · rename_i hw; rw [if_neg hw]
            split at h
            · rename_i hw2; rw [if_pos hw2]
              split at h
              · rename_i x r2 hs
                have hsl := specReadScalar_length hs
                simp only [specReadScalar_append t hs]
                simp only [Res.ok.injEq, Prod.mk.injEq] at h
                obtain ⟨rfl, rfl⟩ := h
                exact ⟨rfl, by omega⟩
              · simp at h
              · simp at h
            · rename_i hw2; rw [if_neg hw2]
              split at h
              · simp at h
              · rename_i hsk
                rw [if_neg hsk]
                split at h
                · rename_i r2 hv
                  have ⟨u1, u2, u3⟩ := unknown_append ht hv t
                  simp only [u1, u2]
                  simp only [Res.ok.injEq, Prod.mk.injEq] at h
                  obtain ⟨rfl, rfl⟩ := h
                  exact ⟨rfl, u3⟩
                · simp at h
                · simp at h
        · -- repeated message
          rename_i pk mi hsh hel
          (try simp only [hsh, hel])
          split at h
          · rename_i hw; rw [if_pos hw]
            split at h
            · rename_i n r1 hcv
              split at h
              · simp at h
              · rename_i hn
                have ⟨e1, e2, e3, e4, e5⟩ := lenDelim_append hcv hn t
                simp only [e1, e3, e4]
                rw [if_neg e2]
                split at h
                · rename_i x hc
                  (try simp only [hc])
                  simp only [Res.ok.injEq, Prod.mk.injEq] at h
                  obtain ⟨rfl, rfl⟩ := h
                  exact ⟨rfl, by omega⟩
                · simp at h
                · simp at h
            · simp at h
            · simp at h
          · rename_i hw; rw [if_neg hw]
            split at h
            · simp at h
            · rename_i hsk
              rw [if_neg hsk]
              split at h
              · rename_i r2 hv
                have ⟨u1, u2, u3⟩ := unknown_append ht hv t
                simp only [u1, u2]
                simp only [Res.ok.injEq, Prod.mk.injEq] at h
                obtain ⟨rfl, rfl⟩ := h
                exact ⟨rfl, u3⟩
              · simp at h
              · simp at h
        · -- map
          rename_i kk hsh
          (try simp only [hsh])
          split at h
          · rename_i hw; rw [if_pos hw]
            split at h
            · rename_i n r1 hcv
              split at h
              · simp at h
              · rename_i hn
                have ⟨e1, e2, e3, e4, e5⟩ := lenDelim_append hcv hn t
                simp only [e1, e3, e4]
                rw [if_neg e2]
                split at h
                · rename_i k x hc
                  (try simp only [hc])
                  simp only [Res.ok.injEq, Prod.mk.injEq] at h
                  obtain ⟨rfl, rfl⟩ := h
                  exact ⟨rfl, by omega⟩
                · simp at h
                · simp at h
            · simp at h
            · simp at h
          · rename_i hw; rw [if_neg hw]
            split at h
            · simp at h
            · rename_i hsk
              rw [if_neg hsk]
              split at h
              · rename_i r2 hv
                have ⟨u1, u2, u3⟩ := unknown_append ht hv t
                simp only [u1, u2]
                simp only [Res.ok.injEq, Prod.mk.injEq] at h
                obtain ⟨rfl, rfl⟩ := h
                exact ⟨rfl, u3⟩
              · simp at h
              · simp at h


end Step

/-! ## the child decoder may be replaced by one that succeeds at least as often on shorter payloads -/

section Mono
variable (strict : Bool) (S : Schema) (i : Nat) (o : UOpts) (c1 c2 : Nat → Val → Bytes → Res Val) (L : Nat)
  (HC : ∀ i into p v, p.length < L → c1 i into p = .ok v → c2 i into p = .ok v)
include HC

theorem specEntryLoop_mono (kk : Kind) (e : Elem) :
    ∀ (fuel : Nat) (p : Bytes) (k v : Val) (res : Val × Val), p.length ≤ L →
      specEntryLoop strict c1 kk e fuel p k v = .ok res →
      specEntryLoop strict c2 kk e fuel p k v = .ok res := by
  intro fuel
  induction fuel with
  | zero => intro p k v res _ h; simpa [specEntryLoop] using h
  | succ fuel ih =>
    intro p k v res hpl h
    rw [specEntryLoop] at h ⊢
    split at h
    · rename_i hb; rw [if_pos hb]; exact h
    · rename_i hb; rw [if_neg hb]
      split at h
      · simp at h
      · simp at h
      · rename_i num wt r ht
        have hl1 := consumeTag_length ht
        simp only [] at h ⊢
        split at h
        · simp at h
        · rename_i hnum; rw [if_neg hnum]
          -- the skip path, shared by three branches
          have skipOK : ∀ (mism : Bool),
              (if (strict && mism) = true then Res.err Err.wrongWireType else
                match consumeValue (2 * r.length + 2) 10001 num wt r with
                | .ok r' => specEntryLoop strict c1 kk e fuel r' k v
                | .err e => .err e | .panic => .panic) = .ok res →
              (if (strict && mism) = true then Res.err Err.wrongWireType else
                match consumeValue (2 * r.length + 2) 10001 num wt r with
                | .ok r' => specEntryLoop strict c2 kk e fuel r' k v
                | .err e => .err e | .panic => .panic) = .ok res := by
            intro mism h
            split at h
            · simp at h
            · rename_i hsk; rw [if_neg hsk]
              split at h
              · rename_i r' hv
                obtain ⟨pre, hp⟩ := (consume_suffix _).1 _ _ _ _ _ hv
                have : r'.length ≤ r.length := by rw [hp]; simp
                exact ih _ _ _ _ (by omega) h
              · simp at h
              · simp at h
          split at h
          · rename_i hn1; rw [if_pos hn1]
            split at h
            · rename_i hw; rw [if_pos hw]
              split at h
              · rename_i k' r' hs
                have := specReadScalar_length hs
                exact ih _ _ _ _ (by omega) h
              · simp at h
              · simp at h
            · rename_i hw; rw [if_neg hw]; exact skipOK _ h
          · rename_i hn1; rw [if_neg hn1]
            split at h
            · rename_i hn2; rw [if_pos hn2]
              split at h
              · rename_i vk
                split at h
                · rename_i hw; rw [if_pos hw]
                  split at h
                  · rename_i v' r' hs
                    have := specReadScalar_length hs
                    exact ih _ _ _ _ (by omega) h
                  · simp at h
                  · simp at h
                · rename_i hw; rw [if_neg hw]; exact skipOK _ h
              · rename_i mi
                split at h
                · rename_i hw; rw [if_pos hw]
                  split at h
                  · rename_i n r1 hcv
                    have hl2 := consumeVarint_length hcv
                    split at h
                    · simp at h
                    · rename_i hn; rw [if_neg hn]
                      split at h
                      · rename_i v' hc
                        have hl3 : (r1.take n).length < L := by simp only [List.length_take]; omega
                        simp only [HC _ _ _ _ hl3 hc]
                        exact ih _ _ _ _ (by simp only [List.length_drop]; omega) h
                      · simp at h
                      · simp at h
                  · simp at h
                  · simp at h
                · rename_i hw; rw [if_neg hw]; exact skipOK _ h
            · rename_i hn2; rw [if_neg hn2]; exact skipOK _ h

theorem specStep_mono {m : Val} {bs : Bytes} {x : Val × Bytes} (hbl : bs.length ≤ L)
    (h : specStep strict S i o c1 m bs = .ok x) : specStep strict S i o c2 m bs = .ok x := by
  unfold specStep at h ⊢
  split at h
  · simp at h
  · simp at h
  · rename_i num wt r ht
    have hl1 := consumeTag_length ht
    simp only [] at h ⊢
    split at h
    · simp at h
    · rename_i hnum
      rw [if_neg hnum]
      split at h
      · exact h
      · split at h
        · exact h
        · exact h
        · -- singular message
          split at h
          · rename_i hw; rw [if_pos hw]
            split at h
            · rename_i n r1 hcv
              have hl2 := consumeVarint_length hcv
              have hl3 : (r1.take n).length < L := by simp only [List.length_take]; omega
              split at h
              · simp at h
              · rename_i hn
                rw [if_neg hn]
                split at h
                · rename_i x hc
                  simp only [HC _ _ _ _ hl3 hc]
                  exact h
                · simp at h
                · simp at h
            · simp at h
            · simp at h
          · rename_i hw; rw [if_neg hw]; exact h
        · -- oneof message
          split at h
          · rename_i hw; rw [if_pos hw]
            split at h
            · rename_i n r1 hcv
              have hl2 := consumeVarint_length hcv
              have hl3 : (r1.take n).length < L := by simp only [List.length_take]; omega
              split at h
              · simp at h
              · rename_i hn
                rw [if_neg hn]
                split at h
                · rename_i x hc
                  simp only [HC _ _ _ _ hl3 hc]
                  exact h
                · simp at h
                · simp at h
            · simp at h
            · simp at h
          · rename_i hw; rw [if_neg hw]; exact h
        · exact h
        · -- repeated message
          split at h
          · rename_i hw; rw [if_pos hw]
            split at h
            · rename_i n r1 hcv
              have hl2 := consumeVarint_length hcv
              have hl3 : (r1.take n).length < L := by simp only [List.length_take]; omega
              split at h
              · simp at h
              · rename_i hn
                rw [if_neg hn]
                split at h
                · rename_i x hc
                  simp only [HC _ _ _ _ hl3 hc]
                  exact h
                · simp at h
                · simp at h
            · simp at h
            · simp at h
          · rename_i hw; rw [if_neg hw]; exact h
        · -- map
          split at h
          · rename_i hw; rw [if_pos hw]
            split at h
            · rename_i n r1 hcv
              have hl2 := consumeVarint_length hcv
              have hl3 : (r1.take n).length < L := by simp only [List.length_take]; omega
              split at h
              · simp at h
              · rename_i hn
                rw [if_neg hn]
                split at h
                · rename_i k x hc
                  simp only [specEntryLoop_mono strict c1 c2 L HC _ _ _ _ _ _ _ (by omega) hc]
                  exact h
                · simp at h
                · simp at h
            · simp at h
            · simp at h
          · rename_i hw; rw [if_neg hw]; exact h

end Mono

/-! ## the record loop -/

section Loop
variable (strict : Bool) (S : Schema) (i : Nat) (o : UOpts)

theorem specDecodeLoop_nil (c : Nat → Val → Bytes → Res Val) (fuel : Nat) (m : Val) :
    specDecodeLoop strict S i o c fuel m [] = .ok m := by
  cases fuel <;> simp [specDecodeLoop]

/-- the loop's fuel does not matter once it covers the input. -/
theorem specDecodeLoop_fuel (c : Nat → Val → Bytes → Res Val) : ∀ (f1 f2 : Nat) (m : Val) (bs : Bytes),
    bs.length ≤ f1 → bs.length ≤ f2 →
    specDecodeLoop strict S i o c f1 m bs = specDecodeLoop strict S i o c f2 m bs := by
  intro f1
  induction f1 with
  | zero =>
    intro f2 m bs h1 _
    have : bs = [] := List.length_eq_zero_iff.mp (by omega)
    subst this; rw [specDecodeLoop_nil, specDecodeLoop_nil]
  | succ f1 ih =>
    intro f2 m bs h1 h2
    cases f2 with
    | zero =>
      have : bs = [] := List.length_eq_zero_iff.mp (by omega)
      subst this; rw [specDecodeLoop_nil, specDecodeLoop_nil]
    | succ f2 =>
      rw [specDecodeLoop_succ, specDecodeLoop_succ]
      by_cases hb : bs = []
      · simp [hb]
      · simp only [hb, if_false]
        cases hs : specStep strict S i o c m bs with
        | ok x =>
          obtain ⟨m', r'⟩ := x
          have := (specStep_append strict S i o c hs []).2
          exact ih _ _ _ (by omega) (by omega)
        | err e => rfl
        | panic => rfl

/-- decoding `a ++ t` = decoding `t` into what decoding `a` produced (when `a` is accepted). -/
theorem specDecodeLoop_append (c : Nat → Val → Bytes → Res Val) : ∀ (fuel : Nat) (m : Val) (a : Bytes) (v : Val),
    a.length ≤ fuel → specDecodeLoop strict S i o c fuel m a = .ok v →
    ∀ (t : Bytes) (f2 : Nat), t.length ≤ f2 →
      specDecodeLoop strict S i o c (fuel + f2) m (a ++ t) = specDecodeLoop strict S i o c f2 v t := by
  intro fuel
  induction fuel with
  | zero =>
    intro m a v hl h t f2 ht
    have : a = [] := List.length_eq_zero_iff.mp (by omega)
    subst this
    rw [specDecodeLoop_nil] at h
    simp only [Res.ok.injEq] at h; subst h
    simp
  | succ fuel ih =>
    intro m a v hl h t f2 ht
    rw [specDecodeLoop_succ] at h
    by_cases hb : a = []
    · subst hb
      simp only [if_true, Res.ok.injEq] at h; subst h
      simp only [List.nil_append]
      exact specDecodeLoop_fuel strict S i o c _ _ _ _ (by omega) ht
    · simp only [hb, if_false] at h
      cases hs : specStep strict S i o c m a with
      | ok x =>
        obtain ⟨m', r'⟩ := x
        simp only [hs] at h
        obtain ⟨hs', hlt⟩ := specStep_append strict S i o c hs t
        have e : fuel + 1 + f2 = (fuel + f2) + 1 := by omega
        rw [e, specDecodeLoop_succ]
        have hne : a ++ t ≠ [] := by simp [hb]
        simp only [hne, if_false, hs']
        exact ih _ _ _ (by omega) h t f2 ht
      | err e => simp [hs] at h
      | panic => simp [hs] at h

/-- a child decoder that succeeds at least as often (on payloads shorter than the input). -/
theorem specDecodeLoop_mono (c1 c2 : Nat → Val → Bytes → Res Val) (L : Nat)
    (HC : ∀ i into p v, p.length < L → c1 i into p = .ok v → c2 i into p = .ok v) :
    ∀ (fuel : Nat) (m : Val) (bs : Bytes) (v : Val), bs.length ≤ L →
      specDecodeLoop strict S i o c1 fuel m bs = .ok v → specDecodeLoop strict S i o c2 fuel m bs = .ok v := by
  intro fuel
  induction fuel with
  | zero => intro m bs v _ h; simpa [specDecodeLoop] using h
  | succ fuel ih =>
    intro m bs v hl h
    rw [specDecodeLoop_succ] at h ⊢
    by_cases hb : bs = []
    · simpa [hb] using h
    · simp only [hb, if_false] at h ⊢
      cases hs : specStep strict S i o c1 m bs with
      | ok x =>
        obtain ⟨m', r'⟩ := x
        simp only [hs] at h
        have := (specStep_append strict S i o c1 hs []).2
        rw [specStep_mono strict S i o c1 c2 L HC hl hs]
        exact ih _ _ _ (by omega) h
      | err e => simp [hs] at h
      | panic => simp [hs] at h

end Loop

/-! ## `specDecodeInto`: fuel monotonicity for accepted inputs, and concatenation -/

theorem specDecodeInto_mono (strict : Bool) (S : Schema) (o : UOpts) :
    ∀ (f1 f2 depth i : Nat) (into : Val) (bs : Bytes) (v : Val), f1 ≤ f2 → bs.length < f1 →
      specDecodeInto strict S o f1 depth i into bs = .ok v →
      specDecodeInto strict S o f2 depth i into bs = .ok v := by
  intro f1
  induction f1 with
  | zero => intro f2 depth i into bs v _ hl _; omega
  | succ f1 ih =>
    intro f2 depth i into bs v hf hl h
    cases f2 with
    | zero => omega
    | succ f2 =>
      rw [specDecodeInto] at h ⊢
      split at h
      · simp at h
      · rename_i hd
        rw [if_neg hd]
        exact specDecodeLoop_mono strict S i o _ _ bs.length
          (fun i' into' p v' hp hc => ih f2 _ _ _ _ _ (by omega) (by omega) hc) _ _ _ _ (Nat.le_refl _) h

/-- Concatenation at a common fuel: no side condition at all. -/
theorem specDecodeInto_append (strict : Bool) (S : Schema) (o : UOpts) (F depth i : Nat) (m v1 : Val) (a b : Bytes)
    (h : specDecodeInto strict S o (F + 1) depth i m a = .ok v1) :
    specDecodeInto strict S o (F + 1) depth i m (a ++ b) = specDecodeInto strict S o (F + 1) depth i v1 b := by
  rw [specDecodeInto] at h ⊢
  rw [specDecodeInto]
  split at h
  · simp at h
  · rename_i hd
    rw [if_neg hd, if_neg hd]
    have := specDecodeLoop_append strict S i o _ a.length m a v1 (Nat.le_refl _) h b b.length (Nat.le_refl _)
    rw [List.length_append]
    exact this


/-! ## only `DiscardUnknown` matters below the entry point -/

theorem specStep_opts (strict : Bool) (S : Schema) (i : Nat) (o o' : UOpts) (hd : o.discard = o'.discard)
    (c : Nat → Val → Bytes → Res Val) (m : Val) (bs : Bytes) :
    specStep strict S i o c m bs = specStep strict S i o' c m bs := by
  unfold specStep
  simp only [hd]

theorem specDecodeLoop_opts (strict : Bool) (S : Schema) (i : Nat) (o o' : UOpts) (hd : o.discard = o'.discard)
    (c : Nat → Val → Bytes → Res Val) : ∀ (fuel : Nat) (m : Val) (bs : Bytes),
    specDecodeLoop strict S i o c fuel m bs = specDecodeLoop strict S i o' c fuel m bs := by
  intro fuel
  induction fuel with
  | zero => intro m bs; simp [specDecodeLoop]
  | succ fuel ih =>
    intro m bs
    rw [specDecodeLoop_succ, specDecodeLoop_succ, specStep_opts strict S i o o' hd]
    by_cases hb : bs = []
    · simp [hb]
    · simp only [hb, if_false]
      cases specStep strict S i o' c m bs with
      | ok x => obtain ⟨m', r'⟩ := x; exact ih _ _
      | err e => rfl
      | panic => rfl

theorem specDecodeInto_opts (strict : Bool) (S : Schema) (o o' : UOpts) (hd : o.discard = o'.discard) :
    ∀ (fuel depth i : Nat) (into : Val) (bs : Bytes),
    specDecodeInto strict S o fuel depth i into bs = specDecodeInto strict S o' fuel depth i into bs := by
  intro fuel
  induction fuel with
  | zero => intro depth i into bs; simp [specDecodeInto]
  | succ fuel ih =>
    intro depth i into bs
    rw [specDecodeInto, specDecodeInto]
    have hc : specDecodeInto strict S o fuel (depth - 1) = specDecodeInto strict S o' fuel (depth - 1) := by
      funext i' into' p; exact ih _ _ _ _
    rw [hc, specDecodeLoop_opts strict S i o o' hd]

/-- **Decoding a concatenation equals merging** (reference decoder, plain or strict): if `a` decodes
    into `start` giving `v1`, and `b` decodes — merging — into `v1` giving `v2`, then `a ++ b` decodes
    into `start` giving `v2`. Fuels as used by `specUnmarshal`. -/
theorem specDecodeInto_concat (strict : Bool) (S : Schema) (o o' : UOpts) (hd : o'.discard = o.discard)
    (depth i : Nat) (start v1 v2 : Val) (a b : Bytes)
    (ha : specDecodeInto strict S o (a.length + 1) depth i start a = .ok v1)
    (hb : specDecodeInto strict S o' (b.length + 1) depth i v1 b = .ok v2) :
    specDecodeInto strict S o ((a ++ b).length + 1) depth i start (a ++ b) = .ok v2 := by
  have hla : a.length ≤ (a ++ b).length := by simp
  have hlb : b.length ≤ (a ++ b).length := by simp
  have ha' := specDecodeInto_mono strict S o _ ((a ++ b).length + 1) _ _ _ _ _ (by omega) (by omega) ha
  rw [specDecodeInto_opts strict S o' o hd] at hb
  have hb' := specDecodeInto_mono strict S o _ ((a ++ b).length + 1) _ _ _ _ _ (by omega) (by omega) hb
  rw [specDecodeInto_append strict S o _ _ _ _ _ _ _ ha', hb']

end Pulsar
