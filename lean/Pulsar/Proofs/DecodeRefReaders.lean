/-
  Reader agreement: protowire's strict readers (reference side) vs. the readers of the generated
  closure. Everything is of the form "reference success ⇒ generated success with the same result",
  plus append-stability (reading from `p ++ t` what was read from `p`) and suffix/length facts.
-/
import Pulsar.Typing
import Pulsar.Proofs.Runtime
namespace Pulsar

/-! ## varints -/

theorem consumeVarintAux_append (p t : Bytes) : ∀ k s a v r,
    consumeVarintAux k s a p = .ok (v, r) → consumeVarintAux k s a (p ++ t) = .ok (v, r ++ t) := by
  induction p with
  | nil => intro k s a v r h; simp [consumeVarintAux] at h
  | cons b tl ih =>
    intro k s a v r h
    rw [List.cons_append, consumeVarintAux]
    rw [consumeVarintAux] at h
    by_cases hk : k = 9
    · simp only [hk, if_true] at h ⊢
      by_cases hb : b.toNat < 2
      · simp only [hb, if_true, Res.ok.injEq, Prod.mk.injEq] at h ⊢
        obtain ⟨rfl, rfl⟩ := h; exact ⟨rfl, rfl⟩
      · simp [hb] at h
    · simp only [hk, if_false] at h ⊢
      by_cases hb : b.toNat < 128
      · simp only [hb, if_true, Res.ok.injEq, Prod.mk.injEq] at h ⊢
        obtain ⟨rfl, rfl⟩ := h; exact ⟨rfl, rfl⟩
      · simp only [hb, if_false] at h ⊢
        exact ih _ _ _ _ _ h

theorem consumeVarintAux_suffix (p : Bytes) : ∀ k s a v r,
    consumeVarintAux k s a p = .ok (v, r) → ∃ pre, p = pre ++ r := by
  induction p with
  | nil => intro k s a v r h; simp [consumeVarintAux] at h
  | cons b tl ih =>
    intro k s a v r h
    rw [consumeVarintAux] at h
    by_cases hk : k = 9
    · simp only [hk, if_true] at h
      by_cases hb : b.toNat < 2
      · simp only [hb, if_true, Res.ok.injEq, Prod.mk.injEq] at h
        obtain ⟨_, rfl⟩ := h; exact ⟨[b], rfl⟩
      · simp [hb] at h
    · simp only [hk, if_false] at h
      by_cases hb : b.toNat < 128
      · simp only [hb, if_true, Res.ok.injEq, Prod.mk.injEq] at h
        obtain ⟨_, rfl⟩ := h; exact ⟨[b], rfl⟩
      · simp only [hb, if_false] at h
        obtain ⟨pre, hp⟩ := ih _ _ _ _ _ h
        exact ⟨b :: pre, by rw [hp]; rfl⟩

theorem consumeVarint_append {p : Bytes} {v : Nat} {r : Bytes} (t : Bytes)
    (h : consumeVarint p = .ok (v, r)) : consumeVarint (p ++ t) = .ok (v, r ++ t) :=
  consumeVarintAux_append p t 0 0 0 v r h

theorem consumeVarint_suffix {p : Bytes} {v : Nat} {r : Bytes}
    (h : consumeVarint p = .ok (v, r)) : ∃ pre, p = pre ++ r :=
  consumeVarintAux_suffix p 0 0 0 v r h

theorem consumeVarint_length {p : Bytes} {v : Nat} {r : Bytes}
    (h : consumeVarint p = .ok (v, r)) : r.length < p.length := by
  obtain ⟨n, _, hl, hp⟩ := consumeVarint_skip h; omega

/-- the lenient reader of the generated code accepts whatever protowire accepts, with the same value. -/
theorem readVarint_of_consumeVarint {bs : Bytes} {v : Nat} {r : Bytes}
    (h : consumeVarint bs = .ok (v, r)) : readVarint bs = .ok (v, r) := by
  obtain ⟨n, hn, _, _⟩ := consumeVarint_skip h
  simp [readVarint, hn]

/-! ## tags -/

theorem consumeTag_inv {bs : Bytes} {num wt : Nat} {r : Bytes}
    (h : consumeTag bs = .ok (num, wt, r)) :
    ∃ wire, consumeVarint bs = .ok (wire, r) ∧ wire / 8 = num ∧ wire % 8 = wt ∧ 1 ≤ num ∧ num ≤ 2147483647 := by
  unfold consumeTag at h
  split at h
  · rename_i v rest hv
    simp only [] at h
    split at h
    · simp at h
    · split at h
      · simp at h
      · simp only [Res.ok.injEq, Prod.mk.injEq] at h
        obtain ⟨rfl, rfl, rfl⟩ := h
        exact ⟨v, hv, rfl, rfl, by omega, by omega⟩
  · simp at h
  · simp at h

theorem consumeTag_of_varint {bs : Bytes} {wire : Nat} {r : Bytes}
    (h : consumeVarint bs = .ok (wire, r)) (h1 : 1 ≤ wire / 8) (h2 : wire / 8 ≤ 2147483647) :
    consumeTag bs = .ok (wire / 8, wire % 8, r) := by
  unfold consumeTag
  simp only [h]
  rw [if_neg (by omega), if_neg (by omega)]

theorem consumeTag_append {p : Bytes} {num wt : Nat} {r : Bytes} (t : Bytes)
    (h : consumeTag p = .ok (num, wt, r)) : consumeTag (p ++ t) = .ok (num, wt, r ++ t) := by
  obtain ⟨wire, hv, rfl, rfl, h1, h2⟩ := consumeTag_inv h
  exact consumeTag_of_varint (consumeVarint_append t hv) h1 h2

theorem consumeTag_suffix {p : Bytes} {num wt : Nat} {r : Bytes}
    (h : consumeTag p = .ok (num, wt, r)) : ∃ pre, p = pre ++ r := by
  obtain ⟨wire, hv, _⟩ := consumeTag_inv h
  exact consumeVarint_suffix hv

theorem consumeTag_length {p : Bytes} {num wt : Nat} {r : Bytes}
    (h : consumeTag p = .ok (num, wt, r)) : r.length < p.length := by
  obtain ⟨wire, hv, _⟩ := consumeTag_inv h
  exact consumeVarint_length hv

/-- what the generated loop computes from the tag varint. -/
theorem consumeTag_read {bs : Bytes} {num wt : Nat} {r : Bytes}
    (h : consumeTag bs = .ok (num, wt, r)) (hn : num ≤ 536870911) :
    ∃ wire, readVarint bs = .ok (wire, r) ∧ (wire / 8) % 4294967296 = num ∧ wire % 8 = wt ∧
      1 ≤ num ∧ r.length < bs.length := by
  obtain ⟨wire, hv, rfl, rfl, h1, _⟩ := consumeTag_inv h
  refine ⟨wire, readVarint_of_consumeVarint hv, Nat.mod_eq_of_lt (by omega), rfl, h1,
    consumeVarint_length hv⟩

/-! ## consumeValue / consumeGroup: append stability and suffix -/

theorem drop_append_of_le {α} (n : Nat) (p t : List α) (h : n ≤ p.length) :
    (p ++ t).drop n = p.drop n ++ t := by
  rw [List.drop_append_of_le_length h]

theorem take_append_of_le' {α} (n : Nat) (p t : List α) (h : n ≤ p.length) :
    (p ++ t).take n = p.take n := by
  rw [List.take_append_of_le_length h]

theorem consume_append (f : Nat) :
    (∀ d num typ (p r t : Bytes), consumeValue f d num typ p = .ok r →
      consumeValue f d num typ (p ++ t) = .ok (r ++ t)) ∧
    (∀ d num (p r t : Bytes), consumeGroup f d num p = .ok r →
      consumeGroup f d num (p ++ t) = .ok (r ++ t)) := by
  induction f with
  | zero =>
    exact ⟨fun d num typ p r t h => by simp [consumeValue] at h,
           fun d num p r t h => by simp [consumeGroup] at h⟩
  | succ f ih =>
    obtain ⟨ihV, ihG⟩ := ih
    refine ⟨?_, ?_⟩
    · intro d num typ p r t h
      rw [consumeValue] at h ⊢
      split at h
      · rename_i h0
        simp only [h0, if_true]
        split at h
        · rename_i v rest hcv
          simp only [Res.ok.injEq] at h; subst h
          simp [consumeVarint_append t hcv]
        · simp at h
        · simp at h
      rename_i h0
      simp only [h0, if_false]
      split at h
      · rename_i h5
        simp only [h5, if_true]
        split at h
        · simp at h
        · rename_i hl
          simp only [Res.ok.injEq] at h; subst h
          have : ¬ (p ++ t).length < 4 := by simp only [List.length_append]; omega
          rw [if_neg this, drop_append_of_le _ _ _ (by omega)]
      rename_i h5
      simp only [h5, if_false]
      split at h
      · rename_i h1
        simp only [h1, if_true]
        split at h
        · simp at h
        · rename_i hl
          simp only [Res.ok.injEq] at h; subst h
          have : ¬ (p ++ t).length < 8 := by simp only [List.length_append]; omega
          rw [if_neg this, drop_append_of_le _ _ _ (by omega)]
      rename_i h1
      simp only [h1, if_false]
      split at h
      · rename_i h2
        simp only [h2, if_true]
        split at h
        · rename_i v rest hcv
          split at h
          · simp at h
          · rename_i hl
            simp only [Res.ok.injEq] at h; subst h
            simp only [consumeVarint_append t hcv]
            have : ¬ v > (rest ++ t).length := by simp only [List.length_append]; omega
            rw [if_neg this, drop_append_of_le _ _ _ (by omega)]
        · simp at h
        · simp at h
      rename_i h2
      simp only [h2, if_false]
      split at h
      · rename_i h3
        simp only [h3, if_true]
        split at h
        · simp at h
        · rename_i hd
          rw [if_neg hd]
          exact ihG _ _ _ _ _ h
      rename_i h3
      simp only [h3, if_false]
      split at h <;> simp at h
    · intro d num p r t h
      rw [consumeGroup] at h ⊢
      split at h
      · rename_i num2 typ2 rest ht
        simp only [consumeTag_append t ht]
        split at h
        · rename_i h4
          simp only [h4, if_true]
          split at h
          · rename_i hn
            simp only [Res.ok.injEq] at h; subst h
            simp [hn]
          · simp at h
        · rename_i h4
          simp only [h4, if_false]
          split at h
          · rename_i rest2 hv
            simp only [ihV _ _ _ _ _ t hv]
            exact ihG _ _ _ _ _ h
          · simp at h
          · simp at h
      · simp at h
      · simp at h

theorem consume_suffix (f : Nat) :
    (∀ d num typ (p r : Bytes), consumeValue f d num typ p = .ok r → ∃ pre, p = pre ++ r) ∧
    (∀ d num (p r : Bytes), consumeGroup f d num p = .ok r → ∃ pre, p = pre ++ r) := by
  induction f with
  | zero =>
    exact ⟨fun d num typ p r h => by simp [consumeValue] at h,
           fun d num p r h => by simp [consumeGroup] at h⟩
  | succ f ih =>
    obtain ⟨ihV, ihG⟩ := ih
    refine ⟨?_, ?_⟩
    · intro d num typ p r h
      rw [consumeValue] at h
      split at h
      · split at h
        · rename_i v rest hcv
          simp only [Res.ok.injEq] at h; subst h
          exact consumeVarint_suffix hcv
        · simp at h
        · simp at h
      split at h
      · split at h
        · simp at h
        · simp only [Res.ok.injEq] at h; subst h
          exact ⟨p.take 4, (List.take_append_drop 4 p).symm⟩
      split at h
      · split at h
        · simp at h
        · simp only [Res.ok.injEq] at h; subst h
          exact ⟨p.take 8, (List.take_append_drop 8 p).symm⟩
      split at h
      · split at h
        · rename_i v rest hcv
          split at h
          · simp at h
          · simp only [Res.ok.injEq] at h; subst h
            obtain ⟨pre, hp⟩ := consumeVarint_suffix hcv
            exact ⟨pre ++ rest.take v, by rw [List.append_assoc, List.take_append_drop]; exact hp⟩
        · simp at h
        · simp at h
      split at h
      · split at h
        · simp at h
        · exact ihG _ _ _ _ h
      split at h <;> simp at h
    · intro d num p r h
      rw [consumeGroup] at h
      split at h
      · rename_i num2 typ2 rest ht
        obtain ⟨pre, hp⟩ := consumeTag_suffix ht
        split at h
        · split at h
          · simp only [Res.ok.injEq] at h; subst h
            exact ⟨pre, hp⟩
          · simp at h
        · split at h
          · rename_i rest2 hv
            obtain ⟨pre2, hp2⟩ := ihV _ _ _ _ _ hv
            obtain ⟨pre3, hp3⟩ := ihG _ _ _ _ h
            exact ⟨pre ++ pre2 ++ pre3, by rw [hp, hp2, hp3]; simp⟩
          · simp at h
          · simp at h
      · simp at h
      · simp at h

theorem drop_length_sub_of_suffix {α} {p pre r : List α} (h : p = pre ++ r) :
    p.drop (p.length - r.length) = r := by
  subst h; simp

theorem take_length_sub_of_suffix {α} {p pre r : List α} (h : p = pre ++ r) :
    p.take (p.length - r.length) = pre := by
  subst h; simp

/-- One unknown record: protowire's two-step `ConsumeTag`/`ConsumeFieldValue` against `runtime.Skip`
    on the whole record. -/
theorem unknown_record {bs : Bytes} {num wt : Nat} {r r' : Bytes} {f d : Nat}
    (ht : consumeTag bs = .ok (num, wt, r)) (hv : consumeValue f d num wt r = .ok r')
    (hl : bs.length < 9223372036854775808) :
    skip bs = .ok (bs.length - r'.length) ∧ r'.length < bs.length ∧
      bs.drop (bs.length - r'.length) = r' := by
  obtain ⟨hlt, hV⟩ := (skip_consume f).1 d num wt bs r r' 0 ht hv (by omega)
  refine ⟨?_, hlt, ?_⟩
  · rw [skip_eq_skipL, hV 0]; simp
  · obtain ⟨pre1, hp1⟩ := consumeTag_suffix ht
    obtain ⟨pre2, hp2⟩ := (consume_suffix f).1 _ _ _ _ _ hv
    exact drop_length_sub_of_suffix (pre := pre1 ++ pre2) (by rw [hp1, hp2]; simp)

/-! ## scalars -/

theorem wireType_eq (k : Kind) : Extracted.wireType k = k.specWireType := by cases k <;> rfl

theorem specWireType_ne_4 (k : Kind) : k.specWireType ≠ 4 := by cases k <;> decide

theorem specWireType_eq_2 (k : Kind) : k.specWireType = 2 ↔ k.isBlob = true := by cases k <;> decide

theorem readLenDelim_of_consume {r r1 : Bytes} {n : Nat} (h : consumeVarint r = .ok (n, r1))
    (hn : ¬ n > r1.length) (hl : r.length < 9223372036854775808) :
    readLenDelim r = .ok (r1.take n, r1.drop n) := by
  have := consumeVarint_length h
  unfold readLenDelim
  simp only [readVarint_of_consumeVarint h]
  rw [if_neg (by omega), if_neg hn]
  simp only [sliceTo]
  rw [if_pos (by omega)]

theorem specReadScalar_impl {k : Kind} {r r' : Bytes} {v : Val}
    (hl : r.length < 9223372036854775808)
    (h : specReadScalar k r = .ok (v, r')) : implReadScalar k r = .ok (v, r') := by
  cases k
  case string | bytes =>
    simp only [specReadScalar] at h
    split at h
    · rename_i n r1 hcv
      split at h
      · simp at h
      · rename_i hn
        split at h
        · simp at h
        · simp only [Res.ok.injEq, Prod.mk.injEq] at h
          obtain ⟨rfl, rfl⟩ := h
          simp [implReadScalar, readLenDelim_of_consume hcv hn hl]
    · simp at h
    · simp at h
  case double | fixed64 | sfixed64 | float | fixed32 | sfixed32 =>
    simp only [specReadScalar] at h
    split at h
    · simp at h
    · rename_i hlen
      simp only [Res.ok.injEq, Prod.mk.injEq] at h
      obtain ⟨rfl, rfl⟩ := h
      simp only [implReadScalar, readFixed, sliceTo]
      rw [if_neg (by omega), if_pos (by omega)]
  all_goals
    simp only [specReadScalar] at h
    split at h
    · rename_i n r1 hcv
      simp only [Res.ok.injEq, Prod.mk.injEq] at h
      obtain ⟨rfl, rfl⟩ := h
      simp [implReadScalar, readVarint_of_consumeVarint hcv]
    · simp at h
    · simp at h

theorem specReadScalar_append {k : Kind} {p r : Bytes} {v : Val} (t : Bytes)
    (h : specReadScalar k p = .ok (v, r)) : specReadScalar k (p ++ t) = .ok (v, r ++ t) := by
  cases k
  case string | bytes =>
    simp only [specReadScalar] at h ⊢
    split at h
    · rename_i n r1 hcv
      simp only [consumeVarint_append t hcv]
      split at h
      · simp at h
      · rename_i hn
        have : ¬ n > (r1 ++ t).length := by simp only [List.length_append]; omega
        rw [if_neg this, take_append_of_le' _ _ _ (by omega), drop_append_of_le _ _ _ (by omega)]
        split at h
        · simp at h
        · rename_i hu
          rw [if_neg hu]
          simp only [Res.ok.injEq, Prod.mk.injEq] at h ⊢
          obtain ⟨rfl, rfl⟩ := h
          exact ⟨rfl, rfl⟩
    · simp at h
    · simp at h
  case double | fixed64 | sfixed64 | float | fixed32 | sfixed32 =>
    simp only [specReadScalar] at h ⊢
    split at h
    · simp at h
    · rename_i hlen
      simp only [Res.ok.injEq, Prod.mk.injEq] at h
      obtain ⟨rfl, rfl⟩ := h
      rw [if_neg (by simp only [List.length_append]; omega),
        take_append_of_le' _ _ _ (by omega), drop_append_of_le _ _ _ (by omega)]
  all_goals
    simp only [specReadScalar] at h ⊢
    split at h
    · rename_i n r1 hcv
      simp only [Res.ok.injEq, Prod.mk.injEq] at h
      obtain ⟨rfl, rfl⟩ := h
      simp [consumeVarint_append t hcv]
    · simp at h
    · simp at h

theorem specReadScalar_length {k : Kind} {p r : Bytes} {v : Val}
    (h : specReadScalar k p = .ok (v, r)) : r.length < p.length := by
  cases k
  case string | bytes =>
    simp only [specReadScalar] at h
    split at h
    · rename_i n r1 hcv
      have := consumeVarint_length hcv
      split at h
      · simp at h
      · split at h
        · simp at h
        · simp only [Res.ok.injEq, Prod.mk.injEq] at h
          obtain ⟨_, rfl⟩ := h
          simp only [List.length_drop]; omega
    · simp at h
    · simp at h
  case double | fixed64 | sfixed64 | float | fixed32 | sfixed32 =>
    simp only [specReadScalar] at h
    split at h
    · simp at h
    · simp only [Res.ok.injEq, Prod.mk.injEq] at h
      obtain ⟨_, rfl⟩ := h
      simp only [List.length_drop]; omega
  all_goals
    simp only [specReadScalar] at h
    split at h
    · rename_i n r1 hcv
      have := consumeVarint_length hcv
      simp only [Res.ok.injEq, Prod.mk.injEq] at h
      obtain ⟨_, rfl⟩ := h
      exact this
    · simp at h
    · simp at h

/-- a scalar read never yields a typed-nil wrapper / nil / message (it is `.bits` or `.blob`). -/
theorem specReadScalar_shape {k : Kind} {p r : Bytes} {v : Val}
    (h : specReadScalar k p = .ok (v, r)) : (∃ n, v = .bits n) ∨ (∃ f b, v = .blob f b) := by
  cases k
  case string | bytes =>
    simp only [specReadScalar] at h
    split at h
    · split at h
      · simp at h
      · split at h
        · simp at h
        · simp only [Res.ok.injEq, Prod.mk.injEq] at h
          obtain ⟨rfl, _⟩ := h
          exact Or.inr ⟨_, _, rfl⟩
    · simp at h
    · simp at h
  case double | fixed64 | sfixed64 | float | fixed32 | sfixed32 =>
    simp only [specReadScalar] at h
    split at h
    · simp at h
    · simp only [Res.ok.injEq, Prod.mk.injEq] at h
      obtain ⟨rfl, _⟩ := h
      exact Or.inl ⟨_, rfl⟩
  all_goals
    simp only [specReadScalar] at h
    split at h
    · simp only [Res.ok.injEq, Prod.mk.injEq] at h
      obtain ⟨rfl, _⟩ := h
      exact Or.inl ⟨_, rfl⟩
    · simp at h
    · simp at h

/-! ## packed runs -/

theorem packed_agree (k : Kind) : ∀ (fuel : Nat) (p t : Bytes) (acc vs : List Val),
    p.length ≤ fuel → (p ++ t).length < 9223372036854775808 →
    specPackedLoop k fuel p acc = .ok vs →
    implPackedLoop k fuel (p ++ t) p.length acc = .ok (vs, t) := by
  intro fuel
  induction fuel with
  | zero =>
    intro p t acc vs hf _ h
    have : p = [] := List.eq_nil_of_length_eq_zero (by omega)
    subst this
    simp only [specPackedLoop, Res.ok.injEq] at h; subst h
    simp [implPackedLoop]
  | succ fuel ih =>
    intro p t acc vs hf hl h
    rw [specPackedLoop] at h
    rw [implPackedLoop]
    split at h
    · rename_i hp; subst hp
      simp only [Res.ok.injEq] at h; subst h
      simp
    · rename_i hp
      have hp0 : p.length ≠ 0 := fun e => hp (List.eq_nil_of_length_eq_zero e)
      rw [if_neg hp0]
      split at h
      · rename_i v r hs
        have hlen := specReadScalar_length hs
        have hi := specReadScalar_impl hl (specReadScalar_append t hs)
        simp only [hi]
        have e : p.length - ((p ++ t).length - (r ++ t).length) = r.length := by
          simp only [List.length_append]; omega
        rw [e]
        exact ih r t _ vs (by omega) (by simp only [List.length_append] at hl ⊢; omega) h
      · simp at h
      · simp at h

end Pulsar
