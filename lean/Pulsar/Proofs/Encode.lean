/-
  Pulsar.Proofs.Encode — umbrella for the encoder proofs (C02/C04/C05 helper lemmas):
  EncodeScalar (keys, scalars) · EncodeSort (insertion sorts) · EncodeField (field level) ·
  EncodeOrder (buffer + field order) · EncodeMsg (message/tree level) · EncodeTop (entry points) ·
  EncodeKeyOrder (map-key order) · EncodeRep (option/representation independence) ·
  EncodeExample (concrete schema and values for the non-vacuity examples).
-/
import Pulsar.Typing
import Pulsar.Proofs.Runtime
import Pulsar.Proofs.EncodeScalar
import Pulsar.Proofs.EncodeSort
import Pulsar.Proofs.EncodeField
import Pulsar.Proofs.EncodeOrder
import Pulsar.Proofs.EncodeMsg
import Pulsar.Proofs.EncodeTop
import Pulsar.Proofs.EncodeKeyOrder
import Pulsar.Proofs.EncodeRep
import Pulsar.Proofs.EncodeExample
