/-
  Pulsar.Proofs.EncodeKeyOrder — Go `<` on map keys (`keyLt`) is a strict total order on in-range keys:
  transitive, asymmetric, and total on keys that differ (`kbeqOf`). Consequently `sortEntries` of a
  list with distinct keys is strictly sorted, and sorting an already sorted list is the identity.
-/
import Pulsar.Proofs.EncodeScalar
import Pulsar.Proofs.EncodeSort
namespace Pulsar

theorem bytesLt_trans : ∀ (a b c : Bytes), bytesLt a b = true → bytesLt b c = true → bytesLt a c = true
  | [], [], _, h, _ => by simp [bytesLt] at h
  | [], _ :: _, [], _, h => by simp [bytesLt] at h
  | [], _ :: _, _ :: _, _, _ => by simp [bytesLt]
  | _ :: _, [], _, h, _ => by simp [bytesLt] at h
  | _ :: _, _ :: _, [], _, h => by simp [bytesLt] at h
  | x :: xs, y :: ys, z :: zs, h1, h2 => by
    simp only [bytesLt, Bool.or_eq_true, decide_eq_true_eq, Bool.and_eq_true, beq_iff_eq] at *
    rcases h1 with h1 | ⟨rfl, h1⟩ <;> rcases h2 with h2 | ⟨rfl, h2⟩
    · left; exact UInt8.lt_trans h1 h2
    · left; exact h1
    · left; exact h2
    · right; exact ⟨rfl, bytesLt_trans xs ys zs h1 h2⟩

theorem bytesLt_irrefl : ∀ (a : Bytes), bytesLt a a = false
  | [] => rfl
  | x :: xs => by simp [bytesLt, bytesLt_irrefl xs, UInt8.lt_irrefl]

theorem bytesLt_total : ∀ (a b : Bytes), a ≠ b → bytesLt a b = true ∨ bytesLt b a = true
  | [], [], h => absurd rfl h
  | [], _ :: _, _ => by simp [bytesLt]
  | _ :: _, [], _ => by simp [bytesLt]
  | x :: xs, y :: ys, h => by
    simp only [bytesLt, Bool.or_eq_true, decide_eq_true_eq, Bool.and_eq_true, beq_iff_eq]
    by_cases hxy : x = y
    · subst hxy
      have : xs ≠ ys := fun h' => h (h' ▸ rfl)
      rcases bytesLt_total xs ys this with h' | h'
      · exact Or.inl (Or.inr ⟨rfl, h'⟩)
      · exact Or.inr (Or.inr ⟨rfl, h'⟩)
    · have : x.toNat ≠ y.toNat := fun h' => hxy (UInt8.toNat_inj.1 h')
      rcases Nat.lt_or_gt_of_ne this with h' | h'
      · exact Or.inl (Or.inl (UInt8.lt_iff_toNat_lt.2 h'))
      · exact Or.inr (Or.inl (UInt8.lt_iff_toNat_lt.2 h'))

theorem keyLt_trans (kk : Kind) (a b c : Val) :
    keyLt kk a b = true → keyLt kk b c = true → keyLt kk a c = true := by
  cases kk <;> simp only [keyLt, decide_eq_true_eq] <;>
    first
    | exact bytesLt_trans _ _ _
    | (intro h1 h2; omega)

theorem keyLt_irrefl (kk : Kind) (a : Val) : keyLt kk a a = false := by
  cases kk <;> simp [keyLt, bytesLt_irrefl]

theorem keyLt_asymm (kk : Kind) (a b : Val) : keyLt kk a b = true → keyLt kk b a = true → False := by
  intro h1 h2
  have := keyLt_trans kk a b a h1 h2
  rw [keyLt_irrefl] at this
  cases this

theorem scalarOK_blob {k : Kind} {v : Val} (h : scalarOK k v = true) (hk : k.isBlob = true) :
    ∃ nn b, v = .blob nn b := by
  cases v <;> simp [scalarOK, hk] at h
  exact ⟨_, _, rfl⟩

theorem toInt32_inj {n m : Nat} (hn : n < 4294967296) (hm : m < 4294967296) (h : n ≠ m) :
    toInt32 n < toInt32 m ∨ toInt32 m < toInt32 n := by
  unfold toInt32 wrap32
  simp only
  split <;> split <;> omega

theorem toInt64_inj {n m : Nat} (hn : n < 18446744073709551616) (hm : m < 18446744073709551616) (h : n ≠ m) :
    toInt64 n < toInt64 m ∨ toInt64 m < toInt64 n := by
  unfold toInt64 wrap64
  simp only
  split <;> split <;> omega

theorem keyLt_total (kk : Kind) (a b : Val) (ha : scalarOK kk a = true) (hb : scalarOK kk b = true)
    (hne : kbeqOf kk a b = false) : keyLt kk a b = true ∨ keyLt kk b a = true := by
  by_cases hblob : kk.isBlob = true
  · obtain ⟨_, x, rfl⟩ := scalarOK_blob ha hblob
    obtain ⟨_, y, rfl⟩ := scalarOK_blob hb hblob
    have hxy : x ≠ y := by simpa [kbeqOf, hblob, Val.getBlob] using hne
    cases kk <;> simp [Kind.isBlob] at hblob <;> exact bytesLt_total x y hxy
  · have hblob' : kk.isBlob = false := by simpa using hblob
    obtain ⟨n, hae, hn⟩ := scalarOK_bits ha hblob'
    obtain ⟨m, hbe, hm⟩ := scalarOK_bits hb hblob'
    have hnm : a.getBits ≠ b.getBits := by simpa [kbeqOf, hblob'] using hne
    have hn' : n = a.getBits := by rw [hae]; rfl
    have hm' : m = b.getBits := by rw [hbe]; rfl
    rw [hn'] at hn; rw [hm'] at hm
    clear hae hbe hn' hm' ha hb hne
    cases kk
    case int32 | sint32 | sfixed32 =>
      simp [Kind.width] at hn hm
      simp only [keyLt, decide_eq_true_eq]
      exact toInt32_inj hn hm hnm
    case int64 | sint64 | sfixed64 =>
      simp [Kind.width] at hn hm
      simp only [keyLt, decide_eq_true_eq]
      exact toInt64_inj hn hm hnm
    case string | bytes => simp [Kind.isBlob] at hblob'
    all_goals
      simp only [keyLt, decide_eq_true_eq]
      omega

/-! ### distinct keys -/

theorem kbeqOf_comm (kk : Kind) (a b : Val) : kbeqOf kk a b = kbeqOf kk b a := by
  unfold kbeqOf; split <;> exact Bool.beq_comm

theorem distinctKeys_iff (kk : Kind) (es : List Val) :
    distinctKeys kk es = true ↔ es.Pairwise (fun e e' => kbeqOf kk e.key e'.key = false) := by
  induction es with
  | nil => simp [distinctKeys]
  | cons e es ih =>
    simp only [distinctKeys, Bool.and_eq_true, Bool.not_eq_true', List.any_eq_false, ih,
      List.pairwise_cons]
    constructor
    · rintro ⟨h1, h2⟩
      exact ⟨fun e' he' => by rw [kbeqOf_comm]; simpa using h1 e' he', h2⟩
    · rintro ⟨h1, h2⟩
      exact ⟨fun e' he' => by rw [kbeqOf_comm]; simp [h1 e' he'], h2⟩

/-- the comparison `sortEntries` sorts by. -/
def entryLt (kk : Kind) (a b : Val) : Bool := keyLt kk a.key b.key

theorem sortEntries_eq_isort (kk : Kind) (es : List Val) : sortEntries kk es = isort (entryLt kk) es := by
  unfold sortEntries; rw [sortBy_eq]; rfl

theorem entryLt_trans (kk : Kind) (a b c : Val) :
    entryLt kk a b = true → entryLt kk b c = true → entryLt kk a c = true := by
  unfold entryLt; exact keyLt_trans kk a.key b.key c.key

theorem entryLt_asymm (kk : Kind) (a b : Val) : entryLt kk a b = true → entryLt kk b a = true → False := by
  unfold entryLt; exact keyLt_asymm kk a.key b.key

/-- `sortEntries` on in-range, pairwise distinct keys is strictly sorted. -/
theorem sortEntries_sorted (kk : Kind) (es : List Val)
    (hok : ∀ en ∈ es, scalarOK kk en.key = true) (hd : distinctKeys kk es = true) :
    (sortEntries kk es).Pairwise (fun a b => entryLt kk a b = true) := by
  rw [sortEntries_eq_isort]
  apply isort_pairwise (entryLt kk) (entryLt_trans kk)
  have hp := (distinctKeys_iff kk es).1 hd
  exact hp.imp_of_mem (fun {a b} ha hb h => keyLt_total kk a.key b.key (hok a ha) (hok b hb) h)

/-- sorting a strictly sorted list changes nothing. -/
theorem sortEntries_of_sorted (kk : Kind) (l : List Val)
    (h : l.Pairwise (fun a b => entryLt kk a b = true)) : sortEntries kk l = l := by
  rw [sortEntries_eq_isort]
  exact isort_of_sorted _ (entryLt_trans kk) (entryLt_asymm kk) l h

end Pulsar
